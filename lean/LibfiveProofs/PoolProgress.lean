/-
  Termination half of C11 for the worker-pool model (LibfiveModel/Pool.lean):
    * `Place` / `Own` — the cell-ownership invariant (every created cell is in exactly one place:
      queued, held by exactly one worker (eval / split / ascend), waiting on its children, finished),
      with the `pending` counter accounting of every branch; proved by induction over `run`
    * `measure` — a natural-number measure that every accepted non-spinning step strictly decreases
      and no spinning step increases
    * deadlock freedom and the characterisation of the terminal states
-/
import LibfiveProofs.Pool

set_option linter.unusedSimpArgs false
set_option linter.unusedVariables false

namespace Libfive.Pool

/-! ## small list lemmas -/

theorem exists_fresh (l : List Nat) : ∃ x, x ∉ l := by
  have h : ∀ x ∈ l, x ≤ l.sum := by
    intro x hx
    induction l with
    | nil => simp at hx
    | cons a t ih =>
      simp only [List.sum_cons]
      rcases List.mem_cons.1 hx with rfl | h
      · omega
      · have := ih h; omega
  exact ⟨l.sum + 1, fun hm => by have := h _ hm; omega⟩

/-- changing a summand at one position of a duplicate-free index list -/
theorem sum_map_update (l : List Nat) (hnd : l.Nodup) (w : Nat) (hw : w ∈ l) (f g : Nat → Nat)
    (h : ∀ x ∈ l, x ≠ w → g x = f x) : (l.map g).sum + f w = (l.map f).sum + g w := by
  induction l with
  | nil => simp at hw
  | cons a t ih =>
    have hnd' := List.nodup_cons.1 hnd
    simp only [List.map_cons, List.sum_cons]
    by_cases haw : a = w
    · subst haw
      have : t.map g = t.map f := by
        apply List.map_congr_left
        intro x hx
        exact h x (List.mem_cons_of_mem _ hx) (fun e => hnd'.1 (e ▸ hx))
      rw [this]; omega
    · have hwt : w ∈ t := by
        rcases List.mem_cons.1 hw with e | e
        · exact absurd e.symm haw
        · exact e
      have := ih hnd'.2 hwt (fun x hx hxw => h x (List.mem_cons_of_mem _ hx) hxw)
      have hga : g a = f a := h a (List.mem_cons_self ..) haw
      omega

theorem sum_map_erase {α : Type} [BEq α] [LawfulBEq α] (l : List α) (a : α) (ha : a ∈ l) (f : α → Nat) :
    ((l.erase a).map f).sum + f a = (l.map f).sum := by
  induction l with
  | nil => simp at ha
  | cons b t ih =>
    by_cases hba : b = a
    · subst hba; simp; omega
    · have hat : a ∈ t := by
        rcases List.mem_cons.1 ha with e | e
        · exact absurd e.symm hba
        · exact e
      have := ih hat
      have he : (b :: t).erase a = b :: t.erase a := by
        rw [List.erase_cons_tail]; simpa using hba
      rw [he]
      simp only [List.map_cons, List.sum_cons]
      omega

/-- switching a predicate off at one element of a duplicate-free list -/
theorem countP_switch_off (l : List Nat) (hnd : l.Nodup) (c : Nat) (hc : c ∈ l) (P P' : Nat → Bool)
    (hPc : P c = true) (hP'c : P' c = false) (h : ∀ x ∈ l, x ≠ c → P' x = P x) :
    l.countP P' + 1 = l.countP P := by
  induction l with
  | nil => simp at hc
  | cons a t ih =>
    have hnd' := List.nodup_cons.1 hnd
    by_cases hac : a = c
    · subst hac
      have : t.countP P' = t.countP P := by
        apply List.countP_congr
        intro x hx
        rw [h x (List.mem_cons_of_mem _ hx) (fun e => hnd'.1 (e ▸ hx))]
      simp [List.countP_cons, hPc, hP'c, this]
    · have hct : c ∈ t := by
        rcases List.mem_cons.1 hc with e | e
        · exact absurd e.symm hac
        · exact e
      have := ih hnd'.2 hct (fun x hx hxc => h x (List.mem_cons_of_mem _ hx) hxc)
      have ha : P' a = P a := h a (List.mem_cons_self ..) hac
      simp only [List.countP_cons, ha]
      omega

/-! ## inversion of `step` -/

theorem step_loop_inv {s s' : S} {w : Nat} (h : step s (.loop w) = some s') :
    s.act w = .idle ∧ s.done = false ∧ s.cancel = false ∧ s' = { s with act := upd s.act w .inLoop } := by
  simp only [step] at h
  split at h
  · rename_i hc
    simp only [Option.some.injEq] at h
    exact ⟨hc.1, hc.2.1, hc.2.2, h.symm⟩
  · simp at h

theorem step_exitLoop_inv {s s' : S} {w : Nat} (h : step s (.exitLoop w) = some s') :
    s.act w = .idle ∧ (s.done = true ∨ s.cancel = true) ∧
      s' = { s with act := upd s.act w .exited, done := true } := by
  simp only [step] at h
  split at h
  · rename_i hc
    simp only [Option.some.injEq] at h
    exact ⟨hc.1, hc.2, h.symm⟩
  · simp at h

theorem step_noTask_inv {s s' : S} {w : Nat} (h : step s (.noTask w) = some s') :
    s.act w = .inLoop ∧ s' = { s with act := upd s.act w .idle } := by
  simp only [step] at h
  split at h
  · rename_i hc
    simp only [Option.some.injEq] at h
    exact ⟨hc.1, h.symm⟩
  · simp at h

theorem step_pop_inv {s s' : S} {w c : Nat} (h : step s (.pop w c) = some s') :
    s.act w = .inLoop ∧
    ((∃ e, e ∈ s.loc ∧ e.2 = c ∧
        s' = { s with loc := s.loc.erase e, act := upd s.act w (.eval c), popped := c :: s.popped }) ∨
     (c ∈ s.bag ∧
        s' = { s with bag := s.bag.erase c, act := upd s.act w (.eval c), popped := c :: s.popped })) := by
  simp only [step] at h
  split at h
  · rename_i ha
    refine ⟨ha, ?_⟩
    split at h
    · rename_i e he
      split at h
      · rename_i hc
        simp only [Option.some.injEq] at h
        exact Or.inl ⟨e, List.mem_of_find?_eq_some he, hc, h.symm⟩
      · simp at h
    · split at h
      · rename_i hc
        simp only [Option.some.injEq] at h
        exact Or.inr ⟨hc, h.symm⟩
      · simp at h
  · simp at h

theorem step_push_inv {s s' : S} {w child : Nat} {tl : Bool} (h : step s (.push w child tl) = some s') :
    ∃ c, s.act w = .split c ∧ child ∉ s.created ∧ 0 < s.level c ∧ s.kids c < s.n ∧
      s' = { s with
          act := upd s.act w (if s.kids c + 1 = s.n then .idle else .split c)
          bag := if tl then s.bag else child :: s.bag
          loc := if tl then (w, child) :: s.loc else s.loc
          level := upd s.level child (s.level c - 1)
          parent := upd s.parent child (some c)
          created := child :: s.created
          kids := upd (upd s.kids c (s.kids c + 1)) child 0
          pending := upd s.pending child (s.n - 1)
          pushed := child :: s.pushed } := by
  simp only [step] at h
  split at h
  · rename_i c hc
    split at h
    · rename_i hg
      simp only [Option.some.injEq] at h
      exact ⟨c, hc, hg.1, hg.2.1, hg.2.2.1, h.symm⟩
    · simp at h
  · simp at h

theorem step_evalDone_inv {s s' : S} {w : Nat} {k : Kind} (h : step s (.evalDone w k) = some s') :
    ∃ c, s.act w = .eval c ∧ s.kids c = 0 ∧
      ((k = .amb ∧ 0 < s.level c ∧ 0 < s.n ∧ s' = { s with act := upd s.act w (.split c) }) ∨
       (k ≠ .amb ∧ s' = { s with act := upd s.act w (.ascend c) })) := by
  simp only [step] at h
  split at h
  · rename_i c hc
    refine ⟨c, hc, ?_⟩
    cases k <;> simp only at h <;> split at h
    · rename_i hg; simp only [Option.some.injEq] at h
      exact ⟨hg.1, Or.inl ⟨rfl, hg.2.1, hg.2.2, h.symm⟩⟩
    · simp at h
    · rename_i hg; simp only [Option.some.injEq] at h
      exact ⟨hg.1, Or.inr ⟨by simp, h.symm⟩⟩
    · simp at h
    · rename_i hg; simp only [Option.some.injEq] at h
      exact ⟨hg.1, Or.inr ⟨by simp, h.symm⟩⟩
    · simp at h
  · simp at h

theorem step_collect_inv {s s' : S} {w : Nat} {last : Bool} (h : step s (.collect w last) = some s') :
    ∃ c p, s.act w = .ascend c ∧ s.parent c = some p ∧ (last = true ↔ s.pending p = 0) ∧
      s' = { s with
          pending := upd s.pending p (fetchSub (s.pending p)).2
          collected := if last then p :: s.collected else s.collected
          act := upd s.act w (if last then .ascend p else .idle) } := by
  simp only [step] at h
  split at h
  · rename_i c hc
    split at h
    · rename_i p hp
      split at h
      · rename_i hl
        simp only [Option.some.injEq] at h
        exact ⟨c, p, hc, hp, by simp [hl, fetchSub], h.symm⟩
      · simp at h
    · simp at h
  · simp at h

theorem step_exitRoot_inv {s s' : S} {w : Nat} (h : step s (.exitRoot w) = some s') :
    ∃ c, s.act w = .ascend c ∧ s.parent c = none ∧
      s' = { s with act := upd s.act w .exited, done := true } := by
  simp only [step] at h
  split at h
  · rename_i c hc
    split at h
    · rename_i hp
      simp only [Option.some.injEq] at h
      exact ⟨c, hc, hp, h.symm⟩
    · simp at h
  · simp at h

/-! ## cell ownership -/

/-- where a cell is -/
inductive Place
  | free                 -- not created
  | queued               -- in the lock-free stack or a local stack
  | eval (w : Nat)       -- popped by `w`, being evaluated
  | split (w : Nat)      -- ambiguous; `w` is pushing its children
  | asc (w : Nat)        -- complete; `w` is about to do `pending--` on its parent (or leave at the root)
  | waiting              -- all children pushed, not all of them finished
  | finished             -- its `pending--` on the parent (or the exit at the root) has executed
deriving DecidableEq, Repr

/-- a branch whose children are not all in yet -/
@[simp] def Place.branch : Place → Bool
  | .waiting | .split _ => true
  | _ => false

/-- not yet evaluated -/
@[simp] def Place.fresh : Place → Bool
  | .queued | .eval _ => true
  | _ => false

/-- complete (leaf / unambiguous / collected) -/
@[simp] def Place.complete : Place → Bool
  | .finished | .asc _ => true
  | _ => false

/-- number of children of `p` that are not finished -/
def unfin (cr : List Nat) (par : Nat → Option Nat) (own : Nat → Place) (p : Nat) : Nat :=
  cr.countP (fun c => decide (par c = some p ∧ own c ≠ .finished))

theorem unfin_congr {cr : List Nat} {par par' : Nat → Option Nat} {own own' : Nat → Place} {p : Nat}
    (h : ∀ x ∈ cr, (par' x = some p ∧ own' x ≠ .finished) ↔ (par x = some p ∧ own x ≠ .finished)) :
    unfin cr par' own' p = unfin cr par own p := by
  unfold unfin
  apply List.countP_congr
  intro x hx
  simp only [decide_eq_true_eq]
  exact h x hx

theorem unfin_cons (a : Nat) (cr : List Nat) (par : Nat → Option Nat) (own : Nat → Place) (p : Nat) :
    unfin (a :: cr) par own p =
      unfin cr par own p + (if par a = some p ∧ own a ≠ .finished then 1 else 0) := by
  unfold unfin
  rw [List.countP_cons]
  by_cases h : par a = some p ∧ own a ≠ .finished
  · simp [h]
  · simp [h]

theorem unfin_switch {cr : List Nat} {par : Nat → Option Nat} {own own' : Nat → Place} {p c : Nat}
    (hnd : cr.Nodup) (hc : c ∈ cr) (hp : par c = some p) (ho : own c ≠ .finished)
    (ho' : own' c = .finished) (h : ∀ x ∈ cr, x ≠ c → own' x = own x) :
    unfin cr par own' p + 1 = unfin cr par own p := by
  unfold unfin
  apply countP_switch_off cr hnd c hc
  · simp [hp, ho]
  · simp [ho']
  · intro x hx hxc
    rw [h x hx hxc]

theorem unfin_pos {cr : List Nat} {par : Nat → Option Nat} {own : Nat → Place} {p : Nat}
    (h : 0 < unfin cr par own p) : ∃ c ∈ cr, par c = some p ∧ own c ≠ .finished := by
  unfold unfin at h
  obtain ⟨c, hc, hP⟩ := List.countP_pos_iff.1 h
  exact ⟨c, hc, by simpa using hP⟩

theorem unfin_zero {cr : List Nat} {par : Nat → Option Nat} {own : Nat → Place} {p : Nat}
    (h : unfin cr par own p = 0) : ∀ c ∈ cr, par c = some p → own c = .finished := by
  intro c hc hp
  by_cases ho : own c = .finished
  · exact ho
  · have : 0 < unfin cr par own p := by
      unfold unfin
      exact List.countP_pos_iff.2 ⟨c, hc, by simp [hp, ho]⟩
    omega

theorem unfin_no_children {cr : List Nat} {par : Nat → Option Nat} {own : Nat → Place} {p : Nat}
    (h : ∀ x ∈ cr, par x ≠ some p) : unfin cr par own p = 0 := by
  unfold unfin
  rw [List.countP_eq_zero]
  intro x hx
  simp [h x hx]

/-- the ghost: how one event moves cells between places -/
def gown (s : S) (own : Nat → Place) : Ev → Nat → Place
  | .pop w c => upd own c (.eval w)
  | .evalDone w k =>
    match s.act w with
    | .eval c => upd own c (match k with | .amb => .split w | _ => .asc w)
    | _ => own
  | .push w child _ =>
    match s.act w with
    | .split c => upd (upd own child .queued) c (if s.kids c + 1 = s.n then .waiting else .split w)
    | _ => own
  | .collect w last =>
    match s.act w with
    | .ascend c =>
      match s.parent c with
      | some p => if last then upd (upd own c .finished) p (.asc w) else upd own c .finished
      | none => own
    | _ => own
  | .exitRoot w =>
    match s.act w with
    | .ascend c => upd own c .finished
    | _ => own
  | _ => own

/-- **The cell-ownership invariant** for `W` workers and a root of level `L`: `own` says where
    every cell is, and the state agrees with it. -/
structure Own (W L : Nat) (s : S) (own : Nat → Place) : Prop where
  q : Q s
  cr_eq : s.created = s.pushed
  root_mem : 0 ∈ s.created
  root_parent : s.parent 0 = none
  lvl_le : ∀ c ∈ s.created, s.level c ≤ L
  par : ∀ c ∈ s.created, ∀ p, s.parent c = some p → p ∈ s.created ∧ s.level p = s.level c + 1
  par_none : ∀ c ∈ s.created, s.parent c = none → c = 0
  f_free : ∀ c, own c = .free ↔ c ∉ s.created
  f_queued : ∀ c, own c = .queued ↔ (c ∈ s.created ∧ c ∉ s.popped)
  f_eval : ∀ w c, own c = .eval w ↔ s.act w = .eval c
  f_split : ∀ w c, own c = .split w ↔ s.act w = .split c
  f_asc : ∀ w c, own c = .asc w ↔ s.act w = .ascend c
  k_zero : ∀ c, (own c).fresh = true →
    s.kids c = 0 ∧ s.pending c = s.n - 1 ∧ ∀ x ∈ s.created, s.parent x ≠ some c
  k_split : ∀ w c, own c = .split w → s.kids c < s.n ∧ 0 < s.level c
  k_wait : ∀ c, own c = .waiting → s.kids c = s.n ∧ 0 < s.level c
  pend : ∀ p, (own p).branch = true →
    s.pending p + 1 = (s.n - s.kids p) + unfin s.created s.parent own p
  child_par : ∀ c ∈ s.created, ∀ p, s.parent c = some p → own c ≠ .finished → (own p).branch = true
  coll : ∀ c, (own c).complete = true → s.kids c = 0 ∨ c ∈ s.collected
  fin_root : own 0 = .finished → s.done = true
  done_why : s.done = true → s.cancel = true ∨ own 0 = .finished
  exited_done : ∀ w, s.act w = .exited → s.done = true
  wk_big : ∀ w, W ≤ w → s.act w = .idle
  loc_lt : ∀ e ∈ s.loc, e.1 < W

def own0 : Nat → Place := fun c => if c = 0 then .queued else .free

theorem own_init (W n cap L : Nat) : Own W L (S.init n cap L) own0 := by
  refine
    { q := q_init n cap L, cr_eq := rfl, root_mem := by simp [S.init], root_parent := rfl,
      lvl_le := by simp [S.init], par := by simp [S.init], par_none := by simp [S.init],
      f_free := by intro c; by_cases h : c = 0 <;> simp [S.init, own0, h],
      f_queued := by intro c; by_cases h : c = 0 <;> simp [S.init, own0, h],
      f_eval := by intro w c; simp [S.init, own0]; split <;> simp,
      f_split := by intro w c; simp [S.init, own0]; split <;> simp,
      f_asc := by intro w c; simp [S.init, own0]; split <;> simp,
      k_zero := by intro c; simp [S.init, own0],
      k_split := by intro w c; simp [S.init, own0]; split <;> simp,
      k_wait := by intro c; simp [S.init, own0]; split <;> simp,
      pend := by intro p hp; by_cases h : p = 0 <;> simp [own0, h] at hp,
      child_par := by simp [S.init],
      coll := by intro c hc; by_cases h : c = 0 <;> simp [own0, h] at hc,
      fin_root := by simp [own0], done_why := by simp [S.init],
      exited_done := by simp [S.init], wk_big := by simp [S.init], loc_lt := by simp [S.init] }

theorem Own.mem_created {W L : Nat} {s : S} {own : Nat → Place} (hi : Own W L s own) {c : Nat}
    (h : own c ≠ .free) : c ∈ s.created := by
  by_cases hc : c ∈ s.created
  · exact hc
  · exact absurd ((hi.f_free c).2 hc) h

theorem Own.created_nodup {W L : Nat} {s : S} {own : Nat → Place} (hi : Own W L s own) :
    s.created.Nodup := hi.cr_eq ▸ hi.q.nodup

theorem Own.popped_sub {W L : Nat} {s : S} {own : Nat → Place} (hi : Own W L s own) {c : Nat}
    (h : c ∈ s.popped) : c ∈ s.created :=
  hi.q.sub c (hi.q.perm.mem_iff.2 (List.mem_append_left _ h))

theorem Own.queued_place {W L : Nat} {s : S} {own : Nat → Place} (hi : Own W L s own) {c : Nat}
    (h : c ∈ s.queued) : own c = .queued := by
  have hnd : (s.popped ++ s.queued).Nodup := hi.q.perm.nodup_iff.1 hi.q.nodup
  refine (hi.f_queued c).2 ⟨hi.q.sub c (hi.q.perm.mem_iff.2 (List.mem_append_right _ h)), ?_⟩
  intro hp
  exact (List.nodup_append.1 hnd).2.2 c hp c h rfl

/-! ## preservation -/

section
variable {W L : Nat} {s : S} {own : Nat → Place}

/-- a worker moving between the loop head and the task pick -/
theorem own_spin (hi : Own W L s own) (w : Nat) (hw : w < W) (a : Act)
    (h0 : s.act w = .idle ∨ s.act w = .inLoop) (h1 : a = .idle ∨ a = .inLoop) :
    Own W L { s with act := upd s.act w a } own := by
  exact
    { q := ⟨hi.q.nodup, hi.q.sub, hi.q.perm⟩, cr_eq := hi.cr_eq, root_mem := hi.root_mem,
      root_parent := hi.root_parent, lvl_le := hi.lvl_le, par := hi.par, par_none := hi.par_none,
      f_free := hi.f_free, f_queued := hi.f_queued,
      f_eval := by
        intro w' c; have := hi.f_eval w' c; have := hi.f_eval w c
        simp only [upd]; grind,
      f_split := by
        intro w' c; have := hi.f_split w' c; have := hi.f_split w c
        simp only [upd]; grind,
      f_asc := by
        intro w' c; have := hi.f_asc w' c; have := hi.f_asc w c
        simp only [upd]; grind,
      k_zero := hi.k_zero, k_split := hi.k_split, k_wait := hi.k_wait, pend := hi.pend,
      child_par := hi.child_par, coll := hi.coll, fin_root := hi.fin_root, done_why := hi.done_why,
      exited_done := by
        intro w'; have := hi.exited_done w'
        simp only [upd]; grind,
      wk_big := by
        intro w' hw'; have := hi.wk_big w' hw'
        simp only [upd]; grind,
      loc_lt := hi.loc_lt }

theorem own_pop (hi : Own W L s own) (w c : Nat) (hw : w < W) (ha : s.act w = .inLoop)
    (hc : c ∈ s.queued) (bag' : List Nat) (loc' : List (Nat × Nat))
    (hq' : Q { s with bag := bag', loc := loc', act := upd s.act w (.eval c), popped := c :: s.popped })
    (hloc : ∀ e ∈ loc', e ∈ s.loc) :
    Own W L { s with bag := bag', loc := loc', act := upd s.act w (.eval c), popped := c :: s.popped }
      (upd own c (.eval w)) := by
  have hoc : own c = .queued := hi.queued_place hc
  have hcc : c ∈ s.created := hi.mem_created (by simp [hoc])
  exact
    { q := hq', cr_eq := hi.cr_eq, root_mem := hi.root_mem,
      root_parent := hi.root_parent, lvl_le := hi.lvl_le, par := hi.par, par_none := hi.par_none,
      f_free := by
        intro c'; have := hi.f_free c'
        simp only [upd]; grind,
      f_queued := by
        intro c'; have := hi.f_queued c'
        simp only [upd, List.mem_cons]; grind,
      f_eval := by
        intro w' c'; have := hi.f_eval w' c'; have := hi.f_eval w c'; have := hi.f_eval w' c
        simp only [upd]; grind,
      f_split := by
        intro w' c'; have := hi.f_split w' c'; have := hi.f_split w c'; have := hi.f_split w' c
        simp only [upd]; grind,
      f_asc := by
        intro w' c'; have := hi.f_asc w' c'; have := hi.f_asc w c'; have := hi.f_asc w' c
        simp only [upd]; grind,
      k_zero := by
        intro c'; have := hi.k_zero c'; have := hi.k_zero c
        simp only [upd]; grind [Place.fresh],
      k_split := by
        intro w' c'; have := hi.k_split w' c'
        simp only [upd]; grind,
      k_wait := by
        intro c'; have := hi.k_wait c'
        simp only [upd]; grind,
      pend := by
        intro p hp
        have hpc : p ≠ c := by intro e; subst e; simp [upd] at hp
        have hp' : (own p).branch = true := by simpa [upd, hpc] using hp
        have := hi.pend p hp'
        have hu : unfin s.created s.parent (upd own c (.eval w)) p = unfin s.created s.parent own p := by
          apply unfin_congr; intro x hx; simp only [upd]; grind
        simp only [hu]; exact this,
      child_par := by
        intro c' hc' p hp; have := hi.child_par c' hc' p hp
        simp only [upd]; grind [Place.branch],
      coll := by
        intro c'; have := hi.coll c'
        simp only [upd]; grind [Place.complete],
      fin_root := by
        have := hi.fin_root
        simp only [upd]; grind,
      done_why := by
        have := hi.done_why
        simp only [upd]; grind,
      exited_done := by
        intro w'; have := hi.exited_done w'
        simp only [upd]; grind,
      wk_big := by
        intro w' hw'; have := hi.wk_big w' hw'
        simp only [upd]; grind,
      loc_lt := fun e he => hi.loc_lt e (hloc e he) }

theorem own_cancel (hi : Own W L s own) : Own W L { s with cancel := true } own :=
  { q := ⟨hi.q.nodup, hi.q.sub, hi.q.perm⟩, cr_eq := hi.cr_eq, root_mem := hi.root_mem,
    root_parent := hi.root_parent, lvl_le := hi.lvl_le, par := hi.par, par_none := hi.par_none,
    f_free := hi.f_free, f_queued := hi.f_queued, f_eval := hi.f_eval, f_split := hi.f_split,
    f_asc := hi.f_asc, k_zero := hi.k_zero, k_split := hi.k_split, k_wait := hi.k_wait,
    pend := hi.pend, child_par := hi.child_par, coll := hi.coll, fin_root := hi.fin_root,
    done_why := fun _ => Or.inl rfl, exited_done := hi.exited_done, wk_big := hi.wk_big,
    loc_lt := hi.loc_lt }

theorem own_exitLoop (hi : Own W L s own) (w : Nat) (hw : w < W) (ha : s.act w = .idle)
    (hd : s.done = true ∨ s.cancel = true) :
    Own W L { s with act := upd s.act w .exited, done := true } own :=
  { q := ⟨hi.q.nodup, hi.q.sub, hi.q.perm⟩, cr_eq := hi.cr_eq, root_mem := hi.root_mem,
    root_parent := hi.root_parent, lvl_le := hi.lvl_le, par := hi.par, par_none := hi.par_none,
    f_free := hi.f_free, f_queued := hi.f_queued,
    f_eval := by
      intro w' c; have := hi.f_eval w' c; have := hi.f_eval w c
      simp only [upd]; grind,
    f_split := by
      intro w' c; have := hi.f_split w' c; have := hi.f_split w c
      simp only [upd]; grind,
    f_asc := by
      intro w' c; have := hi.f_asc w' c; have := hi.f_asc w c
      simp only [upd]; grind,
    k_zero := hi.k_zero, k_split := hi.k_split, k_wait := hi.k_wait, pend := hi.pend,
    child_par := hi.child_par, coll := hi.coll, fin_root := fun _ => rfl,
    done_why := by
      intro _
      rcases hd with hd | hd
      · exact hi.done_why hd
      · exact Or.inl hd,
    exited_done := fun _ _ => rfl,
    wk_big := by
      intro w' hw'; have := hi.wk_big w' hw'
      simp only [upd]; grind,
    loc_lt := hi.loc_lt }

theorem own_evalAmb (hi : Own W L s own) (w c : Nat) (hw : w < W) (ha : s.act w = .eval c)
    (hl : 0 < s.level c) (hn : 0 < s.n) :
    Own W L { s with act := upd s.act w (.split c) } (upd own c (.split w)) := by
  have hoc : own c = .eval w := (hi.f_eval w c).2 ha
  have hcc : c ∈ s.created := hi.mem_created (by simp [hoc])
  have hk := hi.k_zero c (by simp [hoc])
  exact
    { q := ⟨hi.q.nodup, hi.q.sub, hi.q.perm⟩, cr_eq := hi.cr_eq, root_mem := hi.root_mem,
      root_parent := hi.root_parent, lvl_le := hi.lvl_le, par := hi.par, par_none := hi.par_none,
      f_free := by
        intro c'; have := hi.f_free c'
        simp only [upd]; grind,
      f_queued := by
        intro c'; have := hi.f_queued c'
        simp only [upd]; grind,
      f_eval := by
        intro w' c'; have := hi.f_eval w' c'; have := hi.f_eval w c'; have := hi.f_eval w' c
        simp only [upd]; grind,
      f_split := by
        intro w' c'; have := hi.f_split w' c'; have := hi.f_split w c'; have := hi.f_split w' c
        simp only [upd]; grind,
      f_asc := by
        intro w' c'; have := hi.f_asc w' c'; have := hi.f_asc w c'; have := hi.f_asc w' c
        simp only [upd]; grind,
      k_zero := by
        intro c'; have := hi.k_zero c'
        simp only [upd]; grind [Place.fresh],
      k_split := by
        intro w' c'; have := hi.k_split w' c'
        simp only [upd]; grind,
      k_wait := by
        intro c'; have := hi.k_wait c'
        simp only [upd]; grind,
      pend := by
        intro p hp
        by_cases hpc : p = c
        · subst hpc
          have hu : unfin s.created s.parent (upd own p (.split w)) p = 0 :=
            unfin_no_children hk.2.2
          simp only [hu]; omega
        · have hp' : (own p).branch = true := by simpa [upd, hpc] using hp
          have := hi.pend p hp'
          have hu : unfin s.created s.parent (upd own c (.split w)) p = unfin s.created s.parent own p := by
            apply unfin_congr; intro x hx; simp only [upd]; grind
          simp only [hu]; exact this,
      child_par := by
        intro c' hc' p hp; have := hi.child_par c' hc' p hp
        simp only [upd]; grind [Place.branch],
      coll := by
        intro c'; have := hi.coll c'
        simp only [upd]; grind [Place.complete],
      fin_root := by
        have := hi.fin_root
        simp only [upd]; grind,
      done_why := by
        have := hi.done_why
        simp only [upd]; grind,
      exited_done := by
        intro w'; have := hi.exited_done w'
        simp only [upd]; grind,
      wk_big := by
        intro w' hw'; have := hi.wk_big w' hw'
        simp only [upd]; grind,
      loc_lt := hi.loc_lt }

theorem own_evalDone (hi : Own W L s own) (w c : Nat) (hw : w < W) (ha : s.act w = .eval c) :
    Own W L { s with act := upd s.act w (.ascend c) } (upd own c (.asc w)) := by
  have hoc : own c = .eval w := (hi.f_eval w c).2 ha
  have hcc : c ∈ s.created := hi.mem_created (by simp [hoc])
  have hk := hi.k_zero c (by simp [hoc])
  exact
    { q := ⟨hi.q.nodup, hi.q.sub, hi.q.perm⟩, cr_eq := hi.cr_eq, root_mem := hi.root_mem,
      root_parent := hi.root_parent, lvl_le := hi.lvl_le, par := hi.par, par_none := hi.par_none,
      f_free := by
        intro c'; have := hi.f_free c'
        simp only [upd]; grind,
      f_queued := by
        intro c'; have := hi.f_queued c'
        simp only [upd]; grind,
      f_eval := by
        intro w' c'; have := hi.f_eval w' c'; have := hi.f_eval w c'; have := hi.f_eval w' c
        simp only [upd]; grind,
      f_split := by
        intro w' c'; have := hi.f_split w' c'; have := hi.f_split w c'; have := hi.f_split w' c
        simp only [upd]; grind,
      f_asc := by
        intro w' c'; have := hi.f_asc w' c'; have := hi.f_asc w c'; have := hi.f_asc w' c
        simp only [upd]; grind,
      k_zero := by
        intro c'; have := hi.k_zero c'
        simp only [upd]; grind [Place.fresh],
      k_split := by
        intro w' c'; have := hi.k_split w' c'
        simp only [upd]; grind,
      k_wait := by
        intro c'; have := hi.k_wait c'
        simp only [upd]; grind,
      pend := by
        intro p hp
        have hpc : p ≠ c := by intro e; subst e; simp [upd] at hp
        have hp' : (own p).branch = true := by simpa [upd, hpc] using hp
        have := hi.pend p hp'
        have hu : unfin s.created s.parent (upd own c (.asc w)) p = unfin s.created s.parent own p := by
          apply unfin_congr; intro x hx; simp only [upd]; grind
        simp only [hu]; exact this,
      child_par := by
        intro c' hc' p hp; have := hi.child_par c' hc' p hp
        simp only [upd]; grind [Place.branch],
      coll := by
        intro c'; have := hi.coll c'
        simp only [upd]; grind [Place.complete],
      fin_root := by
        have := hi.fin_root
        simp only [upd]; grind,
      done_why := by
        have := hi.done_why
        simp only [upd]; grind,
      exited_done := by
        intro w'; have := hi.exited_done w'
        simp only [upd]; grind,
      wk_big := by
        intro w' hw'; have := hi.wk_big w' hw'
        simp only [upd]; grind,
      loc_lt := hi.loc_lt }

theorem own_exitRoot (hi : Own W L s own) (w c : Nat) (hw : w < W) (ha : s.act w = .ascend c)
    (hp : s.parent c = none) :
    Own W L { s with act := upd s.act w .exited, done := true } (upd own c .finished) := by
  have hoc : own c = .asc w := (hi.f_asc w c).2 ha
  have hcc : c ∈ s.created := hi.mem_created (by simp [hoc])
  have hc0 : c = 0 := hi.par_none c hcc hp
  exact
    { q := ⟨hi.q.nodup, hi.q.sub, hi.q.perm⟩, cr_eq := hi.cr_eq, root_mem := hi.root_mem,
      root_parent := hi.root_parent, lvl_le := hi.lvl_le, par := hi.par, par_none := hi.par_none,
      f_free := by
        intro c'; have := hi.f_free c'
        simp only [upd]; grind,
      f_queued := by
        intro c'; have := hi.f_queued c'
        simp only [upd]; grind,
      f_eval := by
        intro w' c'; have := hi.f_eval w' c'; have := hi.f_eval w c'; have := hi.f_eval w' c
        simp only [upd]; grind,
      f_split := by
        intro w' c'; have := hi.f_split w' c'; have := hi.f_split w c'; have := hi.f_split w' c
        simp only [upd]; grind,
      f_asc := by
        intro w' c'; have := hi.f_asc w' c'; have := hi.f_asc w c'; have := hi.f_asc w' c
        simp only [upd]; grind,
      k_zero := by
        intro c'; have := hi.k_zero c'
        simp only [upd]; grind [Place.fresh],
      k_split := by
        intro w' c'; have := hi.k_split w' c'
        simp only [upd]; grind,
      k_wait := by
        intro c'; have := hi.k_wait c'
        simp only [upd]; grind,
      pend := by
        intro p hpb
        have hpc : p ≠ c := by intro e; subst e; simp [upd] at hpb
        have hp' : (own p).branch = true := by simpa [upd, hpc] using hpb
        have := hi.pend p hp'
        have hu : unfin s.created s.parent (upd own c .finished) p = unfin s.created s.parent own p := by
          apply unfin_congr; intro x hx; simp only [upd]; grind
        simp only [hu]; exact this,
      child_par := by
        intro c' hc' p hp; have := hi.child_par c' hc' p hp
        simp only [upd]; grind [Place.branch],
      coll := by
        intro c'; have := hi.coll c'; have := hi.coll c
        simp only [upd]; grind [Place.complete],
      fin_root := fun _ => rfl,
      done_why := by
        intro _; right; simp [upd, hc0],
      exited_done := fun _ _ => rfl,
      wk_big := by
        intro w' hw'; have := hi.wk_big w' hw'
        simp only [upd]; grind,
      loc_lt := hi.loc_lt }

/-- facts about a worker that is about to do `pending--` on the parent `p` of `c` -/
theorem Own.ascend_facts (hi : Own W L s own) {w c p : Nat} (ha : s.act w = .ascend c)
    (hp : s.parent c = some p) :
    own c = .asc w ∧ c ∈ s.created ∧ p ∈ s.created ∧ s.level p = s.level c + 1 ∧ c ≠ p ∧
    (own p).branch = true ∧ 0 < unfin s.created s.parent own p ∧
    (s.pending p = 0 → own p = .waiting ∧ unfin s.created s.parent own p = 1) := by
  have hoc : own c = .asc w := (hi.f_asc w c).2 ha
  have hcc : c ∈ s.created := hi.mem_created (by simp [hoc])
  have hpp := hi.par c hcc p hp
  have hne : c ≠ p := by intro e; rw [← e] at hpp; omega
  have hb := hi.child_par c hcc p hp (by simp [hoc])
  have hpos : 0 < unfin s.created s.parent own p := by
    unfold unfin
    exact List.countP_pos_iff.2 ⟨c, hcc, by simp [hp, hoc]⟩
  refine ⟨hoc, hcc, hpp.1, hpp.2, hne, hb, hpos, ?_⟩
  intro h0
  have hpe := hi.pend p hb
  cases hop : own p with
  | split w2 =>
    have := hi.k_split w2 p hop
    omega
  | waiting =>
    have := hi.k_wait p hop
    exact ⟨rfl, by omega⟩
  | _ => simp [hop] at hb

theorem own_collect (hi : Own W L s own) (w c p : Nat) (hw : w < W) (ha : s.act w = .ascend c)
    (hp : s.parent c = some p) (h0 : s.pending p ≠ 0) :
    Own W L { s with pending := upd s.pending p (fetchSub (s.pending p)).2,
                     act := upd s.act w .idle } (upd own c .finished) := by
  obtain ⟨hoc, hcc, hpc, hlv, hne, hb, hpos, _⟩ := hi.ascend_facts ha hp
  have hc0 : c ≠ 0 := by intro e; rw [e, hi.root_parent] at hp; simp at hp
  have hfs : (fetchSub (s.pending p)).2 = s.pending p - 1 := by simp [fetchSub, h0]
  exact
    { q := ⟨hi.q.nodup, hi.q.sub, hi.q.perm⟩, cr_eq := hi.cr_eq, root_mem := hi.root_mem,
      root_parent := hi.root_parent, lvl_le := hi.lvl_le, par := hi.par, par_none := hi.par_none,
      f_free := by
        intro c'; have := hi.f_free c'
        simp only [upd]; grind,
      f_queued := by
        intro c'; have := hi.f_queued c'
        simp only [upd]; grind,
      f_eval := by
        intro w' c'; have := hi.f_eval w' c'; have := hi.f_eval w c'; have := hi.f_eval w' c
        simp only [upd]; grind,
      f_split := by
        intro w' c'; have := hi.f_split w' c'; have := hi.f_split w c'; have := hi.f_split w' c
        simp only [upd]; grind,
      f_asc := by
        intro w' c'; have := hi.f_asc w' c'; have := hi.f_asc w c'; have := hi.f_asc w' c
        simp only [upd]; grind,
      k_zero := by
        intro c'; have := hi.k_zero c'
        simp only [upd]; grind [Place.fresh, Place.branch],
      k_split := by
        intro w' c'; have := hi.k_split w' c'
        simp only [upd]; grind,
      k_wait := by
        intro c'; have := hi.k_wait c'
        simp only [upd]; grind,
      pend := by
        intro q hqb
        have hqc : q ≠ c := by intro e; subst e; simp [upd] at hqb
        have hq' : (own q).branch = true := by simpa [upd, hqc] using hqb
        have hold := hi.pend q hq'
        by_cases hqp : q = p
        · subst hqp
          have hu : unfin s.created s.parent (upd own c .finished) q + 1 =
              unfin s.created s.parent own q :=
            unfin_switch hi.created_nodup hcc hp (by simp [hoc]) (by simp [upd])
              (fun x _ hx => by simp [upd, hx])
          simp only [upd, if_pos, hfs]
          omega
        · have hu : unfin s.created s.parent (upd own c .finished) q = unfin s.created s.parent own q := by
            apply unfin_congr; intro x hx; simp only [upd]; grind
          simp only [hu, upd, hqp, if_false]; exact hold,
      child_par := by
        intro c' hc' p' hp'; have := hi.child_par c' hc' p' hp'
        simp only [upd]; grind [Place.branch],
      coll := by
        intro c'; have := hi.coll c'; have := hi.coll c
        simp only [upd]; grind [Place.complete],
      fin_root := by
        have := hi.fin_root
        simp only [upd]; grind,
      done_why := by
        have := hi.done_why
        simp only [upd]; grind,
      exited_done := by
        intro w'; have := hi.exited_done w'
        simp only [upd]; grind,
      wk_big := by
        intro w' hw'; have := hi.wk_big w' hw'
        simp only [upd]; grind,
      loc_lt := hi.loc_lt }

theorem own_collectLast (hi : Own W L s own) (w c p : Nat) (hw : w < W) (ha : s.act w = .ascend c)
    (hp : s.parent c = some p) (h0 : s.pending p = 0) :
    Own W L { s with pending := upd s.pending p (fetchSub (s.pending p)).2,
                     collected := p :: s.collected,
                     act := upd s.act w (.ascend p) } (upd (upd own c .finished) p (.asc w)) := by
  obtain ⟨hoc, hcc, hpc, hlv, hne, hb, hpos, hz⟩ := hi.ascend_facts ha hp
  obtain ⟨hop, hone⟩ := hz h0
  have hc0 : c ≠ 0 := by intro e; rw [e, hi.root_parent] at hp; simp at hp
  have hsw : unfin s.created s.parent (upd own c .finished) p + 1 = unfin s.created s.parent own p :=
    unfin_switch hi.created_nodup hcc hp (by simp [hoc]) (by simp [upd])
      (fun x _ hx => by simp [upd, hx])
  have hall : ∀ x ∈ s.created, s.parent x = some p → x ≠ c → own x = .finished := by
    intro x hx hxp hxc
    have := unfin_zero (p := p) (own := upd own c .finished) (by omega) x hx hxp
    simpa [upd, hxc] using this
  exact
    { q := ⟨hi.q.nodup, hi.q.sub, hi.q.perm⟩, cr_eq := hi.cr_eq, root_mem := hi.root_mem,
      root_parent := hi.root_parent, lvl_le := hi.lvl_le, par := hi.par, par_none := hi.par_none,
      f_free := by
        intro c'; have := hi.f_free c'
        simp only [upd]; grind,
      f_queued := by
        intro c'; have := hi.f_queued c'
        simp only [upd]; grind,
      f_eval := by
        intro w' c'; have := hi.f_eval w' c'; have := hi.f_eval w c'; have := hi.f_eval w' c
        have := hi.f_eval w' p
        simp only [upd]; grind,
      f_split := by
        intro w' c'; have := hi.f_split w' c'; have := hi.f_split w c'; have := hi.f_split w' c
        have := hi.f_split w' p
        simp only [upd]; grind,
      f_asc := by
        intro w' c'; have := hi.f_asc w' c'; have := hi.f_asc w c'; have := hi.f_asc w' c
        have := hi.f_asc w' p
        simp only [upd]; grind,
      k_zero := by
        intro c'; have := hi.k_zero c'
        simp only [upd]; grind [Place.fresh, Place.branch],
      k_split := by
        intro w' c'; have := hi.k_split w' c'
        simp only [upd]; grind,
      k_wait := by
        intro c'; have := hi.k_wait c'
        simp only [upd]; grind,
      pend := by
        intro q hqb
        have hqp : q ≠ p := by intro e; subst e; simp [upd] at hqb
        have hqc : q ≠ c := by intro e; subst e; simp [upd, hqp] at hqb
        have hq' : (own q).branch = true := by simpa [upd, hqc, hqp] using hqb
        have hold := hi.pend q hq'
        have hu : unfin s.created s.parent (upd (upd own c .finished) p (.asc w)) q =
            unfin s.created s.parent own q := by
          apply unfin_congr; intro x hx; simp only [upd]; grind
        simp only [hu, upd, hqp, if_false]; exact hold,
      child_par := by
        intro c' hc' p' hp'; have := hi.child_par c' hc' p' hp'; have := hall c' hc'
        have := hi.par c' hc' p' hp'
        simp only [upd]; grind [Place.branch],
      coll := by
        intro c'; have := hi.coll c'; have := hi.coll c
        simp only [upd, List.mem_cons]; grind [Place.complete],
      fin_root := by
        have := hi.fin_root
        simp only [upd]; grind,
      done_why := by
        have := hi.done_why
        simp only [upd]; grind,
      exited_done := by
        intro w'; have := hi.exited_done w'
        simp only [upd]; grind,
      wk_big := by
        intro w' hw'; have := hi.wk_big w' hw'
        simp only [upd]; grind,
      loc_lt := hi.loc_lt }

/-- the state after `push w child tl` by a worker splitting `c` -/
def pushed (s : S) (w c child : Nat) (tl : Bool) : S :=
  { s with
    act := upd s.act w (if s.kids c + 1 = s.n then .idle else .split c)
    bag := if tl then s.bag else child :: s.bag
    loc := if tl then (w, child) :: s.loc else s.loc
    level := upd s.level child (s.level c - 1)
    parent := upd s.parent child (some c)
    created := child :: s.created
    kids := upd (upd s.kids c (s.kids c + 1)) child 0
    pending := upd s.pending child (s.n - 1)
    pushed := child :: s.pushed }

theorem own_push (hi : Own W L s own) (w c child : Nat) (tl : Bool) (hw : w < W)
    (ha : s.act w = .split c) (hf : child ∉ s.created) (hl : 0 < s.level c) (hk : s.kids c < s.n)
    (hq' : Q (pushed s w c child tl)) :
    Own W L (pushed s w c child tl)
      (upd (upd own child .queued) c (if s.kids c + 1 = s.n then .waiting else .split w)) := by
  have hoc : own c = .split w := (hi.f_split w c).2 ha
  have hcc : c ∈ s.created := hi.mem_created (by simp [hoc])
  have hne : child ≠ c := fun e => hf (e ▸ hcc)
  have hof : own child = .free := (hi.f_free child).2 hf
  have hfp : child ∉ s.popped := fun h => hf (hi.popped_sub h)
  have h0 : child ≠ 0 := fun e => hf (e ▸ hi.root_mem)
  have hlc := hi.lvl_le c hcc
  unfold pushed at hq' ⊢
  exact
    { q := hq', cr_eq := by simp [hi.cr_eq], root_mem := List.mem_cons_of_mem _ hi.root_mem,
      root_parent := by
        have := hi.root_parent
        simp only [upd]; grind,
      lvl_le := by
        intro x hx; have := hi.lvl_le x
        simp only [upd, List.mem_cons] at hx ⊢; grind,
      par := by
        intro x hx p'; have := hi.par x
        simp only [upd, List.mem_cons] at hx ⊢; grind,
      par_none := by
        intro x hx; have := hi.par_none x
        simp only [upd, List.mem_cons] at hx ⊢; grind,
      f_free := by
        intro c'; have := hi.f_free c'
        simp only [upd, List.mem_cons]; grind,
      f_queued := by
        intro c'; have := hi.f_queued c'
        simp only [upd, List.mem_cons]; grind,
      f_eval := by
        intro w' c'; have := hi.f_eval w' c'; have := hi.f_eval w c'; have := hi.f_eval w' c
        have := hi.f_eval w' child
        simp only [upd]; grind,
      f_split := by
        intro w' c'; have := hi.f_split w' c'; have := hi.f_split w c'; have := hi.f_split w' c
        have := hi.f_split w' child
        simp only [upd]; grind,
      f_asc := by
        intro w' c'; have := hi.f_asc w' c'; have := hi.f_asc w c'; have := hi.f_asc w' c
        have := hi.f_asc w' child
        simp only [upd]; grind,
      k_zero := by
        intro c' hc'
        have hc'c : c' ≠ c := by
          intro e; subst e; simp only [upd, if_pos] at hc'; split at hc' <;> simp at hc'
        refine ⟨?_, ?_, ?_⟩
        · by_cases hx : c' = child
          · simp [upd, hx]
          · have := hi.k_zero c' (by simpa [upd, hc'c, hx] using hc')
            simp [upd, hx, hc'c, this.1]
        · by_cases hx : c' = child
          · simp [upd, hx]
          · have := hi.k_zero c' (by simpa [upd, hc'c, hx] using hc')
            simp [upd, hx, this.2.1]
        · intro x hx
          by_cases hxc : x = child
          · simp only [upd, hxc, if_pos]
            intro e; exact hc'c (Option.some.inj e).symm
          · have hxm : x ∈ s.created := by
              rcases List.mem_cons.1 hx with e | e
              · exact absurd e hxc
              · exact e
            simp only [upd, hxc, if_false]
            by_cases hcx : c' = child
            · intro e
              have := (hi.par x hxm c' e).1
              exact hf (hcx ▸ this)
            · exact (hi.k_zero c' (by simpa [upd, hc'c, hcx] using hc')).2.2 x hxm,
      k_split := by
        intro w' c'; have := hi.k_split w' c'
        simp only [upd]; grind,
      k_wait := by
        intro c'; have := hi.k_wait c'
        simp only [upd]; grind,
      pend := by
        intro q hqb
        have hqf : q ≠ child := by
          intro e; subst e; simp [upd, hne] at hqb
        rw [unfin_cons]
        have hu : unfin s.created (upd s.parent child (some c))
            (upd (upd own child .queued) c (if s.kids c + 1 = s.n then .waiting else .split w)) q =
            unfin s.created s.parent own q := by
          apply unfin_congr; intro x hx
          have hxf : x ≠ child := fun e => hf (e ▸ hx)
          simp only [upd, hxf, if_false]
          by_cases hxc : x = c
          · subst hxc; simp only [if_pos, hoc]; split <;> simp
          · simp [hxc]
        rw [hu]
        by_cases hqc : q = c
        · subst hqc
          have hold := hi.pend q (by simp [hoc])
          have hch : (upd s.parent child (some q) child = some q ∧
              upd (upd own child .queued) q (if s.kids q + 1 = s.n then .waiting else .split w) child
                ≠ .finished) := by
            simp [upd, hne]
          simp only [if_pos hch]
          simp only [upd, hqf, if_false, if_pos]
          omega
        · have hq' : (own q).branch = true := by simpa [upd, hqc, hqf] using hqb
          have hold := hi.pend q hq'
          have hch : ¬ (upd s.parent child (some c) child = some q ∧
              upd (upd own child .queued) c (if s.kids c + 1 = s.n then .waiting else .split w) child
                ≠ .finished) := by
            simp only [upd, if_pos]
            intro h; exact hqc (Option.some.inj h.1).symm
          simp only [if_neg hch]
          simp only [upd, hqf, hqc, if_false]
          exact hold,
      child_par := by
        intro c' hc' p' hp'
        by_cases hx : c' = child
        · subst hx
          simp only [upd, if_pos] at hp'
          have : p' = c := (Option.some.inj hp').symm
          subst this
          intro _
          simp only [upd, if_pos]; split <;> simp
        · have hcm : c' ∈ s.created := by
            rcases List.mem_cons.1 hc' with e | e
            · exact absurd e hx
            · exact e
          simp only [upd, hx, if_false] at hp'
          have hpar := hi.par c' hcm p' hp'
          have hpf : p' ≠ child := fun e => hf (e ▸ hpar.1)
          have := hi.child_par c' hcm p' hp'
          simp only [upd, hx, hpf, if_false]
          grind [Place.branch],
      coll := by
        intro c'; have := hi.coll c'
        simp only [upd]; grind [Place.complete],
      fin_root := by
        have := hi.fin_root
        simp only [upd]; grind,
      done_why := by
        have := hi.done_why
        simp only [upd]; grind,
      exited_done := by
        intro w'; have := hi.exited_done w'
        simp only [upd]; grind,
      wk_big := by
        intro w' hw'; have := hi.wk_big w' hw'
        simp only [upd]; grind,
      loc_lt := by
        intro e he
        cases tl
        · exact hi.loc_lt e (by simpa using he)
        · simp only [if_true] at he
          rcases List.mem_cons.1 he with rfl | he
          · exact hw
          · exact hi.loc_lt e he }

theorem own_step (hi : Own W L s own) (e : Ev) (s' : S) (h : step s e = some s')
    (hw : ∀ w, e.worker = some w → w < W) : Own W L s' (gown s own e) := by
  have hq' : Q s' := step_q s s' e hi.q h
  cases e with
  | cancel =>
    simp only [step, Option.some.injEq] at h; subst h
    exact own_cancel hi
  | loop w =>
    obtain ⟨ha, _, _, rfl⟩ := step_loop_inv h
    exact own_spin hi w (hw w rfl) _ (Or.inl ha) (Or.inr rfl)
  | noTask w =>
    obtain ⟨ha, rfl⟩ := step_noTask_inv h
    exact own_spin hi w (hw w rfl) _ (Or.inr ha) (Or.inl rfl)
  | exitLoop w =>
    obtain ⟨ha, hd, rfl⟩ := step_exitLoop_inv h
    exact own_exitLoop hi w (hw w rfl) ha hd
  | pop w c =>
    obtain ⟨ha, hcase⟩ := step_pop_inv h
    rcases hcase with ⟨e, he, hec, rfl⟩ | ⟨hcb, rfl⟩
    · have hcq : c ∈ s.queued := by
        simp only [S.queued, List.mem_append, List.mem_map]
        exact Or.inr ⟨e, he, hec⟩
      exact own_pop hi w c (hw w rfl) ha hcq s.bag (s.loc.erase e) hq'
        (fun e' he' => List.mem_of_mem_erase he')
    · have hcq : c ∈ s.queued := by
        simp only [S.queued, List.mem_append]
        exact Or.inl hcb
      exact own_pop hi w c (hw w rfl) ha hcq (s.bag.erase c) s.loc hq' (fun e' he' => he')
  | push w child tl =>
    obtain ⟨c, ha, hf, hl, hk, rfl⟩ := step_push_inv h
    simp only [gown, ha]
    exact own_push hi w c child tl (hw w rfl) ha hf hl hk hq'
  | evalDone w k =>
    obtain ⟨c, ha, hk0, hcase⟩ := step_evalDone_inv h
    rcases hcase with ⟨rfl, hl, hn, rfl⟩ | ⟨hk, rfl⟩
    · simp only [gown, ha]
      exact own_evalAmb hi w c (hw w rfl) ha hl hn
    · have : gown s own (.evalDone w k) = upd own c (.asc w) := by
        cases k <;> simp_all [gown]
      rw [this]
      exact own_evalDone hi w c (hw w rfl) ha
  | collect w last =>
    obtain ⟨c, p, ha, hp, hl, rfl⟩ := step_collect_inv h
    cases last with
    | false =>
      have h0 : s.pending p ≠ 0 := by simpa using hl
      simp only [gown, ha, hp, Bool.false_eq_true, if_false]
      exact own_collect hi w c p (hw w rfl) ha hp h0
    | true =>
      have h0 : s.pending p = 0 := by simpa using hl
      simp only [gown, ha, hp, if_true]
      exact own_collectLast hi w c p (hw w rfl) ha hp h0
  | exitRoot w =>
    obtain ⟨c, ha, hp, rfl⟩ := step_exitRoot_inv h
    simp only [gown, ha]
    exact own_exitRoot hi w c (hw w rfl) ha hp

end

/-- the event is a step of a worker below `W` (or of the environment) -/
def Ev.below (W : Nat) (e : Ev) : Bool :=
  match e.worker with
  | some w => decide (w < W)
  | none => true

theorem Ev.below_spec {W : Nat} {e : Ev} (h : e.below W = true) : ∀ w, e.worker = some w → w < W := by
  intro w hw
  simpa [Ev.below, hw] using h

/-- all events of a trace are steps of workers below `W` -/
def workersBelow (W : Nat) (tr : List Ev) : Prop := ∀ e ∈ tr, e.below W = true

instance (W : Nat) (tr : List Ev) : Decidable (workersBelow W tr) := by
  unfold workersBelow; infer_instance

/-- the ghost along a trace -/
def grun : S → (Nat → Place) → List Ev → (Nat → Place)
  | _, own, [] => own
  | s, own, e :: es => match step s e with
    | some s' => grun s' (gown s own e) es
    | none => own

theorem own_run {W L : Nat} (tr : List Ev) (s s' : S) (own : Nat → Place) (hi : Own W L s own)
    (hw : workersBelow W tr) (h : run s tr = some s') : Own W L s' (grun s own tr) := by
  induction tr generalizing s own with
  | nil => simp [run] at h; subst h; exact hi
  | cons e es ih =>
    simp only [run] at h
    split at h
    · rename_i s1 h1
      simp only [grun, h1]
      exact ih s1 _ (own_step hi e s1 h1 (Ev.below_spec (hw e (List.mem_cons_self ..))))
        (fun e' he' => hw e' (List.mem_cons_of_mem _ he')) h
    · simp at h

/-! ## the measure -/

/-- work still to be done for a cell of level `l` that is queued (or just popped), in a tree whose
    root has level `L` and whose branches have `n` children: pop/evaluate, the walk up (at most
    `L − l + 1` `pending--` steps by the same worker), and for a branch `n` pushes and `n` subtrees -/
def cellPot (n L : Nat) : Nat → Nat
  | 0 => L + 2
  | l + 1 => (L - (l + 1)) + 3 + n * (1 + cellPot n L l)

/-- cells of the full `n`-ary tree with `l + 1` levels -/
def fullCells (n : Nat) : Nat → Nat
  | 0 => 1
  | l + 1 => 1 + n * fullCells n l

theorem cellPot_le (n L l : Nat) : cellPot n L l + 1 ≤ (L + 4) * fullCells n l := by
  induction l with
  | zero => simp [cellPot, fullCells]
  | succ l ih =>
    simp only [cellPot, fullCells]
    have h1 : n * (1 + cellPot n L l) ≤ n * ((L + 4) * fullCells n l) :=
      Nat.mul_le_mul_left n (by omega)
    have h2 : (L + 4) * (1 + n * fullCells n l) = (L + 4) + n * ((L + 4) * fullCells n l) := by
      rw [Nat.mul_add, Nat.mul_one, Nat.mul_left_comm]
    omega

/-- work still to be done by a worker in a given phase (including its final exit step) -/
def wpot (n L : Nat) (level kids : Nat → Nat) : Act → Nat
  | .idle => 1
  | .inLoop => 1
  | .exited => 0
  | .eval c => cellPot n L (level c)
  | .split c => 1 + (n - kids c) * (1 + cellPot n L (level c - 1))
  | .ascend c => L - level c + 1

def wsum (W n L : Nat) (level kids : Nat → Nat) (act : Nat → Act) : Nat :=
  ((List.range W).map (fun w => wpot n L level kids (act w))).sum

def qpot (n L : Nat) (level : Nat → Nat) (bag : List Nat) (loc : List (Nat × Nat)) : Nat :=
  (bag.map (fun c => cellPot n L (level c))).sum + (loc.map (fun e => cellPot n L (level e.2))).sum

/-- **the measure**: queued cells, plus what every worker below `W` still has to do -/
def poolMeasure (W L : Nat) (s : S) : Nat :=
  qpot s.n L s.level s.bag s.loc + wsum W s.n L s.level s.kids s.act

theorem poolMeasure_init (W n cap L : Nat) : poolMeasure W L (S.init n cap L) = cellPot n L L + W := by
  have : ∀ W, ((List.range W).map (fun _ : Nat => 1)).sum = W := by
    intro W; induction W with
    | zero => simp
    | succ k ih => simp [List.range_succ, ih]
  simp [poolMeasure, S.init, qpot, wsum, wpot, this]

/-- the worker sum when worker `w` changes phase and the other workers' potentials are unaffected -/
theorem wsum_change {W n L : Nat} {level kids level' kids' : Nat → Nat} {act : Nat → Act} {w : Nat}
    (hw : w < W) (a' : Act)
    (h : ∀ x, x < W → x ≠ w → wpot n L level' kids' (act x) = wpot n L level kids (act x)) :
    wsum W n L level' kids' (upd act w a') + wpot n L level kids (act w) =
      wsum W n L level kids act + wpot n L level' kids' a' := by
  have := sum_map_update (List.range W) List.nodup_range w (List.mem_range.2 hw)
    (fun x => wpot n L level kids (act x)) (fun x => wpot n L level' kids' (upd act w a' x))
    (by
      intro x hx hxw
      simp only [upd, hxw, if_false]
      exact h x (List.mem_range.1 hx) hxw)
  simpa [wsum, upd] using this

theorem wsum_act {W n L : Nat} {level kids : Nat → Nat} {act : Nat → Act} {w : Nat}
    (hw : w < W) (a' : Act) :
    wsum W n L level kids (upd act w a') + wpot n L level kids (act w) =
      wsum W n L level kids act + wpot n L level kids a' :=
  wsum_change hw a' (fun _ _ _ => rfl)

theorem cellPot_pos (n L l : Nat) : L - l + 3 ≤ cellPot n L l + (if l = 0 then 1 else 0) := by
  cases l with
  | zero => simp [cellPot]
  | succ l => simp [cellPot]

theorem Own.queued_created {W L : Nat} {s : S} {own : Nat → Place} (hi : Own W L s own) {c : Nat}
    (h : c ∈ s.queued) : c ∈ s.created :=
  hi.q.sub c (hi.q.perm.mem_iff.2 (List.mem_append_right _ h))

theorem measure_push {W L : Nat} {s : S} {own : Nat → Place} (hi : Own W L s own)
    (w c child : Nat) (tl : Bool) (hw : w < W)
    (ha : s.act w = .split c) (hf : child ∉ s.created) (hl : 0 < s.level c) (hk : s.kids c < s.n) :
    poolMeasure W L (pushed s w c child tl) < poolMeasure W L s := by
  have hoc : own c = .split w := (hi.f_split w c).2 ha
  have hcc : c ∈ s.created := hi.mem_created (by simp [hoc])
  have hne : child ≠ c := fun e => hf (e ▸ hcc)
  have hof : own child = .free := (hi.f_free child).2 hf
  -- the other workers' potentials do not change
  have hws := wsum_change (W := W) (n := s.n) (L := L) (level := s.level) (kids := s.kids)
    (level' := upd s.level child (s.level c - 1))
    (kids' := upd (upd s.kids c (s.kids c + 1)) child 0) (act := s.act) hw
    (if s.kids c + 1 = s.n then Act.idle else Act.split c)
    (by
      intro x hx hxw
      cases hax : s.act x with
      | idle => rfl
      | inLoop => rfl
      | exited => rfl
      | eval c' =>
        have h1 : own c' = .eval x := (hi.f_eval x c').2 hax
        have h2 : c' ≠ child := by intro e; rw [e, hof] at h1; simp at h1
        simp [wpot, upd, h2]
      | ascend c' =>
        have h1 : own c' = .asc x := (hi.f_asc x c').2 hax
        have h2 : c' ≠ child := by intro e; rw [e, hof] at h1; simp at h1
        simp [wpot, upd, h2]
      | split c' =>
        have h1 : own c' = .split x := (hi.f_split x c').2 hax
        have h2 : c' ≠ child := by intro e; rw [e, hof] at h1; simp at h1
        have h3 : c' ≠ c := by
          intro e; rw [e, hoc] at h1; exact hxw (Place.split.inj h1).symm
        simp [wpot, upd, h2, h3])
  -- the queued cells' potentials do not change
  have hbag : (s.bag.map (fun c' => cellPot s.n L (upd s.level child (s.level c - 1) c'))).sum =
      (s.bag.map (fun c' => cellPot s.n L (s.level c'))).sum := by
    congr 1
    apply List.map_congr_left
    intro x hx
    have : x ≠ child := fun e => hf (e ▸ hi.queued_created (by simp [S.queued, hx]))
    simp [upd, this]
  have hloc : (s.loc.map (fun e => cellPot s.n L (upd s.level child (s.level c - 1) e.2))).sum =
      (s.loc.map (fun e => cellPot s.n L (s.level e.2))).sum := by
    congr 1
    apply List.map_congr_left
    intro x hx
    have : x.2 ≠ child := fun e => hf (e ▸ hi.queued_created (by
      simp only [S.queued, List.mem_append, List.mem_map]; exact Or.inr ⟨x, hx, rfl⟩))
    simp [upd, this]
  have hq : qpot s.n L (upd s.level child (s.level c - 1)) (if tl then s.bag else child :: s.bag)
      (if tl then (w, child) :: s.loc else s.loc) =
      qpot s.n L s.level s.bag s.loc + cellPot s.n L (s.level c - 1) := by
    cases tl
    · simp only [qpot, Bool.false_eq_true, if_false, List.map_cons, List.sum_cons, hbag, hloc]
      simp [upd]; omega
    · simp only [qpot, if_true, List.map_cons, List.sum_cons, hbag, hloc]
      simp [upd]; omega
  simp only [poolMeasure, pushed, hq]
  simp only [ha, wpot] at hws
  by_cases hlast : s.kids c + 1 = s.n
  · simp only [hlast, if_true, wpot] at hws ⊢
    have h1 : s.n - s.kids c = 1 := by omega
    rw [h1] at hws
    omega
  · simp only [hlast, if_false, wpot] at hws ⊢
    have e1 : upd (upd s.kids c (s.kids c + 1)) child 0 c = s.kids c + 1 := by simp [upd, hne.symm]
    have e2 : upd s.level child (s.level c - 1) c = s.level c := by simp [upd, hne.symm]
    rw [e1, e2] at hws
    have h1 : s.n - s.kids c = (s.n - (s.kids c + 1)) + 1 := by omega
    rw [h1, Nat.add_mul] at hws
    omega

theorem measure_step {W L : Nat} {s : S} {own : Nat → Place} (hi : Own W L s own) (e : Ev) (s' : S)
    (h : step s e = some s') (hw : ∀ w, e.worker = some w → w < W) :
    if e.isSpin then poolMeasure W L s' ≤ poolMeasure W L s
    else poolMeasure W L s' < poolMeasure W L s := by
  cases e with
  | cancel =>
    simp only [step, Option.some.injEq] at h; subst h
    simp [Ev.isSpin, poolMeasure]
  | loop w =>
    obtain ⟨ha, _, _, rfl⟩ := step_loop_inv h
    have := wsum_act (W := W) (n := s.n) (L := L) (level := s.level) (kids := s.kids)
      (act := s.act) (hw w rfl) .inLoop
    simp only [ha, wpot] at this
    simp only [Ev.isSpin, if_true, poolMeasure]
    omega
  | noTask w =>
    obtain ⟨ha, rfl⟩ := step_noTask_inv h
    have := wsum_act (W := W) (n := s.n) (L := L) (level := s.level) (kids := s.kids)
      (act := s.act) (hw w rfl) .idle
    simp only [ha, wpot] at this
    simp only [Ev.isSpin, if_true, poolMeasure]
    omega
  | exitLoop w =>
    obtain ⟨ha, hd, rfl⟩ := step_exitLoop_inv h
    have := wsum_act (W := W) (n := s.n) (L := L) (level := s.level) (kids := s.kids)
      (act := s.act) (hw w rfl) .exited
    simp only [ha, wpot] at this
    simp only [Ev.isSpin, Bool.false_eq_true, if_false, poolMeasure]
    omega
  | pop w c =>
    obtain ⟨ha, hcase⟩ := step_pop_inv h
    have := wsum_act (W := W) (n := s.n) (L := L) (level := s.level) (kids := s.kids)
      (act := s.act) (hw w rfl) (.eval c)
    simp only [ha, wpot] at this
    simp only [Ev.isSpin, Bool.false_eq_true, if_false]
    rcases hcase with ⟨e, he, hec, rfl⟩ | ⟨hcb, rfl⟩
    · have hq := sum_map_erase s.loc e he (fun e => cellPot s.n L (s.level e.2))
      simp only [hec] at hq
      simp only [poolMeasure, qpot]
      omega
    · have hq := sum_map_erase s.bag c hcb (fun c => cellPot s.n L (s.level c))
      simp only [poolMeasure, qpot]
      omega
  | push w child tl =>
    obtain ⟨c, ha, hf, hl, hk, rfl⟩ := step_push_inv h
    simp only [Ev.isSpin, Bool.false_eq_true, if_false]
    exact measure_push hi w c child tl (hw w rfl) ha hf hl hk
  | evalDone w k =>
    obtain ⟨c, ha, hk0, hcase⟩ := step_evalDone_inv h
    simp only [Ev.isSpin, Bool.false_eq_true, if_false]
    rcases hcase with ⟨rfl, hl, hn, rfl⟩ | ⟨hk, rfl⟩
    · have := wsum_act (W := W) (n := s.n) (L := L) (level := s.level) (kids := s.kids)
        (act := s.act) (hw w rfl) (.split c)
      obtain ⟨l', hl'⟩ : ∃ l', s.level c = l' + 1 := ⟨s.level c - 1, by omega⟩
      simp only [ha, wpot, hl', cellPot, hk0, Nat.sub_zero, Nat.add_sub_cancel] at this
      simp only [poolMeasure]
      omega
    · have := wsum_act (W := W) (n := s.n) (L := L) (level := s.level) (kids := s.kids)
        (act := s.act) (hw w rfl) (.ascend c)
      simp only [ha, wpot] at this
      have hp := cellPot_pos s.n L (s.level c)
      simp only [poolMeasure]
      split at hp <;> omega
  | collect w last =>
    obtain ⟨c, p, ha, hp, hl, rfl⟩ := step_collect_inv h
    obtain ⟨_, hcc, hpc, hlv, _⟩ := hi.ascend_facts ha hp
    have hpl := hi.lvl_le p hpc
    simp only [Ev.isSpin, Bool.false_eq_true, if_false]
    cases last with
    | false =>
      have := wsum_act (W := W) (n := s.n) (L := L) (level := s.level) (kids := s.kids)
        (act := s.act) (hw w rfl) .idle
      simp only [ha, wpot] at this
      simp only [poolMeasure, Bool.false_eq_true, if_false]
      omega
    | true =>
      have := wsum_act (W := W) (n := s.n) (L := L) (level := s.level) (kids := s.kids)
        (act := s.act) (hw w rfl) (.ascend p)
      simp only [ha, wpot] at this
      simp only [poolMeasure, if_true]
      omega
  | exitRoot w =>
    obtain ⟨c, ha, hp, rfl⟩ := step_exitRoot_inv h
    have := wsum_act (W := W) (n := s.n) (L := L) (level := s.level) (kids := s.kids)
      (act := s.act) (hw w rfl) .exited
    simp only [ha, wpot] at this
    simp only [Ev.isSpin, Bool.false_eq_true, if_false, poolMeasure]
    omega

/-- number of non-spinning steps of a trace -/
def nonSpin (tr : List Ev) : Nat := (tr.filter (fun e => !e.isSpin)).length

theorem measure_run {W L : Nat} (tr : List Ev) (s s' : S) (own : Nat → Place) (hi : Own W L s own)
    (hw : workersBelow W tr) (h : run s tr = some s') :
    nonSpin tr + poolMeasure W L s' ≤ poolMeasure W L s := by
  induction tr generalizing s own with
  | nil => simp [run] at h; subst h; simp [nonSpin]
  | cons e es ih =>
    simp only [run] at h
    split at h
    · rename_i s1 h1
      have hwe := Ev.below_spec (hw e (List.mem_cons_self ..))
      have h2 := ih s1 _ (own_step hi e s1 h1 hwe)
        (fun e' he' => hw e' (List.mem_cons_of_mem _ he')) h
      have h3 := measure_step hi e s1 h1 hwe
      cases hsp : e.isSpin
      · simp only [hsp, Bool.false_eq_true, if_false] at h3
        simp only [nonSpin, List.filter_cons, hsp, Bool.not_false, if_true, List.length_cons] at h2 ⊢
        omega
      · simp only [hsp, if_true] at h3
        simp only [nonSpin, List.filter_cons, hsp, Bool.not_true, Bool.false_eq_true, if_false] at h2 ⊢
        omega
    · simp at h

/-! ## deadlock freedom -/

/-- worker `w` can take a non-spinning step, possibly after one spinning step of its own
    (the loop-head check, or the failed pop that leads back to it) -/
def canProgress (s : S) (w : Nat) : Prop :=
  ∃ e : Ev, e.worker = some w ∧ e.isSpin = false ∧
    ((step s e).isSome = true ∨
     ∃ e0 s1, e0.worker = some w ∧ e0.isSpin = true ∧ step s e0 = some s1 ∧ (step s1 e).isSome = true)

/-- a task that `w` could pop: the top of its local stack, else anything in the lock-free stack -/
def avail (s : S) (w : Nat) : Prop := s.loc.find? (fun e => e.1 == w) ≠ none ∨ s.bag ≠ []

theorem pop_of_avail (s : S) (w : Nat) (ha : s.act w = .inLoop) (hv : avail s w) :
    ∃ c, (step s (.pop w c)).isSome = true := by
  cases hf : s.loc.find? (fun e => e.1 == w) with
  | some e => exact ⟨e.2, by simp [step, ha, hf]⟩
  | none =>
    rcases hv with hv | hv
    · exact absurd hf hv
    · cases hb : s.bag with
      | nil => exact absurd hb hv
      | cons c rest => exact ⟨c, by simp [step, ha, hf, hb]⟩

section
variable {W L : Nat} {s : S} {own : Nat → Place}

/-- a worker that holds a cell always has its next step enabled: the cell is its own -/
theorem held_progress (hi : Own W L s own) (w : Nat)
    (h : (∃ c, s.act w = .eval c) ∨ (∃ c, s.act w = .split c) ∨ (∃ c, s.act w = .ascend c)) :
    canProgress s w := by
  rcases h with ⟨c, ha⟩ | ⟨c, ha⟩ | ⟨c, ha⟩
  · have hoc : own c = .eval w := (hi.f_eval w c).2 ha
    have hk := (hi.k_zero c (by simp [hoc])).1
    by_cases hl : s.level c = 0
    · exact ⟨.evalDone w .leaf, rfl, rfl, Or.inl (by simp [step, ha, hk, hl])⟩
    · exact ⟨.evalDone w .term, rfl, rfl, Or.inl (by simp [step, ha, hk]; omega)⟩
  · have hoc : own c = .split w := (hi.f_split w c).2 ha
    have hk := hi.k_split w c hoc
    obtain ⟨child, hf⟩ := exists_fresh s.created
    exact ⟨.push w child (decide (s.cap ≤ s.bag.length)), rfl, rfl,
      Or.inl (by simp [step, ha, hf, hk.1, hk.2])⟩
  · rcases ascend_enabled s w c ha with h | ⟨l, h⟩
    · exact ⟨.exitRoot w, rfl, rfl, Or.inl h⟩
    · exact ⟨.collect w l, rfl, rfl, Or.inl h⟩

/-- once `done` or `cancel` is set, every worker that has not left yet can progress (towards its exit) -/
theorem flagged_progress (hi : Own W L s own) (w : Nat) (hf : s.done = true ∨ s.cancel = true)
    (hx : s.act w ≠ .exited) : canProgress s w := by
  cases ha : s.act w with
  | exited => exact absurd ha hx
  | eval c => exact held_progress hi w (Or.inl ⟨c, ha⟩)
  | split c => exact held_progress hi w (Or.inr (Or.inl ⟨c, ha⟩))
  | ascend c => exact held_progress hi w (Or.inr (Or.inr ⟨c, ha⟩))
  | idle =>
    exact ⟨.exitLoop w, rfl, rfl, Or.inl (exit_enabled_of_cancel s w ha (by tauto))⟩
  | inLoop =>
    rcases inLoop_enabled s w ha with h | ⟨c, h⟩
    · obtain ⟨s1, hs1⟩ := Option.isSome_iff_exists.1 h
      obtain ⟨_, rfl⟩ := step_noTask_inv hs1
      refine ⟨.exitLoop w, rfl, rfl, Or.inr ⟨.noTask w, _, rfl, rfl, hs1, ?_⟩⟩
      exact exit_enabled_of_cancel _ w (by simp [upd]) (by tauto)
    · exact ⟨.pop w c, rfl, rfl, Or.inl h⟩

/-- a worker at the loop head or the task pick with a task available pops it (after its check) -/
theorem avail_progress (w : Nat) (ha : s.act w = .idle ∨ s.act w = .inLoop) (hd : s.done = false)
    (hc : s.cancel = false) (hv : avail s w) : canProgress s w := by
  rcases ha with ha | ha
  · have hs1 : step s (.loop w) = some { s with act := upd s.act w .inLoop } := by
      simp [step, ha, hd, hc]
    obtain ⟨c, hc⟩ := pop_of_avail { s with act := upd s.act w .inLoop } w (by simp [upd]) hv
    exact ⟨.pop w c, rfl, rfl, Or.inr ⟨.loop w, _, rfl, rfl, hs1, hc⟩⟩
  · obtain ⟨c, hc⟩ := pop_of_avail s w ha hv
    exact ⟨.pop w c, rfl, rfl, Or.inl hc⟩

/-- if nothing is queued and no worker holds a cell, no cell can be waiting: a waiting branch has
    an unfinished child (its counter says so), which would have to be waiting too, one level down -/
theorem no_waiting (hi : Own W L s own)
    (hall : ∀ c ∈ s.created, own c = .waiting ∨ own c = .finished) :
    ∀ l c, c ∈ s.created → s.level c = l → own c ≠ .waiting := by
  intro l
  induction l with
  | zero =>
    intro c _ hl hw
    have := (hi.k_wait c hw).2
    omega
  | succ l ih =>
    intro c hc hl hw
    have hk := hi.k_wait c hw
    have hp := hi.pend c (by simp [hw])
    have hpos : 0 < unfin s.created s.parent own c := by omega
    obtain ⟨x, hx, hxp, hxf⟩ := unfin_pos hpos
    have hlx := (hi.par x hx c hxp).2
    rcases hall x hx with h | h
    · exact ih x hx (by omega) h
    · exact hxf h

theorem queue_nonempty (hi : Own W L s own) (hd : s.done = false)
    (hidle : ∀ w, s.act w = .idle ∨ s.act w = .inLoop) : s.queued ≠ [] := by
  intro hq
  have hperm := hi.q.perm
  rw [hq, List.append_nil] at hperm
  have hall : ∀ c ∈ s.created, own c = .waiting ∨ own c = .finished := by
    intro c hc
    cases hoc : own c with
    | free => exact absurd hc ((hi.f_free c).1 hoc)
    | queued =>
      have := (hi.f_queued c).1 hoc
      exact absurd (hperm.mem_iff.1 (hi.cr_eq ▸ hc)) this.2
    | eval w => have := (hi.f_eval w c).1 hoc; rcases hidle w with h | h <;> simp [h] at this
    | split w => have := (hi.f_split w c).1 hoc; rcases hidle w with h | h <;> simp [h] at this
    | asc w => have := (hi.f_asc w c).1 hoc; rcases hidle w with h | h <;> simp [h] at this
    | waiting => exact Or.inl rfl
    | finished => exact Or.inr rfl
  rcases hall 0 hi.root_mem with h | h
  · exact no_waiting hi hall _ 0 hi.root_mem rfl h
  · have := hi.fin_root h
    simp [hd] at this

/-- **deadlock freedom**: while the render is neither finished nor cancelled, some worker below
    `W` can take a non-spinning step (after at most its own loop-head check) -/
theorem progress_exists (hi : Own W L s own) (hW : 0 < W) (hd : s.done = false)
    (hc : s.cancel = false) : ∃ w, w < W ∧ canProgress s w := by
  by_cases hheld : ∃ w, (∃ c, s.act w = .eval c) ∨ (∃ c, s.act w = .split c) ∨ (∃ c, s.act w = .ascend c)
  · obtain ⟨w, hw⟩ := hheld
    refine ⟨w, ?_, held_progress hi w hw⟩
    rcases Nat.lt_or_ge w W with h | h
    · exact h
    · have := hi.wk_big w h
      rcases hw with ⟨c, hc⟩ | ⟨c, hc⟩ | ⟨c, hc⟩ <;> simp [hc] at this
  · have hidle : ∀ w, s.act w = .idle ∨ s.act w = .inLoop := by
      intro w
      cases ha : s.act w with
      | idle => exact Or.inl rfl
      | inLoop => exact Or.inr rfl
      | exited => have := hi.exited_done w ha; simp [hd] at this
      | eval c => exact absurd ⟨w, Or.inl ⟨c, ha⟩⟩ hheld
      | split c => exact absurd ⟨w, Or.inr (Or.inl ⟨c, ha⟩)⟩ hheld
      | ascend c => exact absurd ⟨w, Or.inr (Or.inr ⟨c, ha⟩)⟩ hheld
    have hq := queue_nonempty hi hd hidle
    cases hl : s.loc with
    | nil =>
      have hb : s.bag ≠ [] := by
        intro hb; apply hq; simp [S.queued, hb, hl]
      exact ⟨0, hW, avail_progress 0 (hidle 0) hd hc (Or.inr hb)⟩
    | cons e rest =>
      have he : e ∈ s.loc := by rw [hl]; exact List.mem_cons_self ..
      refine ⟨e.1, hi.loc_lt e he, avail_progress e.1 (hidle e.1) hd hc (Or.inl ?_)⟩
      intro hnone
      have := List.find?_eq_none.1 hnone e he
      simp at this

/-- **terminal states**: if no worker below `W` can progress, every worker has left its loop and
    `done` is set -/
theorem stuck_final (hi : Own W L s own) (hW : 0 < W) (hstuck : ∀ w, w < W → ¬ canProgress s w) :
    (∀ w, w < W → s.act w = .exited) ∧ s.done = true := by
  have hflag : s.done = true ∨ s.cancel = true := by
    cases hd : s.done with
    | true => exact Or.inl rfl
    | false =>
      cases hc : s.cancel with
      | true => exact Or.inr rfl
      | false =>
        obtain ⟨w, hw, hp⟩ := progress_exists hi hW hd hc
        exact absurd hp (hstuck w hw)
  have hex : ∀ w, w < W → s.act w = .exited := by
    intro w hw
    by_cases hx : s.act w = .exited
    · exact hx
    · exact absurd (flagged_progress hi w hflag hx) (hstuck w hw)
  exact ⟨hex, hi.exited_done 0 (hex 0 hW)⟩

/-- **a finished, uncancelled render is complete**: every created cell is finished, nothing is
    queued, every task was popped, and the root was collected if it was a branch -/
theorem complete_of_done (hi : Own W L s own) (hd : s.done = true) (hc : s.cancel = false) :
    (∀ c ∈ s.created, own c = .finished) ∧ s.queued = [] ∧ s.popped.Perm s.pushed ∧
    (s.kids 0 = 0 ∨ 0 ∈ s.collected) := by
  have h0 : own 0 = .finished := by
    rcases hi.done_why hd with h | h
    · simp [hc] at h
    · exact h
  have hall : ∀ d c, c ∈ s.created → L - s.level c = d → own c = .finished := by
    intro d
    induction d with
    | zero =>
      intro c hcc hl
      have hle := hi.lvl_le c hcc
      cases hp : s.parent c with
      | none => rw [hi.par_none c hcc hp]; exact h0
      | some p =>
        have := hi.par c hcc p hp
        have := hi.lvl_le p this.1
        omega
    | succ d ih =>
      intro c hcc hl
      cases hp : s.parent c with
      | none => rw [hi.par_none c hcc hp]; exact h0
      | some p =>
        have hpar := hi.par c hcc p hp
        have hpf := ih p hpar.1 (by omega)
        by_cases hf : own c = .finished
        · exact hf
        · have := hi.child_par c hcc p hp hf
          simp [hpf] at this
  have hfin : ∀ c ∈ s.created, own c = .finished := fun c hcc => hall _ c hcc rfl
  have hq : s.queued = [] := by
    cases hqq : s.queued with
    | nil => rfl
    | cons c rest =>
      have hcq : c ∈ s.queued := by rw [hqq]; exact List.mem_cons_self ..
      have h1 := hi.queued_place hcq
      have h2 := hfin c (hi.queued_created hcq)
      rw [h1] at h2; simp at h2
  refine ⟨hfin, hq, ?_, hi.coll 0 (by simp [h0])⟩
  have := hi.q.perm
  rw [hq, List.append_nil] at this
  exact this.symm

end

/-! ## the bound in terms of the cells actually created -/

/-- how many non-spinning steps have been spent on a cell: push, pop, evaluation, `pending--` -/
def Place.stage : Place → Nat
  | .free => 0
  | .queued => 1
  | .eval _ => 2
  | .split _ => 3
  | .waiting => 3
  | .asc _ => 3
  | .finished => 4

def exitedCount (W : Nat) (act : Nat → Act) : Nat :=
  ((List.range W).map (fun w => if act w = .exited then 1 else 0)).sum

/-- steps accounted for so far: the stages of all created cells plus the workers that have left -/
def credit (W : Nat) (s : S) (own : Nat → Place) : Nat :=
  (s.created.map (fun c => (own c).stage)).sum + exitedCount W s.act

theorem stage_sum_upd {cr : List Nat} (hnd : cr.Nodup) {c : Nat} (hc : c ∈ cr) (own : Nat → Place)
    (pl : Place) :
    (cr.map (fun x => (upd own c pl x).stage)).sum + (own c).stage =
      (cr.map (fun x => (own x).stage)).sum + pl.stage := by
  have := sum_map_update cr hnd c hc (fun x => (own x).stage) (fun x => (upd own c pl x).stage)
    (by intro x _ hx; simp [upd, hx])
  simpa [upd] using this

theorem stage_sum_upd' {cr : List Nat} (hnd : cr.Nodup) {c : Nat} (hc : c ∈ cr) (own : Nat → Place)
    (pl : Place) (a b : Nat) (ha : (own c).stage = a) (hb : pl.stage = b) :
    (cr.map (fun x => (upd own c pl x).stage)).sum + a =
      (cr.map (fun x => (own x).stage)).sum + b := by
  rw [← ha, ← hb]; exact stage_sum_upd hnd hc own pl

theorem exitedCount_upd {W : Nat} {w : Nat} (hw : w < W) (act : Nat → Act) (a' : Act) :
    exitedCount W (upd act w a') + (if act w = .exited then 1 else 0) =
      exitedCount W act + (if a' = .exited then 1 else 0) := by
  have := sum_map_update (List.range W) List.nodup_range w (List.mem_range.2 hw)
    (fun x => if act x = .exited then 1 else 0) (fun x => if upd act w a' x = .exited then 1 else 0)
    (by intro x _ hx; simp [upd, hx])
  simpa [exitedCount, upd] using this

theorem sum_map_le {α : Type} (l : List α) (f : α → Nat) (k : Nat) (h : ∀ x, f x ≤ k) :
    (l.map f).sum ≤ k * l.length := by
  induction l with
  | nil => simp
  | cons a t ih =>
    simp only [List.map_cons, List.sum_cons, List.length_cons, Nat.mul_succ]
    have := h a
    omega

theorem credit_le (W : Nat) (s : S) (own : Nat → Place) : credit W s own ≤ 4 * s.created.length + W := by
  have h1 := sum_map_le s.created (fun c => (own c).stage) 4
    (by intro x; cases own x <;> simp [Place.stage])
  have h2 := sum_map_le (List.range W) (fun w => if s.act w = .exited then 1 else 0) 1
    (by intro x; split <;> omega)
  simp only [List.length_range, Nat.one_mul] at h2
  simp only [credit, exitedCount]
  omega

theorem credit_step {W L : Nat} {s : S} {own : Nat → Place} (hi : Own W L s own) (e : Ev) (s' : S)
    (h : step s e = some s') (hw : ∀ w, e.worker = some w → w < W) :
    credit W s own + (if e.isSpin then 0 else 1) ≤ credit W s' (gown s own e) := by
  have hnd := hi.created_nodup
  cases e with
  | cancel =>
    simp only [step, Option.some.injEq] at h; subst h
    simp [Ev.isSpin, credit, gown]
  | loop w =>
    obtain ⟨ha, _, _, rfl⟩ := step_loop_inv h
    have := exitedCount_upd (hw w rfl) s.act .inLoop
    simp [ha] at this
    simp [Ev.isSpin, credit, gown, this]
  | noTask w =>
    obtain ⟨ha, rfl⟩ := step_noTask_inv h
    have := exitedCount_upd (hw w rfl) s.act .idle
    simp [ha] at this
    simp [Ev.isSpin, credit, gown, this]
  | exitLoop w =>
    obtain ⟨ha, hd, rfl⟩ := step_exitLoop_inv h
    have := exitedCount_upd (hw w rfl) s.act .exited
    simp [ha] at this
    simp [Ev.isSpin, credit, gown, this]
    omega
  | pop w c =>
    obtain ⟨ha, hcase⟩ := step_pop_inv h
    have hx := exitedCount_upd (hw w rfl) s.act (.eval c)
    simp [ha] at hx
    have hcq : c ∈ s.queued := by
      rcases hcase with ⟨e, he, hec, _⟩ | ⟨hcb, _⟩
      · simp only [S.queued, List.mem_append, List.mem_map]; exact Or.inr ⟨e, he, hec⟩
      · simp only [S.queued, List.mem_append]; exact Or.inl hcb
    have hoc := hi.queued_place hcq
    have hst := stage_sum_upd' hnd (hi.queued_created hcq) own (.eval w) 1 2 (by rw [hoc]; rfl) rfl
    rcases hcase with ⟨e, he, hec, rfl⟩ | ⟨hcb, rfl⟩ <;>
      · simp only [Ev.isSpin, credit, gown, hx, Bool.false_eq_true, if_false]
        omega
  | push w child tl =>
    obtain ⟨c, ha, hf, hl, hk, rfl⟩ := step_push_inv h
    have hoc : own c = .split w := (hi.f_split w c).2 ha
    have hcc : c ∈ s.created := hi.mem_created (by simp [hoc])
    have hne : child ≠ c := fun e => hf (e ▸ hcc)
    have hx := exitedCount_upd (hw w rfl) s.act (if s.kids c + 1 = s.n then Act.idle else Act.split c)
    have hx2 : (if (if s.kids c + 1 = s.n then Act.idle else Act.split c) = Act.exited then 1 else 0) = 0 := by
      split <;> simp
    simp only [ha, hx2] at hx
    have hst := stage_sum_upd hnd hcc (upd own child .queued)
      (if s.kids c + 1 = s.n then Place.waiting else Place.split w)
    have h3 : (if s.kids c + 1 = s.n then Place.waiting else Place.split w).stage = 3 := by
      split <;> rfl
    have h4 : (upd own child .queued c).stage = 3 := by simp [upd, hne.symm, hoc, Place.stage]
    rw [h3, h4] at hst
    have h5 : (s.created.map (fun x => (upd own child .queued x).stage)).sum =
        (s.created.map (fun x => (own x).stage)).sum := by
      congr 1
      apply List.map_congr_left
      intro x hx
      have : x ≠ child := fun e => hf (e ▸ hx)
      simp [upd, this]
    rw [h5] at hst
    simp only [Ev.isSpin, credit, gown, ha, Bool.false_eq_true, if_false, List.map_cons, List.sum_cons]
    have h6 : (upd (upd own child .queued) c
        (if s.kids c + 1 = s.n then Place.waiting else Place.split w) child).stage = 1 := by
      simp [upd, hne, Place.stage]
    rw [h6]
    simp at hx
    omega
  | evalDone w k =>
    obtain ⟨c, ha, hk0, hcase⟩ := step_evalDone_inv h
    have hoc : own c = .eval w := (hi.f_eval w c).2 ha
    have hcc : c ∈ s.created := hi.mem_created (by simp [hoc])
    rcases hcase with ⟨rfl, hl, hn, rfl⟩ | ⟨hk, rfl⟩
    · have hx := exitedCount_upd (hw w rfl) s.act (.split c)
      simp [ha] at hx
      have hst := stage_sum_upd' hnd hcc own (.split w) 2 3 (by rw [hoc]; rfl) rfl
      simp only [Ev.isSpin, credit, gown, ha, hx, Bool.false_eq_true, if_false]
      omega
    · have hx := exitedCount_upd (hw w rfl) s.act (.ascend c)
      simp [ha] at hx
      have hst := stage_sum_upd' hnd hcc own (.asc w) 2 3 (by rw [hoc]; rfl) rfl
      have : gown s own (.evalDone w k) = upd own c (.asc w) := by
        cases k <;> simp_all [gown]
      simp only [Ev.isSpin, credit, this, hx, Bool.false_eq_true, if_false]
      omega
  | collect w last =>
    obtain ⟨c, p, ha, hp, hl, rfl⟩ := step_collect_inv h
    obtain ⟨hoc, hcc, hpc, hlv, hne, hb, hpos, hz⟩ := hi.ascend_facts ha hp
    have hst := stage_sum_upd' hnd hcc own .finished 3 4 (by rw [hoc]; rfl) rfl
    cases last with
    | false =>
      have hx := exitedCount_upd (hw w rfl) s.act .idle
      simp [ha] at hx
      simp only [Ev.isSpin, credit, gown, ha, hp, hx, Bool.false_eq_true, if_false]
      omega
    | true =>
      have h0 : s.pending p = 0 := by simpa using hl
      obtain ⟨hop, _⟩ := hz h0
      have hx := exitedCount_upd (hw w rfl) s.act (.ascend p)
      simp [ha] at hx
      have h7 : (upd own c .finished p).stage = 3 := by simp [upd, hne.symm, hop, Place.stage]
      have hst2 := stage_sum_upd' hnd hpc (upd own c .finished) (.asc w) 3 3 h7 rfl
      simp only [Ev.isSpin, credit, gown, ha, hp, hx, Bool.false_eq_true, if_false, if_true]
      omega
  | exitRoot w =>
    obtain ⟨c, ha, hp, rfl⟩ := step_exitRoot_inv h
    have hoc : own c = .asc w := (hi.f_asc w c).2 ha
    have hcc : c ∈ s.created := hi.mem_created (by simp [hoc])
    have hx := exitedCount_upd (hw w rfl) s.act .exited
    simp [ha] at hx
    have hst := stage_sum_upd' hnd hcc own .finished 3 4 (by rw [hoc]; rfl) rfl
    simp only [Ev.isSpin, credit, gown, ha, hx, Bool.false_eq_true, if_false]
    omega

theorem credit_run {W L : Nat} (tr : List Ev) (s s' : S) (own : Nat → Place) (hi : Own W L s own)
    (hw : workersBelow W tr) (h : run s tr = some s') :
    nonSpin tr + credit W s own ≤ credit W s' (grun s own tr) := by
  induction tr generalizing s own with
  | nil => simp [run] at h; subst h; simp [nonSpin, grun]
  | cons e es ih =>
    simp only [run] at h
    split at h
    · rename_i s1 h1
      have hwe := Ev.below_spec (hw e (List.mem_cons_self ..))
      have h2 := ih s1 _ (own_step hi e s1 h1 hwe)
        (fun e' he' => hw e' (List.mem_cons_of_mem _ he')) h
      have h3 := credit_step hi e s1 h1 hwe
      simp only [grun, h1]
      cases hsp : e.isSpin
      · simp only [hsp, Bool.false_eq_true, if_false] at h3
        simp only [nonSpin, List.filter_cons, hsp, Bool.not_false, if_true, List.length_cons] at h2 ⊢
        omega
      · simp only [hsp, if_true] at h3
        simp only [nonSpin, List.filter_cons, hsp, Bool.not_true, Bool.false_eq_true, if_false] at h2 ⊢
        omega
    · simp at h

/-- a worker that has left cannot progress -/
theorem exited_stuck (s : S) (w : Nat) (hx : s.act w = .exited) : ¬ canProgress s w := by
  rintro ⟨e, he, _, h | ⟨e0, s1, he0, _, hs, _⟩⟩
  · rw [exited_final s w hx e he] at h; simp at h
  · rw [exited_final s w hx e0 he0] at hs; simp at hs

/-- the flag is only raised by the environment -/
theorem step_cancel_eq {s s' : S} {e : Ev} {w : Nat} (he : e.worker = some w) (h : step s e = some s') :
    s'.cancel = s.cancel := by
  cases e with
  | cancel => simp [Ev.worker] at he
  | loop w => obtain ⟨_, _, _, rfl⟩ := step_loop_inv h; rfl
  | noTask w => obtain ⟨_, rfl⟩ := step_noTask_inv h; rfl
  | exitLoop w => obtain ⟨_, _, rfl⟩ := step_exitLoop_inv h; rfl
  | pop w c =>
    obtain ⟨_, hcase⟩ := step_pop_inv h
    rcases hcase with ⟨_, _, _, rfl⟩ | ⟨_, rfl⟩ <;> rfl
  | push w child tl => obtain ⟨_, _, _, _, _, rfl⟩ := step_push_inv h; rfl
  | evalDone w k =>
    obtain ⟨_, _, _, hcase⟩ := step_evalDone_inv h
    rcases hcase with ⟨_, _, _, rfl⟩ | ⟨_, rfl⟩ <;> rfl
  | collect w last => obtain ⟨_, _, _, _, _, rfl⟩ := step_collect_inv h; rfl
  | exitRoot w => obtain ⟨_, _, _, rfl⟩ := step_exitRoot_inv h; rfl

theorem run_append (s : S) (t1 t2 : List Ev) (s1 : S) (h : run s t1 = some s1) :
    run s (t1 ++ t2) = run s1 t2 := by
  induction t1 generalizing s with
  | nil => simp [run] at h; subst h; rfl
  | cons e es ih =>
    simp only [run] at h
    split at h
    · rename_i s2 h2
      simp only [List.cons_append, run, h2]
      exact ih s2 h
    · simp at h

/-- **a terminating schedule exists from every uncancelled state satisfying the invariant**: the
    workers below `W` alone can finish the render (so the bound on the non-spinning steps is not
    vacuous) -/
theorem can_finish {W L : Nat} (hW : 0 < W) :
    ∀ (m : Nat) (s : S) (own : Nat → Place), Own W L s own → s.cancel = false → poolMeasure W L s ≤ m →
      ∃ tr s', workersBelow W tr ∧ run s tr = some s' ∧ s'.cancel = false ∧ s'.done = true := by
  intro m
  induction m with
  | zero =>
    intro s own hi hc hm
    cases hd : s.done with
    | true => exact ⟨[], s, by intro e he; simp at he, rfl, hc, hd⟩
    | false =>
      obtain ⟨w, hw, e, he, hns, hstep⟩ := progress_exists hi hW hd hc
      have hbelow : ∀ e' : Ev, e'.worker = some w → e'.below W = true := by
        intro e' he'; simp [Ev.below, he', hw]
      rcases hstep with h1 | ⟨e0, s1, he0, hsp0, hs1, h1⟩
      · obtain ⟨s2, hs2⟩ := Option.isSome_iff_exists.1 h1
        have := measure_step hi e s2 hs2 (Ev.below_spec (hbelow e he))
        simp only [hns, Bool.false_eq_true, if_false] at this
        omega
      · obtain ⟨s2, hs2⟩ := Option.isSome_iff_exists.1 h1
        have hi1 := own_step hi e0 s1 hs1 (Ev.below_spec (hbelow e0 he0))
        have hm1 := measure_step hi e0 s1 hs1 (Ev.below_spec (hbelow e0 he0))
        simp only [hsp0, if_true] at hm1
        have := measure_step hi1 e s2 hs2 (Ev.below_spec (hbelow e he))
        simp only [hns, Bool.false_eq_true, if_false] at this
        omega
  | succ m ih =>
    intro s own hi hc hm
    cases hd : s.done with
    | true => exact ⟨[], s, by intro e he; simp at he, rfl, hc, hd⟩
    | false =>
      obtain ⟨w, hw, e, he, hns, hstep⟩ := progress_exists hi hW hd hc
      have hbelow : ∀ e' : Ev, e'.worker = some w → e'.below W = true := by
        intro e' he'; simp [Ev.below, he', hw]
      rcases hstep with h1 | ⟨e0, s1, he0, hsp0, hs1, h1⟩
      · obtain ⟨s2, hs2⟩ := Option.isSome_iff_exists.1 h1
        have hlt := measure_step hi e s2 hs2 (Ev.below_spec (hbelow e he))
        simp only [hns, Bool.false_eq_true, if_false] at hlt
        have hi2 := own_step hi e s2 hs2 (Ev.below_spec (hbelow e he))
        have hc2 : s2.cancel = false := by rw [step_cancel_eq he hs2]; exact hc
        obtain ⟨tr, s', htr, hrun, hc', hd'⟩ := ih s2 _ hi2 hc2 (by omega)
        refine ⟨e :: tr, s', ?_, ?_, hc', hd'⟩
        · intro e' he'
          rcases List.mem_cons.1 he' with rfl | h
          · exact hbelow _ he
          · exact htr e' h
        · simp only [run, hs2]; exact hrun
      · obtain ⟨s2, hs2⟩ := Option.isSome_iff_exists.1 h1
        have hi1 := own_step hi e0 s1 hs1 (Ev.below_spec (hbelow e0 he0))
        have hm1 := measure_step hi e0 s1 hs1 (Ev.below_spec (hbelow e0 he0))
        simp only [hsp0, if_true] at hm1
        have hlt := measure_step hi1 e s2 hs2 (Ev.below_spec (hbelow e he))
        simp only [hns, Bool.false_eq_true, if_false] at hlt
        have hi2 := own_step hi1 e s2 hs2 (Ev.below_spec (hbelow e he))
        have hc2 : s2.cancel = false := by
          rw [step_cancel_eq he hs2, step_cancel_eq he0 hs1]; exact hc
        obtain ⟨tr, s', htr, hrun, hc', hd'⟩ := ih s2 _ hi2 hc2 (by omega)
        refine ⟨e0 :: e :: tr, s', ?_, ?_, hc', hd'⟩
        · intro e' he'
          rcases List.mem_cons.1 he' with rfl | h
          · exact hbelow _ he0
          · rcases List.mem_cons.1 h with rfl | h
            · exact hbelow _ he
            · exact htr e' h
        · simp only [run, hs1, hs2]; exact hrun

end Libfive.Pool
