/-
  Helper lemmas for C19, part 2: the algebra of the accumulated matrices over a field
  (LibfiveModel/QEF.lean: `insert`, `add`, `errorV`, `sub`, the reduced system).
-/
import LibfiveModel.QEF
import Mathlib.Tactic.Ring
import Mathlib.Tactic.Linarith
import Mathlib.Algebra.Order.Field.Basic
import Mathlib.Algebra.BigOperators.Fin
import Mathlib.Algebra.BigOperators.Ring.Finset
import Mathlib.Algebra.Order.BigOperators.Group.List

namespace Libfive.QEF

open Finset

section field
variable {K : Type} [Field K]

theorem sumFin_eq_sum : ∀ (n : Nat) (f : Fin n → K), sumFin n f = ∑ i, f i
  | 0, f => by simp [sumFin]
  | n + 1, f => by
    rw [sumFin, sumFin_eq_sum n, Fin.sum_univ_castSucc]

@[simp] theorem snoc_castSucc {α : Type} {n : Nat} (x : Fin n → α) (w : α) (i : Fin n) :
    snoc x w i.castSucc = x i := by
  simp [snoc]

@[simp] theorem snoc_last {α : Type} {n : Nat} (x : Fin n → α) (w : α) :
    snoc x w (Fin.last n) = w := by
  simp [snoc]

/-! ### `errorV` is linear in the three matrices -/

variable {n : Nat}

theorem errorV_def (q : QEF n K) (v : Fin (n + 1) → K) :
    q.errorV v = (∑ j, (∑ i, v i * q.AtA i j) * v j) - 2 * (∑ i, v i * ∑ j, q.AtBp i j)
      + ∑ j, ∑ i, q.BptBp i j := by
  simp only [QEF.errorV, QEF.AtB, QEF.BtB, sumFin_eq_sum]

theorem errorV_empty (v : Fin (n + 1) → K) : (QEF.empty n : QEF n K).errorV v = 0 := by
  simp [errorV_def, QEF.empty]

theorem errorV_add (a b : QEF n K) (v : Fin (n + 1) → K) :
    (a.add b).errorV v = a.errorV v + b.errorV v := by
  simp only [errorV_def, QEF.add, mul_add, add_mul, sum_add_distrib]
  ring

/-- rank-one update of the quadratic term -/
theorem quad_rank_one (A : Fin (n + 1) → Fin (n + 1) → K) (x y v : Fin (n + 1) → K) :
    (∑ j, (∑ i, v i * (A i j + x i * y j)) * v j) =
      (∑ j, (∑ i, v i * A i j) * v j) + (∑ i, x i * v i) * (∑ j, y j * v j) := by
  have h : ∀ j, (∑ i, v i * (A i j + x i * y j)) * v j =
      (∑ i, v i * A i j) * v j + (∑ i, x i * v i) * (y j * v j) := by
    intro j
    have : (∑ i, v i * (A i j + x i * y j)) = (∑ i, v i * A i j) + (∑ i, x i * v i) * y j := by
      simp only [mul_add, sum_add_distrib, sum_mul]
      congr 1
      apply sum_congr rfl
      intro i _
      ring
    rw [this]; ring
  simp only [h, sum_add_distrib, mul_sum]

theorem lin_rank_one (B : Fin (n + 1) → Fin (n + 1) → K) (x y v : Fin (n + 1) → K) :
    (∑ i, v i * ∑ j, (B i j + x i * y j)) =
      (∑ i, v i * ∑ j, B i j) + (∑ i, x i * v i) * (∑ j, y j) := by
  have h : ∀ i, v i * ∑ j, (B i j + x i * y j) = v i * (∑ j, B i j) + (x i * v i) * ∑ j, y j := by
    intro i
    simp only [sum_add_distrib, ← mul_sum]
    ring
  calc (∑ i, v i * ∑ j, (B i j + x i * y j))
      = ∑ i, (v i * (∑ j, B i j) + (x i * v i) * ∑ j, y j) := sum_congr rfl (fun i _ => h i)
    _ = _ := by rw [sum_add_distrib, sum_mul]

theorem const_rank_one (C : Fin (n + 1) → Fin (n + 1) → K) (x y : Fin (n + 1) → K) :
    (∑ j, ∑ i, (C i j + x i * y j)) = (∑ j, ∑ i, C i j) + (∑ i, x i) * (∑ j, y j) := by
  simp only [sum_add_distrib, ← sum_mul, ← mul_sum]

/-- One more sample adds the square of its residual to the error, at every `v`. -/
theorem errorV_insert (fin : K → Bool) (q : QEF n K) (s : Sample n K) (v : Fin (n + 1) → K) :
    (q.insert fin s).errorV v = q.errorV v + (s.residual fin v) ^ 2 := by
  simp only [errorV_def, QEF.insert, Sample.residual, sumFin_eq_sum, quad_rank_one, lin_rank_one,
    const_rank_one]
  ring

/-! ### QEFs built by `insert` and `+=` -/

/-- `Built fin q l`: `q` was obtained from empty QEFs by `insert` and `+=`, and `l` lists the
    samples that went in. -/
inductive Built (fin : K → Bool) : QEF n K → List (Sample n K) → Prop
  | empty : Built fin (QEF.empty n) []
  | insert {q l} (s : Sample n K) : Built fin q l → Built fin (q.insert fin s) (s :: l)
  | add {q₁ q₂ l₁ l₂} : Built fin q₁ l₁ → Built fin q₂ l₂ → Built fin (q₁.add q₂) (l₁ ++ l₂)

theorem Built.errorV_eq {fin : K → Bool} {q : QEF n K} {l : List (Sample n K)} (h : Built fin q l)
    (v : Fin (n + 1) → K) : q.errorV v = (l.map (fun s => (s.residual fin v) ^ 2)).sum := by
  induction h with
  | empty => simp [errorV_empty]
  | insert s _ ih => rw [errorV_insert, ih]; simp [add_comm]
  | add _ _ ih₁ ih₂ => rw [errorV_add, ih₁, ih₂]; simp

theorem foldl_insert_built (fin : K → Bool) :
    ∀ (l : List (Sample n K)) (q : QEF n K) (l₀ : List (Sample n K)), Built fin q l₀ →
      Built fin (l.foldl (QEF.insert fin) q) (l.reverse ++ l₀)
  | [], q, l₀, h => by simpa using h
  | s :: t, q, l₀, h => by
    have := foldl_insert_built fin t (q.insert fin s) (s :: l₀) (Built.insert s h)
    simpa using this

theorem ofSamples_built (fin : K → Bool) (l : List (Sample n K)) :
    Built fin (QEF.ofSamples fin l) l.reverse := by
  have := foldl_insert_built fin l (QEF.empty n) [] Built.empty
  simpa [QEF.ofSamples] using this

/-- what a sample's residual is, in terms of position and value -/
theorem residual_spec (fin : K → Bool) (s : Sample n K) (x : Fin n → K) (w : K) :
    s.residual fin (snoc x w) =
      (∑ k, effNormal fin s.nrm k * (x k - s.pos k)) - (w - s.val) := by
  simp only [Sample.residual, Sample.bp, Sample.ni, Sample.pi, sumFin, snoc_castSucc, snoc_last,
    sumFin_eq_sum, mul_sub, sum_sub_distrib]
  ring

/-! ### accumulation is a commutative monoid -/

omit [Field K] in
theorem qef_ext {a b : QEF n K} (h1 : ∀ i j, a.AtA i j = b.AtA i j)
    (h2 : ∀ i j, a.AtBp i j = b.AtBp i j) (h3 : ∀ i j, a.BptBp i j = b.BptBp i j) : a = b := by
  cases a; cases b
  simp only [QEF.mk.injEq]
  exact ⟨funext fun i => funext fun j => h1 i j, funext fun i => funext fun j => h2 i j,
    funext fun i => funext fun j => h3 i j⟩

theorem add_comm' (a b : QEF n K) : a.add b = b.add a := by
  apply qef_ext <;> intro i j <;> simp only [QEF.add] <;> ring

theorem add_assoc' (a b c : QEF n K) : (a.add b).add c = a.add (b.add c) := by
  apply qef_ext <;> intro i j <;> simp only [QEF.add] <;> ring

theorem add_empty (a : QEF n K) : a.add (QEF.empty n) = a := by
  apply qef_ext <;> intro i j <;> simp [QEF.add, QEF.empty]

theorem insert_comm (fin : K → Bool) (q : QEF n K) (s t : Sample n K) :
    (q.insert fin s).insert fin t = (q.insert fin t).insert fin s := by
  apply qef_ext <;> intro i j <;> simp only [QEF.insert] <;> ring

theorem insert_eq_add (fin : K → Bool) (q : QEF n K) (s : Sample n K) :
    q.insert fin s = q.add ((QEF.empty n).insert fin s) := by
  apply qef_ext <;> intro i j <;> simp [QEF.insert, QEF.add, QEF.empty]

theorem foldl_insert_add (fin : K → Bool) :
    ∀ (l : List (Sample n K)) (q : QEF n K),
      l.foldl (QEF.insert fin) q = q.add (l.foldl (QEF.insert fin) (QEF.empty n))
  | [], q => by simp [add_empty]
  | s :: t, q => by
    simp only [List.foldl_cons]
    rw [foldl_insert_add fin t (q.insert fin s), foldl_insert_add fin t ((QEF.empty n).insert fin s),
      insert_eq_add fin q s, add_assoc']

theorem ofSamples_append (fin : K → Bool) (l₁ l₂ : List (Sample n K)) :
    QEF.ofSamples fin (l₁ ++ l₂) = (QEF.ofSamples fin l₁).add (QEF.ofSamples fin l₂) := by
  simp only [QEF.ofSamples, List.foldl_append]
  exact foldl_insert_add fin l₂ _

theorem ofSamples_perm (fin : K → Bool) {l₁ l₂ : List (Sample n K)} (h : l₁.Perm l₂) :
    QEF.ofSamples fin l₁ = QEF.ofSamples fin l₂ := by
  unfold QEF.ofSamples
  exact h.foldl_eq' (fun x _ y _ z => insert_comm fin z x y) _

/-! ### the reduced system of `solveConstrained` -/

theorem sum_map_filter {β : Type} (p : β → Bool) (h : β → K) :
    ∀ l : List β, ((l.filter p).map h).sum = (l.map (fun i => if p i then h i else 0)).sum
  | [] => by simp
  | a :: t => by
    by_cases hp : p a = true
    · simp [hp, sum_map_filter p h t]
    · simp [hp, sum_map_filter p h t]

/-- summing over the rows/columns kept by `liftIdx` plus the dropped position axes is summing
    over everything -/
theorem sum_split (p : Fin n → Bool) (g : Fin (n + 1) → K) :
    (∑ j, g j) =
      (∑ c : Fin (((List.finRange n).filter p).length + 1), g (liftIdx ((List.finRange n).filter p) c))
        + ∑ col : Fin n, (if p col then 0 else g col.castSucc) := by
  have hmain : ∀ axes : List (Fin n), axes = (List.finRange n).filter p →
      (∑ j, g j) = (∑ c : Fin (axes.length + 1), g (liftIdx axes c))
        + ∑ col : Fin n, (if p col then 0 else g col.castSucc) := by
    intro axes haxes
    rw [Fin.sum_univ_castSucc, Fin.sum_univ_castSucc (n := axes.length)]
    have hlast : liftIdx axes (Fin.last axes.length) = Fin.last n := by
      simp [liftIdx]
    have hcs : ∀ c : Fin axes.length,
        g (liftIdx axes c.castSucc) = (fun i : Fin n => g i.castSucc) axes[c.1] := by
      intro c
      simp [liftIdx]
    rw [hlast, sum_congr rfl (fun c _ => hcs c),
      Fin.sum_univ_fun_getElem axes (fun i : Fin n => g i.castSucc), haxes, sum_map_filter,
      ← Fin.sum_univ_def]
    have : ∀ i : Fin n, g i.castSucc = (if p i = true then g i.castSucc else 0)
        + (if p i = true then 0 else g i.castSucc) := by
      intro i; by_cases hp : p i = true <;> simp [hp]
    rw [sum_congr rfl (fun i _ => this i), sum_add_distrib]
    ring
  exact hmain _ rfl

theorem sum_split_free (nb : Nat) (g : Fin (n + 1) → K) :
    (∑ j, g j) =
      (∑ c : Fin ((freeAxes n nb).length + 1), g (liftIdx (freeAxes n nb) c))
        + ∑ col : Fin n, (if nbFixed nb col.val then g col.castSucc else 0) := by
  have h := sum_split (fun i : Fin n => !nbFixed nb i.val) g
  have h2 : ∀ col : Fin n, (if (!nbFixed nb col.val) = true then 0 else g col.castSucc) =
      (if nbFixed nb col.val = true then g col.castSucc else 0) := by
    intro col; by_cases hf : nbFixed nb col.val = true <;> simp [hf]
  rw [sum_congr rfl (fun col _ => h2 col)] at h
  exact h

/-- **Reduced system.**  Let `v` agree with the face coordinates on the axes `nb` fixes, and let
    `x` be its remaining components (floating axes and value).  Then row `r` of the reduced
    system `AtA_c·x − AtB_c` is row `liftIdx r` of the full normal equations `AtA·v − AtB`. -/
theorem reduced_row (q : QEF n K) (region : Region n K) (nb : Nat) (v : Fin (n + 1) → K)
    (hv : ∀ i : Fin n, nbFixed nb i.val = true → v i.castSucc = region.face nb i)
    (r : Fin ((freeAxes n nb).length + 1)) :
    (∑ c, q.reducedAtA nb r c * v (liftIdx (freeAxes n nb) c)) - q.reducedAtB region nb r =
      (∑ j, q.AtA (liftIdx (freeAxes n nb) r) j * v j) - q.AtB (liftIdx (freeAxes n nb) r) := by
  rw [sum_split_free nb (fun j => q.AtA (liftIdx (freeAxes n nb) r) j * v j)]
  simp only [QEF.reducedAtA, QEF.reducedAtB, sumFin_eq_sum]
  have : ∀ col : Fin n,
      (if nbFixed nb col.val = true
        then q.AtA (liftIdx (freeAxes n nb) r) col.castSucc * v col.castSucc else 0) =
      (if nbFixed nb col.val = true
        then q.AtA (liftIdx (freeAxes n nb) r) col.castSucc * region.face nb col else 0) := by
    intro col
    by_cases hf : nbFixed nb col.val = true
    · simp [hf, hv col hf]
    · simp [hf]
  rw [sum_congr rfl (fun col _ => this col)]
  ring

theorem sub_add (a b : QEF n K) (mask : Nat) : (a.add b).sub mask = (a.sub mask).add (b.sub mask) := rfl

end field

section ordered
variable {K : Type} [Field K] [LinearOrder K] [IsStrictOrderedRing K] {n : Nat}

theorem Built.errorV_nonneg {fin : K → Bool} {q : QEF n K} {l : List (Sample n K)}
    (h : Built fin q l) (v : Fin (n + 1) → K) : 0 ≤ q.errorV v := by
  rw [h.errorV_eq v]
  apply List.sum_nonneg
  intro x hx
  obtain ⟨s, _, rfl⟩ := List.mem_map.mp hx
  exact sq_nonneg _

/-! ### a solution of the reduced system minimises the error on its face -/

/-- row `j` of the normal equations, `(AtA·v − AtB)_j` -/
def grad (q : QEF n K) (v : Fin (n + 1) → K) (j : Fin (n + 1)) : K :=
  (∑ i, q.AtA j i * v i) - q.AtB j

omit [LinearOrder K] [IsStrictOrderedRing K] in
theorem grad_empty (v : Fin (n + 1) → K) (j : Fin (n + 1)) : grad (QEF.empty n) v j = 0 := by
  simp [grad, QEF.empty, QEF.AtB, sumFin_eq_sum]

omit [LinearOrder K] [IsStrictOrderedRing K] in
theorem grad_add (a b : QEF n K) (v : Fin (n + 1) → K) (j : Fin (n + 1)) :
    grad (a.add b) v j = grad a v j + grad b v j := by
  simp only [grad, QEF.add, QEF.AtB, sumFin_eq_sum, add_mul, sum_add_distrib]
  ring

omit [LinearOrder K] [IsStrictOrderedRing K] in
theorem grad_insert (fin : K → Bool) (q : QEF n K) (s : Sample n K) (v : Fin (n + 1) → K)
    (j : Fin (n + 1)) :
    grad (q.insert fin s) v j = grad q v j + s.residual fin v * s.ni fin j := by
  simp only [grad, QEF.insert, QEF.AtB, Sample.residual, sumFin_eq_sum, add_mul, sum_add_distrib]
  have h1 : (∑ i, s.ni fin j * s.ni fin i * v i) = s.ni fin j * ∑ i, s.ni fin i * v i := by
    rw [mul_sum]; exact sum_congr rfl (fun i _ => by ring)
  have h2 : (∑ k, s.ni fin j * s.bp fin k) = s.ni fin j * ∑ k, s.bp fin k := by
    rw [mul_sum]
  rw [h1, h2]
  ring

omit [LinearOrder K] [IsStrictOrderedRing K] in
theorem residual_add (fin : K → Bool) (s : Sample n K) (v d : Fin (n + 1) → K) :
    s.residual fin (fun j => v j + d j) = s.residual fin v + ∑ j, s.ni fin j * d j := by
  simp only [Sample.residual, sumFin_eq_sum, mul_add, sum_add_distrib]
  ring

/-- first-order lower bound (convexity): `E(v + d) ≥ E(v) + 2·d·(AtA·v − AtB)` -/
theorem Built.errorV_convex {fin : K → Bool} {q : QEF n K} {l : List (Sample n K)}
    (h : Built fin q l) (v d : Fin (n + 1) → K) :
    q.errorV v + 2 * ∑ j, d j * grad q v j ≤ q.errorV (fun j => v j + d j) := by
  induction h with
  | empty => simp [errorV_empty, grad_empty]
  | @insert q l s _ ih =>
    rw [errorV_insert, errorV_insert, residual_add]
    have hg : (∑ j, d j * grad (q.insert fin s) v j) =
        (∑ j, d j * grad q v j) + s.residual fin v * ∑ j, s.ni fin j * d j := by
      simp only [grad_insert, mul_add, sum_add_distrib, mul_sum]
      congr 1
      exact sum_congr rfl (fun j _ => by ring)
    rw [hg]
    nlinarith [sq_nonneg (∑ j, s.ni fin j * d j)]
  | add _ _ ih₁ ih₂ =>
    rw [errorV_add, errorV_add]
    have hg : ∀ (a b : QEF n K), (∑ j, d j * grad (a.add b) v j) =
        (∑ j, d j * grad a v j) + ∑ j, d j * grad b v j := by
      intro a b
      simp only [grad_add, mul_add, sum_add_distrib]
    rw [hg]
    linarith

/-- **Optimality of the reduced system.**  If `v` sits on the face of `nb` and its free
    components solve the reduced system `AtA_c·x = AtB_c`, then `v` minimises the error among all
    `v'` on that face. -/
theorem Built.reduced_optimal {fin : K → Bool} {q : QEF n K} {l : List (Sample n K)}
    (h : Built fin q l) (region : Region n K) (nb : Nat) (v v' : Fin (n + 1) → K)
    (hv : ∀ i : Fin n, nbFixed nb i.val = true → v i.castSucc = region.face nb i)
    (hv' : ∀ i : Fin n, nbFixed nb i.val = true → v' i.castSucc = region.face nb i)
    (hsol : ∀ r, (∑ c, q.reducedAtA nb r c * v (liftIdx (freeAxes n nb) c)) = q.reducedAtB region nb r) :
    q.errorV v ≤ q.errorV v' := by
  have hconv := h.errorV_convex v (fun j => v' j - v j)
  have hv'eq : (fun j => v j + (v' j - v j)) = v' := by funext j; ring
  rw [hv'eq] at hconv
  have hzero : (∑ j, (v' j - v j) * grad q v j) = 0 := by
    rw [sum_split_free nb (fun j => (v' j - v j) * grad q v j)]
    have h1 : ∀ c : Fin ((freeAxes n nb).length + 1),
        (v' (liftIdx (freeAxes n nb) c) - v (liftIdx (freeAxes n nb) c)) *
          grad q v (liftIdx (freeAxes n nb) c) = 0 := by
      intro c
      have := reduced_row q region nb v hv c
      rw [hsol c, sub_self] at this
      unfold grad
      rw [← this, mul_zero]
    have h2 : ∀ col : Fin n, (if nbFixed nb col.val = true
        then (v' col.castSucc - v col.castSucc) * grad q v col.castSucc else 0) = 0 := by
      intro col
      by_cases hf : nbFixed nb col.val = true
      · simp [hf, hv col hf, hv' col hf]
      · simp [hf]
    rw [sum_congr rfl (fun c _ => h1 c), sum_congr rfl (fun col _ => h2 col)]
    simp
  rw [hzero] at hconv
  linarith

/-! ### the unpacking loop of `solveConstrained` puts the reduced solution where `liftIdx` says -/

theorem map_val_finRange (n : Nat) : (List.finRange n).map (fun i : Fin n => i.val) = List.range n := by
  apply List.ext_getElem <;> simp

/-- the `c`-th element of `filter q (range n)` has exactly `c` elements of the filter below it -/
theorem filter_range_rank (q : Nat → Bool) :
    ∀ (n c : Nat) (h : c < ((List.range n).filter q).length),
      ((List.range ((List.range n).filter q)[c]).filter q).length = c
  | 0, c, h => by simp at h
  | n + 1, c, h => by
    have hsplit : (List.range (n + 1)).filter q = (List.range n).filter q ++ [n].filter q := by
      rw [List.range_succ, List.filter_append]
    by_cases hc : c < ((List.range n).filter q).length
    · have : ((List.range (n + 1)).filter q)[c] = ((List.range n).filter q)[c] := by
        simp only [hsplit]
        exact List.getElem_append_left hc
      rw [this]
      exact filter_range_rank q n c hc
    · have hlen : ((List.range (n + 1)).filter q).length =
          ((List.range n).filter q).length + ([n].filter q).length := by
        rw [hsplit, List.length_append]
      by_cases hq : q n = true
      · have h1 : [n].filter q = [n] := by simp [hq]
        have hceq : c = ((List.range n).filter q).length := by
          rw [hlen, h1] at h; simp at h; omega
        have : ((List.range (n + 1)).filter q)[c] = n := by
          simp only [hsplit, h1]
          rw [List.getElem_append_right (by omega)]
          simp [hceq]
        rw [this]; exact hceq.symm
      · have h1 : [n].filter q = [] := by simp [hq]
        rw [hlen, h1] at h; simp at h; omega

omit [LinearOrder K] [IsStrictOrderedRing K] in
theorem freeAxes_getElem (nb : Nat) (c : Nat) (h : c < (freeAxes n nb).length) :
    nbFixed nb ((freeAxes n nb)[c]).val = false ∧ freeRank nb ((freeAxes n nb)[c]).val = c := by
  have hmem : (freeAxes n nb)[c] ∈ freeAxes n nb := List.getElem_mem h
  have hnf : nbFixed nb ((freeAxes n nb)[c]).val = false := by
    have := (List.mem_filter.mp hmem).2
    simpa using this
  refine ⟨hnf, ?_⟩
  have hmap : (freeAxes n nb).map (fun i : Fin n => i.val) =
      (List.range n).filter (fun a => !nbFixed nb a) := by
    unfold freeAxes
    rw [← map_val_finRange n, List.filter_map]
    rfl
  have hlen : c < ((List.range n).filter (fun a => !nbFixed nb a)).length := by
    rw [← hmap]; simpa using h
  have hval : ((freeAxes n nb)[c]).val = ((List.range n).filter (fun a => !nbFixed nb a))[c] := by
    have : ((freeAxes n nb).map (fun i : Fin n => i.val))[c]'(by simpa using h) = ((freeAxes n nb)[c]).val := by
      simp
    rw [← this]
    simp only [hmap]
  unfold freeRank
  rw [hval]
  exact filter_range_rank _ n c hlen

omit [Field K] [LinearOrder K] [IsStrictOrderedRing K] in
/-- the vector `(position, value)` assembled by `solveConstrained` restricted to the kept
    rows/columns is the reduced solution -/
theorem assemble_lift (region : Region n K) (nb : Nat) (x : Fin ((freeAxes n nb).length + 1) → K)
    (c : Fin ((freeAxes n nb).length + 1)) :
    snoc (assemblePos region nb x) (x (Fin.last _)) (liftIdx (freeAxes n nb) c) = x c := by
  by_cases hc : c.val < (freeAxes n nb).length
  · obtain ⟨h1, h2⟩ := freeAxes_getElem (n := n) nb c.val hc
    have hl : liftIdx (freeAxes n nb) c = ((freeAxes n nb)[c.val]).castSucc := by
      simp [liftIdx, hc]
    rw [hl, snoc_castSucc]
    unfold assemblePos
    simp only [h1, Bool.false_eq_true, if_false, h2]
    have : c.val < (freeAxes n nb).length + 1 := c.isLt
    simp [this]
  · have hce : c = Fin.last _ := by
      apply Fin.ext
      have := c.isLt
      simp only [Fin.val_last]
      omega
    have hl : liftIdx (freeAxes n nb) c = Fin.last n := by
      simp [liftIdx, hc]
    rw [hl, snoc_last, hce]

/-- **If the inner solver is exact on the reduced system, the candidate of `solveConstrained`
    minimises the error over its face.** -/
theorem Built.candidate_optimal {fin : K → Bool} {q : QEF n K} {l : List (Sample n K)}
    (h : Built fin q l) (solver : Solver K) (region : Region n K) (nb : Nat) (tpos : Fin n → K)
    (tval : K)
    (hexact : ∀ r, (∑ c, q.reducedAtA nb r c *
        (solver (freeAxes n nb).length (q.reducedAtA nb) (q.reducedAtB region nb)
          (reducedTarget nb tpos tval)).value c) = q.reducedAtB region nb r)
    (x' : Fin n → K) (w' : K) (hx' : ∀ i : Fin n, nbFixed nb i.val = true → x' i = region.face nb i) :
    (q.solveConstrained solver region nb tpos tval).error ≤ q.error x' w' := by
  set sol := solver (freeAxes n nb).length (q.reducedAtA nb) (q.reducedAtB region nb)
    (reducedTarget nb tpos tval) with hsol
  have herr : (q.solveConstrained solver region nb tpos tval).error =
      q.errorV (snoc (assemblePos region nb sol.value) (sol.value (Fin.last _))) := rfl
  rw [herr]
  unfold QEF.error
  apply h.reduced_optimal region nb
  · intro i hf
    rw [snoc_castSucc]
    simp [assemblePos, hf]
  · intro i hf
    rw [snoc_castSucc]
    exact hx' i hf
  · intro r
    rw [← hexact r]
    exact sum_congr rfl (fun c _ => by rw [assemble_lift])

/-- `Region::shrink(p)` with `0 ≤ p ≤ 1` of a well-formed box stays inside it. -/
theorem shrink_bounds (lo hi p : K) (hb : lo ≤ hi) (hp0 : 0 ≤ p) (hp1 : p ≤ 1) :
    lo ≤ lo + ((hi - lo) * (1 - p)) / 2 ∧
    lo + ((hi - lo) * (1 - p)) / 2 ≤ hi - ((hi - lo) * (1 - p)) / 2 ∧
    hi - ((hi - lo) * (1 - p)) / 2 ≤ hi := by
  have h1 : 0 ≤ (hi - lo) * (1 - p) := mul_nonneg (by linarith) (by linarith)
  have h2 : (hi - lo) * (1 - p) ≤ (hi - lo) := by nlinarith
  refine ⟨by linarith, by linarith, by linarith⟩

end ordered
end Libfive.QEF
