/-
  C02 — a GENUINE exact-arithmetic instance of the Boost.Interval primitives (`exactOps`) and the proof
  that it meets every contract the C02 theorems assume (`BoostSound`, `Atan2Sound`, `ModSound`).

  `exactOps P : BoostOps K` (any linear ordered field `K` with floor, e.g. `ℚ`) is true interval
  arithmetic on `Bnd K` with `±∞` endpoints:
  * the algebraic primitives (`add sub mul div min max hull neg abs square oneDiv mulNeg1 mulF`) are
    computed from the endpoints alone (4-product min/max with the endpoint convention `0·∞ = 0`,
    division as multiplication by the reciprocal interval, whole line for a divisor containing zero);
  * the transcendental primitives are monotone images / constant ranges built from the abstract point
    functions `P : PointFns K`; their contracts are proved from explicit monotonicity / range
    hypotheses on `P` (`PointHyps P`) — hypotheses about the real functions, not about Boost.
-/
import LibfiveProofs.Interval3
import Mathlib.Tactic.Linarith
import Mathlib.Algebra.Order.Field.Basic
import Mathlib.Algebra.Order.Ring.Basic
import Mathlib.Algebra.Ring.Parity
import Mathlib.Algebra.Order.Floor.Defs
import Mathlib.Algebra.Order.Floor.Ring

set_option linter.unusedSectionVars false
set_option linter.unusedVariables false
set_option linter.unusedSimpArgs false
set_option linter.unreachableTactic false
set_option linter.unusedTactic false

namespace Libfive.Ivl

open FVal

variable {K : Type} [Field K] [LinearOrder K] [IsStrictOrderedRing K]

/-! ### more order theory of `FVal` -/

section order

theorem fle_refl {x : FVal K} (h : x ≠ nan) : FVal.le x x = true := by
  cases x <;> simp_all [FVal.le]

theorem fle_total {x y : FVal K} (hx : x ≠ nan) (hy : y ≠ nan) :
    FVal.le x y = true ∨ FVal.le y x = true := by
  cases x <;> cases y <;> simp_all [FVal.le]
  exact le_total _ _

theorem flt_or_le {x y : FVal K} (hx : x ≠ nan) (hy : y ≠ nan) :
    FVal.lt x y = true ∨ FVal.le y x = true := by
  cases x <;> cases y <;> simp_all [FVal.le, FVal.lt]
  exact lt_or_ge _ _

theorem fle_ninf {x : FVal K} (h : x ≠ nan) : FVal.le ninf x = true := by
  cases x <;> simp_all [FVal.le]
theorem fle_pinf {x : FVal K} (h : x ≠ nan) : FVal.le x pinf = true := by
  cases x <;> simp_all [FVal.le]

theorem fle_neg_neg {x y : FVal K} (h : FVal.le x y = true) :
    FVal.le (FVal.neg y) (FVal.neg x) = true := by
  cases x <;> cases y <;> simp_all [FVal.le, FVal.neg]

theorem neg_neg_f (x : FVal K) : FVal.neg (FVal.neg x) = x := by
  cases x <;> simp [FVal.neg]

/-- endpoint minimum / maximum (IEEE `<` on the endpoints) -/
def emin (a b : FVal K) : FVal K := if FVal.lt b a then b else a
def emax (a b : FVal K) : FVal K := if FVal.lt a b then b else a

theorem pmin_eq_emin (a b : FVal K) : pmin a b = emin a b := by
  cases a <;> cases b <;> simp [pmin, emin, FVal.isNan]
theorem pmax_eq_emax (a b : FVal K) : pmax a b = emax a b := by
  cases a <;> cases b <;> simp [pmax, emax, FVal.isNan]

theorem emin_ne_nan {a b : FVal K} (ha : a ≠ nan) (hb : b ≠ nan) : emin a b ≠ nan := by
  unfold emin; split <;> assumption
theorem emax_ne_nan {a b : FVal K} (ha : a ≠ nan) (hb : b ≠ nan) : emax a b ≠ nan := by
  unfold emax; split <;> assumption

theorem emin_le_l {a b : FVal K} (ha : a ≠ nan) (hb : b ≠ nan) : FVal.le (emin a b) a = true := by
  unfold emin
  by_cases h : FVal.lt b a = true
  · simp only [h, if_true]; exact fle_of_lt h
  · simp only [h]; exact fle_refl ha
theorem emin_le_r {a b : FVal K} (ha : a ≠ nan) (hb : b ≠ nan) : FVal.le (emin a b) b = true := by
  unfold emin
  by_cases h : FVal.lt b a = true
  · simp only [h, if_true]; exact fle_refl hb
  · simp only [h]; exact fle_of_not_lt ha hb h
theorem le_emax_l {a b : FVal K} (ha : a ≠ nan) (hb : b ≠ nan) : FVal.le a (emax a b) = true := by
  unfold emax
  by_cases h : FVal.lt a b = true
  · simp only [h, if_true]; exact fle_of_lt h
  · simp only [h]; exact fle_refl ha
theorem le_emax_r {a b : FVal K} (ha : a ≠ nan) (hb : b ≠ nan) : FVal.le b (emax a b) = true := by
  unfold emax
  by_cases h : FVal.lt a b = true
  · simp only [h, if_true]; exact fle_refl hb
  · simp only [h]; exact fle_of_not_lt hb ha h

theorem le_emin {a b c : FVal K} (h1 : FVal.le c a = true) (h2 : FVal.le c b = true) :
    FVal.le c (emin a b) = true := by
  unfold emin; split <;> assumption
theorem emax_le {a b c : FVal K} (h1 : FVal.le a c = true) (h2 : FVal.le b c = true) :
    FVal.le (emax a b) c = true := by
  unfold emax; split <;> assumption

theorem emin_mono {a a' b b' : FVal K} (h1 : FVal.le a a' = true) (h2 : FVal.le b b' = true) :
    FVal.le (emin a b) (emin a' b') = true :=
  le_emin (fle_trans (emin_le_l (ne_nan_of_le_l h1) (ne_nan_of_le_l h2)) h1)
    (fle_trans (emin_le_r (ne_nan_of_le_l h1) (ne_nan_of_le_l h2)) h2)
theorem emax_mono {a a' b b' : FVal K} (h1 : FVal.le a a' = true) (h2 : FVal.le b b' = true) :
    FVal.le (emax a b) (emax a' b') = true :=
  emax_le (fle_trans h1 (le_emax_l (ne_nan_of_le_r h1) (ne_nan_of_le_r h2)))
    (fle_trans h2 (le_emax_r (ne_nan_of_le_r h1) (ne_nan_of_le_r h2)))

end order

/-! ### the algebraic primitives on bounds -/

section algebra

/-- lower endpoint of a sum: `−∞` absorbs -/
def addLo (x y : FVal K) : FVal K := if x.isNinf || y.isNinf then ninf else FVal.add x y
/-- upper endpoint of a sum: `+∞` absorbs -/
def addHi (x y : FVal K) : FVal K := if x.isPinf || y.isPinf then pinf else FVal.add x y

def addB (X Y : Bnd K) : Bnd K := ⟨addLo X.lo Y.lo, addHi X.hi Y.hi⟩
def negB (X : Bnd K) : Bnd K := ⟨FVal.neg X.hi, FVal.neg X.lo⟩
def subB (X Y : Bnd K) : Bnd K := addB X (negB Y)
def minB (X Y : Bnd K) : Bnd K := ⟨emin X.lo Y.lo, emin X.hi Y.hi⟩
def maxB (X Y : Bnd K) : Bnd K := ⟨emax X.lo Y.lo, emax X.hi Y.hi⟩
def hullB (X Y : Bnd K) : Bnd K := ⟨fmin X.lo Y.lo, fmax X.hi Y.hi⟩

theorem addLo_le {x y a b : FVal K} (h1 : FVal.le x a = true) (h2 : FVal.le y b = true)
    (hn : FVal.add a b ≠ nan) : FVal.le (addLo x y) (FVal.add a b) = true := by
  cases x <;> cases y <;> cases a <;> cases b <;>
    simp_all [addLo, FVal.add, FVal.le, FVal.isNinf]
  exact add_le_add h1 h2

theorem le_addHi {x y a b : FVal K} (h1 : FVal.le a x = true) (h2 : FVal.le b y = true)
    (hn : FVal.add a b ≠ nan) : FVal.le (FVal.add a b) (addHi x y) = true := by
  cases x <;> cases y <;> cases a <;> cases b <;>
    simp_all [addHi, FVal.add, FVal.le, FVal.isPinf]
  exact add_le_add h1 h2

theorem addB_sound {X Y : Bnd K} {a b : FVal K} (ha : inBb X a) (hb : inBb Y b)
    (hn : FVal.add a b ≠ nan) : inBb (addB X Y) (FVal.add a b) :=
  ⟨hn, addLo_le ha.2.1 hb.2.1 hn, le_addHi ha.2.2 hb.2.2 hn⟩

theorem negB_sound {X : Bnd K} {a : FVal K} (ha : inBb X a) : inBb (negB X) (FVal.neg a) :=
  ⟨neg_ne_nan ha.1, fle_neg_neg ha.2.2, fle_neg_neg ha.2.1⟩

theorem subB_sound {X Y : Bnd K} {a b : FVal K} (ha : inBb X a) (hb : inBb Y b)
    (hn : FVal.sub a b ≠ nan) : inBb (subB X Y) (FVal.sub a b) :=
  addB_sound ha (negB_sound hb) hn

theorem minB_sound {X Y : Bnd K} {a b : FVal K} (ha : inBb X a) (hb : inBb Y b) :
    inBb (minB X Y) (pmin a b) := by
  rw [pmin_eq_emin]
  exact ⟨emin_ne_nan ha.1 hb.1, emin_mono ha.2.1 hb.2.1, emin_mono ha.2.2 hb.2.2⟩

theorem maxB_sound {X Y : Bnd K} {a b : FVal K} (ha : inBb X a) (hb : inBb Y b) :
    inBb (maxB X Y) (pmax a b) := by
  rw [pmax_eq_emax]
  exact ⟨emax_ne_nan ha.1 hb.1, emax_mono ha.2.1 hb.2.1, emax_mono ha.2.2 hb.2.2⟩

theorem fmin_nan_l (b : FVal K) : fmin nan b = b := by cases b <;> rfl
theorem fmax_nan_l (b : FVal K) : fmax nan b = b := by cases b <;> rfl
theorem fmin_nan_r (a : FVal K) : fmin a nan = a := by cases a <;> rfl
theorem fmax_nan_r (a : FVal K) : fmax a nan = a := by cases a <;> rfl
theorem fmin_eq_emin {a b : FVal K} (ha : a ≠ nan) (hb : b ≠ nan) : fmin a b = emin a b := by
  cases a <;> cases b <;> first | exact absurd rfl ha | exact absurd rfl hb | rfl
theorem fmax_eq_emax {a b : FVal K} (ha : a ≠ nan) (hb : b ≠ nan) : fmax a b = emax a b := by
  cases a <;> cases b <;> first | exact absurd rfl ha | exact absurd rfl hb | rfl

theorem fmin_le_l {a : FVal K} (b : FVal K) (ha : a ≠ nan) : FVal.le (fmin a b) a = true := by
  by_cases hb : b = nan
  · subst hb; rw [fmin_nan_r]; exact fle_refl ha
  · rw [fmin_eq_emin ha hb]; exact emin_le_l ha hb
theorem fmin_le_r (a : FVal K) {b : FVal K} (hb : b ≠ nan) : FVal.le (fmin a b) b = true := by
  by_cases ha : a = nan
  · subst ha; rw [fmin_nan_l]; exact fle_refl hb
  · rw [fmin_eq_emin ha hb]; exact emin_le_r ha hb
theorem le_fmax_l {a : FVal K} (b : FVal K) (ha : a ≠ nan) : FVal.le a (fmax a b) = true := by
  by_cases hb : b = nan
  · subst hb; rw [fmax_nan_r]; exact fle_refl ha
  · rw [fmax_eq_emax ha hb]; exact le_emax_l ha hb
theorem le_fmax_r (a : FVal K) {b : FVal K} (hb : b ≠ nan) : FVal.le b (fmax a b) = true := by
  by_cases ha : a = nan
  · subst ha; rw [fmax_nan_l]; exact fle_refl hb
  · rw [fmax_eq_emax ha hb]; exact le_emax_r ha hb

/-- `hull` ignores a NaN (empty) side, as Boost's `hull` does -/
theorem hullB_l {X : Bnd K} (Y : Bnd K) {a : FVal K} (ha : inBb X a) : inBb (hullB X Y) a :=
  ⟨ha.1, fle_trans (fmin_le_l _ (ne_nan_of_le_l ha.2.1)) ha.2.1,
    fle_trans ha.2.2 (le_fmax_l _ (ne_nan_of_le_r ha.2.2))⟩
theorem hullB_r (X : Bnd K) {Y : Bnd K} {a : FVal K} (ha : inBb Y a) : inBb (hullB X Y) a :=
  ⟨ha.1, fle_trans (fmin_le_r _ (ne_nan_of_le_l ha.2.1)) ha.2.1,
    fle_trans ha.2.2 (le_fmax_r _ (ne_nan_of_le_r ha.2.2))⟩

/-! ### multiplication: 4-product min/max with the endpoint convention `0·∞ = 0` -/

/-- `±∞ · x` for an ENDPOINT `x`: sign rule, and `∞·0 = 0` (an infinite endpoint is a limit) -/
def einf (pos : Bool) (x : K) : FVal K :=
  if (0 : K) < x then (if pos then pinf else ninf)
  else if x < (0 : K) then (if pos then ninf else pinf)
  else fin 0

/-- product of two endpoints -/
def emul : FVal K → FVal K → FVal K
  | nan, _ => nan | _, nan => nan
  | pinf, pinf => pinf | ninf, ninf => pinf | pinf, ninf => ninf | ninf, pinf => ninf
  | pinf, fin x => einf true x | ninf, fin x => einf false x
  | fin x, pinf => einf true x | fin x, ninf => einf false x
  | fin x, fin y => fin (x * y)

def min4 (p q r s : FVal K) : FVal K := emin (emin p q) (emin r s)
def max4 (p q r s : FVal K) : FVal K := emax (emax p q) (emax r s)

def mulB (X Y : Bnd K) : Bnd K :=
  ⟨min4 (emul X.lo Y.lo) (emul X.lo Y.hi) (emul X.hi Y.lo) (emul X.hi Y.hi),
   max4 (emul X.lo Y.lo) (emul X.lo Y.hi) (emul X.hi Y.lo) (emul X.hi Y.hi)⟩

theorem einf_ne_nan (pos : Bool) (x : K) : einf pos x ≠ nan := by
  unfold einf; cases pos <;> (repeat' split) <;> simp

theorem emul_ne_nan {a b : FVal K} (ha : a ≠ nan) (hb : b ≠ nan) : emul a b ≠ nan := by
  cases a <;> cases b <;> simp_all [emul, einf_ne_nan]

theorem emul_comm (a b : FVal K) : emul a b = emul b a := by
  cases a <;> cases b <;> simp [emul, mul_comm]

theorem infTimes_eq_einf {pos : Bool} {x : K} (h : infTimes pos x ≠ nan) :
    infTimes pos x = einf pos x := by
  unfold infTimes einf at *
  by_cases h1 : (0 : K) < x
  · simp [h1]
  · by_cases h2 : x < (0 : K)
    · simp [h1, h2]
    · simp [h1, h2] at h

/-- the IEEE product, when it is not NaN, is the endpoint product -/
theorem mul_eq_emul {a b : FVal K} (h : FVal.mul a b ≠ nan) : FVal.mul a b = emul a b := by
  cases a <;> cases b <;> simp_all [FVal.mul, emul]
  all_goals exact infTimes_eq_einf h

theorem emul_neg_r (a b : FVal K) : emul a (FVal.neg b) = FVal.neg (emul a b) := by
  cases a <;> cases b <;> simp only [emul, FVal.neg, einf, neg_pos, neg_lt_zero, mul_neg]
  all_goals split_ifs <;> first | rfl | contradiction | (exfalso; linarith) | (simp [FVal.neg]; done) | skip

/-- for a non-negative right factor the endpoint product is monotone in the left factor -/
theorem emul_mono_l {x x' b : FVal K} (hx : FVal.le x x' = true) (hb : FVal.le (fin 0) b = true) :
    FVal.le (emul x b) (emul x' b) = true := by
  cases x <;> cases x' <;> cases b <;> simp_all [emul, einf, FVal.le]
  all_goals (try split_ifs) <;> (try simp_all [FVal.le]) <;>
    first | nlinarith | (have h0 := le_antisymm ‹_ ≤ (0 : K)› ‹(0 : K) ≤ _›; subst h0; simp) | skip

theorem fle_zero_neg {b : FVal K} (hb : FVal.le b (fin 0) = true) :
    FVal.le (fin 0) (FVal.neg b) = true := by
  have := fle_neg_neg hb
  simpa [FVal.neg] using this

/-- for a non-positive right factor it is antitone -/
theorem emul_anti_l {x x' b : FVal K} (hx : FVal.le x x' = true) (hb : FVal.le b (fin 0) = true) :
    FVal.le (emul x' b) (emul x b) = true := by
  have h := emul_mono_l hx (fle_zero_neg hb)
  rw [emul_neg_r, emul_neg_r] at h
  have := fle_neg_neg h
  rwa [neg_neg_f, neg_neg_f] at this

theorem emul_mono_r {x b b' : FVal K} (hb : FVal.le b b' = true) (hx : FVal.le (fin 0) x = true) :
    FVal.le (emul x b) (emul x b') = true := by
  rw [emul_comm x b, emul_comm x b']; exact emul_mono_l hb hx
theorem emul_anti_r {x b b' : FVal K} (hb : FVal.le b b' = true) (hx : FVal.le x (fin 0) = true) :
    FVal.le (emul x b') (emul x b) = true := by
  rw [emul_comm x b, emul_comm x b']; exact emul_anti_l hb hx

theorem fin_ne_nan (x : K) : (fin x : FVal K) ≠ nan := by simp

/-- a product with the right factor between two endpoints lies between the two endpoint products -/
theorem emul_between {x yl b yh : FVal K} (hx : x ≠ nan) (h1 : FVal.le yl b = true)
    (h2 : FVal.le b yh = true) :
    FVal.le (emin (emul x yl) (emul x yh)) (emul x b) = true ∧
    FVal.le (emul x b) (emax (emul x yl) (emul x yh)) = true := by
  have n1 := emul_ne_nan hx (ne_nan_of_le_l h1)
  have n2 := emul_ne_nan hx (ne_nan_of_le_r h2)
  rcases fle_total (fin_ne_nan (0 : K)) hx with h0 | h0
  · exact ⟨fle_trans (emin_le_l n1 n2) (emul_mono_r h1 h0),
      fle_trans (emul_mono_r h2 h0) (le_emax_r n1 n2)⟩
  · exact ⟨fle_trans (emin_le_r n1 n2) (emul_anti_r h2 h0),
      fle_trans (emul_anti_r h1 h0) (le_emax_l n1 n2)⟩

theorem mulB_sound {X Y : Bnd K} {a b : FVal K} (ha : inBb X a) (hb : inBb Y b)
    (hn : FVal.mul a b ≠ nan) : inBb (mulB X Y) (FVal.mul a b) := by
  rw [mul_eq_emul hn]
  obtain ⟨na, al, ah⟩ := ha
  obtain ⟨nb, bl, bh⟩ := hb
  have nxl := ne_nan_of_le_l al
  have nxh := ne_nan_of_le_r ah
  have nyl := ne_nan_of_le_l bl
  have nyh := ne_nan_of_le_r bh
  have p := emul_ne_nan nxl nyl
  have q := emul_ne_nan nxl nyh
  have r := emul_ne_nan nxh nyl
  have s := emul_ne_nan nxh nyh
  have pq := emin_ne_nan p q
  have rs := emin_ne_nan r s
  have pq' := emax_ne_nan p q
  have rs' := emax_ne_nan r s
  obtain ⟨l1, u1⟩ := emul_between nxl bl bh
  obtain ⟨l2, u2⟩ := emul_between nxh bl bh
  refine ⟨emul_ne_nan na nb, ?_, ?_⟩
  · show FVal.le (min4 _ _ _ _) _ = true
    unfold min4
    rcases fle_total (fin_ne_nan (0 : K)) nb with h0 | h0
    · exact fle_trans (emin_le_l pq rs) (fle_trans l1 (emul_mono_l al h0))
    · exact fle_trans (emin_le_r pq rs) (fle_trans l2 (emul_anti_l ah h0))
  · show FVal.le _ (max4 _ _ _ _) = true
    unfold max4
    rcases fle_total (fin_ne_nan (0 : K)) nb with h0 | h0
    · exact fle_trans (emul_mono_l ah h0) (fle_trans u2 (le_emax_r pq' rs'))
    · exact fle_trans (emul_anti_l al h0) (fle_trans u1 (le_emax_l pq' rs'))

/-! ### abs, square -/

def absB (X : Bnd K) : Bnd K :=
  if FVal.le (fin 0) X.lo then X
  else if FVal.le X.hi (fin 0) then ⟨FVal.neg X.hi, FVal.neg X.lo⟩
  else ⟨fin 0, emax (FVal.neg X.lo) X.hi⟩

theorem abs_of_nonneg_f {a : FVal K} (h : FVal.le (fin 0) a = true) : FVal.abs a = a := by
  cases a <;> simp_all [FVal.abs, FVal.le]
theorem abs_of_nonpos_f {a : FVal K} (h : FVal.le a (fin 0) = true) : FVal.abs a = FVal.neg a := by
  cases a <;> simp_all [FVal.abs, FVal.le, FVal.neg]
  intro h'; have := le_antisymm h h'; simp [this]
theorem abs_nonneg_f {a : FVal K} (h : a ≠ nan) : FVal.le (fin 0) (FVal.abs a) = true := by
  cases a <;> simp_all [FVal.abs, FVal.le]
  split_ifs <;> simp <;> linarith

theorem absB_sound {X : Bnd K} {a : FVal K} (ha : inBb X a) : inBb (absB X) (FVal.abs a) := by
  obtain ⟨na, al, ah⟩ := ha
  have nl := ne_nan_of_le_l al
  have nh := ne_nan_of_le_r ah
  unfold absB
  by_cases c1 : FVal.le (fin 0) X.lo = true
  · simp only [c1, if_true]
    rw [abs_of_nonneg_f (fle_trans c1 al)]
    exact ⟨na, al, ah⟩
  · simp only [c1]
    by_cases c2 : FVal.le X.hi (fin 0) = true
    · simp only [c2, if_true]
      rw [abs_of_nonpos_f (fle_trans ah c2)]
      exact ⟨neg_ne_nan na, fle_neg_neg ah, fle_neg_neg al⟩
    · simp only [c2]
      refine ⟨abs_ne_nan na, abs_nonneg_f na, ?_⟩
      rcases fle_total (fin_ne_nan (0 : K)) na with h0 | h0
      · rw [abs_of_nonneg_f h0]
        exact fle_trans ah (le_emax_r (neg_ne_nan nl) nh)
      · rw [abs_of_nonpos_f h0]
        exact fle_trans (fle_neg_neg al) (le_emax_l (neg_ne_nan nl) nh)

theorem absB_lo_nonneg {X : Bnd K} {a : FVal K} (ha : inBb X a) :
    FVal.le (fin 0) (absB X).lo = true := by
  obtain ⟨na, al, ah⟩ := ha
  unfold absB
  by_cases c1 : FVal.le (fin 0) X.lo = true
  · simp only [c1, if_true]
  · simp only [c1]
    by_cases c2 : FVal.le X.hi (fin 0) = true
    · simp only [c2, if_true]; exact fle_zero_neg c2
    · simp only [c2]; exact fle_refl (fin_ne_nan _)

def squareB (X : Bnd K) : Bnd K :=
  let A := absB X
  ⟨emul A.lo A.lo, emul A.hi A.hi⟩

theorem emul_abs_abs (a : FVal K) : emul (FVal.abs a) (FVal.abs a) = emul a a := by
  cases a <;> simp [FVal.abs, emul]
  split_ifs <;> simp [emul]

theorem squareB_sound {X : Bnd K} {a : FVal K} (ha : inBb X a) :
    inBb (squareB X) (FVal.mul a a) := by
  have hn := mul_self_ne_nan ha.1
  rw [mul_eq_emul hn, ← emul_abs_abs]
  have h0 := absB_lo_nonneg ha
  obtain ⟨nb, bl, bh⟩ := absB_sound ha
  have hb0 : FVal.le (fin 0) (FVal.abs a) = true := abs_nonneg_f ha.1
  refine ⟨emul_ne_nan nb nb, ?_, ?_⟩
  · exact fle_trans (emul_mono_l bl h0) (emul_mono_r bl hb0)
  · exact fle_trans (emul_mono_l bh hb0) (emul_mono_r bh (fle_trans hb0 bh))

/-! ### reciprocal and division -/

/-- reciprocal of an endpoint: `1/±∞ = 0` -/
def einv : FVal K → FVal K
  | nan => nan | ninf => fin 0 | pinf => fin 0 | fin x => fin (1 / x)

def hasZeroB (X : Bnd K) : Bool := FVal.le X.lo (fin 0) && FVal.le (fin 0) X.hi

/-- `1 / X`: the whole line when `X` contains zero -/
def recipB (X : Bnd K) : Bnd K :=
  if hasZeroB X then wholeB else ⟨einv X.hi, einv X.lo⟩

theorem precip_eq_einv {a : FVal K} (h0 : a ≠ fin 0) : precip a = einv a := by
  cases a with
  | nan => rfl
  | ninf => rfl
  | pinf => rfl
  | fin x =>
    have hx : x ≠ 0 := fun e => h0 (by rw [e])
    have : (0 : K) < x ∨ x < 0 := (lt_or_gt_of_ne hx).symm
    simp [precip, FVal.div, einv, this]

theorem einv_anti_pos {x y : FVal K} (h0 : FVal.lt (fin 0) x = true) (h : FVal.le x y = true) :
    FVal.le (einv y) (einv x) = true := by
  cases x <;> cases y <;> simp_all [einv, FVal.le, FVal.lt]
  · simpa using one_div_le_one_div_of_le h0 h
  · exact le_of_lt h0

theorem einv_anti_neg {x y : FVal K} (h0 : FVal.lt y (fin 0) = true) (h : FVal.le x y = true) :
    FVal.le (einv y) (einv x) = true := by
  cases x <;> cases y <;> simp_all [einv, FVal.le, FVal.lt]
  · exact le_of_lt h0
  · simpa using (one_div_le_one_div_of_neg h0 (lt_of_le_of_lt h h0)).2 h

theorem recipB_sound {X : Bnd K} {a : FVal K} (ha : inBb X a) (h0 : a ≠ fin 0) :
    inBb (recipB X) (precip a) := by
  obtain ⟨na, al, ah⟩ := ha
  have nl := ne_nan_of_le_l al
  have nh := ne_nan_of_le_r ah
  unfold recipB
  by_cases hz : hasZeroB X = true
  · simp only [hz, if_true]; exact inBb_whole (precip_ne_nan na)
  · simp only [hz]
    have hne : precip a ≠ nan := precip_ne_nan na
    rw [precip_eq_einv h0] at hne ⊢
    refine ⟨hne, ?_, ?_⟩
    all_goals
      rcases flt_or_le (fin_ne_nan (0 : K)) nl with c | c
      · first
          | exact einv_anti_pos (flt_of_lt_of_le c al) ah
          | exact einv_anti_pos c al
      · rcases flt_or_le nh (fin_ne_nan (0 : K)) with d | d
        · first
            | exact einv_anti_neg d ah
            | exact einv_anti_neg (flt_of_le_of_lt ah d) al
        · exact absurd (by simp [hasZeroB, c, d]) hz

/-- division is multiplication by the reciprocal (also in the IEEE corner cases) -/
theorem div_eq_mul_precip {a b : FVal K} (h0 : b ≠ fin 0) :
    FVal.div a b = FVal.mul a (precip b) := by
  cases b with
  | nan => rw [div_nan_r]; cases a <;> rfl
  | ninf => cases a <;> simp [FVal.div, FVal.mul, precip, infTimes]
  | pinf => cases a <;> simp [FVal.div, FVal.mul, precip, infTimes]
  | fin y =>
    have hy : y ≠ 0 := fun e => h0 (by rw [e])
    have hc : (0 : K) < y ∨ y < 0 := (lt_or_gt_of_ne hy).symm
    cases a with
    | nan => rfl
    | fin x => simp [FVal.div, FVal.mul, precip, hc, div_eq_mul_inv]
    | pinf =>
      rcases hc with h | h
      · simp [FVal.div, FVal.mul, precip, infTimes, h, not_lt.2 (le_of_lt h)]
      · simp [FVal.div, FVal.mul, precip, infTimes, h, not_lt.2 (le_of_lt h)]
    | ninf =>
      rcases hc with h | h
      · simp [FVal.div, FVal.mul, precip, infTimes, h, not_lt.2 (le_of_lt h)]
      · simp [FVal.div, FVal.mul, precip, infTimes, h, not_lt.2 (le_of_lt h)]

/-- `X / Y`: the whole line when `Y` contains zero, else `X · (1/Y)` -/
def divB (X Y : Bnd K) : Bnd K :=
  if hasZeroB Y then wholeB else mulB X (recipB Y)

theorem divB_sound {X Y : Bnd K} {a b : FVal K} (ha : inBb X a) (hb : inBb Y b)
    (h0 : b ≠ fin 0) (hn : FVal.div a b ≠ nan) : inBb (divB X Y) (FVal.div a b) := by
  unfold divB
  by_cases hz : hasZeroB Y = true
  · simp only [hz, if_true]; exact inBb_whole hn
  · simp only [hz]
    rw [div_eq_mul_precip h0] at hn ⊢
    exact mulB_sound ha (recipB_sound hb h0) hn

end algebra

/-! ### transcendental primitives: monotone images / constant ranges of the abstract point functions -/

/-- What is assumed about the real functions behind `P` (NOT about Boost): monotonicity and ranges. -/
structure PointHyps (P : PointFns K) : Prop where
  sqrt_mono : ∀ x y, 0 ≤ x → x ≤ y → P.sqrt x ≤ P.sqrt y
  sin_range : ∀ x, -1 ≤ P.sin x ∧ P.sin x ≤ 1
  cos_range : ∀ x, -1 ≤ P.cos x ∧ P.cos x ≤ 1
  asin_mono : ∀ x y, -1 ≤ x → x ≤ y → y ≤ 1 → P.asin x ≤ P.asin y
  acos_anti : ∀ x y, -1 ≤ x → x ≤ y → y ≤ 1 → P.acos y ≤ P.acos x
  atan_mono : ∀ x y, x ≤ y → P.atan x ≤ P.atan y
  atan_range : ∀ x, -P.halfPi ≤ P.atan x ∧ P.atan x ≤ P.halfPi
  exp_mono : ∀ x y, x ≤ y → P.exp x ≤ P.exp y
  exp_nonneg : ∀ x, 0 ≤ P.exp x
  log_mono : ∀ x y, 0 < x → x ≤ y → P.log x ≤ P.log y
  powi_eq : ∀ x (k : Int), P.powi x k = x ^ k
  root_mono : ∀ (k : Int) x y, 1 ≤ k → 0 ≤ x → x ≤ y → P.root x k ≤ P.root y k
  root_nonneg : ∀ (k : Int) x, 1 ≤ k → 0 ≤ x → 0 ≤ P.root x k

section transc
variable (P : PointFns K)

/-- `[-1, 1]` -/
def unitB : Bnd K := ⟨fin (-1), fin 1⟩

def sqrtB (X : Bnd K) : Bnd K :=
  ⟨if FVal.le X.lo (fin 0) then fin (P.sqrt 0) else psqrt P X.lo, psqrt P X.hi⟩

def expB (X : Bnd K) : Bnd K := ⟨pexp P X.lo, pexp P X.hi⟩
def atanB (X : Bnd K) : Bnd K := ⟨patan P X.lo, patan P X.hi⟩
def atanWholeB : Bnd K := ⟨fin (-P.halfPi), fin P.halfPi⟩
def logB (X : Bnd K) : Bnd K :=
  ⟨if FVal.le X.lo (fin 0) then ninf else plog P X.lo, plog P X.hi⟩

/-- an endpoint clamped into `[-1,1]` -/
def clampK : FVal K → K
  | nan => 0 | ninf => -1 | pinf => 1 | fin x => max (-1) (min 1 x)

def asinB (X : Bnd K) : Bnd K := ⟨fin (P.asin (clampK X.lo)), fin (P.asin (clampK X.hi))⟩
def acosB (X : Bnd K) : Bnd K := ⟨fin (P.acos (clampK X.hi)), fin (P.acos (clampK X.lo))⟩

/-- the monotone extension of the `k`-th root to negative arguments (odd `k`: `−root(−x)`; even `k`:
    the value at `0`, the infimum over the domain) -/
def rootF (k : Int) (x : K) : K :=
  if x < 0 then (if oddI k then -(P.root (-x) k) else P.root 0 k) else P.root x k

def nthRootB (X : Bnd K) (k : Int) : Bnd K :=
  match X.lo, X.hi with
  | fin l, fin h => ⟨fin (rootF P k l), fin (rootF P k h)⟩
  | _, _ => wholeB

variable {P}

theorem sqrtB_sound (hP : PointHyps P) {X : Bnd K} {a : FVal K} (ha : inBb X a)
    (hn : psqrt P a ≠ nan) : inBb (sqrtB P X) (psqrt P a) := by
  obtain ⟨xl, xh⟩ := X
  obtain ⟨na, al, ah⟩ := ha
  refine ⟨hn, ?_, ?_⟩
  · show FVal.le (if FVal.le xl (fin 0) then fin (P.sqrt 0) else psqrt P xl) _ = true
    cases a with
    | nan => exact absurd rfl na
    | ninf => exact absurd rfl hn
    | pinf =>
      apply fle_pinf
      split
      · simp
      · rename_i hc
        cases xl with
        | nan => simp at al
        | ninf => simp [FVal.le] at hc
        | pinf => simp [psqrt]
        | fin l =>
          have : ¬ l < 0 := by
            simp [FVal.le] at hc; exact not_lt.2 (le_of_lt hc)
          simp [psqrt, this]
    | fin x =>
      have hx : 0 ≤ x := by
        by_contra h; exact hn (by simp [psqrt, not_le.1 h])
      split
      · simp [psqrt, not_lt.2 hx, FVal.le]; exact hP.sqrt_mono _ _ (le_refl _) hx
      · rename_i hc
        cases xl <;> simp_all [psqrt, FVal.le]
        rename_i l
        have hl : ¬ l < 0 := not_lt.2 (le_of_lt hc)
        simp [hl, not_lt.2 hx]
        exact hP.sqrt_mono _ _ (le_of_lt hc) al
  · show FVal.le _ (psqrt P xh) = true
    cases a with
    | nan => exact absurd rfl na
    | ninf => exact absurd rfl hn
    | pinf => cases xh <;> simp_all [psqrt, FVal.le]
    | fin x =>
      have hx : 0 ≤ x := by
        by_contra h; exact hn (by simp [psqrt, not_le.1 h])
      cases xh with
      | nan => simp at ah
      | ninf => simp [FVal.le] at ah
      | pinf => simp [psqrt, not_lt.2 hx, FVal.le]
      | fin h =>
        have ah' : x ≤ h := by simpa using ah
        simp [psqrt, not_lt.2 hx, not_lt.2 (le_trans hx ah')]
        exact hP.sqrt_mono _ _ hx ah'

theorem pexp_mono (hP : PointHyps P) {a b : FVal K} (h : FVal.le a b = true) :
    FVal.le (pexp P a) (pexp P b) = true := by
  cases a <;> cases b <;> simp_all [pexp, FVal.le]
  · exact hP.exp_nonneg _
  · exact hP.exp_mono _ _ h

theorem expB_sound (hP : PointHyps P) {X : Bnd K} {a : FVal K} (ha : inBb X a) :
    inBb (expB P X) (pexp P a) :=
  ⟨pexp_ne_nan ha.1, pexp_mono hP ha.2.1, pexp_mono hP ha.2.2⟩

theorem halfPi_range (hP : PointHyps P) : -P.halfPi ≤ P.halfPi :=
  le_trans (hP.atan_range 0).1 (hP.atan_range 0).2

theorem patan_mono (hP : PointHyps P) {a b : FVal K} (h : FVal.le a b = true) :
    FVal.le (patan P a) (patan P b) = true := by
  cases a <;> cases b <;> simp_all [patan, FVal.le]
  · exact (hP.atan_range _).1
  · have := halfPi_range hP; linarith
  · exact hP.atan_mono _ _ h
  · exact (hP.atan_range _).2

theorem atanB_sound (hP : PointHyps P) {X : Bnd K} {a : FVal K} (ha : inBb X a) :
    inBb (atanB P X) (patan P a) :=
  ⟨patan_ne_nan ha.1, patan_mono hP ha.2.1, patan_mono hP ha.2.2⟩

theorem atanWholeB_sound (hP : PointHyps P) {a : FVal K} (ha : a ≠ nan) :
    inBb (atanWholeB P) (patan P a) := by
  refine ⟨patan_ne_nan ha, ?_, ?_⟩
  · have := patan_mono hP (fle_ninf ha); simpa [patan, atanWholeB] using this
  · have := patan_mono hP (fle_pinf ha); simpa [patan, atanWholeB] using this

theorem logB_sound (hP : PointHyps P) {X : Bnd K} {a : FVal K} (ha : inBb X a)
    (hpos : FVal.lt zeroV X.hi = true) (hn : plog P a ≠ nan) : inBb (logB P X) (plog P a) := by
  obtain ⟨xl, xh⟩ := X
  obtain ⟨na, al, ah⟩ := ha
  refine ⟨hn, ?_, ?_⟩
  · show FVal.le (if FVal.le xl (fin 0) then ninf else plog P xl) _ = true
    split
    · exact fle_ninf hn
    · rename_i hc
      cases a with
      | nan => exact absurd rfl na
      | ninf => exact absurd rfl hn
      | pinf =>
        apply fle_pinf
        cases xl with
        | nan => simp at al
        | ninf => simp [FVal.le] at hc
        | pinf => simp [plog]
        | fin l =>
          have h0 : 0 < l := by simpa [FVal.le] using hc
          simp [plog, h0, not_lt.2 (le_of_lt h0)]
      | fin x =>
        cases xl <;> simp_all [FVal.le]
        rename_i l
        have hx : 0 < x := lt_of_lt_of_le hc al
        simp [plog, hx, hc, not_lt.2 (le_of_lt hx), not_lt.2 (le_of_lt hc)]
        exact hP.log_mono _ _ hc al
  · show FVal.le _ (plog P xh) = true
    cases a with
    | nan => exact absurd rfl na
    | ninf => exact absurd rfl hn
    | pinf => cases xh <;> simp_all [plog, FVal.le]
    | fin x =>
      cases xh <;> simp_all [FVal.le, FVal.lt, zeroV]
      · rename_i h
        have hh : ¬ h < 0 := not_lt.2 (le_of_lt hpos)
        by_cases hx : 0 < x
        · simp [plog, hx, hpos, hh, not_lt.2 (le_of_lt hx)]
          exact hP.log_mono _ _ hx ah
        · have hx0 : ¬ x < 0 := by
            intro h'; exact hn (by simp [plog, h'])
          simp [plog, hx, hx0, hpos, hh]
      · simp [plog]
        by_cases hx : 0 < x
        · simp [hx, not_lt.2 (le_of_lt hx)]
        · have hx0 : ¬ x < 0 := by
            intro h'; exact hn (by simp [plog, h'])
          simp [hx, hx0]

theorem clampK_range (v : FVal K) : -1 ≤ clampK v ∧ clampK v ≤ 1 := by
  have m : (-1 : K) ≤ 1 := by linarith [zero_lt_one (α := K)]
  cases v <;> simp [clampK, m]

theorem clampK_le {v : FVal K} {x : K} (h : FVal.le v (fin x) = true) (hx : -1 ≤ x) :
    clampK v ≤ x := by
  cases v <;> simp_all [clampK, FVal.le]

theorem le_clampK {v : FVal K} {x : K} (h : FVal.le (fin x) v = true) (hx : x ≤ 1) :
    x ≤ clampK v := by
  cases v <;> simp_all [clampK, FVal.le]

theorem pasin_fin {f : K → K} {a : FVal K} (hn : pasin f a ≠ nan) :
    ∃ x, a = fin x ∧ -1 ≤ x ∧ x ≤ 1 ∧ pasin f a = fin (f x) := by
  cases a with
  | fin x =>
    have h1 : ¬ (x < -1 ∨ 1 < x) := by
      intro h; exact hn (by simp [pasin, h])
    have h1 := not_or.1 h1
    exact ⟨x, rfl, not_lt.1 h1.1, not_lt.1 h1.2, by simp [pasin, h1.1, h1.2]⟩
  | nan => exact absurd rfl hn
  | ninf => exact absurd rfl hn
  | pinf => exact absurd rfl hn

theorem asinB_sound (hP : PointHyps P) {X : Bnd K} {a : FVal K} (ha : inBb X a)
    (hn : pasin P.asin a ≠ nan) : inBb (asinB P X) (pasin P.asin a) := by
  obtain ⟨x, rfl, h1, h2, he⟩ := pasin_fin hn
  rw [he]
  refine ⟨by simp, ?_, ?_⟩
  · simp only [asinB, le_fin_fin, decide_eq_true_eq]
    exact hP.asin_mono _ _ (clampK_range _).1 (clampK_le ha.2.1 h1) h2
  · simp only [asinB, le_fin_fin, decide_eq_true_eq]
    exact hP.asin_mono _ _ h1 (le_clampK ha.2.2 h2) (clampK_range _).2

theorem acosB_sound (hP : PointHyps P) {X : Bnd K} {a : FVal K} (ha : inBb X a)
    (hn : pasin P.acos a ≠ nan) : inBb (acosB P X) (pasin P.acos a) := by
  obtain ⟨x, rfl, h1, h2, he⟩ := pasin_fin hn
  rw [he]
  refine ⟨by simp, ?_, ?_⟩
  · simp only [acosB, le_fin_fin, decide_eq_true_eq]
    exact hP.acos_anti _ _ h1 (le_clampK ha.2.2 h2) (clampK_range _).2
  · simp only [acosB, le_fin_fin, decide_eq_true_eq]
    exact hP.acos_anti _ _ (clampK_range _).1 (clampK_le ha.2.1 h1) h2

theorem unitB_sound {f : K → K} (hf : ∀ x, -1 ≤ f x ∧ f x ≤ 1) {a : FVal K}
    (hn : ptrig f a ≠ nan) : inBb (unitB : Bnd K) (ptrig f a) := by
  cases a <;> simp_all [ptrig, unitB, inBb, FVal.le]

theorem rootF_mono (hP : PointHyps P) {k : Int} (hk : 1 ≤ k) {x y : K} (h : x ≤ y) :
    rootF P k x ≤ rootF P k y := by
  unfold rootF
  by_cases hx : x < 0
  · by_cases hy : y < 0
    · simp only [hx, hy, if_true]
      split
      · have := hP.root_mono k (-y) (-x) hk (by linarith) (by linarith)
        linarith
      · exact le_refl _
    · simp only [hx, hy, if_true, if_false]
      have hy' : 0 ≤ y := not_lt.1 hy
      split
      · have h1 := hP.root_nonneg k (-x) hk (by linarith)
        have h2 := hP.root_nonneg k y hk hy'
        linarith
      · exact hP.root_mono k 0 y hk (le_refl _) hy'
  · have hx' : 0 ≤ x := not_lt.1 hx
    have hy : ¬ y < 0 := not_lt.2 (le_trans hx' h)
    simp only [hx, hy, if_false]
    exact hP.root_mono k x y hk hx' h

theorem pnthRoot_eq_rootF {k : Int} {x : K} (hn : pnthRoot P (fin x) k ≠ nan) :
    pnthRoot P (fin x) k = fin (rootF P k x) := by
  unfold pnthRoot rootF at *
  by_cases hx : x < 0
  · simp only [hx, if_true] at hn ⊢
    by_cases ho : oddI k = true
    · simp [ho]
    · simp [ho] at hn
  · simp [hx]

theorem nthRootB_sound (hP : PointHyps P) {X : Bnd K} {a : FVal K} {k : Int} (ha : inBb X a)
    (hl : X.lo.isFinite = true) (hh : X.hi.isFinite = true) (hk : 1 ≤ k)
    (hn : pnthRoot P a k ≠ nan) : inBb (nthRootB P X k) (pnthRoot P a k) := by
  obtain ⟨xl, xh⟩ := X
  obtain ⟨na, al, ah⟩ := ha
  cases xl <;> simp [FVal.isFinite] at hl
  cases xh <;> simp [FVal.isFinite] at hh
  rename_i l h
  cases a with
  | nan => exact absurd rfl na
  | ninf => simp [FVal.le] at al
  | pinf => simp [FVal.le] at ah
  | fin x =>
    rw [pnthRoot_eq_rootF hn]
    refine ⟨by simp, ?_, ?_⟩
    · simp only [nthRootB, le_fin_fin, decide_eq_true_eq]
      exact rootF_mono hP hk (by simpa using al)
    · simp only [nthRootB, le_fin_fin, decide_eq_true_eq]
      exact rootF_mono hP hk (by simpa using ah)

end transc

/-! ### integer powers (`P.powi x k = x ^ k`) -/

section powers
variable {P : PointFns K}

/-- `n`-th power of an endpoint -/
def epowN (a : FVal K) (n : Nat) : FVal K :=
  match a with
  | nan => nan
  | fin x => fin (x ^ n)
  | pinf => pinf
  | ninf => if n % 2 = 0 then pinf else ninf

/-- `X ^ n` for `n ≥ 1`: monotone image for odd `n`, image of `|X|` for even `n` -/
def powNB (X : Bnd K) (n : Nat) : Bnd K :=
  if n % 2 = 0 then ⟨epowN (absB X).lo n, epowN (absB X).hi n⟩ else ⟨epowN X.lo n, epowN X.hi n⟩

/-- `boost::numeric::pow(X, k)`: `[1,1]` for `k = 0`, the reciprocal interval for `k < 0` -/
def powiB (X : Bnd K) (k : Int) : Bnd K :=
  if k = 0 then ⟨fin 1, fin 1⟩
  else if 0 < k then powNB X k.toNat
  else recipB (powNB X (-k).toNat)

theorem epowN_ne_nan {a : FVal K} (n : Nat) (h : a ≠ nan) : epowN a n ≠ nan := by
  cases a <;> simp_all [epowN]
  split_ifs <;> simp

theorem epowN_mono_nonneg {a b : FVal K} (n : Nat) (h0 : FVal.le (fin 0) a = true)
    (h : FVal.le a b = true) : FVal.le (epowN a n) (epowN b n) = true := by
  cases a <;> cases b <;> simp_all [epowN, FVal.le]
  exact pow_le_pow_left₀ h0 h n

theorem epowN_mono_odd {a b : FVal K} {n : Nat} (hn : n % 2 = 1) (h : FVal.le a b = true) :
    FVal.le (epowN a n) (epowN b n) = true := by
  have ho : Odd n := Nat.odd_iff.2 hn
  cases a <;> cases b <;> simp_all [epowN, FVal.le]
  exact ho.pow_le_pow.2 h

theorem epowN_abs_even {a : FVal K} {n : Nat} (hn : n % 2 = 0) :
    epowN (FVal.abs a) n = epowN a n := by
  have he : Even n := Nat.even_iff.2 hn
  cases a <;> simp [epowN, FVal.abs, hn]
  split_ifs <;> simp [epowN, he.neg_pow]

theorem powNB_sound {X : Bnd K} {a : FVal K} (n : Nat) (ha : inBb X a) :
    inBb (powNB X n) (epowN a n) := by
  unfold powNB
  by_cases hn : n % 2 = 0
  · simp only [hn, if_true]
    rw [← epowN_abs_even (a := a) hn]
    have h0 := absB_lo_nonneg ha
    obtain ⟨nb, bl, bh⟩ := absB_sound ha
    exact ⟨epowN_ne_nan n nb, epowN_mono_nonneg n h0 bl,
      epowN_mono_nonneg n (abs_nonneg_f ha.1) bh⟩
  · simp only [hn, if_false]
    have hn' : n % 2 = 1 := by omega
    exact ⟨epowN_ne_nan n ha.1, epowN_mono_odd hn' ha.2.1, epowN_mono_odd hn' ha.2.2⟩

theorem ppowi_pos (hP : PointHyps P) {a : FVal K} {k : Int} (hk : 0 < k) :
    ppowi P a k = epowN a k.toNat := by
  have hk0 : k ≠ 0 := ne_of_gt hk
  have hkn : ¬ k < 0 := not_lt.2 (le_of_lt hk)
  have hcast : ((k.toNat : Nat) : Int) = k := Int.toNat_of_nonneg (le_of_lt hk)
  cases a with
  | nan => rfl
  | fin x =>
    have : x ^ k = x ^ k.toNat := by
      conv_lhs => rw [← hcast]
      exact zpow_natCast x _
    simp [ppowi, epowN, hk0, hkn, hP.powi_eq, this]
  | pinf => simp [ppowi, epowN, hk0, hkn]
  | ninf =>
    have hodd : oddI k = true ↔ ¬ (k.toNat % 2 = 0) := by
      simp only [oddI, bne_iff_ne, ne_eq]
      omega
    by_cases ho : oddI k = true
    · simp [ppowi, epowN, hk0, hkn, ho, hodd.1 ho]
    · have : k.toNat % 2 = 0 := by
        by_contra hc; exact ho (hodd.2 hc)
      simp [ppowi, epowN, hk0, hkn, ho, this]

theorem ppowi_neg (hP : PointHyps P) {a : FVal K} {k : Int} (hk : k < 0) (h0 : a ≠ fin 0) :
    ppowi P a k = precip (epowN a (-k).toNat) ∧ epowN a (-k).toNat ≠ fin 0 := by
  have hk0 : k ≠ 0 := ne_of_lt hk
  have hcast : (((-k).toNat : Nat) : Int) = -k := Int.toNat_of_nonneg (by omega)
  cases a with
  | nan => exact ⟨rfl, by simp [epowN]⟩
  | pinf => exact ⟨by simp [ppowi, epowN, hk0, hk, precip, FVal.div], by simp [epowN]⟩
  | ninf =>
    refine ⟨?_, ?_⟩
    · simp only [ppowi, epowN]
      split_ifs <;> simp_all [precip, FVal.div]
    · simp only [epowN]; split_ifs <;> simp
  | fin x =>
    have hx : x ≠ 0 := fun e => h0 (by rw [e])
    have hc : (0 : K) < x ∨ x < 0 := (lt_or_gt_of_ne hx).symm
    have hpow : x ^ (-k).toNat ≠ 0 := pow_ne_zero _ hx
    have hne : (fin (x ^ (-k).toNat) : FVal K) ≠ fin 0 := by
      intro e; exact hpow (by injection e)
    refine ⟨?_, hne⟩
    have e1 : x ^ k = 1 / x ^ (-k).toNat := by
      have : k = -(((-k).toNat : Nat) : Int) := by omega
      conv_lhs => rw [this]
      rw [zpow_neg, zpow_natCast, one_div]
    simp only [epowN]
    rw [precip_eq_einv hne]
    simp [ppowi, hk0, hk, hc, hP.powi_eq, e1, einv]
    exact fun h => lt_of_le_of_ne h hx

theorem powiB_sound (hP : PointHyps P) {X : Bnd K} {a : FVal K} {k : Int} (ha : inBb X a)
    (hneg : k < 0 → a ≠ fin 0) : inBb (powiB X k) (ppowi P a k) := by
  unfold powiB
  by_cases hk0 : k = 0
  · subst hk0
    have : ppowi P a 0 = fin 1 := by
      cases a <;> first | exact absurd rfl ha.1 | simp [ppowi]
    rw [this]
    exact ⟨by simp, by simp, by simp⟩
  · simp only [hk0, if_false]
    by_cases hk : 0 < k
    · simp only [hk, if_true]
      rw [ppowi_pos hP hk]
      exact powNB_sound _ ha
    · simp only [hk, if_false]
      have hk' : k < 0 := lt_of_le_of_ne (not_lt.1 hk) hk0
      obtain ⟨e, hne⟩ := ppowi_neg hP hk' (hneg hk')
      rw [e]
      exact recipB_sound (powNB_sound _ ha) hne

end powers



/-! ### exactness on point intervals: no over-approximation where none is needed -/

section point_exact

/-- the point interval `[v,v]` -/
def ptB (v : FVal K) : Bnd K := ⟨v, v⟩

theorem emin_self (a : FVal K) : emin a a = a := by unfold emin; split <;> rfl
theorem emax_self (a : FVal K) : emax a a = a := by unfold emax; split <;> rfl

theorem addB_point (x y : K) : addB (ptB (fin x)) (ptB (fin y)) = ptB (FVal.add (fin x) (fin y)) := by
  simp [addB, ptB, addLo, addHi, FVal.isNinf, FVal.isPinf]
theorem negB_point (x : K) : negB (ptB (fin x)) = ptB (FVal.neg (fin x)) := rfl
theorem subB_point (x y : K) : subB (ptB (fin x)) (ptB (fin y)) = ptB (FVal.sub (fin x) (fin y)) := by
  simp [subB, negB, addB, ptB, addLo, addHi, FVal.isNinf, FVal.isPinf, FVal.sub, FVal.neg]
theorem mulB_point (x y : K) : mulB (ptB (fin x)) (ptB (fin y)) = ptB (FVal.mul (fin x) (fin y)) := by
  simp [mulB, ptB, min4, max4, emin_self, emax_self, emul, FVal.mul]
theorem minB_point (x y : K) : minB (ptB (fin x)) (ptB (fin y)) = ptB (pmin (fin x) (fin y)) := by
  simp [minB, ptB, pmin_eq_emin]
theorem maxB_point (x y : K) : maxB (ptB (fin x)) (ptB (fin y)) = ptB (pmax (fin x) (fin y)) := by
  simp [maxB, ptB, pmax_eq_emax]
theorem absB_point (x : K) : absB (ptB (fin x)) = ptB (FVal.abs (fin x)) := by
  unfold absB ptB
  by_cases h : x < 0
  · have h1 : ¬ (0 ≤ x) := not_le.2 h
    simp [FVal.abs, FVal.le, FVal.neg, h, h1, le_of_lt h]
  · simp [FVal.abs, FVal.le, h, not_lt.1 h]
theorem squareB_point (x : K) : squareB (ptB (fin x)) = ptB (FVal.mul (fin x) (fin x)) := by
  unfold squareB
  rw [absB_point]
  simp only [ptB, emul_abs_abs]
  simp [emul, FVal.mul]
theorem recipB_point {x : K} (hx : x ≠ 0) : recipB (ptB (fin x)) = ptB (precip (fin x)) := by
  have h0 : (fin x : FVal K) ≠ fin 0 := fun e => hx (by injection e)
  have hz : hasZeroB (ptB (fin x)) = false := by
    simp only [hasZeroB, ptB, le_fin_fin, Bool.and_eq_false_iff, decide_eq_false_iff_not]
    by_cases h : x ≤ 0
    · exact Or.inr (fun h' => hx (le_antisymm h h'))
    · exact Or.inl h
  rw [precip_eq_einv h0]
  unfold recipB
  rw [hz]
  rfl
theorem divB_point (x : K) {y : K} (hy : y ≠ 0) :
    divB (ptB (fin x)) (ptB (fin y)) = ptB (FVal.div (fin x) (fin y)) := by
  have h0 : (fin y : FVal K) ≠ fin 0 := fun e => hy (by injection e)
  have hz : hasZeroB (ptB (fin y)) = false := by
    simp only [hasZeroB, ptB, le_fin_fin, Bool.and_eq_false_iff, decide_eq_false_iff_not]
    by_cases h : y ≤ 0
    · exact Or.inr (fun h' => hy (le_antisymm h h'))
    · exact Or.inl h
  unfold divB
  rw [hz, recipB_point hy, div_eq_mul_precip h0, precip_eq_einv h0]
  simp only [Bool.false_eq_true, if_false, einv]
  exact mulB_point x (1 / y)

end point_exact

/-! ### the instance -/

section instance_
variable [FloorRing K]

/-- C++ `int(x)`: truncation toward zero (`0` for non-finite values) -/
def truncI : FVal K → Int
  | fin q => if 0 ≤ q then ⌊q⌋ else -⌊-q⌋
  | _ => 0

/-- `std::floor` -/
def floorV : FVal K → FVal K
  | fin q => fin ((⌊q⌋ : Int) : K)
  | w => w

/-- **Exact interval arithmetic** over `K` as an instance of the Boost.Interval primitives. -/
def exactOps (P : PointFns K) : BoostOps K :=
  { add := addB, sub := subB, mul := mulB, div := divB, min := minB, max := maxB, hull := hullB,
    neg := negB, abs := absB, square := squareB, sqrt := sqrtB P,
    sin := fun _ => unitB, cos := fun _ => unitB, tan := fun _ => wholeB,
    asin := asinB P, acos := acosB P, atan := atanB P, exp := expB P, log := logB P,
    oneDiv := recipB, powi := powiB, nthRoot := nthRootB P,
    mulNeg1 := negB, mulF := fun X f => mulB X ⟨f, f⟩,
    empty := ⟨nan, nan⟩, atanWhole := atanWholeB P,
    atan2f := fun y x => fin (P.atan2 y x),
    pi := fin (P.halfPi + P.halfPi), negPi := fin (-(P.halfPi + P.halfPi)),
    toInt := truncI, floorF := floorV,
    nanOnZeroToNeg := false, powM1IsNan := fun _ => false }

variable {P : PointFns K}

/-- **Every Boost contract holds for exact interval arithmetic** (given only the monotonicity / range
    facts `PointHyps` about the point functions).  `tan` answers the whole line; everything else is
    the tight monotone image. -/
theorem exactOps_boostSound (hP : PointHyps P) : BoostSound (exactOps P) P where
  add := fun _ _ _ _ h1 h2 hn => addB_sound h1 h2 hn
  sub := fun _ _ _ _ h1 h2 hn => subB_sound h1 h2 hn
  mul := fun _ _ _ _ h1 h2 hn => mulB_sound h1 h2 hn
  div := fun _ _ _ _ h1 h2 h0 hn => divB_sound h1 h2 h0 hn
  min := fun _ _ _ _ h1 h2 => minB_sound h1 h2
  max := fun _ _ _ _ h1 h2 => maxB_sound h1 h2
  hull_l := fun _ Y _ h => hullB_l Y h
  hull_r := fun X _ _ h => hullB_r X h
  neg := fun _ _ h => negB_sound h
  abs := fun _ _ h => absB_sound h
  square := fun _ _ h => squareB_sound h
  sqrt := fun _ _ h hn => sqrtB_sound hP h hn
  sin := fun _ _ _ hn => unitB_sound hP.sin_range hn
  cos := fun _ _ _ hn => unitB_sound hP.cos_range hn
  tan := fun _ _ _ hn => inBb_whole hn
  asin := fun _ _ h hn => asinB_sound hP h hn
  acos := fun _ _ h hn => acosB_sound hP h hn
  atan := fun _ _ h => atanB_sound hP h
  atanWhole := fun _ h => atanWholeB_sound hP h
  exp := fun _ _ h => expB_sound hP h
  log := fun _ _ h hpos hn => logB_sound hP h hpos hn
  oneDiv := fun _ _ h h0 => recipB_sound h h0
  powi := fun _ _ _ h _ hneg => powiB_sound hP h hneg
  nthRoot := fun _ _ _ h hl hh hk hn => nthRootB_sound hP h hl hh hk hn

/-- the algebraic contracts need nothing at all about `P` -/
theorem exactOps_algebraic (P : PointFns K) :
    (∀ X Y a b, inBb X a → inBb Y b → FVal.add a b ≠ nan → inBb ((exactOps P).add X Y) (FVal.add a b)) ∧
    (∀ X Y a b, inBb X a → inBb Y b → FVal.sub a b ≠ nan → inBb ((exactOps P).sub X Y) (FVal.sub a b)) ∧
    (∀ X Y a b, inBb X a → inBb Y b → FVal.mul a b ≠ nan → inBb ((exactOps P).mul X Y) (FVal.mul a b)) ∧
    (∀ X Y a b, inBb X a → inBb Y b → b ≠ fin 0 → FVal.div a b ≠ nan →
      inBb ((exactOps P).div X Y) (FVal.div a b)) ∧
    (∀ X Y a b, inBb X a → inBb Y b → inBb ((exactOps P).min X Y) (pmin a b)) ∧
    (∀ X Y a b, inBb X a → inBb Y b → inBb ((exactOps P).max X Y) (pmax a b)) ∧
    (∀ X a, inBb X a → inBb ((exactOps P).neg X) (FVal.neg a)) ∧
    (∀ X a, inBb X a → inBb ((exactOps P).abs X) (FVal.abs a)) ∧
    (∀ X a, inBb X a → inBb ((exactOps P).square X) (FVal.mul a a)) ∧
    (∀ X a, inBb X a → a ≠ fin 0 → inBb ((exactOps P).oneDiv X) (precip a)) :=
  ⟨fun _ _ _ _ h1 h2 hn => addB_sound h1 h2 hn, fun _ _ _ _ h1 h2 hn => subB_sound h1 h2 hn,
   fun _ _ _ _ h1 h2 hn => mulB_sound h1 h2 hn, fun _ _ _ _ h1 h2 h0 hn => divB_sound h1 h2 h0 hn,
   fun _ _ _ _ h1 h2 => minB_sound h1 h2, fun _ _ _ _ h1 h2 => maxB_sound h1 h2,
   fun _ _ h => negB_sound h, fun _ _ h => absB_sound h, fun _ _ h => squareB_sound h,
   fun _ _ h h0 => recipB_sound h h0⟩

/-- What is assumed about the real `atan2` behind `P` (NOT about Boost / libm): range `[−π, π]` with
    `π = 2·halfPi`, and the quadrant monotonicity of the angle.  These are exactly the `P`-only fields
    of `Atan2Sound`. -/
structure Atan2Hyps (P : PointFns K) : Prop where
  range : ∀ y x : FVal K, y ≠ nan → x ≠ nan →
    -(P.halfPi + P.halfPi) ≤ P.atan2 y x ∧ P.atan2 y x ≤ P.halfPi + P.halfPi
  monoY_right : ∀ y y' x : FVal K, FVal.lt zeroV x = true → FVal.le y y' = true →
    P.atan2 y x ≤ P.atan2 y' x
  monoX_nonneg_right : ∀ y x x' : FVal K, FVal.le zeroV y = true → FVal.lt zeroV x = true →
    FVal.le x x' = true → P.atan2 y x' ≤ P.atan2 y x
  monoX_nonpos_right : ∀ y x x' : FVal K, FVal.le y zeroV = true → FVal.lt zeroV x = true →
    FVal.le x x' = true → P.atan2 y x ≤ P.atan2 y x'
  monoX_pos : ∀ y x x' : FVal K, FVal.lt zeroV y = true → FVal.le x x' = true →
    P.atan2 y x' ≤ P.atan2 y x
  monoX_neg : ∀ y x x' : FVal K, FVal.lt y zeroV = true → FVal.le x x' = true →
    P.atan2 y x ≤ P.atan2 y x'
  monoY_nonneg_pos : ∀ y y' x : FVal K, FVal.le zeroV x = true → FVal.lt zeroV y = true →
    FVal.le y y' = true → P.atan2 y x ≤ P.atan2 y' x
  monoY_nonpos_pos : ∀ y y' x : FVal K, FVal.le x zeroV = true → FVal.lt zeroV y = true →
    FVal.le y y' = true → P.atan2 y' x ≤ P.atan2 y x
  monoY_nonpos_neg : ∀ y y' x : FVal K, FVal.le x zeroV = true → FVal.lt y' zeroV = true →
    FVal.le y y' = true → P.atan2 y' x ≤ P.atan2 y x
  monoY_nonneg_neg : ∀ y y' x : FVal K, FVal.le zeroV x = true → FVal.lt y' zeroV = true →
    FVal.le y y' = true → P.atan2 y x ≤ P.atan2 y' x

theorem exactOps_atan2Sound (hA : Atan2Hyps P) : Atan2Sound (exactOps P) P where
  eq := fun _ _ _ _ => rfl
  range := fun y x hy hx => by
    have := hA.range y x hy hx
    exact ⟨by simpa [exactOps] using this.1, by simpa [exactOps] using this.2⟩
  monoY_right := hA.monoY_right
  monoX_nonneg_right := hA.monoX_nonneg_right
  monoX_nonpos_right := hA.monoX_nonpos_right
  monoX_pos := hA.monoX_pos
  monoX_neg := hA.monoX_neg
  monoY_nonneg_pos := hA.monoY_nonneg_pos
  monoY_nonpos_pos := hA.monoY_nonpos_pos
  monoY_nonpos_neg := hA.monoY_nonpos_neg
  monoY_nonneg_neg := hA.monoY_nonneg_neg

/-- `P.floor` / `P.ofInt` mean floor and the integer embedding -/
structure FloorHyps (P : PointFns K) : Prop where
  floor : ∀ x : K, P.floor x = ⌊x⌋
  ofInt : ∀ k : Int, P.ofInt k = (k : K)

theorem exactOps_modSound (hF : FloorHyps P) : ModSound (exactOps P) P where
  mulNeg1 := fun _ _ h => negB_sound h
  mulF := fun X b k h hn =>
    mulB_sound (Y := ⟨fin k, fin k⟩) h ⟨by simp, by simp, by simp⟩ hn
  floorF_fin := fun _ => rfl
  floorF_finite := fun v h => by cases v <;> simp_all [exactOps, floorV, FVal.isFinite]
  floor := hF.floor
  ofInt := hF.ofInt

end instance_

/-! ### the algebraic opcodes for ARBITRARY point functions -/

section algebraic_only
variable [FloorRing K]

/-- the algebraic part of `exactOps` alone: every primitive that depends on `P` answers the whole
    line.  (Only a proof device: on the algebraic opcodes `iop algOps` and `iop (exactOps P)` are the
    same function, and `algOps` meets `BoostSound` for every `P` without any hypothesis.) -/
def algOps : BoostOps K :=
  { add := addB, sub := subB, mul := mulB, div := divB, min := minB, max := maxB, hull := hullB,
    neg := negB, abs := absB, square := squareB, sqrt := fun _ => wholeB,
    sin := fun _ => wholeB, cos := fun _ => wholeB, tan := fun _ => wholeB,
    asin := fun _ => wholeB, acos := fun _ => wholeB, atan := fun _ => wholeB,
    exp := fun _ => wholeB, log := fun _ => wholeB,
    oneDiv := recipB, powi := fun _ _ => wholeB, nthRoot := fun _ _ => wholeB,
    mulNeg1 := negB, mulF := fun X f => mulB X ⟨f, f⟩,
    empty := ⟨nan, nan⟩, atanWhole := wholeB,
    atan2f := fun _ _ => fin 0, pi := fin 0, negPi := fin 0,
    toInt := truncI, floorF := floorV,
    nanOnZeroToNeg := false, powM1IsNan := fun _ => false }

theorem algOps_boostSound (P : PointFns K) : BoostSound (algOps : BoostOps K) P where
  add := fun _ _ _ _ h1 h2 hn => addB_sound h1 h2 hn
  sub := fun _ _ _ _ h1 h2 hn => subB_sound h1 h2 hn
  mul := fun _ _ _ _ h1 h2 hn => mulB_sound h1 h2 hn
  div := fun _ _ _ _ h1 h2 h0 hn => divB_sound h1 h2 h0 hn
  min := fun _ _ _ _ h1 h2 => minB_sound h1 h2
  max := fun _ _ _ _ h1 h2 => maxB_sound h1 h2
  hull_l := fun _ Y _ h => hullB_l Y h
  hull_r := fun X _ _ h => hullB_r X h
  neg := fun _ _ h => negB_sound h
  abs := fun _ _ h => absB_sound h
  square := fun _ _ h => squareB_sound h
  sqrt := fun _ _ _ hn => inBb_whole hn
  sin := fun _ _ _ hn => inBb_whole hn
  cos := fun _ _ _ hn => inBb_whole hn
  tan := fun _ _ _ hn => inBb_whole hn
  asin := fun _ _ _ hn => inBb_whole hn
  acos := fun _ _ _ hn => inBb_whole hn
  atan := fun _ _ h => inBb_whole (patan_ne_nan h.1)
  atanWhole := fun _ h => inBb_whole (patan_ne_nan h)
  exp := fun _ _ h => inBb_whole (pexp_ne_nan h.1)
  log := fun _ _ _ _ hn => inBb_whole hn
  oneDiv := fun _ _ h h0 => recipB_sound h h0
  powi := fun _ _ _ h _ _ => inBb_whole (ppowi_ne_nan h.1)
  nthRoot := fun _ _ _ _ _ _ _ hn => inBb_whole hn

/-- the opcodes whose interval rule uses only the algebraic primitives (and the leaf opcodes) -/
def algOp : Op → Bool
  | .add | .sub | .mul | .div | .min | .max | .neg | .abs | .square | .recip | .nanfill | .compare
  | .invalid | .constant | .varX | .varY | .varZ | .varFree | .constVar => true
  | _ => false

/-- per-opcode enclosure with `exactOps`, algebraic opcodes, NO hypothesis on `P` -/
theorem alg_op_enclS (P : PointFns K) (op : Op) (halg : algOp op = true) {A B : IVal K}
    {a b r : FVal K} (ha : enclS A a) (hb : enclS B b) (hr : PointRel P op a b r) :
    enclS (iop (exactOps P) op A B) r := by
  have hS := algOps_boostSound (K := K) P
  cases op <;> simp [algOp] at halg
  case div =>
    refine div_enclS hS ha hb ?_
    rcases hr with h | ⟨_, h0, h⟩ | ⟨h, _⟩ | ⟨h, _⟩
    · exact Or.inl h
    · exact Or.inr ⟨h0, h⟩
    · cases h
    · cases h
  case recip =>
    refine recip_enclS hS ha ?_
    rcases hr with h | ⟨h, _⟩ | ⟨_, h0, h⟩ | ⟨h, _⟩
    · exact Or.inl h
    · cases h
    · exact Or.inr ⟨h0, h⟩
    · cases h
  all_goals (have hr := PointRel.plain (by decide) (by decide) (by decide) hr; subst hr)
  case add => exact add_enclS hS ha hb
  case mul => exact mul_enclS hS ha hb
  case min => exact min_enclS hS ha hb
  case max => exact max_enclS hS ha hb
  case sub => exact sub_enclS hS ha hb
  case nanfill => exact nanfill_enclS hS ha hb
  case compare => exact compare_enclS ha hb
  case square => exact square_enclS hS ha
  case neg => exact neg_enclS hS ha
  case abs => exact abs_enclS hS ha
  all_goals exact ha

theorem alg_tape_enclS (P : PointFns K)
    (pev : Op → FVal K → FVal K → FVal K) (hpev : ∀ op a b, PointRel P op a b (pev op a b))
    (iorc : Nat → IVal K) (porc : Nat → FVal K) (horc : ∀ k, enclS (iorc k) (porc k))
    (t : List Clause) (I0 : Nat → IVal K) (v0 : Nat → FVal K)
    (hleaf : ∀ s, enclS (I0 s) (v0 s))
    (hops : ∀ c ∈ t, c.op = Op.oracle ∨ algOp c.op = true) :
    ∀ s, enclS (ievalList (exactOps P) iorc t I0 s) (evalList pev porc t v0 s) := by
  induction t with
  | nil => intro s; exact hleaf s
  | cons c rest ih =>
    have ih := ih (fun d hd => hops d (List.mem_cons_of_mem _ hd))
    intro s
    simp only [ievalList, evalList]
    by_cases hsid : s = c.id
    · subst hsid
      simp only [upd_same, evalClause]
      by_cases ho : c.op = Op.oracle
      · simp only [ho, if_true]; exact horc _
      · simp only [ho, if_false]
        rcases hops c (List.mem_cons_self ..) with h1 | h1
        · exact absurd h1 ho
        · exact alg_op_enclS P c.op h1 (ih c.a) (ih c.b) (hpev _ _ _)
    · rw [upd_other _ _ _ _ hsid, upd_other _ _ _ _ hsid]
      exact ih s

end algebraic_only

deriving instance DecidableEq for FVal
deriving instance DecidableEq for Bnd
deriving instance DecidableEq for IVal

end Libfive.Ivl
