/-
  Helper lemmas for C03 on the uniform dual-contouring grid (LibfiveModel/DCGrid.lean):
  the triangle list of `DCMesher` on an `n1 × n2 × n3` grid of level-0 cells is closed and
  consistently oriented for every sign assignment that is uniform on the outer boundary.

  Plan.
  (1) `dcQuad_wsum` (LibfiveProofs/Marching.lean): under an antisymmetric weight the two triangles
      of a quad weigh as much as the quad cycle, four directed dual edges, each joining the
      vertices of two cells that share a cell FACE containing the lattice edge.
  (2) `faceSlot` re-reads such a dual edge from the FACE: for the face with normal `N` between the
      cells `cA` and `cB = cA + unit N` and each of its four lattice edges, the patches of `cA` and
      `cB` that own the edge, and the direction.  `face_cancel_x/y/z` (decided over the regenerated
      `marchE3 / marchP3`, for all 3 · 2^12 pairs of corner masks that agree on the shared face):
      the four contributions cancel — for every pair (patch of A, patch of B) as many edges of the
      face cross A → B as B → A.
  (3) `emit_wsum` expresses the weight of one call through four face terms; summing over the
      box of cells and shifting the index by one cell (`boxSum_shift*`; the terms on the outer
      slabs vanish because there is no sign change there) turns the sum over lattice edges into
      a sum over faces, which is zero by (2).
-/
import Mathlib.Tactic.Ring
import Mathlib.Tactic.Linarith
import Mathlib.Tactic.IntervalCases
import LibfiveProofs.Marching
import LibfiveModel.DCGrid

namespace Libfive.DCGrid
open Libfive.Marching Generated.MeshTables

/-! ### (2) the face view of a dual edge, and the finite cancellation fact -/

/-- The dual edge across the face with normal `N` between a cell A (mask `mA`) and the cell B
    one step along `N` (mask `mB`), contributed by the face's lattice edge along `Ae ≠ N` at
    offset `o ∈ {0, 1}` along the third axis `T`: `none` if the edge has no sign change, else
    (low end is inside, patch of A owning the edge, patch of B owning the edge).  In A the edge
    joins corners `kA = N | o·T` and `kA | Ae`, in B corners `kB = o·T` and `kB | Ae`. -/
def faceSlot (N mA mB Ae o : Nat) : Option (Bool × Nat × Nat) :=
  let T := 3 - N - Ae
  let kA := axBit N ||| (o * axBit T)
  let kB := o * axBit T
  let a := cornerState mA kA
  let b := cornerState mA (kA ||| axBit Ae)
  if a == b then none
  else some (a, ownPatch mA kA (kA ||| axBit Ae) a, ownPatch mB kB (kB ||| axBit Ae) a)

def flipS (x : Option (Bool × Nat × Nat)) : Option (Bool × Nat × Nat) := x.map fun y => (!y.1, y.2)

/-- The four dual edges across one face, as (crosses A → B, patch of A, patch of B).
    The quad of an edge along `Ae` with the low end inside runs `ts[0] → ts[1] → ts[3] → ts[2]`,
    i.e. counter-clockwise around `+Ae`: seen from the face with normal `N`, an edge along `R(N)`
    at high `Q(N)` offset and an edge along `Q(N)` at low `R(N)` offset cross A → B when their low
    end is inside, the other two cross B → A. -/
def faceList (N mA mB : Nat) : List (Bool × Nat × Nat) :=
  [faceSlot N mA mB (axR N) 1, flipS (faceSlot N mA mB (axR N) 0),
   faceSlot N mA mB (axQ N) 0, flipS (faceSlot N mA mB (axQ N) 1)].filterMap id

/-- for every pair (patch of A, patch of B): as many crossings A → B as B → A -/
def cancelOK (N mA mB : Nat) : Bool :=
  let L := faceList N mA mB
  ((L.filter (·.1)).map (·.2)).isPerm ((L.filter (!·.1)).map (·.2))

/-- the two masks agree on the shared face -/
def compat (N mA mB : Nat) : Bool :=
  [0, axBit (axQ N), axBit (axR N), axBit (axQ N) ||| axBit (axR N)].all fun k =>
    cornerState mA (k ||| axBit N) == cornerState mB k

/-- face with normal X: corners 1, 3, 5, 7 of A are corners 0, 2, 4, 6 of B -/
theorem face_cancel_x : ∀ a0 a1 a2 a3 a4 a5 a6 a7 u0 u1 u2 u3 : Bool,
    cancelOK 0 (mask8 a0 a1 a2 a3 a4 a5 a6 a7) (mask8 a1 u0 a3 u1 a5 u2 a7 u3) = true := by
  decide +kernel

/-- face with normal Y: corners 2, 3, 6, 7 of A are corners 0, 1, 4, 5 of B -/
theorem face_cancel_y : ∀ a0 a1 a2 a3 a4 a5 a6 a7 u0 u1 u2 u3 : Bool,
    cancelOK 1 (mask8 a0 a1 a2 a3 a4 a5 a6 a7) (mask8 a2 a3 u0 u1 a6 a7 u2 u3) = true := by
  decide +kernel

/-- face with normal Z: corners 4, 5, 6, 7 of A are corners 0, 1, 2, 3 of B -/
theorem face_cancel_z : ∀ a0 a1 a2 a3 a4 a5 a6 a7 u0 u1 u2 u3 : Bool,
    cancelOK 2 (mask8 a0 a1 a2 a3 a4 a5 a6 a7) (mask8 a4 a5 a6 a7 u0 u1 u2 u3) = true := by
  decide +kernel

/-- every mask below 256 is `mask8` of its corner states -/
theorem mask8_cornerState : ∀ m, m < 256 →
    mask8 (cornerState m 0) (cornerState m 1) (cornerState m 2) (cornerState m 3)
      (cornerState m 4) (cornerState m 5) (cornerState m 6) (cornerState m 7) = m := by
  decide +kernel

/-- the mask form of the three facts: all pairs of corner masks that agree on the shared face -/
theorem cancelOK_of_compat (N mA mB : Nat) (hN : N < 3) (hA : mA < 256) (hB : mB < 256)
    (h : compat N mA mB = true) : cancelOK N mA mB = true := by
  rw [← mask8_cornerState mA hA, ← mask8_cornerState mB hB]
  simp only [compat, List.all_cons, List.all_nil, Bool.and_true, Bool.and_eq_true, beq_iff_eq] at h
  obtain ⟨h0, h1, h2, h3⟩ := h
  interval_cases N
  · have e0 : cornerState mA 1 = cornerState mB 0 := h0
    have e1 : cornerState mA 3 = cornerState mB 2 := h1
    have e2 : cornerState mA 5 = cornerState mB 4 := h2
    have e3 : cornerState mA 7 = cornerState mB 6 := h3
    rw [← e0, ← e1, ← e2, ← e3]
    exact face_cancel_x _ _ _ _ _ _ _ _ _ _ _ _
  · have e0 : cornerState mA 2 = cornerState mB 0 := h0
    have e1 : cornerState mA 6 = cornerState mB 4 := h1
    have e2 : cornerState mA 3 = cornerState mB 1 := h2
    have e3 : cornerState mA 7 = cornerState mB 5 := h3
    rw [← e0, ← e1, ← e2, ← e3]
    exact face_cancel_y _ _ _ _ _ _ _ _ _ _ _ _
  · have e0 : cornerState mA 4 = cornerState mB 0 := h0
    have e1 : cornerState mA 5 = cornerState mB 1 := h1
    have e2 : cornerState mA 6 = cornerState mB 2 := h2
    have e3 : cornerState mA 7 = cornerState mB 3 := h3
    rw [← e0, ← e1, ← e2, ← e3]
    exact face_cancel_z _ _ _ _ _ _ _ _ _ _ _ _

/-! ### from the Boolean fact to weights -/

/-- the weight of one (optional) signed dual edge under `g (patch of A) (patch of B)` -/
def faceTerm (g : Nat → Nat → ℤ) : Option (Bool × Nat × Nat) → ℤ
  | none => 0
  | some (d, a, b) => if d then g a b else - g a b

theorem faceTerm_flip (g : Nat → Nat → ℤ) (x : Option (Bool × Nat × Nat)) :
    faceTerm g (flipS x) = - faceTerm g x := by
  rcases x with _ | ⟨d, a, b⟩
  · simp [flipS, faceTerm]
  · cases d <;> simp [flipS, faceTerm]

/-- the signed sum of the four dual edges across one face -/
def Fexpr (N mA mB : Nat) (g : Nat → Nat → ℤ) : ℤ :=
  faceTerm g (faceSlot N mA mB (axR N) 1) - faceTerm g (faceSlot N mA mB (axR N) 0) +
  faceTerm g (faceSlot N mA mB (axQ N) 0) - faceTerm g (faceSlot N mA mB (axQ N) 1)

theorem sum_filterMap4 (g : Nat → Nat → ℤ) (x1 x2 x3 x4 : Option (Bool × Nat × Nat)) :
    ((([x1, x2, x3, x4].filterMap id).map fun x => faceTerm g (some x))).sum =
      faceTerm g x1 + faceTerm g x2 + faceTerm g x3 + faceTerm g x4 := by
  rcases x1 with _ | x1 <;> rcases x2 with _ | x2 <;> rcases x3 with _ | x3 <;>
    rcases x4 with _ | x4 <;> simp [faceTerm] <;> ring

theorem sum_signed_split (g : Nat → Nat → ℤ) (L : List (Bool × Nat × Nat)) :
    (L.map fun x => faceTerm g (some x)).sum =
      (((L.filter (·.1)).map (·.2)).map fun p => g p.1 p.2).sum -
      (((L.filter (!·.1)).map (·.2)).map fun p => g p.1 p.2).sum := by
  induction L with
  | nil => simp
  | cons x L ih =>
    obtain ⟨d, a, b⟩ := x
    cases d
    · have hx : faceTerm g (some (false, a, b)) = - g a b := rfl
      simp only [List.map_cons, List.sum_cons, List.filter_cons, Bool.not_false,
        Bool.false_eq_true, if_false, if_true]
      rw [ih, hx]
      ring
    · have hx : faceTerm g (some (true, a, b)) = g a b := rfl
      simp only [List.map_cons, List.sum_cons, List.filter_cons, Bool.not_true,
        Bool.false_eq_true, if_false, if_true]
      rw [ih, hx]
      ring

theorem Fexpr_zero (N mA mB : Nat) (g : Nat → Nat → ℤ) (h : cancelOK N mA mB = true) :
    Fexpr N mA mB g = 0 := by
  have h1 := sum_filterMap4 g (faceSlot N mA mB (axR N) 1) (flipS (faceSlot N mA mB (axR N) 0))
    (faceSlot N mA mB (axQ N) 0) (flipS (faceSlot N mA mB (axQ N) 1))
  rw [faceTerm_flip, faceTerm_flip] at h1
  have h2 := sum_signed_split g (faceList N mA mB)
  simp only [cancelOK, List.isPerm_iff] at h
  have h3 := (h.map fun p : Nat × Nat => g p.1 p.2).sum_eq
  unfold faceList at h2 h3
  unfold Fexpr
  linarith

/-! ### corner states of a cell mask are the lattice signs -/

theorem cornerState_mask8 : ∀ b0 b1 b2 b3 b4 b5 b6 b7 : Bool,
    cornerState (mask8 b0 b1 b2 b3 b4 b5 b6 b7) 0 = b0 ∧
    cornerState (mask8 b0 b1 b2 b3 b4 b5 b6 b7) 1 = b1 ∧
    cornerState (mask8 b0 b1 b2 b3 b4 b5 b6 b7) 2 = b2 ∧
    cornerState (mask8 b0 b1 b2 b3 b4 b5 b6 b7) 3 = b3 ∧
    cornerState (mask8 b0 b1 b2 b3 b4 b5 b6 b7) 4 = b4 ∧
    cornerState (mask8 b0 b1 b2 b3 b4 b5 b6 b7) 5 = b5 ∧
    cornerState (mask8 b0 b1 b2 b3 b4 b5 b6 b7) 6 = b6 ∧
    cornerState (mask8 b0 b1 b2 b3 b4 b5 b6 b7) 7 = b7 := by decide

theorem cornerState_cellMask (s : Pt → Bool) (c : Pt) (k : Nat) (hk : k < 8) :
    cornerState (cellMask s c) k = s (corner c k) := by
  obtain ⟨h0, h1, h2, h3, h4, h5, h6, h7⟩ := cornerState_mask8 (s (corner c 0)) (s (corner c 1))
    (s (corner c 2)) (s (corner c 3)) (s (corner c 4)) (s (corner c 5)) (s (corner c 6)) (s (corner c 7))
  unfold cellMask
  interval_cases k <;> assumption

theorem ambiguous_mask8 : ∀ b0 b1 b2 b3 b4 b5 b6 b7 : Bool,
    (ambiguous (mask8 b0 b1 b2 b3 b4 b5 b6 b7) ||
      (b1 == b0 && b2 == b0 && b3 == b0 && b4 == b0 && b5 == b0 && b6 == b0 && b7 == b0)) = true := by
  decide

theorem ambiguous_cellMask (s : Pt → Bool) (c : Pt) (k k' : Nat) (hk : k < 8) (hk' : k' < 8)
    (h : s (corner c k) ≠ s (corner c k')) : ambiguous (cellMask s c) = true := by
  by_contra hh
  rw [Bool.not_eq_true] at hh
  have h8 := ambiguous_mask8 (s (corner c 0)) (s (corner c 1)) (s (corner c 2)) (s (corner c 3))
    (s (corner c 4)) (s (corner c 5)) (s (corner c 6)) (s (corner c 7))
  unfold cellMask at hh
  rw [hh] at h8
  simp only [Bool.false_or, Bool.and_eq_true, beq_iff_eq] at h8
  obtain ⟨⟨⟨⟨⟨⟨e1, e2⟩, e3⟩, e4⟩, e5⟩, e6⟩, e7⟩ := h8
  have key : ∀ j, j < 8 → s (corner c j) = s (corner c 0) := by
    intro j hj
    interval_cases j <;> first | rfl | assumption
  exact h ((key k hk).trans (key k' hk').symm)

theorem mask8_lt : ∀ b0 b1 b2 b3 b4 b5 b6 b7 : Bool, mask8 b0 b1 b2 b3 b4 b5 b6 b7 < 256 := by decide

theorem cellMask_lt (s : Pt → Bool) (c : Pt) : cellMask s c < 256 := mask8_lt _ _ _ _ _ _ _ _


/-! ### (3) one call in face terms -/

theorem faceSlot_eq (N mA mB Ae o kA kA' kB kB' : Nat)
    (h1 : kA = axBit N ||| (o * axBit (3 - N - Ae))) (h2 : kA' = kA ||| axBit Ae)
    (h3 : kB = o * axBit (3 - N - Ae)) (h4 : kB' = kB ||| axBit Ae) :
    faceSlot N mA mB Ae o =
      if cornerState mA kA == cornerState mA kA' then none
      else some (cornerState mA kA, ownPatch mA kA kA' (cornerState mA kA),
        ownPatch mB kB kB' (cornerState mA kA)) := by
  subst h1 h2 h3 h4; rfl

/-- weight of the dual edge (patch `a` of cell `cA`) → (patch `b` of cell `cB`) -/
def gOf (n1 n2 : Nat) (w : Edge Vid → ℤ) (cA cB : Pt) : Nat → Nat → ℤ :=
  fun a b => w (vid n1 n2 (cA, a), vid n1 n2 (cB, b))

/-- the face term on the lattice: face with normal `N` above cell `c`, edge along `Ae` at
    offset `o` -/
def fT (n1 n2 : Nat) (s : Pt → Bool) (w : Edge Vid → ℤ) (N : Nat) (c : Pt) (Ae o : Nat) : ℤ :=
  faceTerm (gOf n1 n2 w c (addPt c (unit N)))
    (faceSlot N (cellMask s c) (cellMask s (addPt c (unit N))) Ae o)

theorem fT_eq (n1 n2 : Nat) (s : Pt → Bool) (w : Edge Vid → ℤ) (N : Nat) (c : Pt) (Ae o : Nat)
    (kA kA' kB kB' : Nat)
    (h1 : kA = axBit N ||| (o * axBit (3 - N - Ae))) (h2 : kA' = kA ||| axBit Ae)
    (h3 : kB = o * axBit (3 - N - Ae)) (h4 : kB' = kB ||| axBit Ae) (hk : kA < 8) (hk' : kA' < 8) :
    fT n1 n2 s w N c Ae o =
      if s (corner c kA) = s (corner c kA') then 0
      else (if s (corner c kA) then 1 else -1) *
        w (vid n1 n2 (c, ownPatch (cellMask s c) kA kA' (s (corner c kA))),
           vid n1 n2 (addPt c (unit N),
             ownPatch (cellMask s (addPt c (unit N))) kB kB' (s (corner c kA)))) := by
  unfold fT
  rw [faceSlot_eq N _ _ Ae o kA kA' kB kB' h1 h2 h3 h4, cornerState_cellMask s c kA hk,
    cornerState_cellMask s c kA' hk']
  by_cases h : s (corner c kA) = s (corner c kA')
  · simp [h, faceTerm]
  · simp only [beq_iff_eq, h, if_false]
    cases s (corner c kA) <;> simp [faceTerm, gOf]

theorem load_none (A m0 m1 m2 m3 : Nat)
    (h : cornerState m0 (ev A 0).1 = cornerState m0 (ev A 0).2) : load A m0 m1 m2 m3 = none := by
  simp [load, h]

theorem load_some (A m0 m1 m2 m3 : Nat)
    (h : cornerState m0 (ev A 0).1 ≠ cornerState m0 (ev A 0).2)
    (h0 : ambiguous m0 = true) (h1 : ambiguous m1 = true) (h2 : ambiguous m2 = true)
    (h3 : ambiguous m3 = true) :
    load A m0 m1 m2 m3 = some (cornerState m0 (ev A 0).1,
      ownPatch m0 (ev A 0).1 (ev A 0).2 (cornerState m0 (ev A 0).1),
      ownPatch m1 (ev A 1).1 (ev A 1).2 (cornerState m0 (ev A 0).1),
      ownPatch m2 (ev A 2).1 (ev A 2).2 (cornerState m0 (ev A 0).1),
      ownPatch m3 (ev A 3).1 (ev A 3).2 (cornerState m0 (ev A 0).1)) := by
  simp [load, h, h0, h1, h2, h3]

/-- the two ends of the shared edge, seen from each of the four cells, are the same lattice points -/
theorem corner_ts (A : Nat) (hA : A < 3) (c : Pt) (i : Nat) (hi : i < 4) :
    corner (tsCell A c i) (ev A i).1 = corner c (ev A 0).1 ∧
    corner (tsCell A c i) (ev A i).2 = corner c (ev A 0).2 ∧
    (ev A i).1 < 8 ∧ (ev A i).2 < 8 := by
  interval_cases A <;> interval_cases i <;>
    simp [corner, tsCell, ev, axBit, axQ, axR, addPt, unit]


theorem emit_eq (n1 n2 : Nat) (s : Pt → Bool) (alt : Nat → Pt → Bool) (A : Nat) (hA : A < 3)
    (c : Pt) :
    emit n1 n2 s alt A c =
      if s (corner c (ev A 0).1) = s (corner c (ev A 0).2) then []
      else
        let d := s (corner c (ev A 0).1)
        dcQuad
          (vid n1 n2 (tsCell A c 0, ownPatch (cellMask s (tsCell A c 0)) (ev A 0).1 (ev A 0).2 d))
          (vid n1 n2 (tsCell A c 1, ownPatch (cellMask s (tsCell A c 1)) (ev A 1).1 (ev A 1).2 d))
          (vid n1 n2 (tsCell A c 2, ownPatch (cellMask s (tsCell A c 2)) (ev A 2).1 (ev A 2).2 d))
          (vid n1 n2 (tsCell A c 3, ownPatch (cellMask s (tsCell A c 3)) (ev A 3).1 (ev A 3).2 d))
          d (alt A c) := by
  obtain ⟨a0, b0, l0, l0'⟩ := corner_ts A hA c 0 (by decide)
  obtain ⟨a1, b1, l1, l1'⟩ := corner_ts A hA c 1 (by decide)
  obtain ⟨a2, b2, l2, l2'⟩ := corner_ts A hA c 2 (by decide)
  obtain ⟨a3, b3, l3, l3'⟩ := corner_ts A hA c 3 (by decide)
  have hc : cornerState (cellMask s (tsCell A c 0)) (ev A 0).1 = s (corner c (ev A 0).1) := by
    rw [cornerState_cellMask _ _ _ l0, a0]
  have hc' : cornerState (cellMask s (tsCell A c 0)) (ev A 0).2 = s (corner c (ev A 0).2) := by
    rw [cornerState_cellMask _ _ _ l0', b0]
  by_cases h : s (corner c (ev A 0).1) = s (corner c (ev A 0).2)
  · unfold emit
    rw [load_none _ _ _ _ _ (by rw [hc, hc', h])]
    simp [h]
  · have m0 := ambiguous_cellMask s (tsCell A c 0) _ _ l0 l0' (by rw [a0, b0]; exact h)
    have m1 := ambiguous_cellMask s (tsCell A c 1) _ _ l1 l1' (by rw [a1, b1]; exact h)
    have m2 := ambiguous_cellMask s (tsCell A c 2) _ _ l2 l2' (by rw [a2, b2]; exact h)
    have m3 := ambiguous_cellMask s (tsCell A c 3) _ _ l3 l3' (by rw [a3, b3]; exact h)
    unfold emit
    rw [load_some _ _ _ _ _ (by rw [hc, hc']; exact h) m0 m1 m2 m3]
    simp only [hc, h, if_false]


theorem addPt_right_comm (c u v : Pt) : addPt (addPt c u) v = addPt (addPt c v) u := by
  simp only [addPt, Prod.mk.injEq]
  omega

theorem emit_wsum (n1 n2 : Nat) (s : Pt → Bool) (alt : Nat → Pt → Bool) (w : Edge Vid → ℤ)
    (hw : Antisym w) (A : Nat) (hA : A < 3) (c : Pt) :
    wsum w (dirEdges (emit n1 n2 s alt A c)) =
      fT n1 n2 s w (axQ A) c A 1 + fT n1 n2 s w (axR A) (addPt c (unit (axQ A))) A 0 -
      fT n1 n2 s w (axQ A) (addPt c (unit (axR A))) A 0 - fT n1 n2 s w (axR A) c A 1 := by
  obtain ⟨a0, b0, l0, l0'⟩ := corner_ts A hA c 0 (by decide)
  obtain ⟨a1, b1, l1, l1'⟩ := corner_ts A hA c 1 (by decide)
  obtain ⟨a2, b2, l2, l2'⟩ := corner_ts A hA c 2 (by decide)
  obtain ⟨a3, b3, l3, l3'⟩ := corner_ts A hA c 3 (by decide)
  have t1 := fT_eq n1 n2 s w (axQ A) c A 1 (ev A 0).1 (ev A 0).2 (ev A 1).1 (ev A 1).2
    (by interval_cases A <;> rfl) (by interval_cases A <;> rfl) (by interval_cases A <;> rfl)
    (by interval_cases A <;> rfl) l0 l0'
  have t2 := fT_eq n1 n2 s w (axR A) (addPt c (unit (axQ A))) A 0 (ev A 1).1 (ev A 1).2
    (ev A 3).1 (ev A 3).2
    (by interval_cases A <;> rfl) (by interval_cases A <;> rfl) (by interval_cases A <;> rfl)
    (by interval_cases A <;> rfl) l1 l1'
  have t3 := fT_eq n1 n2 s w (axQ A) (addPt c (unit (axR A))) A 0 (ev A 2).1 (ev A 2).2
    (ev A 3).1 (ev A 3).2
    (by interval_cases A <;> rfl) (by interval_cases A <;> rfl) (by interval_cases A <;> rfl)
    (by interval_cases A <;> rfl) l2 l2'
  have t4 := fT_eq n1 n2 s w (axR A) c A 1 (ev A 0).1 (ev A 0).2 (ev A 2).1 (ev A 2).2
    (by interval_cases A <;> rfl) (by interval_cases A <;> rfl) (by interval_cases A <;> rfl)
    (by interval_cases A <;> rfl) l0 l0'
  have e0 : tsCell A c 0 = c := rfl
  have e1 : tsCell A c 1 = addPt c (unit (axQ A)) := rfl
  have e2 : tsCell A c 2 = addPt c (unit (axR A)) := rfl
  have e3 : tsCell A c 3 = addPt (addPt c (unit (axQ A))) (unit (axR A)) := rfl
  rw [addPt_right_comm c (unit (axR A)) (unit (axQ A))] at t3
  rw [← e3, ← e1, a1, b1] at t2
  rw [← e3, ← e2, a2, b2] at t3
  rw [← e1] at t1
  rw [← e2] at t4
  show _ = fT n1 n2 s w (axQ A) c A 1 + fT n1 n2 s w (axR A) (tsCell A c 1) A 0 -
      fT n1 n2 s w (axQ A) (tsCell A c 2) A 0 - fT n1 n2 s w (axR A) c A 1
  rw [t1, t2, t3, t4, emit_eq n1 n2 s alt A hA c]
  by_cases h : s (corner c (ev A 0).1) = s (corner c (ev A 0).2)
  · simp [h, dirEdges]
  · simp only [h, if_false]
    rw [dcQuad_wsum w hw]
    have s1 := antisym_swap w hw
    cases s (corner c (ev A 0).1) <;>
      simp only [quadCycle, wsum_cons, wsum_nil, if_true, if_false, Bool.false_eq_true, e0] <;>
      linarith [s1 (vid n1 n2 (c, ownPatch (cellMask s c) (ev A 0).1 (ev A 0).2 true))
          (vid n1 n2 (tsCell A c 2, ownPatch (cellMask s (tsCell A c 2)) (ev A 2).1 (ev A 2).2 true)),
        s1 (vid n1 n2 (tsCell A c 2, ownPatch (cellMask s (tsCell A c 2)) (ev A 2).1 (ev A 2).2 true))
          (vid n1 n2 (tsCell A c 3, ownPatch (cellMask s (tsCell A c 3)) (ev A 3).1 (ev A 3).2 true)),
        s1 (vid n1 n2 (c, ownPatch (cellMask s c) (ev A 0).1 (ev A 0).2 false))
          (vid n1 n2 (tsCell A c 1, ownPatch (cellMask s (tsCell A c 1)) (ev A 1).1 (ev A 1).2 false)),
        s1 (vid n1 n2 (tsCell A c 1, ownPatch (cellMask s (tsCell A c 1)) (ev A 1).1 (ev A 1).2 false))
          (vid n1 n2 (tsCell A c 3, ownPatch (cellMask s (tsCell A c 3)) (ev A 3).1 (ev A 3).2 false))]


/-! ### sums over ranges and boxes -/

/-- `Σ_{i < n} f i` -/
def rsum (n : Nat) (f : Nat → ℤ) : ℤ := ((List.range n).map f).sum

theorem rsum_succ (n : Nat) (f : Nat → ℤ) : rsum (n + 1) f = rsum n f + f n := by
  simp [rsum, List.range_succ]

theorem rsum_congr {n : Nat} {f g : Nat → ℤ} (h : ∀ i, i < n → f i = g i) : rsum n f = rsum n g := by
  unfold rsum
  congr 1
  apply List.map_congr_left
  intro i hi
  exact h i (List.mem_range.mp hi)

theorem rsum_const_zero (n : Nat) : rsum n (fun _ => 0) = 0 := by
  induction n with
  | zero => rfl
  | succ n ih => rw [rsum_succ, ih]; rfl

theorem rsum_add (n : Nat) (f g : Nat → ℤ) : rsum n (fun i => f i + g i) = rsum n f + rsum n g := by
  induction n with
  | zero => rfl
  | succ n ih => rw [rsum_succ, rsum_succ, rsum_succ, ih]; ring

theorem rsum_sub (n : Nat) (f g : Nat → ℤ) : rsum n (fun i => f i - g i) = rsum n f - rsum n g := by
  induction n with
  | zero => rfl
  | succ n ih => rw [rsum_succ, rsum_succ, rsum_succ, ih]; ring

/-- shifting the index by one: the difference is the two end terms -/
theorem rsum_shift (n : Nat) (g : Nat → ℤ) : rsum n (fun i => g (i + 1)) + g 0 = rsum n g + g n := by
  induction n with
  | zero => simp [rsum]
  | succ n ih => rw [rsum_succ, rsum_succ]; linarith

theorem rsum_shift_zero (n : Nat) (g : Nat → ℤ) (h0 : g 0 = 0) (hn : g n = 0) :
    rsum n (fun i => g (i + 1)) = rsum n g := by
  have := rsum_shift n g
  rw [h0, hn] at this
  linarith

/-- `Σ` over the box of cells -/
def boxSum (n1 n2 n3 : Nat) (f : Pt → ℤ) : ℤ :=
  rsum n1 fun i => rsum n2 fun j => rsum n3 fun k => f (i, j, k)

theorem cells_sum (n1 n2 n3 : Nat) (f : Pt → ℤ) :
    ((cells n1 n2 n3).map f).sum = boxSum n1 n2 n3 f := by
  simp [cells, boxSum, rsum, List.map_flatMap, sum_flatMap_eq, List.map_map, Function.comp_def]

theorem boxSum_congr {n1 n2 n3 : Nat} {f g : Pt → ℤ} (h : ∀ c, f c = g c) :
    boxSum n1 n2 n3 f = boxSum n1 n2 n3 g := by
  have : f = g := funext h
  rw [this]

theorem boxSum_zero (n1 n2 n3 : Nat) : boxSum n1 n2 n3 (fun _ => 0) = 0 := by
  simp [boxSum, rsum_const_zero]

theorem boxSum_add (n1 n2 n3 : Nat) (f g : Pt → ℤ) :
    boxSum n1 n2 n3 (fun c => f c + g c) = boxSum n1 n2 n3 f + boxSum n1 n2 n3 g := by
  simp [boxSum, rsum_add]

theorem boxSum_sub (n1 n2 n3 : Nat) (f g : Pt → ℤ) :
    boxSum n1 n2 n3 (fun c => f c - g c) = boxSum n1 n2 n3 f - boxSum n1 n2 n3 g := by
  simp [boxSum, rsum_sub]

/-- coordinate `d` of a point, and the grid size along `d` -/
def coord (d : Nat) (p : Pt) : Nat :=
  match d with
  | 0 => p.1
  | 1 => p.2.1
  | _ => p.2.2

def size (n1 n2 n3 : Nat) (d : Nat) : Nat :=
  match d with
  | 0 => n1
  | 1 => n2
  | _ => n3

/-- shifting all cells one step along `d` does not change the box sum of a function that vanishes
    on the two outer slabs `coord d = 0` and `coord d = size d` -/
theorem boxSum_shift (n1 n2 n3 : Nat) (d : Nat) (hd : d < 3) (f : Pt → ℤ)
    (h : ∀ c, (coord d c = 0 ∨ coord d c = size n1 n2 n3 d) → f c = 0) :
    boxSum n1 n2 n3 (fun c => f (addPt c (unit d))) = boxSum n1 n2 n3 f := by
  interval_cases d
  · simp only [boxSum, addPt, unit, Nat.add_zero]
    apply rsum_shift_zero n1 (fun i => rsum n2 fun j => rsum n3 fun k => f (i, j, k))
    · simp [h _ (Or.inl (show coord 0 (0, _, _) = 0 from rfl)), rsum_const_zero]
    · simp [h _ (Or.inr (show coord 0 (n1, _, _) = size n1 n2 n3 0 from rfl)), rsum_const_zero]
  · simp only [boxSum, addPt, unit, Nat.add_zero]
    apply rsum_congr
    intro i _
    apply rsum_shift_zero n2 (fun j => rsum n3 fun k => f (i, j, k))
    · simp [h _ (Or.inl (show coord 1 (_, 0, _) = 0 from rfl)), rsum_const_zero]
    · simp [h _ (Or.inr (show coord 1 (_, n2, _) = size n1 n2 n3 1 from rfl)), rsum_const_zero]
  · simp only [boxSum, addPt, unit, Nat.add_zero]
    apply rsum_congr
    intro i _
    apply rsum_congr
    intro j _
    apply rsum_shift_zero n3 (fun k => f (i, j, k))
    · exact h _ (Or.inl rfl)
    · exact h _ (Or.inr rfl)

theorem sum_filter_of_zero {γ : Type} (p : γ → Bool) (f : γ → ℤ) (l : List γ)
    (h : ∀ x, p x = false → f x = 0) : ((l.filter p).map f).sum = (l.map f).sum := by
  induction l with
  | nil => rfl
  | cons x l ih =>
    by_cases hp : p x = true
    · simp [hp, ih]
    · simp only [Bool.not_eq_true] at hp
      simp [hp, ih, h x hp]


/-! ### the grid -/

/-- the corner states are `b` on the outer boundary and everywhere outside the grid -/
def Ext (n1 n2 n3 : Nat) (s : Pt → Bool) (b : Bool) : Prop :=
  ∀ p : Pt, (p.1 = 0 ∨ n1 ≤ p.1 ∨ p.2.1 = 0 ∨ n2 ≤ p.2.1 ∨ p.2.2 = 0 ∨ n3 ≤ p.2.2) → s p = b

theorem ext_coord {n1 n2 n3 : Nat} {s : Pt → Bool} {b : Bool} (h : Ext n1 n2 n3 s b) (d : Nat)
    (p : Pt) (hp : coord d p = 0 ∨ size n1 n2 n3 d ≤ coord d p) : s p = b := by
  apply h
  unfold coord size at hp
  split at hp <;> omega

theorem compat_cells (s : Pt → Bool) (c : Pt) (N : Nat) (hN : N < 3) :
    compat N (cellMask s c) (cellMask s (addPt c (unit N))) = true := by
  interval_cases N <;>
    simp [compat, axBit, axQ, axR, cornerState_cellMask, corner, addPt, unit]

/-- the four dual edges across the face above `c` with normal `N` cancel -/
theorem face_zero (n1 n2 : Nat) (s : Pt → Bool) (w : Edge Vid → ℤ) (N : Nat) (hN : N < 3) (c : Pt) :
    fT n1 n2 s w N c (axR N) 1 - fT n1 n2 s w N c (axR N) 0 + fT n1 n2 s w N c (axQ N) 0 -
      fT n1 n2 s w N c (axQ N) 1 = 0 :=
  Fexpr_zero N _ _ (gOf n1 n2 w c (addPt c (unit N)))
    (cancelOK_of_compat N _ _ hN (cellMask_lt s c) (cellMask_lt s _) (compat_cells s c N hN))

/-- a call whose edge is not interior pushes nothing -/
theorem emit_outside {n1 n2 n3 : Nat} {s : Pt → Bool} {b : Bool} (h : Ext n1 n2 n3 s b)
    (alt : Nat → Pt → Bool) (A : Nat) (hA : A < 3) (c : Pt)
    (hc : inGrid n1 n2 n3 (tsCell A c 3) = false) : emit n1 n2 s alt A c = [] := by
  rw [emit_eq n1 n2 s alt A hA c]
  have h1 : s (corner c (ev A 0).1) = b := by
    apply h
    simp only [inGrid, Bool.and_eq_false_iff, decide_eq_false_iff_not, Nat.not_lt] at hc
    interval_cases A <;> simp [corner, tsCell, ev, axBit, axQ, axR, addPt, unit] at hc ⊢ <;> omega
  have h2 : s (corner c (ev A 0).2) = b := by
    apply h
    simp only [inGrid, Bool.and_eq_false_iff, decide_eq_false_iff_not, Nat.not_lt] at hc
    interval_cases A <;> simp [corner, tsCell, ev, axBit, axQ, axR, addPt, unit] at hc ⊢ <;> omega
  simp [h1, h2]

/-- the weight of all calls along one axis, in unshifted face terms -/
theorem axis_sum {n1 n2 n3 : Nat} {s : Pt → Bool} {b : Bool} (h : Ext n1 n2 n3 s b)
    (alt : Nat → Pt → Bool) (w : Edge Vid → ℤ) (hw : Antisym w) (A : Nat) (hA : A < 3) :
    ((((cells n1 n2 n3).filter fun c => inGrid n1 n2 n3 (tsCell A c 3)).map fun c =>
        wsum w (dirEdges (emit n1 n2 s alt A c)))).sum =
      boxSum n1 n2 n3 fun c =>
        fT n1 n2 s w (axQ A) c A 1 + fT n1 n2 s w (axR A) c A 0 -
        fT n1 n2 s w (axQ A) c A 0 - fT n1 n2 s w (axR A) c A 1 := by
  rw [sum_filter_of_zero _ _ _ (fun c hc => by rw [emit_outside h alt A hA c hc]; rfl), cells_sum,
    boxSum_congr (fun c => emit_wsum n1 n2 s alt w hw A hA c)]
  rw [boxSum_sub, boxSum_sub, boxSum_add, boxSum_sub, boxSum_sub, boxSum_add]
  have sh2 := boxSum_shift n1 n2 n3 (axQ A) (by interval_cases A <;> decide)
    (fun c => fT n1 n2 s w (axR A) c A 0) (by
      intro c hc
      rw [fT_eq n1 n2 s w (axR A) c A 0 (ev A 1).1 (ev A 1).2 (ev A 3).1 (ev A 3).2
        (by interval_cases A <;> rfl) (by interval_cases A <;> rfl) (by interval_cases A <;> rfl)
        (by interval_cases A <;> rfl) (by interval_cases A <;> decide)
        (by interval_cases A <;> decide)]
      have e1 : s (corner c (ev A 1).1) = b := ext_coord h (axQ A) _ (by
        interval_cases A <;> simp [coord, size, corner, ev, axBit, axQ, axR] at hc ⊢ <;> omega)
      have e2 : s (corner c (ev A 1).2) = b := ext_coord h (axQ A) _ (by
        interval_cases A <;> simp [coord, size, corner, ev, axBit, axQ, axR] at hc ⊢ <;> omega)
      simp [e1, e2])
  have sh3 := boxSum_shift n1 n2 n3 (axR A) (by interval_cases A <;> decide)
    (fun c => fT n1 n2 s w (axQ A) c A 0) (by
      intro c hc
      rw [fT_eq n1 n2 s w (axQ A) c A 0 (ev A 2).1 (ev A 2).2 (ev A 3).1 (ev A 3).2
        (by interval_cases A <;> rfl) (by interval_cases A <;> rfl) (by interval_cases A <;> rfl)
        (by interval_cases A <;> rfl) (by interval_cases A <;> decide)
        (by interval_cases A <;> decide)]
      have e1 : s (corner c (ev A 2).1) = b := ext_coord h (axR A) _ (by
        interval_cases A <;> simp [coord, size, corner, ev, axBit, axQ, axR] at hc ⊢ <;> omega)
      have e2 : s (corner c (ev A 2).2) = b := ext_coord h (axR A) _ (by
        interval_cases A <;> simp [coord, size, corner, ev, axBit, axQ, axR] at hc ⊢ <;> omega)
      simp [e1, e2])
  rw [sh2, sh3]

/-- **the boundary of the whole triangle list has weight zero** (for corner states that are
    constant on the boundary and outside the grid) -/
theorem gridTris_wsum_zero {n1 n2 n3 : Nat} {s : Pt → Bool} {b : Bool} (h : Ext n1 n2 n3 s b)
    (alt : Nat → Pt → Bool) (w : Edge Vid → ℤ) (hw : Antisym w) :
    wsum w (dirEdges (gridTris n1 n2 n3 s alt)) = 0 := by
  unfold gridTris calls
  rw [dirEdges_flatMap, wsum_flatMap]
  simp only [List.flatMap_cons, List.flatMap_nil, List.append_nil, List.map_append, List.map_map,
    List.sum_append, Function.comp_def]
  rw [axis_sum h alt w hw 0 (by decide), axis_sum h alt w hw 1 (by decide),
    axis_sum h alt w hw 2 (by decide), ← boxSum_add, ← boxSum_add]
  rw [← boxSum_zero n1 n2 n3]
  apply boxSum_congr
  intro c
  have f0 := face_zero n1 n2 s w 0 (by decide) c
  have f1 := face_zero n1 n2 s w 1 (by decide) c
  have f2 := face_zero n1 n2 s w 2 (by decide) c
  simp only [axQ, axR] at f0 f1 f2 ⊢
  linarith


/-! ### only the corner states inside the grid matter -/

/-- `s` inside the grid, `b` on the outer boundary and outside -/
def extS (n1 n2 n3 : Nat) (s : Pt → Bool) (b : Bool) : Pt → Bool := fun p =>
  if p.1 = 0 ∨ n1 ≤ p.1 ∨ p.2.1 = 0 ∨ n2 ≤ p.2.1 ∨ p.2.2 = 0 ∨ n3 ≤ p.2.2 then b else s p

theorem extS_ext (n1 n2 n3 : Nat) (s : Pt → Bool) (b : Bool) : Ext n1 n2 n3 (extS n1 n2 n3 s b) b := by
  intro p hp
  simp [extS, hp]

theorem extS_agree {n1 n2 n3 : Nat} {s : Pt → Bool} {b : Bool}
    (hb : ∀ p : Pt, p.1 ≤ n1 → p.2.1 ≤ n2 → p.2.2 ≤ n3 →
      (p.1 = 0 ∨ p.1 = n1 ∨ p.2.1 = 0 ∨ p.2.1 = n2 ∨ p.2.2 = 0 ∨ p.2.2 = n3) → s p = b)
    (p : Pt) (h1 : p.1 ≤ n1) (h2 : p.2.1 ≤ n2) (h3 : p.2.2 ≤ n3) : extS n1 n2 n3 s b p = s p := by
  unfold extS
  split
  · rename_i h
    exact (hb p h1 h2 h3 (by omega)).symm
  · rfl

theorem cellMask_congr (s s' : Pt → Bool) (c : Pt) (h : ∀ k, k < 8 → s (corner c k) = s' (corner c k)) :
    cellMask s c = cellMask s' c := by
  unfold cellMask
  rw [h 0 (by decide), h 1 (by decide), h 2 (by decide), h 3 (by decide), h 4 (by decide),
    h 5 (by decide), h 6 (by decide), h 7 (by decide)]

theorem cellMask_extS {n1 n2 n3 : Nat} {s : Pt → Bool} {b : Bool}
    (hb : ∀ p : Pt, p.1 ≤ n1 → p.2.1 ≤ n2 → p.2.2 ≤ n3 →
      (p.1 = 0 ∨ p.1 = n1 ∨ p.2.1 = 0 ∨ p.2.1 = n2 ∨ p.2.2 = 0 ∨ p.2.2 = n3) → s p = b)
    (c : Pt) (hc : inGrid n1 n2 n3 c = true) :
    cellMask (extS n1 n2 n3 s b) c = cellMask s c := by
  simp only [inGrid, Bool.and_eq_true, decide_eq_true_eq] at hc
  apply cellMask_congr
  intro k _
  apply extS_agree hb <;> simp only [corner] <;> omega

theorem mem_cells (n1 n2 n3 : Nat) (c : Pt) :
    c ∈ cells n1 n2 n3 ↔ c.1 < n1 ∧ c.2.1 < n2 ∧ c.2.2 < n3 := by
  obtain ⟨x, y, z⟩ := c
  simp [cells, List.mem_flatMap, List.mem_map, List.mem_range]

theorem mem_calls (n1 n2 n3 : Nat) (x : Nat × Pt) (h : x ∈ calls n1 n2 n3) :
    x.1 < 3 ∧ inGrid n1 n2 n3 x.2 = true ∧ inGrid n1 n2 n3 (tsCell x.1 x.2 3) = true := by
  simp only [calls, List.mem_flatMap, List.mem_map, List.mem_filter, List.mem_cons,
    List.not_mem_nil, or_false] at h
  obtain ⟨A, hA, c, ⟨hc, hc3⟩, rfl⟩ := h
  refine ⟨by omega, ?_, hc3⟩
  have := (mem_cells n1 n2 n3 c).mp hc
  simp [inGrid, this]

theorem tsCell_inGrid {n1 n2 n3 : Nat} (A : Nat) (hA : A < 3) (c : Pt)
    (h0 : inGrid n1 n2 n3 c = true) (h3 : inGrid n1 n2 n3 (tsCell A c 3) = true) (i : Nat) :
    inGrid n1 n2 n3 (tsCell A c i) = true := by
  simp only [inGrid, Bool.and_eq_true, decide_eq_true_eq] at h0 h3 ⊢
  interval_cases A <;> rcases i with _ | _ | _ | i <;>
    simp only [tsCell, addPt, unit, axQ, axR] at h3 ⊢ <;> omega

theorem emit_congr (n1 n2 : Nat) (s s' : Pt → Bool) (alt : Nat → Pt → Bool) (A : Nat) (c : Pt)
    (h : ∀ i, cellMask s (tsCell A c i) = cellMask s' (tsCell A c i)) :
    emit n1 n2 s alt A c = emit n1 n2 s' alt A c := by
  unfold emit
  rw [h 0, h 1, h 2, h 3]

theorem gridTris_extS {n1 n2 n3 : Nat} {s : Pt → Bool} {b : Bool}
    (hb : ∀ p : Pt, p.1 ≤ n1 → p.2.1 ≤ n2 → p.2.2 ≤ n3 →
      (p.1 = 0 ∨ p.1 = n1 ∨ p.2.1 = 0 ∨ p.2.1 = n2 ∨ p.2.2 = 0 ∨ p.2.2 = n3) → s p = b)
    (alt : Nat → Pt → Bool) :
    gridTris n1 n2 n3 (extS n1 n2 n3 s b) alt = gridTris n1 n2 n3 s alt := by
  unfold gridTris
  apply List.flatMap_congr
  intro x hx
  obtain ⟨hA, h0, h3⟩ := mem_calls n1 n2 n3 x hx
  apply emit_congr
  intro i
  exact cellMask_extS hb _ (tsCell_inGrid x.1 hA x.2 h0 h3 i)

/-- **closedness of the DC mesh on every uniform grid** -/
theorem gridTris_closed (n1 n2 n3 : Nat) (s : Pt → Bool) (alt : Nat → Pt → Bool)
    (hb : BoundaryUniform n1 n2 n3 s) (e : Edge Vid) :
    (dirEdges (gridTris n1 n2 n3 s alt)).count e =
      (dirEdges (gridTris n1 n2 n3 s alt)).count (rev e) := by
  obtain ⟨b, hb⟩ := hb
  rw [← gridTris_extS hb alt]
  exact count_eq_of_wsum_zero (fun w hw => gridTris_wsum_zero (extS_ext n1 n2 n3 s b) alt w hw) e

/-! ### the numbering of the vertices -/

theorem vid_inj (n1 n2 : Nat) (v v' : Vtx) (h1 : v.1.1 < n1) (h1' : v'.1.1 < n1)
    (h2 : v.1.2.1 < n2) (h2' : v'.1.2.1 < n2) (hp : v.2 < 4) (hp' : v'.2 < 4)
    (h : vid n1 n2 v = vid n1 n2 v') : v = v' := by
  obtain ⟨⟨x, y, z⟩, p⟩ := v
  obtain ⟨⟨x', y', z'⟩, p'⟩ := v'
  dsimp only at h1 h1' h2 h2' hp hp'
  have h' : 4 * (x + n1 * (y + n2 * z)) + p = 4 * (x' + n1 * (y' + n2 * z')) + p' := h
  have e1 : x + n1 * (y + n2 * z) = x' + n1 * (y' + n2 * z') ∧ p = p' := by omega
  have key : ∀ (W a a' b b' : Nat), a < W → a' < W → a + W * b = a' + W * b' → a = a' ∧ b = b' := by
    intro W a a' b b' ha ha' hh
    have hb : b = b' := by
      rcases Nat.lt_trichotomy b b' with h | h | h
      · have := Nat.mul_le_mul_left W (show b + 1 ≤ b' from h)
        rw [Nat.mul_succ] at this
        omega
      · exact h
      · have := Nat.mul_le_mul_left W (show b' + 1 ≤ b from h)
        rw [Nat.mul_succ] at this
        omega
    subst hb
    omega
  obtain ⟨ex, e2⟩ := key n1 x x' _ _ h1 h1' e1.1
  obtain ⟨ey, ez⟩ := key n2 y y' _ _ h2 h2' e2
  simp [ex, ey, ez, e1.2]

/-- every entry of `p` is a patch index below 4 (or -1) -/
theorem pId_lt : ∀ m, m < 256 → ∀ e, e < 24 → pId m (Int.ofNat e) < 4 := by decide +kernel

/-- the triangle list only depends on the corner states at the lattice points of the grid -/
theorem gridTris_congr {n1 n2 n3 : Nat} {s s' : Pt → Bool}
    (h : ∀ p : Pt, p.1 ≤ n1 → p.2.1 ≤ n2 → p.2.2 ≤ n3 → s p = s' p) (alt : Nat → Pt → Bool) :
    gridTris n1 n2 n3 s alt = gridTris n1 n2 n3 s' alt := by
  unfold gridTris
  apply List.flatMap_congr
  intro x hx
  obtain ⟨hA, h0, h3⟩ := mem_calls n1 n2 n3 x hx
  apply emit_congr
  intro i
  have hc := tsCell_inGrid x.1 hA x.2 h0 h3 i
  simp only [inGrid, Bool.and_eq_true, decide_eq_true_eq] at hc
  apply cellMask_congr
  intro k _
  apply h <;> simp only [corner] <;> omega

theorem boundaryUniform_of_B {n1 n2 n3 : Nat} {s : Pt → Bool} {b : Bool}
    (h : boundaryB n1 n2 n3 s b = true) : BoundaryUniform n1 n2 n3 s := by
  refine ⟨b, ?_⟩
  rintro ⟨x, y, z⟩ h1 h2 h3 hp
  simp only [boundaryB, List.all_eq_true, List.mem_range] at h
  have := h x (Nat.lt_succ_of_le h1) y (Nat.lt_succ_of_le h2) z (Nat.lt_succ_of_le h3)
  simp only at hp
  simp at this
  rcases this with h' | h'
  · omega
  · exact h'

/-! ### the vertices that are used exist -/

/-- for every mask and every cell edge with a sign change, `p(mask)[e(inside)[outside]]` is a
    patch index: not -1 and below `vertex_count` -/
def patchValid : Bool :=
  (List.range 256).all fun m => (List.range 8).all fun lo => (List.range 3).all fun A =>
    (lo &&& axBit A != 0) || (cornerState m lo == cornerState m (lo ||| axBit A)) ||
      (let hi := lo ||| axBit A
       let v := pId m (if cornerState m lo then eId lo hi else eId hi lo)
       decide (0 ≤ v) && decide (v.toNat < vertexCount m))

theorem patchValid_true : patchValid = true := by decide +kernel

theorem own_valid (m lo A : Nat) (hm : m < 256) (hlo : lo < 8) (hA : A < 3)
    (h0 : lo &&& axBit A = 0) (hne : cornerState m lo ≠ cornerState m (lo ||| axBit A)) :
    ownPatch m lo (lo ||| axBit A) (cornerState m lo) < vertexCount m := by
  have h := patchValid_true
  simp only [patchValid, List.all_eq_true, List.mem_range] at h
  have := h m hm lo hlo A hA
  simp only [h0, bne_self_eq_false, Bool.false_or, Bool.or_eq_true, beq_iff_eq, hne,
    Bool.and_eq_true, decide_eq_true_eq, false_or] at this
  exact this.2

theorem mem_pushTriangle {a b c : Vid} {t : Tri Vid} (h : t ∈ pushTriangle a b c) : t = (a, b, c) := by
  unfold pushTriangle at h
  split at h <;> simp at h
  exact h

theorem dcQuad_vertices {v0 v1 v2 v3 : Vid} {d alt : Bool} {t : Tri Vid}
    (ht : t ∈ dcQuad v0 v1 v2 v3 d alt) (v : Vid) (hv : v = t.1 ∨ v = t.2.1 ∨ v = t.2.2) :
    v = v0 ∨ v = v1 ∨ v = v2 ∨ v = v3 := by
  cases d <;> cases alt <;>
    simp only [dcQuad, if_true, if_false, Bool.false_eq_true, List.mem_append] at ht <;>
    rcases ht with h | h <;> have e := mem_pushTriangle h <;> subst e <;>
    rcases hv with rfl | rfl | rfl <;> simp

theorem ev_edge (A : Nat) (hA : A < 3) (i : Nat) (hi : i < 4) :
    (ev A i).2 = (ev A i).1 ||| axBit A ∧ (ev A i).1 &&& axBit A = 0 := by
  interval_cases A <;> interval_cases i <;> exact ⟨rfl, rfl⟩

theorem gridTris_vertices (n1 n2 n3 : Nat) (s : Pt → Bool) (alt : Nat → Pt → Bool)
    (t : Tri Vid) (ht : t ∈ gridTris n1 n2 n3 s alt) (v : Vid) (hv : v = t.1 ∨ v = t.2.1 ∨ v = t.2.2) :
    ∃ c k, inGrid n1 n2 n3 c = true ∧ k < vertexCount (cellMask s c) ∧ v = vid n1 n2 (c, k) := by
  unfold gridTris at ht
  obtain ⟨x, hx, ht⟩ := List.mem_flatMap.mp ht
  obtain ⟨A, c⟩ := x
  obtain ⟨hA, h0, h3⟩ := mem_calls n1 n2 n3 (A, c) hx
  simp only at hA h0 h3 ht
  rw [emit_eq n1 n2 s alt A hA c] at ht
  by_cases h : s (corner c (ev A 0).1) = s (corner c (ev A 0).2)
  · simp [h] at ht
  · simp only [h, if_false] at ht
    have key : ∀ i, i < 4 →
        ownPatch (cellMask s (tsCell A c i)) (ev A i).1 (ev A i).2 (s (corner c (ev A 0).1)) <
          vertexCount (cellMask s (tsCell A c i)) := by
      intro i hi
      obtain ⟨a, b, l, l'⟩ := corner_ts A hA c i hi
      obtain ⟨e2, e0⟩ := ev_edge A hA i hi
      have c1 : cornerState (cellMask s (tsCell A c i)) (ev A i).1 = s (corner c (ev A 0).1) := by
        rw [cornerState_cellMask _ _ _ l, a]
      have c2 : cornerState (cellMask s (tsCell A c i)) (ev A i).2 = s (corner c (ev A 0).2) := by
        rw [cornerState_cellMask _ _ _ l', b]
      rw [← c1, e2]
      apply own_valid _ _ _ (cellMask_lt s _) l hA e0
      rw [← e2, c1, c2]
      exact h
    rcases dcQuad_vertices ht v hv with rfl | rfl | rfl | rfl
    · exact ⟨_, _, tsCell_inGrid A hA c h0 h3 0, key 0 (by decide), rfl⟩
    · exact ⟨_, _, tsCell_inGrid A hA c h0 h3 1, key 1 (by decide), rfl⟩
    · exact ⟨_, _, tsCell_inGrid A hA c h0 h3 2, key 2 (by decide), rfl⟩
    · exact ⟨_, _, tsCell_inGrid A hA c h0 h3 3, key 3 (by decide), rfl⟩

end Libfive.DCGrid
