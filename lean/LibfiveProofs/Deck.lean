/-
  Compile-correctness of `Deck::Deck` (model: LibfiveModel/Deck.lean): running the emitted tape on
  slots that hold the leaves' values leaves, in the slot of EVERY node of `flat`, the value that
  node denotes — in particular the root's slot holds the value of the expression.  Also: the
  emitted tape is well-formed (`WF`), which is the hypothesis of every `Tape::push` theorem.
  Core Lean only.
-/
import LibfiveModel.Deck
import LibfiveProofs.TapeExpr
import LibfiveProofs.TapePush

set_option linter.unusedSimpArgs false
set_option linter.unusedVariables false

namespace Libfive.Deck
open Libfive Expr

variable {C α : Type} [DecidableEq C]

/-- node-level arity discipline (what `wellArity` gives for every sub-term) -/
def nodeArity : Expr C → Prop
  | un op _ => op.args = some 1
  | bin op _ _ => op.args = some 2
  | _ => True

theorem getD_of_lt (l : List (Expr C)) (i : Nat) (h : i < l.length) : l.getD i invalid = l[i] := by
  simp [List.getD, List.getElem?_eq_getElem h]

theorem getD_mem (l : List (Expr C)) (i : Nat) (h : i < l.length) : l.getD i invalid ∈ l := by
  rw [getD_of_lt l i h]; exact List.getElem_mem h

theorem getD_idxOf (l : List (Expr C)) (a : Expr C) (h : l.idxOf a < l.length) :
    l.getD (l.idxOf a) invalid = a := by
  rw [getD_of_lt l _ h]; exact List.getElem_idxOf h

theorem clauseAt_id (flat : List (Expr C)) (k : Nat) (m : Expr C) (c : Clause)
    (h : clauseAt flat k m = some c) : c.id = flat.length - k := by
  cases m <;> simp [clauseAt] at h <;> rw [← h]

/-- ids of the clauses emitted for the first `k` nodes are `n - j` for `j < k` -/
theorem ids_tapeK (flat : List (Expr C)) : ∀ k, ∀ s ∈ ids (tapeK flat k), ∃ j, j < k ∧ s = flat.length - j := by
  intro k
  induction k with
  | zero => intro s hs; simp [tapeK, ids] at hs
  | succ k ih =>
    intro s hs
    simp only [tapeK] at hs
    split at hs
    · rename_i c hc
      simp only [ids, List.map_cons, List.mem_cons] at hs
      rcases hs with h | h
      · refine ⟨k, Nat.lt_succ_self k, ?_⟩
        rw [h]
        exact clauseAt_id flat k _ _ hc
      · obtain ⟨j, hj, e⟩ := ih s h
        exact ⟨j, Nat.lt_succ_of_lt hj, e⟩
    · obtain ⟨j, hj, e⟩ := ih s hs
      exact ⟨j, Nat.lt_succ_of_lt hj, e⟩

theorem not_mem_ids_tapeK (flat : List (Expr C)) (k i : Nat) (hk : k ≤ flat.length) (hi : k ≤ i)
    (hin : i < flat.length) : flat.length - i ∉ ids (tapeK flat k) := by
  intro h
  obtain ⟨j, hj, e⟩ := ids_tapeK flat k _ h
  omega

/-- the `j`-th oracle of the deck is the oracle node at the position that pushed clause `j` -/
theorem filter_take_getD (p : Expr C → Bool) : ∀ (l : List (Expr C)) (i : Nat), i < l.length →
    p (l.getD i invalid) = true →
    (l.filter p).getD ((l.take i).filter p).length invalid = l.getD i invalid := by
  intro l
  induction l with
  | nil => intro i hi; simp at hi
  | cons a l ih =>
    intro i hi hp
    cases i with
    | zero =>
      simp only [List.getD, List.getElem?_cons_zero, Option.getD_some] at hp
      simp [List.take, List.filter, hp, List.getD]
    | succ i =>
      have hi' : i < l.length := by simpa using hi
      have hp' : p (l.getD i invalid) = true := by simpa [List.getD] using hp
      have := ih i hi' hp'
      by_cases ha : p a = true
      · simp only [List.take_succ_cons, List.filter_cons, ha, if_true, List.length_cons]
        simpa [List.getD] using this
      · simp only [List.take_succ_cons, List.filter_cons, ha, if_false, Bool.false_eq_true]
        simpa [List.getD] using this

section eval
variable (I : Interp C α) (e : Env α)

/-- **Main invariant of the emission loop.**  After the first `k` nodes, the slot of each of them
    holds its denotation. -/
theorem tapeK_slots (flat : List (Expr C)) (hT : TopoFlat flat) (hA : ∀ m ∈ flat, nodeArity m) :
    ∀ k, k ≤ flat.length → ∀ i, i < k →
      evalList (evTape I) (orcTable I e flat) (tapeK flat k) (slots0 I e flat) (flat.length - i)
        = denote I (flat.getD i invalid) e := by
  obtain ⟨hnd, hplain, htopo⟩ := hT
  intro k
  induction k with
  | zero => intro _ i hi; omega
  | succ k ih =>
    intro hk i hi
    have hkn : k < flat.length := hk
    have ih' := ih (Nat.le_of_lt hkn)
    have hmem := getD_mem flat k hkn
    -- value of an operand already visited
    have operand : ∀ c ∈ children (flat.getD k invalid),
        evalList (evTape I) (orcTable I e flat) (tapeK flat k) (slots0 I e flat) (idOf flat c)
          = denote I c e := by
      intro c hc
      have hlt := htopo k hkn c hc
      have := ih' (flat.idxOf c) hlt
      rw [getD_idxOf flat c (Nat.lt_trans hlt hkn)] at this
      exact this
    simp only [tapeK]
    cases hm : flat.getD k invalid with
    | const c0 =>
      simp only [clauseAt]
      by_cases hik : i = k
      · subst hik
        rw [evalList_notin _ _ _ _ _ (not_mem_ids_tapeK flat i i (Nat.le_of_lt hkn) (Nat.le_refl _) hkn)]
        have : flat.length - (flat.length - i) = i := by omega
        have e1 : slots0 I e flat (flat.length - i) = leafVal I e (flat.getD i invalid) := by
          simp only [slots0, this]
        rw [e1, hm]; rfl
      · rw [ih' i (by omega)]
    | x =>
      simp only [clauseAt]
      by_cases hik : i = k
      · subst hik
        rw [evalList_notin _ _ _ _ _ (not_mem_ids_tapeK flat i i (Nat.le_of_lt hkn) (Nat.le_refl _) hkn)]
        have : flat.length - (flat.length - i) = i := by omega
        have e1 : slots0 I e flat (flat.length - i) = leafVal I e (flat.getD i invalid) := by
          simp only [slots0, this]
        rw [e1, hm]; rfl
      · rw [ih' i (by omega)]
    | y =>
      simp only [clauseAt]
      by_cases hik : i = k
      · subst hik
        rw [evalList_notin _ _ _ _ _ (not_mem_ids_tapeK flat i i (Nat.le_of_lt hkn) (Nat.le_refl _) hkn)]
        have : flat.length - (flat.length - i) = i := by omega
        have e1 : slots0 I e flat (flat.length - i) = leafVal I e (flat.getD i invalid) := by
          simp only [slots0, this]
        rw [e1, hm]; rfl
      · rw [ih' i (by omega)]
    | z =>
      simp only [clauseAt]
      by_cases hik : i = k
      · subst hik
        rw [evalList_notin _ _ _ _ _ (not_mem_ids_tapeK flat i i (Nat.le_of_lt hkn) (Nat.le_refl _) hkn)]
        have : flat.length - (flat.length - i) = i := by omega
        have e1 : slots0 I e flat (flat.length - i) = leafVal I e (flat.getD i invalid) := by
          simp only [slots0, this]
        rw [e1, hm]; rfl
      · rw [ih' i (by omega)]
    | var v =>
      simp only [clauseAt]
      by_cases hik : i = k
      · subst hik
        rw [evalList_notin _ _ _ _ _ (not_mem_ids_tapeK flat i i (Nat.le_of_lt hkn) (Nat.le_refl _) hkn)]
        have : flat.length - (flat.length - i) = i := by omega
        have e1 : slots0 I e flat (flat.length - i) = leafVal I e (flat.getD i invalid) := by
          simp only [slots0, this]
        rw [e1, hm]; rfl
      · rw [ih' i (by omega)]
    | un op a =>
      simp only [clauseAt, evalList]
      by_cases hik : i = k
      · subst hik
        have har : op.args = some 1 := by have := hA _ hmem; rw [hm] at this; exact this
        have hno : op ≠ Op.oracle := by intro h; rw [h] at har; simp [Op.args] at har
        have ha := operand a (by rw [hm]; simp [children])
        simp only [upd_same, evalClause, hno, if_false, evTape, har, if_true, ha]
        rw [hm]; rfl
      · rw [upd_other _ _ _ _ (by omega), ih' i (by omega)]
    | bin op a b =>
      simp only [clauseAt, evalList]
      by_cases hik : i = k
      · subst hik
        have har : op.args = some 2 := by have := hA _ hmem; rw [hm] at this; exact this
        have hno : op ≠ Op.oracle := by intro h; rw [h] at har; simp [Op.args] at har
        have h1 : ¬ op.args = some 1 := by rw [har]; simp
        have ha := operand a (by rw [hm]; simp [children])
        have hb := operand b (by rw [hm]; simp [children])
        simp only [upd_same, evalClause, hno, if_false, evTape, h1, ha, hb]
        rw [hm]; rfl
      · rw [upd_other _ _ _ _ (by omega), ih' i (by omega)]
    | oracle kk =>
      simp only [clauseAt, evalList]
      by_cases hik : i = k
      · subst hik
        have := filter_take_getD isOracle flat i hkn (by rw [hm]; rfl)
        simp only [upd_same, evalClause, if_true, orcTable, this, hm, denote]
      · rw [upd_other _ _ _ _ (by omega), ih' i (by omega)]
    | remap t a b c => have := hplain _ hmem; rw [hm] at this; simp [plainNode] at this
    | apply t v w => have := hplain _ hmem; rw [hm] at this; simp [plainNode] at this
    | invalid => have := hplain _ hmem; rw [hm] at this; simp [plainNode] at this

/-- **deck_eval_correct.**  For every list `flat` meeting `walk()`'s specification and every node
    `m` of it — in particular the root — evaluating the tape `Deck::Deck` emits, on slots holding
    the constants, variable values and coordinates, yields `m`'s denotation in `m`'s slot. -/
theorem build_eval (flat : List (Expr C)) (root : Expr C) (hT : TopoFlat flat)
    (hA : ∀ m ∈ flat, nodeArity m) (m : Expr C) (hm : m ∈ flat) :
    evalList (evTape I) (orcTable I e flat) (build flat root).t (slots0 I e flat) (idOf flat m)
      = denote I m e := by
  have hlt : flat.idxOf m < flat.length := List.idxOf_lt_length_iff.mpr hm
  have := tapeK_slots I e flat hT hA flat.length (Nat.le_refl _) (flat.idxOf m) hlt
  rw [getD_idxOf flat m hlt] at this
  exact this

end eval

/-! ### the emitted tape is well-formed -/

theorem clauseAt_operands (flat : List (Expr C)) (k : Nat) (hk : k < flat.length) (hT : TopoFlat flat)
    (c : Clause) (h : clauseAt flat k (flat.getD k invalid) = some c) (hno : c.op ≠ Op.oracle) :
    (c.a = 0 ∨ flat.length - k < c.a) ∧ (c.b = 0 ∨ flat.length - k < c.b) := by
  obtain ⟨_, _, htopo⟩ := hT
  cases hm : flat.getD k invalid <;> rw [hm] at h <;> simp [clauseAt] at h
  · rename_i op a
    have := htopo k hk a (by rw [hm]; simp [children])
    rw [← h]; simp only [idOf]; exact ⟨Or.inr (by omega), by simp⟩
  · rename_i op a b
    have h1 := htopo k hk a (by rw [hm]; simp [children])
    have h2 := htopo k hk b (by rw [hm]; simp [children])
    rw [← h]; simp only [idOf]; exact ⟨Or.inr (by omega), Or.inr (by omega)⟩
  · rw [← h] at hno; exact absurd rfl hno

/-- every clause among the first `k` has id in `(n-k, n]` and operands `0` or above its own id -/
theorem tapeK_shape (flat : List (Expr C)) (hT : TopoFlat flat) : ∀ k, k ≤ flat.length →
    ∀ d ∈ tapeK flat k, (flat.length - k < d.id ∧ d.id ≤ flat.length) ∧
      (d.op ≠ Op.oracle → (d.a = 0 ∨ d.id < d.a) ∧ (d.b = 0 ∨ d.id < d.b)) := by
  intro k
  induction k with
  | zero => intro _ d hd; simp [tapeK] at hd
  | succ k ih =>
    intro hk d hd
    have hkn : k < flat.length := hk
    simp only [tapeK] at hd
    split at hd
    · rename_i c hc
      simp only [List.mem_cons] at hd
      rcases hd with rfl | hd
      · have hid := clauseAt_id flat k _ _ hc
        refine ⟨by omega, ?_⟩
        intro hno
        have := clauseAt_operands flat k hkn hT _ hc hno
        rw [hid]; exact this
      · obtain ⟨⟨h1, h2⟩, h3⟩ := ih (Nat.le_of_lt hkn) d hd
        exact ⟨⟨by omega, h2⟩, h3⟩
    · obtain ⟨⟨h1, h2⟩, h3⟩ := ih (Nat.le_of_lt hkn) d hd
      exact ⟨⟨by omega, h2⟩, h3⟩

theorem tapeK_wf (flat : List (Expr C)) (hT : TopoFlat flat) : ∀ k, k ≤ flat.length → WF (tapeK flat k) := by
  intro k
  induction k with
  | zero => intro _; simp [tapeK, WF]
  | succ k ih =>
    intro hk
    have hkn : k < flat.length := hk
    have ihk := ih (Nat.le_of_lt hkn)
    simp only [tapeK]
    split
    · rename_i c hc
      have hid := clauseAt_id flat k _ _ hc
      refine ⟨by omega, ?_, ?_, ?_, ihk⟩
      · rw [hid]; exact not_mem_ids_tapeK flat k k (Nat.le_of_lt hkn) (Nat.le_refl _) hkn
      · intro hno
        obtain ⟨ha, hb⟩ := clauseAt_operands flat k hkn hT _ hc hno
        rw [hid]; constructor <;> omega
      · intro d hd hno
        obtain ⟨⟨h1, _⟩, h3⟩ := tapeK_shape flat hT k (Nat.le_of_lt hkn) d hd
        obtain ⟨ha, hb⟩ := h3 hno
        rw [hid]; constructor <;> omega
    · exact ihk

theorem build_wf (flat : List (Expr C)) (root : Expr C) (hT : TopoFlat flat) : WF (build flat root).t :=
  tapeK_wf flat hT flat.length (Nat.le_refl _)

/-! ### post-order traversal meets `walk()`'s specification -/

/-- every sub-term is a node `Deck::Deck` can meet -/
def plainDeep : Expr C → Prop
  | un _ a => plainDeep a
  | bin _ a b => plainDeep a ∧ plainDeep b
  | remap _ _ _ _ => False
  | apply _ _ _ => False
  | invalid => False
  | _ => True

theorem plainNode_of_plainDeep {e : Expr C} (h : plainDeep e) : plainNode e = true := by
  cases e <;> simp_all [plainDeep, plainNode]

/-- appending a node whose operands are already present keeps the specification -/
theorem topoFlat_snoc (l : List (Expr C)) (e : Expr C) (hl : TopoFlat l) (hn : e ∉ l)
    (hp : plainNode e = true) (hc : ∀ c ∈ children e, c ∈ l) : TopoFlat (l ++ [e]) := by
  obtain ⟨hnd, hpl, hto⟩ := hl
  refine ⟨?_, ?_, ?_⟩
  · rw [List.nodup_append]
    refine ⟨hnd, by simp, ?_⟩
    intro a ha b hb
    simp only [List.mem_singleton] at hb
    subst hb
    exact fun h => hn (h ▸ ha)
  · intro m hm
    simp only [List.mem_append, List.mem_singleton] at hm
    rcases hm with h | h
    · exact hpl m h
    · subst h; exact hp
  · intro i hi c hcm
    simp only [List.length_append, List.length_singleton] at hi
    by_cases hil : i < l.length
    · have e1 : (l ++ [e]).getD i invalid = l.getD i invalid := by
        simp [List.getD, List.getElem?_append_left hil]
      rw [e1] at hcm
      have := hto i hil c hcm
      have hcl : c ∈ l := List.idxOf_lt_length_iff.mp (Nat.lt_trans this hil)
      rw [List.idxOf_append, if_pos hcl]
      exact this
    · have hie : i = l.length := by omega
      subst hie
      have e1 : (l ++ [e]).getD l.length invalid = e := by
        simp [List.getD]
      rw [e1] at hcm
      have hcl := hc c hcm
      rw [List.idxOf_append, if_pos hcl]
      exact List.idxOf_lt_length_iff.mpr hcl

theorem postorderAux_prefix : ∀ (e : Expr C) (acc : List (Expr C)), acc <+: postorderAux e acc := by
  intro e
  induction e with
  | un op a iha =>
    intro acc
    simp only [postorderAux]
    split
    · exact List.prefix_refl _
    · split
      · exact iha acc
      · exact (iha acc).trans (List.prefix_append _ _)
  | bin op a b iha ihb =>
    intro acc
    simp only [postorderAux]
    split
    · exact List.prefix_refl _
    · split
      · exact (iha acc).trans (ihb _)
      · exact ((iha acc).trans (ihb _)).trans (List.prefix_append _ _)
  | _ =>
    intro acc
    simp only [postorderAux]
    split
    · exact List.prefix_refl _
    · exact List.prefix_append _ _

theorem postorderAux_spec : ∀ (e : Expr C) (acc : List (Expr C)), plainDeep e → TopoFlat acc →
    TopoFlat (postorderAux e acc) ∧ e ∈ postorderAux e acc := by
  intro e
  induction e with
  | un op a iha =>
    intro acc hp hacc
    simp only [postorderAux]
    split
    · rename_i h; exact ⟨hacc, h⟩
    · obtain ⟨h1, ha⟩ := iha acc hp hacc
      split
      · rename_i h; exact ⟨h1, h⟩
      · rename_i h
        exact ⟨topoFlat_snoc _ _ h1 h (by simp [plainNode]) (by intro c hc; simp [children] at hc; subst hc; exact ha),
          by simp⟩
  | bin op a b iha ihb =>
    intro acc hp hacc
    simp only [postorderAux]
    split
    · rename_i h; exact ⟨hacc, h⟩
    · obtain ⟨h1, ha⟩ := iha acc hp.1 hacc
      obtain ⟨h2, hb⟩ := ihb (postorderAux a acc) hp.2 h1
      have ha2 : a ∈ postorderAux b (postorderAux a acc) := (postorderAux_prefix b _).subset ha
      split
      · rename_i h; exact ⟨h2, h⟩
      · rename_i h
        refine ⟨topoFlat_snoc _ _ h2 h (by simp [plainNode]) ?_, by simp⟩
        intro c hc
        simp [children] at hc
        rcases hc with rfl | rfl
        · exact ha2
        · exact hb
  | remap t a b c => intro acc hp; exact absurd hp (by simp [plainDeep])
  | apply t v w => intro acc hp; exact absurd hp (by simp [plainDeep])
  | invalid => intro acc hp; exact absurd hp (by simp [plainDeep])
  | _ =>
    intro acc hp hacc
    simp only [postorderAux]
    split
    · rename_i h; exact ⟨hacc, h⟩
    · rename_i h
      exact ⟨topoFlat_snoc _ _ hacc h (by simp [plainNode]) (by intro c hc; simp [children] at hc), by simp⟩

theorem topoFlat_nil : TopoFlat ([] : List (Expr C)) :=
  ⟨List.nodup_nil, by simp, by intro i hi; simp at hi⟩

/-- **`walk()`'s specification is met by post-order traversal** of any flattened expression, and the
    root is in the list. -/
theorem postorder_spec (e : Expr C) (hp : plainDeep e) : TopoFlat (postorder e) ∧ e ∈ postorder e :=
  postorderAux_spec e [] hp topoFlat_nil

/-! ### the executable test of `walk()`'s specification is sound -/

theorem idxOf_le_of_getElem (l : List (Expr C)) : ∀ (i : Nat) (h : i < l.length), l.idxOf (l[i]) ≤ i := by
  induction l with
  | nil => intro i h; simp at h
  | cons a l ih =>
    intro i h
    cases i with
    | zero => simp [List.idxOf_cons]
    | succ i =>
      have hi' : i < l.length := by simpa using h
      simp only [List.getElem_cons_succ, List.idxOf_cons]
      cases hab : (a == l[i]'hi')
      · have := ih i hi'; simp; omega
      · simp

theorem topoFlatB_sound (flat : List (Expr C)) (h : topoFlatB flat = true) : TopoFlat flat := by
  simp only [topoFlatB, List.all_eq_true, List.mem_range, Bool.and_eq_true, beq_iff_eq, decide_eq_true_eq] at h
  have getD_eq : ∀ i (hi : i < flat.length), flat.getD i invalid = flat[i] := by
    intro i hi; simp [List.getD, List.getElem?_eq_getElem hi]
  refine ⟨?_, ?_, ?_⟩
  · rw [List.nodup_iff_pairwise_ne, List.pairwise_iff_getElem]
    intro i j hi hj hij heq
    have h2 := (h j hj).1.2
    rw [getD_eq j hj, ← heq] at h2
    have := idxOf_le_of_getElem flat i hi
    omega
  · intro e he
    obtain ⟨i, hi, rfl⟩ := List.getElem_of_mem he
    have := (h i hi).1.1
    rwa [getD_eq i hi] at this
  · intro i hi c hc
    exact (h i hi).2 c hc

end Libfive.Deck
