/-
  Helper lemmas for C06's feature theorem: every feature the walk of eval_feature.cpp produces has
  a derivative in the specification's set of branch gradients, for every compatibility oracle.
  Core Lean only.
-/
import LibfiveModel.Deriv

namespace Libfive.FeatureProofs
open Libfive

variable {α : Type}

theorem mem_pairs {β : Type} (as bs : List β) (x y : β) (h : (x, y) ∈ pairs as bs) : x ∈ as ∧ y ∈ bs := by
  simp only [pairs, List.mem_flatMap, List.mem_map] at h
  obtain ⟨a, ha, b, hb, heq⟩ := h
  cases heq
  exact ⟨ha, hb⟩

/-- the kernel reads the clause's own value row only for OP_SQRT -/
theorem dk_ov (O : DOps α) (cv : Bool) (op : Op) (hop : op ≠ Op.sqrt) (av bv ov ov' ad bd : α) :
    dk O cv op av bv ov ad bd = dk O cv op av bv ov' ad bd := by
  cases op <;> first | rfl | exact absurd rfl hop

theorem dk3_ov (O : DOps α) (cv : Bool) (op : Op) (hop : op ≠ Op.sqrt) (av bv ov ov' : α) (ad bd : V3 α) :
    dk3 O cv op av bv ov ad bd = dk3 O cv op av bv ov' ad bd := by
  simp only [dk3, dk_ov O cv op hop av bv ov ov']

/-- every output of a tied pair carries the derivative of one of the two operand features,
    whatever the oracle answers -/
theorem tiePair_deriv (F : FeatOracle α) (isMin : Bool) (fa fb : Feat α) :
    ∀ f ∈ F.tiePair isMin fa fb, f.deriv = fa.deriv ∨ f.deriv = fb.deriv := by
  intro f hf
  unfold FeatOracle.tiePair at hf
  simp only at hf
  generalize (if isMin = true then F.sub fb.deriv fa.deriv else F.sub fa.deriv fb.deriv) = eps at hf
  by_cases hz : F.normZero eps = true
  · simp only [hz, if_true, List.mem_append] at hf
    rcases hf with (h | h) | h
    · split at h
      · simp only [List.mem_singleton] at h; exact Or.inl (h ▸ rfl)
      · simp at h
    · split at h
      · simp only [List.mem_singleton] at h; exact Or.inr (h ▸ rfl)
      · simp at h
    · split at h
      · simp only [List.mem_singleton] at h; exact Or.inl (h ▸ rfl)
      · simp at h
  · simp only [hz] at hf
    cases hp : F.pushAll fa.eps fb.eps with
    | none => simp [hp] at hf
    | some combined =>
      simp only [hp] at hf
      rcases List.mem_append.mp hf with h | h
      · cases h1 : F.push combined eps with
        | none => simp [h1] at h
        | some es => simp only [h1, List.mem_singleton] at h; exact Or.inl (h ▸ rfl)
      · cases h2 : F.push combined (F.negv eps) with
        | none => simp [h2] at h
        | some es => simp only [h2, List.mem_singleton] at h; exact Or.inr (h ▸ rfl)

theorem uniqDerivs_subset (veq : V3 α → V3 α → Bool) (fs : List (Feat α)) :
    ∀ d ∈ uniqDerivs veq fs, ∃ f ∈ fs, d = f.deriv := by
  unfold uniqDerivs
  suffices h : ∀ (l : List (Feat α)) (acc : List (V3 α)),
      (∀ d ∈ acc, ∃ f ∈ fs, d = f.deriv) → (∀ f ∈ l, f ∈ fs) →
      ∀ d ∈ l.foldl (fun acc f => if acc.any (fun d => veq d f.deriv) then acc else acc ++ [f.deriv]) acc,
        ∃ f ∈ fs, d = f.deriv by
    exact h fs [] (by simp) (fun f hf => hf)
  intro l
  induction l with
  | nil => intro acc hacc _ d hd; exact hacc d hd
  | cons x rest ih =>
    intro acc hacc hl d hd
    simp only [List.foldl_cons] at hd
    refine ih _ ?_ (fun f hf => hl f (List.mem_cons_of_mem _ hf)) d hd
    intro d' hd'
    split at hd'
    · exact hacc d' hd'
    · simp only [List.mem_append, List.mem_singleton] at hd'
      rcases hd' with h | h
      · exact hacc d' h
      · exact ⟨x, hl x (List.mem_cons_self ..), h⟩

/-- the specification's clause body, with `P k g` standing for "g is a branch gradient of slot k
    in the rest of the tape" -/
def clauseSpec (O : DOps α) (cv : Bool) (v : Nat → α) (c : Clause) (P : Nat → V3 α → Prop) (g : V3 α) : Prop :=
  if c.op = Op.min then
    (if O.lt (v c.a) (v c.b) = true then P c.a g
     else if O.lt (v c.b) (v c.a) = true then P c.b g
     else P c.a g ∨ P c.b g)
  else if c.op = Op.max then
    (if O.lt (v c.a) (v c.b) = true then P c.b g
     else if O.lt (v c.b) (v c.a) = true then P c.a g
     else P c.a g ∨ P c.b g)
  else if c.op.args = some 1 then
    ∃ ga, P c.a ga ∧ g = dk3 O cv c.op (v c.a) (v c.b) (v c.id) ga ga
  else
    ∃ ga gb, P c.a ga ∧ P c.b gb ∧ g = dk3 O cv c.op (v c.a) (v c.b) (v c.id) ga gb

theorem branchSet_cons_self (O : DOps α) (cv : Bool) (v : Nat → α) (seed : Nat → V3 α) (c : Clause)
    (rest : List Clause) (g : V3 α) :
    BranchSet O cv v seed (c :: rest) c.id g = clauseSpec O cv v c (BranchSet O cv v seed rest) g := by
  simp only [BranchSet, clauseSpec, if_true]

theorem branchSet_cons_other (O : DOps α) (cv : Bool) (v : Nat → α) (seed : Nat → V3 α) (c : Clause)
    (rest : List Clause) (k : Nat) (hk : k ≠ c.id) (g : V3 α) :
    BranchSet O cv v seed (c :: rest) k g = BranchSet O cv v seed rest k g := by
  simp only [BranchSet, hk, if_false]

theorem tie_branch (F : FeatOracle α) (isMin : Bool) (fa fb : List (Feat α)) (Pa Pb : V3 α → Prop)
    (ha : ∀ x ∈ fa, Pa x.deriv) (hb : ∀ x ∈ fb, Pb x.deriv) :
    ∀ x ∈ (pairs fa fb).flatMap (fun p => F.tiePair isMin p.1 p.2), Pa x.deriv ∨ Pb x.deriv := by
  intro x hx
  simp only [List.mem_flatMap] at hx
  obtain ⟨⟨p, q⟩, hp, hx⟩ := hx
  obtain ⟨h1, h2⟩ := mem_pairs fa fb p q hp
  rcases tiePair_deriv F isMin p q x hx with h | h
  · exact Or.inl (h ▸ ha p h1)
  · exact Or.inr (h ▸ hb q h2)

theorem raw_branch (O : DOps α) (F : FeatOracle α) (cv : Bool) (N simd cs : Nat)
    (c : Clause) (v : Nat → α) (f : Nat → List (Feat α)) (P : Nat → V3 α → Prop)
    (hf : ∀ k, ∀ x ∈ f k, P k x.deriv) :
    ∀ x ∈ (featClauseRaw O F cv N simd cs c v f).1, clauseSpec O cv v c P x.deriv := by
  intro x hx
  unfold featClauseRaw at hx
  unfold clauseSpec
  simp only at hx
  by_cases hmin : c.op = Op.min
  · simp only [hmin, if_true] at hx ⊢
    by_cases h1 : O.lt (v c.a) (v c.b) = true
    · simp only [h1, Bool.true_or, if_true] at hx ⊢
      exact hf _ _ hx
    · by_cases heq : c.a = c.b
      · have hb : (c.a == c.b) = true := by simp [heq]
        simp only [hb, Bool.or_true, if_true] at hx
        rw [if_neg h1]
        by_cases h2 : O.lt (v c.b) (v c.a) = true
        · rw [if_pos h2, ← heq]; exact hf _ _ hx
        · rw [if_neg h2]; exact Or.inl (hf _ _ hx)
      · have hb : (c.a == c.b) = false := by simp [heq]
        simp only [h1, hb, Bool.or_false, Bool.false_eq_true, if_false] at hx ⊢
        by_cases h2 : O.lt (v c.b) (v c.a) = true
        · simp only [h2, if_true] at hx ⊢
          exact hf _ _ hx
        · simp only [h2] at hx ⊢
          exact tie_branch F true (f c.a) (f c.b) (P c.a) (P c.b) (hf _) (hf _) x hx
  · simp only [hmin, if_false] at hx ⊢
    by_cases hmax : c.op = Op.max
    · simp only [hmax, if_true] at hx ⊢
      by_cases h1 : O.lt (v c.a) (v c.b) = true
      · simp only [h1, Bool.true_or, if_true] at hx ⊢
        exact hf _ _ hx
      · by_cases heq : c.a = c.b
        · have hb : (c.a == c.b) = true := by simp [heq]
          simp only [hb, Bool.or_true, if_true] at hx
          rw [if_neg h1]
          by_cases h2 : O.lt (v c.b) (v c.a) = true
          · rw [if_pos h2, heq]; exact hf _ _ hx
          · rw [if_neg h2]; exact Or.inr (hf _ _ hx)
        · have hb : (c.a == c.b) = false := by simp [heq]
          simp only [h1, hb, Bool.or_false, Bool.false_eq_true, if_false] at hx ⊢
          by_cases h2 : O.lt (v c.b) (v c.a) = true
          · simp only [h2, if_true] at hx ⊢
            exact hf _ _ hx
          · simp only [h2] at hx ⊢
            exact tie_branch F false (f c.a) (f c.b) (P c.a) (P c.b) (hf _) (hf _) x hx
    · simp only [hmax, if_false] at hx ⊢
      by_cases ha1 : c.op.args = some 1
      · simp only [ha1, if_true] at hx ⊢
        unfold featUnary at hx
        simp only [List.mem_map] at hx
        obtain ⟨f0, hf0, rfl⟩ := hx
        exact ⟨f0.deriv, hf _ _ hf0, rfl⟩
      · simp only [ha1, if_false] at hx ⊢
        by_cases ha2 : c.op.args = some 2
        · simp only [ha2, if_true] at hx
          unfold featBinary at hx
          simp only [List.mem_map] at hx
          obtain ⟨⟨f0, g0⟩, hp, rfl⟩ := hx
          obtain ⟨h1, h2⟩ := mem_pairs _ _ f0 g0 hp
          exact ⟨f0.deriv, g0.deriv, hf _ _ h1, hf _ _ h2, rfl⟩
        · simp only [ha2, if_false] at hx
          simp at hx

theorem featList_branch (O : DOps α) (F : FeatOracle α) (dedup : List (Feat α) → List (Feat α))
    (hdedup : ∀ l, ∀ g ∈ dedup l, ∃ f ∈ l, g.deriv = f.deriv)
    (cv : Bool) (N simd : Nat) (v : Nat → α)
    (seed : Nat → V3 α) (t : List Clause) (st : FeatState α)
    (hinit : ∀ k, ∀ f ∈ st.f k, f.deriv = seed k) :
    ∀ k, ∀ f ∈ (featList O F dedup cv N simd v t st).f k,
      BranchSet O cv v seed t k f.deriv := by
  induction t with
  | nil =>
    intro k f hf
    simp only [featList] at hf
    simp only [BranchSet]
    exact hinit k f hf
  | cons c rest ih =>
    intro k f hf
    simp only [featList] at hf
    by_cases hk : k = c.id
    · subst hk
      simp only [upd_same] at hf
      obtain ⟨f0, hf0, hd⟩ := hdedup _ f hf
      rw [branchSet_cons_self, hd]
      exact raw_branch O F cv N simd _ c v _ (BranchSet O cv v seed rest) ih f0 hf0
    · simp only [upd_other _ _ _ _ hk] at hf
      rw [branchSet_cons_other _ _ _ _ _ _ _ hk]
      exact ih k f hf

/-- one clause of the feature walk reads the value array only at its operands and output, and the
    feature lists only at its operands (it reads no other scratch at all) -/
theorem featClauseRaw_congr (O : DOps α) (F : FeatOracle α) (cv : Bool) (N simd cs : Nat)
    (c : Clause) (v v' : Nat → α) (f f' : Nat → List (Feat α))
    (hva : v c.a = v' c.a) (hvb : v c.b = v' c.b) (hvi : v c.id = v' c.id)
    (hfa : f c.a = f' c.a) (hfb : f c.b = f' c.b) :
    featClauseRaw O F cv N simd cs c v f = featClauseRaw O F cv N simd cs c v' f' := by
  unfold featClauseRaw featUnary featBinary
  simp only [hva, hvb, hvi, hfa, hfb]

/-- The feature walk reads the value array at the operands / outputs of the tape's clauses and
    the initial feature lists at unbanned non-clause slots only; `count_simd` is never read. -/
theorem featList_congr (O : DOps α) (F : FeatOracle α) (dedup : List (Feat α) → List (Feat α))
    (cv : Bool) (N simd : Nat) :
    ∀ (T : List Clause) (B : Nat → Prop), WF T → (∀ c ∈ T, c.op ≠ Op.oracle) →
      (∀ c ∈ T, ¬ B c.a ∧ ¬ B c.b) →
      ∀ (v v' : Nat → α) (st st' : FeatState α),
      (∀ c ∈ T, v c.a = v' c.a ∧ v c.b = v' c.b ∧ v c.id = v' c.id) →
      (∀ k, k ∉ ids T → ¬ B k → st.f k = st'.f k) → st.countSimd = st'.countSimd →
      (∀ k, ¬ B k → (featList O F dedup cv N simd v T st).f k = (featList O F dedup cv N simd v' T st').f k) ∧
      (featList O F dedup cv N simd v T st).countSimd = (featList O F dedup cv N simd v' T st').countSimd := by
  intro T
  induction T with
  | nil => intro B _ _ _ v v' st st' _ h hcs; exact ⟨fun k hk => h k (by simp [ids]) hk, hcs⟩
  | cons c rest ih =>
    intro B hwf hno hban v v' st st' hV hf hcs
    obtain ⟨_, hnotin, hself, hlater, hwf'⟩ := hwf
    have hcop := hno c (List.mem_cons_self ..)
    obtain ⟨hca, hcb⟩ := hself hcop
    obtain ⟨IH, IHcs⟩ := ih (fun j => B j ∨ j = c.id) hwf' (fun e he => hno e (List.mem_cons_of_mem _ he))
      (by
        intro e he
        obtain ⟨b1, b2⟩ := hban e (List.mem_cons_of_mem _ he)
        obtain ⟨h1, h2⟩ := hlater e he (hno e (List.mem_cons_of_mem _ he))
        exact ⟨fun h => h.elim b1 h1, fun h => h.elim b2 h2⟩)
      v v' st st' (fun e he => hV e (List.mem_cons_of_mem _ he))
      (by
        intro j hj hB
        refine hf j ?_ (fun h => hB (Or.inl h))
        intro hmem
        rcases List.mem_cons.mp hmem with h | h
        · exact hB (Or.inr h)
        · exact hj h) hcs
    obtain ⟨b1, b2⟩ := hban c (List.mem_cons_self ..)
    obtain ⟨v1, v2, v3⟩ := hV c (List.mem_cons_self ..)
    have hraw := featClauseRaw_congr O F cv N simd (featList O F dedup cv N simd v rest st).countSimd c v v'
      (featList O F dedup cv N simd v rest st).f (featList O F dedup cv N simd v' rest st').f v1 v2 v3
      (IH c.a (fun h => h.elim b1 hca)) (IH c.b (fun h => h.elim b2 hcb))
    simp only [featList]
    rw [hraw, IHcs]
    refine ⟨?_, rfl⟩
    intro k hk
    by_cases hkc : k = c.id
    · subst hkc; simp only [upd_same]
    · simp only [upd_other _ _ _ _ hkc]
      exact IH k (fun h => h.elim hk hkc)

end Libfive.FeatureProofs
