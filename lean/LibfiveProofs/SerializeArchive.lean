/-
  C08 helper lemmas, part 3: shapes and archives.  Core Lean only.
-/
import LibfiveProofs.SerializeTree

namespace Libfive.Serial

/-- the loaded shape `ls` is the stored shape `s`: same name and doc, no variable names, and its
    root is the loader's copy of `s`'s root (same stream position) -/
def ShapeMatch (ids trees : List NodeId) (s : Shape) (ls : LShape) : Prop :=
  ls.name = s.name ∧ ls.doc = s.doc ∧ ls.vars = [] ∧
  ∃ p : Nat, ids[p]? = some s.tree ∧ trees[p]? = some ls.tree

theorem get?_append_old {α : Type} (l e : List α) (y : α) (p : Nat) (h : l[p]? = some y) :
    (l ++ e)[p]? = some y := by
  have hp : p < l.length := (List.getElem?_eq_some_iff.mp h).1
  rw [List.getElem?_append_left hp]; exact h

theorem ShapeMatch.mono {ids trees : List NodeId} {s : Shape} {ls : LShape}
    (h : ShapeMatch ids trees s ls) (ie te : List NodeId) : ShapeMatch (ids ++ ie) (trees ++ te) s ls := by
  obtain ⟨h1, h2, h3, p, h4, h5⟩ := h
  exact ⟨h1, h2, h3, p, get?_append_old _ _ _ _ h4, get?_append_old _ _ _ _ h5⟩

theorem eq_dropLast_append {α : Type} : ∀ (l : List α) (a : α), l.getLast? = some a → l = l.dropLast ++ [a]
  | [], a, h => by simp at h
  | [x], a, h => by simp at h; simp [h]
  | x :: y :: r, a, h => by
    have h' : (y :: r).getLast? = some a := by simpa [List.getLast?_cons_cons] using h
    have ih := eq_dropLast_append (y :: r) a h'
    have : (x :: y :: r).dropLast = x :: (y :: r).dropLast := by simp [List.dropLast]
    rw [this, List.cons_append, ← ih]

/-- the walk offers the root last and only once (true of `Tree::walk`; checked on every run) -/
def RootLast (heap : NodeId → Node) (fuel : Nat) (root : NodeId) : Prop :=
  ∃ pre, walk heap fuel root = pre ++ [root] ∧ root ∉ pre

theorem serNodes_prefix {heap : NodeId → Node} : ∀ (w : List NodeId) {ids ids' : List NodeId} {b : List Byte},
    serNodes heap ids w = .ok (b, ids') → ∃ e, ids' = ids ++ e := by
  intro w
  induction w with
  | nil => intro ids ids' b h; simp [serNodes] at h; exact ⟨[], by simp [h.2]⟩
  | cons n w ih =>
    intro ids ids' b h
    simp only [serNodes] at h
    cases h1 : serNode heap ids n with
    | error e => simp [h1] at h
    | ok r =>
      obtain ⟨b1, ids1⟩ := r
      simp only [h1] at h
      cases h2 : serNodes heap ids1 w with
      | error e => simp [h2] at h
      | ok r2 =>
        obtain ⟨b2, ids2⟩ := r2
        simp only [h2] at h
        injection h with h; injection h with _ hi
        subst hi
        obtain ⟨e, he⟩ := ih h2
        rcases serNode_cases h1 with ⟨_, _, e1⟩ | ⟨_, e1, _⟩
        · exact ⟨e, by rw [he, e1]⟩
        · exact ⟨[n] ++ e, by rw [he, e1]; simp⟩

theorem serNodes_last {heap : NodeId → Node} (root : NodeId) :
    ∀ (pre : List NodeId) {ids ids' : List NodeId} {b : List Byte},
    serNodes heap ids (pre ++ [root]) = .ok (b, ids') → root ∉ ids → root ∉ pre →
    ids'.getLast? = some root := by
  intro pre
  induction pre with
  | nil =>
    intro ids ids' b h hr _
    simp only [List.nil_append, serNodes] at h
    cases h1 : serNode heap ids root with
    | error e => simp [h1] at h
    | ok r =>
      obtain ⟨b1, ids1⟩ := r
      simp only [h1] at h
      injection h with h; injection h with _ hi
      subst hi
      rcases serNode_cases h1 with ⟨hin, _, _⟩ | ⟨_, e1, _⟩
      · exact absurd hin hr
      · rw [e1]; simp
  | cons a pre ih =>
    intro ids ids' b h hr hp
    simp only [List.cons_append, serNodes] at h
    cases h1 : serNode heap ids a with
    | error e => simp [h1] at h
    | ok r =>
      obtain ⟨b1, ids1⟩ := r
      simp only [h1] at h
      cases h2 : serNodes heap ids1 (pre ++ [root]) with
      | error e => simp [h2] at h
      | ok r2 =>
        obtain ⟨b2, ids2⟩ := r2
        simp only [h2] at h
        injection h with h; injection h with _ hi
        subst hi
        have hra : root ≠ a := fun e => hp (by simp [e])
        have hrp : root ∉ pre := fun e => hp (by simp [e])
        apply ih h2 _ hrp
        rcases serNode_cases h1 with ⟨_, _, e1⟩ | ⟨_, e1, _⟩
        · rw [e1]; exact hr
        · rw [e1]; simp [hr, hra]

/-! ## computation lemmas for `readShape` -/

theorem varLoop_end (fuel : Nat) (rest : List Byte) (trees : List NodeId) (lheap : List Node) (log : List Err) :
    varLoop (fuel + 1) ⟨⟨END_OF_ITEM :: rest, false⟩, trees, lheap, log⟩ []
      = .ok ([], ⟨⟨rest, false⟩, trees, lheap, log⟩) := by
  simp [varLoop, IStream.get]

theorem readShape_ref (F : Folder) (name doc : List Byte) (p : Nat) (a : NodeId) (rest : List Byte)
    (trees : List NodeId) (lheap : List Node) (log : List Err)
    (hp : p < 4294967296) (ha : trees[p]? = some a) :
    readShape F TAG_REF ⟨⟨writeString name ++ (writeString doc ++ (u32le (UInt32.ofNat p)
        ++ END_OF_ITEM :: rest)), false⟩, trees, lheap, log⟩
      = .ok ({ tree := a, name := name, doc := doc, vars := [] }, ⟨⟨rest, false⟩, trees, lheap, log⟩) := by
  have ht : (TAG_REF = TAG_FULL ∨ TAG_REF = TAG_REF) := Or.inr rfl
  simp [readShape, DState.checkPos, DState.says, readString_write, readU32_u32le, treeAt,
    u32_toNat_ofNat p hp, ha, varLoop_end]

theorem tag_full_ne_ref : TAG_FULL ≠ TAG_REF := by decide

theorem readShape_full (F : Folder) (name doc data rest : List Byte) (t : NodeId)
    (trees trees' : List NodeId) (lheap lheap' : List Node) (log : List Err)
    (hloop : clauseLoop F (data.length + 1) ⟨⟨data, false⟩, trees, lheap, log⟩
      = .ok (false, ⟨⟨END_OF_ITEM :: rest, false⟩, trees', lheap', log⟩))
    (hlast : trees'.getLast? = some t) :
    readShape F TAG_FULL ⟨⟨writeString name ++ (writeString doc ++ data), false⟩, trees, lheap, log⟩
      = .ok ({ tree := t, name := name, doc := doc, vars := [] }, ⟨⟨rest, false⟩, trees', lheap', log⟩) := by
  simp [readShape, DState.checkPos, DState.says, readString_write, tag_full_ne_ref, hloop, hlast, varLoop_end]

/-- **one shape.** -/
theorem readShape_serShape (F : Folder) (heap : NodeId → Node) (hax : AxesUnique heap) (fuelW : Nat)
    (s : Shape) (ids ids' : List NodeId) (bytes rest : List Byte)
    (trees : List NodeId) (lheap : List Node) (log : List Err)
    (hser : serShape heap fuelW ids s = .ok (bytes, ids')) (hv : s.vars = [])
    (hpl : ∀ n ∈ walk heap fuelW s.tree, nodePlain heap n = true)
    (hrl : RootLast heap fuelW s.tree) (hsz : ids'.length < 4294967296)
    (hinv : Inv heap ids lheap trees) :
    ∃ (tag : Byte) (data : List Byte) (ie te : List NodeId) (le : List Node) (ls : LShape),
      bytes = tag :: data ∧ ids' = ids ++ ie ∧
      readShape F tag ⟨⟨data ++ rest, false⟩, trees, lheap, log⟩
        = .ok (ls, ⟨⟨rest, false⟩, trees ++ te, lheap ++ le, log⟩) ∧
      Inv heap ids' (lheap ++ le) (trees ++ te) ∧ ShapeMatch ids' (trees ++ te) s ls := by
  cases hpos : posOf ids s.tree with
  | some p =>
    simp only [serShape, hpos, hv, serVars, List.append_nil] at hser
    injection hser with hser; injection hser with hb hi
    subst hb; subst hi
    have hp1 : ids[p]? = some s.tree := posOf_some hpos
    have hp2 : p < ids.length := posOf_lt hpos
    have hp3 : p < trees.length := by rw [hinv.len]; exact hp2
    have ha : trees[p]? = some trees[p] := by simp [hp3]
    refine ⟨TAG_REF, writeString s.name ++ (writeString s.doc ++ (u32le (UInt32.ofNat p) ++ [END_OF_ITEM])),
      [], [], [], { tree := trees[p], name := s.name, doc := s.doc, vars := [] },
      by simp, by simp, ?_, by simpa using hinv, ?_⟩
    · have := readShape_ref F s.name s.doc p trees[p] rest trees lheap log (by omega) ha
      simpa [List.append_assoc] using this
    · exact ⟨rfl, rfl, rfl, p, hp1, by simpa using ha⟩
  | none =>
    simp only [serShape, hpos, hv, serVars, List.append_nil] at hser
    cases hst : serTree heap fuelW ids s.tree with
    | error e => simp [hst] at hser
    | ok r =>
      obtain ⟨bs, ids1⟩ := r
      simp only [hst] at hser
      injection hser with hser; injection hser with hb hi
      subst hb; subst hi
      have hnotin : s.tree ∉ ids := by
        intro hin
        obtain ⟨q, hq⟩ := posOf_isSome hin
        rw [hq] at hpos; cases hpos
      obtain ⟨pre, hw, hpre⟩ := hrl
      have hst' : serNodes heap ids (walk heap fuelW s.tree) = .ok (bs, ids1) := hst
      obtain ⟨ie, hie⟩ := serNodes_prefix _ hst'
      have hlastId : ids1.getLast? = some s.tree := by
        rw [hw] at hst'; exact serNodes_last s.tree pre hst' hnotin hpre
      obtain ⟨te, le, hloop, hinv1⟩ := clauseLoop_serNodes F heap hax (walk heap fuelW s.tree) ids ids1 bs
        (END_OF_ITEM :: rest) trees lheap log ((bs ++ END_OF_ITEM :: END_OF_ITEM :: rest).length + 1)
        hst' hpl hsz hinv (by simp)
      -- the last entry of the loader's table is the copy of the root
      have hlen : (trees ++ te).length = ids1.length := hinv1.len
      have hne : ids1 ≠ [] := by intro e; rw [e] at hlastId; simp at hlastId
      have hpos1 : 0 < ids1.length := List.length_pos_iff.mpr hne
      have hidx : ids1[ids1.length - 1]? = some s.tree := by
        rw [List.getLast?_eq_getElem?] at hlastId; exact hlastId
      have hlt : ids1.length - 1 < (trees ++ te).length := by omega
      obtain ⟨t, ht⟩ : ∃ t, (trees ++ te)[ids1.length - 1]? = some t := ⟨_, List.getElem?_eq_getElem hlt⟩
      have htl : (trees ++ te).getLast? = some t := by
        rw [List.getLast?_eq_getElem?, hlen]; exact ht
      refine ⟨TAG_FULL, writeString s.name ++ (writeString s.doc ++ (bs ++ [END_OF_ITEM, END_OF_ITEM])),
        ie, te, le, { tree := t, name := s.name, doc := s.doc, vars := [] },
        by simp, hie, ?_, hinv1, ?_⟩
      · have := readShape_full F s.name s.doc (bs ++ END_OF_ITEM :: END_OF_ITEM :: rest) rest _
          trees (trees ++ te) lheap (lheap ++ le) log hloop htl
        simpa [List.append_assoc] using this
      · exact ⟨rfl, rfl, rfl, ids1.length - 1, hidx, ht⟩

/-- pointwise relation between the stored and the loaded shape lists (same length, same order) -/
inductive AllMatch (R : Shape → LShape → Prop) : List Shape → List LShape → Prop
  | nil : AllMatch R [] []
  | cons {s : Shape} {ls : LShape} {ss : List Shape} {lss : List LShape} :
      R s ls → AllMatch R ss lss → AllMatch R (s :: ss) (ls :: lss)

/-- hypotheses on one shape of the archive -/
def ShapeOK (heap : NodeId → Node) (fuelW : Nat) (s : Shape) : Prop :=
  s.vars = [] ∧ (∀ n ∈ walk heap fuelW s.tree, nodePlain heap n = true) ∧ RootLast heap fuelW s.tree

/-- **shape lists.** -/
theorem readShapes_serShapes (F : Folder) (heap : NodeId → Node) (hax : AxesUnique heap) (fuelW : Nat) :
    ∀ (shapes : List Shape) (ids ids' : List NodeId) (bytes : List Byte)
      (trees : List NodeId) (lheap : List Node) (log : List Err) (fuel : Nat),
    serShapes heap fuelW ids shapes = .ok (bytes, ids') →
    (∀ s ∈ shapes, ShapeOK heap fuelW s) → ids'.length < 4294967296 →
    Inv heap ids lheap trees → bytes.length + 1 ≤ fuel →
    ∃ (ie te : List NodeId) (le : List Node) (lshapes : List LShape),
      ids' = ids ++ ie ∧
      readShapes F fuel ⟨⟨bytes, false⟩, trees, lheap, log⟩
        = .ok (lshapes, ⟨⟨[], true⟩, trees ++ te, lheap ++ le, log⟩) ∧
      Inv heap ids' (lheap ++ le) (trees ++ te) ∧
      AllMatch (ShapeMatch ids' (trees ++ te)) shapes lshapes := by
  intro shapes
  induction shapes with
  | nil =>
    intro ids ids' bytes trees lheap log fuel h _ _ hinv hf
    simp [serShapes] at h
    obtain ⟨hb, hi⟩ := h
    subst hb; subst hi
    cases fuel with
    | zero => simp at hf
    | succ f =>
      exact ⟨[], [], [], [], by simp, by simp [readShapes, IStream.get], by simpa using hinv, AllMatch.nil⟩
  | cons s shapes ih =>
    intro ids ids' bytes trees lheap log fuel h hok hsz hinv hf
    simp only [serShapes] at h
    cases h1 : serShape heap fuelW ids s with
    | error e => simp [h1] at h
    | ok r =>
      obtain ⟨b1, ids1⟩ := r
      simp only [h1] at h
      cases h2 : serShapes heap fuelW ids1 shapes with
      | error e => simp [h2] at h
      | ok r2 =>
        obtain ⟨b2, ids2⟩ := r2
        simp only [h2] at h
        injection h with h; injection h with hb hi
        subst hb; subst hi
        obtain ⟨hv, hpl, hrl⟩ := hok s (by simp)
        have hok' : ∀ s' ∈ shapes, ShapeOK heap fuelW s' := fun s' hs' => hok s' (by simp [hs'])
        cases fuel with
        | zero => simp at hf
        | succ f =>
          -- sizes: the id table only grows
          have hgrow : ∀ (l : List Shape) (i i' : List NodeId) (b : List Byte),
              serShapes heap fuelW i l = .ok (b, i') → i.length ≤ i'.length := by
            intro l
            induction l with
            | nil => intro i i' b hh; simp [serShapes] at hh; rw [hh.2]; exact Nat.le_refl _
            | cons s0 l ihl =>
              intro i i' b hh
              simp only [serShapes] at hh
              cases g1 : serShape heap fuelW i s0 with
              | error e => simp [g1] at hh
              | ok q =>
                obtain ⟨c1, j1⟩ := q
                simp only [g1] at hh
                cases g2 : serShapes heap fuelW j1 l with
                | error e => simp [g2] at hh
                | ok q2 =>
                  obtain ⟨c2, j2⟩ := q2
                  simp only [g2] at hh
                  injection hh with hh; injection hh with _ hj
                  subst hj
                  have := ihl j1 j2 c2 g2
                  have hj1 : i.length ≤ j1.length := by
                    simp only [serShape] at g1
                    split at g1
                    · injection g1 with g1; injection g1 with _ e; rw [← e]; exact Nat.le_refl _
                    · split at g1
                      · cases g1
                      · rename_i bs ids' hst
                        injection g1 with g1; injection g1 with _ e; rw [← e]
                        exact serNodes_len _ hst
                  omega
          have hsz1 : ids1.length < 4294967296 := Nat.lt_of_le_of_lt (hgrow shapes ids1 ids2 b2 h2) hsz
          obtain ⟨tag, data, ie1, te1, le1, ls, hb1, hie1, hread, hinv1, hm1⟩ :=
            readShape_serShape F heap hax fuelW s ids ids1 b1 b2 trees lheap log h1 hv hpl hrl hsz1 hinv
          subst hb1
          have hf' : b2.length + 1 ≤ f := by simp at hf; omega
          obtain ⟨ie2, te2, le2, lss, hie2, hreads, hinv2, hm2⟩ :=
            ih ids1 ids2 b2 (trees ++ te1) (lheap ++ le1) log f h2 hok' hsz hinv1 hf'
          refine ⟨ie1 ++ ie2, te1 ++ te2, le1 ++ le2, ls :: lss, by rw [hie2, hie1]; simp, ?_,
            by simpa [List.append_assoc] using hinv2, ?_⟩
          · simp only [List.cons_append, readShapes, IStream.get, Bool.false_eq_true, if_false]
            rw [hread]
            simp only
            rw [hreads]
            simp [List.append_assoc]
          · refine AllMatch.cons ?_ (by simpa [List.append_assoc] using hm2)
            have := hm1.mono ie2 te2
            rw [← hie2] at this
            simpa [List.append_assoc] using this

end Libfive.Serial
