/-
  C08 helper lemmas, part 3: shapes and archives.  Core Lean only.
-/
import LibfiveProofs.SerializeTree

namespace Libfive.Serial

/-- what the variable section of a shape loads as, given the id table `ids` and the loader's table
    `trees` at the moment the section is written: every named variable that is in the id table, in
    order, bound to the loader's copy of that variable (same stream position), under its name -/
def varsOf (ids trees : List NodeId) : List (NodeId × List Byte) → List (NodeId × List Byte)
  | [] => []
  | (v, nm) :: r =>
    match posOf ids v with
    | some p =>
      (match trees[p]? with
       | some m => (m, nm) :: varsOf ids trees r
       | none => varsOf ids trees r)
    | none => varsOf ids trees r

/-- the loaded shape `ls` is the stored shape `s`: same name and doc; and, with `ids1`/`trees1` the
    tables as they were when the shape was finished (prefixes of the final tables), its root is the
    loader's copy of `s`'s root (same stream position) and its variable map is `varsOf` of `s.vars` -/
def ShapeMatch (ids trees : List NodeId) (s : Shape) (ls : LShape) : Prop :=
  ls.name = s.name ∧ ls.doc = s.doc ∧
  ∃ (ids1 trees1 ie te : List NodeId), ids = ids1 ++ ie ∧ trees = trees1 ++ te ∧
    (∃ p : Nat, ids1[p]? = some s.tree ∧ trees1[p]? = some ls.tree) ∧
    ls.vars = varsOf ids1 trees1 s.vars

theorem get?_append_old {α : Type} (l e : List α) (y : α) (p : Nat) (h : l[p]? = some y) :
    (l ++ e)[p]? = some y := by
  have hp : p < l.length := (List.getElem?_eq_some_iff.mp h).1
  rw [List.getElem?_append_left hp]; exact h

theorem ShapeMatch.mono {ids trees : List NodeId} {s : Shape} {ls : LShape}
    (h : ShapeMatch ids trees s ls) (ie te : List NodeId) : ShapeMatch (ids ++ ie) (trees ++ te) s ls := by
  obtain ⟨h1, h2, ids1, trees1, ie1, te1, e1, e2, h3, h4⟩ := h
  exact ⟨h1, h2, ids1, trees1, ie1 ++ ie, te1 ++ te, by rw [e1, List.append_assoc],
    by rw [e2, List.append_assoc], h3, h4⟩

theorem eq_dropLast_append {α : Type} : ∀ (l : List α) (a : α), l.getLast? = some a → l = l.dropLast ++ [a]
  | [], a, h => by simp at h
  | [x], a, h => by simp at h; simp [h]
  | x :: y :: r, a, h => by
    have h' : (y :: r).getLast? = some a := by simpa [List.getLast?_cons_cons] using h
    have ih := eq_dropLast_append (y :: r) a h'
    have : (x :: y :: r).dropLast = x :: (y :: r).dropLast := by simp [List.dropLast]
    rw [this, List.cons_append, ← ih]

/-- the walk offers the root last and only once (true of `Tree::walk`; checked on every run) -/
def RootLast (heap : NodeId → Node) (fuel : Nat) (root : NodeId) : Prop :=
  ∃ pre, walk heap fuel root = pre ++ [root] ∧ root ∉ pre

theorem serNodes_prefix {heap : NodeId → Node} : ∀ (w : List NodeId) {ids ids' : List NodeId} {b : List Byte},
    serNodes heap ids w = .ok (b, ids') → ∃ e, ids' = ids ++ e := by
  intro w
  induction w with
  | nil => intro ids ids' b h; simp [serNodes] at h; exact ⟨[], by simp [h.2]⟩
  | cons n w ih =>
    intro ids ids' b h
    simp only [serNodes] at h
    cases h1 : serNode heap ids n with
    | error e => simp [h1] at h
    | ok r =>
      obtain ⟨b1, ids1⟩ := r
      simp only [h1] at h
      cases h2 : serNodes heap ids1 w with
      | error e => simp [h2] at h
      | ok r2 =>
        obtain ⟨b2, ids2⟩ := r2
        simp only [h2] at h
        injection h with h; injection h with _ hi
        subst hi
        obtain ⟨e, he⟩ := ih h2
        rcases serNode_cases h1 with ⟨_, _, e1⟩ | ⟨_, e1, _⟩
        · exact ⟨e, by rw [he, e1]⟩
        · exact ⟨[n] ++ e, by rw [he, e1]; simp⟩

theorem serNodes_last {heap : NodeId → Node} (root : NodeId) :
    ∀ (pre : List NodeId) {ids ids' : List NodeId} {b : List Byte},
    serNodes heap ids (pre ++ [root]) = .ok (b, ids') → root ∉ ids → root ∉ pre →
    ids'.getLast? = some root := by
  intro pre
  induction pre with
  | nil =>
    intro ids ids' b h hr _
    simp only [List.nil_append, serNodes] at h
    cases h1 : serNode heap ids root with
    | error e => simp [h1] at h
    | ok r =>
      obtain ⟨b1, ids1⟩ := r
      simp only [h1] at h
      injection h with h; injection h with _ hi
      subst hi
      rcases serNode_cases h1 with ⟨hin, _, _⟩ | ⟨_, e1, _⟩
      · exact absurd hin hr
      · rw [e1]; simp
  | cons a pre ih =>
    intro ids ids' b h hr hp
    simp only [List.cons_append, serNodes] at h
    cases h1 : serNode heap ids a with
    | error e => simp [h1] at h
    | ok r =>
      obtain ⟨b1, ids1⟩ := r
      simp only [h1] at h
      cases h2 : serNodes heap ids1 (pre ++ [root]) with
      | error e => simp [h2] at h
      | ok r2 =>
        obtain ⟨b2, ids2⟩ := r2
        simp only [h2] at h
        injection h with h; injection h with _ hi
        subst hi
        have hra : root ≠ a := fun e => hp (by simp [e])
        have hrp : root ∉ pre := fun e => hp (by simp [e])
        apply ih h2 _ hrp
        rcases serNode_cases h1 with ⟨_, _, e1⟩ | ⟨_, e1, _⟩
        · rw [e1]; exact hr
        · rw [e1]; simp [hr, hra]

/-! ## computation lemmas for `readShape` -/

theorem varLoop_end (fuel : Nat) (rest : List Byte) (trees : List NodeId) (lheap : List Node) (log : List Err)
    (acc : List (NodeId × List Byte)) :
    varLoop (fuel + 1) ⟨⟨END_OF_ITEM :: rest, false⟩, trees, lheap, log⟩ acc
      = .ok (acc, ⟨⟨rest, false⟩, trees, lheap, log⟩) := by
  simp [varLoop, IStream.peek, IStream.get]

theorem peek_writeString (s data : List Byte) :
    IStream.peek ⟨writeString s ++ data, false⟩ = (some QUOTE, ⟨writeString s ++ data, false⟩) := by
  simp [IStream.peek, writeString]

theorem quote_ne_end : QUOTE ≠ END_OF_ITEM := by decide

/-- one entry of the variable section -/
theorem varLoop_entry (fuel : Nat) (name : List Byte) (p : Nat) (hp : p < 4294967296) (m : NodeId)
    (data : List Byte) (trees : List NodeId) (lheap : List Node) (log : List Err)
    (acc : List (NodeId × List Byte)) (ha : trees[p]? = some m) (hfresh : acc.any (·.1 == m) = false) :
    varLoop (fuel + 1) ⟨⟨writeString name ++ (u32le (UInt32.ofNat p) ++ data), false⟩, trees, lheap, log⟩ acc
      = varLoop fuel ⟨⟨data, false⟩, trees, lheap, log⟩ (acc ++ [(m, name)]) := by
  rw [varLoop]
  simp only [Bool.false_eq_true, if_false, peek_writeString, quote_ne_end, readString_write, DState.says,
    List.append_nil, readU32_u32le, treeAt, u32_toNat_ofNat p hp, ha, hfresh, varsInsert]

theorem writeString_len (s : List Byte) : 2 ≤ (writeString s).length := by simp [writeString]

/-- **variable section.** What `serVars` writes against the id table `ids` is read back by the
    (fixed) variable loop as `varsOf`: no message, stream exactly after the END_OF_ITEM. -/
theorem varLoop_serVars {heap : NodeId → Node} {ids trees : List NodeId} {lheap : List Node}
    (hinv : Inv heap ids lheap trees) (hsz : ids.length < 4294967296) :
    ∀ (vs acc : List (NodeId × List Byte)) (rest : List Byte) (log : List Err) (fuel : Nat),
    (vs.map (·.1)).Nodup →
    (∀ (v : NodeId) (nm : List Byte) (p : Nat) (m : NodeId), (v, nm) ∈ vs → posOf ids v = some p →
        trees[p]? = some m → acc.any (·.1 == m) = false) →
    (serVars ids vs).length + 1 ≤ fuel →
    varLoop fuel ⟨⟨serVars ids vs ++ END_OF_ITEM :: rest, false⟩, trees, lheap, log⟩ acc
      = .ok (acc ++ varsOf ids trees vs, ⟨⟨rest, false⟩, trees, lheap, log⟩) := by
  intro vs
  induction vs with
  | nil =>
    intro acc rest log fuel _ _ hf
    cases fuel with
    | zero => simp at hf
    | succ f => simpa [serVars, varsOf] using varLoop_end f rest trees lheap log acc
  | cons x r ih =>
    obtain ⟨v, nm⟩ := x
    intro acc rest log fuel hnd hacc hf
    have hnd0 : (v :: r.map (·.1)).Nodup := hnd
    have hnd' := List.nodup_cons.mp hnd0
    have hacc' : ∀ (v' : NodeId) (nm' : List Byte) (p : Nat) (m : NodeId), (v', nm') ∈ r → posOf ids v' = some p →
        trees[p]? = some m → acc.any (·.1 == m) = false :=
      fun v' nm' p m hm => hacc v' nm' p m (by simp [hm])
    cases hpos : posOf ids v with
    | none =>
      have := ih acc rest log fuel hnd'.2 hacc' (by simpa [serVars, hpos] using hf)
      simpa [serVars, varsOf, hpos] using this
    | some p =>
      have hp1 : ids[p]? = some v := posOf_some hpos
      have hp2 : p < ids.length := posOf_lt hpos
      have hp3 : p < trees.length := by rw [hinv.len]; exact hp2
      have ha : trees[p]? = some trees[p] := by simp [hp3]
      have hlen := writeString_len nm
      cases fuel with
      | zero => simp at hf
      | succ f =>
        have hf' : (serVars ids r).length + 1 ≤ f := by
          simp [serVars, hpos, u32le] at hf; omega
        have hfresh := hacc v nm p trees[p] (by simp) hpos ha
        have hacc2 : ∀ (v' : NodeId) (nm' : List Byte) (p' : Nat) (m' : NodeId), (v', nm') ∈ r →
            posOf ids v' = some p' → trees[p']? = some m' →
            (acc ++ [(trees[p], nm)]).any (·.1 == m') = false := by
          intro v' nm' p' m' hm hp' hm'
          have h1 := hacc' v' nm' p' m' hm hp' hm'
          have hne : trees[p] ≠ m' := by
            intro e
            have : p = p' := hinv.inj p p' m' (e ▸ ha) hm'
            subst this
            have hv : ids[p]? = some v' := posOf_some hp'
            rw [hp1] at hv
            have : v = v' := Option.some.inj hv
            exact hnd'.1 (by rw [this]; exact List.mem_map.mpr ⟨(v', nm'), hm, rfl⟩)
          simp [List.any_append, h1, hne]
        have step := varLoop_entry f nm p (by omega) trees[p] (serVars ids r ++ END_OF_ITEM :: rest)
          trees lheap log acc ha hfresh
        have := ih (acc ++ [(trees[p], nm)]) rest log f hnd'.2 hacc2 hf'
        simp only [serVars, hpos, varsOf, ha, List.append_assoc] at *
        rw [step, this]
        simp

theorem readShape_ref (F : Folder) (name doc : List Byte) (p : Nat) (a : NodeId) (vdata rest : List Byte)
    (trees : List NodeId) (lheap : List Node) (log : List Err) (lv : List (NodeId × List Byte))
    (hp : p < 4294967296) (ha : trees[p]? = some a)
    (hv : varLoop ((u32le (UInt32.ofNat p) ++ vdata).length + 1) ⟨⟨vdata, false⟩, trees, lheap, log⟩ []
      = .ok (lv, ⟨⟨rest, false⟩, trees, lheap, log⟩)) :
    readShape F TAG_REF ⟨⟨writeString name ++ (writeString doc ++ (u32le (UInt32.ofNat p) ++ vdata)), false⟩,
        trees, lheap, log⟩
      = .ok ({ tree := a, name := name, doc := doc, vars := lv }, ⟨⟨rest, false⟩, trees, lheap, log⟩) := by
  simp only [readShape, DState.checkPos, DState.says, readString_write, readU32_u32le, treeAt,
    u32_toNat_ofNat p hp, ha, Bool.false_eq_true, if_false, List.append_nil, or_true, if_true, hv]

theorem tag_full_ne_ref : TAG_FULL ≠ TAG_REF := by decide

theorem readShape_full (F : Folder) (name doc data vdata rest : List Byte) (t : NodeId)
    (trees trees' : List NodeId) (lheap lheap' : List Node) (log : List Err) (lv : List (NodeId × List Byte))
    (hloop : clauseLoop F (data.length + 1) ⟨⟨data, false⟩, trees, lheap, log⟩
      = .ok (false, ⟨⟨vdata, false⟩, trees', lheap', log⟩))
    (hlast : trees'.getLast? = some t)
    (hv : varLoop (data.length + 1) ⟨⟨vdata, false⟩, trees', lheap', log⟩ []
      = .ok (lv, ⟨⟨rest, false⟩, trees', lheap', log⟩)) :
    readShape F TAG_FULL ⟨⟨writeString name ++ (writeString doc ++ data), false⟩, trees, lheap, log⟩
      = .ok ({ tree := t, name := name, doc := doc, vars := lv }, ⟨⟨rest, false⟩, trees', lheap', log⟩) := by
  simp only [readShape, DState.checkPos, DState.says, readString_write, tag_full_ne_ref, hloop, hlast,
    Bool.false_eq_true, if_false, List.append_nil, true_or, if_true, hv]

/-- **one shape.** -/
theorem readShape_serShape (F : Folder) (heap : NodeId → Node) (hax : AxesUnique heap) (fuelW : Nat)
    (s : Shape) (ids ids' : List NodeId) (bytes rest : List Byte)
    (trees : List NodeId) (lheap : List Node) (log : List Err)
    (hser : serShape heap fuelW ids s = .ok (bytes, ids')) (hv : (s.vars.map (·.1)).Nodup)
    (hpl : ∀ n ∈ walk heap fuelW s.tree, nodePlain heap n = true)
    (hrl : RootLast heap fuelW s.tree) (hsz : ids'.length < 4294967296)
    (hinv : Inv heap ids lheap trees) :
    ∃ (tag : Byte) (data : List Byte) (ie te : List NodeId) (le : List Node) (ls : LShape),
      bytes = tag :: data ∧ ids' = ids ++ ie ∧
      readShape F tag ⟨⟨data ++ rest, false⟩, trees, lheap, log⟩
        = .ok (ls, ⟨⟨rest, false⟩, trees ++ te, lheap ++ le, log⟩) ∧
      Inv heap ids' (lheap ++ le) (trees ++ te) ∧ ShapeMatch ids' (trees ++ te) s ls := by
  cases hpos : posOf ids s.tree with
  | some p =>
    simp only [serShape, hpos] at hser
    injection hser with hser; injection hser with hb hi
    subst hb; subst hi
    have hp1 : ids[p]? = some s.tree := posOf_some hpos
    have hp2 : p < ids.length := posOf_lt hpos
    have hp3 : p < trees.length := by rw [hinv.len]; exact hp2
    have ha : trees[p]? = some trees[p] := by simp [hp3]
    have hvars := varLoop_serVars hinv hsz s.vars [] rest log
      ((u32le (UInt32.ofNat p) ++ (serVars ids s.vars ++ END_OF_ITEM :: rest)).length + 1) hv
      (by intros; rfl) (by simp; omega)
    refine ⟨TAG_REF, writeString s.name ++ (writeString s.doc ++ (u32le (UInt32.ofNat p) ++
        (serVars ids s.vars ++ [END_OF_ITEM]))),
      [], [], [], { tree := trees[p], name := s.name, doc := s.doc, vars := varsOf ids trees s.vars },
      by simp, by simp, ?_, by simpa using hinv, ?_⟩
    · have := readShape_ref F s.name s.doc p trees[p] (serVars ids s.vars ++ END_OF_ITEM :: rest) rest
        trees lheap log _ (by omega) ha (by simpa using hvars)
      simpa [List.append_assoc] using this
    · exact ⟨rfl, rfl, ids, trees, [], [], by simp, by simp, ⟨p, hp1, ha⟩, rfl⟩
  | none =>
    simp only [serShape, hpos] at hser
    cases hst : serTree heap fuelW ids s.tree with
    | error e => simp [hst] at hser
    | ok r =>
      obtain ⟨bs, ids1⟩ := r
      simp only [hst] at hser
      injection hser with hser; injection hser with hb hi
      subst hb; subst hi
      have hnotin : s.tree ∉ ids := by
        intro hin
        obtain ⟨q, hq⟩ := posOf_isSome hin
        rw [hq] at hpos; cases hpos
      obtain ⟨pre, hw, hpre⟩ := hrl
      have hst' : serNodes heap ids (walk heap fuelW s.tree) = .ok (bs, ids1) := hst
      obtain ⟨ie, hie⟩ := serNodes_prefix _ hst'
      have hlastId : ids1.getLast? = some s.tree := by
        rw [hw] at hst'; exact serNodes_last s.tree pre hst' hnotin hpre
      let vdata := serVars ids1 s.vars ++ END_OF_ITEM :: rest
      let data := bs ++ END_OF_ITEM :: vdata
      obtain ⟨te, le, hloop, hinv1⟩ := clauseLoop_serNodes F heap hax (walk heap fuelW s.tree) ids ids1 bs
        vdata trees lheap log (data.length + 1) hst' hpl hsz hinv (by simp [data])
      have hlen : (trees ++ te).length = ids1.length := hinv1.len
      have hne : ids1 ≠ [] := by intro e; rw [e] at hlastId; simp at hlastId
      have hpos1 : 0 < ids1.length := List.length_pos_iff.mpr hne
      have hidx : ids1[ids1.length - 1]? = some s.tree := by
        rw [List.getLast?_eq_getElem?] at hlastId; exact hlastId
      have hlt : ids1.length - 1 < (trees ++ te).length := by omega
      obtain ⟨t, ht⟩ : ∃ t, (trees ++ te)[ids1.length - 1]? = some t := ⟨_, List.getElem?_eq_getElem hlt⟩
      have htl : (trees ++ te).getLast? = some t := by
        rw [List.getLast?_eq_getElem?, hlen]; exact ht
      have hvars := varLoop_serVars hinv1 hsz s.vars [] rest log (data.length + 1) hv
        (by intros; rfl) (by simp [data, vdata]; omega)
      refine ⟨TAG_FULL, writeString s.name ++ (writeString s.doc ++ (bs ++ [END_OF_ITEM] ++
          (serVars ids1 s.vars ++ [END_OF_ITEM]))),
        ie, te, le, { tree := t, name := s.name, doc := s.doc, vars := varsOf ids1 (trees ++ te) s.vars },
        by simp, hie, ?_, hinv1, ?_⟩
      · have := readShape_full F s.name s.doc data vdata rest t
          trees (trees ++ te) lheap (lheap ++ le) log _ hloop htl (by simpa using hvars)
        simpa [data, vdata, List.append_assoc] using this
      · exact ⟨rfl, rfl, ids1, trees ++ te, [], [], by simp, by simp, ⟨ids1.length - 1, hidx, ht⟩, rfl⟩

/-- pointwise relation between the stored and the loaded shape lists (same length, same order) -/
inductive AllMatch (R : Shape → LShape → Prop) : List Shape → List LShape → Prop
  | nil : AllMatch R [] []
  | cons {s : Shape} {ls : LShape} {ss : List Shape} {lss : List LShape} :
      R s ls → AllMatch R ss lss → AllMatch R (s :: ss) (ls :: lss)

/-- hypotheses on one shape of the archive -/
def ShapeOK (heap : NodeId → Node) (fuelW : Nat) (s : Shape) : Prop :=
  (s.vars.map (·.1)).Nodup ∧ (∀ n ∈ walk heap fuelW s.tree, nodePlain heap n = true) ∧ RootLast heap fuelW s.tree

/-- **shape lists.** -/
theorem readShapes_serShapes (F : Folder) (heap : NodeId → Node) (hax : AxesUnique heap) (fuelW : Nat) :
    ∀ (shapes : List Shape) (ids ids' : List NodeId) (bytes : List Byte)
      (trees : List NodeId) (lheap : List Node) (log : List Err) (fuel : Nat),
    serShapes heap fuelW ids shapes = .ok (bytes, ids') →
    (∀ s ∈ shapes, ShapeOK heap fuelW s) → ids'.length < 4294967296 →
    Inv heap ids lheap trees → bytes.length + 1 ≤ fuel →
    ∃ (ie te : List NodeId) (le : List Node) (lshapes : List LShape),
      ids' = ids ++ ie ∧
      readShapes F fuel ⟨⟨bytes, false⟩, trees, lheap, log⟩
        = .ok (lshapes, ⟨⟨[], true⟩, trees ++ te, lheap ++ le, log⟩) ∧
      Inv heap ids' (lheap ++ le) (trees ++ te) ∧
      AllMatch (ShapeMatch ids' (trees ++ te)) shapes lshapes := by
  intro shapes
  induction shapes with
  | nil =>
    intro ids ids' bytes trees lheap log fuel h _ _ hinv hf
    simp [serShapes] at h
    obtain ⟨hb, hi⟩ := h
    subst hb; subst hi
    cases fuel with
    | zero => simp at hf
    | succ f =>
      exact ⟨[], [], [], [], by simp, by simp [readShapes, IStream.get], by simpa using hinv, AllMatch.nil⟩
  | cons s shapes ih =>
    intro ids ids' bytes trees lheap log fuel h hok hsz hinv hf
    simp only [serShapes] at h
    cases h1 : serShape heap fuelW ids s with
    | error e => simp [h1] at h
    | ok r =>
      obtain ⟨b1, ids1⟩ := r
      simp only [h1] at h
      cases h2 : serShapes heap fuelW ids1 shapes with
      | error e => simp [h2] at h
      | ok r2 =>
        obtain ⟨b2, ids2⟩ := r2
        simp only [h2] at h
        injection h with h; injection h with hb hi
        subst hb; subst hi
        obtain ⟨hv, hpl, hrl⟩ := hok s (by simp)
        have hok' : ∀ s' ∈ shapes, ShapeOK heap fuelW s' := fun s' hs' => hok s' (by simp [hs'])
        cases fuel with
        | zero => simp at hf
        | succ f =>
          -- sizes: the id table only grows
          have hgrow : ∀ (l : List Shape) (i i' : List NodeId) (b : List Byte),
              serShapes heap fuelW i l = .ok (b, i') → i.length ≤ i'.length := by
            intro l
            induction l with
            | nil => intro i i' b hh; simp [serShapes] at hh; rw [hh.2]; exact Nat.le_refl _
            | cons s0 l ihl =>
              intro i i' b hh
              simp only [serShapes] at hh
              cases g1 : serShape heap fuelW i s0 with
              | error e => simp [g1] at hh
              | ok q =>
                obtain ⟨c1, j1⟩ := q
                simp only [g1] at hh
                cases g2 : serShapes heap fuelW j1 l with
                | error e => simp [g2] at hh
                | ok q2 =>
                  obtain ⟨c2, j2⟩ := q2
                  simp only [g2] at hh
                  injection hh with hh; injection hh with _ hj
                  subst hj
                  have := ihl j1 j2 c2 g2
                  have hj1 : i.length ≤ j1.length := by
                    simp only [serShape] at g1
                    split at g1
                    · injection g1 with g1; injection g1 with _ e; rw [← e]; exact Nat.le_refl _
                    · split at g1
                      · cases g1
                      · rename_i bs ids' hst
                        injection g1 with g1; injection g1 with _ e; rw [← e]
                        exact serNodes_len _ hst
                  omega
          have hsz1 : ids1.length < 4294967296 := Nat.lt_of_le_of_lt (hgrow shapes ids1 ids2 b2 h2) hsz
          obtain ⟨tag, data, ie1, te1, le1, ls, hb1, hie1, hread, hinv1, hm1⟩ :=
            readShape_serShape F heap hax fuelW s ids ids1 b1 b2 trees lheap log h1 hv hpl hrl hsz1 hinv
          subst hb1
          have hf' : b2.length + 1 ≤ f := by simp at hf; omega
          obtain ⟨ie2, te2, le2, lss, hie2, hreads, hinv2, hm2⟩ :=
            ih ids1 ids2 b2 (trees ++ te1) (lheap ++ le1) log f h2 hok' hsz hinv1 hf'
          refine ⟨ie1 ++ ie2, te1 ++ te2, le1 ++ le2, ls :: lss, by rw [hie2, hie1]; simp, ?_,
            by simpa [List.append_assoc] using hinv2, ?_⟩
          · simp only [List.cons_append, readShapes, IStream.get, Bool.false_eq_true, if_false]
            rw [hread]
            simp only
            rw [hreads]
            simp [List.append_assoc]
          · refine AllMatch.cons ?_ (by simpa [List.append_assoc] using hm2)
            have := hm1.mono ie2 te2
            rw [← hie2] at this
            simpa [List.append_assoc] using this

end Libfive.Serial
