/-
  Helper lemmas for C20 (rounded progress fraction), model in LibfiveModel/ProgressRounded.lean.
-/
import LibfiveModel.ProgressRounded
import Mathlib.Tactic.Linarith
import Mathlib.Algebra.Order.Field.Basic
import Mathlib.Order.Monotone.Defs

set_option linter.unusedVariables false
set_option linter.unusedSectionVars false

namespace Libfive.ProgressRounded
open Libfive.Progress (Phase)

section field
variable {K : Type} [Field K] [LinearOrder K] [IsStrictOrderedRing K]
variable {rnd : K → K}

/-! ### sign -/

theorem rnd_nonneg (hm : Monotone rnd) (h0 : rnd 0 = 0) {a : K} (ha : 0 ≤ a) : 0 ≤ rnd a := by
  have := hm ha
  rwa [h0] at this

theorem rnd_natCast_nonneg (hm : Monotone rnd) (h0 : rnd 0 = 0) (n : Nat) : 0 ≤ rnd (n : K) :=
  rnd_nonneg hm h0 (Nat.cast_nonneg n)

theorem rterm_nonneg (hm : Monotone rnd) (h0 : rnd 0 = 0) (p : Phase) : 0 ≤ rterm rnd p :=
  rnd_nonneg hm h0 (div_nonneg (rnd_natCast_nonneg hm h0 _) (rnd_natCast_nonneg hm h0 _))

theorem rstep_nonneg (hm : Monotone rnd) (h0 : rnd 0 = 0) {a : K} (ha : 0 ≤ a) (p : Phase) :
    0 ≤ rstep rnd a p := by
  unfold rstep
  split
  · exact ha
  · exact rnd_nonneg hm h0 (add_nonneg ha (rterm_nonneg hm h0 p))

theorem foldl_nonneg (hm : Monotone rnd) (h0 : rnd 0 = 0) (ps : List Phase) :
    ∀ {a : K}, 0 ≤ a → 0 ≤ ps.foldl (rstep rnd) a := by
  induction ps with
  | nil => intro a ha; exact ha
  | cons p ps ih => intro a ha; exact ih (rstep_nonneg hm h0 ha p)

theorem raccum_nonneg (hm : Monotone rnd) (h0 : rnd 0 = 0) (ps : List Phase) :
    (0 : K) ≤ raccum rnd ps := foldl_nonneg hm h0 ps le_rfl

/-! ### counters only (no idempotence needed) -/

theorem rterm_mono (hm : Monotone rnd) (h0 : rnd 0 = 0) {p q : Phase} (h : PhaseLe p q) :
    rterm rnd p ≤ rterm rnd q := by
  obtain ⟨hw, ht, hc⟩ := h
  unfold rterm
  rw [hw, ht]
  apply hm
  apply div_le_div_of_nonneg_right _ (rnd_natCast_nonneg hm h0 _)
  apply hm
  exact_mod_cast Nat.mul_le_mul_left _ hc

theorem rstep_mono (hm : Monotone rnd) (h0 : rnd 0 = 0) {a b : K} (hab : a ≤ b) {p q : Phase}
    (h : PhaseLe p q) : rstep rnd a p ≤ rstep rnd b q := by
  have ht : p.total = q.total := h.2.1
  unfold rstep
  rw [ht]
  split
  · exact hab
  · exact hm (add_le_add hab (rterm_mono hm h0 h))

theorem foldl_mono (hm : Monotone rnd) (h0 : rnd 0 = 0) (ps : List Phase) :
    ∀ (qs : List Phase), SamePhaseLe ps qs →
    ∀ {a b : K}, a ≤ b → ps.foldl (rstep rnd) a ≤ qs.foldl (rstep rnd) b := by
  induction ps with
  | nil =>
    intro qs h a b hab
    cases qs with
    | nil => exact hab
    | cons q qs => exact absurd h (by simp [SamePhaseLe])
  | cons p ps ih =>
    intro qs h a b hab
    cases qs with
    | nil => exact absurd h (by simp [SamePhaseLe])
    | cons q qs =>
      obtain ⟨hpq, hr⟩ := h
      exact ih qs hr (rstep_mono hm h0 hab hpq)

theorem raccum_mono (hm : Monotone rnd) (h0 : rnd 0 = 0) {ps qs : List Phase}
    (h : SamePhaseLe ps qs) : (raccum rnd ps : K) ≤ raccum rnd qs :=
  foldl_mono hm h0 ps qs h le_rfl

theorem rfraction_mono_of_raccum (hm : Monotone rnd) (h0 : rnd 0 = 0) (W : Nat)
    {ps qs : List Phase} (h : (raccum rnd ps : K) ≤ raccum rnd qs) :
    rfraction rnd W ps ≤ rfraction rnd W qs := by
  unfold rfraction
  split
  · exact le_rfl
  · exact hm (div_le_div_of_nonneg_right h (rnd_natCast_nonneg hm h0 _))

theorem rfraction_nonneg (hm : Monotone rnd) (h0 : rnd 0 = 0) (W : Nat) (ps : List Phase) :
    (0 : K) ≤ rfraction rnd W ps := by
  unfold rfraction
  split
  · exact le_rfl
  · exact rnd_nonneg hm h0 (div_nonneg (raccum_nonneg hm h0 ps) (rnd_natCast_nonneg hm h0 _))

/-! ### the accumulator is always a value of `rnd` (needs idempotence) -/

theorem rstep_fix (hid : ∀ x, rnd (rnd x) = rnd x) {a : K} (ha : rnd a = a) (p : Phase) :
    rnd (rstep rnd a p) = rstep rnd a p := by
  unfold rstep
  split
  · exact ha
  · exact hid _

theorem foldl_fix (hid : ∀ x, rnd (rnd x) = rnd x) (ps : List Phase) :
    ∀ {a : K}, rnd a = a → rnd (ps.foldl (rstep rnd) a) = ps.foldl (rstep rnd) a := by
  induction ps with
  | nil => intro a ha; exact ha
  | cons p ps ih => intro a ha; exact ih (rstep_fix hid ha p)

theorem le_rstep (hm : Monotone rnd) (h0 : rnd 0 = 0) {a : K} (ha : rnd a = a) (p : Phase) :
    a ≤ rstep rnd a p := by
  unfold rstep
  split
  · exact le_rfl
  · calc a = rnd a := ha.symm
      _ ≤ rnd (a + rterm rnd p) := hm (le_add_of_nonneg_right (rterm_nonneg hm h0 p))

theorem le_foldl (hm : Monotone rnd) (h0 : rnd 0 = 0) (hid : ∀ x, rnd (rnd x) = rnd x)
    (ps : List Phase) : ∀ {a : K}, rnd a = a → a ≤ ps.foldl (rstep rnd) a := by
  induction ps with
  | nil => intro a ha; exact le_rfl
  | cons p ps ih =>
    intro a ha
    exact (le_rstep hm h0 ha p).trans (ih (rstep_fix hid ha p))

theorem rstep_mono_step (hm : Monotone rnd) (h0 : rnd 0 = 0) {a b : K} (hab : a ≤ b)
    (hb : rnd b = b) {p q : Phase} (h : PhaseStep p q) : rstep rnd a p ≤ rstep rnd b q := by
  rcases h with hz | h
  · have : rstep rnd a p = a := by unfold rstep; rw [if_pos hz]
    rw [this]
    exact hab.trans (le_rstep hm h0 hb q)
  · exact rstep_mono hm h0 hab h

theorem foldl_mono_later (hm : Monotone rnd) (h0 : rnd 0 = 0) (hid : ∀ x, rnd (rnd x) = rnd x)
    (ps : List Phase) : ∀ (qs : List Phase), Later ps qs →
    ∀ {a b : K}, a ≤ b → rnd b = b → ps.foldl (rstep rnd) a ≤ qs.foldl (rstep rnd) b := by
  induction ps with
  | nil =>
    intro qs _ a b hab hb
    exact hab.trans (le_foldl hm h0 hid qs hb)
  | cons p ps ih =>
    intro qs h a b hab hb
    cases qs with
    | nil => exact absurd h (by simp [Later])
    | cons q qs =>
      obtain ⟨hpq, hr⟩ := h
      exact ih qs hr (rstep_mono_step hm h0 hab hb hpq) (rstep_fix hid hb _)

theorem raccum_mono_later (hm : Monotone rnd) (h0 : rnd 0 = 0) (hid : ∀ x, rnd (rnd x) = rnd x)
    {ps qs : List Phase} (h : Later ps qs) : (raccum rnd ps : K) ≤ raccum rnd qs :=
  foldl_mono_later hm h0 hid ps qs h le_rfl h0

/-- `Later` in the "longer prefix" form: `qs = qs₁ ++ ext` with `qs₁` the phases of `ps` seen later -/
theorem later_append {ps qs₁ : List Phase} (ext : List Phase) (h : Later ps qs₁) :
    Later ps (qs₁ ++ ext) := by
  induction ps generalizing qs₁ with
  | nil => trivial
  | cons p ps ih =>
    cases qs₁ with
    | nil => exact absurd h (by simp [Later])
    | cons q qs => exact ⟨h.1, ih h.2⟩

theorem later_of_samePhaseLe {ps qs : List Phase} (h : SamePhaseLe ps qs) : Later ps qs := by
  induction ps generalizing qs with
  | nil => trivial
  | cons p ps ih =>
    cases qs with
    | nil => exact absurd h (by simp [SamePhaseLe])
    | cons q qs => exact ⟨Or.inr h.1, ih h.2⟩

/-! ### `if (next != prev) progress(next)` -/

/-- `prev ≤ v₁ ≤ v₂ ≤ …` -/
def ChainLe : K → List K → Prop
  | _, [] => True
  | a, b :: r => a ≤ b ∧ ChainLe b r

theorem reportedVals_strict (vs : List K) : ∀ (prev : K), ChainLe prev vs →
    (∀ x ∈ reportedVals prev vs, prev < x) ∧ (reportedVals prev vs).Pairwise (· < ·) := by
  induction vs with
  | nil => intro prev _; simp [reportedVals]
  | cons v r ih =>
    intro prev h
    obtain ⟨hpv, hr⟩ := h
    unfold reportedVals
    by_cases hv : v = prev
    · rw [if_pos hv]
      subst hv
      exact ih v hr
    · rw [if_neg hv]
      have hlt : prev < v := lt_of_le_of_ne hpv (Ne.symm hv)
      obtain ⟨h1, h2⟩ := ih v hr
      refine ⟨?_, List.pairwise_cons.2 ⟨h1, h2⟩⟩
      intro x hx
      rcases List.mem_cons.1 hx with rfl | hx
      · exact hlt
      · exact hlt.trans (h1 x hx)

theorem chainLe_of_ordered (hm : Monotone rnd) (h0 : rnd 0 = 0) (hid : ∀ x, rnd (rnd x) = rnd x)
    (W : Nat) : ∀ (s : List Phase) (ss : List (List Phase)), Ordered (s :: ss) →
      ChainLe (rfraction rnd W s) (ss.map (rfraction rnd W)) := by
  intro s ss
  induction ss generalizing s with
  | nil => intro _; trivial
  | cons t ss ih =>
    intro h
    obtain ⟨hl, ho⟩ := h
    exact ⟨rfraction_mono_of_raccum hm h0 W (raccum_mono_later hm h0 hid hl), ih t ho⟩

/-! ### upper bound when the integers involved are representable -/

theorem weight_le_weightSum {ps : List Phase} {p : Phase} (hp : p ∈ ps) :
    p.weight ≤ weightSum ps := by
  induction ps with
  | nil => cases hp
  | cons q ps ih =>
    rcases List.mem_cons.1 hp with rfl | hp
    · simp [weightSum]
    · have := ih hp
      simp only [weightSum]; omega

theorem rterm_le_weight (hm : Monotone rnd) (B : Nat)
    (hex : ∀ n : Nat, n ≤ B → rnd (n : K) = n) {p : Phase} (hw : p.weight ≤ B)
    (ht : p.total ≤ B) (hwt : p.weight * p.total ≤ B) (hc : p.counter ≤ p.total)
    (htz : p.total ≠ 0) : rterm rnd p ≤ (p.weight : K) := by
  unfold rterm
  have hwc : p.weight * p.counter ≤ B := (Nat.mul_le_mul_left _ hc).trans hwt
  rw [hex _ hwc, hex _ ht, ← hex _ hw]
  apply hm
  have htpos : (0 : K) < (p.total : K) := by exact_mod_cast Nat.pos_of_ne_zero htz
  rw [div_le_iff₀ htpos]
  exact_mod_cast Nat.mul_le_mul_left _ hc

theorem foldl_le_weight (hm : Monotone rnd) (B : Nat)
    (hex : ∀ n : Nat, n ≤ B → rnd (n : K) = n) (ps : List Phase) :
    ∀ (n : Nat) (a : K), a ≤ (n : K) → n + weightSum ps ≤ B →
      (∀ p ∈ ps, p.total ≤ B ∧ p.weight * p.total ≤ B ∧ p.counter ≤ p.total) →
      ps.foldl (rstep rnd) a ≤ ((n + weightSum ps : Nat) : K) := by
  induction ps with
  | nil => intro n a ha _ _; simpa [weightSum] using ha
  | cons p ps ih =>
    intro n a ha hB hps
    obtain ⟨ht, hwt, hc⟩ := hps p (List.mem_cons_self)
    have hrest : ∀ q ∈ ps, q.total ≤ B ∧ q.weight * q.total ≤ B ∧ q.counter ≤ q.total :=
      fun q hq => hps q (List.mem_cons_of_mem _ hq)
    simp only [weightSum] at hB ⊢
    have hstep : rstep rnd a p ≤ ((n + p.weight : Nat) : K) := by
      unfold rstep
      split
      · exact ha.trans (by exact_mod_cast Nat.le_add_right _ _)
      · rename_i htz
        rw [← hex (n + p.weight) (by omega)]
        apply hm
        push_cast
        exact add_le_add ha (rterm_le_weight hm B hex (by omega) ht hwt hc htz)
    have := ih (n + p.weight) _ hstep (by omega) hrest
    rwa [Nat.add_assoc] at this

theorem rfraction_le_one (hm : Monotone rnd) (h0 : rnd 0 = 0) (B : Nat)
    (hex : ∀ n : Nat, n ≤ B → rnd (n : K) = n) (W : Nat) (ps : List Phase)
    (hW : W ≤ B) (hsum : weightSum ps ≤ W)
    (hps : ∀ p ∈ ps, p.total ≤ B ∧ p.weight * p.total ≤ B ∧ p.counter ≤ p.total) :
    rfraction rnd W ps ≤ 1 := by
  unfold rfraction
  split
  · exact zero_le_one
  · rename_i hWz
    have hWpos : 0 < W := Nat.pos_of_ne_zero hWz
    have h1 : rnd (1 : K) = 1 := by
      have := hex 1 (by omega)
      simpa using this
    have hacc : (raccum rnd ps : K) ≤ ((0 + weightSum ps : Nat) : K) :=
      foldl_le_weight hm B hex ps 0 0 (by simp) (by omega) hps
    have hacc' : (raccum rnd ps : K) ≤ (W : K) :=
      hacc.trans (by exact_mod_cast (by omega : 0 + weightSum ps ≤ W))
    rw [hex W hW, ← h1]
    apply hm
    have hWK : (0 : K) < (W : K) := by exact_mod_cast hWpos
    rw [div_le_one hWK]
    exact hacc'

/-! ### unit weights (`Mesh::render`: `start({1, 1, 1})`): totals NOT bounded -/

theorem rterm_le_one_unit (hm : Monotone rnd) (h0 : rnd 0 = 0) (h1 : rnd (1 : K) = 1)
    {p : Phase} (hw : p.weight = 1) (hc : p.counter ≤ p.total) : rterm rnd p ≤ 1 := by
  unfold rterm
  rw [hw, Nat.one_mul]
  have hct : rnd (p.counter : K) ≤ rnd (p.total : K) := hm (by exact_mod_cast hc)
  calc rnd (rnd (p.counter : K) / rnd (p.total : K)) ≤ rnd 1 :=
        hm (div_le_one_of_le₀ hct (rnd_natCast_nonneg hm h0 _))
    _ = 1 := h1

theorem rterm_eq_one_unit (hm : Monotone rnd) (h1 : rnd (1 : K) = 1)
    {p : Phase} (hw : p.weight = 1) (hc : p.counter = p.total) (ht : 1 ≤ p.total) :
    rterm rnd p = 1 := by
  unfold rterm
  rw [hw, Nat.one_mul, hc]
  have hpos : (0 : K) < rnd (p.total : K) := by
    have : rnd (1 : K) ≤ rnd (p.total : K) := hm (by exact_mod_cast ht)
    rw [h1] at this
    exact lt_of_lt_of_le zero_lt_one this
  rw [div_self hpos.ne', h1]

theorem foldl_le_length_unit (hm : Monotone rnd) (h0 : rnd 0 = 0) (W : Nat)
    (hex : ∀ n : Nat, n ≤ W → rnd (n : K) = n) (ps : List Phase) :
    ∀ (n : Nat) (a : K), a ≤ (n : K) → n + ps.length ≤ W →
      (∀ p ∈ ps, p.weight = 1 ∧ p.counter ≤ p.total) →
      ps.foldl (rstep rnd) a ≤ ((n + ps.length : Nat) : K) := by
  induction ps with
  | nil => intro n a ha _ _; simpa using ha
  | cons p ps ih =>
    intro n a ha hB hps
    obtain ⟨hw, hc⟩ := hps p (List.mem_cons_self)
    have hrest : ∀ q ∈ ps, q.weight = 1 ∧ q.counter ≤ q.total :=
      fun q hq => hps q (List.mem_cons_of_mem _ hq)
    simp only [List.length_cons] at hB ⊢
    have h1 : rnd (1 : K) = 1 := by
      have := hex 1 (by omega)
      simpa using this
    have hstep : rstep rnd a p ≤ ((n + 1 : Nat) : K) := by
      unfold rstep
      split
      · exact ha.trans (by exact_mod_cast Nat.le_add_right _ _)
      · rw [← hex (n + 1) (by omega)]
        apply hm
        push_cast
        exact add_le_add ha (rterm_le_one_unit hm h0 h1 hw hc)
    have := ih (n + 1) _ hstep (by omega) hrest
    rwa [Nat.add_assoc, Nat.add_comm 1] at this

theorem foldl_eq_length_unit (hm : Monotone rnd) (W : Nat)
    (hex : ∀ n : Nat, n ≤ W → rnd (n : K) = n) (ps : List Phase) :
    ∀ (n : Nat), n + ps.length ≤ W →
      (∀ p ∈ ps, p.weight = 1 ∧ p.counter = p.total ∧ 1 ≤ p.total) →
      ps.foldl (rstep rnd) ((n : Nat) : K) = ((n + ps.length : Nat) : K) := by
  induction ps with
  | nil => intro n _ _; simp
  | cons p ps ih =>
    intro n hB hps
    obtain ⟨hw, hc, ht⟩ := hps p (List.mem_cons_self)
    have hrest : ∀ q ∈ ps, q.weight = 1 ∧ q.counter = q.total ∧ 1 ≤ q.total :=
      fun q hq => hps q (List.mem_cons_of_mem _ hq)
    simp only [List.length_cons] at hB ⊢
    have h1 : rnd (1 : K) = 1 := by
      have := hex 1 (by omega)
      simpa using this
    have hstep : rstep rnd ((n : Nat) : K) p = ((n + 1 : Nat) : K) := by
      unfold rstep
      rw [if_neg (by omega), rterm_eq_one_unit hm h1 hw hc ht, ← hex (n + 1) (by omega)]
      push_cast
      rfl
    rw [List.foldl_cons, hstep, ih (n + 1) (by omega) hrest, Nat.add_assoc, Nat.add_comm 1]

theorem rfraction_le_one_unit (hm : Monotone rnd) (h0 : rnd 0 = 0) (W : Nat)
    (hex : ∀ n : Nat, n ≤ W → rnd (n : K) = n) (ps : List Phase) (hlen : ps.length ≤ W)
    (hps : ∀ p ∈ ps, p.weight = 1 ∧ p.counter ≤ p.total) : rfraction rnd W ps ≤ 1 := by
  unfold rfraction
  split
  · exact zero_le_one
  · rename_i hWz
    have hWpos : 0 < W := Nat.pos_of_ne_zero hWz
    have h1 : rnd (1 : K) = 1 := by
      have := hex 1 (by omega)
      simpa using this
    have hacc : (raccum rnd ps : K) ≤ ((0 + ps.length : Nat) : K) :=
      foldl_le_length_unit hm h0 W hex ps 0 0 (by simp) (by omega) hps
    have hacc' : (raccum rnd ps : K) ≤ (W : K) :=
      hacc.trans (by exact_mod_cast (by omega : 0 + ps.length ≤ W))
    rw [hex W le_rfl, ← h1]
    apply hm
    have hWK : (0 : K) < (W : K) := by exact_mod_cast hWpos
    rw [div_le_one hWK]
    exact hacc'

theorem rfraction_eq_one_unit (hm : Monotone rnd) (W : Nat)
    (hex : ∀ n : Nat, n ≤ W → rnd (n : K) = n) (ps : List Phase) (hlen : ps.length = W)
    (hW : 1 ≤ W) (hps : ∀ p ∈ ps, p.weight = 1 ∧ p.counter = p.total ∧ 1 ≤ p.total) :
    rfraction rnd W ps = 1 := by
  unfold rfraction
  rw [if_neg (by omega)]
  have h1 : rnd (1 : K) = 1 := by
    have := hex 1 hW
    simpa using this
  have hacc : (raccum rnd ps : K) = ((0 + ps.length : Nat) : K) := by
    have := foldl_eq_length_unit hm W hex ps 0 (by omega) hps
    simpa [raccum] using this
  have hWK : ((W : Nat) : K) ≠ 0 := by exact_mod_cast (by omega : W ≠ 0)
  rw [hacc, Nat.zero_add, hlen, hex W le_rfl, div_self hWK, h1]

end field

end Libfive.ProgressRounded
