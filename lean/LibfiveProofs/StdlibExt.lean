/-
  C18 (extension) helper lemmas.
   A. when the smart constructors `mkUnary / mkBinary / mkRemap` return a node that is not a bare
      constant (needed to chain `denote_mkUnary / denote_mkBinary` through composite library
      functions applied to *arbitrary* argument trees);
   B. denotations over ℝ of the composite CSG operators (`shell`, `blend_*`, `morph`, `loft`, …);
   C. evaluation lemmas (`eval_*`) of the remaining transcribed shapes, by `rfl` on the concrete trees.
-/
import LibfiveProofs.Stdlib
set_option linter.unusedSimpArgs false
set_option linter.unnecessarySeqFocus false
set_option linter.unusedVariables false

namespace Libfive.Stdlib
open SExpr

/-! ### A. non-constness of built nodes -/

/-- a node that is neither a constant nor a negation: `Tree::binary`'s add/sub rewrites can never
    dissolve it -/
def rigid : SExpr → Bool
  | const _ => false
  | un op _ => !(op == Op.neg)
  | _ => true

theorem rigid_nc {e : SExpr} (h : rigid e = true) : e.isConst = false := by
  cases e <;> simp_all [rigid, isConst]

variable (F : Folder)

theorem nc_mkUnary_of_ne_neg (op : Op) (a : SExpr) (ha : a.isConst = false) (hop : op ≠ Op.neg) :
    (mkUnary F op a).isConst = false := by
  cases a with
  | const c => simp [isConst] at ha
  | un opa v =>
    simp only [mkUnary]
    split
    · split <;> rfl
    · simp [hop, isConst]
  | _ => rfl

/-- unary nodes other than `neg`/`abs` are always built literally -/
theorem mkUnary_plain (op : Op) (a : SExpr) (ha : a.isConst = false) (h1 : op ≠ Op.neg)
    (h2 : op ≠ Op.abs) : mkUnary F op a = un op a := by
  cases a with
  | const c => simp [isConst] at ha
  | un opa v => simp [mkUnary, h1, h2]
  | _ => rfl

theorem mkUnary_neg_rigid (a : SExpr) (ha : rigid a = true) : mkUnary F Op.neg a = un Op.neg a := by
  cases a with
  | const c => simp [rigid] at ha
  | un opa v =>
    have : opa ≠ Op.neg := by simpa [rigid] using ha
    simp [mkUnary, this]
  | _ => rfl

/-- add / sub with one rigid operand is never a bare constant -/
theorem nc_addsub_rigid (n : Nat) : ∀ (op : Op) (a b : SExpr), (op = Op.add ∨ op = Op.sub) →
    (rigid a = true ∨ rigid b = true) → (mkBinaryFuel F n op a b).isConst = false := by
  induction n with
  | zero => intro op a b _ _; rfl
  | succ n ih =>
    intro op a b hop hr
    unfold mkBinaryFuel
    split
    · rcases hr with hr | hr <;> simp [rigid] at hr
    · next hnc =>
      rcases hop with rfl | rfl
      · -- add
        simp only []
        split
        · next c =>
          split
          · rcases hr with hr | hr
            · simp [rigid] at hr
            · exact rigid_nc hr
          · rfl
        · next ha =>
          split
          · next c =>
            split
            · exact isConst_eq_false ha
            · rfl
          · next hb =>
            split
            · next opa u =>
              split
              · next hneg =>
                subst hneg
                rcases hr with hr | hr
                · simp [rigid] at hr
                · exact ih _ _ _ (Or.inr rfl) (Or.inl hr)
              · rfl
            · next hau =>
              split
              · next opb u =>
                split
                · next hneg =>
                  subst hneg
                  rcases hr with hr | hr
                  · exact ih _ _ _ (Or.inr rfl) (Or.inl hr)
                  · simp [rigid] at hr
                · rfl
              · rfl
      · -- sub
        simp only []
        split
        · next c =>
          rcases hr with hr | hr
          · simp [rigid] at hr
          · split
            · rw [mkUnary_neg_rigid F _ hr]; rfl
            · rfl
        · next ha =>
          split
          · next c =>
            split
            · exact isConst_eq_false ha
            · rfl
          · next opb u =>
            split
            · next hneg =>
              subst hneg
              rcases hr with hr | hr
              · exact ih _ _ _ (Or.inl rfl) (Or.inl hr)
              · simp [rigid] at hr
            · rfl
          · rfl

theorem nc_add_rigid (a b : SExpr) (hr : rigid a = true ∨ rigid b = true) :
    (mkBinary F Op.add a b).isConst = false := nc_addsub_rigid F _ _ _ _ (Or.inl rfl) hr
theorem nc_sub_rigid (a b : SExpr) (hr : rigid a = true ∨ rigid b = true) :
    (mkBinary F Op.sub a b).isConst = false := nc_addsub_rigid F _ _ _ _ (Or.inr rfl) hr

/-- `a - (-u)` with `u` rigid (the `a - (-|o|)` of `shell`) -/
theorem nc_sub_neg_rigid (a u : SExpr) (ha : a.isConst = false) (hu : rigid u = true) :
    (mkBinary F Op.sub a (un Op.neg u)).isConst = false := by
  show (mkBinaryFuel F (63 + 1) Op.sub a (un Op.neg u)).isConst = false
  unfold mkBinaryFuel
  cases a with
  | const c => simp [isConst] at ha
  | _ => simp only [if_true]; exact nc_addsub_rigid F _ _ _ _ (Or.inl rfl) (Or.inr hu)

/-- a product of two non-constants is not a constant -/
theorem nc_mul (a b : SExpr) (ha : a.isConst = false) (hb : b.isConst = false) :
    (mkBinary F Op.mul a b).isConst = false := by
  show (mkBinaryFuel F (63 + 1) Op.mul a b).isConst = false
  unfold mkBinaryFuel
  cases a with
  | const c => simp [isConst] at ha
  | _ =>
    cases b with
    | const c => simp [isConst] at hb
    | _ =>
      simp only []
      split
      · exact nc_mkUnary_of_ne_neg F _ _ (by rfl) (by decide)
      · rfl

/-- a quotient with a non-constant numerator is not a constant -/
theorem nc_div (a b : SExpr) (ha : a.isConst = false) : (mkBinary F Op.div a b).isConst = false := by
  show (mkBinaryFuel F (63 + 1) Op.div a b).isConst = false
  unfold mkBinaryFuel
  cases a with
  | const c => simp [isConst] at ha
  | _ =>
    cases b with
    | const c => simp only []; split <;> rfl
    | _ => rfl

theorem nc_minmax (op : Op) (hop : op = Op.min ∨ op = Op.max) (a b : SExpr) (ha : a.isConst = false) :
    (mkBinary F op a b).isConst = false := by
  show (mkBinaryFuel F (63 + 1) op a b).isConst = false
  unfold mkBinaryFuel
  cases a with
  | const c => simp [isConst] at ha
  | _ => rcases hop with rfl | rfl <;> (simp only []; split <;> rfl)

theorem nc_mkRemap (t X Y Z : SExpr) (ht : t.isConst = false) : (mkRemap t X Y Z).isConst = false := by
  unfold mkRemap
  split
  · exact ht
  · split
    · rfl
    · exact ht

theorem nc_union (a b : SExpr) (ha : a.isConst = false) : (union F a b).isConst = false :=
  nc_minmax F _ (Or.inl rfl) a b ha
theorem nc_move (t : SExpr) (o : V3) (ht : t.isConst = false) : (move F t o).isConst = false :=
  nc_mkRemap _ _ _ _ ht

theorem rigid_mkUnary_abs (o : SExpr) (ho : o.isConst = false) : rigid (mkUnary F Op.abs o) = true := by
  cases o with
  | const c => simp [isConst] at ho
  | un opa v =>
    simp only [mkUnary, if_true]
    split
    · next h => rcases h with rfl | rfl <;> rfl
    · rfl
  | _ => rfl

/-! ### B. composite CSG operators over ℝ, for arbitrary argument trees -/

local notation "RL" => realI_lawful

theorem eval_offset (a o : SExpr) (ho : o.isConst = false) (ρ : ℕ → ℝ) (x y z : ℝ) :
    eval (offset F a o) ρ x y z = eval a ρ x y z - eval o ρ x y z := by
  unfold eval offset
  rw [denote_mkBinary RL F _ _ _ _ (Or.inr ho)]; rfl

/-- `shell(a, o) = max(a, -(a - (-|o|)))` -/
theorem eval_shell (a o : SExpr) (ha : a.isConst = false) (ho : o.isConst = false)
    (ρ : ℕ → ℝ) (x y z : ℝ) :
    eval (shell F a o) ρ x y z = max (eval a ρ x y z) (-(eval a ρ x y z + |eval o ρ x y z|)) := by
  unfold eval shell clearance difference intersection inverse offset
  have hr := rigid_mkUnary_abs F o ho
  rw [mkUnary_neg_rigid F _ hr, denote_mkBinary RL F _ _ _ _ (Or.inl ha),
    denote_mkUnary RL F _ _ _ (nc_sub_neg_rigid F a _ ha hr),
    denote_mkBinary RL F _ _ _ _ (Or.inr rfl)]
  simp only [denote]
  rw [denote_mkUnary RL F _ _ _ ho]
  show max _ (-(_ - -|_|)) = _
  rw [sub_neg_eq_add]

theorem nc_shell (a o : SExpr) (ha : a.isConst = false) : (shell F a o).isConst = false :=
  nc_minmax F _ (Or.inr rfl) _ _ ha

theorem eval_morph (a b : SExpr) (i : ℕ) (hb : b.isConst = false) (ρ : ℕ → ℝ) (x y z : ℝ) :
    eval (morph F a b (var i)) ρ x y z = eval a ρ x y z * (1 - ρ i) + eval b ρ x y z * ρ i := by
  unfold eval morph
  have h1 : mkBinary F Op.sub c1 (var i) = bin Op.sub c1 (var i) := rfl
  rw [h1, denote_mkBinary RL F Op.add _ _ _ (Or.inr (nc_mul F b (var i) hb rfl)),
    denote_mkBinary RL F Op.mul _ _ _ (Or.inr rfl), denote_mkBinary RL F Op.mul _ _ _ (Or.inr rfl)]
  show _ * (f32Real 0x3f800000 - ρ i) + _ = _
  rw [f32Real_one]; rfl

/-- `loft(a, b, zmin = v_i, zmax = v_j)` -/
theorem eval_loft (a b : SExpr) (i j : ℕ) (ha : a.isConst = false) (ρ : ℕ → ℝ) (x y z : ℝ) :
    eval (loft F a b (var i) (var j)) ρ x y z =
      max (z - ρ j) (max (ρ i - z)
        (((z - ρ i) * eval b ρ x y z + (ρ j - z) * eval a ρ x y z) / (ρ j - ρ i))) := by
  unfold eval loft
  have h1 : mkBinary F Op.sub SExpr.z (var j) = bin Op.sub SExpr.z (var j) := rfl
  have h2 : mkBinary F Op.sub (var i) SExpr.z = bin Op.sub (var i) SExpr.z := rfl
  have h3 : mkBinary F Op.sub SExpr.z (var i) = bin Op.sub SExpr.z (var i) := rfl
  have h4 : mkBinary F Op.sub (var j) SExpr.z = bin Op.sub (var j) SExpr.z := rfl
  have h5 : mkBinary F Op.sub (var j) (var i) = bin Op.sub (var j) (var i) := rfl
  rw [h1, h2, h3, h4, h5, denote_mkBinary RL F Op.max _ _ _ (Or.inl rfl),
    denote_mkBinary RL F Op.max _ _ _ (Or.inl rfl),
    denote_mkBinary RL F Op.div _ _ _ (Or.inr rfl),
    denote_mkBinary RL F Op.add _ _ _ (Or.inr (nc_mul F _ a rfl ha)),
    denote_mkBinary RL F Op.mul _ _ _ (Or.inl rfl), denote_mkBinary RL F Op.mul _ _ _ (Or.inl rfl)]
  rfl

/-- `blend_expt(a, b, m)` for a rigid blend parameter tree `m` -/
theorem denote_blend_expt (a b m : SExpr) (ha : a.isConst = false) (hb : b.isConst = false)
    (hm : rigid m = true) (e : Env ℝ) :
    denote realI (blend_expt F a b m) e =
      -(Real.log (Real.exp (-(denote realI m e) * denote realI a e) +
                  Real.exp (-(denote realI m e) * denote realI b e))) / denote realI m e := by
  unfold blend_expt
  rw [mkUnary_neg_rigid F m hm]
  have e1 := nc_mul F (un Op.neg m) a rfl ha
  have e2 := nc_mul F (un Op.neg m) b rfl hb
  rw [mkUnary_plain F Op.exp _ e1 (by decide) (by decide),
    mkUnary_plain F Op.exp _ e2 (by decide) (by decide)]
  have e3 := nc_add_rigid F (un Op.exp (mkBinary F Op.mul (un Op.neg m) a))
    (un Op.exp (mkBinary F Op.mul (un Op.neg m) b)) (Or.inl rfl)
  rw [mkUnary_plain F Op.log _ e3 (by decide) (by decide)]
  have e4 : ∀ X, mkUnary F Op.neg (un Op.log X) = un Op.neg (un Op.log X) := fun _ => rfl
  rw [e4, denote_mkBinary RL F Op.div _ _ _ (Or.inl rfl)]
  simp only [denote]
  rw [denote_mkBinary RL F Op.add _ _ _ (Or.inl rfl)]
  simp only [denote]
  rw [denote_mkBinary RL F Op.mul _ _ _ (Or.inl rfl), denote_mkBinary RL F Op.mul _ _ _ (Or.inl rfl)]
  rfl

theorem nc_blend_expt (a b m : SExpr) (ha : a.isConst = false) (hb : b.isConst = false)
    (hm : rigid m = true) : (blend_expt F a b m).isConst = false := by
  unfold blend_expt
  rw [mkUnary_neg_rigid F m hm]
  have e1 := nc_mul F (un Op.neg m) a rfl ha
  have e2 := nc_mul F (un Op.neg m) b rfl hb
  rw [mkUnary_plain F Op.exp _ e1 (by decide) (by decide),
    mkUnary_plain F Op.exp _ e2 (by decide) (by decide)]
  have e3 := nc_add_rigid F (un Op.exp (mkBinary F Op.mul (un Op.neg m) a))
    (un Op.exp (mkBinary F Op.mul (un Op.neg m) b)) (Or.inl rfl)
  rw [mkUnary_plain F Op.log _ e3 (by decide) (by decide)]
  exact nc_div F _ _ rfl

theorem eval_blend_expt (a b : SExpr) (i : ℕ) (ha : a.isConst = false) (hb : b.isConst = false)
    (ρ : ℕ → ℝ) (x y z : ℝ) :
    eval (blend_expt F a b (var i)) ρ x y z =
      -(Real.log (Real.exp (-(ρ i) * eval a ρ x y z) + Real.exp (-(ρ i) * eval b ρ x y z))) / ρ i :=
  denote_blend_expt F a b (var i) ha hb rfl _

/-- the blend parameter `2.75 / m²` of `blend_expt_unit` -/
theorem blend_unit_param (i : ℕ) :
    mkBinary F Op.div c2_75 (mkBinary F Op.pow (var i) c2) = bin Op.div c2_75 (bin Op.pow (var i) c2) := rfl

theorem eval_blend_expt_unit (a b : SExpr) (i : ℕ) (ha : a.isConst = false) (hb : b.isConst = false)
    (ρ : ℕ → ℝ) (x y z : ℝ) :
    eval (blend_expt_unit F a b (var i)) ρ x y z =
      -(Real.log (Real.exp (-(2.75 / ρ i ^ (2 : ℝ)) * eval a ρ x y z) +
                  Real.exp (-(2.75 / ρ i ^ (2 : ℝ)) * eval b ρ x y z))) / (2.75 / ρ i ^ (2 : ℝ)) := by
  unfold eval blend_expt_unit
  rw [blend_unit_param, denote_blend_expt F a b _ ha hb rfl]
  show -(Real.log (Real.exp (-(f32Real 0x40300000 / ρ i ^ f32Real 0x40000000) * _) +
    Real.exp (-(f32Real 0x40300000 / ρ i ^ f32Real 0x40000000) * _))) /
      (f32Real 0x40300000 / ρ i ^ f32Real 0x40000000) = _
  rw [f32Real_2_75, f32Real_two]

theorem eval_blend_rough (a b : SExpr) (i : ℕ) (ha : a.isConst = false) (hb : b.isConst = false)
    (ρ : ℕ → ℝ) (x y z : ℝ) :
    eval (blend_rough F a b (var i)) ρ x y z =
      min (eval a ρ x y z) (min (eval b ρ x y z)
        (Real.sqrt |eval a ρ x y z| + Real.sqrt |eval b ρ x y z| - ρ i)) := by
  unfold eval blend_rough union
  have ea := nc_mkUnary_of_ne_neg F Op.abs a ha (by decide)
  have eb := nc_mkUnary_of_ne_neg F Op.abs b hb (by decide)
  simp only []
  rw [mkUnary_plain F Op.sqrt _ ea (by decide) (by decide),
    mkUnary_plain F Op.sqrt _ eb (by decide) (by decide),
    denote_mkBinary RL F Op.min _ _ _ (Or.inl ha), denote_mkBinary RL F Op.min _ _ _ (Or.inl hb),
    denote_mkBinary RL F Op.sub _ _ _ (Or.inr rfl), denote_mkBinary RL F Op.add _ _ _ (Or.inl rfl)]
  simp only [denote]
  rw [denote_mkUnary RL F _ _ _ ha, denote_mkUnary RL F _ _ _ hb]
  rfl

theorem eval_inverse (a : SExpr) (ha : a.isConst = false) (ρ : ℕ → ℝ) (x y z : ℝ) :
    eval (inverse F a) ρ x y z = -(eval a ρ x y z) := by
  unfold eval inverse; rw [denote_mkUnary RL F _ _ _ ha]; rfl

/-- `blend_difference(a, b, m = v_i, o = v_j)`; `hna`: the negated first shape is not a bare
    constant (true of every tree the library builds: `Tree::unary` folds `-(const)`). -/
theorem eval_blend_difference (a b : SExpr) (i j : ℕ) (ha : a.isConst = false)
    (hna : (inverse F a).isConst = false) (ρ : ℕ → ℝ) (x y z : ℝ) :
    eval (blend_difference F a b (var i) (var j)) ρ x y z =
      -(-(Real.log (Real.exp (-(2.75 / ρ i ^ (2 : ℝ)) * -(eval a ρ x y z)) +
                  Real.exp (-(2.75 / ρ i ^ (2 : ℝ)) * (eval b ρ x y z - ρ j)))) / (2.75 / ρ i ^ (2 : ℝ))) := by
  have hob : (offset F b (var j)).isConst = false := nc_sub_rigid F _ _ (Or.inr rfl)
  unfold blend_difference
  have hn : (blend_expt_unit F (inverse F a) (offset F b (var j)) (var i)).isConst = false := by
    unfold blend_expt_unit; rw [blend_unit_param]; exact nc_blend_expt F _ _ _ hna hob rfl
  rw [eval_inverse F _ hn, eval_blend_expt_unit F _ _ _ hna hob, eval_offset F b (var j) rfl,
    eval_inverse F a ha]
  rfl

/-! ### generic evaluation rules -/

theorem eval_union (a b : SExpr) (ha : a.isConst = false) (ρ : ℕ → ℝ) (x y z : ℝ) :
    eval (union F a b) ρ x y z = min (eval a ρ x y z) (eval b ρ x y z) := by
  unfold eval union; rw [denote_mkBinary RL F _ _ _ _ (Or.inl ha)]; rfl

theorem eval_remap (t X Y Z : SExpr) (ρ : ℕ → ℝ) (x y z : ℝ) :
    eval (mkRemap t X Y Z) ρ x y z = eval t ρ (eval X ρ x y z) (eval Y ρ x y z) (eval Z ρ x y z) := by
  unfold eval; rw [denote_mkRemap]

/-- `move` by an arbitrary offset vector of trees -/
theorem eval_move' (t : SExpr) (o : V3) (ρ : ℕ → ℝ) (x y z : ℝ) :
    eval (move F t o) ρ x y z =
      eval t ρ (x - eval o.x ρ x y z) (y - eval o.y ρ x y z) (z - eval o.z ρ x y z) := by
  unfold move; rw [eval_remap]
  unfold eval
  rw [denote_mkBinary RL F _ _ _ _ (Or.inl rfl), denote_mkBinary RL F _ _ _ _ (Or.inl rfl),
    denote_mkBinary RL F _ _ _ _ (Or.inl rfl)]
  rfl

theorem eval_c0 (ρ : ℕ → ℝ) (x y z : ℝ) : eval c0 ρ x y z = 0 := f32Real_zero
theorem eval_var (i : ℕ) (ρ : ℕ → ℝ) (x y z : ℝ) : eval (var i) ρ x y z = ρ i := rfl

/-! ### loops: `out = union(out, g k)` -/

theorem nc_foldl_union (g : ℕ → SExpr) (l : List ℕ) : ∀ (init : SExpr), init.isConst = false →
    (l.foldl (fun out k => union F out (g k)) init).isConst = false := by
  induction l with
  | nil => intro init h; exact h
  | cons k l ih => intro init h; exact ih _ (nc_union F _ _ h)

theorem foldl_union_inside (g : ℕ → SExpr) (ρ : ℕ → ℝ) (x y z : ℝ) (l : List ℕ) :
    ∀ (init : SExpr), init.isConst = false →
    (eval (l.foldl (fun out k => union F out (g k)) init) ρ x y z < 0 ↔
      eval init ρ x y z < 0 ∨ ∃ k ∈ l, eval (g k) ρ x y z < 0) := by
  induction l with
  | nil => intro init h; simp
  | cons k l ih =>
    intro init h
    simp only [List.foldl_cons]
    rw [ih _ (nc_union F _ _ h), eval_union F _ _ h, min_lt_iff]
    simp only [List.mem_cons, exists_eq_or_imp, or_assoc]

/-- the array loops: copy 0 is the shape itself, copies 1 … n-1 are `g 0 … g (n-2)` -/
theorem array_loop_inside (g : ℕ → SExpr) (s : SExpr) (hs : s.isConst = false) (n : ℕ) (hn : 1 ≤ n)
    (ρ : ℕ → ℝ) (x y z : ℝ) (P : ℕ → Prop) (h0 : eval s ρ x y z < 0 ↔ P 0)
    (hk : ∀ k, eval (g k) ρ x y z < 0 ↔ P (k + 1)) :
    eval ((List.range (n - 1)).foldl (fun out k => union F out (g k)) s) ρ x y z < 0 ↔
      ∃ k, k < n ∧ P k := by
  rw [foldl_union_inside F g ρ x y z _ s hs]
  constructor
  · rintro (h | ⟨k, hk1, hk2⟩)
    · exact ⟨0, by omega, h0.mp h⟩
    · exact ⟨k + 1, by have := List.mem_range.mp hk1; omega, (hk k).mp hk2⟩
  · rintro ⟨k, hk1, hk2⟩
    cases k with
    | zero => exact Or.inl (h0.mpr hk2)
    | succ k => exact Or.inr ⟨k, List.mem_range.mpr (by omega), (hk k).mpr hk2⟩

/-- value of the literal `Tree(i)` that the array loops multiply the pitch with: the
    single-precision float nearest to `i` (equal to `i` for every i < 2²⁴; `Float32` is opaque to the
    kernel, so this equality is a hypothesis of the `_exact` corollaries and is checked by the
    correspondence run) -/
noncomputable def natLit (k : ℕ) : ℝ := f32Real (Float32.ofNat k).toBits.toNat

/-- offset multiplier of copy number `k` -/
noncomputable def natShift (k : ℕ) : ℝ := if k = 0 then 0 else natLit k

theorem eval_pitch (i k : ℕ) (ρ : ℕ → ℝ) (x y z : ℝ) :
    eval (mkBinary F Op.mul (var i) (litNat k)) ρ x y z = ρ i * natLit k := by
  unfold eval litNat
  rw [denote_mkBinary RL F _ _ _ _ (Or.inl rfl)]; rfl

theorem loft_formula_neg (zmin zmax z A B : ℝ) (h : zmin < zmax) :
    max (z - zmax) (max (zmin - z) (((z - zmin) * B + (zmax - z) * A) / (zmax - zmin))) < 0 ↔
      (zmin < z ∧ z < zmax) ∧
      (1 - (z - zmin) / (zmax - zmin)) * A + (z - zmin) / (zmax - zmin) * B < 0 := by
  have hd : 0 < zmax - zmin := by linarith
  have e : (1 - (z - zmin) / (zmax - zmin)) * A + (z - zmin) / (zmax - zmin) * B
      = ((z - zmin) * B + (zmax - z) * A) / (zmax - zmin) := by
    field_simp; ring
  rw [e]; simp only [max_lt_iff, sub_neg]
  tauto

/-- `loft_between`: the two sections are sampled at sheared positions, then lofted -/
theorem eval_loft_between (a b : SExpr) (i1 i2 i3 j1 j2 j3 : ℕ) (ha : a.isConst = false)
    (ρ : ℕ → ℝ) (x y z : ℝ) :
    eval (loft_between F a b ⟨var i1, var i2, var i3⟩ ⟨var j1, var j2, var j3⟩) ρ x y z =
      max (z - ρ j3) (max (ρ i3 - z)
        (((z - ρ i3) * eval b ρ (x + (ρ j3 - z) / (ρ j3 - ρ i3) * (ρ j1 - ρ i1))
                                  (y + (ρ j3 - z) / (ρ j3 - ρ i3) * (ρ j2 - ρ i2)) z
          + (ρ j3 - z) * eval a ρ (x + (z - ρ i3) / (ρ j3 - ρ i3) * (ρ i1 - ρ j1))
                                    (y + (z - ρ i3) / (ρ j3 - ρ i3) * (ρ i2 - ρ j2)) z)
         / (ρ j3 - ρ i3))) := by
  unfold loft_between
  simp only []
  rw [eval_loft F _ _ i3 j3 (nc_mkRemap _ _ _ _ ha), eval_remap, eval_remap]
  rfl

/-! ### transforms and revolve -/

theorem eval_x (ρ : ℕ → ℝ) (x y z : ℝ) : eval SExpr.x ρ x y z = x := rfl
theorem eval_y (ρ : ℕ → ℝ) (x y z : ℝ) : eval SExpr.y ρ x y z = y := rfl
theorem eval_z (ρ : ℕ → ℝ) (x y z : ℝ) : eval SExpr.z ρ x y z = z := rfl
theorem eval_revolve_y (s : SExpr) (i : ℕ) (hs : s.isConst = false)
    (hF : f32Real (F.un Op.neg 0) = 0) (ρ : ℕ → ℝ) (x y z : ℝ) :
    eval (revolve_y F s (var i)) ρ x y z =
      min (eval s ρ (ρ i + Real.sqrt ((x - ρ i) * (x - ρ i) + z * z)) y z)
          (eval s ρ (ρ i - Real.sqrt ((x - ρ i) * (x - ρ i) + z * z)) y z) := by
  unfold revolve_y; simp only []
  rw [eval_move', eval_union F _ _ (nc_mkRemap _ _ _ _ (nc_move F _ _ hs)), eval_remap, eval_remap,
    eval_move', eval_move']
  have e0 : ∀ a b c, eval (mkUnary F Op.neg c0) ρ a b c = 0 := fun _ _ _ => hF
  have e1 : ∀ a b c, eval (mkUnary F Op.neg (var i)) ρ a b c = -ρ i := fun _ _ _ => rfl
  have e2 : ∀ a b c, eval (mkUnary F Op.sqrt (mkBinary F Op.add (mkUnary F Op.square SExpr.x)
      (mkUnary F Op.square SExpr.z))) ρ a b c = Real.sqrt (a * a + c * c) := fun _ _ _ => rfl
  have e3 : ∀ a b c, eval (mkUnary F Op.neg (mkUnary F Op.sqrt (mkBinary F Op.add (mkUnary F Op.square SExpr.x)
      (mkUnary F Op.square SExpr.z)))) ρ a b c = -Real.sqrt (a * a + c * c) := fun _ _ _ => rfl
  simp only [v3neg, eval_var, eval_c0, sub_zero, e0, e1, e2, e3, eval_x, eval_y, eval_z, sub_neg_eq_add]
  congr 1 <;> congr 1 <;> ring


/-- the radial falloff factor of attract / repel -/
noncomputable def fallout (σ e r d : ℝ) : ℝ := 1 + σ * e * Real.exp (-d / r)
noncomputable def msq (b : Bool) (v : ℝ) : ℝ := if b then v * v else 0

theorem eval_attract_repel (t : SExpr) (i j k r e : ℕ) (sgn : SExpr) (σ : ℝ)
    (hs : (sgn = c1 ∧ σ = 1) ∨ (sgn = cNeg1 ∧ σ = -1)) (ax ay az : Bool)
    (hsq : F.un Op.square 0 = 0) (hadd : F.bin Op.add 0 0 = 0)
    (ρ : ℕ → ℝ) (x y z : ℝ) :
    eval (attract_repel_generic F t ⟨var i, var j, var k⟩ (var r) (var e) sgn ax ay az) ρ x y z =
      eval t ρ
        ((x - ρ i) * (if ax then fallout σ (ρ e) (ρ r)
            (Real.sqrt (msq ax (x - ρ i) + msq ay (y - ρ j) + msq az (z - ρ k))) else 1) + ρ i)
        ((y - ρ j) * (if ay then fallout σ (ρ e) (ρ r)
            (Real.sqrt (msq ax (x - ρ i) + msq ay (y - ρ j) + msq az (z - ρ k))) else 1) + ρ j)
        ((z - ρ k) * (if az then fallout σ (ρ e) (ρ r)
            (Real.sqrt (msq ax (x - ρ i) + msq ay (y - ρ j) + msq az (z - ρ k))) else 1) + ρ k) := by
  unfold attract_repel_generic
  simp only []
  rw [eval_move', eval_remap, eval_move']
  simp only [v3neg, eval_var]
  have e1 : ∀ (n : ℕ) a b c, eval (mkUnary F Op.neg (var n)) ρ a b c = -ρ n := fun _ _ _ _ => rfl
  simp only [e1, sub_neg_eq_add]
  rcases hs with ⟨rfl, rfl⟩ | ⟨rfl, rfl⟩ <;> cases ax <;> cases ay <;> cases az <;>
    simp [eval, denote, realI, realBin, realUn, mkBinary, mkBinaryFuel, binaryFuel, mkUnary, c0, c1, cNeg1,
      isZeroBits, isOneBits, isNegOneBits, hsq, hadd, fallout, msq, f32Real_zero, f32Real_one, f32Real_negone]


noncomputable def twirlAngle (a r d : ℝ) : ℝ := a * Real.exp (-d / r)

theorem eval_centered_twirl_x (t : SExpr) (a r : ℕ) (ρ : ℕ → ℝ) (x y z : ℝ) :
    eval (centered_twirl_x F t (var a) (var r)) ρ x y z =
      eval t ρ x
        (Real.cos (twirlAngle (ρ a) (ρ r) (Real.sqrt (x * x + y * y + z * z))) * y +
         Real.sin (twirlAngle (ρ a) (ρ r) (Real.sqrt (x * x + y * y + z * z))) * z)
        (Real.cos (twirlAngle (ρ a) (ρ r) (Real.sqrt (x * x + y * y + z * z))) * z -
         Real.sin (twirlAngle (ρ a) (ρ r) (Real.sqrt (x * x + y * y + z * z))) * y) := by
  unfold centered_twirl_x generic_centered_twirl_x
  simp only []
  rw [eval_remap]; rfl

theorem eval_centered_twirl_axis_x (t : SExpr) (a r : ℕ) (hsq : F.un Op.square 0 = 0)
    (ρ : ℕ → ℝ) (x y z : ℝ) :
    eval (centered_twirl_axis_x F t (var a) (var r)) ρ x y z =
      eval t ρ x
        (Real.cos (twirlAngle (ρ a) (ρ r) (Real.sqrt (y * y + z * z))) * y +
         Real.sin (twirlAngle (ρ a) (ρ r) (Real.sqrt (y * y + z * z))) * z)
        (Real.cos (twirlAngle (ρ a) (ρ r) (Real.sqrt (y * y + z * z))) * z -
         Real.sin (twirlAngle (ρ a) (ρ r) (Real.sqrt (y * y + z * z))) * y) := by
  unfold centered_twirl_axis_x generic_centered_twirl_x
  simp only []
  have h0 : mkUnary F Op.square c0 = c0 := by simp [mkUnary, c0, hsq]
  rw [eval_remap, h0]; rfl

theorem eval_reflect_xy (t : SExpr) (ρ : ℕ → ℝ) (x y z : ℝ) :
    eval (reflect_xy t) ρ x y z = eval t ρ y x z := by
  unfold reflect_xy; rw [eval_remap]; rfl
theorem eval_reflect_xz (t : SExpr) (ρ : ℕ → ℝ) (x y z : ℝ) :
    eval (reflect_xz t) ρ x y z = eval t ρ z y x := by
  unfold reflect_xz; rw [eval_remap]; rfl

theorem eval_neg_var (n : ℕ) (ρ : ℕ → ℝ) (a b c : ℝ) : eval (mkUnary F Op.neg (var n)) ρ a b c = -ρ n := rfl

theorem eval_twirl_x (s : SExpr) (a r i j k : ℕ) (ρ : ℕ → ℝ) (x y z : ℝ) :
    eval (twirl_x F s (var a) (var r) ⟨var i, var j, var k⟩) ρ x y z =
      eval s ρ x
        (Real.cos (twirlAngle (ρ a) (ρ r) (Real.sqrt ((x - ρ i) * (x - ρ i) + (y - ρ j) * (y - ρ j) + (z - ρ k) * (z - ρ k)))) * (y - ρ j) +
         Real.sin (twirlAngle (ρ a) (ρ r) (Real.sqrt ((x - ρ i) * (x - ρ i) + (y - ρ j) * (y - ρ j) + (z - ρ k) * (z - ρ k)))) * (z - ρ k) + ρ j)
        (Real.cos (twirlAngle (ρ a) (ρ r) (Real.sqrt ((x - ρ i) * (x - ρ i) + (y - ρ j) * (y - ρ j) + (z - ρ k) * (z - ρ k)))) * (z - ρ k) -
         Real.sin (twirlAngle (ρ a) (ρ r) (Real.sqrt ((x - ρ i) * (x - ρ i) + (y - ρ j) * (y - ρ j) + (z - ρ k) * (z - ρ k)))) * (y - ρ j) + ρ k) := by
  unfold twirl_x generic_twirl_n
  simp only [id]
  rw [eval_move', eval_centered_twirl_x, eval_move']
  simp only [v3neg, eval_var, eval_neg_var, sub_neg_eq_add, sub_add_cancel]

theorem eval_twirl_y (s : SExpr) (a r i j k : ℕ) (ρ : ℕ → ℝ) (x y z : ℝ) :
    eval (twirl_y F s (var a) (var r) ⟨var i, var j, var k⟩) ρ x y z =
      eval s ρ
        (Real.cos (twirlAngle (ρ a) (ρ r) (Real.sqrt ((y - ρ j) * (y - ρ j) + (x - ρ i) * (x - ρ i) + (z - ρ k) * (z - ρ k)))) * (x - ρ i) +
         Real.sin (twirlAngle (ρ a) (ρ r) (Real.sqrt ((y - ρ j) * (y - ρ j) + (x - ρ i) * (x - ρ i) + (z - ρ k) * (z - ρ k)))) * (z - ρ k) + ρ i)
        y
        (Real.cos (twirlAngle (ρ a) (ρ r) (Real.sqrt ((y - ρ j) * (y - ρ j) + (x - ρ i) * (x - ρ i) + (z - ρ k) * (z - ρ k)))) * (z - ρ k) -
         Real.sin (twirlAngle (ρ a) (ρ r) (Real.sqrt ((y - ρ j) * (y - ρ j) + (x - ρ i) * (x - ρ i) + (z - ρ k) * (z - ρ k)))) * (x - ρ i) + ρ k) := by
  unfold twirl_y generic_twirl_n
  simp only []
  rw [eval_move', eval_reflect_xy, eval_centered_twirl_x, eval_reflect_xy, eval_move']
  simp only [v3neg, eval_var, eval_neg_var, sub_neg_eq_add, sub_add_cancel]


theorem eval_twirl_axis_x (s : SExpr) (a r i j k : ℕ) (hsq : F.un Op.square 0 = 0)
    (ρ : ℕ → ℝ) (x y z : ℝ) :
    eval (twirl_axis_x F s (var a) (var r) ⟨var i, var j, var k⟩) ρ x y z =
      eval s ρ x
        (Real.cos (twirlAngle (ρ a) (ρ r) (Real.sqrt ((y - ρ j) * (y - ρ j) + (z - ρ k) * (z - ρ k)))) * (y - ρ j) +
         Real.sin (twirlAngle (ρ a) (ρ r) (Real.sqrt ((y - ρ j) * (y - ρ j) + (z - ρ k) * (z - ρ k)))) * (z - ρ k) + ρ j)
        (Real.cos (twirlAngle (ρ a) (ρ r) (Real.sqrt ((y - ρ j) * (y - ρ j) + (z - ρ k) * (z - ρ k)))) * (z - ρ k) -
         Real.sin (twirlAngle (ρ a) (ρ r) (Real.sqrt ((y - ρ j) * (y - ρ j) + (z - ρ k) * (z - ρ k)))) * (y - ρ j) + ρ k) := by
  unfold twirl_axis_x generic_twirl_n
  simp only [id]
  rw [eval_move', eval_centered_twirl_axis_x F _ _ _ hsq, eval_move']
  simp only [v3neg, eval_var, eval_neg_var, sub_neg_eq_add, sub_add_cancel]

theorem eval_twirl_axis_y (s : SExpr) (a r i j k : ℕ) (hsq : F.un Op.square 0 = 0)
    (ρ : ℕ → ℝ) (x y z : ℝ) :
    eval (twirl_axis_y F s (var a) (var r) ⟨var i, var j, var k⟩) ρ x y z =
      eval s ρ
        (Real.cos (twirlAngle (ρ a) (ρ r) (Real.sqrt ((x - ρ i) * (x - ρ i) + (z - ρ k) * (z - ρ k)))) * (x - ρ i) +
         Real.sin (twirlAngle (ρ a) (ρ r) (Real.sqrt ((x - ρ i) * (x - ρ i) + (z - ρ k) * (z - ρ k)))) * (z - ρ k) + ρ i)
        y
        (Real.cos (twirlAngle (ρ a) (ρ r) (Real.sqrt ((x - ρ i) * (x - ρ i) + (z - ρ k) * (z - ρ k)))) * (z - ρ k) -
         Real.sin (twirlAngle (ρ a) (ρ r) (Real.sqrt ((x - ρ i) * (x - ρ i) + (z - ρ k) * (z - ρ k)))) * (x - ρ i) + ρ k) := by
  unfold twirl_axis_y generic_twirl_n
  simp only []
  rw [eval_move', eval_reflect_xy, eval_centered_twirl_axis_x F _ _ _ hsq, eval_reflect_xy, eval_move']
  simp only [v3neg, eval_var, eval_neg_var, sub_neg_eq_add, sub_add_cancel]

theorem eval_twirl_z (s : SExpr) (a r i j k : ℕ) (ρ : ℕ → ℝ) (x y z : ℝ) :
    eval (twirl_z F s (var a) (var r) ⟨var i, var j, var k⟩) ρ x y z =
      eval s ρ
        (Real.cos (twirlAngle (ρ a) (ρ r) (Real.sqrt ((z - ρ k) * (z - ρ k) + (y - ρ j) * (y - ρ j) + (x - ρ i) * (x - ρ i)))) * (x - ρ i) -
         Real.sin (twirlAngle (ρ a) (ρ r) (Real.sqrt ((z - ρ k) * (z - ρ k) + (y - ρ j) * (y - ρ j) + (x - ρ i) * (x - ρ i)))) * (y - ρ j) + ρ i)
        (Real.cos (twirlAngle (ρ a) (ρ r) (Real.sqrt ((z - ρ k) * (z - ρ k) + (y - ρ j) * (y - ρ j) + (x - ρ i) * (x - ρ i)))) * (y - ρ j) +
         Real.sin (twirlAngle (ρ a) (ρ r) (Real.sqrt ((z - ρ k) * (z - ρ k) + (y - ρ j) * (y - ρ j) + (x - ρ i) * (x - ρ i)))) * (x - ρ i) + ρ j)
        z := by
  unfold twirl_z generic_twirl_n
  simp only []
  rw [eval_move', eval_reflect_xz, eval_centered_twirl_x, eval_reflect_xz, eval_move']
  simp only [v3neg, eval_var, eval_neg_var, sub_neg_eq_add, sub_add_cancel]

theorem eval_twirl_axis_z (s : SExpr) (a r i j k : ℕ) (hsq : F.un Op.square 0 = 0)
    (ρ : ℕ → ℝ) (x y z : ℝ) :
    eval (twirl_axis_z F s (var a) (var r) ⟨var i, var j, var k⟩) ρ x y z =
      eval s ρ
        (Real.cos (twirlAngle (ρ a) (ρ r) (Real.sqrt ((y - ρ j) * (y - ρ j) + (x - ρ i) * (x - ρ i)))) * (x - ρ i) -
         Real.sin (twirlAngle (ρ a) (ρ r) (Real.sqrt ((y - ρ j) * (y - ρ j) + (x - ρ i) * (x - ρ i)))) * (y - ρ j) + ρ i)
        (Real.cos (twirlAngle (ρ a) (ρ r) (Real.sqrt ((y - ρ j) * (y - ρ j) + (x - ρ i) * (x - ρ i)))) * (y - ρ j) +
         Real.sin (twirlAngle (ρ a) (ρ r) (Real.sqrt ((y - ρ j) * (y - ρ j) + (x - ρ i) * (x - ρ i)))) * (x - ρ i) + ρ j)
        z := by
  unfold twirl_axis_z generic_twirl_n
  simp only []
  rw [eval_move', eval_reflect_xz, eval_centered_twirl_axis_x F _ _ _ hsq, eval_reflect_xz, eval_move']
  simp only [v3neg, eval_var, eval_neg_var, sub_neg_eq_add, sub_add_cancel]

/-! ### C. shapes -/

theorem eval_rounded_rectangle (ρ : ℕ → ℝ) (x y z : ℝ) :
    eval (rounded_rectangle F ⟨var 0, var 1⟩ ⟨var 2, var 3⟩ (var 4)) ρ x y z =
      min (min (max (max (ρ 0 - x) (x - ρ 2)) (max (ρ 1 + ρ 4 - y) (y - (ρ 3 - ρ 4))))
               (max (max (ρ 0 + ρ 4 - x) (x - (ρ 2 - ρ 4))) (max (ρ 1 - y) (y - ρ 3))))
          (min (min (Real.sqrt ((x - (ρ 0 + ρ 4)) * (x - (ρ 0 + ρ 4)) + (y - (ρ 1 + ρ 4)) * (y - (ρ 1 + ρ 4))) - ρ 4)
                    (Real.sqrt ((x - (ρ 2 - ρ 4)) * (x - (ρ 2 - ρ 4)) + (y - (ρ 3 - ρ 4)) * (y - (ρ 3 - ρ 4))) - ρ 4))
               (min (Real.sqrt ((x - (ρ 0 + ρ 4)) * (x - (ρ 0 + ρ 4)) + (y - (ρ 3 - ρ 4)) * (y - (ρ 3 - ρ 4))) - ρ 4)
                    (Real.sqrt ((x - (ρ 2 - ρ 4)) * (x - (ρ 2 - ρ 4)) + (y - (ρ 1 + ρ 4)) * (y - (ρ 1 + ρ 4))) - ρ 4))) := rfl

theorem eval_emptiness (ρ : ℕ → ℝ) (x y z : ℝ) : eval emptiness ρ x y z = f32Real 0x7f800000 := rfl

theorem f32Real_inf_pos : 0 < f32Real 0x7f800000 := by
  norm_num [f32Real]

/-! ### gyroid -/

theorem rigid_mul (a b : SExpr) (ha : a.isConst = false) (hb : b.isConst = false) :
    rigid (mkBinary F Op.mul a b) = true := by
  show rigid (mkBinaryFuel F (63 + 1) Op.mul a b) = true
  unfold mkBinaryFuel
  cases a with
  | const c => simp [isConst] at ha
  | _ =>
    cases b with
    | const c => simp [isConst] at hb
    | _ =>
      simp only []
      split
      · rw [mkUnary_plain F _ _ (by rfl) (by decide) (by decide)]; rfl
      · rfl

/-- the literal `2 * M_PI` of `gyroid`, as a real number (6.2831855 in the C++; `Float` is opaque
    to the kernel) -/
noncomputable def tauVal : ℝ := f32Real (2 * M_PI).toFloat32.toBits.toNat

noncomputable def gyroidField (px py pz τ x y z : ℝ) : ℝ :=
  Real.sin (x * px / τ) * Real.cos (y * py / τ) + Real.sin (y * py / τ) * Real.cos (z * pz / τ) +
    Real.sin (z * pz / τ) * Real.cos (x * px / τ)

theorem eval_gyroid_core (Ax Ay Az o : SExpr) (hx : Ax.isConst = false) (hy : Ay.isConst = false)
    (hz : Az.isConst = false) (ho : o.isConst = false) (ρ : ℕ → ℝ) (x y z : ℝ) :
    eval (shell F (mkBinary F Op.add (mkBinary F Op.add
        (mkBinary F Op.mul (mkUnary F Op.sin Ax) (mkUnary F Op.cos Ay))
        (mkBinary F Op.mul (mkUnary F Op.sin Ay) (mkUnary F Op.cos Az)))
        (mkBinary F Op.mul (mkUnary F Op.sin Az) (mkUnary F Op.cos Ax))) o) ρ x y z =
      max (Real.sin (eval Ax ρ x y z) * Real.cos (eval Ay ρ x y z) +
           Real.sin (eval Ay ρ x y z) * Real.cos (eval Az ρ x y z) +
           Real.sin (eval Az ρ x y z) * Real.cos (eval Ax ρ x y z))
        (-((Real.sin (eval Ax ρ x y z) * Real.cos (eval Ay ρ x y z) +
           Real.sin (eval Ay ρ x y z) * Real.cos (eval Az ρ x y z) +
           Real.sin (eval Az ρ x y z) * Real.cos (eval Ax ρ x y z)) + |eval o ρ x y z|)) := by
  rw [mkUnary_plain F Op.sin _ hx (by decide) (by decide), mkUnary_plain F Op.sin _ hy (by decide) (by decide),
    mkUnary_plain F Op.sin _ hz (by decide) (by decide), mkUnary_plain F Op.cos _ hx (by decide) (by decide),
    mkUnary_plain F Op.cos _ hy (by decide) (by decide), mkUnary_plain F Op.cos _ hz (by decide) (by decide)]
  have h3 := rigid_mul F (un Op.sin Az) (un Op.cos Ax) rfl rfl
  have h2 := rigid_mul F (un Op.sin Ay) (un Op.cos Az) rfl rfl
  rw [eval_shell F _ o (nc_add_rigid F _ _ (Or.inr h3)) ho]
  have e : eval (mkBinary F Op.add (mkBinary F Op.add
        (mkBinary F Op.mul (un Op.sin Ax) (un Op.cos Ay))
        (mkBinary F Op.mul (un Op.sin Ay) (un Op.cos Az)))
        (mkBinary F Op.mul (un Op.sin Az) (un Op.cos Ax))) ρ x y z =
      Real.sin (eval Ax ρ x y z) * Real.cos (eval Ay ρ x y z) +
           Real.sin (eval Ay ρ x y z) * Real.cos (eval Az ρ x y z) +
           Real.sin (eval Az ρ x y z) * Real.cos (eval Ax ρ x y z) := by
    unfold eval
    rw [denote_mkBinary RL F Op.add _ _ _ (Or.inr (rigid_nc h3)),
      denote_mkBinary RL F Op.add _ _ _ (Or.inr (rigid_nc h2)),
      denote_mkBinary RL F Op.mul _ _ _ (Or.inl rfl), denote_mkBinary RL F Op.mul _ _ _ (Or.inl rfl),
      denote_mkBinary RL F Op.mul _ _ _ (Or.inl rfl)]
    rfl
  rw [e]

theorem eval_gyroid (ρ : ℕ → ℝ) (x y z : ℝ) :
    eval (gyroid F ⟨var 0, var 1, var 2⟩ (var 3)) ρ x y z =
      max (gyroidField (ρ 0) (ρ 1) (ρ 2) tauVal x y z)
        (-(gyroidField (ρ 0) (ρ 1) (ρ 2) tauVal x y z + |ρ 3|)) := by
  unfold gyroid
  simp only []
  rw [eval_gyroid_core F _ _ _ _ (nc_div F _ _ rfl) (nc_div F _ _ rfl) (nc_div F _ _ rfl) rfl]
  have e : ∀ (c : SExpr) (n : ℕ), (c = SExpr.x ∨ c = SExpr.y ∨ c = SExpr.z) →
      eval (mkBinary F Op.div (mkBinary F Op.mul c (var n)) (litD (2 * M_PI))) ρ x y z =
        eval c ρ x y z * ρ n / tauVal := by
    intro c n hc
    unfold eval
    rw [denote_mkBinary RL F Op.div _ _ _ (Or.inl (by rcases hc with rfl | rfl | rfl <;> rfl))]
    rcases hc with rfl | rfl | rfl <;> rfl
  rw [e _ _ (Or.inl rfl), e _ _ (Or.inr (Or.inl rfl)), e _ _ (Or.inr (Or.inr rfl))]
  have e1 : eval (mkUnary F Op.neg (var 3)) ρ x y z = -ρ 3 := rfl
  rw [e1, abs_neg]
  rfl

/-! ### pyramid_z -/

noncomputable def pyrHyp (d h : ℝ) : ℝ := Real.sqrt (d * d + h * h)
noncomputable def pyrPlane (d h u w : ℝ) : ℝ :=
  -(u * h / pyrHyp d h - w * d / pyrHyp d h +
    2 * (Real.sqrt ((pyrHyp d h + (max d h + min d h)) * (min d h - (pyrHyp d h - max d h)) *
            (min d h + (pyrHyp d h - max d h)) * (pyrHyp d h + (max d h - min d h))) / 4) / pyrHyp d h)

/-- the x side plane of `pyramid_z` (the `x_plane` local of the C++), on coordinate `c` -/
def pyrPlaneTree (c lo hi height : SExpr) : SExpr :=
  let dx := mkBinary F Op.div (mkBinary F Op.sub hi lo) c2
  let hy_x := mkUnary F Op.sqrt (mkBinary F Op.add (mkUnary F Op.square dx) (mkUnary F Op.square height))
  let short_x := mkBinary F Op.min dx height
  let mid_x := mkBinary F Op.max dx height
  let area_x := mkBinary F Op.div (mkUnary F Op.sqrt (mkBinary F Op.mul (mkBinary F Op.mul (mkBinary F Op.mul
      (mkBinary F Op.add hy_x (mkBinary F Op.add mid_x short_x))
      (mkBinary F Op.sub short_x (mkBinary F Op.sub hy_x mid_x)))
      (mkBinary F Op.add short_x (mkBinary F Op.sub hy_x mid_x)))
      (mkBinary F Op.add hy_x (mkBinary F Op.sub mid_x short_x)))) c4
  let x_offset := mkBinary F Op.div (mkBinary F Op.mul c2 area_x) hy_x
  mkUnary F Op.neg (mkBinary F Op.add (mkBinary F Op.sub (mkBinary F Op.div (mkBinary F Op.mul c height) hy_x)
    (mkBinary F Op.div (mkBinary F Op.mul SExpr.z dx) hy_x)) x_offset)

theorem pyramid_z_unfold (a b : V2) (zmin height : SExpr) :
    pyramid_z F a b zmin height =
      move F (intersection F (intersection F
        (intersection F (pyrPlaneTree F SExpr.x a.x b.x height) (reflect_x F (pyrPlaneTree F SExpr.x a.x b.x height) c0))
        (intersection F (pyrPlaneTree F SExpr.y a.y b.y height) (reflect_y F (pyrPlaneTree F SExpr.y a.y b.y height) c0)))
        (mkUnary F Op.neg SExpr.z))
        ⟨mkBinary F Op.div (mkBinary F Op.add a.x b.x) c2, mkBinary F Op.div (mkBinary F Op.add a.y b.y) c2, zmin⟩ := rfl

theorem eval_pyrPlaneTree_x (lo hi h : ℕ) (ρ : ℕ → ℝ) (x y z : ℝ) :
    eval (pyrPlaneTree F SExpr.x (var lo) (var hi) (var h)) ρ x y z = pyrPlane ((ρ hi - ρ lo) / 2) (ρ h) x z := by
  unfold pyrPlane pyrHyp pyrPlaneTree
  simp [eval, denote, realI, realBin, realUn, mkBinary, mkBinaryFuel, binaryFuel, mkUnary, c2, c4,
    isZeroBits, isOneBits, isNegOneBits, f32Real_two, f32Real_four]
theorem eval_pyrPlaneTree_y (lo hi h : ℕ) (ρ : ℕ → ℝ) (x y z : ℝ) :
    eval (pyrPlaneTree F SExpr.y (var lo) (var hi) (var h)) ρ x y z = pyrPlane ((ρ hi - ρ lo) / 2) (ρ h) y z := by
  unfold pyrPlane pyrHyp pyrPlaneTree
  simp [eval, denote, realI, realBin, realUn, mkBinary, mkBinaryFuel, binaryFuel, mkUnary, c2, c4,
    isZeroBits, isOneBits, isNegOneBits, f32Real_two, f32Real_four]

theorem nc_pyrPlaneTree (c : SExpr) (hc : c = SExpr.x ∨ c = SExpr.y) (lo hi h : ℕ) :
    (pyrPlaneTree F c (var lo) (var hi) (var h)).isConst = false := by
  rcases hc with rfl | rfl <;>
  simp [pyrPlaneTree, mkBinary, mkBinaryFuel, binaryFuel, mkUnary, c2, c4, isConst,
    isZeroBits, isOneBits, isNegOneBits]

theorem eval_intersection (a b : SExpr) (ha : a.isConst = false) (ρ : ℕ → ℝ) (x y z : ℝ) :
    eval (intersection F a b) ρ x y z = max (eval a ρ x y z) (eval b ρ x y z) := by
  unfold eval intersection; rw [denote_mkBinary RL F _ _ _ _ (Or.inl ha)]; rfl

theorem nc_intersection (a b : SExpr) (ha : a.isConst = false) : (intersection F a b).isConst = false :=
  nc_minmax F _ (Or.inr rfl) a b ha

theorem eval_pyramid_z (hmul : F.bin Op.mul 0x40000000 0 = 0) (ρ : ℕ → ℝ) (x y z : ℝ) :
    eval (pyramid_z F ⟨var 0, var 1⟩ ⟨var 2, var 3⟩ (var 4) (var 5)) ρ x y z =
      max (max (max (pyrPlane ((ρ 2 - ρ 0) / 2) (ρ 5) (x - (ρ 0 + ρ 2) / 2) (z - ρ 4))
                    (pyrPlane ((ρ 2 - ρ 0) / 2) (ρ 5) (-(x - (ρ 0 + ρ 2) / 2)) (z - ρ 4)))
               (max (pyrPlane ((ρ 3 - ρ 1) / 2) (ρ 5) (y - (ρ 1 + ρ 3) / 2) (z - ρ 4))
                    (pyrPlane ((ρ 3 - ρ 1) / 2) (ρ 5) (-(y - (ρ 1 + ρ 3) / 2)) (z - ρ 4))))
          (-(z - ρ 4)) := by
  have hx := nc_pyrPlaneTree F SExpr.x (Or.inl rfl) 0 2 5
  have hy := nc_pyrPlaneTree F SExpr.y (Or.inr rfl) 1 3 5
  have h0 : mkBinary F Op.mul c2 c0 = c0 := by
    show const (F.bin Op.mul 0x40000000 0) = const 0
    rw [hmul]
  have hrx : ∀ t, reflect_x F t c0 = mkRemap t (un Op.neg SExpr.x) SExpr.y SExpr.z := by
    intro t; unfold reflect_x; rw [h0]; rfl
  have hry : ∀ t, reflect_y F t c0 = mkRemap t SExpr.x (un Op.neg SExpr.y) SExpr.z := by
    intro t; unfold reflect_y; rw [h0]; rfl
  rw [pyramid_z_unfold, eval_move']
  simp only []
  rw [eval_intersection F _ _ (nc_intersection F _ _ (nc_intersection F _ _ hx)),
    eval_intersection F _ _ (nc_intersection F _ _ hx),
    eval_intersection F _ _ hx, eval_intersection F _ _ hy, hrx, hry, eval_remap, eval_remap,
    ]
  have e2 : ∀ a b, eval (mkBinary F Op.div (mkBinary F Op.add (var a) (var b)) c2) ρ x y z = (ρ a + ρ b) / 2 := by
    intro a b; rw [← f32Real_two]; rfl
  have e3 : ∀ a b c, eval (un Op.neg SExpr.x) ρ a b c = -a := fun _ _ _ => rfl
  have e4 : ∀ a b c, eval (un Op.neg SExpr.y) ρ a b c = -b := fun _ _ _ => rfl
  have e5 : ∀ a b c, eval (mkUnary F Op.neg SExpr.z) ρ a b c = -c := fun _ _ _ => rfl
  simp only [e2, e3, e4, e5, eval_var, eval_x, eval_y, eval_z, eval_pyrPlaneTree_x, eval_pyrPlaneTree_y]

/-! ### rounded_box -/

/-- the closed formula of `box_exact_centered` (half sizes `h`, centre `c`) -/
noncomputable def boxField (hx hy hz cx cy cz x y z : ℝ) : ℝ :=
  min 0 (max (|x - cx| - hx) (max (|y - cy| - hy) (|z - cz| - hz))) +
    Real.sqrt (max (|x - cx| - hx) 0 * max (|x - cx| - hx) 0 + max (|y - cy| - hy) 0 * max (|y - cy| - hy) 0 +
      max (|z - cz| - hz) 0 * max (|z - cz| - hz) 0)

/-- the corner radius that `rounded_box` derives from the fraction `r = v6` -/
noncomputable def rbRadius (ρ : ℕ → ℝ) : ℝ := ρ 6 * min (ρ 3 - ρ 0) (min (ρ 4 - ρ 1) (ρ 5 - ρ 2)) / 2

theorem eval_rounded_box (ρ : ℕ → ℝ) (x y z : ℝ) :
    eval (rounded_box F ⟨var 0, var 1, var 2⟩ ⟨var 3, var 4, var 5⟩ (var 6)) ρ x y z =
      boxField ((ρ 3 - rbRadius ρ - (ρ 0 + rbRadius ρ)) / 2) ((ρ 4 - rbRadius ρ - (ρ 1 + rbRadius ρ)) / 2)
               ((ρ 5 - rbRadius ρ - (ρ 2 + rbRadius ρ)) / 2)
               ((ρ 0 + rbRadius ρ + (ρ 3 - rbRadius ρ)) / 2) ((ρ 1 + rbRadius ρ + (ρ 4 - rbRadius ρ)) / 2)
               ((ρ 2 + rbRadius ρ + (ρ 5 - rbRadius ρ)) / 2) x y z - rbRadius ρ := by
  unfold boxField rbRadius rounded_box box_exact box_exact_centered offset v3add v3sub v3div
  simp [eval, denote, realI, realBin, realUn, mkBinary, mkBinaryFuel, binaryFuel, mkUnary, c0, c2,
    isZeroBits, isOneBits, isNegOneBits, f32Real_two, f32Real_zero]

/-! ### real analysis for `pyramid_z` -/

theorem pyrHyp_pos (d h : ℝ) (hh : 0 < h) : 0 < pyrHyp d h :=
  Real.sqrt_pos.mpr (by nlinarith [mul_self_nonneg d, mul_pos hh hh])

/-- Heron's formula on the right triangle with legs `d`, `h` gives `d·h/2`, so the plane is the
    one through the base edge and the apex -/
theorem pyrPlane_eq (d h u w : ℝ) (hd : 0 < d) (hh : 0 < h) :
    pyrPlane d h u w = -(u * h - w * d + d * h) / pyrHyp d h := by
  have hH := pyrHyp_pos d h hh
  have hHH : pyrHyp d h * pyrHyp d h = d * d + h * h :=
    Real.mul_self_sqrt (by nlinarith [mul_self_nonneg d, mul_self_nonneg h])
  have key : Real.sqrt ((pyrHyp d h + (max d h + min d h)) * (min d h - (pyrHyp d h - max d h)) *
            (min d h + (pyrHyp d h - max d h)) * (pyrHyp d h + (max d h - min d h))) = 2 * d * h := by
    have e : (pyrHyp d h + (max d h + min d h)) * (min d h - (pyrHyp d h - max d h)) *
            (min d h + (pyrHyp d h - max d h)) * (pyrHyp d h + (max d h - min d h)) = (2 * d * h) ^ 2 := by
      rcases le_total d h with hle | hle
      · rw [max_eq_right hle, min_eq_left hle]
        linear_combination (-(pyrHyp d h * pyrHyp d h - d * d - h * h)) * hHH
      · rw [max_eq_left hle, min_eq_right hle]
        linear_combination (-(pyrHyp d h * pyrHyp d h - d * d - h * h)) * hHH
    rw [e, Real.sqrt_sq (by positivity)]
  unfold pyrPlane
  rw [key]
  field_simp
  ring

theorem pyrPlane_neg_iff (d h u w : ℝ) (hd : 0 < d) (hh : 0 < h) :
    pyrPlane d h u w < 0 ↔ w * d < h * (d + u) := by
  rw [pyrPlane_eq d h u w hd hh, div_neg_iff]
  have hH := pyrHyp_pos d h hh
  constructor
  · rintro (⟨_, h2⟩ | ⟨h1, _⟩)
    · linarith
    · linarith
  · intro h1; exact Or.inr ⟨by linarith, hH⟩

/-! ### loops: `out = intersection(out, g k)` (polygon) -/

theorem foldl_intersection_inside (g : ℕ → SExpr) (ρ : ℕ → ℝ) (x y z : ℝ) (l : List ℕ) :
    ∀ (init : SExpr), init.isConst = false →
    (eval (l.foldl (fun out k => intersection F out (g k)) init) ρ x y z < 0 ↔
      eval init ρ x y z < 0 ∧ ∀ k ∈ l, eval (g k) ρ x y z < 0) := by
  induction l with
  | nil => intro init h; simp
  | cons k l ih =>
    intro init h
    simp only [List.foldl_cons]
    rw [ih _ (nc_intersection F _ _ h), eval_intersection F _ _ h, max_lt_iff]
    simp only [List.mem_cons, forall_eq_or_imp, and_assoc]

/-- the half plane `y - r·cos(π/n)` that `polygon` rotates n times (r = v0) -/
def polyHalf (n : ℕ) : SExpr :=
  mkBinary F Op.sub SExpr.y (mkBinary F Op.mul (var 0) (litDm F (Float.cos (M_PI / n.toFloat))))

/-- value of the (double → single, `Folder.lit`-processed) literal `cos(π/n)` -/
noncomputable def cosLit (n : ℕ) : ℝ := f32Real (F.lit (Float.cos (M_PI / n.toFloat)).toFloat32.toBits.toNat)

theorem nc_polyHalf (n : ℕ) : (polyHalf F n).isConst = false := nc_sub_rigid F _ _ (Or.inl rfl)

theorem eval_polyHalf (n : ℕ) (ρ : ℕ → ℝ) (x y z : ℝ) :
    eval (polyHalf F n) ρ x y z = y - ρ 0 * cosLit F n := by
  unfold eval polyHalf litDm
  rw [denote_mkBinary RL F _ _ _ _ (Or.inl rfl), denote_mkBinary RL F _ _ _ _ (Or.inl rfl)]
  rfl

end Libfive.Stdlib
