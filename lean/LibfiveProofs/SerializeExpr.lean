/-
  C08 ↔ C01/C07 bridge: the heap DAGs of the archive model (`LibfiveModel/Serialize.lean`) read as
  expression trees `Expr UInt32` of the expression model (`LibfiveModel/Expr.lean`), so that the
  round-trip theorems of C08 become statements about `Expr.denote`, the semantics C01/C06/C07 use.
  Imports C07's helper file (`ExprSound`, hence Mathlib's `Field`) only for `wellArity`.

  What is and is not translated.  A heap node has an opcode, constant bits and two operand ids, so
  the heap can express: constants (by bit pattern), X/Y/Z, free variables, unary and binary
  operations.  It can NOT express remap / apply (`Tree::walk` flattens before the serializer sees a
  tree) and an ORACLE node carries no payload in the heap model (the serializer model refuses it:
  `SErr.oracle`).  `toExpr` therefore never produces `Expr.remap` / `Expr.apply`; an ORACLE node is
  read as `Expr.oracle k` with `k` the node's name, but every theorem about stored archives is about
  heaps whose stored part contains no ORACLE node (`serShapes_noOracle`).
-/
import LibfiveModel.Expr
import LibfiveProofs.ExprSound
import LibfiveProofs.SerializeDenote
import LibfiveProofs.SerializeArchive

namespace Libfive.Serial
open Libfive

/-! ## reading a heap DAG as an expression tree -/

/-- the code of a stream position as a variable number: `none` (not stored) is 0, position `p` is
    `p + 1` -/
def optCode : Option Nat → Nat
  | none => 0
  | some p => p + 1

/-- name a node by its stream position (`pos` is `posOf ids` on the writing side and
    `posOf trees` on the loading side): the only identity a free variable has in a file -/
def posName (pos : NodeId → Option Nat) (n : NodeId) : Nat := optCode (pos n)

/-- name a node by its id (the C++ pointer): the identity a free variable has in a process -/
def idName (n : NodeId) : Nat := n

/-- the operand-free opcodes as expressions; `k` is the name of the node -/
def leafExpr (op : Op) (k : Nat) : Expr UInt32 :=
  match op with
  | .varX => .x
  | .varY => .y
  | .varZ => .z
  | .varFree => .var k
  | .oracle => .oracle k
  | _ => .invalid

/-- **toExpr.**  The DAG below node `n`, unfolded to depth `fuel`, as an expression tree.  `nm`
    names free variables (and oracles).  Same recursion as `evalAt`: CONSTANT first, then by
    `Opcode::args`; out of fuel is `Expr.invalid`. -/
def toExpr (heap : NodeId → Node) (nm : NodeId → Nat) : Nat → NodeId → Expr UInt32
  | 0, _ => .invalid
  | f + 1, n =>
    let nd := heap n
    if nd.op = Op.constant then .const nd.value
    else match nd.op.args with
      | some 1 => .un nd.op (toExpr heap nm f nd.lhs)
      | some 2 => .bin nd.op (toExpr heap nm f nd.lhs) (toExpr heap nm f nd.rhs)
      | _ => leafExpr nd.op (nm n)

/-! ## enough fuel -/

/-- **well-foundedness.**  On the set `S` of nodes (closed under taking operands) the operands of
    a node have strictly smaller rank `rk`.  Instances: `rk = id` when children have smaller ids
    (`ChildrenSmaller`), `rk` = stream position for the id table a successful `serShapes` leaves
    behind (`Stored`, `serShapes_stored`). -/
def Ranked (heap : NodeId → Node) (rk : NodeId → Nat) (S : NodeId → Prop) : Prop :=
  ∀ n, S n →
    ((heap n).op.args = some 1 ∨ (heap n).op.args = some 2 → S (heap n).lhs ∧ rk (heap n).lhs < rk n) ∧
    ((heap n).op.args = some 2 → S (heap n).rhs ∧ rk (heap n).rhs < rk n)

/-- children have smaller ids than their parents (true of every heap built bottom-up) -/
def ChildrenSmaller (heap : NodeId → Node) : Prop :=
  ∀ n, ((heap n).op.args = some 1 ∨ (heap n).op.args = some 2 → (heap n).lhs < n) ∧
       ((heap n).op.args = some 2 → (heap n).rhs < n)

theorem ChildrenSmaller.ranked {heap : NodeId → Node} (h : ChildrenSmaller heap) :
    Ranked heap (fun n => n) (fun _ => True) :=
  fun n _ => ⟨fun a => ⟨trivial, (h n).1 a⟩, fun a => ⟨trivial, (h n).2 a⟩⟩

/-- under `Ranked`, any two fuels above the rank of a node give the same tree: from
    `rk n + 1` on, `toExpr` is the complete unfolding and no `invalid` in it stands for "out of fuel" -/
theorem toExpr_stable {heap : NodeId → Node} {rk : NodeId → Nat} {S : NodeId → Prop}
    (hr : Ranked heap rk S) (nm : NodeId → Nat) :
    ∀ (d d' : Nat) (n : NodeId), S n → rk n < d → rk n < d' →
      toExpr heap nm d n = toExpr heap nm d' n := by
  intro d
  induction d with
  | zero => intro d' n _ h; omega
  | succ d ih =>
    intro d' n hs h1 h2
    cases d' with
    | zero => omega
    | succ d' =>
      obtain ⟨hl, hrr⟩ := hr n hs
      simp only [toExpr]
      by_cases hc : (heap n).op = Op.constant
      · simp [hc]
      · simp only [hc, if_false]
        cases hargs : (heap n).op.args with
        | none => rfl
        | some k =>
          match k, hargs with
          | 0, _ => rfl
          | 1, hargs =>
            obtain ⟨s1, r1⟩ := hl (Or.inl hargs)
            simp only
            rw [ih d' _ s1 (by omega) (by omega)]
          | 2, hargs =>
            obtain ⟨s1, r1⟩ := hl (Or.inr hargs)
            obtain ⟨s2, r2⟩ := hrr hargs
            simp only
            rw [ih d' _ s1 (by omega) (by omega), ih d' _ s2 (by omega) (by omega)]
          | k + 3, _ => rfl

/-! ## `evalAt` is `denote ∘ toExpr` -/

/-- the interpretation of the heap model that an interpretation of expressions and an environment
    induce: constants, unary and binary opcodes as in `I`; X/Y/Z from the environment; the free
    variable at stream position `q` is variable `optCode q`; every other opcode (all of them
    non-structural here) stays as uninterpreted as it is in `I`. -/
def interpOf {α : Type} (I : Libfive.Interp UInt32 α) (env : Env α) : Serial.Interp α where
  const := I.const
  leaf := fun op q =>
    match op with
    | .varX => env.x
    | .varY => env.y
    | .varZ => env.z
    | .varFree => env.vars (optCode q)
    | .oracle => I.orc (optCode q) env.x env.y env.z
    | _ => I.bad
  un := I.un
  bin := I.bin
  dflt := I.bad

theorem interpOf_leaf {α : Type} (I : Libfive.Interp UInt32 α) (env : Env α) (op : Op) (q : Option Nat) :
    (interpOf I env).leaf op q = Expr.denote I (leafExpr op (optCode q)) env := by
  cases op <;> rfl

/-- **evalAt = denote ∘ toExpr**, for every heap, position map, depth and node (no hypothesis) -/
theorem evalAt_toExpr {α : Type} (I : Libfive.Interp UInt32 α) (env : Env α) (heap : NodeId → Node)
    (pos : NodeId → Option Nat) :
    ∀ (d : Nat) (n : NodeId),
      evalAt (interpOf I env) heap pos d n = Expr.denote I (toExpr heap (posName pos) d n) env := by
  intro d
  induction d with
  | zero => intro n; rfl
  | succ d ih =>
    intro n
    simp only [evalAt, toExpr]
    by_cases hc : (heap n).op = Op.constant
    · simp [hc, Expr.denote, interpOf]
    · simp only [hc, if_false]
      cases hargs : (heap n).op.args with
      | none => exact interpOf_leaf I env _ _
      | some k =>
        match k, hargs with
        | 0, _ => exact interpOf_leaf I env _ _
        | 1, _ => simp only [Expr.denote, ih]; rfl
        | 2, _ => simp only [Expr.denote, ih]; rfl
        | k + 3, _ => exact interpOf_leaf I env _ _

/-! ## renaming variables -/

/-- two namings of the nodes and two environments that agree on what every free variable of the
    closed set `S` stands for give the same value (no ORACLE node in `S`: an oracle has no payload
    in the heap model, so nothing could say the two names mean the same oracle) -/
theorem denote_toExpr_rename {α : Type} (I : Libfive.Interp UInt32 α) (heap : NodeId → Node)
    (nm nm' : NodeId → Nat) (env env' : Env α) (S : NodeId → Prop)
    (hcl : ∀ n, S n → ((heap n).op.args = some 1 ∨ (heap n).op.args = some 2 → S (heap n).lhs) ∧
      ((heap n).op.args = some 2 → S (heap n).rhs))
    (hx : env.x = env'.x) (hy : env.y = env'.y) (hz : env.z = env'.z)
    (hv : ∀ n, S n → (heap n).op = Op.varFree → env.vars (nm n) = env'.vars (nm' n))
    (ho : ∀ n, S n → (heap n).op ≠ Op.oracle) :
    ∀ (d : Nat) (n : NodeId), S n →
      Expr.denote I (toExpr heap nm d n) env = Expr.denote I (toExpr heap nm' d n) env' := by
  intro d
  induction d with
  | zero => intro n _; rfl
  | succ d ih =>
    intro n hs
    have leaf : Expr.denote I (leafExpr (heap n).op (nm n)) env
        = Expr.denote I (leafExpr (heap n).op (nm' n)) env' := by
      have hv' := hv n hs
      have ho' := ho n hs
      cases hop : (heap n).op <;> simp_all [leafExpr, Expr.denote]
    simp only [toExpr]
    by_cases hc : (heap n).op = Op.constant
    · simp [hc, Expr.denote]
    · simp only [hc, if_false]
      cases hargs : (heap n).op.args with
      | none => exact leaf
      | some k =>
        match k, hargs with
        | 0, _ => exact leaf
        | 1, hargs =>
          simp only [Expr.denote]
          rw [ih _ ((hcl n hs).1 (Or.inl hargs))]
        | 2, hargs =>
          simp only [Expr.denote]
          rw [ih _ ((hcl n hs).1 (Or.inr hargs)), ih _ ((hcl n hs).2 hargs)]
        | k + 3, _ => exact leaf

/-! ## the loader's copy is the same expression -/

/-- **same tree.**  Under the invariant of the round trip, the original node at stream position `p`
    and the loader's node at position `p` unfold to the *same expression* (variables named by stream
    position), to every depth. -/
theorem toExpr_copy {heap : NodeId → Node} {ids trees : List NodeId} {lheap : List Node}
    (hinv : Inv heap ids lheap trees) :
    ∀ (f p : Nat) (n m : NodeId), ids[p]? = some n → trees[p]? = some m →
      toExpr heap (posName (posOf ids)) f n = toExpr (hget lheap) (posName (posOf trees)) f m := by
  intro f
  induction f with
  | zero => intro p n m _ _; rfl
  | succ f ih =>
    intro p n m hn hm
    obtain ⟨h1, h2, h3, h4⟩ := hinv.mtch p n m hn hm
    have hpn : posOf ids n = some p :=
      posOf_unique ids n p hn (fun q hq => nodup_get_unique ids hinv.nodup n p q hn hq)
    have hpm : posOf trees m = some p := posOf_unique trees m p hm (fun q hq => hinv.inj q p m hq hm)
    simp only [toExpr, h1]
    by_cases hc : (heap n).op = Op.constant
    · simp [hc, h2 hc]
    · simp only [hc, if_false]
      cases hargs : (heap n).op.args with
      | none => simp [posName, hpn, hpm]
      | some k =>
        match k, hargs with
        | 0, hargs => simp [posName, hpn, hpm]
        | 1, hargs =>
          obtain ⟨q, hq1, hq2⟩ := h3 (Or.inl hargs)
          simp only
          rw [ih q _ _ hq1 hq2]
        | 2, hargs =>
          obtain ⟨q, hq1, hq2⟩ := h3 (Or.inr hargs)
          obtain ⟨q', hq1', hq2'⟩ := h4 hargs
          simp only
          rw [ih q _ _ hq1 hq2, ih q' _ _ hq1' hq2']
        | k + 3, hargs => simp [posName, hpn, hpm]

/-! ## the stored part of the heap: closed, oracle-free -/

/-- the id table is closed under taking operands (from the invariant) -/
theorem Inv.closed_ids {heap : NodeId → Node} {ids trees : List NodeId} {lheap : List Node}
    (hinv : Inv heap ids lheap trees) (n : NodeId) (hn : n ∈ ids) :
    ((heap n).op.args = some 1 ∨ (heap n).op.args = some 2 → (heap n).lhs ∈ ids) ∧
    ((heap n).op.args = some 2 → (heap n).rhs ∈ ids) := by
  obtain ⟨p, hp, hpn⟩ := List.getElem_of_mem hn
  have hpn' : ids[p]? = some n := by rw [List.getElem?_eq_getElem hp, hpn]
  have hpt : p < trees.length := by rw [hinv.len]; exact hp
  obtain ⟨_, _, h3, h4⟩ := hinv.mtch p n trees[p] hpn' (List.getElem?_eq_getElem hpt)
  exact ⟨fun a => by obtain ⟨q, hq, _⟩ := h3 a; exact List.mem_of_getElem? hq,
    fun a => by obtain ⟨q, hq, _⟩ := h4 a; exact List.mem_of_getElem? hq⟩

/-- every loaded node is the copy of a stored node -/
theorem Inv.tree_pos {heap : NodeId → Node} {ids trees : List NodeId} {lheap : List Node}
    (hinv : Inv heap ids lheap trees) (m : NodeId) (hm : m ∈ trees) :
    ∃ (p : Nat) (n : NodeId), ids[p]? = some n ∧ trees[p]? = some m := by
  obtain ⟨p, hp, hpm⟩ := List.getElem_of_mem hm
  have hpi : p < ids.length := by rw [← hinv.len]; exact hp
  exact ⟨p, ids[p]'hpi, List.getElem?_eq_getElem hpi, by rw [List.getElem?_eq_getElem hp, hpm]⟩

/-- the loader's table is closed under taking operands in the loader's heap -/
theorem Inv.closed_trees {heap : NodeId → Node} {ids trees : List NodeId} {lheap : List Node}
    (hinv : Inv heap ids lheap trees) (m : NodeId) (hm : m ∈ trees) :
    (((hget lheap m).op.args = some 1 ∨ (hget lheap m).op.args = some 2 → (hget lheap m).lhs ∈ trees) ∧
     ((hget lheap m).op.args = some 2 → (hget lheap m).rhs ∈ trees)) := by
  obtain ⟨p, n, hn, hpm⟩ := hinv.tree_pos m hm
  obtain ⟨h1, _, h3, h4⟩ := hinv.mtch p n m hn hpm
  rw [h1]
  exact ⟨fun a => by obtain ⟨q, _, hq⟩ := h3 a; exact List.mem_of_getElem? hq,
    fun a => by obtain ⟨q, _, hq⟩ := h4 a; exact List.mem_of_getElem? hq⟩

theorem serNode_noOracle {heap : NodeId → Node} {ids ids' : List NodeId} {n : NodeId} {b : List Byte}
    (h : serNode heap ids n = .ok (b, ids')) (hno : ∀ k ∈ ids, (heap k).op ≠ Op.oracle) :
    ∀ k ∈ ids', (heap k).op ≠ Op.oracle := by
  rcases serNode_cases h with ⟨_, _, e⟩ | ⟨hn, e, _⟩
  · rw [e]; exact hno
  · subst e
    intro k hk
    rcases List.mem_append.mp hk with hk | hk
    · exact hno k hk
    · have : k = n := by simpa using hk
      subst this
      intro ho
      simp [serNode, hn, ho] at h

theorem serNodes_noOracle {heap : NodeId → Node} : ∀ (w : List NodeId) {ids ids' : List NodeId} {b : List Byte},
    serNodes heap ids w = .ok (b, ids') → (∀ k ∈ ids, (heap k).op ≠ Op.oracle) →
    ∀ k ∈ ids', (heap k).op ≠ Op.oracle := by
  intro w
  induction w with
  | nil => intro ids ids' b h hno; simp [serNodes] at h; rw [← h.2]; exact hno
  | cons n w ih =>
    intro ids ids' b h hno
    simp only [serNodes] at h
    cases h1 : serNode heap ids n with
    | error e => simp [h1] at h
    | ok r =>
      obtain ⟨b1, ids1⟩ := r
      simp only [h1] at h
      cases h2 : serNodes heap ids1 w with
      | error e => simp [h2] at h
      | ok r2 =>
        obtain ⟨b2, ids2⟩ := r2
        simp only [h2] at h
        injection h with h; injection h with _ hi
        subst hi
        exact ih h2 (serNode_noOracle h1 hno)

theorem serShape_noOracle {heap : NodeId → Node} {fuel : Nat} {s : Shape} {ids ids' : List NodeId} {b : List Byte}
    (h : serShape heap fuel ids s = .ok (b, ids')) (hno : ∀ k ∈ ids, (heap k).op ≠ Op.oracle) :
    ∀ k ∈ ids', (heap k).op ≠ Op.oracle := by
  cases hpos : posOf ids s.tree with
  | some p =>
    simp only [serShape, hpos] at h
    injection h with h; injection h with _ hi
    subst hi; exact hno
  | none =>
    simp only [serShape, hpos] at h
    cases hst : serTree heap fuel ids s.tree with
    | error e => simp [hst] at h
    | ok r =>
      obtain ⟨bs, ids1⟩ := r
      simp only [hst] at h
      injection h with h; injection h with _ hi
      subst hi
      exact serNodes_noOracle _ hst hno

/-- **no oracle is ever stored**: the id table a successful `serShapes` leaves behind contains no
    ORACLE node (the serializer model refuses them) -/
theorem serShapes_noOracle {heap : NodeId → Node} {fuel : Nat} : ∀ (shapes : List Shape) {ids ids' : List NodeId}
    {b : List Byte}, serShapes heap fuel ids shapes = .ok (b, ids') →
    (∀ k ∈ ids, (heap k).op ≠ Op.oracle) → ∀ k ∈ ids', (heap k).op ≠ Op.oracle := by
  intro shapes
  induction shapes with
  | nil => intro ids ids' b h hno; simp [serShapes] at h; rw [← h.2]; exact hno
  | cons s ss ih =>
    intro ids ids' b h hno
    simp only [serShapes] at h
    cases h1 : serShape heap fuel ids s with
    | error e => simp [h1] at h
    | ok r =>
      obtain ⟨b1, ids1⟩ := r
      simp only [h1] at h
      cases h2 : serShapes heap fuel ids1 ss with
      | error e => simp [h2] at h
      | ok r2 =>
        obtain ⟨b2, ids2⟩ := r2
        simp only [h2] at h
        injection h with h; injection h with _ hi
        subst hi
        exact ih h2 (serShape_noOracle h1 hno)

/-! ## environments along the round trip -/

/-- `env'` is `env` transported along the bijection "same stream position" between stored nodes and
    their copies: X/Y/Z unchanged, the copy `m` of variable `n` stands for what `n` stood for -/
def EnvTransport {α : Type} (ids trees : List NodeId) (env env' : Env α) : Prop :=
  env'.x = env.x ∧ env'.y = env.y ∧ env'.z = env.z ∧
  ∀ (p : Nat) (n m : NodeId), ids[p]? = some n → trees[p]? = some m → env'.vars m = env.vars n

/-- the environment over stream positions that `env` (over node ids) induces -/
def envAtPos {α : Type} (ids : List NodeId) (env : Env α) : Env α :=
  { env with vars := fun k =>
      match k with
      | 0 => env.vars 0
      | p + 1 => match ids[p]? with
        | some n => env.vars n
        | none => env.vars 0 }

/-- such an `env'` exists for every `env` when the copies are pairwise distinct (`Inv.inj`) -/
def transportEnv {α : Type} (ids trees : List NodeId) (env : Env α) : Env α :=
  { env with vars := fun m =>
      match posOf trees m with
      | some p => (match ids[p]? with
        | some n => env.vars n
        | none => env.vars 0)
      | none => env.vars 0 }

theorem transportEnv_spec {α : Type} {heap : NodeId → Node} {ids trees : List NodeId} {lheap : List Node}
    (hinv : Inv heap ids lheap trees) (env : Env α) :
    EnvTransport ids trees env (transportEnv ids trees env) := by
  refine ⟨rfl, rfl, rfl, ?_⟩
  intro p n m hn hm
  have hpm : posOf trees m = some p := posOf_unique trees m p hm (fun q hq => hinv.inj q p m hq hm)
  simp [transportEnv, hpm, hn]

/-- **same function, variables named by node id.**  Under the invariant, with no stored ORACLE:
    the original node at position `p` under `env` and the loader's node at position `p` under the
    transported environment denote the same value, for every interpretation and depth. -/
theorem denote_copy {α : Type} (I : Libfive.Interp UInt32 α) {heap : NodeId → Node} {ids trees : List NodeId}
    {lheap : List Node} (hinv : Inv heap ids lheap trees) (hno : ∀ k ∈ ids, (heap k).op ≠ Op.oracle)
    (env env' : Env α) (ht : EnvTransport ids trees env env')
    (d p : Nat) (n m : NodeId) (hn : ids[p]? = some n) (hm : trees[p]? = some m) :
    Expr.denote I (toExpr heap idName d n) env = Expr.denote I (toExpr (hget lheap) idName d m) env' := by
  obtain ⟨tx, ty, tz, tv⟩ := ht
  have e1 : Expr.denote I (toExpr heap idName d n) env
      = Expr.denote I (toExpr heap (posName (posOf ids)) d n) (envAtPos ids env) := by
    apply denote_toExpr_rename I heap idName (posName (posOf ids)) env (envAtPos ids env) (· ∈ ids)
      (fun k hk => hinv.closed_ids k hk) rfl rfl rfl _ hno d n (List.mem_of_getElem? hn)
    intro k hk _
    obtain ⟨q, hq, hqk⟩ := List.getElem_of_mem hk
    have hqk' : ids[q]? = some k := by rw [List.getElem?_eq_getElem hq, hqk]
    have hpk : posOf ids k = some q :=
      posOf_unique ids k q hqk' (fun r hr => nodup_get_unique ids hinv.nodup k q r hqk' hr)
    simp [envAtPos, posName, optCode, hpk, hqk', idName]
  have e2 : Expr.denote I (toExpr (hget lheap) idName d m) env'
      = Expr.denote I (toExpr (hget lheap) (posName (posOf trees)) d m) (envAtPos ids env) := by
    apply denote_toExpr_rename I (hget lheap) idName (posName (posOf trees)) env' (envAtPos ids env) (· ∈ trees)
      (fun k hk => hinv.closed_trees k hk) tx ty tz _ _ d m (List.mem_of_getElem? hm)
    · intro k hk _
      obtain ⟨q, n', hn', hqk⟩ := hinv.tree_pos k hk
      have hpk : posOf trees k = some q := posOf_unique trees k q hqk (fun r hr => hinv.inj r q k hr hqk)
      simp [envAtPos, posName, optCode, hpk, hn', idName, tv q n' k hn' hqk]
    · intro k hk
      obtain ⟨q, n', hn', hqk⟩ := hinv.tree_pos k hk
      rw [(hinv.mtch q n' k hn' hqk).1]
      exact hno n' (List.mem_of_getElem? hn')
  rw [e1, e2, toExpr_copy hinv d p n m hn hm]

/-! ## the walk order of `serShapes`: operands are stored before their parents -/

/-- every stored node has its operands stored at strictly smaller stream positions -/
def StoredOrdered (heap : NodeId → Node) (ids : List NodeId) : Prop :=
  ∀ (p : Nat) (n : NodeId), ids[p]? = some n →
    ((heap n).op.args = some 1 ∨ (heap n).op.args = some 2 → ∃ q : Nat, q < p ∧ ids[q]? = some (heap n).lhs) ∧
    ((heap n).op.args = some 2 → ∃ q : Nat, q < p ∧ ids[q]? = some (heap n).rhs)

theorem StoredOrdered.nil (heap : NodeId → Node) : StoredOrdered heap [] := by
  intro p n h; simp at h

theorem nodePlain_ne {heap : NodeId → Node} {n : NodeId} (h : nodePlain heap n = true) :
    ((heap n).op.args = some 1 ∨ (heap n).op.args = some 2 → (heap n).lhs ≠ n) ∧
    ((heap n).op.args = some 2 → (heap n).rhs ≠ n) := by
  unfold nodePlain at h
  refine ⟨fun ha => ?_, fun ha => ?_⟩
  · rcases ha with ha | ha
    · simp [ha] at h; exact h.2
    · simp [ha] at h; exact h.1.2
  · simp [ha] at h; exact h.2

/-- what `ids.at(child)` not throwing means -/
theorem serNode_children {heap : NodeId → Node} {ids ids' : List NodeId} {n : NodeId} {b : List Byte}
    (h : serNode heap ids n = .ok (b, ids')) (hn : n ∉ ids) :
    ((heap n).op.args = some 1 ∨ (heap n).op.args = some 2 → ∃ l, posOf (ids ++ [n]) (heap n).lhs = some l) ∧
    ((heap n).op.args = some 2 → ∃ r, posOf (ids ++ [n]) (heap n).rhs = some r) := by
  by_cases ho : (heap n).op = Op.oracle
  · simp [serNode, hn, ho] at h
  · simp only [serNode, hn, ho, if_false] at h
    refine ⟨fun ha => ?_, fun ha => ?_⟩
    · rcases ha with ha | ha
      · simp only [ha] at h
        cases hl : posOf (ids ++ [n]) (heap n).lhs with
        | none => simp [hl] at h
        | some l => exact ⟨l, rfl⟩
      · simp only [ha] at h
        cases hl : posOf (ids ++ [n]) (heap n).lhs with
        | none => cases hr : posOf (ids ++ [n]) (heap n).rhs <;> simp [hl, hr] at h
        | some l => exact ⟨l, rfl⟩
    · simp only [ha] at h
      cases hr : posOf (ids ++ [n]) (heap n).rhs with
      | none => simp [hr] at h
      | some r => exact ⟨r, rfl⟩

theorem serNode_ordered {heap : NodeId → Node} {ids ids' : List NodeId} {n : NodeId} {b : List Byte}
    (h : serNode heap ids n = .ok (b, ids')) (hpl : nodePlain heap n = true) (ho : StoredOrdered heap ids) :
    StoredOrdered heap ids' := by
  rcases serNode_cases h with ⟨_, _, e⟩ | ⟨hn, e, _⟩
  · rw [e]; exact ho
  · obtain ⟨c1, c2⟩ := serNode_children h hn
    obtain ⟨p1, p2⟩ := nodePlain_ne hpl
    subst e
    intro p k hk
    rcases get?_snoc_cases _ _ _ _ hk with ⟨_, hk'⟩ | ⟨hp, hkn⟩
    · obtain ⟨o1, o2⟩ := ho p k hk'
      exact ⟨fun a => by obtain ⟨q, hq, hq'⟩ := o1 a; exact ⟨q, hq, get?_snoc_old _ _ _ _ hq'⟩,
        fun a => by obtain ⟨q, hq, hq'⟩ := o2 a; exact ⟨q, hq, get?_snoc_old _ _ _ _ hq'⟩⟩
    · subst hkn; subst hp
      refine ⟨fun a => ?_, fun a => ?_⟩
      · obtain ⟨l, hl⟩ := c1 a
        have h1 := posOf_snoc_ne hl (p1 a)
        exact ⟨l, (List.getElem?_eq_some_iff.mp h1).1, get?_snoc_old _ _ _ _ h1⟩
      · obtain ⟨r, hr⟩ := c2 a
        have h1 := posOf_snoc_ne hr (p2 a)
        exact ⟨r, (List.getElem?_eq_some_iff.mp h1).1, get?_snoc_old _ _ _ _ h1⟩

theorem serNodes_ordered {heap : NodeId → Node} : ∀ (w : List NodeId) {ids ids' : List NodeId} {b : List Byte},
    serNodes heap ids w = .ok (b, ids') → (∀ n ∈ w, nodePlain heap n = true) → StoredOrdered heap ids →
    StoredOrdered heap ids' := by
  intro w
  induction w with
  | nil => intro ids ids' b h _ ho; simp [serNodes] at h; rw [← h.2]; exact ho
  | cons n w ih =>
    intro ids ids' b h hpl ho
    simp only [serNodes] at h
    cases h1 : serNode heap ids n with
    | error e => simp [h1] at h
    | ok r =>
      obtain ⟨b1, ids1⟩ := r
      simp only [h1] at h
      cases h2 : serNodes heap ids1 w with
      | error e => simp [h2] at h
      | ok r2 =>
        obtain ⟨b2, ids2⟩ := r2
        simp only [h2] at h
        injection h with h; injection h with _ hi
        subst hi
        exact ih h2 (fun k hk => hpl k (List.mem_cons_of_mem _ hk))
          (serNode_ordered h1 (hpl n (List.mem_cons_self ..)) ho)

theorem serShape_ordered {heap : NodeId → Node} {fuel : Nat} {s : Shape} {ids ids' : List NodeId} {b : List Byte}
    (h : serShape heap fuel ids s = .ok (b, ids')) (hpl : ∀ n ∈ walk heap fuel s.tree, nodePlain heap n = true)
    (ho : StoredOrdered heap ids) : StoredOrdered heap ids' := by
  cases hpos : posOf ids s.tree with
  | some p =>
    simp only [serShape, hpos] at h
    injection h with h; injection h with _ hi
    subst hi; exact ho
  | none =>
    simp only [serShape, hpos] at h
    cases hst : serTree heap fuel ids s.tree with
    | error e => simp [hst] at h
    | ok r =>
      obtain ⟨bs, ids1⟩ := r
      simp only [hst] at h
      injection h with h; injection h with _ hi
      subst hi
      exact serNodes_ordered _ hst hpl ho

/-- **the walk order of `serShapes`**: in the id table a successful `serShapes` leaves behind, every
    node's operands sit at strictly smaller positions -/
theorem serShapes_ordered {heap : NodeId → Node} {fuel : Nat} : ∀ (shapes : List Shape) {ids ids' : List NodeId}
    {b : List Byte}, serShapes heap fuel ids shapes = .ok (b, ids') →
    (∀ s ∈ shapes, ShapeOK heap fuel s) → StoredOrdered heap ids → StoredOrdered heap ids' := by
  intro shapes
  induction shapes with
  | nil => intro ids ids' b h _ ho; simp [serShapes] at h; rw [← h.2]; exact ho
  | cons s ss ih =>
    intro ids ids' b h hok ho
    simp only [serShapes] at h
    cases h1 : serShape heap fuel ids s with
    | error e => simp [h1] at h
    | ok r =>
      obtain ⟨b1, ids1⟩ := r
      simp only [h1] at h
      cases h2 : serShapes heap fuel ids1 ss with
      | error e => simp [h2] at h
      | ok r2 =>
        obtain ⟨b2, ids2⟩ := r2
        simp only [h2] at h
        injection h with h; injection h with _ hi
        subst hi
        exact ih h2 (fun k hk => hok k (List.mem_cons_of_mem _ hk))
          (serShape_ordered h1 (hok s (List.mem_cons_self ..)).2.1 ho)

theorem posOf_le : ∀ (l : List NodeId) (x : NodeId) (q : Nat), l[q]? = some x →
    ∃ q', q' ≤ q ∧ posOf l x = some q' := by
  intro l
  induction l with
  | nil => intro x q h; simp at h
  | cons a r ih =>
    intro x q h
    by_cases ha : a = x
    · exact ⟨0, Nat.zero_le _, by simp [posOf, ha]⟩
    · cases q with
      | zero => simp at h; exact absurd h ha
      | succ q0 =>
        obtain ⟨q', hq', hp⟩ := ih x q0 (by simpa using h)
        exact ⟨q' + 1, by omega, by simp [posOf, ha, hp]⟩

/-- the rank of a stored node: its (first) stream position -/
def posRank (ids : List NodeId) (n : NodeId) : Nat := (posOf ids n).getD 0

theorem posRank_lt {ids : List NodeId} {n : NodeId} (h : n ∈ ids) : posRank ids n < ids.length := by
  obtain ⟨p, hp⟩ := posOf_isSome h
  simp [posRank, hp, posOf_lt hp]

/-- the walk order is a well-founded ranking of the stored part of the heap -/
theorem StoredOrdered.ranked {heap : NodeId → Node} {ids : List NodeId} (ho : StoredOrdered heap ids) :
    Ranked heap (posRank ids) (· ∈ ids) := by
  intro n hn
  obtain ⟨p, hp⟩ := posOf_isSome hn
  obtain ⟨o1, o2⟩ := ho p n (posOf_some hp)
  have key : ∀ c q, q < p → ids[q]? = some c → c ∈ ids ∧ posRank ids c < posRank ids n := by
    intro c q hq hc
    obtain ⟨q', hq', hpc⟩ := posOf_le ids c q hc
    refine ⟨List.mem_of_getElem? hc, ?_⟩
    simp [posRank, hp, hpc]; omega
  exact ⟨fun a => by obtain ⟨q, hq, hc⟩ := o1 a; exact key _ q hq hc,
    fun a => by obtain ⟨q, hq, hc⟩ := o2 a; exact key _ q hq hc⟩

/-- the loader's copy inherits the ranking (rank = stream position in the loader's table) -/
theorem Inv.ranked_trees {heap : NodeId → Node} {ids trees : List NodeId} {lheap : List Node}
    (hinv : Inv heap ids lheap trees) (ho : StoredOrdered heap ids) :
    Ranked (hget lheap) (posRank trees) (· ∈ trees) := by
  intro m hm
  obtain ⟨p, n, hn, hpm⟩ := hinv.tree_pos m hm
  obtain ⟨h1, _, h3, h4⟩ := hinv.mtch p n m hn hpm
  obtain ⟨o1, o2⟩ := ho p n hn
  have hpm' : posOf trees m = some p := posOf_unique trees m p hpm (fun q hq => hinv.inj q p m hq hpm)
  have key : ∀ (c c' : NodeId) (q q0 : Nat), ids[q]? = some c → trees[q]? = some c' → q0 < p → ids[q0]? = some c →
      c' ∈ trees ∧ posRank trees c' < posRank trees m := by
    intro c c' q q0 hq hq' hq0 hc0
    have : q0 = q := nodup_get_unique ids hinv.nodup c q q0 hq hc0
    subst this
    have hpc : posOf trees c' = some q0 := posOf_unique trees c' q0 hq' (fun r hr => hinv.inj r q0 c' hr hq')
    refine ⟨List.mem_of_getElem? hq', ?_⟩
    simp [posRank, hpm', hpc]; exact hq0
  rw [h1]
  exact ⟨fun a => by
      obtain ⟨q, hq, hq'⟩ := h3 a
      obtain ⟨q0, hq0, hc0⟩ := o1 a
      exact key _ _ q q0 hq hq' hq0 hc0,
    fun a => by
      obtain ⟨q, hq, hq'⟩ := h4 a
      obtain ⟨q0, hq0, hc0⟩ := o2 a
      exact key _ _ q q0 hq hq' hq0 hc0⟩

/-! ## `AllMatch` plumbing -/

theorem AllMatch.imp {R R' : Shape → LShape → Prop} : ∀ {ss : List Shape} {lss : List LShape},
    AllMatch R ss lss → (∀ s ∈ ss, ∀ ls, R s ls → R' s ls) → AllMatch R' ss lss := by
  intro ss lss h
  induction h with
  | nil => intro _; exact AllMatch.nil
  | cons hr _ ih =>
    intro hi
    exact AllMatch.cons (hi _ (List.mem_cons_self ..) _ hr) (ih (fun s hs => hi s (List.mem_cons_of_mem _ hs)))

theorem AllMatch.of_map {R : Shape → LShape → Prop} (f : Shape → Shape) : ∀ {ss : List Shape} {lss : List LShape},
    AllMatch R (ss.map f) lss → AllMatch (fun s ls => R (f s) ls) ss lss := by
  intro ss
  induction ss with
  | nil => intro lss h; cases h; exact AllMatch.nil
  | cons s ss ih =>
    intro lss h
    cases h with
    | cons hr ht => exact AllMatch.cons hr (ih ht)

/-- positions of a `ShapeMatch` are positions of the final tables -/
theorem ShapeMatch.final_pos {ids trees : List NodeId} {s : Shape} {ls : LShape} (h : ShapeMatch ids trees s ls) :
    ∃ p : Nat, ids[p]? = some s.tree ∧ trees[p]? = some ls.tree := by
  obtain ⟨_, _, ids1, trees1, ie, te, e1, e2, ⟨p, hp1, hp2⟩, _⟩ := h
  exact ⟨p, by rw [e1]; exact get?_append_old _ _ _ _ hp1, by rw [e2]; exact get?_append_old _ _ _ _ hp2⟩

theorem varsOf_pos (ids trees : List NodeId) : ∀ (vars : List (NodeId × List Byte)) (m : NodeId) (name : List Byte),
    (m, name) ∈ varsOf ids trees vars →
    ∃ (n : NodeId) (p : Nat), (n, name) ∈ vars ∧ ids[p]? = some n ∧ trees[p]? = some m := by
  intro vars
  induction vars with
  | nil => intro m name h; simp [varsOf] at h
  | cons v r ih =>
    intro m name h
    obtain ⟨v0, nm0⟩ := v
    have lift : (m, name) ∈ varsOf ids trees r →
        ∃ (n : NodeId) (p : Nat), (n, name) ∈ (v0, nm0) :: r ∧ ids[p]? = some n ∧ trees[p]? = some m := by
      intro h'
      obtain ⟨n, p, h1, h2, h3⟩ := ih m name h'
      exact ⟨n, p, List.mem_cons_of_mem _ h1, h2, h3⟩
    simp only [varsOf] at h
    cases hp : posOf ids v0 with
    | none => simp only [hp] at h; exact lift h
    | some p =>
      simp only [hp] at h
      cases ht : trees[p]? with
      | none => simp only [ht] at h; exact lift h
      | some m0 =>
        simp only [ht] at h
        rcases List.mem_cons.mp h with e | h'
        · injection e with e1 e2
          subst e1; subst e2
          exact ⟨v0, p, List.mem_cons_self .., posOf_some hp, ht⟩
        · exact lift h'

/-- every name in the loaded variable map is the name the archive gave to the variable at the same
    stream position: the loaded map is the stored map transported along the same bijection as the
    environments (`EnvTransport`) -/
theorem ShapeMatch.vars_pos {ids trees : List NodeId} {s : Shape} {ls : LShape} (h : ShapeMatch ids trees s ls)
    (m : NodeId) (name : List Byte) (hm : (m, name) ∈ ls.vars) :
    ∃ (n : NodeId) (p : Nat), (n, name) ∈ s.vars ∧ ids[p]? = some n ∧ trees[p]? = some m := by
  obtain ⟨_, _, ids1, trees1, ie, te, e1, e2, _, hv⟩ := h
  rw [hv] at hm
  obtain ⟨n, p, h1, h2, h3⟩ := varsOf_pos ids1 trees1 s.vars m name hm
  exact ⟨n, p, h1, by rw [e1]; exact get?_append_old _ _ _ _ h2, by rw [e2]; exact get?_append_old _ _ _ _ h3⟩

/-! ## the trees `toExpr` produces are remap-free, well-formed, and their own flattening -/

theorem hasRemap_leafExpr (op : Op) (k : Nat) : Expr.hasRemap (leafExpr op k) = false := by
  cases op <;> rfl

theorem hasRemap_toExpr (heap : NodeId → Node) (nm : NodeId → Nat) :
    ∀ (d : Nat) (n : NodeId), Expr.hasRemap (toExpr heap nm d n) = false := by
  intro d
  induction d with
  | zero => intro n; rfl
  | succ d ih =>
    intro n
    simp only [toExpr]
    by_cases hc : (heap n).op = Op.constant
    · simp [hc, Expr.hasRemap]
    · simp only [hc, if_false]
      cases hargs : (heap n).op.args with
      | none => exact hasRemap_leafExpr _ _
      | some k =>
        match k, hargs with
        | 0, _ => exact hasRemap_leafExpr _ _
        | 1, _ => simp [Expr.hasRemap, ih]
        | 2, _ => simp [Expr.hasRemap, ih]
        | k + 3, _ => exact hasRemap_leafExpr _ _

/-- "remap-free trees are their own flattening", on the expression side (C07's `Expr.flatten`) -/
theorem flatten_toExpr (K : ConstOps UInt32) (heap : NodeId → Node) (nm : NodeId → Nat) (d : Nat) (n : NodeId) :
    Expr.flatten K (toExpr heap nm d n) = toExpr heap nm d n := by
  simp [Expr.flatten, hasRemap_toExpr]

theorem wellArity_leafExpr (op : Op) (k : Nat) : wellArity (leafExpr op k) := by
  cases op <;> exact trivial

/-- every operation node of `toExpr` has the number of operands `Opcode::args` says -/
theorem wellArity_toExpr (heap : NodeId → Node) (nm : NodeId → Nat) :
    ∀ (d : Nat) (n : NodeId), wellArity (toExpr heap nm d n) := by
  intro d
  induction d with
  | zero => intro n; exact trivial
  | succ d ih =>
    intro n
    simp only [toExpr]
    by_cases hc : (heap n).op = Op.constant
    · simp [hc, wellArity]
    · simp only [hc, if_false]
      cases hargs : (heap n).op.args with
      | none => exact wellArity_leafExpr _ _
      | some k =>
        match k, hargs with
        | 0, _ => exact wellArity_leafExpr _ _
        | 1, hargs => exact ⟨hargs, ih _⟩
        | 2, hargs => exact ⟨hargs, ih _, ih _⟩
        | k + 3, _ => exact wellArity_leafExpr _ _

end Libfive.Serial
