/-
  Helper lemmas for the metric clause of C04 (simplex / hybrid algorithm): the multi-stage edge
  search (`searchEdge`) run on POINTS of a real normed space `E`, exactly as the meshers do
  (`ps.col(j) = inside * (1 - frac) + outside * frac`, `frac = j / (N - 1)`, then
  `inside = ps.col(j-1)`, `outside = ps.col(j)`, finally `vert = (inside + outside) / 2`).

  * the point search is the image, under the edge parametrisation `t ↦ a + t • (b - a)`, of the
    parameter search of LibfiveProofs/MarchingSearch.lean (`searchE_eq`);
  * hence the returned vertex is `a + t • (b - a)` with `t ∈ [0, 1]`, and for a classifier that is
    consistent with the sign of a function `f` continuous on the edge there is a zero of `f` on the
    edge at parameter distance at most `1 / (2 (n-1)^r)` (`searchVertex_spec`).
-/
import Mathlib.Tactic.Module
import Mathlib.Analysis.Convex.Basic
import Mathlib.Analysis.Normed.Module.Basic
import Mathlib.Topology.MetricSpace.Lipschitz
import Mathlib.Analysis.InnerProductSpace.PiL2
import LibfiveProofs.MarchingSearch

namespace Libfive.Marching
open Set

/-! ### `search` commutes with any map that commutes with the interpolation -/

theorem searchRound_map {α β : Type} (lerp : α → α → Nat → α) (lerp' : β → β → Nat → β)
    (φ : α → β) (outside : β → Bool) (n : Nat)
    (hφ : ∀ x y j, φ (lerp x y j) = lerp' (φ x) (φ y) j) (p : α × α) :
    searchRound lerp' outside n (φ p.1, φ p.2) =
      (φ (searchRound lerp (fun x => outside (φ x)) n p).1,
       φ (searchRound lerp (fun x => outside (φ x)) n p).2) := by
  simp only [searchRound, hφ]

theorem search_map {α β : Type} (lerp : α → α → Nat → α) (lerp' : β → β → Nat → β)
    (φ : α → β) (outside : β → Bool) (n : Nat)
    (hφ : ∀ x y j, φ (lerp x y j) = lerp' (φ x) (φ y) j) :
    ∀ (r : Nat) (p : α × α),
      search lerp' outside n r (φ p.1, φ p.2) =
        (φ (search lerp (fun x => outside (φ x)) n r p).1,
         φ (search lerp (fun x => outside (φ x)) n r p).2) := by
  intro r
  induction r with
  | zero => intro p; simp [search]
  | succ r ih =>
    intro p
    simp only [search]
    rw [searchRound_map lerp lerp' φ outside n hφ p]
    exact ih _

/-! ### The edge in a normed space -/

-- `E : Type` (universe 0): the model's `search` is stated over `α : Type`
variable {E : Type} [NormedAddCommGroup E] [NormedSpace ℝ E]

/-- the point at parameter `t` of the edge from `a` (inside end) to `b` (outside end) -/
noncomputable def edgePt (a b : E) (t : ℝ) : E := a + t • (b - a)

/-- the meshers' interpolation of points with `n` samples:
    `inside * (1 - frac) + outside * frac`, `frac = j / (n - 1)` -/
noncomputable def lerpE (n : Nat) (lo hi : E) (j : Nat) : E :=
  (1 - (j : ℝ) / ((n : ℝ) - 1)) • lo + ((j : ℝ) / ((n : ℝ) - 1)) • hi

/-- the vertex `searchEdge` returns: `r` rounds of `n` samples from `(a, b)` under the classifier
    `outside`, then `vert = (inside + outside) / 2` -/
noncomputable def searchVertex (n r : Nat) (outside : E → Bool) (a b : E) : E :=
  (1 / 2 : ℝ) • ((search (lerpE n) outside n r (a, b)).1 + (search (lerpE n) outside n r (a, b)).2)

@[simp] theorem edgePt_zero (a b : E) : edgePt a b 0 = a := by simp [edgePt]
@[simp] theorem edgePt_one (a b : E) : edgePt a b 1 = b := by simp [edgePt]

/-- the parametrisation carries the scalar interpolation to the point interpolation -/
theorem edgePt_lerpR (a b : E) (n : Nat) (s t : ℝ) (j : Nat) :
    edgePt a b (lerpR n s t j) = lerpE n (edgePt a b s) (edgePt a b t) j := by
  unfold edgePt lerpR lerpE
  rw [mul_div_assoc]
  generalize (j : ℝ) / ((n : ℝ) - 1) = c
  module

theorem half_edgePt_add (a b : E) (s t : ℝ) :
    (1 / 2 : ℝ) • (edgePt a b s + edgePt a b t) = edgePt a b ((s + t) / 2) := by
  unfold edgePt
  module

theorem edgePt_mem_segment (a b : E) {t : ℝ} (h0 : 0 ≤ t) (h1 : t ≤ 1) :
    edgePt a b t ∈ segment ℝ a b := by
  rw [segment_eq_image']
  exact ⟨t, ⟨h0, h1⟩, rfl⟩

theorem exists_edgePt_of_mem_segment (a b : E) {p : E} (h : p ∈ segment ℝ a b) :
    ∃ t : ℝ, 0 ≤ t ∧ t ≤ 1 ∧ p = edgePt a b t := by
  rw [segment_eq_image'] at h
  obtain ⟨t, ⟨h0, h1⟩, rfl⟩ := h
  exact ⟨t, h0, h1, rfl⟩

theorem dist_edgePt (a b : E) (s t : ℝ) :
    dist (edgePt a b s) (edgePt a b t) = |s - t| * ‖b - a‖ := by
  unfold edgePt
  rw [dist_add_left, dist_eq_norm, ← sub_smul, norm_smul, Real.norm_eq_abs]

theorem continuous_edgePt (a b : E) : Continuous (edgePt a b) := by
  unfold edgePt
  exact continuous_const.add (continuous_id.smul continuous_const)

/-- the point search from two points of the edge is the image of the parameter search -/
theorem searchE_eq (a b : E) (outside : E → Bool) (n r : Nat) (s t : ℝ) :
    search (lerpE n) outside n r (edgePt a b s, edgePt a b t) =
      (edgePt a b (search (lerpR n) (fun u => outside (edgePt a b u)) n r (s, t)).1,
       edgePt a b (search (lerpR n) (fun u => outside (edgePt a b u)) n r (s, t)).2) :=
  search_map (lerpR n) (lerpE n) (edgePt a b) outside n (fun x y j => edgePt_lerpR a b n x y j) r (s, t)

/-- the returned vertex is the edge point at the midpoint of the final parameter bracket -/
theorem searchVertex_eq (a b : E) (outside : E → Bool) (n r : Nat) :
    searchVertex n r outside a b =
      edgePt a b (((search (lerpR n) (fun u => outside (edgePt a b u)) n r (0, 1)).1 +
        (search (lerpR n) (fun u => outside (edgePt a b u)) n r (0, 1)).2) / 2) := by
  unfold searchVertex
  have h := searchE_eq a b outside n r 0 1
  rw [edgePt_zero, edgePt_one] at h
  rw [h, half_edgePt_add]

/-- **Parameter form of the metric clause.**  `n ≥ 2` samples, `r` rounds; the classifier calls `a`
    inside and `b` outside and is consistent with the sign of `f` on the edge (a point classified
    inside has `f ≤ 0`, a point classified outside has `0 ≤ f`: what it answers where `f = 0` is
    free, which covers the `isInside` tie-break of the sources); `f` is continuous on the edge.
    Then the vertex is `a + t (b - a)` with `t ∈ [0, 1]` and `f` has a zero `a + z (b - a)`,
    `z ∈ [0, 1]`, with `|t - z| ≤ 1 / (n-1)^r / 2`. -/
theorem searchVertex_spec (f : E → ℝ) (outside : E → Bool) (a b : E) (n r : Nat) (hn : 2 ≤ n)
    (hf : ContinuousOn f (segment ℝ a b))
    (hin : ∀ p ∈ segment ℝ a b, outside p = false → f p ≤ 0)
    (hout : ∀ p ∈ segment ℝ a b, outside p = true → 0 ≤ f p)
    (ha : outside a = false) (hb : outside b = true) :
    ∃ t z : ℝ, 0 ≤ t ∧ t ≤ 1 ∧ 0 ≤ z ∧ z ≤ 1 ∧ searchVertex n r outside a b = edgePt a b t ∧
      f (edgePt a b z) = 0 ∧ |t - z| ≤ 1 / ((n : ℝ) - 1) ^ r / 2 := by
  obtain ⟨⟨b1, b2, b3⟩, c1, c2, c3⟩ :=
    search_spec (fun u => outside (edgePt a b u)) n hn r (0, 1)
      ⟨by norm_num, by simpa using ha, by simpa using hb⟩
  rw [searchVertex_eq]
  set q := search (lerpR n) (fun u => outside (edgePt a b u)) n r (0, 1) with hq
  simp only at b1 b2 b3 c1 c2 c3
  have m1 : edgePt a b q.1 ∈ segment ℝ a b := edgePt_mem_segment a b c1 (by linarith)
  have m2 : edgePt a b q.2 ∈ segment ℝ a b := edgePt_mem_segment a b (by linarith) c2
  have g1 : f (edgePt a b q.1) ≤ 0 := hin _ m1 b2
  have g2 : 0 ≤ f (edgePt a b q.2) := hout _ m2 b3
  have hg : ContinuousOn (fun u => f (edgePt a b u)) (Icc q.1 q.2) := by
    refine hf.comp (continuous_edgePt a b).continuousOn ?_
    intro u hu
    exact edgePt_mem_segment a b (by linarith [hu.1]) (by linarith [hu.2])
  obtain ⟨z, ⟨hz1, hz2⟩, hz⟩ :=
    intermediate_value_Icc b1 hg (show (0 : ℝ) ∈ Icc (f (edgePt a b q.1)) (f (edgePt a b q.2)) from ⟨g1, g2⟩)
  refine ⟨(q.1 + q.2) / 2, z, by linarith, by linarith, by linarith, by linarith, rfl, hz, ?_⟩
  have c3' : q.2 - q.1 = 1 / ((n : ℝ) - 1) ^ r := by rw [c3]; norm_num
  rw [← c3', abs_le]
  constructor <;> linarith

/-- **Metric form.**  Same hypotheses: the vertex lies on the edge, and `f` has a zero on the edge
    within `‖b - a‖ / (n-1)^r / 2` of it (the vertex is the MIDPOINT of the final bracket). -/
theorem searchVertex_metric (f : E → ℝ) (outside : E → Bool) (a b : E) (n r : Nat) (hn : 2 ≤ n)
    (hf : ContinuousOn f (segment ℝ a b))
    (hin : ∀ p ∈ segment ℝ a b, outside p = false → f p ≤ 0)
    (hout : ∀ p ∈ segment ℝ a b, outside p = true → 0 ≤ f p)
    (ha : outside a = false) (hb : outside b = true) :
    searchVertex n r outside a b ∈ segment ℝ a b ∧
    ∃ z ∈ segment ℝ a b, f z = 0 ∧
      dist (searchVertex n r outside a b) z ≤ ‖b - a‖ / ((n : ℝ) - 1) ^ r / 2 := by
  obtain ⟨t, z, t0, t1, z0, z1, hv, hz, htz⟩ := searchVertex_spec f outside a b n r hn hf hin hout ha hb
  rw [hv]
  refine ⟨edgePt_mem_segment a b t0 t1, edgePt a b z, edgePt_mem_segment a b z0 z1, hz, ?_⟩
  rw [dist_edgePt]
  calc |t - z| * ‖b - a‖ ≤ (1 / ((n : ℝ) - 1) ^ r / 2) * ‖b - a‖ :=
        mul_le_mul_of_nonneg_right htz (norm_nonneg _)
    _ = ‖b - a‖ / ((n : ℝ) - 1) ^ r / 2 := by ring

omit [NormedSpace ℝ E] in
/-- a `K`-Lipschitz function is at most `K d` in absolute value at distance `d` from one of its zeros -/
theorem abs_le_of_lipschitzOn_of_zero {f : E → ℝ} {K : NNReal} {s : Set E} (hK : LipschitzOnWith K f s)
    {v z : E} (hv : v ∈ s) (hz : z ∈ s) (h0 : f z = 0) {d : ℝ} (hd : dist v z ≤ d) :
    |f v| ≤ K * d := by
  have h := hK.dist_le_mul v hv z hz
  rw [Real.dist_eq, h0, sub_zero] at h
  exact h.trans (mul_le_mul_of_nonneg_left hd K.coe_nonneg)

/-- the sign classifier of the meshers: `out[j] > 0` -/
noncomputable def signOutside (f : E → ℝ) : E → Bool := fun p => decide (0 < f p)

omit [NormedAddCommGroup E] [NormedSpace ℝ E] in
theorem signOutside_inside (f : E → ℝ) (p : E) (h : signOutside f p = false) : f p ≤ 0 := by
  simpa [signOutside] using h

omit [NormedAddCommGroup E] [NormedSpace ℝ E] in
theorem signOutside_outside (f : E → ℝ) (p : E) (h : signOutside f p = true) : 0 ≤ f p := by
  have : 0 < f p := by simpa [signOutside] using h
  exact this.le

/-- `searchEdge` of the simplex mesher, with the constants regenerated from simplex_mesher.cpp -/
noncomputable def simplexVertex (outside : E → Bool) (a b : E) : E :=
  searchVertex Generated.MeshTables.simplexPointsPerSearch Generated.MeshTables.simplexSearchCount outside a b

/-- `searchEdge` of the hybrid mesher, with the constants regenerated from hybrid_mesher.cpp -/
noncomputable def hybridVertex (outside : E → Bool) (a b : E) : E :=
  searchVertex Generated.MeshTables.hybridPointsPerSearch Generated.MeshTables.hybridSearchCount outside a b

/-- the diagonal of a cubic cell: two points of Euclidean 3-space whose coordinates differ by at most
    `h` are at most `√3 h` apart -/
theorem norm_sub_le_cell_diagonal (a b : EuclideanSpace ℝ (Fin 3)) (h : ℝ)
    (hc : ∀ i, |b i - a i| ≤ h) : ‖b - a‖ ≤ Real.sqrt 3 * h := by
  have h0 : 0 ≤ h := (abs_nonneg _).trans (hc 0)
  have e : Real.sqrt 3 * h = Real.sqrt (3 * h ^ 2) := by
    rw [Real.sqrt_mul (by norm_num), Real.sqrt_sq h0]
  rw [e, EuclideanSpace.norm_eq]
  apply Real.sqrt_le_sqrt
  rw [Fin.sum_univ_three]
  have sq : ∀ i, ‖(b - a) i‖ ^ 2 ≤ h ^ 2 := by
    intro i
    have : ‖(b - a) i‖ = |b i - a i| := by simp [Real.norm_eq_abs]
    rw [this]
    exact pow_le_pow_left₀ (abs_nonneg _) (hc i) 2
  linarith [sq 0, sq 1, sq 2]

end Libfive.Marching
