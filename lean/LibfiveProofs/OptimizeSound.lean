/-
  Soundness of the optimiser model (LibfiveModel/Optimize.lean): affine accumulation,
  collapse, commutative lists, and the mutual recursion — over any field with a lawful
  interpretation.
-/
import LibfiveModel.Optimize
import LibfiveProofs.ExprSound
import LibfiveProofs.CommFold
import Mathlib.Tactic.Ring
import Mathlib.Tactic.FieldSimp
import Mathlib.Tactic.LinearCombination

set_option linter.unusedSimpArgs false
set_option linter.unusedVariables false

namespace Libfive.Optimize
open Libfive Expr CommFold

variable {C α : Type}

/-- additional laws the optimiser relies on: the constants 0 and 1, float `==`, the fused
    accumulate, and associativity/commutativity (idempotence is in `Lawful`) of min and max -/
structure LawfulOpt [Field α] (K : ConstOps C) (I : Interp C α) : Prop extends Lawful K I where
  zero_val : I.const K.zero = 0
  one_val : I.const K.one = 1
  eqC_sound : ∀ a b, K.eqC a b = true → I.const a = I.const b
  fma_val : ∀ a b c, I.const (K.fma a b c) = I.const a * I.const b + I.const c
  min_ac : AC (I.bin Op.min)
  max_ac : AC (I.bin Op.max)

section
variable [Field α] [DecidableEq C] {K : ConstOps C} {I : Interp C α}

/-- value of an affine map -/
def evalAff (I : Interp C α) (m : AffMap C) (e : Env α) : α :=
  (m.map fun p => I.const p.2 * denote I p.1 e).sum

@[simp] theorem evalAff_nil (e : Env α) : evalAff I ([] : AffMap C) e = 0 := rfl
@[simp] theorem evalAff_cons (p : Expr C × C) (m : AffMap C) (e : Env α) :
    evalAff I (p :: m) e = I.const p.2 * denote I p.1 e + evalAff I m e := by
  simp [evalAff]

theorem evalAff_append (m₁ m₂ : AffMap C) (e : Env α) :
    evalAff I (m₁ ++ m₂) e = evalAff I m₁ e + evalAff I m₂ e := by
  simp [evalAff]

theorem evalAff_perm {m₁ m₂ : AffMap C} (p : m₁.Perm m₂) (e : Env α) :
    evalAff I m₁ e = evalAff I m₂ e := by
  unfold evalAff
  exact (p.map _).sum_eq

theorem foldAdd (L : LawfulOpt K I) (a b : C) :
    I.const (K.foldBin Op.add a b) = I.const a + I.const b := by
  rw [L.foldBin, L.add]

theorem foldMul (L : LawfulOpt K I) (a b : C) :
    I.const (K.foldBin Op.mul a b) = I.const a * I.const b := by
  rw [L.foldBin, L.mul]

theorem foldDiv (L : LawfulOpt K I) (a b : C) :
    I.const (K.foldBin Op.div a b) = I.const a / I.const b := by
  rw [L.foldBin, L.div]

theorem foldNeg (L : LawfulOpt K I) (a : C) : I.const (K.foldUn Op.neg a) = -I.const a := by
  rw [L.foldUn, L.neg]

theorem addCoef_eval (L : LawfulOpt K I) (k : Expr C) (s : C) (m : AffMap C) (e : Env α) :
    evalAff I (addCoef K k s m) e = evalAff I m e + I.const s * denote I k e := by
  induction m with
  | nil => simp [addCoef, foldAdd L, L.zero_val]
  | cons p rest ih =>
    obtain ⟨k', c⟩ := p
    simp only [addCoef]
    by_cases h : k' = k
    · subst h; simp [foldAdd L]; ring
    · simp [h, ih]; ring

theorem addConst_eval (L : LawfulOpt K I) (s v : C) (m : AffMap C) (e : Env α) :
    evalAff I (addConst K s v m) e = evalAff I m e + I.const s * I.const v := by
  induction m with
  | nil => simp [addConst, L.fma_val, L.zero_val, denote, L.one_val]
  | cons p rest ih =>
    obtain ⟨k', c⟩ := p
    simp only [addConst]
    by_cases h : k' = const K.one
    · subst h; simp [L.fma_val, denote, L.one_val]; ring
    · simp [h, ih]; ring

theorem addTerm_eval (L : LawfulOpt K I) (t : Expr C) (s : C) (m : AffMap C) (e : Env α) :
    evalAff I (addTerm K t s m) e = evalAff I m e + I.const s * denote I t e := by
  cases t <;> simp [addTerm, addCoef_eval L, addConst_eval L, denote]

/-! ### collapse -/

theorem insertByCoef_eval (p : Expr C × C) (l : AffMap C) (e : Env α) :
    evalAff I (insertByCoef K p l) e = I.const p.2 * denote I p.1 e + evalAff I l e := by
  induction l with
  | nil => simp [insertByCoef]
  | cons q rest ih =>
    simp only [insertByCoef]
    split
    · simp
    · simp [ih]; ring

theorem sortByCoef_eval (le : Expr C → Expr C → Bool) (m : AffMap C) (e : Env α) :
    evalAff I (sortByCoef K le m) e = evalAff I m e := by
  unfold sortByCoef
  have h : ∀ l : AffMap C, evalAff I (l.foldr (fun p acc => insertByCoef K p acc) []) e = evalAff I l e := by
    intro l
    induction l with
    | nil => rfl
    | cons p rest ih => simp [insertByCoef_eval, ih]
  rw [h]
  exact evalAff_perm (List.mergeSort_perm _ _) e

theorem splitPosNeg_eval (L : LawfulOpt K I) (m : AffMap C) (e : Env α) :
    evalAff I m e = evalAff I (splitPosNeg K m).1 e - evalAff I (splitPosNeg K m).2 e := by
  induction m with
  | nil => simp [splitPosNeg]
  | cons p rest ih =>
    obtain ⟨t, c⟩ := p
    simp only [splitPosNeg]
    by_cases h1 : K.lt K.zero c = true
    · simp [h1, ih]; ring
    · by_cases h2 : K.lt c K.zero = true
      · simp [h1, h2, ih, foldNeg L]; ring
      · by_cases h3 : K.isZero c = true
        · simp [h1, h2, h3, ih, L.isZero c h3]
        · simp [h1, h2, h3, ih]; ring

theorem takeGroup_eval (L : LawfulOpt K I) (m : C) (e : Env α) :
    ∀ (l : AffMap C) (t : Expr C),
      I.const m * denote I (takeGroup K m t l).1 e + evalAff I (takeGroup K m t l).2 e =
        I.const m * denote I t e + evalAff I l e := by
  intro l
  induction l with
  | nil => intro t; simp [takeGroup]
  | cons p rest ih =>
    intro t
    obtain ⟨u, c⟩ := p
    simp only [takeGroup]
    by_cases h : K.eqC c m = true
    · simp only [h, if_true]
      rw [ih, mkBinary_sound L.toLawful Op.add t u e rfl, L.add, evalAff_cons, L.eqC_sound c m h]
      ring
    · simp [h]

/-- value of the running result of `collapse`'s outer loop (`none` = nothing yet) -/
def optVal (I : Interp C α) (o : Option (Expr C)) (e : Env α) : α :=
  match o with
  | none => 0
  | some t => denote I t e

theorem collapseGo_eval (L : LawfulOpt K I) (e : Env α) :
    ∀ (fuel : Nat) (out : Option (Expr C)) (l : AffMap C), l.length < fuel →
      optVal I (collapseGo K fuel out l) e = optVal I out e + evalAff I l e := by
  intro fuel
  induction fuel with
  | zero => intro out l h; omega
  | succ f ih =>
    intro out l hlen
    cases l with
    | nil => simp [collapseGo]
    | cons p rest =>
      obtain ⟨t, m⟩ := p
      simp only [collapseGo]
      have hg := takeGroup_eval L m e rest t
      have hl := takeGroup_length K m t rest
      -- value of the group term
      have hval : ∀ g : Expr C, g = (takeGroup K m t rest).1 →
          denote I (if K.isOne m then g else if g = const K.one then const m
            else mkBinary K Op.mul g (const m)) e = I.const m * denote I g e := by
        intro g _
        by_cases h1 : K.isOne m = true
        · simp [h1, L.isOne m h1]
        · by_cases h2 : g = const K.one
          · subst h2; simp [h1, denote, L.one_val]
          · simp [h1, h2, mkBinary_sound L.toLawful Op.mul g (const m) e rfl, L.mul, denote]; ring
      rw [ih _ _ (by simp at hlen; omega)]
      cases out with
      | none =>
        simp only [optVal, hval _ rfl]
        simp only [evalAff_cons] at *
        linear_combination hg
      | some o =>
        simp only [optVal, mkBinary_sound L.toLawful Op.add o _ e rfl, L.add, hval _ rfl]
        simp only [evalAff_cons] at *
        linear_combination hg

theorem collapseList_sound (L : LawfulOpt K I) (le : Expr C → Expr C → Bool) (l : AffMap C)
    (e : Env α) : denote I (collapseList K le l) e = evalAff I l e := by
  unfold collapseList
  have h := collapseGo_eval L e ((sortByCoef K le l).length + 1) none (sortByCoef K le l) (by omega)
  rw [sortByCoef_eval] at h
  simp only [optVal, zero_add] at h
  cases hr : collapseGo K ((sortByCoef K le l).length + 1) none (sortByCoef K le l) with
  | none =>
    rw [hr] at h
    show denote I ((collapseGo K ((sortByCoef K le l).length + 1) none (sortByCoef K le l)).getD (const K.zero)) e = _
    rw [hr]
    simp only [optVal] at h
    simp [denote, L.zero_val, ← h]
  | some t =>
    rw [hr] at h
    show denote I ((collapseGo K ((sortByCoef K le l).length + 1) none (sortByCoef K le l)).getD (const K.zero)) e = _
    rw [hr]
    simpa [optVal] using h

/-- **collapse rebuilds the affine map's value** -/
theorem collapse_sound (L : LawfulOpt K I) (le : Expr C → Expr C → Bool) (m : AffMap C) (e : Env α) :
    denote I (collapse K le m) e = evalAff I m e := by
  unfold collapse
  rw [mkBinary_sound L.toLawful Op.sub _ _ e rfl, L.sub, collapseList_sound L, collapseList_sound L,
    ← splitPosNeg_eval L]

/-! ### commutative lists -/

/-- the operations the optimiser treats as commutative chains are AC in a lawful interpretation -/
theorem ac_of_commOp (L : LawfulOpt K I) (op : Op) (h : op = Op.mul ∨ op = Op.min ∨ op = Op.max) :
    AC (I.bin op) := by
  rcases h with rfl | rfl | rfl
  · exact ⟨fun a b => by rw [L.mul, L.mul, mul_comm], fun a b c => by rw [L.mul, L.mul, L.mul, L.mul, mul_assoc]⟩
  · exact L.min_ac
  · exact L.max_ac

theorem args_of_commOp (op : Op) (h : op = Op.mul ∨ op = Op.min ∨ op = Op.max) : op.args = some 2 := by
  rcases h with rfl | rfl | rfl <;> rfl

theorem foldl_mkBinary_denote (L : LawfulOpt K I) (op : Op) (hargs : op.args = some 2) (e : Env α) :
    ∀ (rest : List (Expr C)) (a : Expr C),
      denote I (rest.foldl (fun acc b => mkBinary K op acc b) a) e =
        (rest.map fun t => denote I t e).foldl (I.bin op) (denote I a e) := by
  intro rest
  induction rest with
  | nil => intro a; rfl
  | cons b rest ih =>
    intro a
    simp only [List.foldl_cons, List.map_cons]
    rw [ih, mkBinary_sound L.toLawful op a b e hargs]

theorem foldComm_denote (L : LawfulOpt K I) (op : Op) (hargs : op.args = some 2) (e : Env α)
    (l : List (Expr C)) (hne : l ≠ []) :
    some (denote I (foldComm K op l) e) = foldV (I.bin op) (l.map fun t => denote I t e) := by
  cases l with
  | nil => exact absurd rfl hne
  | cons a rest => simp only [foldComm, List.map_cons, foldV]; rw [foldl_mkBinary_denote L op hargs e]

theorem dedup_ne_nil : ∀ l : List (Expr C), l ≠ [] → dedup l ≠ [] := by
  intro l
  induction l with
  | nil => intro h; exact absurd rfl h
  | cons a rest ih =>
    intro _
    simp only [dedup]
    by_cases h : a ∈ rest
    · simp only [h, if_true]
      exact ih (List.ne_nil_of_mem h)
    · simp [h]

theorem dedup_foldV {f : α → α → α} (hac : AC f) (hid : ∀ a, f a a = a) (d : Expr C → α) :
    ∀ l : List (Expr C), foldV f ((dedup l).map d) = foldV f (l.map d) := by
  intro l
  induction l with
  | nil => rfl
  | cons a rest ih =>
    simp only [dedup]
    by_cases h : a ∈ rest
    · simp only [h, if_true, List.map_cons]
      rw [ih, foldV_cons hac, foldV_absorb hac hid (d a) _ (List.mem_map.mpr ⟨a, h, rfl⟩)]
    · simp only [h, if_false, List.map_cons]
      rw [foldV_cons hac, foldV_cons hac, ih]

theorem idem_of_isIdempotent (L : LawfulOpt K I) (op : Op) (h : op.isIdempotent = true) :
    ∀ a, I.bin op a a = a := by
  intro a
  cases op <;> simp [Op.isIdempotent] at h
  · exact L.min_self a
  · exact L.max_self a

/-- **UpCommutative is sound**: the tree built from a commutative list denotes the fold of the
    operator over the list's denotations, whatever the sorting order and after de-duplication. -/
theorem buildComm_sound (L : LawfulOpt K I) (le : Expr C → Expr C → Bool) (op : Op)
    (hop : op = Op.mul ∨ op = Op.min ∨ op = Op.max) (items : List (Expr C)) (hne : items ≠ [])
    (e : Env α) :
    some (denote I (buildComm K le op items) e) = foldV (I.bin op) (items.map fun t => denote I t e) := by
  have hac := ac_of_commOp L op hop
  have hargs := args_of_commOp op hop
  have hperm : (items.mergeSort le).Perm items := List.mergeSort_perm _ _
  have hne' : items.mergeSort le ≠ [] := by
    intro h; apply hne; rw [h] at hperm; exact List.Perm.eq_nil hperm.symm
  unfold buildComm
  by_cases hi : op.isIdempotent = true
  · simp only [hi, if_true]
    rw [foldComm_denote L op hargs e _ (dedup_ne_nil _ hne'),
      dedup_foldV hac (idem_of_isIdempotent L op hi), foldV_perm hac (hperm.map _)]
  · have hi' : op.isIdempotent = false := by simpa using hi
    simp only [hi', Bool.false_eq_true, if_false]
    rw [foldComm_denote L op hargs e _ hne', foldV_perm hac (hperm.map _)]

/-! ### the mutual recursion -/

theorem commOp_some {t : Expr C} {op : Op} (h : commOp t = some op) :
    (op = Op.mul ∨ op = Op.min ∨ op = Op.max) ∧ ∃ a b, t = bin op a b := by
  cases t with
  | bin o a b =>
    simp only [commOp] at h
    by_cases h1 : o = Op.mul
    · subst h1
      by_cases hc : ((constOf a).isSome || (constOf b).isSome) = true
      · simp [hc] at h
      · simp [hc] at h; subst h; exact ⟨Or.inl rfl, a, b, rfl⟩
    · by_cases h2 : o = Op.min
      · subst h2; simp at h; subst h; exact ⟨Or.inr (Or.inl rfl), a, b, rfl⟩
      · by_cases h3 : o = Op.max
        · subst h3; simp at h; subst h; exact ⟨Or.inr (Or.inr rfl), a, b, rfl⟩
        · simp [h1, h2, h3] at h
  | _ => simp [commOp] at h

/-- the four mutually recursive functions are sound at a given fuel -/
structure SoundAt (K : ConstOps C) (I : Interp C α) (le : Expr C → Expr C → Bool) (f : Nat) : Prop where
  opt : ∀ (t : Expr C) (e : Env α), wellArity t → denote I (Optimize.opt K le f t) e = denote I t e
  non : ∀ (t : Expr C) (e : Env α), wellArity t → denote I (optNonAffine K le f t) e = denote I t e
  aff : ∀ (t : Expr C) (s : C) (acc : AffMap C) (e : Env α), wellArity t →
    evalAff I (affineTerms K le f t s acc) e = evalAff I acc e + I.const s * denote I t e
  comm : ∀ (op : Op) (t : Expr C) (acc : List (Expr C)) (e : Env α),
    (op = Op.mul ∨ op = Op.min ∨ op = Op.max) → wellArity t →
    foldV (I.bin op) ((commItems K le f op t acc).map fun u => denote I u e) =
      lift (I.bin op) (foldV (I.bin op) (acc.map fun u => denote I u e)) (some (denote I t e))

theorem foldV_snoc {f : α → α → α} (h : AC f) (l : List α) (a : α) :
    foldV f (l ++ [a]) = lift f (foldV f l) (some a) := by
  rw [foldV_append h]; rfl

theorem soundAt_zero (L : LawfulOpt K I) (le : Expr C → Expr C → Bool) : SoundAt K I le 0 := by
  refine ⟨fun t e _ => rfl, fun t e _ => rfl, ?_, ?_⟩
  · intro t s acc e _
    simp only [affineTerms]
    exact addTerm_eval L t s acc e
  · intro op t acc e hop _
    simp only [commItems, List.map_append, List.map_cons, List.map_nil]
    exact foldV_snoc (ac_of_commOp L op hop) _ _

theorem soundAt_succ (L : LawfulOpt K I) (le : Expr C → Expr C → Bool) (f : Nat)
    (ih : SoundAt K I le f) : SoundAt K I le (f + 1) := by
  -- optNonAffine first: the others use it at the same fuel only through `ih`
  have hnon : ∀ (t : Expr C) (e : Env α), wellArity t →
      denote I (optNonAffine K le (f + 1) t) e = denote I t e := by
    intro t e hw
    cases t with
    | un op a =>
      obtain ⟨ha, hwa⟩ := hw
      simp only [optNonAffine]
      by_cases h : Optimize.opt K le f a = a
      · simp [h]
      · simp only [h, if_false]
        rw [mkUnary_sound L.toLawful op _ e ha, ih.opt a e hwa]; rfl
    | bin op a b =>
      obtain ⟨ho, hwa, hwb⟩ := hw
      simp only [optNonAffine]
      by_cases hc : commOp (bin op a b) = some op
      · simp only [hc, if_true]
        obtain ⟨hop, _⟩ := commOp_some hc
        have hac := ac_of_commOp L op hop
        have hb := ih.comm op b [] e hop hwb
        have hb' : foldV (I.bin op) ((commItems K le f op b []).map fun u => denote I u e) =
            some (denote I b e) := by rw [hb]; rfl
        have hitems : foldV (I.bin op)
            ((commItems K le f op a (commItems K le f op b [])).map fun u => denote I u e) =
            some (I.bin op (denote I b e) (denote I a e)) := by
          rw [ih.comm op a _ e hop hwa, hb']; rfl
        have hne : commItems K le f op a (commItems K le f op b []) ≠ [] := by
          intro h; rw [h] at hitems; simp [foldV] at hitems
        have := buildComm_sound L le op hop _ hne e
        rw [hitems] at this
        simp only [denote]
        have h2 : I.bin op (denote I b e) (denote I a e) = I.bin op (denote I a e) (denote I b e) :=
          hac.comm _ _
        rw [h2] at this
        exact Option.some.inj this
      · simp only [hc, if_false]
        by_cases h : Optimize.opt K le f a = a ∧ Optimize.opt K le f b = b
        · simp [h]
        · simp only [h, if_false]
          rw [mkBinary_sound L.toLawful op _ _ e ho, ih.opt a e hwa, ih.opt b e hwb]; rfl
    | _ => rfl
  refine ⟨?_, hnon, ?_, ?_⟩
  · -- opt
    intro t e hw
    simp only [Optimize.opt]
    by_cases h : isAffineRoot t = true
    · simp only [h, if_true]
      rw [collapse_sound L, ih.aff t K.one [] e hw]
      simp [L.one_val]
    · simp only [h, Bool.false_eq_true, if_false]
      exact ih.non t e hw
  · -- affineTerms
    intro t s acc e hw
    cases t with
    | un op a =>
      have hw0 := hw
      obtain ⟨ha, hwa⟩ := hw
      simp only [affineTerms]
      by_cases h : op = Op.neg
      · subst h
        simp only [if_true]
        rw [ih.aff a _ acc e hwa, foldNeg L]
        simp only [denote, L.neg]; ring
      · simp only [h, if_false]
        rw [addTerm_eval L, ih.non _ e hw0]
    | bin op a b =>
      have hw0 := hw
      obtain ⟨ho, hwa, hwb⟩ := hw
      simp only [affineTerms]
      by_cases h1 : op = Op.add
      · subst h1
        simp only [if_true]
        rw [ih.aff a s _ e hwa, ih.aff b s acc e hwb]
        simp only [denote, L.add]; ring
      · by_cases h2 : op = Op.sub
        · subst h2
          simp only [h1, if_false, if_true]
          rw [ih.aff a s _ e hwa, ih.aff b _ acc e hwb, foldNeg L]
          simp only [denote, L.sub]; ring
        · by_cases h3 : op = Op.mul
          · subst h3
            simp only [h1, h2, if_false, if_true]
            cases hca : constOf a with
            | some c =>
              have ea := constOf_some hca
              simp only []
              rw [ih.aff b _ acc e hwb, foldMul L, ea]
              simp only [denote, L.mul]; ring
            | none =>
              cases hcb : constOf b with
              | some c =>
                have eb := constOf_some hcb
                simp only []
                rw [ih.aff a _ acc e hwa, foldMul L, eb]
                simp only [denote, L.mul]; ring
              | none =>
                simp only []
                rw [addTerm_eval L, ih.non _ e hw0]
          · by_cases h4 : op = Op.div
            · subst h4
              simp only [h1, h2, h3, if_false, if_true]
              cases hcb : constOf b with
              | some c =>
                have eb := constOf_some hcb
                simp only []
                rw [ih.aff a _ acc e hwa, foldDiv L, eb]
                simp only [denote, L.div]; ring
              | none =>
                simp only []
                rw [addTerm_eval L, ih.non _ e hw0]
            · simp only [h1, h2, h3, h4, if_false]
              rw [addTerm_eval L, ih.non _ e hw0]
    | const c => simp only [affineTerms]; rw [addTerm_eval L, ih.non _ e hw]
    | x => simp only [affineTerms]; rw [addTerm_eval L, ih.non _ e hw]
    | y => simp only [affineTerms]; rw [addTerm_eval L, ih.non _ e hw]
    | z => simp only [affineTerms]; rw [addTerm_eval L, ih.non _ e hw]
    | var v => simp only [affineTerms]; rw [addTerm_eval L, ih.non _ e hw]
    | remap t x' y' z' => simp only [affineTerms]; rw [addTerm_eval L, ih.non _ e hw]
    | apply t v val => simp only [affineTerms]; rw [addTerm_eval L, ih.non _ e hw]
    | oracle k => simp only [affineTerms]; rw [addTerm_eval L, ih.non _ e hw]
    | invalid => simp only [affineTerms]; rw [addTerm_eval L, ih.non _ e hw]
  · -- commItems
    intro op t acc e hop hw
    have hac := ac_of_commOp L op hop
    cases t with
    | bin op' a b =>
      have hw0 := hw
      obtain ⟨ho, hwa, hwb⟩ := hw
      simp only [commItems]
      by_cases hc : commOp (bin op' a b) = some op ∧ op' = op
      · obtain ⟨_, rfl⟩ := hc
        simp only [*, and_self, if_true]
        rw [ih.comm op' a _ e hop hwa, ih.comm op' b acc e hop hwb, lift_assoc hac]
        simp only [lift, denote]
        rw [hac.comm]
      · simp only [hc, if_false, List.map_append, List.map_cons, List.map_nil]
        rw [foldV_snoc hac, ih.opt _ e hw0]
    | const c => simp only [commItems, List.map_append, List.map_cons, List.map_nil]; rw [foldV_snoc hac, ih.opt _ e hw]
    | x => simp only [commItems, List.map_append, List.map_cons, List.map_nil]; rw [foldV_snoc hac, ih.opt _ e hw]
    | y => simp only [commItems, List.map_append, List.map_cons, List.map_nil]; rw [foldV_snoc hac, ih.opt _ e hw]
    | z => simp only [commItems, List.map_append, List.map_cons, List.map_nil]; rw [foldV_snoc hac, ih.opt _ e hw]
    | var v => simp only [commItems, List.map_append, List.map_cons, List.map_nil]; rw [foldV_snoc hac, ih.opt _ e hw]
    | un o a => simp only [commItems, List.map_append, List.map_cons, List.map_nil]; rw [foldV_snoc hac, ih.opt _ e hw]
    | remap t x' y' z' => simp only [commItems, List.map_append, List.map_cons, List.map_nil]; rw [foldV_snoc hac, ih.opt _ e hw]
    | apply t v val => simp only [commItems, List.map_append, List.map_cons, List.map_nil]; rw [foldV_snoc hac, ih.opt _ e hw]
    | oracle k => simp only [commItems, List.map_append, List.map_cons, List.map_nil]; rw [foldV_snoc hac, ih.opt _ e hw]
    | invalid => simp only [commItems, List.map_append, List.map_cons, List.map_nil]; rw [foldV_snoc hac, ih.opt _ e hw]

theorem soundAt (L : LawfulOpt K I) (le : Expr C → Expr C → Bool) : ∀ f, SoundAt K I le f := by
  intro f
  induction f with
  | zero => exact soundAt_zero L le
  | succ f ih => exact soundAt_succ L le f ih

/-- **The optimiser preserves the function**, for every fuel, every sorting order `le`, every
    lawful interpretation. -/
theorem optimize_sound (L : LawfulOpt K I) (le : Expr C → Expr C → Bool) (t : Expr C) (e : Env α)
    (hw : wellArity t) : denote I (optimize K le t) e = denote I t e :=
  (soundAt L le _).opt t e hw

end
end Libfive.Optimize
