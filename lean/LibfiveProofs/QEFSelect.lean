/-
  Helper lemmas for C19, part 1: the control logic of `solveBounded`
  (LibfiveModel/QEF.lean: `step`, `unrollSubspace`, `unrollDimension`, `selectBounded`).
  No order axioms are used anywhere: the comparison class `QOrd` is arbitrary.
-/
import LibfiveModel.QEF

namespace Libfive.QEF

/-! ### `allFin` is universal quantification -/

theorem allFin_iff : ∀ (n : Nat) (f : Fin n → Bool), allFin n f = true ↔ ∀ i, f i = true
  | 0, f => by simp [allFin]
  | n + 1, f => by
    simp only [allFin, Bool.and_eq_true, allFin_iff n]
    constructor
    · rintro ⟨h1, h2⟩ i
      by_cases hi : i.val < n
      · have := h1 ⟨i.val, hi⟩
        simpa using this
      · have : i = Fin.last n := by
          apply Fin.ext
          have := i.isLt
          simp only [Fin.val_last]
          omega
        rw [this]; exact h2
    · intro h
      exact ⟨fun i => h i.castSucc, h (Fin.last n)⟩

section select
variable {α : Type} [QOrd α] {n : Nat}

theorem contains_iff (r : Region n α) (p : Fin n → α) :
    r.contains p = true ↔ ∀ i, QOrd.le (r.lower i) (p i) = true ∧ QOrd.le (p i) (r.upper i) = true := by
  simp only [Region.contains, Bool.and_eq_true, allFin_iff]
  constructor
  · rintro ⟨h1, h2⟩ i; exact ⟨h1 i, h2 i⟩
  · intro h; exact ⟨fun i => (h i).1, fun i => (h i).2⟩

/-- in a 0-dimensional space every point is contained (`.all()` of an empty array) -/
theorem contains_zero (r : Region 0 α) (p : Fin 0 → α) : r.contains p = true := by
  simp [Region.contains, allFin]

theorem mem_subspacesOfDim (n d nb : Nat) :
    nb ∈ subspacesOfDim n d ↔ nb < 3 ^ n ∧ nbDim n nb = d := by
  simp [subspacesOfDim, List.mem_filter]

/-! ### one sweep over the subspaces of a dimension -/

/-- the sweep returns its initial `out` or one of the visited candidates -/
theorem foldl_step_mem (cand : Nat → Solution n α) (r : Region n α) :
    ∀ (L : List Nat) (out : Solution n α),
      L.foldl (fun o nb => step r o (cand nb)) out = out ∨
      ∃ nb ∈ L, L.foldl (fun o nb => step r o (cand nb)) out = cand nb
  | [], out => by simp
  | a :: t, out => by
    simp only [List.foldl_cons]
    rcases foldl_step_mem cand r t (step r out (cand a)) with h | ⟨nb, hnb, h⟩
    · rw [h]
      unfold step
      by_cases hacc : accepts r out (cand a) = true
      · right; exact ⟨a, by simp, by simp [hacc]⟩
      · left; simp [hacc]
    · right; exact ⟨nb, by simp [hnb], h⟩

/-- if some visited candidate's error is `<` the initial error, the sweep returns a candidate -/
theorem foldl_step_accepts (cand : Nat → Solution n α) (r : Region n α) :
    ∀ (L : List Nat) (out : Solution n α),
      (∃ nb ∈ L, QOrd.lt (cand nb).error out.error = true) →
      ∃ nb ∈ L, L.foldl (fun o nb => step r o (cand nb)) out = cand nb
  | [], out => by simp
  | a :: t, out => by
    rintro ⟨w, hw, hlt⟩
    simp only [List.foldl_cons]
    by_cases hacc : accepts r out (cand a) = true
    · have hs : step r out (cand a) = cand a := by simp [step, hacc]
      rw [hs]
      rcases foldl_step_mem cand r t (cand a) with h | ⟨nb, hnb, h⟩
      · exact ⟨a, by simp, h⟩
      · exact ⟨nb, by simp [hnb], h⟩
    · have hs : step r out (cand a) = out := by simp [step, hacc]
      rw [hs]
      have hwa : w ≠ a := by
        intro e
        subst e
        apply hacc
        simp [accepts, hlt]
      have hwt : w ∈ t := by
        rcases List.mem_cons.mp hw with e | h
        · exact absurd e hwa
        · exact h
      obtain ⟨nb, hnb, h⟩ := foldl_step_accepts cand r t out ⟨w, hwt, hlt⟩
      exact ⟨nb, by simp [hnb], h⟩

/-! ### the descending-dimension recursion -/

/-- **Core of `solveBounded_in_box`.**  If every corner candidate is contained and some corner
    candidate has an error `< +inf`, the recursion entered with an infinite error at any
    target dimension `k` (i.e. `UnrollDimension<k>`) returns a contained position. -/
theorem unrollDimension_contains (cand : Nat → Solution n α) (r : Region n α)
    (hc : ∀ nb, nb < 3 ^ n → nbDim n nb = 0 → r.contains (cand nb).position = true)
    (he : ∃ nb, nb < 3 ^ n ∧ nbDim n nb = 0 ∧ QOrd.lt (cand nb).error QOrd.inf = true) :
    ∀ (k : Nat) (out : Solution n α), out.error = QOrd.inf →
      r.contains (unrollDimension cand r (k + 1) out).position = true
  | 0, out, hinf => by
    obtain ⟨w, hw1, hw2, hw3⟩ := he
    have hmem : w ∈ subspacesOfDim n 0 := (mem_subspacesOfDim n 0 w).mpr ⟨hw1, hw2⟩
    obtain ⟨nb, hnb, h⟩ := foldl_step_accepts cand r (subspacesOfDim n 0) out
      ⟨w, hmem, by rw [hinf]; exact hw3⟩
    have hnb' := (mem_subspacesOfDim n 0 nb).mp hnb
    have hcont := hc nb hnb'.1 hnb'.2
    have h' : unrollSubspace cand r 0 out = cand nb := h
    simp only [unrollDimension, h', hcont, Bool.not_true, Bool.false_eq_true, if_false]
  | d + 1, out, hinf => by
    rw [unrollDimension]
    by_cases hcon : r.contains (unrollSubspace cand r (d + 1) out).position = true
    · simp only [hcon, Bool.not_true, Bool.false_eq_true, if_false]
    · simp only [hcon, Bool.not_false, if_true]
      exact unrollDimension_contains cand r hc he d
        { unrollSubspace cand r (d + 1) out with error := QOrd.inf } rfl

/-- If moreover every dimension `d ≤ k` has a subspace whose candidate error is `< +inf`, the
    recursion returns one of the candidates (never the dummy, never a solution whose error was
    overwritten with `+inf`). -/
theorem unrollDimension_candidate (cand : Nat → Solution n α) (r : Region n α)
    (hc : ∀ nb, nb < 3 ^ n → nbDim n nb = 0 → r.contains (cand nb).position = true) :
    ∀ (k : Nat) (out : Solution n α), out.error = QOrd.inf →
      (∀ d, d ≤ k → ∃ nb, nb < 3 ^ n ∧ nbDim n nb = d ∧ QOrd.lt (cand nb).error QOrd.inf = true) →
      ∃ nb, nb < 3 ^ n ∧ nbDim n nb ≤ k ∧ unrollDimension cand r (k + 1) out = cand nb ∧
        r.contains (cand nb).position = true
  | 0, out, hinf, hf => by
    obtain ⟨w, hw1, hw2, hw3⟩ := hf 0 (Nat.le_refl 0)
    have hmem : w ∈ subspacesOfDim n 0 := (mem_subspacesOfDim n 0 w).mpr ⟨hw1, hw2⟩
    obtain ⟨nb, hnb, h⟩ := foldl_step_accepts cand r (subspacesOfDim n 0) out
      ⟨w, hmem, by rw [hinf]; exact hw3⟩
    have hnb' := (mem_subspacesOfDim n 0 nb).mp hnb
    have hcont := hc nb hnb'.1 hnb'.2
    have h' : unrollSubspace cand r 0 out = cand nb := h
    refine ⟨nb, hnb'.1, by omega, ?_, hcont⟩
    simp only [unrollDimension, h', hcont, Bool.not_true, Bool.false_eq_true, if_false]
  | d + 1, out, hinf, hf => by
    obtain ⟨w, hw1, hw2, hw3⟩ := hf (d + 1) (Nat.le_refl _)
    have hmem : w ∈ subspacesOfDim n (d + 1) := (mem_subspacesOfDim n (d + 1) w).mpr ⟨hw1, hw2⟩
    obtain ⟨nb, hnb, h⟩ := foldl_step_accepts cand r (subspacesOfDim n (d + 1)) out
      ⟨w, hmem, by rw [hinf]; exact hw3⟩
    have hnb' := (mem_subspacesOfDim n (d + 1) nb).mp hnb
    have h' : unrollSubspace cand r (d + 1) out = cand nb := h
    rw [unrollDimension]
    by_cases hcon : r.contains (unrollSubspace cand r (d + 1) out).position = true
    · simp only [hcon, Bool.not_true, Bool.false_eq_true, if_false]
      refine ⟨nb, hnb'.1, by omega, h', ?_⟩
      rw [← h']; exact hcon
    · simp only [hcon, Bool.not_false, if_true]
      obtain ⟨nb2, h1, h2, h3, h4⟩ := unrollDimension_candidate cand r hc d
        { unrollSubspace cand r (d + 1) out with error := QOrd.inf } rfl
        (fun e he => hf e (by omega))
      exact ⟨nb2, h1, by omega, h3, h4⟩

end select

/-! ### structure of the `solveConstrained` candidates -/

section cand
set_option linter.unusedSectionVars false
variable {α : Type} [Add α] [Sub α] [Mul α] [Div α] [Neg α] [OfNat α 0] [OfNat α 1] [OfNat α 2]
  {n : Nat}

/-- a 0-dimensional neighbour (a corner) fixes every axis -/
theorem nbFixed_of_dim_zero (nb : Nat) (h : nbDim n nb = 0) (i : Fin n) : nbFixed nb i.val = true := by
  unfold nbDim at h
  have hnil := List.eq_nil_of_length_eq_zero h
  have := List.filter_eq_nil_iff.mp hnil i.val (List.mem_range.mpr i.isLt)
  simpa [nbFixed] using this

theorem solveConstrained_fixed (solver : Solver α) (q : QEF n α) (region : Region n α) (nb : Nat)
    (tpos : Fin n → α) (tval : α) (i : Fin n) (h : nbFixed nb i.val = true) :
    (q.solveConstrained solver region nb tpos tval).position i = region.face nb i ∧
    (q.solveConstrained solver region nb tpos tval).constrained i = true := by
  simp [QEF.solveConstrained, assemblePos, h]

theorem solveConstrained_flags (solver : Solver α) (q : QEF n α) (region : Region n α) (nb : Nat)
    (tpos : Fin n → α) (tval : α) (i : Fin n) :
    (q.solveConstrained solver region nb tpos tval).constrained i = nbFixed nb i.val := rfl

theorem solveConstrained_error (solver : Solver α) (q : QEF n α) (region : Region n α) (nb : Nat)
    (tpos : Fin n → α) (tval : α) :
    (q.solveConstrained solver region nb tpos tval).error =
      q.error (q.solveConstrained solver region nb tpos tval).position
        (q.solveConstrained solver region nb tpos tval).value := rfl

theorem solve_error (solver : Solver α) (q : QEF n α) (tpos : Fin n → α) (tval : α) :
    (q.solve solver tpos tval).error =
      q.errorV (solver n q.AtA q.AtB (snoc tpos tval)).value := rfl

theorem snoc_headN {β : Type} {n : Nat} (v : Fin (n + 1) → β) : snoc (headN v) (v (Fin.last n)) = v := by
  funext i
  unfold snoc headN
  by_cases h : i.val < n
  · simp [h]
  · have : i = Fin.last n := by
      apply Fin.ext
      have := i.isLt
      simp only [Fin.val_last]
      omega
    simp [this]

variable [QOrd α]

/-- A box is well-formed for the comparison `le` when its bounds are comparable with themselves
    and `lower ≤ upper` (false e.g. for NaN bounds or an inverted box). -/
def Region.WF (r : Region n α) : Prop :=
  ∀ i, QOrd.le (r.lower i) (r.lower i) = true ∧ QOrd.le (r.lower i) (r.upper i) = true ∧
       QOrd.le (r.upper i) (r.upper i) = true

/-- the corner candidates of `solveConstrained` lie in the region they were solved for -/
theorem corner_contained (solver : Solver α) (q : QEF n α) (region : Region n α) (hwf : region.WF)
    (tpos : Fin n → α) (tval : α) (nb : Nat) (h : nbDim n nb = 0) :
    region.contains (q.solveConstrained solver region nb tpos tval).position = true := by
  rw [contains_iff]
  intro i
  have hf := nbFixed_of_dim_zero nb h i
  rw [(solveConstrained_fixed solver q region nb tpos tval i hf).1]
  obtain ⟨h1, h2, h3⟩ := hwf i
  unfold Region.face
  by_cases hu : nbUpper nb i.val = true
  · simp [hu, h2, h3]
  · simp [hu, h1, h2]

/-! ### when is a corner error comparable?  ("no NaN, no overflow") -/

/-- A notion of *finite* scalar that the arithmetic preserves and that compares `< +inf`.
    For IEEE doubles this is `isfinite` **as long as no operation overflows**; NaN and ±inf
    are not finite. -/
structure FinArith (α : Type) [Add α] [Sub α] [Mul α] [OfNat α 0] [OfNat α 2] [QOrd α] where
  fin : α → Prop
  add : ∀ {a b}, fin a → fin b → fin (a + b)
  sub : ∀ {a b}, fin a → fin b → fin (a - b)
  mul : ∀ {a b}, fin a → fin b → fin (a * b)
  zero : fin 0
  two : fin 2
  lt_inf : ∀ {a}, fin a → QOrd.lt a QOrd.inf = true

variable (F : FinArith α)

theorem FinArith.sumFin : ∀ (m : Nat) (f : Fin m → α), (∀ i, F.fin (f i)) → F.fin (sumFin m f)
  | 0, _, _ => F.zero
  | m + 1, _, h => F.add (FinArith.sumFin m _ (fun i => h i.castSucc)) (h (Fin.last m))

/-- all entries of the three matrices are finite -/
def QEF.Finite (q : QEF n α) : Prop :=
  ∀ i j, F.fin (q.AtA i j) ∧ F.fin (q.AtBp i j) ∧ F.fin (q.BptBp i j)

theorem FinArith.errorV (q : QEF n α) (hq : q.Finite F) (v : Fin (n + 1) → α) (hv : ∀ i, F.fin (v i)) :
    F.fin (q.errorV v) := by
  unfold QEF.errorV QEF.AtB QEF.BtB
  refine F.add (F.sub ?_ (F.mul F.two ?_)) ?_
  · exact F.sumFin _ _ (fun j => F.mul (F.sumFin _ _ (fun i => F.mul (hv i) (hq i j).1)) (hv j))
  · exact F.sumFin _ _ (fun i => F.mul (hv i) (F.sumFin _ _ (fun j => (hq i j).2.1)))
  · exact F.sumFin _ _ (fun j => F.sumFin _ _ (fun i => (hq i j).2.2))

theorem FinArith.snoc {x : Fin n → α} {w : α} (hx : ∀ i, F.fin (x i)) (hw : F.fin w) :
    ∀ i, F.fin (snoc x w i) := by
  intro i
  unfold QEF.snoc
  by_cases h : i.val < n
  · simp [h, hx]
  · simp [h, hw]

/-- **A corner candidate's error compares `< +inf`** when the matrices and the region bounds are
    finite and the inner solver's value for that corner's 1×1 system is finite. -/
theorem corner_error_lt_inf (solver : Solver α) (q : QEF n α) (region : Region n α)
    (tpos : Fin n → α) (tval : α) (nb : Nat) (hdim : nbDim n nb = 0)
    (hq : q.Finite F) (hr : ∀ i, F.fin (region.lower i) ∧ F.fin (region.upper i))
    (hs : F.fin ((solver (freeAxes n nb).length (q.reducedAtA nb) (q.reducedAtB region nb)
            (reducedTarget nb tpos tval)).value (Fin.last _))) :
    QOrd.lt (q.solveConstrained solver region nb tpos tval).error QOrd.inf = true := by
  apply F.lt_inf
  rw [solveConstrained_error]
  unfold QEF.error
  apply F.errorV q hq
  apply F.snoc
  · intro i
    rw [(solveConstrained_fixed solver q region nb tpos tval i (nbFixed_of_dim_zero nb hdim i)).1]
    unfold Region.face
    by_cases hu : nbUpper nb i.val = true
    · simp [hu, (hr i).2]
    · simp [hu, (hr i).1]
  · exact hs

end cand

/-- `Ext`'s finite values form a `FinArith` (its arithmetic never overflows) -/
def extFinArith : FinArith Ext where
  fin a := ∃ x, a = .fin x
  add := by rintro _ _ ⟨x, rfl⟩ ⟨y, rfl⟩; exact ⟨x + y, rfl⟩
  sub := by rintro _ _ ⟨x, rfl⟩ ⟨y, rfl⟩; exact ⟨x - y, rfl⟩
  mul := by rintro _ _ ⟨x, rfl⟩ ⟨y, rfl⟩; exact ⟨x * y, rfl⟩
  zero := ⟨0, rfl⟩
  two := ⟨2, rfl⟩
  lt_inf := by rintro _ ⟨x, rfl⟩; rfl

def Ext.isFin : Ext → Bool
  | .fin _ => true
  | _ => false

theorem extFin_of_isFin {a : Ext} (h : a.isFin = true) : extFinArith.fin a := by
  cases a with
  | fin x => exact ⟨x, rfl⟩
  | pinf => simp [Ext.isFin] at h
  | nan => simp [Ext.isFin] at h

end Libfive.QEF
