/-
  C02 helper lemmas, part 3: the side conditions `SafeArgs` (the hypotheses missing from libfive's flag
  logic, spelled out), the master per-opcode lemma, and the lifting to whole tapes.
-/
import LibfiveProofs.Interval2
import LibfiveProofs.IntervalAtan2
import LibfiveProofs.IntervalMod

set_option linter.unusedSectionVars false
set_option linter.unusedVariables false

namespace Libfive.Ivl

open FVal

variable {K : Type} [Field K] [LinearOrder K] [IsStrictOrderedRing K] [FloorRing K]
variable {Bo : BoostOps K} {P : PointFns K}

/-- The hypotheses under which the enclosure lemma of an opcode holds.  On the fixed tree this is
    `True` for every opcode except `pow` / `nth_root`:
    * both take an integer CONSTANT exponent (the only exponents libfive's API admits — `int(b.lower())`
      is all the interval code looks at);
    * `pow`: for exponent 0 the base is not the point interval `[0,0]` (Boost's `pow` returns the empty
      interval; the result is flagged, but its NaN bounds do not contain the value `0^0 = 1`);
    * `nth_root`: finite operand bounds (Boost's `nth_root` returns a NaN bound for an infinite endpoint;
      the result is flagged since the fix, but the bounds do not contain the value at `+∞`). -/
def SafeArgs (Bo : BoostOps K) (P : PointFns K) (op : Op) (A B : IVal K) : Prop :=
  match op with
  | .pow => ∃ y k, B = ⟨fin y, fin y, false⟩ ∧ P.toInt? y = some k ∧ Bo.toInt (fin y) = k ∧
      (k = 0 → ¬ (A.lo = fin 0 ∧ A.hi = fin 0))
  | .nthRoot => ∃ y k, B = ⟨fin y, fin y, false⟩ ∧ P.toInt? y = some k ∧ Bo.toInt (fin y) = k ∧
      1 ≤ k ∧ A.lo.isFinite = true ∧ A.hi.isFinite = true
  | _ => True

theorem PointRel.plain {op : Op} {a b r : FVal K} (h1 : op ≠ Op.div) (h2 : op ≠ Op.recip)
    (h3 : op ≠ Op.pow) (hr : PointRel P op a b r) : r = pointOp P op a b := by
  rcases hr with h | ⟨h, _⟩ | ⟨h, _⟩ | ⟨h, _⟩
  · exact h
  · exact absurd h h1
  · exact absurd h h2
  · exact absurd h h3

/-- **Per-opcode enclosure (flag completeness)**, all opcodes at once. -/
theorem op_enclS_all (hS : BoostSound Bo P) (hA2 : Atan2Sound Bo P) (hM : ModSound Bo P)
    (op : Op) {A B : IVal K} {a b r : FVal K}
    (hsafe : SafeArgs Bo P op A B) (ha : enclS A a) (hb : enclS B b) (hr : PointRel P op a b r) :
    enclS (iop Bo op A B) r := by
  cases op
  case div =>
    refine div_enclS hS ha hb ?_
    rcases hr with h | ⟨_, h0, h⟩ | ⟨h, _⟩ | ⟨h, _⟩
    · exact Or.inl h
    · exact Or.inr ⟨h0, h⟩
    · cases h
    · cases h
  case recip =>
    refine recip_enclS hS ha ?_
    rcases hr with h | ⟨h, _⟩ | ⟨_, h0, h⟩ | ⟨h, _⟩
    · exact Or.inl h
    · cases h
    · exact Or.inr ⟨h0, h⟩
    · cases h
  case pow =>
    obtain ⟨y, k, hB, hk, hti, hzero⟩ := hsafe
    refine pow_enclS_partial hS hB hk hti hzero ha hb ?_
    rcases hr with h | ⟨h, _⟩ | ⟨h, _⟩ | ⟨_, h0, hk', h⟩
    · exact Or.inl h
    · cases h
    · cases h
    · exact Or.inr ⟨h0, hk', h⟩
  all_goals (have hr := PointRel.plain (by decide) (by decide) (by decide) hr; subst hr)
  case add => exact add_enclS hS ha hb
  case mul => exact mul_enclS hS ha hb
  case min => exact min_enclS hS ha hb
  case max => exact max_enclS hS ha hb
  case sub => exact sub_enclS hS ha hb
  case atan2 => exact atan2_enclS hA2 ha hb
  case nthRoot =>
    obtain ⟨y, k, hB, hk, hti, h1, hl, hh⟩ := hsafe
    exact nthRoot_enclS_partial hS hB hk hti h1 hl hh ha hb
  case mod => exact mod_enclS hS hM ha hb
  case nanfill => exact nanfill_enclS hS ha hb
  case compare => exact compare_enclS ha hb
  case square => exact square_enclS hS ha
  case sqrt => exact sqrt_enclS hS ha
  case neg => exact neg_enclS hS ha
  case sin => exact sin_enclS hS ha
  case cos => exact cos_enclS hS ha
  case tan => exact tan_enclS hS ha
  case asin => exact asin_enclS hS ha
  case acos => exact acos_enclS hS ha
  case atan => exact atan_enclS hS ha
  case exp => exact exp_enclS hS ha
  case log => exact log_enclS hS ha
  case abs => exact abs_enclS hS ha
  all_goals exact ha

/-! ### tapes -/

/-- every clause of the tape meets its opcode's side condition on the interval slots it reads -/
def SafeTape (Bo : BoostOps K) (P : PointFns K) (iorc : Nat → IVal K) :
    List Clause → (Nat → IVal K) → Prop
  | [], _ => True
  | c :: rest, I0 =>
    SafeTape Bo P iorc rest I0 ∧
    (c.op ≠ Op.oracle →
      SafeArgs Bo P c.op (ievalList Bo iorc rest I0 c.a) (ievalList Bo iorc rest I0 c.b))

theorem tape_enclS (hS : BoostSound Bo P) (hA2 : Atan2Sound Bo P) (hM : ModSound Bo P)
    (pev : Op → FVal K → FVal K → FVal K) (hpev : ∀ op a b, PointRel P op a b (pev op a b))
    (iorc : Nat → IVal K) (porc : Nat → FVal K) (horc : ∀ k, enclS (iorc k) (porc k))
    (t : List Clause) (I0 : Nat → IVal K) (v0 : Nat → FVal K)
    (hleaf : ∀ s, enclS (I0 s) (v0 s)) (hsafe : SafeTape Bo P iorc t I0) :
    ∀ s, enclS (ievalList Bo iorc t I0 s) (evalList pev porc t v0 s) := by
  induction t with
  | nil => intro s; exact hleaf s
  | cons c rest ih =>
    obtain ⟨hs1, hs2⟩ := hsafe
    have ih := ih hs1
    intro s
    simp only [ievalList, evalList]
    by_cases hsid : s = c.id
    · subst hsid
      simp only [upd_same, evalClause]
      by_cases ho : c.op = Op.oracle
      · simp only [ho, if_true]; exact horc _
      · simp only [ho, if_false]
        exact op_enclS_all hS hA2 hM c.op (hs2 ho) (ih c.a) (ih c.b) (hpev _ _ _)
    · rw [upd_other _ _ _ _ hsid, upd_other _ _ _ _ hsid]
      exact ih s

/-! ### leaves and classification -/

theorem leaf_enclS {lo hi x : FVal K} (h1 : FVal.le lo x = true) (h2 : FVal.le x hi = true) :
    enclS (ileaf lo hi) x :=
  Or.inr ⟨ne_nan_of_le_l h2, h1, h2⟩

theorem const_enclS (c : FVal K) : enclS (ileaf c c) c := by
  cases c with
  | nan => exact Or.inl ⟨rfl, rfl⟩
  | ninf => exact Or.inr ⟨by simp, rfl, rfl⟩
  | pinf => exact Or.inr ⟨by simp, rfl, rfl⟩
  | fin x => exact Or.inr ⟨by simp, by simp [ileaf, IVal.b], by simp [ileaf, IVal.b]⟩

theorem filled_sound {A : IVal K} {v : FVal K} (hst : istate A = IState.filled) (h : encl A v) :
    v ≠ nan ∧ FVal.lt v zeroV = true := by
  unfold istate at hst
  by_cases hm : A.mn = true
  · simp [hm] at hst
  · simp only [hm] at hst
    by_cases he : FVal.gt A.lo zeroV = true
    · simp [he] at hst
    · simp only [he] at hst
      by_cases hf : FVal.lt A.hi zeroV = true
      · rcases h with h | h
        · exact absurd h hm
        · exact ⟨h.1, flt_of_le_of_lt h.2.2 hf⟩
      · simp [hf] at hst

theorem empty_sound {A : IVal K} {v : FVal K} (hst : istate A = IState.empty) (h : encl A v) :
    v ≠ nan ∧ FVal.gt v zeroV = true := by
  unfold istate at hst
  by_cases hm : A.mn = true
  · simp [hm] at hst
  · simp only [hm] at hst
    by_cases he : FVal.gt A.lo zeroV = true
    · rcases h with h | h
      · exact absurd h hm
      · exact ⟨h.1, flt_of_lt_of_le he h.2.1⟩
    · simp only [he] at hst
      by_cases hf : FVal.lt A.hi zeroV = true <;> simp [hf] at hst

end Libfive.Ivl
