/-
  Helper lemmas for C13: the reference-count invariant with "extra owners" (temporaries and the
  destructor's work list) and its preservation by every micro-step of LibfiveModel/RefCount.lean.
-/
import LibfiveModel.RefCount

namespace Libfive.RC
open List

/-! ### list lemmas -/

theorem count_flatMap_set {α : Type} (f : α → List Nat) (a : Nat) :
    ∀ (l : List α) (i : Nat) (x : α) (h : i < l.length),
      count a ((l.set i x).flatMap f) + count a (f l[i]) = count a (l.flatMap f) + count a (f x) := by
  intro l
  induction l with
  | nil => intro i x h; simp at h
  | cons y ys ih =>
    intro i x h
    cases i with
    | zero => simp [List.flatMap_cons, List.count_append]; omega
    | succ j =>
      have hj : j < ys.length := by simpa using h
      have := ih j x hj
      simp only [List.set_cons_succ, List.flatMap_cons, List.count_append, List.getElem_cons_succ]
      omega

theorem length_flatMap_set {α : Type} (f : α → List Nat) :
    ∀ (l : List α) (i : Nat) (x : α) (h : i < l.length),
      ((l.set i x).flatMap f).length + (f l[i]).length = (l.flatMap f).length + (f x).length := by
  intro l
  induction l with
  | nil => intro i x h; simp at h
  | cons y ys ih =>
    intro i x h
    cases i with
    | zero => simp [List.flatMap_cons]; omega
    | succ j =>
      have hj : j < ys.length := by simpa using h
      have := ih j x hj
      simp only [List.set_cons_succ, List.flatMap_cons, List.length_append, List.getElem_cons_succ]
      omega

theorem length_flatMap_le {α : Type} (f : α → List Nat) (c : Nat) :
    ∀ (l : List α), (∀ x ∈ l, (f x).length ≤ c) → (l.flatMap f).length ≤ c * l.length := by
  intro l
  induction l with
  | nil => intro _; simp
  | cons y ys ih =>
    intro h
    have h1 := h y (by simp)
    have h2 := ih (fun x hx => h x (by simp [hx]))
    simp only [List.flatMap_cons, List.length_append, List.length_cons, Nat.mul_add, Nat.mul_one]
    omega

/-! ### state lemmas -/

theorem node?_lt {s : State} {n : Nat} {nd : Node} (h : s.node? n = some nd) : n < s.heap.size := by
  unfold State.node? at h
  by_cases hn : n < s.heap.size
  · exact hn
  · rw [Array.getElem?_eq_none (by omega)] at h; simp at h

theorem node?_heap {s : State} {n : Nat} {nd : Node} (h : s.node? n = some nd) :
    ∃ hn : n < s.heap.size, s.heap[n] = some nd := by
  have hn := node?_lt h
  refine ⟨hn, ?_⟩
  unfold State.node? at h
  rw [Array.getElem?_eq_getElem hn] at h
  simpa using h

@[simp] theorem setNode_slots (n o) (s : State) : (setNode n o s).slots = s.slots := rfl
@[simp] theorem setNode_ub (n o) (s : State) : (setNode n o s).ub = s.ub := rfl
@[simp] theorem setNode_slotOwn (n o) (s : State) : (setNode n o s).slotOwn = s.slotOwn := rfl
@[simp] theorem setNode_size (n o) (s : State) : (setNode n o s).heap.size = s.heap.size := by
  simp [setNode]

theorem node?_setNode {s : State} {n : Nat} (o : Option Node) (hn : n < s.heap.size) (m : Nat) :
    (setNode n o s).node? m = if m = n then o else s.node? m := by
  unfold State.node? setNode
  simp only [Array.getElem?_setIfInBounds]
  by_cases h : n = m
  · subst h; simp [hn]
  · have : ¬ m = n := fun e => h e.symm
    simp [h, this]

theorem count_fields_setNode {s : State} {n : Nat} {nd : Node} (o : Option Node)
    (h : s.node? n = some nd) (a : Nat) :
    count a (setNode n o s).fields + count a nd.kids = count a s.fields + count a (fieldsOf o) := by
  obtain ⟨hn, hv⟩ := node?_heap h
  unfold State.fields setNode
  simp only [Array.toList_setIfInBounds]
  have hl : n < s.heap.toList.length := by simpa using hn
  have := count_flatMap_set fieldsOf a s.heap.toList n o hl
  have e : s.heap.toList[n] = some nd := by simpa using hv
  rw [e] at this
  simpa [fieldsOf] using this

theorem length_fields_setNode {s : State} {n : Nat} {nd : Node} (o : Option Node)
    (h : s.node? n = some nd) :
    (setNode n o s).fields.length + nd.kids.length = s.fields.length + (fieldsOf o).length := by
  obtain ⟨hn, hv⟩ := node?_heap h
  unfold State.fields setNode
  simp only [Array.toList_setIfInBounds]
  have hl : n < s.heap.toList.length := by simpa using hn
  have := length_flatMap_set fieldsOf s.heap.toList n o hl
  have e : s.heap.toList[n] = some nd := by simpa using hv
  rw [e] at this
  simpa [fieldsOf] using this

/-- push a fresh node -/
def pushNode (nd : Node) (s : State) : State := { s with heap := s.heap.push (some nd) }

theorem node?_pushNode (nd : Node) (s : State) (m : Nat) :
    (pushNode nd s).node? m = if m = s.heap.size then some nd else s.node? m := by
  unfold State.node? pushNode
  simp only [Array.getElem?_push]
  by_cases h : m = s.heap.size <;> simp [h]

theorem fields_pushNode (nd : Node) (s : State) : (pushNode nd s).fields = s.fields ++ nd.kids := by
  unfold State.fields pushNode
  simp [Array.toList_push, List.flatMap_append, fieldsOf]

@[simp] theorem setSlot_heap (h v) (s : State) : (setSlot h v s).heap = s.heap := rfl
@[simp] theorem setSlot_ub (h v) (s : State) : (setSlot h v s).ub = s.ub := rfl
@[simp] theorem setSlot_node? (h v) (s : State) (n : Nat) : (setSlot h v s).node? n = s.node? n := rfl
@[simp] theorem setSlot_fields (h v) (s : State) : (setSlot h v s).fields = s.fields := rfl
@[simp] theorem setSlot_size (h v) (s : State) : (setSlot h v s).slots.size = s.slots.size := by
  simp [setSlot]

theorem slot_eq {s : State} {h : Nat} (hh : h < s.slots.size) : s.slot h = s.slots[h] := by
  unfold State.slot
  simp [Array.getD_eq_getD_getElem?, hh]

theorem slot_setSlot {s : State} {h : Nat} (v : Slot) (hh : h < s.slots.size) (h' : Nat) :
    (setSlot h v s).slot h' = if h' = h then v else s.slot h' := by
  unfold State.slot setSlot
  simp only [Array.getD_eq_getD_getElem?, Array.getElem?_setIfInBounds]
  by_cases e : h = h'
  · subst e; simp [hh]
  · have : ¬ h' = h := fun x => e x.symm
    simp [e, this]

theorem count_slotOwn_setSlot {s : State} {h : Nat} (v : Slot) (hh : h < s.slots.size) (a : Nat) :
    count a (setSlot h v s).slotOwn + count a (s.slot h).own = count a s.slotOwn + count a v.own := by
  unfold State.slotOwn setSlot
  simp only [Array.toList_setIfInBounds]
  have hl : h < s.slots.toList.length := by simpa using hh
  have := count_flatMap_set Slot.own a s.slots.toList h v hl
  rw [slot_eq hh]
  simpa using this

theorem own_pos_slotOwn {s : State} {h n : Nat} (hh : h < s.slots.size) (hn : n ∈ (s.slot h).own) :
    0 < count n s.slotOwn := by
  rw [List.count_pos_iff]
  unfold State.slotOwn
  rw [List.mem_flatMap]
  refine ⟨s.slots[h], ?_, ?_⟩
  · exact Array.getElem_mem_toList hh
  · rw [← slot_eq hh]; exact hn

/-! ### the invariant -/

/-- number of owners of node `n`: handles + parent fields + extra (temporaries / work list) -/
def cnt (s : State) (e : List Nat) (n : Nat) : Nat :=
  count n s.slotOwn + count n s.fields + count n e

structure InvX (s : State) (e : List Nat) : Prop where
  ub : s.ub = false
  rc : ∀ n nd, s.node? n = some nd → nd.rc = cnt s e n
  alive : ∀ n, 0 < cnt s e n → (s.node? n).isSome = true
  shape : ∀ n nd, s.node? n = some nd → nd.kids.length ≤ 4 ∧ ∀ k ∈ nd.kids, k < n
  pos : ∀ n nd, s.node? n = some nd → 1 ≤ nd.rc
  stat : ∀ h, h < NSTATIC → s.slots[h]? = some (Slot.tree (some h))

/-- the invariant at operation boundaries -/
abbrev Inv (s : State) : Prop := InvX s []

theorem InvX.congr {s : State} {e e' : List Nat} (h : ∀ m, count m e = count m e') (i : InvX s e) :
    InvX s e' := by
  have hc : ∀ m, cnt s e' m = cnt s e m := fun m => by simp [cnt, h m]
  exact ⟨i.ub, fun n nd hn => by rw [hc]; exact i.rc n nd hn, fun n hp => i.alive n (by rw [← hc]; exact hp),
    i.shape, i.pos, i.stat⟩

/-- states that differ only in their handles, with the same owner counts -/
theorem InvX.of_slots {s s' : State} {e e' : List Nat} (i : InvX s e)
    (hheap : s'.heap = s.heap) (hub : s'.ub = s.ub)
    (hstat : ∀ h, h < NSTATIC → s'.slots[h]? = some (Slot.tree (some h)))
    (hc : ∀ m, cnt s' e' m = cnt s e m) : InvX s' e' := by
  have hn : ∀ m, s'.node? m = s.node? m := fun m => by simp [State.node?, hheap]
  refine ⟨by rw [hub]; exact i.ub, ?_, ?_, ?_, ?_, hstat⟩
  · intro n nd h; rw [hn] at h; rw [hc]; exact i.rc n nd h
  · intro n h; rw [hn]; rw [hc] at h; exact i.alive n h
  · intro n nd h; rw [hn] at h; exact i.shape n nd h
  · intro n nd h; rw [hn] at h; exact i.pos n nd h

theorem cnt_fields_eq {s s' : State} (hs : s'.slotOwn = s.slotOwn) (hf : s'.fields = s.fields)
    (e : List Nat) (m : Nat) : cnt s' e m = cnt s e m := by simp [cnt, hs, hf]

/-- `setSlot`: the count moves from the extras into the table (and the old content out) -/
theorem InvX.setSlot {s : State} {e : List Nat} {h : Nat} (v : Slot) (hh : h < s.slots.size)
    (h5 : NSTATIC ≤ h) (i : InvX s (v.own ++ e)) : InvX (setSlot h v s) ((s.slot h).own ++ e) := by
  refine i.of_slots rfl rfl ?_ ?_
  · intro k hk
    have : ¬ h = k := by omega
    simp only [RC.setSlot, Array.getElem?_setIfInBounds, this, if_false]
    exact i.stat k hk
  · intro m
    have := count_slotOwn_setSlot v hh m
    simp only [cnt, setSlot_fields, List.count_append]
    omega

/-- `refcount++` on an allocated node adds one extra owner -/
theorem InvX.incr {s : State} {e : List Nat} {n : Nat} (i : InvX s e) (hn : (s.node? n).isSome = true) :
    InvX (incr n s) (n :: e) := by
  obtain ⟨nd, hnd⟩ := Option.isSome_iff_exists.mp hn
  have hlt := node?_lt hnd
  have hstep : RC.incr n s = setNode n (some { nd with rc := nd.rc + 1 }) s := by
    simp [RC.incr, hnd]
  rw [hstep]
  have hf : ∀ a, count a (setNode n (some { nd with rc := nd.rc + 1 }) s).fields = count a s.fields := by
    intro a
    have := count_fields_setNode (some { nd with rc := nd.rc + 1 }) hnd a
    simp only [fieldsOf] at this
    omega
  have hc : ∀ m, cnt (setNode n (some { nd with rc := nd.rc + 1 }) s) (n :: e) m
      = cnt s e m + if m = n then 1 else 0 := by
    intro m
    simp only [cnt, setNode_slotOwn, hf, List.count_cons]
    by_cases h : m = n
    · subst h; simp; omega
    · have : ¬ n = m := fun x => h x.symm
      simp [h, this]
  refine ⟨by simpa using i.ub, ?_, ?_, ?_, ?_, by simpa using i.stat⟩
  · intro m md hm
    rw [node?_setNode _ hlt] at hm
    rw [hc]
    by_cases h : m = n
    · subst h
      simp only [if_true, Option.some.injEq] at hm
      subst hm
      simp [i.rc _ nd hnd]
    · simp only [h, if_false] at hm
      simp [h, i.rc m md hm]
  · intro m hm
    rw [node?_setNode _ hlt]
    by_cases h : m = n
    · simp [h]
    · simp only [h, if_false]
      apply i.alive
      rw [hc] at hm
      simpa [h] using hm
  · intro m md hm
    rw [node?_setNode _ hlt] at hm
    by_cases h : m = n
    · subst h
      simp only [if_true, Option.some.injEq] at hm
      subst hm
      exact i.shape _ nd hnd
    · simp only [h, if_false] at hm
      exact i.shape m md hm
  · intro m md hm
    rw [node?_setNode _ hlt] at hm
    by_cases h : m = n
    · subst h
      simp only [if_true, Option.some.injEq] at hm
      subst hm
      simp
    · simp only [h, if_false] at hm
      exact i.pos m md hm

/-! ### the destructor loop -/

theorem loop_succ_cons (f t : Nat) (rest : List Nat) (s : State) :
    loop (f + 1) (t :: rest) s = loop f (loopStep (t :: rest) s).1 (loopStep (t :: rest) s).2 := rfl

theorem loopStep_last {s : State} {t : Nat} {nd : Node} (rest : List Nat) (h : s.node? t = some nd)
    (h1 : nd.rc = 1) : loopStep (t :: rest) s = (nd.kids.reverse ++ rest, setNode t none s) := by
  simp [loopStep, h, h1]

theorem loopStep_dec {s : State} {t : Nat} {nd : Node} (rest : List Nat) (h : s.node? t = some nd)
    (h2 : 2 ≤ nd.rc) :
    loopStep (t :: rest) s = (rest, setNode t (some { nd with rc := nd.rc - 1 }) s) := by
  have a : ¬ nd.rc = 0 := by omega
  have b : ¬ nd.rc = 1 := by omega
  simp [loopStep, h, a, b]

/-- The destructor loop consumes the work list: every popped entry gives up one count; a node
    whose count reaches zero is freed and its fields join the work list.  Fuel `≥ |todo| + |fields|`
    is enough. -/
theorem InvX.loop : ∀ (f : Nat) (todo : List Nat) (s : State) (e : List Nat),
    InvX s (todo ++ e) → todo.length + s.fields.length ≤ f → InvX (loop f todo s) e := by
  intro f
  induction f with
  | zero =>
    intro todo s e i hf
    cases todo with
    | nil => simpa [RC.loop] using i
    | cons t rest => simp at hf
  | succ f ih =>
    intro todo s e i hf
    cases todo with
    | nil => simpa [RC.loop] using i
    | cons t rest =>
      have hpos : 0 < cnt s (t :: rest ++ e) t := by simp [cnt]; omega
      obtain ⟨nd, hnd⟩ := Option.isSome_iff_exists.mp (i.alive t hpos)
      have hlt := node?_lt hnd
      have hrc := i.rc t nd hnd
      rw [loop_succ_cons]
      by_cases h1 : nd.rc = 1
      · -- last owner: free `t`, push its fields
        rw [loopStep_last rest hnd h1]
        have hfl := length_fields_setNode none hnd
        simp only [fieldsOf, List.length_nil, Nat.add_zero] at hfl
        apply ih
        · have hf' : ∀ a, count a (setNode t none s).fields + count a nd.kids = count a s.fields := by
            intro a
            have := count_fields_setNode none hnd a
            simpa [fieldsOf] using this
          have hc : ∀ m, cnt (setNode t none s) ((nd.kids.reverse ++ rest) ++ e) m + (if m = t then 1 else 0)
              = cnt s (t :: rest ++ e) m := by
            intro m
            have := hf' m
            simp only [cnt, setNode_slotOwn, List.count_append, List.count_reverse, List.count_cons,
              List.cons_append]
            by_cases h : m = t
            · subst h; simp; omega
            · have : ¬ t = m := fun x => h x.symm
              simp [h, this]; omega
          have hfree : (setNode t none s).node? t = none := by rw [node?_setNode _ hlt]; simp
          have hne : ∀ m md, (setNode t none s).node? m = some md → m ≠ t ∧ s.node? m = some md := by
            intro m md hm
            by_cases h : m = t
            · subst h; rw [hfree] at hm; cases hm
            · rw [node?_setNode _ hlt] at hm; simp only [h, if_false] at hm; exact ⟨h, hm⟩
          refine ⟨by simpa using i.ub, ?_, ?_, ?_, ?_, by simpa using i.stat⟩
          · intro m md hm
            obtain ⟨h, hm'⟩ := hne m md hm
            have := hc m
            simp only [h, if_false, Nat.add_zero] at this
            rw [this]; exact i.rc m md hm'
          · intro m hm
            by_cases h : m = t
            · subst h
              have := hc m
              simp only [if_true] at this
              have hm' : 0 < cnt (setNode m none s) ((nd.kids.reverse ++ rest) ++ e) m := hm
              omega
            · have h2 := hc m
              simp only [h, if_false, Nat.add_zero] at h2
              rw [node?_setNode _ hlt]; simp only [h, if_false]
              exact i.alive m (by rw [← h2]; exact hm)
          · intro m md hm
            exact i.shape m md (hne m md hm).2
          · intro m md hm
            exact i.pos m md (hne m md hm).2
        · simp only [List.length_append, List.length_reverse, List.length_cons] at hf ⊢
          omega
      · -- other owners remain: just the decrement
        have h0 : 1 ≤ nd.rc := i.pos t nd hnd
        have h2 : 2 ≤ nd.rc := by omega
        rw [loopStep_dec rest hnd h2]
        have hfl := length_fields_setNode (some { nd with rc := nd.rc - 1 }) hnd
        simp only [fieldsOf] at hfl
        apply ih
        · have hf' : ∀ a, count a (setNode t (some { nd with rc := nd.rc - 1 }) s).fields = count a s.fields := by
            intro a
            have := count_fields_setNode (some { nd with rc := nd.rc - 1 }) hnd a
            simp only [fieldsOf] at this
            omega
          have hc : ∀ m, cnt (setNode t (some { nd with rc := nd.rc - 1 }) s) (rest ++ e) m
              + (if m = t then 1 else 0) = cnt s (t :: rest ++ e) m := by
            intro m
            simp only [cnt, setNode_slotOwn, hf', List.count_append, List.count_cons, List.cons_append]
            by_cases h : m = t
            · subst h; simp; omega
            · have : ¬ t = m := fun x => h x.symm
              simp [h, this]
          refine ⟨by simpa using i.ub, ?_, ?_, ?_, ?_, by simpa using i.stat⟩
          · intro m md hm
            rw [node?_setNode _ hlt] at hm
            have := hc m
            by_cases h : m = t
            · subst h
              simp only [if_true, Option.some.injEq] at hm
              subst hm
              simp only [if_true] at this
              simp only; omega
            · simp only [h, if_false] at hm this
              rw [Nat.add_zero] at this
              rw [this]; exact i.rc m md hm
          · intro m hm
            rw [node?_setNode _ hlt]
            by_cases h : m = t
            · simp [h]
            · simp only [h, if_false]
              have h2 := hc m
              simp only [h, if_false, Nat.add_zero] at h2
              exact i.alive m (by rw [← h2]; exact hm)
          · intro m md hm
            rw [node?_setNode _ hlt] at hm
            by_cases h : m = t
            · subst h
              simp only [if_true, Option.some.injEq] at hm
              subst hm
              exact i.shape _ nd hnd
            · simp only [h, if_false] at hm
              exact i.shape m md hm
          · intro m md hm
            rw [node?_setNode _ hlt] at hm
            by_cases h : m = t
            · subst h
              simp only [if_true, Option.some.injEq] at hm
              subst hm
              simp only; omega
            · simp only [h, if_false] at hm
              exact i.pos m md hm
        · simp only [List.length_cons] at hf ⊢
          omega

theorem fields_length_le {s : State} (h : ∀ n nd, s.node? n = some nd → nd.kids.length ≤ 4) :
    s.fields.length ≤ 4 * s.heap.size := by
  have := length_flatMap_le fieldsOf 4 s.heap.toList (by
    intro x hx
    cases x with
    | none => simp [fieldsOf]
    | some nd =>
      obtain ⟨n, hn, hv⟩ := List.mem_iff_getElem.mp hx
      have hn' : n < s.heap.size := by simpa using hn
      apply h n nd
      unfold State.node?
      rw [Array.getElem?_eq_getElem hn']
      have : s.heap[n] = some nd := by simpa using hv
      simp [this])
  simpa [State.fields] using this

/-- `Tree::~Tree` on a handle that owned one count of `n` -/
theorem InvX.dtor {s : State} {e : List Nat} {n : Nat} (i : InvX s (n :: e)) : InvX (RC.dtor n s) e := by
  unfold RC.dtor
  apply InvX.loop _ [n] s e (by simpa using i)
  have := fields_length_le (fun m md h => (i.shape m md h).1)
  simp [fuel]; omega

theorem InvX.dtorOpt {s : State} {e : List Nat} (p : Option Nat) (i : InvX s (p.toList ++ e)) :
    InvX (RC.dtorOpt p s) e := by
  cases p with
  | none => simpa [RC.dtorOpt] using i
  | some n => exact InvX.dtor (by simpa using i)

theorem InvX.dtorAll : ∀ (ns : List Nat) {s : State} {e : List Nat}, InvX s (ns ++ e) → InvX (RC.dtorAll ns s) e := by
  intro ns
  induction ns with
  | nil => intro s e i; simpa [RC.dtorAll] using i
  | cons n ns ih =>
    intro s e i
    simp only [RC.dtorAll]
    exact ih (InvX.dtor (by simpa using i))

/-! ### frame facts: heap-only micro-steps do not touch the handle table -/

def Alive (s : State) (n : Nat) : Prop := (s.node? n).isSome = true

@[simp] theorem setUb_slots (s : State) : s.setUb.slots = s.slots := rfl

theorem incr_slots (n : Nat) (s : State) : (incr n s).slots = s.slots := by
  unfold RC.incr; split <;> simp

theorem incrAll_slots : ∀ (ks : List Nat) (s : State), (incrAll ks s).slots = s.slots := by
  intro ks; induction ks with
  | nil => intro s; rfl
  | cons k ks ih => intro s; simp [RC.incrAll, ih, incr_slots]

theorem incrOpt_slots (p : Option Nat) (s : State) : (incrOpt p s).slots = s.slots := by
  cases p <;> simp [RC.incrOpt, incr_slots]

theorem loopStep_slots (todo : List Nat) (s : State) : (loopStep todo s).2.slots = s.slots := by
  unfold loopStep
  split
  · rfl
  · split
    · rfl
    · split
      · rfl
      · split <;> rfl

theorem loop_slots : ∀ (f : Nat) (todo : List Nat) (s : State), (loop f todo s).slots = s.slots := by
  intro f; induction f with
  | zero => intro todo s; cases todo <;> simp [RC.loop]
  | succ f ih =>
    intro todo s
    cases todo with
    | nil => simp [RC.loop]
    | cons t rest => rw [loop_succ_cons, ih, loopStep_slots]

theorem dtor_slots (n : Nat) (s : State) : (dtor n s).slots = s.slots := loop_slots _ _ _
theorem dtorOpt_slots (p : Option Nat) (s : State) : (dtorOpt p s).slots = s.slots := by
  cases p <;> simp [RC.dtorOpt, dtor_slots]
theorem dtorAll_slots : ∀ (ns : List Nat) (s : State), (dtorAll ns s).slots = s.slots := by
  intro ns; induction ns with
  | nil => intro s; rfl
  | cons n ns ih => intro s; simp [RC.dtorAll, ih, dtor_slots]

theorem mkNode_slots (kind : Nat) (kids : List Nat) (s : State) : (mkNode kind kids s).1.slots = s.slots := by
  simp [RC.mkNode, incrAll_slots]

theorem mkAll_slots : ∀ (specs : List Spec) (base : Array Nat) (s : State),
    (mkAll specs base s).1.slots = s.slots := by
  intro specs; induction specs with
  | nil => intro base s; rfl
  | cons sp rest ih =>
    intro base s
    simp only [RC.mkAll]
    split
    · rfl
    · rw [ih, mkNode_slots]

theorem incr_alive {s : State} {n : Nat} (hn : Alive s n) (m : Nat) : Alive (incr n s) m ↔ Alive s m := by
  obtain ⟨nd, hnd⟩ := Option.isSome_iff_exists.mp hn
  have hlt := node?_lt hnd
  unfold Alive
  simp only [RC.incr, hnd]
  rw [node?_setNode _ hlt]
  by_cases h : m = n
  · subst h; simp [hnd]
  · simp [h]

theorem incr_size {s : State} {n : Nat} : (incr n s).heap.size = s.heap.size := by
  unfold RC.incr; split <;> simp [State.setUb]

theorem InvX.incrAll : ∀ (ks : List Nat) {s : State} {e : List Nat}, InvX s e → (∀ k ∈ ks, Alive s k) →
    InvX (RC.incrAll ks s) (ks ++ e) ∧ (∀ m, Alive (RC.incrAll ks s) m ↔ Alive s m)
      ∧ (RC.incrAll ks s).heap.size = s.heap.size := by
  intro ks
  induction ks with
  | nil => intro s e i _; exact ⟨by simpa [RC.incrAll] using i, fun _ => Iff.rfl, rfl⟩
  | cons k ks ih =>
    intro s e i hk
    have hk0 : Alive s k := hk k (by simp)
    have i1 := i.incr hk0
    have hal := incr_alive hk0
    obtain ⟨i2, ha2, hs2⟩ := ih i1 (fun x hx => (hal x).mpr (hk x (by simp [hx])))
    refine ⟨?_, fun m => (ha2 m).trans (hal m), by rw [RC.incrAll, hs2, incr_size]⟩
    simp only [RC.incrAll]
    exact i2.congr (fun m => by simp [List.count_append, List.count_cons]; omega)

theorem InvX.incrOpt {s : State} {e : List Nat} (p : Option Nat) (i : InvX s e) (hp : ∀ n ∈ p, Alive s n) :
    InvX (RC.incrOpt p s) (p.toList ++ e) := by
  cases p with
  | none => simpa [RC.incrOpt] using i
  | some n => simpa [RC.incrOpt] using i.incr (hp n (by simp))

theorem InvX.mkNode {s : State} {e : List Nat} (kind : Nat) (kids : List Nat) (i : InvX s e)
    (hk : ∀ k ∈ kids, Alive s k) (h4 : kids.length ≤ 4) :
    InvX (RC.mkNode kind kids s).1 ((RC.mkNode kind kids s).2 :: e)
      ∧ (∀ m, Alive s m → Alive (RC.mkNode kind kids s).1 m)
      ∧ Alive (RC.mkNode kind kids s).1 (RC.mkNode kind kids s).2 := by
  obtain ⟨i1, ha1, hs1⟩ := InvX.incrAll kids i hk
  have hr1 : (RC.mkNode kind kids s).1 = pushNode ⟨kind, kids, 1⟩ (RC.incrAll kids s) := rfl
  have hr2 : (RC.mkNode kind kids s).2 = (RC.incrAll kids s).heap.size := rfl
  rw [hr1, hr2]
  generalize hs : RC.incrAll kids s = s1 at *
  have hnone : s1.node? s1.heap.size = none := by
    unfold State.node?; rw [Array.getElem?_eq_none (Nat.le_refl _)]; rfl
  have hzero : cnt s1 (kids ++ e) s1.heap.size = 0 := by
    by_cases h : 0 < cnt s1 (kids ++ e) s1.heap.size
    · have := i1.alive _ h; rw [hnone] at this; cases this
    · omega
  have hc : ∀ m, cnt (pushNode ⟨kind, kids, 1⟩ s1) (s1.heap.size :: e) m
      = cnt s1 (kids ++ e) m + if m = s1.heap.size then 1 else 0 := by
    intro m
    have e1 : (pushNode ⟨kind, kids, 1⟩ s1).slotOwn = s1.slotOwn := rfl
    simp only [cnt, e1, fields_pushNode, List.count_append, List.count_cons]
    by_cases h : m = s1.heap.size
    · subst h; simp; omega
    · have : ¬ s1.heap.size = m := fun x => h x.symm
      simp [h, this]; omega
  refine ⟨⟨i1.ub, ?_, ?_, ?_, ?_, i1.stat⟩, ?_, ?_⟩
  · intro m md hm
    rw [node?_pushNode] at hm
    rw [hc]
    by_cases h : m = s1.heap.size
    · subst h
      simp only [if_true, Option.some.injEq] at hm
      subst hm
      simp [hzero]
    · simp only [h, if_false] at hm
      simp [h, i1.rc m md hm]
  · intro m hm
    rw [node?_pushNode]
    by_cases h : m = s1.heap.size
    · simp [h]
    · simp only [h, if_false]
      apply i1.alive
      rw [hc] at hm
      simpa [h] using hm
  · intro m md hm
    rw [node?_pushNode] at hm
    by_cases h : m = s1.heap.size
    · subst h
      simp only [if_true, Option.some.injEq] at hm
      subst hm
      refine ⟨h4, fun k hk' => ?_⟩
      have : Alive s1 k := (ha1 k).mpr (hk k hk')
      obtain ⟨kd, hkd⟩ := Option.isSome_iff_exists.mp this
      exact node?_lt hkd
    · simp only [h, if_false] at hm
      exact i1.shape m md hm
  · intro m md hm
    rw [node?_pushNode] at hm
    by_cases h : m = s1.heap.size
    · subst h
      simp only [if_true, Option.some.injEq] at hm
      subst hm
      simp
    · simp only [h, if_false] at hm
      exact i1.pos m md hm
  · intro m hm
    have h1 : Alive s1 m := (ha1 m).mpr hm
    unfold Alive at h1 ⊢
    rw [node?_pushNode]
    by_cases h : m = s1.heap.size
    · simp [h]
    · simpa [h] using h1
  · unfold Alive; rw [node?_pushNode]; simp

/-! ### building new nodes -/

theorem resolveAll_ok (s0 s : State) (base : Array Nat)
    (hmono : ∀ m, Alive s0 m → Alive s m) (hbase : ∀ k (h : k < base.size), Alive s base[k]) :
    ∀ (refs : List Ref), refs.all (refOk s0 base.size) = true →
      ∃ ks, resolveAll base refs = some ks ∧ ks.length = refs.length ∧ ∀ k ∈ ks, Alive s k := by
  intro refs
  induction refs with
  | nil => intro _; exact ⟨[], rfl, rfl, by simp⟩
  | cons r rs ih =>
    intro h
    simp only [List.all_cons, Bool.and_eq_true] at h
    obtain ⟨ks, hks, hl, ha⟩ := ih h.2
    have hr : ∃ n, resolve base r = some n ∧ Alive s n := by
      cases r with
      | old n => exact ⟨n, rfl, hmono n (by simpa [refOk, Alive] using h.1)⟩
      | new k =>
        have hk : k < base.size := by simpa [refOk] using h.1
        exact ⟨base[k], by simp [resolve, hk], hbase k hk⟩
    obtain ⟨n, hn, han⟩ := hr
    refine ⟨n :: ks, by simp [resolveAll, hn, hks], by simp [hl], ?_⟩
    intro k hk
    cases hk with
    | head => exact han
    | tail _ h' => exact ha k h'

theorem InvX.mkAll (s0 : State) : ∀ (specs : List Spec) (base : Array Nat) (s : State) (e : List Nat),
    InvX s e → (∀ m, Alive s0 m → Alive s m) → (∀ k (h : k < base.size), Alive s base[k]) →
    specsOk s0 base.size specs = true →
    ∃ news : List Nat, (RC.mkAll specs base s).2.toList = base.toList ++ news ∧
      InvX (RC.mkAll specs base s).1 (news ++ e) ∧
      (∀ m, Alive s m → Alive (RC.mkAll specs base s).1 m) ∧
      (∀ k (h : k < (RC.mkAll specs base s).2.size),
          Alive (RC.mkAll specs base s).1 (RC.mkAll specs base s).2[k]) ∧
      (RC.mkAll specs base s).2.size = base.size + specs.length := by
  intro specs
  induction specs with
  | nil =>
    intro base s e i _ hb _
    exact ⟨[], by simp [RC.mkAll], by simpa [RC.mkAll] using i, fun m h => h, hb, by simp [RC.mkAll]⟩
  | cons sp rest ih =>
    intro base s e i hmono hb hok
    simp only [specsOk, Bool.and_eq_true, decide_eq_true_eq] at hok
    obtain ⟨⟨h4, hrefs⟩, hrest⟩ := hok
    obtain ⟨kids, hres, hlen, hkids⟩ := resolveAll_ok s0 s base hmono hb sp.kids hrefs
    obtain ⟨i1, mono1, anew⟩ := i.mkNode sp.kind kids hkids (by omega)
    have hb' : ∀ k (h : k < (base.push (RC.mkNode sp.kind kids s).2).size),
        Alive (RC.mkNode sp.kind kids s).1 (base.push (RC.mkNode sp.kind kids s).2)[k] := by
      intro k h
      by_cases hk : k < base.size
      · rw [Array.getElem_push_lt hk]; exact mono1 _ (hb k hk)
      · have : k = base.size := by simp at h; omega
        subst this
        simpa using anew
    obtain ⟨news, hl, i2, mono2, hb2, hsz⟩ := ih (base.push (RC.mkNode sp.kind kids s).2)
      (RC.mkNode sp.kind kids s).1 ((RC.mkNode sp.kind kids s).2 :: e) i1
      (fun m h => mono1 m (hmono m h)) hb' (by simpa using hrest)
    have hstep : RC.mkAll (sp :: rest) base s
        = RC.mkAll rest (base.push (RC.mkNode sp.kind kids s).2) (RC.mkNode sp.kind kids s).1 := by
      simp [RC.mkAll, hres]
    rw [hstep]
    refine ⟨(RC.mkNode sp.kind kids s).2 :: news, by simp [hl], ?_, fun m h => mono2 m (mono1 m h), hb2, ?_⟩
    · exact i2.congr (fun m => by simp [List.count_append, List.count_cons]; omega)
    · rw [hsz]; simp; omega

/-! ### every operation preserves the invariant -/

theorem own_eq_ptr (sl : Slot) : sl.own = sl.ptr.toList := by
  cases sl with
  | dead => rfl
  | tree p => cases p <;> rfl
  | raw p => cases p <;> rfl

theorem slot_congr {s s' : State} (h : s'.slots = s.slots) (k : Nat) : s'.slot k = s.slot k := by
  simp [State.slot, h]

theorem Inv.ptr_alive {s : State} (i : Inv s) {h n : Nat} (hh : h < s.slots.size)
    (hn : (s.slot h).ptr = some n) : Alive s n := by
  apply i.alive
  have : n ∈ (s.slot h).own := by rw [own_eq_ptr, hn]; simp
  have := own_pos_slotOwn hh this
  simp only [cnt]; omega

theorem free_iff {s : State} {d : Nat} : free s d = true ↔ NSTATIC ≤ d ∧ d < s.slots.size ∧ s.slot d = .dead := by
  simp [free, and_assoc]

theorem live_iff {s : State} {d : Nat} : live s d = true ↔ d < s.slots.size ∧ s.slot d ≠ .dead := by
  simp [live]

theorem isTree_iff {s : State} {d : Nat} : isTree s d = true ↔ d < s.slots.size ∧ ∃ p, s.slot d = .tree p := by
  unfold isTree
  cases h : s.slot d <;> simp

theorem isRaw_iff {s : State} {d : Nat} : isRaw s d = true ↔ d < s.slots.size ∧ ∃ p, s.slot d = .raw p := by
  unfold isRaw
  cases h : s.slot d <;> simp

theorem argPtrs_alive {s : State} (i : Inv s) (args : List Nat) (h : args.all (live s) = true) :
    ∀ k ∈ argPtrs s args, Alive s k := by
  intro k hk
  simp only [argPtrs, List.mem_flatMap] at hk
  obtain ⟨a, ha, hka⟩ := hk
  have hl := (List.all_eq_true.mp h) a ha
  rw [live_iff] at hl
  apply i.alive
  have := own_pos_slotOwn hl.1 hka
  simp only [cnt]; omega

theorem step_copy (s : State) (d x : Nat) : step s (.copy d x) =
    if free s d && live s x then (setSlot d (.tree (s.slot x).ptr) (incrOpt (s.slot x).ptr s), .ok)
    else (s, .reject) := rfl
theorem step_move (s : State) (d x : Nat) : step s (.move d x) =
    if free s d && isTree s x && NSTATIC ≤ x && d ≠ x then
      (setSlot d (.tree (s.slot x).ptr) (setSlot x (.tree none) s), .ok)
    else (s, .reject) := rfl
theorem step_copyAssign (s : State) (d x : Nat) : step s (.copyAssign d x) =
    if isTree s d && NSTATIC ≤ d && live s x then
      (dtorOpt (s.slot d).ptr (setSlot d (.tree (s.slot x).ptr) (incrOpt (s.slot x).ptr s)), .ok)
    else (s, .reject) := rfl
theorem step_moveAssign (s : State) (d x : Nat) : step s (.moveAssign d x) =
    if isTree s d && NSTATIC ≤ d && isTree s x && NSTATIC ≤ x then
      (if d = x then (s, .ok)
       else (setSlot x (.tree (s.slot d).ptr) (setSlot d (.tree (s.slot x).ptr) s), .ok))
    else (s, .reject) := rfl
theorem step_destroy (s : State) (d : Nat) : step s (.destroy d) =
    if NSTATIC ≤ d && live s d then (dtorOpt (s.slot d).ptr (setSlot d .dead s), .ok)
    else (s, .reject) := rfl
theorem step_release (s : State) (d x : Nat) : step s (.release d x) =
    if free s d && isTree s x && NSTATIC ≤ x && d ≠ x then
      (setSlot d (.raw (s.slot x).ptr) (setSlot x (.tree none) s), .ok)
    else (s, .reject) := rfl
theorem step_reclaim (s : State) (d x : Nat) : step s (.reclaim d x) =
    if free s d && isRaw s x && NSTATIC ≤ x && d ≠ x then
      (setSlot d (.tree (s.slot x).ptr) (setSlot x .dead s), .ok)
    else (s, .reject) := rfl
theorem step_observe (s : State) (args : List Nat) : step s (.observe args) =
    if args.all (live s) then (dtorAll (argPtrs s args) (incrAll (argPtrs s args) s), .ok)
    else (s, .reject) := rfl
theorem step_null (s : State) (d : Nat) : step s (.null d) =
    if free s d then (setSlot d (.raw none) s, .ok) else (s, .reject) := rfl
theorem step_build (s : State) (d : Nat) (args : List Nat) (temps : Bool) (news : List Spec)
    (root : Ref) (asRaw : Bool) : step s (.build d args temps news root asRaw) =
    if free s d && args.all (live s) && specsOk s 0 news && refOk s news.length root then
      (match resolve (mkAll news #[] (incrAll (if temps then argPtrs s args else []) s)).2 root with
      | none => ((mkAll news #[] (incrAll (if temps then argPtrs s args else []) s)).1.setUb, .ok)
      | some n =>
        (dtorAll ((mkAll news #[] (incrAll (if temps then argPtrs s args else []) s)).2.toList.reverse
                    ++ (if temps then argPtrs s args else []))
          (setSlot d (if asRaw then .raw (some n) else .tree (some n))
            (incr n (mkAll news #[] (incrAll (if temps then argPtrs s args else []) s)).1)), .ok))
    else (s, .reject) := rfl

theorem Inv_copy {s : State} (i : Inv s) (d x : Nat) : Inv (step s (.copy d x)).1 := by
  rw [step_copy]
  split
  · rename_i hc
    simp only [Bool.and_eq_true] at hc
    obtain ⟨hf, hl⟩ := hc
    rw [free_iff] at hf; rw [live_iff] at hl
    have i1 := InvX.incrOpt (s.slot x).ptr i (fun n hn => i.ptr_alive hl.1 (by simpa using hn))
    have hsl := incrOpt_slots (s.slot x).ptr s
    have := InvX.setSlot (h := d) (.tree (s.slot x).ptr) (by rw [hsl]; exact hf.2.1) hf.1
      (by rw [own_eq_ptr]; exact i1)
    rw [slot_congr hsl, hf.2.2] at this
    exact this
  · exact i

theorem Inv_destroy {s : State} (i : Inv s) (d : Nat) : Inv (step s (.destroy d)).1 := by
  rw [step_destroy]
  split
  · rename_i hc
    simp only [Bool.and_eq_true, decide_eq_true_eq] at hc
    obtain ⟨h5, hl⟩ := hc
    rw [live_iff] at hl
    have := InvX.setSlot (h := d) (e := []) Slot.dead hl.1 h5 (by simpa [Slot.own] using i)
    rw [own_eq_ptr] at this
    exact InvX.dtorOpt _ this
  · exact i

theorem Inv_copyAssign {s : State} (i : Inv s) (d x : Nat) : Inv (step s (.copyAssign d x)).1 := by
  rw [step_copyAssign]
  split
  · rename_i hc
    simp only [Bool.and_eq_true, decide_eq_true_eq] at hc
    obtain ⟨⟨ht, h5⟩, hl⟩ := hc
    rw [isTree_iff] at ht; rw [live_iff] at hl
    have i1 := InvX.incrOpt (s.slot x).ptr i (fun n hn => i.ptr_alive hl.1 (by simpa using hn))
    have hsl := incrOpt_slots (s.slot x).ptr s
    have := InvX.setSlot (h := d) (.tree (s.slot x).ptr) (by rw [hsl]; exact ht.1) h5
      (by rw [own_eq_ptr]; exact i1)
    rw [slot_congr hsl, own_eq_ptr] at this
    exact InvX.dtorOpt _ this
  · exact i

/-- moving a count between two distinct slots -/
theorem Inv_two {s : State} (i : Inv s) {d x : Nat} (vd vx : Slot) (hd : d < s.slots.size)
    (hx : x < s.slots.size) (h5d : NSTATIC ≤ d) (h5x : NSTATIC ≤ x) (hne : d ≠ x)
    (hown : ∀ m, count m vd.own + count m vx.own = count m (s.slot d).own + count m (s.slot x).own) :
    Inv (setSlot d vd (setSlot x vx s)) := by
  refine InvX.of_slots i rfl rfl ?_ ?_
  · intro k hk
    have h1 : ¬ d = k := by omega
    have h2 : ¬ x = k := by omega
    simp only [RC.setSlot, Array.getElem?_setIfInBounds, h1, h2, if_false]
    exact i.stat k hk
  · intro m
    have c1 := count_slotOwn_setSlot (s := s) vx hx m
    have c2 := count_slotOwn_setSlot (s := setSlot x vx s) vd (by simpa using hd) m
    rw [slot_setSlot vx hx] at c2
    simp only [hne, if_false] at c2
    have := hown m
    simp only [cnt, setSlot_fields]
    omega

theorem Inv_move {s : State} (i : Inv s) (d x : Nat) : Inv (step s (.move d x)).1 := by
  rw [step_move]
  split
  · rename_i hc
    simp only [Bool.and_eq_true, decide_eq_true_eq] at hc
    obtain ⟨⟨⟨hf, ht⟩, h5⟩, hne⟩ := hc
    rw [free_iff] at hf; rw [isTree_iff] at ht
    have hne' : d ≠ x := by simpa using hne
    apply Inv_two i _ _ hf.2.1 ht.1 hf.1 h5 hne'
    intro m; simp [own_eq_ptr, hf.2.2, Slot.ptr]
  · exact i

theorem Inv_release {s : State} (i : Inv s) (d x : Nat) : Inv (step s (.release d x)).1 := by
  rw [step_release]
  split
  · rename_i hc
    simp only [Bool.and_eq_true, decide_eq_true_eq] at hc
    obtain ⟨⟨⟨hf, ht⟩, h5⟩, hne⟩ := hc
    rw [free_iff] at hf; rw [isTree_iff] at ht
    have hne' : d ≠ x := by simpa using hne
    apply Inv_two i _ _ hf.2.1 ht.1 hf.1 h5 hne'
    intro m; simp [own_eq_ptr, hf.2.2, Slot.ptr]
  · exact i

theorem Inv_reclaim {s : State} (i : Inv s) (d x : Nat) : Inv (step s (.reclaim d x)).1 := by
  rw [step_reclaim]
  split
  · rename_i hc
    simp only [Bool.and_eq_true, decide_eq_true_eq] at hc
    obtain ⟨⟨⟨hf, ht⟩, h5⟩, hne⟩ := hc
    rw [free_iff] at hf; rw [isRaw_iff] at ht
    have hne' : d ≠ x := by simpa using hne
    apply Inv_two i _ _ hf.2.1 ht.1 hf.1 h5 hne'
    intro m; simp [own_eq_ptr, hf.2.2, Slot.ptr]
  · exact i

theorem Inv_moveAssign {s : State} (i : Inv s) (d x : Nat) : Inv (step s (.moveAssign d x)).1 := by
  rw [step_moveAssign]
  split
  · rename_i hc
    simp only [Bool.and_eq_true, decide_eq_true_eq] at hc
    obtain ⟨⟨⟨htd, h5d⟩, htx⟩, h5x⟩ := hc
    rw [isTree_iff] at htd htx
    split
    · exact i
    · rename_i hne
      obtain ⟨pd, hpd⟩ := htd.2
      obtain ⟨px, hpx⟩ := htx.2
      have : setSlot x (.tree (s.slot d).ptr) (setSlot d (.tree (s.slot x).ptr) s)
          = setSlot d (.tree (s.slot x).ptr) (setSlot x (.tree (s.slot d).ptr) s) := by
        simp only [RC.setSlot]
        rw [Array.setIfInBounds_comm _ _ hne]
      simp only
      rw [this]
      apply Inv_two i _ _ htd.1 htx.1 h5d h5x hne
      intro m; simp [own_eq_ptr, hpd, hpx, Slot.ptr]; omega
  · exact i

theorem Inv_null {s : State} (i : Inv s) (d : Nat) : Inv (step s (.null d)).1 := by
  rw [step_null]
  split
  · rename_i hc
    rw [free_iff] at hc
    have := InvX.setSlot (h := d) (e := []) (Slot.raw none) hc.2.1 hc.1 (by simpa [Slot.own] using i)
    rw [hc.2.2] at this
    simpa [Slot.own] using this
  · exact i

theorem Inv_observe {s : State} (i : Inv s) (args : List Nat) : Inv (step s (.observe args)).1 := by
  rw [step_observe]
  split
  · rename_i hc
    obtain ⟨i1, _, _⟩ := InvX.incrAll (argPtrs s args) i (argPtrs_alive i args hc)
    exact InvX.dtorAll _ i1
  · exact i

theorem Inv_build {s : State} (i : Inv s) (d : Nat) (args : List Nat) (temps : Bool) (news : List Spec)
    (root : Ref) (asRaw : Bool) : Inv (step s (.build d args temps news root asRaw)).1 := by
  rw [step_build]
  split
  · rename_i hc
    simp only [Bool.and_eq_true] at hc
    obtain ⟨⟨⟨hf, hargs⟩, hspecs⟩, hroot⟩ := hc
    rw [free_iff] at hf
    generalize htmp : (if temps = true then argPtrs s args else []) = tmp
    have htmpa : ∀ k ∈ tmp, Alive s k := by
      intro k hk
      cases temps with
      | true => simp at htmp; subst htmp; exact argPtrs_alive i args hargs k hk
      | false => simp at htmp; subst htmp; simp at hk
    obtain ⟨i1, ha1, _⟩ := InvX.incrAll tmp i htmpa
    obtain ⟨nl, hnl, i2, mono2, hb2, hsz⟩ := InvX.mkAll s news #[] (incrAll tmp s) (tmp ++ []) i1
      (fun m h => (ha1 m).mpr h) (by intro k h; simp at h) (by simpa using hspecs)
    have hslots : (mkAll news #[] (incrAll tmp s)).1.slots = s.slots := by
      rw [mkAll_slots, incrAll_slots]
    have hrootok : ∃ n, resolve (mkAll news #[] (incrAll tmp s)).2 root = some n
        ∧ Alive (mkAll news #[] (incrAll tmp s)).1 n := by
      cases root with
      | old n =>
        exact ⟨n, rfl, mono2 n ((ha1 n).mpr (by simpa [refOk, Alive] using hroot))⟩
      | new k =>
        have hk : k < (mkAll news #[] (incrAll tmp s)).2.size := by
          rw [hsz]; simpa [refOk] using hroot
        exact ⟨_, by simp [resolve, hk], hb2 k hk⟩
    obtain ⟨n, hn, han⟩ := hrootok
    simp only [hn]
    have i3 := i2.incr han
    have hsl3 : (incr n (mkAll news #[] (incrAll tmp s)).1).slots = s.slots := by rw [incr_slots, hslots]
    generalize hv : (if asRaw = true then Slot.raw (some n) else Slot.tree (some n)) = v
    have hvown : v.own = [n] := by cases asRaw <;> simp at hv <;> subst hv <;> rfl
    have i4 := InvX.setSlot (h := d) (e := nl ++ (tmp ++ [])) v (by rw [hsl3]; exact hf.2.1) hf.1
      (by rw [hvown]; exact i3)
    rw [slot_congr hsl3, hf.2.2] at i4
    apply InvX.dtorAll
    have hl : (mkAll news #[] (incrAll tmp s)).2.toList = nl := by simpa using hnl
    rw [hl]
    exact i4.congr (fun m => by simp [Slot.own, List.count_append, List.count_reverse])
  · exact i

theorem Inv_step {s : State} (i : Inv s) (op : RC.Op) : Inv (step s op).1 := by
  cases op with
  | copy d x => exact Inv_copy i d x
  | move d x => exact Inv_move i d x
  | copyAssign d x => exact Inv_copyAssign i d x
  | moveAssign d x => exact Inv_moveAssign i d x
  | destroy d => exact Inv_destroy i d
  | release d x => exact Inv_release i d x
  | reclaim d x => exact Inv_reclaim i d x
  | build d args temps news root asRaw => exact Inv_build i d args temps news root asRaw
  | observe args => exact Inv_observe i args
  | null d => exact Inv_null i d

theorem Inv_run : ∀ (ops : List RC.Op) {s : State}, Inv s → Inv (run s ops) := by
  intro ops
  induction ops with
  | nil => intro s i; exact i
  | cons o os ih => intro s i; exact ih (Inv_step i o)

end Libfive.RC
