/-
  Soundness of the construction-time rewriting of LibfiveModel/Expr.lean
  (Tree::unary, Tree::binary, remap, flatten) over any field with a lawful interpretation.
-/
import LibfiveModel.Expr
import Mathlib.Algebra.Field.Basic
import Mathlib.Tactic.Ring

set_option linter.unusedSimpArgs false
set_option linter.unusedVariables false

namespace Libfive
open Expr

variable {C α : Type}

/-- What the theorems assume about the meaning of opcodes and constants: field arithmetic for
    `+ - * / neg square`, idempotence facts for `abs min max`, `pow`/`nth-root` by one, the
    constant tests mean what they say, and constant folding is exact.  Every other opcode is
    uninterpreted. -/
structure Lawful [Field α] (K : ConstOps C) (I : Interp C α) : Prop where
  add : ∀ a b, I.bin Op.add a b = a + b
  sub : ∀ a b, I.bin Op.sub a b = a - b
  mul : ∀ a b, I.bin Op.mul a b = a * b
  div : ∀ a b, I.bin Op.div a b = a / b
  neg : ∀ a, I.un Op.neg a = -a
  square : ∀ a, I.un Op.square a = a * a
  min_self : ∀ a, I.bin Op.min a a = a
  max_self : ∀ a, I.bin Op.max a a = a
  abs_abs : ∀ a, I.un Op.abs (I.un Op.abs a) = I.un Op.abs a
  abs_square : ∀ a, I.un Op.abs (I.un Op.square a) = I.un Op.square a
  pow_one : ∀ a c, K.isOne c = true → I.bin Op.pow a (I.const c) = a
  nthRoot_one : ∀ a c, K.isOne c = true → I.bin Op.nthRoot a (I.const c) = a
  isZero : ∀ c, K.isZero c = true → I.const c = 0
  isOne : ∀ c, K.isOne c = true → I.const c = 1
  isNegOne : ∀ c, K.isNegOne c = true → I.const c = -1
  foldUn : ∀ op c, I.const (K.foldUn op c) = I.un op (I.const c)
  foldBin : ∀ op a b, I.const (K.foldBin op a b) = I.bin op (I.const a) (I.const b)

section
variable [Field α] {K : ConstOps C} {I : Interp C α}

theorem constOf_some {a : Expr C} {c : C} (h : constOf a = some c) : a = const c := by
  cases a <;> simp [constOf] at h
  subst h; rfl

theorem isNegOf_some {a a' : Expr C} (h : isNegOf a = some a') : a = un Op.neg a' := by
  cases a with
  | un op b =>
    by_cases ho : op = Op.neg
    · subst ho; simp [isNegOf] at h; subst h; rfl
    · cases op <;> simp [isNegOf] at h ho
  | _ => simp [isNegOf] at h

theorem mkUnary_sound (L : Lawful K I) (op : Op) (a : Expr C) (e : Env α)
    (hargs : op.args = some 1) :
    denote I (mkUnary K op a) e = I.un op (denote I a e) := by
  unfold mkUnary
  simp only [hargs, ne_eq, not_true_eq_false, if_false]
  cases a with
  | const c => simp [denote, L.foldUn]
  | un o b =>
    by_cases h1 : op = Op.abs
    · subst h1
      by_cases h2 : o = Op.abs
      · subst h2; simp [denote, L.abs_abs]
      · by_cases h3 : o = Op.square
        · subst h3; simp [denote, L.abs_square]
        · cases o <;> simp_all [denote]
    · by_cases h2 : op = Op.neg
      · subst h2
        by_cases h3 : o = Op.neg
        · subst h3; simp [denote, L.neg]
        · cases o <;> simp_all [denote]
      · simp [h1, h2, denote]
  | _ =>
    by_cases h1 : op = Op.abs
    · subst h1; simp [denote]
    · by_cases h2 : op = Op.neg
      · subst h2; simp [denote]
      · simp [h1, h2, denote]

theorem neg_args : Op.neg.args = some 1 := rfl
theorem square_args : Op.square.args = some 1 := rfl

theorem sub_args : Op.sub.args = some 2 := rfl
theorem add_args : Op.add.args = some 2 := rfl

theorem mkBinaryF_sound [DecidableEq C] (L : Lawful K I) :
    ∀ (fuel : Nat) (op : Op) (a b : Expr C) (e : Env α), op.args = some 2 →
    denote I (mkBinaryF K fuel op a b) e = I.bin op (denote I a e) (denote I b e) := by
  intro fuel
  induction fuel using Nat.strong_induction_on with
  | _ fuel ih =>
  intro op a b e hargs
  -- recursive calls are sound for every smaller fuel
  have hrec : ∀ f, fuel = f + 1 → ∀ op' a' b', op'.args = some 2 →
      denote I (mkBinaryF K f op' a' b') e = I.bin op' (denote I a' e) (denote I b' e) :=
    fun f hf op' a' b' h' => ih f (by omega) op' a' b' e h'
  have hd : denote I (bin op a b) e = I.bin op (denote I a e) (denote I b e) := rfl
  unfold mkBinaryF
  simp only [hargs, ne_eq, not_true_eq_false, if_false]
  cases hca : constOf a with
  | some ca =>
    have ea := constOf_some hca
    cases hcb : constOf b with
    | some cb =>
      have eb := constOf_some hcb
      subst ea; subst eb
      simp [denote, L.foldBin]
    | none =>
      subst ea
      simp only []
      by_cases h1 : op = Op.div
      · subst h1; simp [denote]
      · by_cases h2 : op = Op.add
        · subst h2
          by_cases hz : K.isZero ca = true
          · simp [hz, denote, L.add, L.isZero ca hz]
          · simp [hz, denote]
        · by_cases h3 : op = Op.sub
          · subst h3
            by_cases hz : K.isZero ca = true
            · simp [hz, mkUnary_sound L Op.neg b e neg_args, denote, L.sub, L.neg, L.isZero ca hz]
            · simp [hz, denote]
          · by_cases h4 : op = Op.mul
            · subst h4
              by_cases hz : K.isZero ca = true
              · simp [hz, denote, L.mul, L.isZero ca hz]
              · by_cases ho : K.isOne ca = true
                · simp [hz, ho, denote, L.mul, L.isOne ca ho]
                · by_cases hn : K.isNegOne ca = true
                  · simp [hz, ho, hn, mkUnary_sound L Op.neg b e neg_args, denote, L.mul, L.neg,
                      L.isNegOne ca hn]
                  · simp [hz, ho, hn, denote]
            · by_cases h5 : op = Op.nthRoot ∨ op = Op.pow
              · simp [h1, h2, h3, h4, h5, denote]
              · by_cases h6 : op = Op.min ∨ op = Op.max
                · by_cases hab : const ca = b
                  · subst hab; simp [constOf] at hcb
                  · simp [h1, h2, h3, h4, h5, h6, hab, denote]
                · simp [h1, h2, h3, h4, h5, h6, denote]
  | none =>
    cases hcb : constOf b with
    | some cb =>
      have eb := constOf_some hcb
      subst eb
      simp only []
      by_cases h1 : op = Op.div
      · subst h1
        by_cases ho : K.isOne cb = true
        · simp [ho, denote, L.div, L.isOne cb ho]
        · simp [ho, denote]
      · by_cases h2 : op = Op.add
        · subst h2
          by_cases hz : K.isZero cb = true
          · simp [hz, denote, L.add, L.isZero cb hz]
          · simp [hz, denote]
        · by_cases h3 : op = Op.sub
          · subst h3
            by_cases hz : K.isZero cb = true
            · simp [hz, denote, L.sub, L.isZero cb hz]
            · simp [hz, denote]
          · by_cases h4 : op = Op.mul
            · subst h4
              by_cases hz : K.isZero cb = true
              · simp [hz, denote, L.mul, L.isZero cb hz]
              · by_cases ho : K.isOne cb = true
                · simp [hz, ho, denote, L.mul, L.isOne cb ho]
                · by_cases hn : K.isNegOne cb = true
                  · simp [hz, ho, hn, mkUnary_sound L Op.neg a e neg_args, denote, L.mul, L.neg,
                      L.isNegOne cb hn]
                  · simp [hz, ho, hn, denote]
            · by_cases h5 : op = Op.nthRoot ∨ op = Op.pow
              · by_cases ho : K.isOne cb = true
                · rcases h5 with h5 | h5
                  · subst h5; simp [ho, denote, L.nthRoot_one _ cb ho]
                  · subst h5; simp [ho, denote, L.pow_one _ cb ho]
                · simp [h1, h2, h3, h4, h5, ho, denote]
              · by_cases h6 : op = Op.min ∨ op = Op.max
                · by_cases hab : a = const cb
                  · subst hab; simp [constOf] at hca
                  · simp [h1, h2, h3, h4, h5, h6, hab, denote]
                · simp [h1, h2, h3, h4, h5, h6, denote]
    | none =>
      simp only []
      by_cases h1 : op = Op.div
      · subst h1; simp [denote]
      · by_cases h2 : op = Op.add
        · subst h2
          simp only [h1, if_false, if_true]
          cases a with
          | un opa a' =>
            simp only []
            by_cases hneg : opa = Op.neg
            · subst hneg
              simp only [if_true]
              cases fuel with
              | zero => exact hd
              | succ f =>
                show denote I (mkBinaryF K f _ _ _) e = _
                rw [hrec f rfl Op.sub b a' sub_args]
                simp [denote, L.add, L.sub, L.neg]
                ring
            · simp [hneg, denote]
          | const c => simp [constOf] at hca
          | x | y | z | var _ | bin _ _ _ | remap _ _ _ _ | apply _ _ _ | oracle _ | invalid =>
            simp only []
            cases hnb : isNegOf b with
            | some b' =>
              have eb := isNegOf_some hnb
              simp only []
              cases fuel with
              | zero => exact hd
              | succ f =>
                show denote I (mkBinaryF K f _ _ _) e = _
                rw [hrec f rfl Op.sub _ b' sub_args, eb]
                simp [denote, L.add, L.sub, L.neg]
                ring
            | none => simp [denote]
        · by_cases h3 : op = Op.sub
          · subst h3
            simp only [h1, h2, if_false, if_true]
            cases hnb : isNegOf b with
            | some b' =>
              have eb := isNegOf_some hnb
              simp only []
              cases fuel with
              | zero => exact hd
              | succ f =>
                show denote I (mkBinaryF K f _ _ _) e = _
                rw [hrec f rfl Op.add a b' add_args, eb]
                simp [denote, L.add, L.sub, L.neg]
            | none => simp [denote]
          · by_cases h4 : op = Op.mul
            · subst h4
              by_cases hab : a = b
              · subst hab
                simp [mkUnary_sound L Op.square a e square_args, denote, L.mul, L.square]
              · simp [hab, denote]
            · by_cases h5 : op = Op.nthRoot ∨ op = Op.pow
              · simp [h1, h2, h3, h4, h5, denote]
              · by_cases h6 : op = Op.min ∨ op = Op.max
                · by_cases hab : a = b
                  · subst hab
                    rcases h6 with h6 | h6
                    · subst h6; simp [denote, L.min_self]
                    · subst h6; simp [denote, L.max_self]
                  · simp [h1, h2, h3, h4, h5, h6, hab, denote]
                · simp [h1, h2, h3, h4, h5, h6, denote]

/-- **Tree::binary is sound.** -/
theorem mkBinary_sound [DecidableEq C] (L : Lawful K I) (op : Op) (a b : Expr C) (e : Env α)
    (hargs : op.args = some 2) :
    denote I (mkBinary K op a b) e = I.bin op (denote I a e) (denote I b e) :=
  mkBinaryF_sound L _ op a b e hargs

/-! ### remap -/

/-- an expression without X/Y/Z leaves and without oracles does not look at the coordinates -/
theorem denote_noXYZ (I : Interp C α) : ∀ (t : Expr C) (e e' : Env α),
    hasXYZ t = false → hasOracle t = false → e.vars = e'.vars →
    denote I t e = denote I t e' := by
  intro t
  induction t with
  | const c => intros; rfl
  | x => intro e e' h; simp [hasXYZ] at h
  | y => intro e e' h; simp [hasXYZ] at h
  | z => intro e e' h; simp [hasXYZ] at h
  | var v => intro e e' _ _ hv; simp [denote, hv]
  | un op a ih =>
    intro e e' h1 h2 hv
    simp only [hasXYZ, hasOracle] at h1 h2
    simp only [denote, ih e e' h1 h2 hv]
  | bin op a b iha ihb =>
    intro e e' h1 h2 hv
    simp only [hasXYZ, hasOracle, Bool.or_eq_false_iff] at h1 h2
    simp only [denote, iha e e' h1.1 h2.1 hv, ihb e e' h1.2 h2.2 hv]
  | remap t x' y' z' iht ihx ihy ihz =>
    intro e e' h1 h2 hv
    simp only [hasXYZ, hasOracle, Bool.or_eq_false_iff] at h1 h2
    simp only [denote]
    exact iht _ _ h1.2 h2.2 hv
  | apply t v value iht ihv =>
    intro e e' h1 h2 hv
    simp only [hasXYZ, hasOracle, Bool.or_eq_false_iff] at h1 h2
    simp only [denote]
    apply iht _ _ h1.2 h2.2
    simp only [ihv e e' h1.1 h2.1 hv, hv]
  | oracle k => intro e e' _ h; simp [hasOracle] at h
  | invalid => intros; rfl

/-- **Tree::remap is composition with the coordinate maps** (also when it is skipped). -/
theorem mkRemap_sound [DecidableEq C] (I : Interp C α) (t x' y' z' : Expr C) (e : Env α) :
    denote I (mkRemap t x' y' z') e = denote I (remap t x' y' z') e := by
  unfold mkRemap
  by_cases h : x' = x ∧ y' = y ∧ z' = z
  · obtain ⟨hx, hy, hz⟩ := h
    subst hx; subst hy; subst hz
    simp [denote]
  · simp only [h, if_false]
    by_cases h2 : (hasXYZ t || hasOracle t) = true
    · simp [h2]
    · simp only [h2, if_false]
      simp only [Bool.or_eq_true, not_or, Bool.not_eq_true] at h2
      simp only [denote]
      exact denote_noXYZ I t _ _ h2.1 h2.2 rfl

/-! ### flatten -/

/-- the environment a substitution stands for, seen from the outer environment `e` -/
def envOf (I : Interp C α) (s : Subst C) (e : Env α) : Env α :=
  { x := denote I s.sx e, y := denote I s.sy e, z := denote I s.sz e,
    vars := fun v => match s.sv v with
      | some t => denote I t e
      | none => e.vars v }

theorem envOf_id (I : Interp C α) (e : Env α) : envOf I Subst.id e = e := by
  cases e; simp [envOf, Subst.id, denote]

/-- **flatten is sound**: the flattened tree, evaluated in the outer environment, is the original
    tree evaluated in the environment the substitution denotes.  Requires every operator node
    of the tree to carry an opcode of the right arity (true of every tree the API builds). -/
def wellArity : Expr C → Prop
  | un op a => op.args = some 1 ∧ wellArity a
  | bin op a b => op.args = some 2 ∧ wellArity a ∧ wellArity b
  | remap t x' y' z' => wellArity t ∧ wellArity x' ∧ wellArity y' ∧ wellArity z'
  | apply t _ value => wellArity t ∧ wellArity value
  | _ => True

theorem flattenS_sound [DecidableEq C] (L : Lawful K I) : ∀ (t : Expr C) (s : Subst C) (e : Env α),
    wellArity t → denote I (flattenS K t s) e = denote I t (envOf I s e) := by
  intro t
  induction t with
  | const c => intros; rfl
  | x => intros; rfl
  | y => intros; rfl
  | z => intros; rfl
  | var v =>
    intro s e _
    simp only [flattenS, denote, envOf]
    cases s.sv v <;> simp [denote]
  | un op a ih =>
    intro s e hw
    obtain ⟨ha, hwa⟩ := hw
    simp only [flattenS]
    by_cases h : flattenS K a s = a
    · simp only [h, if_true, denote]
      rw [← ih s e hwa, h]
    · simp only [h, if_false]
      rw [mkUnary_sound L op _ e ha, ih s e hwa]
      rfl
  | bin op a b iha ihb =>
    intro s e hw
    obtain ⟨ho, hwa, hwb⟩ := hw
    simp only [flattenS]
    by_cases h : flattenS K a s = a ∧ flattenS K b s = b
    · simp only [h, and_self, if_true, denote]
      rw [← iha s e hwa, ← ihb s e hwb, h.1, h.2]
    · simp only [h, if_false]
      rw [mkBinary_sound L op _ _ e ho, iha s e hwa, ihb s e hwb]
      rfl
  | remap t x' y' z' iht ihx ihy ihz =>
    intro s e hw
    obtain ⟨hwt, hwx, hwy, hwz⟩ := hw
    simp only [flattenS, denote]
    rw [iht _ e hwt]
    congr 1
    simp only [envOf, ihx s e hwx, ihy s e hwy, ihz s e hwz]
  | apply t v value iht ihv =>
    intro s e hw
    obtain ⟨hwt, hwv⟩ := hw
    simp only [flattenS, denote]
    rw [iht _ e hwt]
    congr 1
    simp only [envOf]
    congr 1
    funext w
    by_cases hwv' : w = v
    · simp [hwv', ihv s e hwv, envOf]
    · simp [hwv']
  | oracle k =>
    intro s e _
    simp only [flattenS]
    by_cases h : s.sx = x ∧ s.sy = y ∧ s.sz = z
    · obtain ⟨hx, hy, hz⟩ := h
      simp [hx, hy, hz, denote, envOf]
    · simp only [h, if_false, denote, envOf]
  | invalid => intros; rfl

/-- **Tree::flatten preserves the function.** -/
theorem flatten_sound [DecidableEq C] (L : Lawful K I) (t : Expr C) (e : Env α) (hw : wellArity t) :
    denote I (flatten K t) e = denote I t e := by
  unfold flatten
  by_cases h : hasRemap t = true
  · simp only [h, if_true]
    rw [flattenS_sound L t Subst.id e hw, envOf_id]
  · simp [h]

end
end Libfive
