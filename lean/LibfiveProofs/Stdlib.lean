/-
  C18 helper lemmas (model: LibfiveModel/Stdlib.lean).
   A. the rewrites of Tree::unary / Tree::binary / Tree::remap preserve the denotation, for every
      interpretation satisfying the algebraic laws `Lawful` (any ordered field does);
   B. the real interpretation `realI` (Real.sqrt, Real.cos, …; float constants by value) is lawful;
   C. real-analysis facts used by the C18 theorems.
-/
import LibfiveModel.Stdlib
import Mathlib.Analysis.SpecialFunctions.Trigonometric.Arctan
import Mathlib.Analysis.SpecialFunctions.Pow.Real
import Mathlib.Analysis.SpecialFunctions.Sqrt
namespace Libfive.Stdlib
open SExpr

variable {α : Type}

/-- the algebraic facts about an interpretation that `Tree::unary/binary`'s rewrites rely on -/
structure Lawful (I : Interp α) : Prop where
  abs_abs : ∀ a, I.un Op.abs (I.un Op.abs a) = I.un Op.abs a
  abs_square : ∀ a, I.un Op.abs (I.un Op.square a) = I.un Op.square a
  neg_neg : ∀ a, I.un Op.neg (I.un Op.neg a) = a
  div_one : ∀ c a, isOneBits c = true → I.bin Op.div a (I.cst c) = a
  zero_add : ∀ c a, isZeroBits c = true → I.bin Op.add (I.cst c) a = a
  add_zero : ∀ c a, isZeroBits c = true → I.bin Op.add a (I.cst c) = a
  neg_add : ∀ u b, I.bin Op.add (I.un Op.neg u) b = I.bin Op.sub b u
  add_neg : ∀ a u, I.bin Op.add a (I.un Op.neg u) = I.bin Op.sub a u
  zero_sub : ∀ c b, isZeroBits c = true → I.bin Op.sub (I.cst c) b = I.un Op.neg b
  sub_zero : ∀ c a, isZeroBits c = true → I.bin Op.sub a (I.cst c) = a
  sub_neg : ∀ a u, I.bin Op.sub a (I.un Op.neg u) = I.bin Op.add a u
  zero_mul : ∀ c b, isZeroBits c = true → I.bin Op.mul (I.cst c) b = I.cst c
  mul_zero : ∀ c a, isZeroBits c = true → I.bin Op.mul a (I.cst c) = I.cst c
  one_mul : ∀ c b, isOneBits c = true → I.bin Op.mul (I.cst c) b = b
  mul_one : ∀ c a, isOneBits c = true → I.bin Op.mul a (I.cst c) = a
  negone_mul : ∀ c b, isNegOneBits c = true → I.bin Op.mul (I.cst c) b = I.un Op.neg b
  mul_negone : ∀ c a, isNegOneBits c = true → I.bin Op.mul a (I.cst c) = I.un Op.neg a
  mul_self : ∀ a, I.bin Op.mul a a = I.un Op.square a
  pow_one : ∀ c a, isOneBits c = true → I.bin Op.pow a (I.cst c) = a
  nthRoot_one : ∀ c a, isOneBits c = true → I.bin Op.nthRoot a (I.cst c) = a
  min_self : ∀ a, I.bin Op.min a a = a
  max_self : ∀ a, I.bin Op.max a a = a

variable {I : Interp α} (L : Lawful I) (F : Folder)
include L

theorem denote_mkUnary (op : Op) (a : SExpr) (ρ : Env α) (h : a.isConst = false) :
    denote I (mkUnary F op a) ρ = I.un op (denote I a ρ) := by
  cases a with
  | const c => simp [isConst] at h
  | un opa v =>
    simp only [mkUnary]
    split
    · next hop =>
      subst hop
      split
      · next h2 =>
        rcases h2 with h2 | h2 <;> subst h2 <;> simp [denote, L.abs_abs, L.abs_square]
      · rfl
    · split
      · next hop =>
        subst hop
        split
        · next h2 => subst h2; simp [denote, L.neg_neg]
        · rfl
      · rfl
  | _ => rfl

omit L in
theorem isConst_eq_false {b : SExpr} (h : ∀ c, b = const c → False) : b.isConst = false := by
  cases b <;> simp [isConst]
  exact h _ rfl

theorem denote_mkBinaryFuel (fuel : Nat) : ∀ (op : Op) (a b : SExpr) (ρ : Env α),
    (a.isConst = false ∨ b.isConst = false) →
    denote I (mkBinaryFuel F fuel op a b) ρ = I.bin op (denote I a ρ) (denote I b ρ) := by
  induction fuel with
  | zero => intro op a b ρ _; rfl
  | succ n ih =>
    intro op a b ρ h
    unfold mkBinaryFuel
    split
    · simp [isConst] at h
    · next hnc =>
      cases op
      case div =>
        simp only []
        split
        · next c => split <;> simp_all [denote, L.div_one]
        · rfl
      case add =>
        simp only []
        split
        · next c => split <;> simp_all [denote, L.zero_add]
        · next ha =>
          split
          · next c => split <;> simp_all [denote, L.add_zero]
          · next hb =>
            have hb' := isConst_eq_false hb
            have ha' := isConst_eq_false ha
            split
            · next opa u =>
              split
              · next hneg => subst hneg; rw [ih _ _ _ _ (Or.inl hb')]; simp [denote, L.neg_add]
              · rfl
            · split
              · next opb u =>
                split
                · next hneg => subst hneg; rw [ih _ _ _ _ (Or.inl ha')]; simp [denote, L.add_neg]
                · rfl
              · rfl
      case sub =>
        simp only []
        split
        · next c =>
          split
          · next hz =>
            have hb : b.isConst = false := by simpa [isConst] using h
            rw [denote_mkUnary L F _ _ _ hb]; simp [denote, L.zero_sub _ _ hz]
          · rfl
        · next ha =>
          have ha' := isConst_eq_false ha
          split
          · next c => split <;> simp_all [denote, L.sub_zero]
          · next opb u =>
            split
            · next hneg => subst hneg; rw [ih _ _ _ _ (Or.inl ha')]; simp [denote, L.sub_neg]
            · rfl
          · rfl
      case mul =>
        simp only []
        split
        · next c =>
          have hb : b.isConst = false := by simpa [isConst] using h
          split
          · next hz => simp [denote, L.zero_mul _ _ hz]
          · split
            · next h1 => simp [denote, L.one_mul _ _ h1]
            · split
              · next h1 => rw [denote_mkUnary L F _ _ _ hb]; simp [denote, L.negone_mul _ _ h1]
              · rfl
        · next ha =>
          have ha' := isConst_eq_false ha
          split
          · next c =>
            split
            · next hz => simp [denote, L.mul_zero _ _ hz]
            · split
              · next h1 => simp [denote, L.mul_one _ _ h1]
              · split
                · next h1 => rw [denote_mkUnary L F _ _ _ ha']; simp [denote, L.mul_negone _ _ h1]
                · rfl
          · split
            · next hab => subst hab; rw [denote_mkUnary L F _ _ _ ha']; simp [L.mul_self]
            · rfl
      case pow =>
        simp only []
        split
        · next c => split <;> simp_all [denote, L.pow_one]
        · rfl
      case nthRoot =>
        simp only []
        split
        · next c => split <;> simp_all [denote, L.nthRoot_one]
        · rfl
      case min =>
        simp only []
        split
        · next hab => subst hab; simp [L.min_self]
        · rfl
      case max =>
        simp only []
        split
        · next hab => subst hab; simp [L.max_self]
        · rfl
      all_goals rfl

theorem denote_mkBinary (op : Op) (a b : SExpr) (ρ : Env α)
    (h : a.isConst = false ∨ b.isConst = false) :
    denote I (mkBinary F op a b) ρ = I.bin op (denote I a ρ) (denote I b ρ) :=
  denote_mkBinaryFuel L F _ op a b ρ h


omit L

theorem denote_noXYZ (I : Interp α) (e : SExpr) : ∀ (ρ ρ' : Env α), e.hasXYZ = false → ρ.v = ρ'.v →
    denote I e ρ = denote I e ρ' := by
  induction e with
  | const c => intros; rfl
  | x => intro _ _ h; simp [hasXYZ] at h
  | y => intro _ _ h; simp [hasXYZ] at h
  | z => intro _ _ h; simp [hasXYZ] at h
  | var i => intro ρ ρ' _ hv; simp [denote, hv]
  | un op a ih => intro ρ ρ' h hv; simp only [denote]; rw [ih ρ ρ' (by simpa [hasXYZ] using h) hv]
  | bin op a b iha ihb =>
    intro ρ ρ' h hv
    simp only [hasXYZ, Bool.or_eq_false_iff] at h
    simp only [denote]; rw [iha ρ ρ' h.1 hv, ihb ρ ρ' h.2 hv]
  | remap t X Y Z iht ihX ihY ihZ =>
    intro ρ ρ' h hv
    simp only [hasXYZ, Bool.or_eq_false_iff] at h
    simp only [denote]
    exact iht _ _ h.2 hv

theorem denote_mkRemap (I : Interp α) (t X Y Z : SExpr) (ρ : Env α) :
    denote I (mkRemap t X Y Z) ρ =
      denote I t { x := denote I X ρ, y := denote I Y ρ, z := denote I Z ρ, v := ρ.v } := by
  unfold mkRemap
  split
  · next h => obtain ⟨rfl, rfl, rfl⟩ := h; rfl
  · split
    · rfl
    · next h => exact denote_noXYZ I t _ _ (by simpa using h) rfl

/-! ### the real interpretation -/

/-- value of an IEEE single bit pattern (finite ones; the exponent-255 patterns get a junk value) -/
noncomputable def f32Real (b : Nat) : ℝ :=
  (if b / 2 ^ 31 % 2 = 1 then -1 else 1) *
    (if b / 2 ^ 23 % 256 = 0 then ((b % 2 ^ 23 : ℕ) : ℝ) * (2 : ℝ) ^ (-149 : ℤ)
     else ((2 ^ 23 + b % 2 ^ 23 : ℕ) : ℝ) * (2 : ℝ) ^ (((b / 2 ^ 23 % 256 : ℕ) : ℤ) - 150))

theorem f32Real_zero : f32Real 0 = 0 := by simp [f32Real]
theorem f32Real_negzero : f32Real 0x80000000 = 0 := by simp [f32Real]
theorem f32Real_one : f32Real 0x3f800000 = 1 := by norm_num [f32Real]
theorem f32Real_negone : f32Real 0xbf800000 = -1 := by norm_num [f32Real]
theorem f32Real_two : f32Real 0x40000000 = 2 := by norm_num [f32Real]
theorem f32Real_four : f32Real 0x40800000 = 4 := by norm_num [f32Real]
theorem f32Real_2_75 : f32Real 0x40300000 = 2.75 := by norm_num [f32Real]


noncomputable def realAtan2 (y x : ℝ) : ℝ :=
  if 0 < x then Real.arctan (y / x)
  else if x < 0 then (if 0 ≤ y then Real.arctan (y / x) + Real.pi else Real.arctan (y / x) - Real.pi)
  else if 0 < y then Real.pi / 2 else if y < 0 then -(Real.pi / 2) else 0

noncomputable def realUn : Op → ℝ → ℝ
  | Op.square, a => a * a
  | Op.sqrt, a => Real.sqrt a
  | Op.neg, a => -a
  | Op.sin, a => Real.sin a
  | Op.cos, a => Real.cos a
  | Op.tan, a => Real.tan a
  | Op.asin, a => Real.arcsin a
  | Op.acos, a => Real.arccos a
  | Op.atan, a => Real.arctan a
  | Op.exp, a => Real.exp a
  | Op.abs, a => |a|
  | Op.log, a => Real.log a
  | Op.recip, a => 1 / a
  | _, a => a

noncomputable def realBin : Op → ℝ → ℝ → ℝ
  | Op.add, a, b => a + b
  | Op.mul, a, b => a * b
  | Op.min, a, b => min a b
  | Op.max, a, b => max a b
  | Op.sub, a, b => a - b
  | Op.div, a, b => a / b
  | Op.atan2, a, b => realAtan2 a b
  | Op.pow, a, b => a ^ b
  | Op.nthRoot, a, b => a ^ (1 / b)
  | Op.mod, a, b => a - b * ⌊a / b⌋
  | Op.compare, a, b => if a < b then -1 else if b < a then 1 else 0
  | _, a, _ => a

/-- the interpretation of the opcodes over ℝ -/
noncomputable def realI : Interp ℝ := { cst := f32Real, un := realUn, bin := realBin }

theorem isZeroBits_real {c : Nat} (h : isZeroBits c = true) : f32Real c = 0 := by
  simp only [isZeroBits, Bool.or_eq_true, beq_iff_eq] at h
  rcases h with rfl | rfl
  · exact f32Real_zero
  · exact f32Real_negzero
theorem isOneBits_real {c : Nat} (h : isOneBits c = true) : f32Real c = 1 := by
  simp only [isOneBits, beq_iff_eq] at h; subst h; exact f32Real_one
theorem isNegOneBits_real {c : Nat} (h : isNegOneBits c = true) : f32Real c = -1 := by
  simp only [isNegOneBits, beq_iff_eq] at h; subst h; exact f32Real_negone

theorem realI_lawful : Lawful realI where
  abs_abs a := by simp [realI, realUn]
  abs_square a := by simp [realI, realUn]
  neg_neg a := by simp [realI, realUn]
  div_one c a h := by simp [realI, realBin, isOneBits_real h]
  zero_add c a h := by simp [realI, realBin, isZeroBits_real h]
  add_zero c a h := by simp [realI, realBin, isZeroBits_real h]
  neg_add u b := by simp [realI, realBin, realUn]; ring
  add_neg a u := by simp [realI, realBin, realUn]; ring
  zero_sub c b h := by simp [realI, realBin, realUn, isZeroBits_real h]
  sub_zero c a h := by simp [realI, realBin, isZeroBits_real h]
  sub_neg a u := by simp [realI, realBin, realUn]
  zero_mul c b h := by simp [realI, realBin, isZeroBits_real h]
  mul_zero c a h := by simp [realI, realBin, isZeroBits_real h]
  one_mul c b h := by simp [realI, realBin, isOneBits_real h]
  mul_one c a h := by simp [realI, realBin, isOneBits_real h]
  negone_mul c b h := by simp [realI, realBin, realUn, isNegOneBits_real h]
  mul_negone c a h := by simp [realI, realBin, realUn, isNegOneBits_real h]
  mul_self a := by simp [realI, realBin, realUn]
  pow_one c a h := by simp [realI, realBin, isOneBits_real h]
  nthRoot_one c a h := by simp [realI, realBin, isOneBits_real h]
  min_self a := by simp [realI, realBin]
  max_self a := by simp [realI, realBin]

/-- value of the expression at the point `(x,y,z)` with parameter values `ρ` -/
noncomputable def eval (e : SExpr) (ρ : ℕ → ℝ) (x y z : ℝ) : ℝ := denote realI e ⟨x, y, z, ρ⟩

/-! ### C. what the transcribed primitives evaluate to over ℝ (parameters = free variables 0,1,2,…)
    All by `rfl`: the smart constructors compute on these concrete trees. -/

theorem sqrt_four : Real.sqrt 4 = 2 := by
  rw [show (4 : ℝ) = 2 ^ 2 by norm_num]; exact Real.sqrt_sq (by norm_num)

section evals
variable (F : Folder)

theorem eval_sphere (ρ : ℕ → ℝ) (x y z : ℝ) :
    eval (sphere F (var 0) ⟨var 1, var 2, var 3⟩) ρ x y z =
      Real.sqrt ((x - ρ 1) * (x - ρ 1) + (y - ρ 2) * (y - ρ 2) + (z - ρ 3) * (z - ρ 3)) - ρ 0 := rfl

theorem eval_circle (ρ : ℕ → ℝ) (x y z : ℝ) :
    eval (circle F (var 0) ⟨var 1, var 2⟩) ρ x y z =
      Real.sqrt ((x - ρ 1) * (x - ρ 1) + (y - ρ 2) * (y - ρ 2)) - ρ 0 := rfl

theorem eval_rectangle (ρ : ℕ → ℝ) (x y z : ℝ) :
    eval (rectangle F ⟨var 0, var 1⟩ ⟨var 2, var 3⟩) ρ x y z =
      max (max (ρ 0 - x) (x - ρ 2)) (max (ρ 1 - y) (y - ρ 3)) := rfl

theorem eval_box_mitered (ρ : ℕ → ℝ) (x y z : ℝ) :
    eval (box_mitered F ⟨var 0, var 1, var 2⟩ ⟨var 3, var 4, var 5⟩) ρ x y z =
      max (max (max (ρ 0 - x) (x - ρ 3)) (max (ρ 1 - y) (y - ρ 4))) (max (ρ 2 - z) (z - ρ 5)) := rfl

theorem eval_box_mitered_centered (ρ : ℕ → ℝ) (x y z : ℝ) :
    eval (box_mitered_centered F ⟨var 0, var 1, var 2⟩ ⟨var 3, var 4, var 5⟩) ρ x y z =
      max (max (max (ρ 3 - ρ 0 / 2 - x) (x - (ρ 3 + ρ 0 / 2))) (max (ρ 4 - ρ 1 / 2 - y) (y - (ρ 4 + ρ 1 / 2))))
        (max (ρ 5 - ρ 2 / 2 - z) (z - (ρ 5 + ρ 2 / 2))) := by
  rw [← f32Real_two]; rfl

theorem eval_cylinder_z (ρ : ℕ → ℝ) (x y z : ℝ) :
    eval (cylinder_z F (var 0) (var 1) ⟨var 2, var 3, var 4⟩) ρ x y z =
      max (Real.sqrt ((x - ρ 2) * (x - ρ 2) + (y - ρ 3) * (y - ρ 3)) - ρ 0)
        (max (ρ 4 - z) (z - (ρ 4 + ρ 1))) := rfl

theorem eval_torus_z (ρ : ℕ → ℝ) (x y z : ℝ) :
    eval (torus_z F (var 0) (var 1) ⟨var 2, var 3, var 4⟩) ρ x y z =
      Real.sqrt ((ρ 0 - Real.sqrt ((x - ρ 2) * (x - ρ 2) + (y - ρ 3) * (y - ρ 3))) *
                 (ρ 0 - Real.sqrt ((x - ρ 2) * (x - ρ 2) + (y - ρ 3) * (y - ρ 3)))
                 + (z - ρ 4) * (z - ρ 4)) - ρ 1 := rfl

theorem eval_half_space (ρ : ℕ → ℝ) (x y z : ℝ) :
    eval (half_space F ⟨var 0, var 1, var 2⟩ ⟨var 3, var 4, var 5⟩) ρ x y z =
      (x - ρ 3) * ρ 0 + (y - ρ 4) * ρ 1 + (z - ρ 5) * ρ 2 := rfl

theorem eval_cone_ang_z (ρ : ℕ → ℝ) (x y z : ℝ) :
    eval (cone_ang_z F (var 0) (var 1) ⟨var 2, var 3, var 4⟩) ρ x y z =
      max (-(z - ρ 4))
        (Real.cos (ρ 0) * Real.sqrt ((x - ρ 2) * (x - ρ 2) + (y - ρ 3) * (y - ρ 3))
          + Real.sin (ρ 0) * (z - ρ 4) - ρ 1) := rfl

theorem eval_cone_z (ρ : ℕ → ℝ) (x y z : ℝ) :
    eval (cone_z F (var 0) (var 1) ⟨var 2, var 3, var 4⟩) ρ x y z =
      max (-(z - ρ 4))
        (Real.cos (realAtan2 (ρ 0) (ρ 1)) * Real.sqrt ((x - ρ 2) * (x - ρ 2) + (y - ρ 3) * (y - ρ 3))
          + Real.sin (realAtan2 (ρ 0) (ρ 1)) * (z - ρ 4) - ρ 1) := rfl

theorem eval_rectangle_centered_exact (ρ : ℕ → ℝ) (x y z : ℝ) :
    eval (rectangle_centered_exact F ⟨var 0, var 1⟩ ⟨var 2, var 3⟩) ρ x y z =
      min (max (|x - ρ 2| - ρ 0 / 2) (|y - ρ 3| - ρ 1 / 2)) 0 +
      Real.sqrt (max (|x - ρ 2| - ρ 0 / 2) 0 * max (|x - ρ 2| - ρ 0 / 2) 0 +
                 max (|y - ρ 3| - ρ 1 / 2) 0 * max (|y - ρ 3| - ρ 1 / 2) 0) := by
  rw [← f32Real_two, ← f32Real_zero]; rfl

theorem eval_rectangle_exact (ρ : ℕ → ℝ) (x y z : ℝ) :
    eval (rectangle_exact F ⟨var 0, var 1⟩ ⟨var 2, var 3⟩) ρ x y z =
      min (max (|x - (ρ 0 + ρ 2) / 2| - (ρ 2 - ρ 0) / 2) (|y - (ρ 1 + ρ 3) / 2| - (ρ 3 - ρ 1) / 2)) 0 +
      Real.sqrt (max (|x - (ρ 0 + ρ 2) / 2| - (ρ 2 - ρ 0) / 2) 0 * max (|x - (ρ 0 + ρ 2) / 2| - (ρ 2 - ρ 0) / 2) 0 +
                 max (|y - (ρ 1 + ρ 3) / 2| - (ρ 3 - ρ 1) / 2) 0 * max (|y - (ρ 1 + ρ 3) / 2| - (ρ 3 - ρ 1) / 2) 0) := by
  rw [← f32Real_two, ← f32Real_zero]; rfl

theorem eval_box_exact_centered (ρ : ℕ → ℝ) (x y z : ℝ) :
    eval (box_exact_centered F ⟨var 0, var 1, var 2⟩ ⟨var 3, var 4, var 5⟩) ρ x y z =
      min 0 (max (|x - ρ 3| - ρ 0 / 2) (max (|y - ρ 4| - ρ 1 / 2) (|z - ρ 5| - ρ 2 / 2))) +
      Real.sqrt (max (|x - ρ 3| - ρ 0 / 2) 0 * max (|x - ρ 3| - ρ 0 / 2) 0 +
                 max (|y - ρ 4| - ρ 1 / 2) 0 * max (|y - ρ 4| - ρ 1 / 2) 0 +
                 max (|z - ρ 5| - ρ 2 / 2) 0 * max (|z - ρ 5| - ρ 2 / 2) 0) := by
  rw [← f32Real_two, ← f32Real_zero]; rfl


theorem eval_box_exact (ρ : ℕ → ℝ) (x y z : ℝ) :
    eval (box_exact F ⟨var 0, var 1, var 2⟩ ⟨var 3, var 4, var 5⟩) ρ x y z =
      min 0 (max (|x - (ρ 0 + ρ 3) / 2| - (ρ 3 - ρ 0) / 2)
            (max (|y - (ρ 1 + ρ 4) / 2| - (ρ 4 - ρ 1) / 2) (|z - (ρ 2 + ρ 5) / 2| - (ρ 5 - ρ 2) / 2))) +
      Real.sqrt (max (|x - (ρ 0 + ρ 3) / 2| - (ρ 3 - ρ 0) / 2) 0 * max (|x - (ρ 0 + ρ 3) / 2| - (ρ 3 - ρ 0) / 2) 0 +
                 max (|y - (ρ 1 + ρ 4) / 2| - (ρ 4 - ρ 1) / 2) 0 * max (|y - (ρ 1 + ρ 4) / 2| - (ρ 4 - ρ 1) / 2) 0 +
                 max (|z - (ρ 2 + ρ 5) / 2| - (ρ 5 - ρ 2) / 2) 0 * max (|z - (ρ 2 + ρ 5) / 2| - (ρ 5 - ρ 2) / 2) 0) := by
  rw [← f32Real_two, ← f32Real_zero]; rfl

theorem eval_ring (ρ : ℕ → ℝ) (x y z : ℝ) :
    eval (ring F (var 0) (var 1) ⟨var 2, var 3⟩) ρ x y z =
      max (Real.sqrt ((x - ρ 2) * (x - ρ 2) + (y - ρ 3) * (y - ρ 3)) - ρ 0)
          (ρ 1 - Real.sqrt ((x - ρ 2) * (x - ρ 2) + (y - ρ 3) * (y - ρ 3))) := by
  show max _ (-(_ - _)) = _
  rw [neg_sub]; rfl

theorem eval_triangle (ρ : ℕ → ℝ) (x y z : ℝ) :
    eval (triangle F ⟨var 0, var 1⟩ ⟨var 2, var 3⟩ ⟨var 4, var 5⟩) ρ x y z =
      min (max (max ((ρ 3 - ρ 1) * (x - ρ 0) - (ρ 2 - ρ 0) * (y - ρ 1))
                    ((ρ 5 - ρ 3) * (x - ρ 2) - (ρ 4 - ρ 2) * (y - ρ 3)))
               ((ρ 1 - ρ 5) * (x - ρ 4) - (ρ 0 - ρ 4) * (y - ρ 5)))
          (max (max ((ρ 5 - ρ 1) * (x - ρ 0) - (ρ 4 - ρ 0) * (y - ρ 1))
                    ((ρ 3 - ρ 5) * (x - ρ 4) - (ρ 2 - ρ 4) * (y - ρ 5)))
               ((ρ 1 - ρ 3) * (x - ρ 2) - (ρ 0 - ρ 2) * (y - ρ 3))) := rfl

/-! the formula of proposed_fixes/C18-cone-plane-offset.patch (NOT what /repo builds today) -/

def cone_ang_z_fixed (angle height : SExpr) (base : V3) : SExpr :=
  move F (mkBinary F Op.max (mkUnary F Op.neg SExpr.z)
            (mkBinary F Op.add
              (mkBinary F Op.mul (mkUnary F Op.cos angle)
                (mkUnary F Op.sqrt (mkBinary F Op.add (mkUnary F Op.square SExpr.x) (mkUnary F Op.square SExpr.y))))
              (mkBinary F Op.mul (mkUnary F Op.sin angle) (mkBinary F Op.sub SExpr.z height))))
    base

def cone_z_fixed (radius height : SExpr) (base : V3) : SExpr :=
  cone_ang_z_fixed F (mkBinary F Op.atan2 radius height) height base

theorem eval_cone_z_fixed (ρ : ℕ → ℝ) (x y z : ℝ) :
    eval (cone_z_fixed F (var 0) (var 1) ⟨var 2, var 3, var 4⟩) ρ x y z =
      max (-(z - ρ 4))
        (Real.cos (realAtan2 (ρ 0) (ρ 1)) * Real.sqrt ((x - ρ 2) * (x - ρ 2) + (y - ρ 3) * (y - ρ 3))
          + Real.sin (realAtan2 (ρ 0) (ρ 1)) * (z - ρ 4 - ρ 1)) := rfl

end evals

end Libfive.Stdlib
