/-
  Helper lemmas for LibfiveTheorems/C03SimplexWalk.lean: the `load` calls the simplex mesher
  receives from the recursive dual walk + `handleTopEdges` (`walkCalls`, LibfiveModel/SimplexWalk.lean)
  are a permutation of one call per lattice edge of the grid (`edgeCalls`), for every depth.
-/
import LibfiveModel.SimplexWalk
import LibfiveProofs.SimplexGrid
import LibfiveProofs.DualWalk3

namespace Libfive.SimplexWalk
open Libfive.Marching Generated.MeshTables
open Libfive.DCGrid Libfive.DCGrid.Walk
set_option linter.unusedSimpArgs false
set_option linter.unusedVariables false

/-! ### `gridLByEdge` is `callTets` over `edgeCalls` -/

theorem cellTetsO_edgeSlot (cv tv : List (List Nat)) (nq nr A a q r c : Nat) :
    cellTetsO cv tv A c (edgeSlot nq nr A a q r c) =
      if 1 ≤ q + c % 2 ∧ q + c % 2 ≤ nq ∧ 1 ≤ r + c / 2 ∧ r + c / 2 ≤ nr then
        (SimplexGrid.edgeCellTets cv tv A c).map
          (SimplexGrid.shiftT (SimplexGrid.dbl (SimplexGrid.frame A (a, q + c % 2 - 1, r + c / 2 - 1))))
      else [] := by
  unfold edgeSlot
  split <;> rfl

theorem callTets_edgeCall (cv tv : List (List Nat)) (nq nr A a q r : Nat) :
    callTets cv tv (edgeCall nq nr A a q r) = SimplexGrid.edgeTets cv tv nq nr A a q r := by
  simp only [callTets, SimplexGrid.edgeTets, SimplexGrid.cellOrder, List.flatMap_cons,
    List.flatMap_nil, slotOf, edgeCall, cellTetsO_edgeSlot]

theorem gridLByEdge_eq (n1 n2 n3 : Nat) :
    SimplexGrid.gridLByEdge n1 n2 n3 =
      (edgeCalls n1 n2 n3).flatMap (callTets simplexCellVertices simplexTetVertices) := by
  simp only [SimplexGrid.gridLByEdge, edgeCalls, List.flatMap_assoc, List.flatMap_map,
    callTets_edgeCall]

/-! ### translation covariance of the recursion -/

def shO (s : Pt) (t : OT) : OT := t.map (addPt s)

def shiftCallO (s : Pt) (x : SCall) : SCall :=
  (x.1, shO s x.2.1, shO s x.2.2.1, shO s x.2.2.2.1, shO s x.2.2.2.2)

def shiftCall4 (s : Pt) (x : Call4) : Call4 :=
  (x.1, addPt s x.2.1, addPt s x.2.2.1, addPt s x.2.2.2.1, addPt s x.2.2.2.2)

theorem childAt_add (d : Nat) (s o : Pt) (k : Nat) :
    childAt d (addPt s o) k = addPt s (childAt d o k) := by
  simp only [childAt, addPt, Prod.mk.injEq]; omega

theorem childO_shO (d : Nat) (s : Pt) (t : OT) (k : Nat) :
    childO d (shO s t) k = shO s (childO d t k) := by
  cases t <;> simp [childO, shO, childAt_add]

theorem edge3O_shift (A : Nat) (s : Pt) (d : Nat) (t0 t1 t2 t3 : OT) :
    edge3O A d (shO s t0) (shO s t1) (shO s t2) (shO s t3) =
      (edge3O A d t0 t1 t2 t3).map (shiftCallO s) := by
  induction d generalizing t0 t1 t2 t3 with
  | zero => rfl
  | succ d ih => simp only [edge3O, childO_shO, ih, List.map_append]

theorem face3O_shift (A : Nat) (s : Pt) (d : Nat) (t0 t1 : OT) :
    face3O A d (shO s t0) (shO s t1) = (face3O A d t0 t1).map (shiftCallO s) := by
  induction d generalizing t0 t1 with
  | zero => rfl
  | succ d ih =>
    simp only [face3O, childO_shO, ih, edge3O_shift, List.map_append, List.map_flatMap]

theorem slot_shO (i : Nat) (s : Pt) (t : OT) (j : Nat) : slot i (shO s t) j = shO s (slot i t j) := by
  unfold slot; split <;> rfl

theorem topEdgesO_shift (d : Nat) (s : Pt) (t : OT) :
    topEdgesO d (shO s t) = (topEdgesO d t).map (shiftCallO s) := by
  simp only [topEdgesO, slot_shO, edge3O_shift, face3O_shift, List.map_append, List.map_flatMap]

theorem edge3W_shift (A : Nat) (s : Pt) (d : Nat) (t0 t1 t2 t3 : Pt) :
    edge3W A d (addPt s t0) (addPt s t1) (addPt s t2) (addPt s t3) =
      (edge3W A d t0 t1 t2 t3).map (shiftCall4 s) := by
  induction d generalizing t0 t1 t2 t3 with
  | zero => rfl
  | succ d ih => simp only [edge3W, childAt_add, ih, List.map_append]

theorem face3W_shift (A : Nat) (s : Pt) (d : Nat) (t0 t1 : Pt) :
    face3W A d (addPt s t0) (addPt s t1) = (face3W A d t0 t1).map (shiftCall4 s) := by
  induction d generalizing t0 t1 with
  | zero => rfl
  | succ d ih =>
    simp only [face3W, childAt_add, ih, edge3W_shift, List.map_append, List.map_flatMap]

theorem workW_shift (s : Pt) (d : Nat) (o : Pt) :
    workW d (addPt s o) = (workW d o).map (shiftCall4 s) := by
  simp only [workW, childAt_add, edge3W_shift, face3W_shift, List.map_append, List.map_flatMap]

theorem dualW_shift (s : Pt) (d : Nat) (o : Pt) :
    dualW d (addPt s o) = (dualW d o).map (shiftCall4 s) := by
  induction d generalizing o with
  | zero => rfl
  | succ d ih =>
    simp only [dualW, childAt_add, ih, workW_shift, List.map_append, List.map_flatMap]

theorem liftCall_shift (s : Pt) (x : Call4) : liftCall (shiftCall4 s x) = shiftCallO s (liftCall x) := rfl

/-- the walk on the octree at `s` is the walk at the origin, translated -/
theorem walkCalls_shift (d : Nat) (s : Pt) :
    (walkCalls d).map (shiftCallO s) = (dualW d s).map liftCall ++ topEdgesO d (some s) := by
  have e : s = addPt s (0, 0, 0) := by simp [addPt]
  have e' : (some s : OT) = shO s (some (0, 0, 0)) := by simp [shO, addPt]
  rw [e', topEdgesO_shift]
  conv => rhs; rw [e, dualW_shift]
  simp only [walkCalls, List.map_append, List.map_map]
  rfl

/-! ### empty trees as masks over the all-real recursion -/

def mk : Bool → Pt → OT
  | true, t => some t
  | false, _ => none

def maskC (b0 b1 b2 b3 : Bool) (x : Call4) : SCall :=
  (x.1, mk b0 x.2.1, mk b1 x.2.2.1, mk b2 x.2.2.2.1, mk b3 x.2.2.2.2)

theorem childO_mk (d : Nat) (b : Bool) (t : Pt) (k : Nat) :
    childO d (mk b t) k = mk b (childAt d t k) := by cases b <;> rfl

theorem edge3O_mask (A : Nat) (b0 b1 b2 b3 : Bool) (d : Nat) (t0 t1 t2 t3 : Pt) :
    edge3O A d (mk b0 t0) (mk b1 t1) (mk b2 t2) (mk b3 t3) =
      (edge3W A d t0 t1 t2 t3).map (maskC b0 b1 b2 b3) := by
  induction d generalizing t0 t1 t2 t3 with
  | zero => rfl
  | succ d ih => simp only [edge3O, edge3W, childO_mk, ih, List.map_append]

theorem edge3W_axis (A : Nat) (d : Nat) (t0 t1 t2 t3 : Pt) :
    ∀ x ∈ edge3W A d t0 t1 t2 t3, x.1 = A := by
  induction d generalizing t0 t1 t2 t3 with
  | zero => intro x hx; simp only [edge3W, List.mem_singleton] at hx; rw [hx]
  | succ d ih =>
    intro x hx
    simp only [edge3W, List.mem_append] at hx
    rcases hx with hx | hx <;> exact ih _ _ _ _ x hx

/-- the mask of a call of `face3<A>({t0, t1})`: along `Q(A)` the slots 0, 1 come from `t0` and
    2, 3 from `t1`; along `R(A)` the slots 0, 2 from `t0` and 1, 3 from `t1` -/
def maskF (A : Nat) (b0 b1 : Bool) (x : Call4) : SCall :=
  if x.1 = axQ A then maskC b0 b0 b1 b1 x else maskC b0 b1 b0 b1 x

theorem axR_ne_axQ (A : Nat) : axR A ≠ axQ A := by
  unfold axR axQ; split <;> simp

theorem face3O_mask (A : Nat) (b0 b1 : Bool) (d : Nat) (t0 t1 : Pt) :
    face3O A d (mk b0 t0) (mk b1 t1) = (face3W A d t0 t1).map (maskF A b0 b1) := by
  induction d generalizing t0 t1 with
  | zero => rfl
  | succ d ih =>
    have hq : ∀ u0 u1 u2 u3, (edge3W (axQ A) d u0 u1 u2 u3).map (maskF A b0 b1) =
        (edge3W (axQ A) d u0 u1 u2 u3).map (maskC b0 b0 b1 b1) := fun u0 u1 u2 u3 =>
      List.map_congr_left fun x hx => by
        simp only [maskF, edge3W_axis _ _ _ _ _ _ x hx, if_true]
    have hr : ∀ u0 u1 u2 u3, (edge3W (axR A) d u0 u1 u2 u3).map (maskF A b0 b1) =
        (edge3W (axR A) d u0 u1 u2 u3).map (maskC b0 b1 b0 b1) := fun u0 u1 u2 u3 =>
      List.map_congr_left fun x hx => by
        simp only [maskF, edge3W_axis _ _ _ _ _ _ x hx, if_neg (axR_ne_axQ A)]
    simp only [face3O, face3W, childO_mk, ih, edge3O_mask, List.map_append, List.map_flatMap, hq, hr]

/-! ### the walk on the octree at `root d = (2^d, 2^d, 2^d)`: every call is a `callTuple` masked by
    the root cube -/

def root (d : Nat) : Pt := (2 ^ d, 2 ^ d, 2 ^ d)

/-- the cell `c` lies in the block of `N × N × N` cells at `(N, N, N)` -/
def inC (N : Nat) (c : Pt) : Prop :=
  N ≤ c.1 ∧ c.1 < 2 * N ∧ N ≤ c.2.1 ∧ c.2.1 < 2 * N ∧ N ≤ c.2.2 ∧ c.2.2 < 2 * N

instance (N : Nat) (c : Pt) : Decidable (inC N c) := by unfold inC; infer_instance

def cubeO (N : Nat) (c : Pt) : OT := if inC N c then some c else none

/-- the geometric mask: cells outside the root cube are the singleton -/
def gm (N : Nat) (x : Call4) : SCall :=
  (x.1, cubeO N x.2.1, cubeO N x.2.2.1, cubeO N x.2.2.2.1, cubeO N x.2.2.2.2)

theorem mk_true_eq_cubeO (N : Nat) (c : Pt) : mk true c = cubeO N c ↔ inC N c := by
  unfold cubeO; by_cases h : inC N c <;> simp [h, mk]

theorem mk_false_eq_cubeO (N : Nat) (c : Pt) : mk false c = cubeO N c ↔ ¬ inC N c := by
  unfold cubeO; by_cases h : inC N c <;> simp [h, mk]

/-- `ts[0]` (possibly virtual) of `edge3<A>` in round `i` of `handleTopEdges` -/
def v0 (N i A : Nat) : Pt := SimplexGrid.frame A (N, N - (i % 2) * N, N - (i / 2) * N)

theorem slot_mk (i : Nat) (r : Pt) (j : Nat) (t : Pt) (ht : j = i → t = r) :
    slot i (some r) j = mk (decide (j = i)) t := by
  unfold slot
  by_cases hj : j = i
  · simp [hj, mk, ht hj]
  · simp [hj, mk]

theorem edge_piece (d i A : Nat) (hi : i < 4) (hA : A < 3) :
    edge3O A d (slot i (some (root d)) 0) (slot i (some (root d)) 1) (slot i (some (root d)) 2)
        (slot i (some (root d)) 3) =
      (edgeL A d (v0 (2 ^ d) i A)).map (gm (2 ^ d) ∘ callTuple) := by
  have hN := Nat.two_pow_pos d
  have h := edge3O_mask A (decide (0 = i)) (decide (1 = i)) (decide (2 = i)) (decide (3 = i)) d
    (v0 (2 ^ d) i A) (step (axQ A) (2 ^ d) (v0 (2 ^ d) i A)) (step (axR A) (2 ^ d) (v0 (2 ^ d) i A))
    (step (axQ A) (2 ^ d) (step (axR A) (2 ^ d) (v0 (2 ^ d) i A)))
  rw [edge3W_eq A hA d _ _ _ _ rfl rfl rfl, List.map_map] at h
  rw [slot_mk i (root d) 0 (v0 (2 ^ d) i A) ?_, slot_mk i (root d) 1 _ ?_, slot_mk i (root d) 2 _ ?_,
    slot_mk i (root d) 3 _ ?_, h]
  · apply List.map_congr_left
    intro y hy
    rw [mem_edgeL A hA] at hy
    obtain ⟨B, cx, cy, cz⟩ := y
    have hB : A = B := hy.1.symm
    subst hB
    interval_cases A <;> interval_cases i <;>
      simp only [onLine, coord, v0, SimplexGrid.frame, axQ, axR, Nat.reduceMod, Nat.reduceDiv,
        Nat.zero_mul, Nat.one_mul, Nat.sub_zero, Nat.sub_self] at hy <;>
      simp only [Function.comp, callTuple, tsCell, maskC, gm, addPt, unit, axQ, axR, Prod.mk.injEq,
        Nat.reduceEqDiff, decide_true, decide_false, mk_true_eq_cubeO, mk_false_eq_cubeO, inC,
        true_and, Nat.add_zero] <;>
      omega
  all_goals
    intro hji
    subst hji
    interval_cases A <;>
      simp [v0, SimplexGrid.frame, root, step, axQ, axR]

/-- `ts[0]` (possibly virtual) of `face3<A>` in round `i` of `handleTopEdges` -/
def w0 (N i A : Nat) : Pt := SimplexGrid.frame A (N - i * N, N, N)

theorem face_piece (d i A : Nat) (hi : i < 2) (hA : A < 3) :
    face3O A d (slot i (some (root d)) 0) (slot i (some (root d)) 1) =
      (faceL A d (w0 (2 ^ d) i A)).map (gm (2 ^ d) ∘ callTuple) := by
  have hN := Nat.two_pow_pos d
  have h := face3O_mask A (decide (0 = i)) (decide (1 = i)) d
    (w0 (2 ^ d) i A) (step A (2 ^ d) (w0 (2 ^ d) i A))
  rw [face3W_eq A hA d _ _ rfl, List.map_map] at h
  rw [slot_mk i (root d) 0 (w0 (2 ^ d) i A) ?_, slot_mk i (root d) 1 _ ?_, h]
  · apply List.map_congr_left
    intro y hy
    rw [mem_faceL A hA] at hy
    obtain ⟨B, cx, cy, cz⟩ := y
    interval_cases A <;> interval_cases i <;>
      simp only [inFace, coord, w0, SimplexGrid.frame, axQ, axR, Nat.reduceMod, Nat.reduceDiv,
        Nat.zero_mul, Nat.one_mul, Nat.sub_zero, Nat.sub_self] at hy <;>
      obtain ⟨h1, h2, h3, ⟨rfl, h4⟩ | ⟨rfl, h4⟩⟩ := hy <;>
      simp only [Function.comp, callTuple, tsCell, maskF, maskC, gm, addPt, unit, axQ, axR, Prod.mk.injEq,
        Nat.reduceEqDiff, decide_true, decide_false, mk_true_eq_cubeO, mk_false_eq_cubeO, inC,
        true_and, Nat.add_zero, if_true, if_false] <;>
      omega
  all_goals
    intro hji
    subst hji
    interval_cases A <;>
      simp [w0, SimplexGrid.frame, root, step]

theorem some_eq_cubeO (N : Nat) (c : Pt) : some c = cubeO N c ↔ inC N c := mk_true_eq_cubeO N c

theorem interior_piece (d : Nat) :
    (dualW d (root d)).map liftCall = (dualL d (root d)).map (gm (2 ^ d) ∘ callTuple) := by
  rw [dualW_eq, List.map_map]
  apply List.map_congr_left
  intro y hy
  rw [mem_dualL] at hy
  obtain ⟨B, cx, cy, cz⟩ := y
  simp only [inCube, root] at hy
  obtain ⟨h1, h2, h3, ⟨rfl, h4⟩ | ⟨rfl, h4⟩ | ⟨rfl, h4⟩⟩ := hy <;>
    simp only [Function.comp, liftCall, callTuple, tsCell, gm, addPt, unit, axQ, axR, Prod.mk.injEq,
      some_eq_cubeO, inC, true_and, Nat.add_zero] <;>
    omega

/-- the `(axis, ts[0])` keys of `handleTopEdges` on the octree at `root d` -/
def topL (d : Nat) : List (Nat × Pt) :=
  ([0, 1, 2, 3].flatMap fun i => [0, 1, 2].flatMap fun A => edgeL A d (v0 (2 ^ d) i A)) ++
  ([0, 1].flatMap fun i => [0, 1, 2].flatMap fun A => faceL A d (w0 (2 ^ d) i A))

theorem topEdgesO_root (d : Nat) :
    topEdgesO d (some (root d)) = (topL d).map (gm (2 ^ d) ∘ callTuple) := by
  simp only [topEdgesO, topL, List.map_append, List.map_flatMap]
  congr 1
  · apply SimplexGrid.flatMap_congr'
    intro i hi
    apply SimplexGrid.flatMap_congr'
    intro A hA
    simp only [List.mem_cons, List.not_mem_nil, or_false] at hi hA
    exact edge_piece d i A (by omega) (by omega)
  · apply SimplexGrid.flatMap_congr'
    intro i hi
    apply SimplexGrid.flatMap_congr'
    intro A hA
    simp only [List.mem_cons, List.not_mem_nil, or_false] at hi hA
    exact face_piece d i A (by omega) (by omega)

/-- all keys of the walk at `root d`: interior (`work`) then top edges -/
def keysAt (d : Nat) : List (Nat × Pt) := dualL d (root d) ++ topL d

theorem walkCalls_root (d : Nat) :
    (walkCalls d).map (shiftCallO (root d)) = (keysAt d).map (gm (2 ^ d) ∘ callTuple) := by
  rw [walkCalls_shift, interior_piece, topEdgesO_root, keysAt, List.map_append]

/-- `(B, c)` is the key of a lattice edge of the root cube at `(N, N, N)`, interior or boundary:
    `c = ts[0]` (possibly virtual) is in the cube along `B` and at most one cell below it along
    `Q(B)`, `R(B)` -/
def edgeKeyP (N : Nat) (x : Nat × Pt) : Prop :=
  (x.1 = 0 ∧ N ≤ x.2.1 ∧ x.2.1 < 2 * N ∧ N ≤ x.2.2.1 + 1 ∧ x.2.2.1 < 2 * N ∧ N ≤ x.2.2.2 + 1 ∧ x.2.2.2 < 2 * N) ∨
  (x.1 = 1 ∧ N ≤ x.2.1 + 1 ∧ x.2.1 < 2 * N ∧ N ≤ x.2.2.1 ∧ x.2.2.1 < 2 * N ∧ N ≤ x.2.2.2 + 1 ∧ x.2.2.2 < 2 * N) ∨
  (x.1 = 2 ∧ N ≤ x.2.1 + 1 ∧ x.2.1 < 2 * N ∧ N ≤ x.2.2.1 + 1 ∧ x.2.2.1 < 2 * N ∧ N ≤ x.2.2.2 ∧ x.2.2.2 < 2 * N)

syntax "pick_disj'" : tactic
macro_rules
  | `(tactic| pick_disj') => `(tactic|
      first
      | omega
      | (apply Or.inl; pick_disj')
      | (apply Or.inr; pick_disj'))

theorem mem_keysAt (d : Nat) (x : Nat × Pt) : x ∈ keysAt d ↔ edgeKeyP (2 ^ d) x := by
  have hN := Nat.two_pow_pos d
  obtain ⟨B, cx, cy, cz⟩ := x
  simp only [keysAt, topL, List.mem_append, List.flatMap_cons, List.flatMap_nil, List.append_nil,
    mem_dualL, mem_faceL 0 (by omega), mem_faceL 1 (by omega), mem_faceL 2 (by omega),
    mem_edgeL 0 (by omega), mem_edgeL 1 (by omega), mem_edgeL 2 (by omega)]
  simp only [inFace, onLine, inCube, coord, axQ, axR, v0, w0, root, SimplexGrid.frame, edgeKeyP,
    Nat.reduceMod, Nat.reduceDiv, Nat.zero_mul, Nat.one_mul, Nat.sub_zero, Nat.sub_self]
  split_B B
  · constructor
    · omega
    · intro h
      have hy : cy + 1 = 2 ^ d ∨ (2 ^ d ≤ cy ∧ cy + 1 < 2 * 2 ^ d) ∨ cy + 1 = 2 * 2 ^ d := by omega
      have hz : cz + 1 = 2 ^ d ∨ (2 ^ d ≤ cz ∧ cz + 1 < 2 * 2 ^ d) ∨ cz + 1 = 2 * 2 ^ d := by omega
      rcases hy with hy | hy | hy <;> rcases hz with hz | hz | hz <;> pick_disj'
  · constructor
    · omega
    · intro h
      have hy : cx + 1 = 2 ^ d ∨ (2 ^ d ≤ cx ∧ cx + 1 < 2 * 2 ^ d) ∨ cx + 1 = 2 * 2 ^ d := by omega
      have hz : cz + 1 = 2 ^ d ∨ (2 ^ d ≤ cz ∧ cz + 1 < 2 * 2 ^ d) ∨ cz + 1 = 2 * 2 ^ d := by omega
      rcases hy with hy | hy | hy <;> rcases hz with hz | hz | hz <;> pick_disj'
  · constructor
    · omega
    · intro h
      have hy : cx + 1 = 2 ^ d ∨ (2 ^ d ≤ cx ∧ cx + 1 < 2 * 2 ^ d) ∨ cx + 1 = 2 * 2 ^ d := by omega
      have hz : cy + 1 = 2 ^ d ∨ (2 ^ d ≤ cy ∧ cy + 1 < 2 * 2 ^ d) ∨ cy + 1 = 2 * 2 ^ d := by omega
      rcases hy with hy | hy | hy <;> rcases hz with hz | hz | hz <;> pick_disj'
  · omega

theorem nodup_keysAt (d : Nat) : (keysAt d).Nodup := by
  have hN := Nat.two_pow_pos d
  simp only [keysAt, topL, List.flatMap_cons, List.flatMap_nil, List.append_nil]
  repeat' apply nodup_append'
  all_goals first
    | exact nodup_dualL _ _
    | exact nodup_edgeL _ (by omega) _ _
    | exact nodup_faceL _ (by omega) _ _
    | skip
  all_goals
    intro x h1 h2
    obtain ⟨B, cx, cy, cz⟩ := x
    simp only [List.mem_append, mem_dualL, mem_faceL 0 (by omega), mem_faceL 1 (by omega),
      mem_faceL 2 (by omega), mem_edgeL 0 (by omega), mem_edgeL 1 (by omega),
      mem_edgeL 2 (by omega)] at h1 h2
    revert h1 h2
    simp only [inFace, onLine, inCube, coord, axQ, axR, v0, w0, root, SimplexGrid.frame,
      Nat.reduceMod, Nat.reduceDiv, Nat.zero_mul, Nat.one_mul, Nat.sub_zero, Nat.sub_self]
    split_B B <;> close_disj

/-! ### the per-edge loop `edgeCalls` in the same form -/

/-- the lattice edges `(A, a, q, r)` of the `n × n × n` grid in the loop order of `gridLByEdge` -/
def edgeKeys (n : Nat) : List (Nat × Nat × Nat × Nat) :=
  [0, 1, 2].flatMap fun A => (List.range n).flatMap fun a => (List.range (n + 1)).flatMap fun q =>
    (List.range (n + 1)).map fun r => (A, a, q, r)


theorem edgeCalls_eq (n : Nat) :
    edgeCalls n n n = (edgeKeys n).map fun k => edgeCall n n k.1 k.2.1 k.2.2.1 k.2.2.2 := by
  simp only [edgeCalls, edgeKeys, List.flatMap_cons, List.flatMap_nil, List.append_nil,
    Nat.reduceSub, Nat.reduceMod, SimplexGrid.frame, List.map_append, List.map_flatMap, List.map_map,
    Function.comp_def]

theorem mem_edgeKeys (n : Nat) (k : Nat × Nat × Nat × Nat) :
    k ∈ edgeKeys n ↔ k.1 < 3 ∧ k.2.1 < n ∧ k.2.2.1 ≤ n ∧ k.2.2.2 ≤ n := by
  obtain ⟨A, a, q, r⟩ := k
  simp only [edgeKeys, List.mem_flatMap, List.mem_map, List.mem_range, List.mem_cons,
    List.not_mem_nil, or_false, Prod.mk.injEq]
  constructor
  · rintro ⟨A', hA, a', ha, q', hq, r', hr, rfl, rfl, rfl, rfl⟩
    exact ⟨by omega, ha, by omega, by omega⟩
  · rintro ⟨hA, ha, hq, hr⟩
    exact ⟨A, by omega, a, ha, q, by omega, r, by omega, rfl, rfl, rfl, rfl⟩

theorem nodup_flatMap_proj {α β : Type} (l : List α) (hl : l.Nodup) (f : α → List β) (π : β → α)
    (hf : ∀ a ∈ l, (f a).Nodup) (hπ : ∀ a ∈ l, ∀ x ∈ f a, π x = a) : (l.flatMap f).Nodup := by
  rw [List.nodup_flatMap]
  refine ⟨hf, List.Pairwise.imp_of_mem ?_ hl⟩
  intro a b ha hb hab x hx hy
  exact hab ((hπ a ha x hx).symm.trans (hπ b hb x hy))

theorem nodup_edgeKeys (n : Nat) : (edgeKeys n).Nodup := by
  unfold edgeKeys
  refine nodup_flatMap_proj _ (by decide) _ (fun k => k.1) (fun A _ => ?_) ?_
  · refine nodup_flatMap_proj _ List.nodup_range _ (fun k => k.2.1) (fun a _ => ?_) ?_
    · refine nodup_flatMap_proj _ List.nodup_range _ (fun k => k.2.2.1) (fun q _ => ?_) ?_
      · exact List.Nodup.map (fun r r' h => by simpa using h) List.nodup_range
      · intro q _ x hx
        simp only [List.mem_map] at hx
        obtain ⟨_, _, rfl⟩ := hx
        rfl
    · intro a _ x hx
      simp only [List.mem_flatMap, List.mem_map] at hx
      obtain ⟨_, _, _, _, rfl⟩ := hx
      rfl
  · intro A _ x hx
    simp only [List.mem_flatMap, List.mem_map] at hx
    obtain ⟨_, _, _, _, _, _, rfl⟩ := hx
    rfl

/-- the key `(A, ts[0])` (at `root`) of the lattice edge `(A, a, q, r)` -/
def keyOf (N : Nat) (k : Nat × Nat × Nat × Nat) : Nat × Pt :=
  (k.1, SimplexGrid.frame k.1 (N + k.2.1, N + k.2.2.1 - 1, N + k.2.2.2 - 1))

theorem edgeSlot_shift (N A a q r c : Nat) (hN : 0 < N) (hA : A < 3) (ha : a < N) (hc : c < 4) :
    shO (N, N, N) (edgeSlot N N A a q r c) =
      cubeO N (tsCell A (SimplexGrid.frame A (N + a, N + q - 1, N + r - 1)) c) := by
  interval_cases A <;> interval_cases c <;>
    simp only [edgeSlot, cubeO, inC, tsCell, SimplexGrid.frame, addPt, unit, axQ, axR, shO,
      Nat.reduceMod, Nat.reduceDiv, Nat.add_zero] <;>
    split <;> split <;>
    first
      | rfl
      | (exfalso; omega)
      | (simp only [Option.map_some, Option.some.injEq, addPt, Prod.mk.injEq, true_and, and_true]; omega)

theorem edgeCall_shift (N : Nat) (k : Nat × Nat × Nat × Nat) (hN : 0 < N) (hA : k.1 < 3)
    (ha : k.2.1 < N) :
    shiftCallO (N, N, N) (edgeCall N N k.1 k.2.1 k.2.2.1 k.2.2.2) = gm N (callTuple (keyOf N k)) := by
  simp only [shiftCallO, edgeCall, gm, callTuple, keyOf,
    edgeSlot_shift N _ _ _ _ _ hN hA ha (by omega : 0 < 4),
    edgeSlot_shift N _ _ _ _ _ hN hA ha (by omega : 1 < 4),
    edgeSlot_shift N _ _ _ _ _ hN hA ha (by omega : 2 < 4),
    edgeSlot_shift N _ _ _ _ _ hN hA ha (by omega : 3 < 4)]

theorem edgeCalls_root (d : Nat) :
    (edgeCalls (2 ^ d) (2 ^ d) (2 ^ d)).map (shiftCallO (root d)) =
      ((edgeKeys (2 ^ d)).map (keyOf (2 ^ d))).map (gm (2 ^ d) ∘ callTuple) := by
  rw [edgeCalls_eq, List.map_map, List.map_map]
  apply List.map_congr_left
  intro k hk
  rw [mem_edgeKeys] at hk
  exact edgeCall_shift (2 ^ d) k (Nat.two_pow_pos d) hk.1 hk.2.1

theorem mem_map_keyOf (N : Nat) (hN : 0 < N) (x : Nat × Pt) :
    x ∈ (edgeKeys N).map (keyOf N) ↔ edgeKeyP N x := by
  obtain ⟨B, cx, cy, cz⟩ := x
  simp only [List.mem_map, mem_edgeKeys]
  constructor
  · rintro ⟨⟨A, a, q, r⟩, ⟨hA, ha, hq, hr⟩, h⟩
    simp only at hA ha hq hr
    interval_cases A <;>
      simp only [keyOf, SimplexGrid.frame, Prod.mk.injEq] at h <;>
      obtain ⟨rfl, rfl, rfl, rfl⟩ := h <;>
      simp only [edgeKeyP, true_and, false_and, or_false, false_or, Nat.reduceEqDiff,
        OfNat.ofNat_ne_zero, OfNat.zero_ne_ofNat, zero_ne_one, one_ne_zero] <;> omega
  · intro h
    simp only [edgeKeyP] at h
    rcases h with ⟨rfl, h⟩ | ⟨rfl, h⟩ | ⟨rfl, h⟩
    · refine ⟨(0, cx - N, cy + 1 - N, cz + 1 - N), ⟨by omega, by simp only; omega, by simp only; omega,
        by simp only; omega⟩, ?_⟩
      simp only [keyOf, SimplexGrid.frame, Prod.mk.injEq, true_and]; omega
    · refine ⟨(1, cy - N, cz + 1 - N, cx + 1 - N), ⟨by omega, by simp only; omega, by simp only; omega,
        by simp only; omega⟩, ?_⟩
      simp only [keyOf, SimplexGrid.frame, Prod.mk.injEq, true_and]; omega
    · refine ⟨(2, cz - N, cx + 1 - N, cy + 1 - N), ⟨by omega, by simp only; omega, by simp only; omega,
        by simp only; omega⟩, ?_⟩
      simp only [keyOf, SimplexGrid.frame, Prod.mk.injEq, true_and]; omega

theorem nodup_map_keyOf (N : Nat) (hN : 0 < N) : ((edgeKeys N).map (keyOf N)).Nodup := by
  apply List.Nodup.map_on _ (nodup_edgeKeys N)
  rintro ⟨A, a, q, r⟩ hk ⟨A', a', q', r'⟩ hk' h
  rw [mem_edgeKeys] at hk hk'
  simp only [keyOf, Prod.mk.injEq] at h hk hk'
  obtain ⟨rfl, h⟩ := h
  obtain ⟨hA, _⟩ := hk
  interval_cases A <;> simp only [SimplexGrid.frame, Prod.mk.injEq, true_and] at h ⊢ <;> omega

theorem keysAt_perm (d : Nat) : (keysAt d).Perm ((edgeKeys (2 ^ d)).map (keyOf (2 ^ d))) :=
  (List.perm_ext_iff_of_nodup (nodup_keysAt d) (nodup_map_keyOf _ (Nat.two_pow_pos d))).2 fun x => by
    rw [mem_keysAt, mem_map_keyOf _ (Nat.two_pow_pos d)]

/-! ### back to the origin -/

def unshO (s : Pt) (t : OT) : OT := t.map fun p => (p.1 - s.1, p.2.1 - s.2.1, p.2.2 - s.2.2)

def unshiftCallO (s : Pt) (x : SCall) : SCall :=
  (x.1, unshO s x.2.1, unshO s x.2.2.1, unshO s x.2.2.2.1, unshO s x.2.2.2.2)

theorem unshO_shO (s : Pt) (t : OT) : unshO s (shO s t) = t := by
  cases t with
  | none => rfl
  | some p =>
    simp only [unshO, shO, Option.map_some, addPt, Option.some.injEq]
    exact Prod.ext (by simp) (Prod.ext (by simp) (by simp))

theorem unshift_shift (s : Pt) (x : SCall) : unshiftCallO s (shiftCallO s x) = x := by
  simp only [unshiftCallO, shiftCallO, unshO_shO]

/-- **the walk's calls are one call per lattice edge** -/
theorem walkCalls_perm (d : Nat) : (walkCalls d).Perm (edgeCalls (2 ^ d) (2 ^ d) (2 ^ d)) := by
  have h : ((walkCalls d).map (shiftCallO (root d))).Perm
      ((edgeCalls (2 ^ d) (2 ^ d) (2 ^ d)).map (shiftCallO (root d))) := by
    rw [walkCalls_root, edgeCalls_root]
    exact (keysAt_perm d).map _
  have h' := h.map (unshiftCallO (root d))
  simp only [List.map_map] at h'
  have e : (unshiftCallO (root d) ∘ shiftCallO (root d)) = id := funext fun x => unshift_shift _ x
  rwa [e, List.map_id, List.map_id] at h'

theorem walkL_perm (d : Nat) : (walkL d).Perm (SimplexGrid.gridLByEdge (2 ^ d) (2 ^ d) (2 ^ d)) := by
  rw [gridLByEdge_eq]
  exact (walkCalls_perm d).flatMap_right _

theorem walkTets_perm_byEdge (d : Nat) :
    (walkTets d).Perm (SimplexGrid.gridTetsByEdge (2 ^ d) (2 ^ d) (2 ^ d)) :=
  (walkL_perm d).map _

theorem walkTets_perm (d : Nat) : (walkTets d).Perm (SimplexGrid.gridTets (2 ^ d) (2 ^ d) (2 ^ d)) :=
  (walkTets_perm_byEdge d).trans (SimplexGrid.gridTetsByEdge_perm _ _ _)

/-- all-real trees: the recursion with possibly-empty trees is the interior recursion -/
theorem edge3O_some (A d : Nat) (t0 t1 t2 t3 : Pt) :
    edge3O A d (some t0) (some t1) (some t2) (some t3) = (edge3W A d t0 t1 t2 t3).map liftCall :=
  edge3O_mask A true true true true d t0 t1 t2 t3

theorem face3O_some (A d : Nat) (t0 t1 : Pt) :
    face3O A d (some t0) (some t1) = (face3W A d t0 t1).map liftCall := by
  have h := face3O_mask A true true d t0 t1
  have e : maskF A true true = liftCall := funext fun x => by
    simp only [maskF, maskC, mk, liftCall, ite_self]
  rwa [e] at h

end Libfive.SimplexWalk
