/-
  Helper lemmas for C03 / C04: signed edge counts via antisymmetric test functions, the
  per-tet boundary lemma (from the regenerated tet table), the double-counting lemma over
  canonical faces, and the DC quad lemma.
-/
import Mathlib.Tactic.Ring
import Mathlib.Tactic.Linarith
import Mathlib.Tactic.IntervalCases
import Mathlib.Algebra.BigOperators.Group.List.Basic
import Mathlib.Data.List.Nodup
import LibfiveModel.Marching

namespace Libfive.Marching

variable {β : Type}

/-! ### test functions -/

/-- sum of a weight over a list of directed edges -/
def wsum (w : Edge β → ℤ) (l : List (Edge β)) : ℤ := (l.map w).sum

/-- `w` changes sign when the edge is reversed -/
def Antisym (w : Edge β → ℤ) : Prop := ∀ e, w (rev e) = - w e

@[simp] theorem rev_rev (e : Edge β) : rev (rev e) = e := by cases e; rfl

@[simp] theorem wsum_nil (w : Edge β → ℤ) : wsum w [] = 0 := rfl
@[simp] theorem wsum_cons (w : Edge β → ℤ) (e : Edge β) (l : List (Edge β)) :
    wsum w (e :: l) = w e + wsum w l := by simp [wsum]
@[simp] theorem wsum_append (w : Edge β → ℤ) (l₁ l₂ : List (Edge β)) :
    wsum w (l₁ ++ l₂) = wsum w l₁ + wsum w l₂ := by simp [wsum]

theorem wsum_perm (w : Edge β → ℤ) {l₁ l₂ : List (Edge β)} (h : l₁.Perm l₂) : wsum w l₁ = wsum w l₂ :=
  (h.map w).sum_eq

theorem wsum_map {γ : Type} (w : Edge β → ℤ) (ψ : Edge γ → Edge β) (l : List (Edge γ)) :
    wsum w (l.map ψ) = wsum (fun e => w (ψ e)) l := by
  simp [wsum, List.map_map, Function.comp_def]

theorem wsum_flatMap {γ : Type} (w : Edge β → ℤ) (f : γ → List (Edge β)) (l : List γ) :
    wsum w (l.flatMap f) = (l.map fun x => wsum w (f x)).sum := by
  induction l with
  | nil => simp
  | cons x l ih => simp [List.flatMap_cons, ih]

/-- a list made of pairs `e, rev e` has weight 0 -/
theorem wsum_pairs (w : Edge β → ℤ) (hw : Antisym w) (l : List (Edge β)) :
    wsum w (l.flatMap fun e => [e, rev e]) = 0 := by
  induction l with
  | nil => simp
  | cons x l ih => simp [List.flatMap_cons, ih, hw x]

theorem antisym_self (w : Edge β → ℤ) (hw : Antisym w) (a : β) : w (a, a) = 0 := by
  have := hw (a, a)
  simp only [rev] at this
  omega

theorem antisym_swap (w : Edge β → ℤ) (hw : Antisym w) (a b : β) : w (b, a) = - w (a, b) := hw (a, b)

/-! ### signed counts -/

section count
variable [BEq β] [LawfulBEq β]

/-- how often `e` occurs minus how often its reverse occurs -/
def cnt (l : List (Edge β)) (e : Edge β) : ℤ := (l.count e : ℤ) - (l.count (rev e) : ℤ)

/-- the test function of one directed edge -/
def indic (e : Edge β) : Edge β → ℤ :=
  fun x => (if x == e then 1 else 0) - (if x == rev e then 1 else 0)

theorem indic_antisym (e : Edge β) : Antisym (indic e) := by
  intro x
  have h1 : (rev x == e) = (x == rev e) := by
    rw [Bool.eq_iff_iff, beq_iff_eq, beq_iff_eq]
    exact ⟨fun h => by rw [← h, rev_rev], fun h => by rw [h, rev_rev]⟩
  have h2 : (rev x == rev e) = (x == e) := by
    rw [Bool.eq_iff_iff, beq_iff_eq, beq_iff_eq]
    exact ⟨fun h => by rw [← rev_rev x, h, rev_rev], fun h => by rw [h]⟩
  simp only [indic, h1, h2]
  ring

theorem wsum_indic (e : Edge β) (l : List (Edge β)) : wsum (indic e) l = cnt l e := by
  induction l with
  | nil => simp [cnt]
  | cons x l ih =>
    rw [wsum_cons, ih]
    simp only [cnt, indic, List.count_cons]
    split_ifs <;> push_cast <;> ring

/-- two edge lists with the same weight under every antisymmetric test function have the same
    signed count at every edge -/
theorem cnt_eq_of_wsum {l₁ l₂ : List (Edge β)}
    (h : ∀ w : Edge β → ℤ, Antisym w → wsum w l₁ = wsum w l₂) (e : Edge β) : cnt l₁ e = cnt l₂ e := by
  rw [← wsum_indic, ← wsum_indic]
  exact h _ (indic_antisym e)

theorem count_eq_of_wsum_zero {l : List (Edge β)}
    (h : ∀ w : Edge β → ℤ, Antisym w → wsum w l = 0) (e : Edge β) : l.count e = l.count (rev e) := by
  have := cnt_eq_of_wsum (l₁ := l) (l₂ := []) (fun w hw => by simpa using h w hw) e
  simp only [cnt, List.count_nil] at this
  omega

end count

/-! ### naturality -/

theorem rev_mapEdge {α γ : Type} (φ : α → γ) (e : Edge α) : rev (mapEdge φ e) = mapEdge φ (rev e) := rfl

theorem dirEdges_map {α γ : Type} (φ : α → γ) (l : List (Tri α)) :
    dirEdges (l.map (mapTri φ)) = (dirEdges l).map (mapEdge φ) := by
  induction l with
  | nil => rfl
  | cons t l ih =>
    simp only [dirEdges, List.map_cons, List.flatMap_cons, List.map_append] at ih ⊢
    rw [ih]
    rfl

theorem dirEdges_append (l₁ l₂ : List (Tri β)) : dirEdges (l₁ ++ l₂) = dirEdges l₁ ++ dirEdges l₂ := by
  simp [dirEdges]

theorem dirEdges_flatMap {γ : Type} (f : γ → List (Tri β)) (l : List γ) :
    dirEdges (l.flatMap f) = l.flatMap (fun x => dirEdges (f x)) := by
  simp [dirEdges, List.flatMap_assoc]

theorem seg_map {α γ : Type} (φ : α → γ) (sa sb sc : Bool) (a b c : α) :
    (seg sa sb sc a b c).map (mapEdge (mapSV φ)) = seg sa sb sc (φ a) (φ b) (φ c) := by
  cases sa <;> cases sb <;> cases sc <;> rfl

/-! ### the segment of a face under permutations of the face -/

theorem seg_rot {α : Type} (w : Edge (SV α) → ℤ) (sa sb sc : Bool) (a b c : α) :
    wsum w (seg sb sc sa b c a) = wsum w (seg sa sb sc a b c) := by
  cases sa <;> cases sb <;> cases sc <;> rfl

theorem seg_swap {α : Type} (w : Edge (SV α) → ℤ) (hw : Antisym w) (sa sb sc : Bool) (a b c : α) :
    wsum w (seg sb sa sc b a c) = - wsum w (seg sa sb sc a b c) := by
  cases sa <;> cases sb <;> cases sc <;>
    simp only [seg, wsum_cons, wsum_nil, add_zero, neg_zero] <;>
    first | rfl | exact antisym_swap w hw _ _

/-- reversing the orientation of a face reverses its segment (list form) -/
theorem seg_swap_list {α : Type} (sa sb sc : Bool) (a b c : α) :
    seg sb sa sc b a c = (seg sa sb sc a b c).map rev := by
  cases sa <;> cases sb <;> cases sc <;> rfl

theorem seg_length_le_one {α : Type} (sa sb sc : Bool) (a b c : α) : (seg sa sb sc a b c).length ≤ 1 := by
  cases sa <;> cases sb <;> cases sc <;> simp [seg]

/-! ### the per-tet boundary lemma -/

/-- the four face segments of the local tet `(0,1,2,3)` with inside flags `b0..b3` -/
def segs4 (b0 b1 b2 b3 : Bool) : List (Edge (SV Nat)) :=
  seg b1 b2 b3 1 2 3 ++ seg b0 b3 b2 0 3 2 ++ seg b0 b1 b3 0 1 3 ++ seg b0 b2 b1 0 2 1

/-- an edge between two surface vertices whose tet edges span all four tet vertices -/
def isInternal (e : Edge (SV Nat)) : Bool :=
  let l := [e.1.1, e.1.2, e.2.1, e.2.2]
  l.Nodup

def svLt (p q : SV Nat) : Bool := p.1 < q.1 || (p.1 == q.1 && p.2 < q.2)

/-- one representative of each internal edge pair -/
def internalHalf (m : Nat) : List (Edge (SV Nat)) :=
  (dirEdges (localTris m)).filter fun e => isInternal e && svLt e.1 e.2

/-- **Table lemma (complete tet table, by kernel evaluation).**  For every mask the directed
    sides of the emitted triangles are, as a multiset, the four face segments plus internal
    sides that occur in cancelling pairs. -/
theorem tet_table_boundary : ∀ b0 b1 b2 b3 : Bool,
    (dirEdges (localTris (maskOf b0 b1 b2 b3))).Perm
      (segs4 b0 b1 b2 b3 ++ (internalHalf (maskOf b0 b1 b2 b3)).flatMap fun e => [e, rev e]) := by
  intro b0 b1 b2 b3
  cases b0 <;> cases b1 <;> cases b2 <;> cases b3 <;> decide

/-- the boundary of the triangles of one tet is the sum of its four face segments -/
theorem marchTet_boundary (s : Vid → Bool) (t : Tet) (w : Edge (SV Vid) → ℤ) (hw : Antisym w) :
    wsum w (dirEdges (marchTet s t)) = ((t.faces).map fun f => wsum w (faceSeg s f)).sum := by
  unfold marchTet marchTetM Tet.mask
  rw [dirEdges_map, wsum_map]
  have hw' : Antisym (fun e : Edge (SV Nat) => w (mapEdge (mapSV t.vtx) e)) := by
    intro e
    show w (mapEdge (mapSV t.vtx) (rev e)) = - w (mapEdge (mapSV t.vtx) e)
    rw [← rev_mapEdge]
    exact hw _
  rw [wsum_perm _ (tet_table_boundary (s t.v0) (s t.v1) (s t.v2) (s t.v3)), wsum_append, wsum_pairs _ hw', add_zero]
  simp only [segs4, wsum_append, ← wsum_map, seg_map, Tet.faces, faceSeg, List.map_cons, List.map_nil,
    List.sum_cons, List.sum_nil, add_zero, Tet.vtx]
  ring

/-! ### double counting over canonical faces -/

theorem sum_filter_split {γ : Type} (p : γ → Bool) (f : γ → ℤ) (l : List γ) :
    (l.map f).sum = ((l.filter p).map f).sum + ((l.filter fun x => !p x).map f).sum := by
  induction l with
  | nil => simp
  | cons x l ih =>
    by_cases hp : p x = true
    · simp [List.filter_cons, hp, ih]; ring
    · simp [List.filter_cons, hp, ih]; ring

theorem sum_mul_const {γ : Type} (f : γ → ℤ) (r : ℤ) (l : List γ) :
    (l.map fun b => f b * r).sum = (l.map f).sum * r := by
  induction l with
  | nil => simp
  | cons x l ih => simp [ih]; ring

theorem sum_flatMap_eq {γ : Type} (f : γ → List ℤ) (l : List γ) :
    (l.flatMap f).sum = (l.map fun x => (f x).sum).sum := by
  induction l with
  | nil => simp
  | cons x l ih => simp [List.flatMap_cons, ih]

/-- if, for every key, the coefficients of the entries with that key sum to zero (or the key's
    value is zero), the whole weighted sum is zero -/
theorem sum_fibers {γ κ : Type} [DecidableEq κ] (key : γ → κ) (σ : γ → ℤ) (G : κ → ℤ) :
    ∀ (n : Nat) (F : List γ), F.length ≤ n →
      (∀ k, ((F.filter fun f => decide (key f = k)).map σ).sum * G k = 0) →
      (F.map fun f => σ f * G (key f)).sum = 0 := by
  intro n
  induction n with
  | zero =>
    intro F hF _
    have : F = [] := List.length_eq_zero_iff.mp (Nat.le_zero.mp hF)
    simp [this]
  | succ n ih =>
    intro F hF h
    cases F with
    | nil => simp
    | cons x F' =>
      rw [sum_filter_split (fun f => decide (key f = key x))]
      have hA : (((x :: F').filter fun f => decide (key f = key x)).map fun f => σ f * G (key f)).sum = 0 := by
        have : (((x :: F').filter fun f => decide (key f = key x)).map fun f => σ f * G (key f))
            = (((x :: F').filter fun f => decide (key f = key x)).map fun f => σ f * G (key x)) := by
          apply List.map_congr_left
          intro f hf
          have := (List.mem_filter.mp hf).2
          rw [decide_eq_true_eq] at this
          rw [this]
        rw [this, sum_mul_const]
        exact h (key x)
      rw [hA, zero_add]
      apply ih
      · have : ((x :: F').filter fun f => !decide (key f = key x)).length ≤ F'.length := by
          simp only [List.filter_cons, decide_true, Bool.not_true, Bool.false_eq_true, if_false]
          exact List.length_filter_le _ _
        simp only [List.length_cons] at hF
        omega
      · intro k
        rw [List.filter_filter]
        by_cases hk : k = key x
        · subst hk
          have : ((x :: F').filter fun a => decide (key a = key x) && !decide (key a = key x)) = [] := by
            apply List.filter_eq_nil_iff.mpr
            intro a _
            simp
          rw [this]; simp
        · have : ((x :: F').filter fun a => decide (key a = k) && !decide (key a = key x))
              = ((x :: F').filter fun a => decide (key a = k)) := by
            apply List.filter_congr
            intro a _
            by_cases ha : key a = k
            · subst ha; simp [hk]
            · simp [ha]
          rw [this]
          exact h k

/-- orientation sign of a face relative to its sorted triple -/
def oriSign (f : Face) : ℤ := if (canon f).2 then 1 else -1

theorem faceSeg_canon (s : Vid → Bool) (w : Edge (SV Vid) → ℤ) (hw : Antisym w) (f : Face) :
    wsum w (faceSeg s f) = oriSign f * wsum w (faceSeg s (canon f).1) := by
  obtain ⟨a, b, c⟩ := f
  have rot := fun (sa sb sc : Bool) (a b c : Vid) => seg_rot w sa sb sc a b c
  have swp := fun (sa sb sc : Bool) (a b c : Vid) => seg_swap w hw sa sb sc a b c
  have p_cab := rot (s c) (s a) (s b) c a b
  have p_bca := rot (s a) (s b) (s c) a b c
  have p_bac := swp (s a) (s b) (s c) a b c
  have p_acb := swp (s c) (s a) (s b) c a b
  have p_cba := swp (s b) (s c) (s a) b c a
  unfold oriSign canon faceSeg
  by_cases h1 : a < b <;> by_cases h2 : b < c <;> by_cases h3 : a < c <;>
    simp only [h1, h2, h3, if_true, if_false, Bool.false_eq_true, one_mul, neg_mul] <;>
    linarith

theorem faceSeg_uniform (s : Vid → Bool) (f : Face) (h : faceUniform s f = true) : faceSeg s f = [] := by
  obtain ⟨a, b, c⟩ := f
  simp only [faceUniform, Bool.and_eq_true, beq_iff_eq] at h
  unfold faceSeg
  simp only
  rw [← h.2, ← h.1]
  cases s a <;> rfl

theorem oriSign_sum (F : List Face) (k : Face) :
    ((F.filter fun f => decide ((canon f).1 = k)).map oriSign).sum = (oriCount F k true : ℤ) - (oriCount F k false : ℤ) := by
  induction F with
  | nil => simp [oriCount]
  | cons x F ih =>
    simp only [oriCount] at ih ⊢
    by_cases hk : (canon x).1 = k
    · by_cases hp : (canon x).2 = true
      · simp [List.filter_cons, hk, hp, oriSign, ih]; ring
      · simp only [Bool.not_eq_true] at hp
        simp [List.filter_cons, hk, hp, oriSign, ih]; ring
    · simp [List.filter_cons, hk, ih]

/-- **Double counting.**  If every non-uniform face triple occurs equally often with both
    orientations, the face segments of the whole complex cancel. -/
theorem faces_cancel (s : Vid → Bool) (F : List Face) (hb : HypBal s F)
    (w : Edge (SV Vid) → ℤ) (hw : Antisym w) : (F.map fun f => wsum w (faceSeg s f)).sum = 0 := by
  have h1 : (F.map fun f => wsum w (faceSeg s f))
      = F.map fun f => oriSign f * (fun k => wsum w (faceSeg s k)) ((fun f => (canon f).1) f) := by
    apply List.map_congr_left
    intro f _
    exact faceSeg_canon s w hw f
  rw [h1]
  apply sum_fibers (fun f => (canon f).1) oriSign (fun k => wsum w (faceSeg s k)) F.length F (Nat.le_refl _)
  intro k
  rw [oriSign_sum]
  by_cases hu : faceUniform s k = true
  · simp [faceSeg_uniform s k hu]
  · simp only [Bool.not_eq_true] at hu
    rw [hb k hu]; simp

theorem hypH_bal (s : Vid → Bool) (F : List Face) (h : HypH s F) : HypBal s F := by
  intro k hu
  by_cases hk : k ∈ F.map (fun f => (canon f).1)
  · obtain ⟨h1, h2⟩ := h k hu hk
    rw [h1, h2]
  · have : ∀ p, oriCount F k p = 0 := by
      intro p
      simp only [oriCount, List.length_eq_zero_iff, List.filter_eq_nil_iff]
      intro f hf hc
      apply hk
      simp only [Bool.and_eq_true, beq_iff_eq] at hc
      exact List.mem_map.mpr ⟨f, hf, hc.1⟩
    rw [this, this]

/-- the triangles of a whole complex have weight-zero boundary -/
theorem marchTets_boundary_zero (s : Vid → Bool) (ts : List Tet) (hb : HypBal s (allFaces ts))
    (w : Edge (SV Vid) → ℤ) (hw : Antisym w) : wsum w (dirEdges (marchTets s ts)) = 0 := by
  unfold marchTets
  rw [dirEdges_flatMap, wsum_flatMap]
  have : (ts.map fun t => wsum w (dirEdges (marchTet s t)))
      = ts.map fun t => ((t.faces).map fun f => wsum w (faceSeg s f)).sum := by
    apply List.map_congr_left
    intro t _
    exact marchTet_boundary s t w hw
  rw [this]
  have h2 := faces_cancel s (allFaces ts) hb w hw
  unfold allFaces at h2
  rw [List.map_flatMap, sum_flatMap_eq] at h2
  exact h2

/-! ### no repeated vertex -/

/-- local well-formedness of a table triangle: entries are tet vertices, the three tet edges
    are pairwise different (even as unordered pairs) and each joins two different vertices -/
def wfLocalTri (t : Tri (SV Nat)) : Bool :=
  let (p, q, r) := t
  p.1 < 4 && p.2 < 4 && q.1 < 4 && q.2 < 4 && r.1 < 4 && r.2 < 4 &&
  p.1 != p.2 && q.1 != q.2 && r.1 != r.2 &&
  p != q && q != r && p != r && p != rev q && q != rev r && p != rev r

theorem tet_table_wf : ∀ m, m < 16 → (localTris m).all wfLocalTri = true := by decide

def Tet.distinct (t : Tet) : Prop :=
  t.v0 ≠ t.v1 ∧ t.v0 ≠ t.v2 ∧ t.v0 ≠ t.v3 ∧ t.v1 ≠ t.v2 ∧ t.v1 ≠ t.v3 ∧ t.v2 ≠ t.v3

instance (t : Tet) : Decidable t.distinct := by unfold Tet.distinct; infer_instance

theorem vtx_inj (t : Tet) (h : t.distinct) : ∀ i j, i < 4 → j < 4 → t.vtx i = t.vtx j → i = j := by
  obtain ⟨h1, h2, h3, h4, h5, h6⟩ := h
  intro i j hi hj
  interval_cases i <;> interval_cases j <;> simp [Tet.vtx] <;> intro h <;> simp_all

/-- (T) no directed side is emitted twice by one tet, and all entries are tet vertices -/
theorem tet_table_nodup : ∀ m, m < 16 → (dirEdges (localTris m)).Nodup := by decide

theorem tet_table_edges_lt : ∀ m, m < 16 →
    (dirEdges (localTris m)).all (fun e => decide (e.1.1 < 4) && decide (e.1.2 < 4) && decide (e.2.1 < 4) && decide (e.2.2 < 4)) = true := by
  decide

theorem maskOf_lt (b0 b1 b2 b3 : Bool) : maskOf b0 b1 b2 b3 < 16 := by
  cases b0 <;> cases b1 <;> cases b2 <;> cases b3 <;> decide

/-- within one tet with four distinct vertices every directed side is emitted at most once -/
theorem marchTet_edges_nodup (s : Vid → Bool) (t : Tet) (h : t.distinct) : (dirEdges (marchTet s t)).Nodup := by
  unfold marchTet marchTetM
  rw [dirEdges_map]
  have hlt := tet_table_edges_lt (t.mask s) (maskOf_lt _ _ _ _)
  rw [List.all_eq_true] at hlt
  have inj := vtx_inj t h
  apply List.Nodup.map_on _ (tet_table_nodup (t.mask s) (maskOf_lt _ _ _ _))
  intro x hx y hy hxy
  have bx := hlt x hx
  have by_ := hlt y hy
  simp only [Bool.and_eq_true, decide_eq_true_eq] at bx by_
  obtain ⟨⟨⟨x1, x2⟩, x3⟩, x4⟩ := bx
  obtain ⟨⟨⟨y1, y2⟩, y3⟩, y4⟩ := by_
  simp only [mapEdge, mapSV, Prod.mk.injEq] at hxy
  obtain ⟨⟨h1, h2⟩, h3, h4⟩ := hxy
  exact Prod.ext (Prod.ext (inj _ _ x1 y1 h1) (inj _ _ x2 y2 h2)) (Prod.ext (inj _ _ x3 y3 h3) (inj _ _ x4 y4 h4))

/-! ### dual contouring quad -/

theorem wsum_pushTriangle (w : Edge Vid → ℤ) (hw : Antisym w) (a b c : Vid) :
    wsum w (dirEdges (pushTriangle a b c)) = w (a, b) + w (b, c) + w (c, a) := by
  unfold pushTriangle
  by_cases hab : a = b
  · subst hab
    simp [dirEdges, antisym_self w hw, antisym_swap w hw a c]
  · by_cases hbc : b = c
    · subst hbc
      simp [dirEdges, hab, antisym_self w hw, antisym_swap w hw a b]
    · by_cases hac : a = c
      · subst hac
        simp [dirEdges, hab, antisym_self w hw, antisym_swap w hw a b]
      · simp [dirEdges, triEdges, hab, hbc, hac]; ring

theorem dcQuad_wsum (w : Edge Vid → ℤ) (hw : Antisym w) (v0 v1 v2 v3 : Vid) (d alt : Bool) :
    wsum w (dirEdges (dcQuad v0 v1 v2 v3 d alt)) = wsum w (quadCycle v0 v1 v2 v3 d) := by
  have e1 := antisym_swap w hw v0 v3
  have e2 := antisym_swap w hw v1 v2
  unfold dcQuad quadCycle
  cases d <;> cases alt <;>
    simp only [dirEdges_append, wsum_append, wsum_pushTriangle w hw, wsum_cons, wsum_nil, if_true,
      Bool.false_eq_true, if_false] <;>
    linarith

end Libfive.Marching
