/-
  Helper lemmas for C16 (model in LibfiveModel/Oracle.lean).
  The chain-rule identity is algebra over a commutative ring (`Mathlib.Tactic.Ring`); everything
  else is core Lean.
-/
import LibfiveModel.Oracle
import Mathlib.Tactic.Ring
set_option linter.unusedSimpArgs false
set_option linter.unusedVariables false

namespace Libfive.OracleM

open Libfive

/-! ### remap is composition -/

section value
variable {α : Type} (K : Kern α) (Γ : Nat → OracleI α)

/-- substitution lemma: the remapped expression at `p` is the expression at the transformed point -/
theorem den_remap (X Y Z e : Expr α) (p : V3 α) :
    den K Γ (remap X Y Z e) p = den K Γ e ⟨den K Γ X p, den K Γ Y p, den K Γ Z p⟩ := by
  induction e with
  | x => rfl
  | y => rfl
  | z => rfl
  | const c => rfl
  | un op a ih => simp only [remap, den, ih]
  | bin op a b iha ihb => simp only [remap, den, iha, ihb]
  | oracle k => rfl
  | toracle k A B C ihA ihB ihC => simp only [remap, den, ihA, ihB, ihC]

/-- nested remaps compose syntactically; on oracle nodes this is `TransformedOracleClause::remap` -/
theorem remap_remap (X' Y' Z' X Y Z e : Expr α) :
    remap X' Y' Z' (remap X Y Z e) =
      remap (remap X' Y' Z' X) (remap X' Y' Z' Y) (remap X' Y' Z' Z) e := by
  induction e with
  | x => rfl
  | y => rfl
  | z => rfl
  | const c => rfl
  | un op a ih => simp only [remap, ih]
  | bin op a b iha ihb => simp only [remap, iha, ihb]
  | oracle k => rfl
  | toracle k A B C ihA ihB ihC => simp only [remap, ihA, ihB, ihC]

/-- interval evaluation of the remapped expression, when the coordinate ranges carry no NaN flag,
    is interval evaluation of the expression on the box spanned by the coordinate ranges -/
theorem ivl_remap (X Y Z e : Expr α) (lo hi : V3 α)
    (hx : (ivl K Γ X lo hi).nan = false) (hy : (ivl K Γ Y lo hi).nan = false)
    (hz : (ivl K Γ Z lo hi).nan = false) :
    ivl K Γ (remap X Y Z e) lo hi =
      ivl K Γ e ⟨(ivl K Γ X lo hi).lo, (ivl K Γ Y lo hi).lo, (ivl K Γ Z lo hi).lo⟩
                ⟨(ivl K Γ X lo hi).hi, (ivl K Γ Y lo hi).hi, (ivl K Γ Z lo hi).hi⟩ := by
  induction e with
  | x => simp only [remap, ivl]; rw [← hx]
  | y => simp only [remap, ivl]; rw [← hy]
  | z => simp only [remap, ivl]; rw [← hz]
  | const c => rfl
  | un op a ih => simp only [remap, ivl, ih]
  | bin op a b iha ihb => simp only [remap, ivl, iha, ihb]
  | oracle k => simp only [remap, ivl, hx, hy, hz, Bool.or_false]
  | toracle k A B C ihA ihB ihC => simp only [remap, ivl, ihA, ihB, ihC]

end value

/-! ### enclosures -/

section sound
variable {α : Type} (le : α → α → Prop)

def inBox (lo hi p : V3 α) : Prop :=
  le lo.x p.x ∧ le p.x hi.x ∧ le lo.y p.y ∧ le p.y hi.y ∧ le lo.z p.z ∧ le p.z hi.z

/-- strict enclosure: the value lies between the bounds -/
def encloses (I : Ivl α) (v : α) : Prop := le I.lo v ∧ le v I.hi

/-- an oracle (or evaluator) whose interval answer encloses its point answer on every box -/
def SoundOracle (o : OracleI α) : Prop :=
  ∀ lo hi p, inBox le lo hi p → encloses le (o.interval lo hi) (o.point p)

/-- interval kernels enclose point kernels -/
def SoundKern (K : Kern α) : Prop :=
  ∀ op A B a b, encloses le A a → encloses le B b → encloses le (K.iev op A B) (K.ev op a b)

theorem ivl_sound (K : Kern α) (Γ : Nat → OracleI α) (hrefl : ∀ a, le a a) (hK : SoundKern le K)
    (hΓ : ∀ k, SoundOracle le (Γ k)) (e : Expr α) (lo hi p : V3 α) (hp : inBox le lo hi p) :
    encloses le (ivl K Γ e lo hi) (den K Γ e p) := by
  induction e with
  | x => exact ⟨hp.1, hp.2.1⟩
  | y => exact ⟨hp.2.2.1, hp.2.2.2.1⟩
  | z => exact ⟨hp.2.2.2.2.1, hp.2.2.2.2.2⟩
  | const c => exact ⟨hrefl c, hrefl c⟩
  | un op a ih => exact hK op _ _ _ _ ih ⟨hrefl _, hrefl _⟩
  | bin op a b iha ihb => exact hK op _ _ _ _ iha ihb
  | oracle k => exact hΓ k lo hi p hp
  | toracle k A B C ihA ihB ihC =>
    exact hΓ k _ _ _ ⟨ihA.1, ihA.2, ihB.1, ihB.2, ihC.1, ihC.2⟩

end sound

/-! ### chain rule (algebra over a commutative ring) -/

section grad
variable {α : Type} [CommRing α] (K : Kern α) (Γ : Nat → OracleI α)

theorem jmul_smul (gx gy gz g : V3 α) (c : α) :
    jmul gx gy gz (V3.smul c g) = V3.smul c (jmul gx gy gz g) := by
  simp only [jmul, V3.smul, V3.mk.injEq]
  refine ⟨?_, ?_, ?_⟩ <;> ring

theorem jmul_add (gx gy gz g h : V3 α) :
    jmul gx gy gz (V3.add g h) = V3.add (jmul gx gy gz g) (jmul gx gy gz h) := by
  simp only [jmul, V3.add, V3.mk.injEq]
  refine ⟨?_, ?_, ?_⟩ <;> ring

/-- matrix associativity: `(J·[a b c])·g = J·([a b c]·g)` -/
theorem jmul_assoc (gx gy gz a b c g : V3 α) :
    jmul (jmul gx gy gz a) (jmul gx gy gz b) (jmul gx gy gz c) g =
      jmul gx gy gz (jmul a b c g) := by
  simp only [jmul, V3.mk.injEq]
  refine ⟨?_, ?_, ?_⟩ <;> ring

/-- forward-mode gradient of the remapped expression = Jacobian (columns ∇X, ∇Y, ∇Z) times the
    gradient of the expression at the transformed point -/
theorem gradE_remap (h0 : K.zero = 0) (h1 : K.one = 1) (X Y Z e : Expr α) (p : V3 α) :
    gradE K Γ (remap X Y Z e) p =
      jmul (gradE K Γ X p) (gradE K Γ Y p) (gradE K Γ Z p)
        (gradE K Γ e ⟨den K Γ X p, den K Γ Y p, den K Γ Z p⟩) := by
  induction e with
  | x =>
    simp only [remap, gradE, jmul, h0, h1]
    cases hX : gradE K Γ X p with | mk a b c => simp
  | y =>
    simp only [remap, gradE, jmul, h0, h1]
    cases hY : gradE K Γ Y p with | mk a b c => simp
  | z =>
    simp only [remap, gradE, jmul, h0, h1]
    cases hZ : gradE K Γ Z p with | mk a b c => simp
  | const c => simp [remap, gradE, jmul, h0]
  | un op a ih =>
    simp only [remap, gradE, den_remap, ih, jmul_smul]
  | bin op a b iha ihb =>
    simp only [remap, gradE, den_remap, iha, ihb, jmul_smul, jmul_add]
  | oracle k => rfl
  | toracle k A B C ihA ihB ihC =>
    simp only [remap, gradE, den_remap, ihA, ihB, ihC, jmul_assoc]

end grad

/-! ### features: every output gradient is a Jacobian image -/

theorem transformedFeats_deriv {α : Type} [Add α] [Mul α] (F : FeatOps α)
    (hmerge : ∀ d a b, (F.merge d a b).deriv = d)
    (xf yf zf uf : List (Feat α)) (f : Feat α) (hf : f ∈ transformedFeats F xf yf zf uf) :
    ∃ f1 ∈ xf, ∃ f2 ∈ yf, ∃ f3 ∈ zf, ∃ f4 ∈ uf,
      f.deriv = jmul f1.deriv f2.deriv f3.deriv f4.deriv := by
  unfold transformedFeats at hf
  simp only [List.mem_flatMap] at hf
  obtain ⟨f1, h1, f2, h2, hf⟩ := hf
  split at hf
  · simp only [List.mem_flatMap] at hf
    obtain ⟨f3, h3, hf⟩ := hf
    split at hf
    · simp only [List.mem_filterMap] at hf
      obtain ⟨f4, h4, hf⟩ := hf
      split at hf
      · simp only [Option.some.injEq] at hf
        refine ⟨f1, h1, f2, h2, f3, h3, f4, h4, ?_⟩
        rw [← hf, hmerge]
        rfl
      · cases hf
    · cases hf
  · cases hf

/-! ### the context protocol -/

namespace Orc

theorem lower_of_all (o : Orc) (h : o.allUnbound = true) : o.lowerUnbound = true := by
  cases o with
  | user b => rfl
  | trans b u => simp only [allUnbound, Bool.and_eq_true] at h; exact h.2

@[simp] theorem lower_bind (o : Orc) (c : Ctx) : (o.bind c).lowerUnbound = o.lowerUnbound := by
  cases o <;> rfl

theorem all_unbind (o : Orc) : (o.unbind).allUnbound = o.lowerUnbound := by
  cases o with
  | user b => simp [unbind, bind, allUnbound, lowerUnbound]
  | trans b u => simp [unbind, bind, allUnbound, lowerUnbound]

theorem queryB_lower (o : Orc) : ∀ c, o.lowerUnbound = true → (o.queryB c).1.lowerUnbound = true := by
  induction o with
  | user b => intro c _; rfl
  | trans b u ih =>
    intro c h
    simp only [queryB, lowerUnbound]
    rw [all_unbind]
    exact ih _ (lower_of_all u h)

theorem query_lower (o : Orc) (h : o.lowerUnbound = true) : o.query.1.lowerUnbound = true :=
  queryB_lower o _ h

theorem queryInterval_fst (o : Orc) : o.queryInterval.1 = o := by
  induction o with
  | user b => rfl
  | trans b u ih => simp only [queryInterval, ih]

theorem pushB_lower (iv : Bool) (ans : Ctx → Ctx) (o : Orc) :
    ∀ c, o.lowerUnbound = true → (o.pushB iv ans c).1.lowerUnbound = true := by
  induction o with
  | user b => intro c _; rfl
  | trans b u ih =>
    intro c h
    simp only [pushB]
    split
    · simp only [lowerUnbound]
      rw [all_unbind]
      exact ih _ (lower_of_all u h)
    · exact h

/-- the context the user oracle under a chain of transformed oracles sees in a point query is the
    `u`-chain of the bound context -/
theorem queryB_seen_user (b c : Ctx) : ((Orc.user b).queryB c).2 = c := rfl
theorem queryB_seen_trans (b c : Ctx) (u : Orc) : ((Orc.trans b u).queryB c).2 = (u.queryB c.under).2 := rfl

end Orc

namespace DeckM

/-- persistent part of the invariant: below the top level everything is unbound, sizes agree -/
def lowerOK (os : List Orc) : Prop := ∀ o ∈ os, o.lowerUnbound = true

theorem lowerOK_set (os : List Orc) (k : Nat) (x : Orc) (h : lowerOK os) (hx : x.lowerUnbound = true) :
    lowerOK (os.set k x) := by
  intro o ho
  rcases List.mem_or_eq_of_mem_set ho with h' | h'
  · exact h o h'
  · rw [h']; exact hx

theorem getD_lower (os : List Orc) (k : Nat) (h : lowerOK os) : (os.getD k default).lowerUnbound = true := by
  by_cases hk : k < os.length
  · have : os.getD k default = os[k] := by simp [List.getD, hk]
    rw [this]; exact h _ (List.getElem_mem hk)
  · have : os.getD k default = default := by simp [List.getD, Nat.not_lt.mp hk]
    rw [this]; rfl

theorem queryAll_inv (iv : Bool) : ∀ (ks : List Nat) (os : List Orc), lowerOK os →
    lowerOK (queryAll iv os ks).1 ∧ (queryAll iv os ks).1.length = os.length := by
  intro ks
  induction ks with
  | nil => intro os h; exact ⟨h, rfl⟩
  | cons k ks ih =>
    intro os h
    simp only [queryAll]
    have hx : (if iv then (os.getD k default).queryInterval else (os.getD k default).query).1.lowerUnbound = true := by
      split
      · rw [Orc.queryInterval_fst]; exact getD_lower os k h
      · exact Orc.query_lower _ (getD_lower os k h)
    have := ih (os.set k _) (lowerOK_set os k _ h hx)
    exact ⟨this.1, by rw [this.2, List.length_set]⟩

theorem pushAll_inv (iv : Bool) (ans : Nat → Ctx → Ctx) (prev : List Ctx) :
    ∀ (ks : List Nat) (os : List Orc) (nc : List Ctx), (∀ o ∈ os, o.allUnbound = true) →
      (∀ o ∈ (pushAll iv ans prev os nc ks).1, o.allUnbound = true) ∧
      (pushAll iv ans prev os nc ks).1.length = os.length ∧
      (pushAll iv ans prev os nc ks).2.1.length = nc.length := by
  intro ks
  induction ks with
  | nil => intro os nc h; exact ⟨h, rfl, rfl⟩
  | cons k ks ih =>
    intro os nc h
    simp only [pushAll]
    have hl : lowerOK os := fun o ho => Orc.lower_of_all o (h o ho)
    have hx : ((((os.getD k default).bind (prev.getD k .null)).push iv (ans k)).1.unbind).allUnbound = true := by
      rw [Orc.all_unbind]
      apply Orc.pushB_lower
      rw [Orc.lower_bind]
      exact getD_lower os k hl
    have hset : ∀ o ∈ os.set k ((((os.getD k default).bind (prev.getD k .null)).push iv (ans k)).1.unbind),
        o.allUnbound = true := by
      intro o ho
      rcases List.mem_or_eq_of_mem_set ho with h' | h'
      · exact h o h'
      · rw [h']; exact hx
    have := ih (os.set k _) (nc.set k (((os.getD k default).bind (prev.getD k .null)).push iv (ans k)).2.1) hset
    exact ⟨this.1, by rw [this.2.1, List.length_set], by rw [this.2.2, List.length_set]⟩

theorem balanced_iff (d : DeckM) :
    d.balanced = true ↔ (∀ o ∈ d.orcs, o.allUnbound = true) ∧ ∀ cs ∈ d.tapes, cs.length = d.orcs.length := by
  simp [balanced, List.all_eq_true]

theorem tapeCtx_length (d : DeckM) (t : Nat) (h : ∀ cs ∈ d.tapes, cs.length = d.orcs.length) :
    (d.tapeCtx t).length = d.orcs.length := by
  unfold tapeCtx
  by_cases ht : t < d.tapes.length
  · have : d.tapes.getD t (d.orcs.map fun _ => Ctx.null) = d.tapes[t] := by simp [List.getD, ht]
    rw [this]; exact h _ (List.getElem_mem ht)
  · have : d.tapes.getD t (d.orcs.map fun _ => Ctx.null) = (d.orcs.map fun _ => Ctx.null) := by
      simp [List.getD, Nat.not_lt.mp ht]
    rw [this, List.length_map]

theorem eval_balanced (d : DeckM) (t : Nat) (ks : List Nat) (iv : Bool) (h : d.balanced = true) :
    (d.eval t ks iv).1.balanced = true := by
  rw [balanced_iff] at h ⊢
  obtain ⟨ho, ht⟩ := h
  -- after bindOracles every oracle is still unbound below the top level
  have hb : lowerOK (d.bindOracles (d.tapeCtx t)).orcs := by
    intro o hm
    simp only [bindOracles, List.mem_map, List.mem_range] at hm
    obtain ⟨i, hi, rfl⟩ := hm
    rw [Orc.lower_bind]
    exact getD_lower d.orcs i (fun o ho' => Orc.lower_of_all o (ho o ho'))
  have hlen : (d.bindOracles (d.tapeCtx t)).orcs.length = d.orcs.length := by
    simp [bindOracles]
  obtain ⟨q1, q2⟩ := queryAll_inv iv ks _ hb
  refine ⟨?_, ?_⟩
  · intro o hm
    simp only [eval, unbindOracles, List.mem_map] at hm
    obtain ⟨o', ho', rfl⟩ := hm
    rw [Orc.all_unbind]
    exact q1 o' ho'
  · intro cs hcs
    have hcs' : cs ∈ d.tapes := by simpa [eval, unbindOracles, bindOracles] using hcs
    show cs.length = ((queryAll iv (d.bindOracles (d.tapeCtx t)).orcs ks).1.map Orc.unbind).length
    rw [List.length_map, q2, hlen]
    exact ht cs hcs'

theorem push_balanced (d : DeckM) (t : Nat) (ks : List Nat) (iv : Bool) (ans : Nat → Ctx → Ctx)
    (store : Bool) (h : d.balanced = true) : (d.push t ks iv ans store).1.balanced = true := by
  rw [balanced_iff] at h ⊢
  obtain ⟨ho, ht⟩ := h
  obtain ⟨p1, p2, p3⟩ := pushAll_inv iv ans (d.tapeCtx t) ks d.orcs (d.tapeCtx t) ho
  refine ⟨by simpa [push] using p1, ?_⟩
  intro cs hcs
  simp only [push] at hcs ⊢
  rw [p2]
  split at hcs
  · rcases List.mem_append.mp hcs with h' | h'
    · exact ht cs h'
    · simp only [List.mem_singleton] at h'
      rw [h', p3]
      exact tapeCtx_length d t ht
  · exact ht cs hcs

theorem init_balanced (orcs : List Orc) (h : lowerOK orcs) : (init orcs).balanced = true := by
  rw [balanced_iff]
  refine ⟨?_, ?_⟩
  · intro o hm
    simp only [init, List.mem_map] at hm
    obtain ⟨o', ho', rfl⟩ := hm
    rw [Orc.all_unbind]; exact h o' ho'
  · intro cs hcs
    simp only [init, List.mem_singleton] at hcs
    simp [hcs, init]

end DeckM

end Libfive.OracleM
