/-
  Helper lemmas for C03 on the uniform simplex grid (LibfiveModel/SimplexGrid.lean):
  hypothesis (H) of the lifting theorem `marching_closed` holds for the tet complex the simplex
  mesher marches on an `n1 × n2 × n3` grid of equal cells, for every sign assignment that is
  uniform on the outer boundary.

  Plan: lattice faces are compared with the lexicographic order `ptLt` (which the numbering `vid`
  realises on in-range points), canonical keys commute with translations, and the face counts of
  the grid are sums of face counts of translated copies of the reference cell; the facts about
  the reference cell (`refFacts`, decided over the regenerated tables) say that a face through
  the cell centre is shared by two tets of the cell with opposite orientation and a face inside a
  side of the cell pairs with exactly one face of the neighbouring cell's reference copy.
-/
import LibfiveModel.SimplexGrid
import LibfiveProofs.MarchingManifold

namespace Libfive.SimplexGrid
open Libfive.Marching Generated.MeshTables

/-! ### the numbering realises the lexicographic order `(z, y, x)` -/

def ptLt (p q : Pt) : Bool :=
  decide (p.2.2 < q.2.2) || (p.2.2 == q.2.2 && (decide (p.2.1 < q.2.1) || (p.2.1 == q.2.1 && decide (p.1 < q.1))))

theorem mixed_lt (W a a' b b' : Nat) (ha : a < W) (ha' : a' < W) :
    a + W * b < a' + W * b' ↔ b < b' ∨ (b = b' ∧ a < a') := by
  rcases Nat.lt_trichotomy b b' with h | h | h
  · have := Nat.mul_le_mul_left W (show b + 1 ≤ b' from h)
    rw [Nat.mul_succ] at this
    constructor
    · intro _; exact Or.inl h
    · intro _; omega
  · subst h; omega
  · have := Nat.mul_le_mul_left W (show b' + 1 ≤ b from h)
    rw [Nat.mul_succ] at this
    constructor
    · intro _; omega
    · intro h'; omega

theorem mixed_eq (W a a' b b' : Nat) (ha : a < W) (ha' : a' < W) (h : a + W * b = a' + W * b') :
    a = a' ∧ b = b' := by
  have h1 := mixed_lt W a a' b b' ha ha'
  have h2 := mixed_lt W a' a b' b ha' ha
  omega

theorem vidW_lt (W1 W2 : Nat) (p q : Pt) (hp1 : p.1 < W1) (hq1 : q.1 < W1) (hp2 : p.2.1 < W2)
    (hq2 : q.2.1 < W2) : decide (vidW W1 W2 p < vidW W1 W2 q) = ptLt p q := by
  have h1 := mixed_lt W1 p.1 q.1 (p.2.1 + W2 * p.2.2) (q.2.1 + W2 * q.2.2) hp1 hq1
  have h2 := mixed_lt W2 p.2.1 q.2.1 p.2.2 q.2.2 hp2 hq2
  have h3 := mixed_eq W2 p.2.1 q.2.1 p.2.2 q.2.2 hp2 hq2
  rw [Bool.eq_iff_iff, decide_eq_true_eq]
  simp only [ptLt, decide_eq_true_eq, Bool.or_eq_true, Bool.and_eq_true, beq_iff_eq]
  show p.1 + W1 * (p.2.1 + W2 * p.2.2) < q.1 + W1 * (q.2.1 + W2 * q.2.2) ↔ _
  rw [h1, h2]
  constructor
  · rintro (h | ⟨h, h'⟩)
    · rcases h with h | ⟨h, h'⟩
      · exact Or.inl h
      · exact Or.inr ⟨h, Or.inl h'⟩
    · obtain ⟨e1, e2⟩ := h3 h
      exact Or.inr ⟨e2, Or.inr ⟨e1, h'⟩⟩
  · rintro (h | ⟨h, h' | ⟨h', h''⟩⟩)
    · exact Or.inl (Or.inl h)
    · exact Or.inl (Or.inr ⟨h, h'⟩)
    · exact Or.inr ⟨by rw [h, h'], h''⟩

theorem vidW_inj (W1 W2 : Nat) (p q : Pt) (hp1 : p.1 < W1) (hq1 : q.1 < W1) (hp2 : p.2.1 < W2)
    (hq2 : q.2.1 < W2) (h : vidW W1 W2 p = vidW W1 W2 q) : p = q := by
  obtain ⟨e1, e⟩ := mixed_eq W1 p.1 q.1 _ _ hp1 hq1 h
  obtain ⟨e2, e3⟩ := mixed_eq W2 p.2.1 q.2.1 _ _ hp2 hq2 e
  exact Prod.ext e1 (Prod.ext e2 e3)

/-- in range for the numbering of the `n1 × n2 × _` grid -/
def InR (n1 n2 : Nat) (p : Pt) : Prop := p.1 ≤ 2 * n1 ∧ p.2.1 ≤ 2 * n2

theorem vid_lt (n1 n2 : Nat) (p q : Pt) (hp : InR n1 n2 p) (hq : InR n1 n2 q) :
    decide (vid n1 n2 p < vid n1 n2 q) = ptLt p q :=
  vidW_lt _ _ p q (by have := hp.1; omega) (by have := hq.1; omega) (by have := hp.2; omega)
    (by have := hq.2; omega)

theorem vid_inj (n1 n2 : Nat) (p q : Pt) (hp : InR n1 n2 p) (hq : InR n1 n2 q)
    (h : vid n1 n2 p = vid n1 n2 q) : p = q :=
  vidW_inj _ _ p q (by have := hp.1; omega) (by have := hq.1; omega) (by have := hp.2; omega)
    (by have := hq.2; omega) h

theorem ptLt_shift (o p q : Pt) : ptLt (addPt o p) (addPt o q) = ptLt p q := by
  have e : ∀ a b c : Nat, (a + b == a + c) = (b == c) := by
    intro a b c; rw [Bool.eq_iff_iff]; simp
  simp [ptLt, addPt, e]

/-! ### canonical keys over an arbitrary order -/

/-- `canon` of the model with the comparison as a parameter -/
def canonG {α : Type} (lt : α → α → Bool) (f : α × α × α) : (α × α × α) × Bool :=
  if lt f.1 f.2.1 then
    if lt f.2.1 f.2.2 then ((f.1, f.2.1, f.2.2), true)
    else if lt f.1 f.2.2 then ((f.1, f.2.2, f.2.1), false)
    else ((f.2.2, f.1, f.2.1), true)
  else
    if lt f.1 f.2.2 then ((f.2.1, f.1, f.2.2), false)
    else if lt f.2.1 f.2.2 then ((f.2.1, f.2.2, f.1), true)
    else ((f.2.2, f.2.1, f.1), false)

def map3 {α β : Type} (φ : α → β) (f : α × α × α) : β × β × β := (φ f.1, φ f.2.1, φ f.2.2)

theorem canon_eq_canonG (f : Face) : canon f = canonG (fun a b => decide (a < b)) f := by
  obtain ⟨a, b, c⟩ := f
  simp only [canon, canonG, decide_eq_true_eq]

theorem canonG_map {α β : Type} (lt : α → α → Bool) (lt' : β → β → Bool) (φ : α → β) (f : α × α × α)
    (h1 : lt' (φ f.1) (φ f.2.1) = lt f.1 f.2.1) (h2 : lt' (φ f.2.1) (φ f.2.2) = lt f.2.1 f.2.2)
    (h3 : lt' (φ f.1) (φ f.2.2) = lt f.1 f.2.2) :
    canonG lt' (map3 φ f) = (map3 φ (canonG lt f).1, (canonG lt f).2) := by
  simp only [canonG, map3, h1, h2, h3]
  cases lt f.1 f.2.1 <;> cases lt f.2.1 f.2.2 <;> cases lt f.1 f.2.2 <;> rfl

/-- a property of all three points survives canonicalisation -/
def All3 {α : Type} (P : α → Prop) (f : α × α × α) : Prop := P f.1 ∧ P f.2.1 ∧ P f.2.2

theorem canonG_all {α : Type} (lt : α → α → Bool) (P : α → Prop) (f : α × α × α) (h : All3 P f) :
    All3 P (canonG lt f).1 := by
  obtain ⟨h1, h2, h3⟩ := h
  simp only [canonG, All3]
  cases lt f.1 f.2.1 <;> cases lt f.2.1 f.2.2 <;> cases lt f.1 f.2.2 <;> simp [h1, h2, h3]

/-- and conversely: the key is a rearrangement of the face -/
theorem canonG_all_rev {α : Type} (lt : α → α → Bool) (P : α → Prop) (f : α × α × α)
    (h : All3 P (canonG lt f).1) : All3 P f := by
  revert h
  simp only [canonG, All3]
  cases lt f.1 f.2.1 <;> cases lt f.2.1 f.2.2 <;> cases lt f.1 f.2.2 <;> simp <;> tauto

/-! ### lattice faces -/

abbrev LFace := Pt × Pt × Pt

def canonL (f : LFace) : LFace × Bool := canonG ptLt f

def shiftF (o : Pt) (f : LFace) : LFace := map3 (addPt o) f

def facesL (t : LTet) : List LFace :=
  [(t.2.1, t.2.2.1, t.2.2.2), (t.1, t.2.2.2, t.2.2.1), (t.1, t.2.1, t.2.2.2), (t.1, t.2.2.1, t.2.1)]

def oriCountL (F : List LFace) (k : LFace) (p : Bool) : Nat :=
  (F.filter fun f => (canonL f).1 == k && (canonL f).2 == p).length

theorem canonL_shift (o : Pt) (f : LFace) :
    canonL (shiftF o f) = (shiftF o (canonL f).1, (canonL f).2) :=
  canonG_map ptLt ptLt (addPt o) f (ptLt_shift _ _ _) (ptLt_shift _ _ _) (ptLt_shift _ _ _)

theorem canon_enc (n1 n2 : Nat) (f : LFace) (h : All3 (InR n1 n2) f) :
    canon (map3 (vid n1 n2) f) = (map3 (vid n1 n2) (canonL f).1, (canonL f).2) := by
  rw [canon_eq_canonG]
  exact canonG_map ptLt _ (vid n1 n2) f (vid_lt _ _ _ _ h.1 h.2.1) (vid_lt _ _ _ _ h.2.1 h.2.2)
    (vid_lt _ _ _ _ h.1 h.2.2)

theorem map3_vid_inj (n1 n2 : Nat) (f g : LFace) (hf : All3 (InR n1 n2) f) (hg : All3 (InR n1 n2) g)
    (h : map3 (vid n1 n2) f = map3 (vid n1 n2) g) : f = g := by
  simp only [map3, Prod.mk.injEq] at h
  exact Prod.ext (vid_inj _ _ _ _ hf.1 hg.1 h.1)
    (Prod.ext (vid_inj _ _ _ _ hf.2.1 hg.2.1 h.2.1) (vid_inj _ _ _ _ hf.2.2 hg.2.2 h.2.2))

theorem addPt_inj (o p q : Pt) (h : addPt o p = addPt o q) : p = q := by
  simp only [addPt, Prod.mk.injEq] at h
  exact Prod.ext (by omega) (Prod.ext (by omega) (by omega))

theorem shiftF_inj (o : Pt) (f g : LFace) (h : shiftF o f = shiftF o g) : f = g := by
  simp only [shiftF, map3, Prod.mk.injEq] at h
  exact Prod.ext (addPt_inj _ _ _ h.1) (Prod.ext (addPt_inj _ _ _ h.2.1) (addPt_inj _ _ _ h.2.2))

/-- counting encoded faces = counting lattice faces -/
theorem oriCount_enc (n1 n2 : Nat) (FL : List LFace) (k : LFace) (p : Bool)
    (hF : ∀ f ∈ FL, All3 (InR n1 n2) f) (hk : All3 (InR n1 n2) k) :
    oriCount (FL.map (map3 (vid n1 n2))) (map3 (vid n1 n2) k) p = oriCountL FL k p := by
  unfold oriCount oriCountL
  rw [List.filter_map, List.length_map]
  congr 1
  apply List.filter_congr
  intro f hf
  simp only [Function.comp]
  rw [canon_enc n1 n2 f (hF f hf)]
  congr 1
  rw [Bool.eq_iff_iff, beq_iff_eq, beq_iff_eq]
  constructor
  · intro h
    exact map3_vid_inj n1 n2 _ _ (canonG_all _ _ _ (hF f hf)) hk h
  · intro h; rw [h]

theorem oriCountL_shift (o : Pt) (F : List LFace) (k : LFace) (p : Bool) :
    oriCountL (F.map (shiftF o)) (shiftF o k) p = oriCountL F k p := by
  unfold oriCountL
  rw [List.filter_map, List.length_map]
  congr 1
  apply List.filter_congr
  intro f _
  simp only [Function.comp]
  rw [canonL_shift]
  congr 1
  rw [Bool.eq_iff_iff, beq_iff_eq, beq_iff_eq]
  exact ⟨fun h => shiftF_inj _ _ _ h, fun h => by rw [h]⟩

theorem oriCountL_flatMap {γ : Type} (g : γ → List LFace) (l : List γ) (k : LFace) (p : Bool) :
    oriCountL (l.flatMap g) k p = (l.map fun c => oriCountL (g c) k p).sum := by
  induction l with
  | nil => rfl
  | cons c l ih =>
    simp only [List.flatMap_cons, List.map_cons, List.sum_cons, ← ih]
    simp [oriCountL, List.filter_append]

theorem oriCountL_eq_zero (F : List LFace) (k : LFace) (p : Bool)
    (h : ∀ f ∈ F, (canonL f).1 ≠ k) : oriCountL F k p = 0 := by
  unfold oriCountL
  rw [List.length_eq_zero_iff, List.filter_eq_nil_iff]
  intro f hf
  simp [h f hf]

/-! ### sums with small support -/

theorem sum_single {γ : Type} (h : γ → Nat) (l : List γ) (a : γ) (hn : l.Nodup) (ha : a ∈ l)
    (hz : ∀ x ∈ l, x ≠ a → h x = 0) : (l.map h).sum = h a := by
  induction l with
  | nil => simp at ha
  | cons y l ih =>
    rw [List.nodup_cons] at hn
    simp only [List.map_cons, List.sum_cons]
    rcases List.mem_cons.mp ha with rfl | ha'
    · rw [natsum_zero h l (fun x hx => hz x (by simp [hx]) (by rintro rfl; exact hn.1 hx))]; rfl
    · rw [ih hn.2 ha' (fun x hx => hz x (by simp [hx])),
        hz y (by simp) (by rintro rfl; exact hn.1 ha')]; omega

theorem sum_two {γ : Type} (h : γ → Nat) (l : List γ) (a b : γ) (hn : l.Nodup) (ha : a ∈ l)
    (hb : b ∈ l) (hab : a ≠ b) (hz : ∀ x ∈ l, x ≠ a → x ≠ b → h x = 0) :
    (l.map h).sum = h a + h b := by
  induction l with
  | nil => simp at ha
  | cons y l ih =>
    rw [List.nodup_cons] at hn
    simp only [List.map_cons, List.sum_cons]
    rcases List.mem_cons.mp ha with rfl | ha'
    · have hb' : b ∈ l := by
        rcases List.mem_cons.mp hb with rfl | hb'
        · exact absurd rfl hab
        · exact hb'
      rw [sum_single h l b hn.2 hb' (fun x hx hxb => hz x (by simp [hx])
        (by rintro rfl; exact hn.1 hx) hxb)]
    · rcases List.mem_cons.mp hb with rfl | hb'
      · rw [sum_single h l a hn.2 ha' (fun x hx hxa => hz x (by simp [hx]) hxa
          (by rintro rfl; exact hn.1 hx))]; omega
      · rw [ih hn.2 ha' hb' (fun x hx => hz x (by simp [hx])),
          hz y (by simp) (by rintro rfl; exact hn.1 ha') (by rintro rfl; exact hn.1 hb')]; omega

/-! ### facts about the reference cell, decided over the regenerated tables -/

def refFaces : List LFace := refCell.flatMap facesL

def hasPt (k : LFace) (m : Pt) : Bool := k.1 == m || k.2.1 == m || k.2.2 == m
def allCoord (a v : Nat) (k : LFace) : Bool :=
  coord a k.1 == v && coord a k.2.1 == v && coord a k.2.2 == v
def unitPt (a : Nat) : Pt :=
  match a with
  | 0 => (1, 0, 0)
  | 1 => (0, 1, 0)
  | _ => (0, 0, 1)
def subPt (p o : Pt) : Pt := (p.1 - o.1, p.2.1 - o.2.1, p.2.2 - o.2.2)

def cntR (k : LFace) (p : Bool) : Nat := oriCountL refFaces k p

def interiorOK (k0 : LFace) : Bool := hasPt k0 (1, 1, 1) && cntR k0 true == 1 && cntR k0 false == 1
def sideHiOK (a : Nat) (k0 : LFace) : Bool :=
  allCoord a 2 k0 && hasPt k0 (addPt (1, 1, 1) (unitPt a)) &&
   (let k1 := map3 (fun p => subPt p (dbl (unitPt a))) k0
    shiftF (dbl (unitPt a)) k1 == k0 && cntR k0 true + cntR k1 true == 1 &&
      cntR k0 false + cntR k1 false == 1)
def sideLoOK (a : Nat) (k0 : LFace) : Bool :=
  allCoord a 0 k0 && hasPt k0 (subPt (1, 1, 1) (unitPt a)) &&
   (let k1 := shiftF (dbl (unitPt a)) k0
    cntR k0 true + cntR k1 true == 1 && cntR k0 false + cntR k1 false == 1)
def faceOK (f0 : LFace) : Bool :=
  let k0 := (canonL f0).1
  interiorOK k0 || [0, 1, 2].any (fun a => sideHiOK a k0 || sideLoOK a k0)

set_option maxRecDepth 100000 in
theorem refFacts : refFaces.all faceOK = true := by decide +kernel

def le2 (p : Pt) : Prop := p.1 ≤ 2 ∧ p.2.1 ≤ 2 ∧ p.2.2 ≤ 2
instance (p : Pt) : Decidable (le2 p) := by unfold le2; infer_instance
theorem refBox : ∀ t ∈ refCell, le2 t.1 ∧ le2 t.2.1 ∧ le2 t.2.2.1 ∧ le2 t.2.2.2 := by decide +kernel

/-! ### the grid -/

theorem mem_gridCells (n1 n2 n3 : Nat) (c : Pt) :
    c ∈ gridCells n1 n2 n3 ↔ c.1 < n1 ∧ c.2.1 < n2 ∧ c.2.2 < n3 := by
  obtain ⟨i, j, k⟩ := c
  simp only [gridCells, List.mem_flatMap, List.mem_map, List.mem_range, Prod.mk.injEq]
  constructor
  · rintro ⟨i', hi, j', hj, k', hk, rfl, rfl, rfl⟩; exact ⟨hi, hj, hk⟩
  · rintro ⟨hi, hj, hk⟩; exact ⟨i, hi, j, hj, k, hk, rfl, rfl, rfl⟩

theorem gridCells_nodup (n1 n2 n3 : Nat) : (gridCells n1 n2 n3).Nodup := by
  have : gridCells n1 n2 n3 = List.product (List.range n1) (List.product (List.range n2) (List.range n3)) := by
    simp only [gridCells, List.product, List.map_flatMap, List.map_map]; rfl
  rw [this]
  exact List.Nodup.product List.nodup_range (List.Nodup.product List.nodup_range List.nodup_range)

def gridFL (n1 n2 n3 : Nat) : List LFace :=
  (gridCells n1 n2 n3).flatMap fun c => refFaces.map (shiftF (dbl c))

theorem faces_enc_shift (e : Pt → Vid) (o : Pt) (t : LTet) :
    (encTet e (shiftT o t)).faces = ((facesL t).map (shiftF o)).map (map3 e) := rfl

theorem allFaces_gridTets (n1 n2 n3 : Nat) :
    allFaces (gridTets n1 n2 n3) = (gridFL n1 n2 n3).map (map3 (vid n1 n2)) := by
  simp only [allFaces, gridTets, gridL, gridFL, refFaces, List.flatMap_map, List.map_flatMap,
    List.flatMap_assoc, List.map_map]
  rfl

/-! ### locality: which cells can contain a given face -/

def inBox (c p : Pt) : Prop :=
  2 * c.1 ≤ p.1 ∧ p.1 ≤ 2 * c.1 + 2 ∧ 2 * c.2.1 ≤ p.2.1 ∧ p.2.1 ≤ 2 * c.2.1 + 2 ∧
  2 * c.2.2 ≤ p.2.2 ∧ p.2.2 ≤ 2 * c.2.2 + 2

theorem inBox_shift (c q : Pt) (h : le2 q) : inBox c (addPt (dbl c) q) := by
  obtain ⟨h1, h2, h3⟩ := h
  simp only [inBox, addPt, dbl]; omega

theorem refFaces_le2 : ∀ f ∈ refFaces, All3 le2 f := by
  intro f hf
  simp only [refFaces, List.mem_flatMap] at hf
  obtain ⟨t, ht, hf⟩ := hf
  obtain ⟨a, b, c, d⟩ := refBox t ht
  simp only [facesL, List.mem_cons, List.not_mem_nil, or_false] at hf
  rcases hf with rfl | rfl | rfl | rfl <;> exact ⟨by assumption, by assumption, by assumption⟩

theorem cell_count_zero (c : Pt) (k : LFace) (p : Bool) (h : ¬ All3 (inBox c) k) :
    oriCountL (refFaces.map (shiftF (dbl c))) k p = 0 := by
  apply oriCountL_eq_zero
  intro f hf hk
  obtain ⟨f0, hf0, rfl⟩ := List.mem_map.mp hf
  apply h
  rw [← hk]
  obtain ⟨h1, h2, h3⟩ := refFaces_le2 f0 hf0
  exact canonG_all ptLt _ _ ⟨inBox_shift _ _ h1, inBox_shift _ _ h2, inBox_shift _ _ h3⟩

theorem all3_hasPt {P : Pt → Prop} (k : LFace) (m : Pt) (h : All3 P k) (hm : hasPt k m = true) :
    P m := by
  simp only [hasPt, Bool.or_eq_true, beq_iff_eq] at hm
  rcases hm with (rfl | rfl) | rfl
  exacts [h.1, h.2.1, h.2.2]

theorem hasPt_shift (o : Pt) (k : LFace) (m : Pt) (h : hasPt k m = true) :
    hasPt (shiftF o k) (addPt o m) = true := by
  simp only [hasPt, Bool.or_eq_true, beq_iff_eq] at h ⊢
  rcases h with (rfl | rfl) | rfl
  · exact Or.inl (Or.inl rfl)
  · exact Or.inl (Or.inr rfl)
  · exact Or.inr rfl

theorem box_interior (c c0 : Pt) (h : inBox c (addPt (dbl c0) (1, 1, 1))) : c = c0 := by
  obtain ⟨c1, c2, c3⟩ := c
  obtain ⟨d1, d2, d3⟩ := c0
  simp only [inBox, addPt, dbl] at h
  simp only [Prod.mk.injEq]; omega

theorem box_hi (a : Nat) (c c0 : Pt)
    (h : inBox c (addPt (dbl c0) (addPt (1, 1, 1) (unitPt a)))) : c = c0 ∨ c = addPt c0 (unitPt a) := by
  obtain ⟨c1, c2, c3⟩ := c
  obtain ⟨d1, d2, d3⟩ := c0
  rcases a with _ | _ | a <;> simp only [inBox, addPt, dbl, unitPt] at h <;>
    simp only [addPt, unitPt, Prod.mk.injEq] <;> omega

theorem shiftF_shiftF (o o' : Pt) (f : LFace) : shiftF o (shiftF o' f) = shiftF (addPt o o') f := by
  simp only [shiftF, map3, addPt, Nat.add_assoc]

theorem dbl_add (c u : Pt) : addPt (dbl c) (dbl u) = dbl (addPt c u) := by
  simp only [addPt, dbl, Nat.mul_add]

theorem grid_count_sum (n1 n2 n3 : Nat) (k : LFace) (p : Bool) :
    oriCountL (gridFL n1 n2 n3) k p =
      ((gridCells n1 n2 n3).map fun c => oriCountL (refFaces.map (shiftF (dbl c))) k p).sum :=
  oriCountL_flatMap _ _ _ _

/-- a face through the cell centre is counted in its own cell only -/
theorem count_interior (n1 n2 n3 : Nat) (c0 : Pt) (hc0 : c0 ∈ gridCells n1 n2 n3) (k0 : LFace)
    (hm : hasPt k0 (1, 1, 1) = true) (p : Bool) :
    oriCountL (gridFL n1 n2 n3) (shiftF (dbl c0) k0) p = cntR k0 p := by
  rw [grid_count_sum, sum_single _ _ c0 (gridCells_nodup _ _ _) hc0, oriCountL_shift]; rfl
  intro c _ hne
  apply cell_count_zero
  intro hbox
  exact hne (box_interior c c0 (all3_hasPt _ _ hbox (hasPt_shift _ _ _ hm)))

/-- a face inside the square between the cells `c` and `c + u` is counted in those two only -/
theorem count_pair (n1 n2 n3 : Nat) (a : Nat) (c : Pt) (hc : c ∈ gridCells n1 n2 n3)
    (hc' : addPt c (unitPt a) ∈ gridCells n1 n2 n3) (k1 : LFace)
    (hm : hasPt (shiftF (dbl (unitPt a)) k1) (addPt (1, 1, 1) (unitPt a)) = true) (p : Bool) :
    oriCountL (gridFL n1 n2 n3) (shiftF (dbl c) (shiftF (dbl (unitPt a)) k1)) p =
      cntR (shiftF (dbl (unitPt a)) k1) p + cntR k1 p := by
  have hne : c ≠ addPt c (unitPt a) := by
    obtain ⟨c1, c2, c3⟩ := c
    rcases a with _ | _ | a <;> simp only [addPt, unitPt, ne_eq, Prod.mk.injEq] <;> omega
  rw [grid_count_sum, sum_two _ _ c (addPt c (unitPt a)) (gridCells_nodup _ _ _) hc hc' hne,
    oriCountL_shift]
  · congr 1
    rw [shiftF_shiftF, dbl_add, oriCountL_shift]; rfl
  · intro x _ h1 h2
    apply cell_count_zero
    intro hbox
    rcases box_hi a x c (all3_hasPt _ _ hbox (hasPt_shift _ _ _ hm)) with h | h
    · exact h1 h
    · exact h2 h

/-! ### faces on the outer boundary are sign-uniform -/

theorem uniform_of_boundary (n1 n2 n3 : Nat) (s : Vid → Bool) (hb : BoundaryUniform n1 n2 n3 s)
    (k : LFace) (hg : All3 (inGrid n1 n2 n3) k) (ho : All3 (onBoundary n1 n2 n3) k) :
    faceUniform s (map3 (vid n1 n2) k) = true := by
  obtain ⟨b, hb⟩ := hb
  simp only [faceUniform, map3, hb _ hg.1 ho.1, hb _ hg.2.1 ho.2.1, hb _ hg.2.2 ho.2.2]
  simp

theorem inGrid_shift (n1 n2 n3 : Nat) (c0 : Pt) (hc0 : c0 ∈ gridCells n1 n2 n3) (k0 : LFace)
    (hk0 : All3 le2 k0) : All3 (inGrid n1 n2 n3) (shiftF (dbl c0) k0) := by
  obtain ⟨h1, h2, h3⟩ := (mem_gridCells _ _ _ _).1 hc0
  obtain ⟨⟨a1, a2, a3⟩, ⟨b1, b2, b3⟩, ⟨d1, d2, d3⟩⟩ := hk0
  simp only [All3, inGrid, shiftF, map3, addPt, dbl]
  omega

theorem boundary_hi (n1 n2 n3 a : Nat) (c0 : Pt) (k0 : LFace) (h : allCoord a 2 k0 = true)
    (hc : coord a c0 + 1 = coord a (n1, n2, n3)) :
    All3 (onBoundary n1 n2 n3) (shiftF (dbl c0) k0) := by
  simp only [allCoord, Bool.and_eq_true, beq_iff_eq] at h
  obtain ⟨⟨h1, h2⟩, h3⟩ := h
  rcases a with _ | _ | a <;> simp only [coord] at h1 h2 h3 hc <;>
    simp only [All3, onBoundary, shiftF, map3, addPt, dbl] <;> omega

theorem boundary_lo (n1 n2 n3 a : Nat) (c0 : Pt) (k0 : LFace) (h : allCoord a 0 k0 = true)
    (hc : coord a c0 = 0) : All3 (onBoundary n1 n2 n3) (shiftF (dbl c0) k0) := by
  simp only [allCoord, Bool.and_eq_true, beq_iff_eq] at h
  obtain ⟨⟨h1, h2⟩, h3⟩ := h
  rcases a with _ | _ | a <;> simp only [coord] at h1 h2 h3 hc <;>
    simp only [All3, onBoundary, shiftF, map3, addPt, dbl] <;> omega

/-! ### the count of every non-uniform face of the grid -/

section count
variable (n1 n2 n3 : Nat) (s : Vid → Bool) (hb : BoundaryUniform n1 n2 n3 s)
  (c0 : Pt) (hc0 : c0 ∈ gridCells n1 n2 n3) (k0 : LFace) (hk0 : All3 le2 k0)
  (hu : faceUniform s (map3 (vid n1 n2) (shiftF (dbl c0) k0)) = false)
include hb hc0 hk0 hu

theorem count_of_sideHi (a : Nat) (h : sideHiOK a k0 = true) (p : Bool) :
    oriCountL (gridFL n1 n2 n3) (shiftF (dbl c0) k0) p = 1 := by
  simp only [sideHiOK, Bool.and_eq_true, beq_iff_eq] at h
  obtain ⟨⟨hall, hpt⟩, ⟨hk, ht⟩, hf⟩ := h
  obtain ⟨g1, g2, g3⟩ := (mem_gridCells _ _ _ _).1 hc0
  by_cases hin : coord a c0 + 1 < coord a (n1, n2, n3)
  · have hc1 : addPt c0 (unitPt a) ∈ gridCells n1 n2 n3 := by
      rw [mem_gridCells]
      rcases a with _ | _ | a <;> simp only [coord] at hin <;> simp only [addPt, unitPt] <;> omega
    rw [← hk] at hpt ⊢
    rw [count_pair n1 n2 n3 a c0 hc0 hc1 _ hpt p, hk]
    cases p
    · exact hf
    · exact ht
  · exfalso
    have hc : coord a c0 + 1 = coord a (n1, n2, n3) := by
      rcases a with _ | _ | a <;> simp only [coord] at hin ⊢ <;> omega
    have := uniform_of_boundary n1 n2 n3 s hb _ (inGrid_shift n1 n2 n3 c0 hc0 k0 hk0)
      (boundary_hi n1 n2 n3 a c0 k0 hall hc)
    rw [this] at hu; exact Bool.noConfusion hu

theorem count_of_sideLo (a : Nat) (h : sideLoOK a k0 = true) (p : Bool) :
    oriCountL (gridFL n1 n2 n3) (shiftF (dbl c0) k0) p = 1 := by
  simp only [sideLoOK, Bool.and_eq_true, beq_iff_eq] at h
  obtain ⟨⟨hall, hpt⟩, ht, hf⟩ := h
  obtain ⟨g1, g2, g3⟩ := (mem_gridCells _ _ _ _).1 hc0
  by_cases hin : 0 < coord a c0
  · obtain ⟨c1, hc1, rfl⟩ : ∃ c1, c1 ∈ gridCells n1 n2 n3 ∧ addPt c1 (unitPt a) = c0 := by
      refine ⟨subPt c0 (unitPt a), ?_, ?_⟩
      · rw [mem_gridCells]
        rcases a with _ | _ | a <;> simp only [subPt, unitPt] <;> omega
      · obtain ⟨d1, d2, d3⟩ := c0
        rcases a with _ | _ | a <;> simp only [coord] at hin <;>
          simp only [subPt, addPt, unitPt, Prod.mk.injEq] <;> omega
    have hpt' : hasPt (shiftF (dbl (unitPt a)) k0) (addPt (1, 1, 1) (unitPt a)) = true := by
      have := hasPt_shift (dbl (unitPt a)) _ _ hpt
      rcases a with _ | _ | a <;> exact this
    rw [← dbl_add, ← shiftF_shiftF, count_pair n1 n2 n3 a c1 hc1 hc0 _ hpt' p]
    cases p
    · omega
    · omega
  · exfalso
    have := uniform_of_boundary n1 n2 n3 s hb _ (inGrid_shift n1 n2 n3 c0 hc0 k0 hk0)
      (boundary_lo n1 n2 n3 a c0 k0 hall (by omega))
    rw [this] at hu; exact Bool.noConfusion hu

theorem count_of_faceOK (h : (interiorOK k0 || [0, 1, 2].any (fun a => sideHiOK a k0 || sideLoOK a k0)) = true)
    (p : Bool) : oriCountL (gridFL n1 n2 n3) (shiftF (dbl c0) k0) p = 1 := by
  simp only [List.any_cons, List.any_nil, Bool.or_false, Bool.or_eq_true] at h
  rcases h with h | (h | h) | (h | h) | (h | h)
  · simp only [interiorOK, Bool.and_eq_true, beq_iff_eq] at h
    rw [count_interior n1 n2 n3 c0 hc0 k0 h.1.1 p]
    cases p
    · exact h.2
    · exact h.1.2
  · exact count_of_sideHi n1 n2 n3 s hb c0 hc0 k0 hk0 hu 0 h p
  · exact count_of_sideLo n1 n2 n3 s hb c0 hc0 k0 hk0 hu 0 h p
  · exact count_of_sideHi n1 n2 n3 s hb c0 hc0 k0 hk0 hu 1 h p
  · exact count_of_sideLo n1 n2 n3 s hb c0 hc0 k0 hk0 hu 1 h p
  · exact count_of_sideHi n1 n2 n3 s hb c0 hc0 k0 hk0 hu 2 h p
  · exact count_of_sideLo n1 n2 n3 s hb c0 hc0 k0 hk0 hu 2 h p

end count

theorem inR_of_inGrid (n1 n2 n3 : Nat) (f : LFace) (h : All3 (inGrid n1 n2 n3) f) :
    All3 (InR n1 n2) f := ⟨⟨h.1.1, h.1.2.1⟩, ⟨h.2.1.1, h.2.1.2.1⟩, ⟨h.2.2.1, h.2.2.2.1⟩⟩

theorem mem_gridFL (n1 n2 n3 : Nat) (f : LFace) (h : f ∈ gridFL n1 n2 n3) :
    ∃ c0 ∈ gridCells n1 n2 n3, ∃ f0 ∈ refFaces, f = shiftF (dbl c0) f0 := by
  simp only [gridFL, List.mem_flatMap, List.mem_map] at h
  obtain ⟨c0, hc0, f0, hf0, rfl⟩ := h
  exact ⟨c0, hc0, f0, hf0, rfl⟩

theorem gridFL_inGrid (n1 n2 n3 : Nat) (f : LFace) (h : f ∈ gridFL n1 n2 n3) :
    All3 (inGrid n1 n2 n3) f := by
  obtain ⟨c0, hc0, f0, hf0, rfl⟩ := mem_gridFL n1 n2 n3 f h
  exact inGrid_shift n1 n2 n3 c0 hc0 f0 (refFaces_le2 f0 hf0)

/-- **(H) for the uniform grid** -/
theorem gridTets_hypH (n1 n2 n3 : Nat) (s : Vid → Bool) (hb : BoundaryUniform n1 n2 n3 s) :
    HypH s (allFaces (gridTets n1 n2 n3)) := by
  intro k hu hk
  rw [allFaces_gridTets] at hk ⊢
  simp only [List.mem_map] at hk
  obtain ⟨g, ⟨fL, hfL, rfl⟩, rfl⟩ := hk
  obtain ⟨c0, hc0, f0, hf0, rfl⟩ := mem_gridFL n1 n2 n3 fL hfL
  have hle := refFaces_le2 f0 hf0
  have hin := inGrid_shift n1 n2 n3 c0 hc0 f0 hle
  rw [canon_enc n1 n2 _ (inR_of_inGrid n1 n2 n3 _ hin), canonL_shift] at hu ⊢
  have hk0 : All3 le2 (canonL f0).1 := canonG_all ptLt _ _ hle
  have hin' := inGrid_shift n1 n2 n3 c0 hc0 _ hk0
  have hF : ∀ f ∈ gridFL n1 n2 n3, All3 (InR n1 n2) f := fun f hf =>
    inR_of_inGrid n1 n2 n3 f (gridFL_inGrid n1 n2 n3 f hf)
  have hOK := List.all_eq_true.mp refFacts f0 hf0
  simp only [oriCount_enc n1 n2 _ _ _ hF (inR_of_inGrid n1 n2 n3 _ hin')]
  exact ⟨count_of_faceOK n1 n2 n3 s hb c0 hc0 _ hk0 hu hOK true,
    count_of_faceOK n1 n2 n3 s hb c0 hc0 _ hk0 hu hOK false⟩

/-! ### the side hypotheses of the edge-manifold clause -/

def vertsL (t : LTet) : List Pt := [t.1, t.2.1, t.2.2.1, t.2.2.2]

theorem verts_enc (e : Pt → Vid) (t : LTet) : (encTet e t).verts = (vertsL t).map e := rfl

theorem vertsL_shift (o : Pt) (t : LTet) : vertsL (shiftT o t) = (vertsL t).map (addPt o) := rfl

theorem refDistinct : ∀ t ∈ refCell, (vertsL t).Nodup := by decide +kernel

/-- every tet of the cell ends in the cell vertex -/
theorem refCentre : ∀ t ∈ refCell, t.2.2.2 = (1, 1, 1) := by decide +kernel

/-- two tets of the cell at different positions of the list differ in a vertex -/
theorem refSetsDistinct : refCell.Pairwise fun t t' => ∃ v ∈ vertsL t, v ∉ vertsL t' := by
  decide +kernel

theorem mem_gridL (n1 n2 n3 : Nat) (t : LTet) (h : t ∈ gridL n1 n2 n3) :
    ∃ c0 ∈ gridCells n1 n2 n3, ∃ t0 ∈ refCell, t = shiftT (dbl c0) t0 := by
  simp only [gridL, List.mem_flatMap, List.mem_map] at h
  obtain ⟨c0, hc0, t0, ht0, rfl⟩ := h
  exact ⟨c0, hc0, t0, ht0, rfl⟩

theorem inR_shift (n1 n2 n3 : Nat) (c0 : Pt) (hc0 : c0 ∈ gridCells n1 n2 n3) (q : Pt) (hq : le2 q) :
    InR n1 n2 (addPt (dbl c0) q) := by
  obtain ⟨h1, h2, h3⟩ := (mem_gridCells _ _ _ _).1 hc0
  obtain ⟨a1, a2, a3⟩ := hq
  simp only [InR, addPt, dbl]; omega

theorem refVerts_le2 (t : LTet) (ht : t ∈ refCell) : ∀ q ∈ vertsL t, le2 q := by
  obtain ⟨a, b, c, d⟩ := refBox t ht
  intro q hq
  simp only [vertsL, List.mem_cons, List.not_mem_nil, or_false] at hq
  rcases hq with rfl | rfl | rfl | rfl <;> assumption

theorem gridTets_distinct (n1 n2 n3 : Nat) : ∀ t ∈ gridTets n1 n2 n3, t.distinct := by
  intro t ht
  simp only [gridTets, List.mem_map] at ht
  obtain ⟨tl, htl, rfl⟩ := ht
  obtain ⟨c0, hc0, t0, ht0, rfl⟩ := mem_gridL n1 n2 n3 tl htl
  have hnd := refDistinct t0 ht0
  have hle := refVerts_le2 t0 ht0
  have hnd' : ((vertsL t0).map fun q => vid n1 n2 (addPt (dbl c0) q)).Nodup := by
    apply List.Nodup.map_on _ hnd
    intro x hx y hy hxy
    exact addPt_inj _ _ _ (vid_inj n1 n2 _ _ (inR_shift n1 n2 n3 c0 hc0 x (hle x hx))
      (inR_shift n1 n2 n3 c0 hc0 y (hle y hy)) hxy)
  simp only [vertsL, List.map_cons, List.map_nil, List.nodup_cons, List.mem_cons, List.not_mem_nil,
    or_false, not_or, List.nodup_nil, and_true, not_false_eq_true] at hnd'
  obtain ⟨⟨h1, h2, h3⟩, ⟨h4, h5⟩, h6⟩ := hnd'
  exact ⟨h1, h2, h3, h4, h5, h6⟩

theorem gridTets_setsDistinct (n1 n2 n3 : Nat) : TetSetsDistinct (gridTets n1 n2 n3) := by
  unfold TetSetsDistinct gridTets gridL
  rw [List.pairwise_map, List.pairwise_flatMap]
  constructor
  · intro c0 hc0
    rw [List.pairwise_map]
    refine List.Pairwise.imp_of_mem ?_ refSetsDistinct
    intro t t' ht ht' ⟨v, hv, hv'⟩ hperm
    apply hv'
    have hmem : vid n1 n2 (addPt (dbl c0) v) ∈ (encTet (vid n1 n2) (shiftT (dbl c0) t')).verts := by
      apply hperm.subset
      rw [verts_enc, vertsL_shift, List.map_map]
      exact List.mem_map_of_mem hv
    rw [verts_enc, vertsL_shift, List.map_map, List.mem_map] at hmem
    obtain ⟨w, hw, hvw⟩ := hmem
    have := addPt_inj _ _ _ (vid_inj n1 n2 _ _
      (inR_shift n1 n2 n3 c0 hc0 w (refVerts_le2 t' ht' w hw))
      (inR_shift n1 n2 n3 c0 hc0 v (refVerts_le2 t ht v hv)) hvw)
    rw [← this]; exact hw
  · have hpw : (gridCells n1 n2 n3).Pairwise (· ≠ ·) := gridCells_nodup n1 n2 n3
    refine List.Pairwise.imp_of_mem ?_ hpw
    intro c c' hc hc' hne t ht t' ht' hperm
    apply hne
    obtain ⟨t0, ht0, rfl⟩ := List.mem_map.mp ht
    obtain ⟨t0', ht0', rfl⟩ := List.mem_map.mp ht'
    have hmem : vid n1 n2 (addPt (dbl c) (1, 1, 1)) ∈ (encTet (vid n1 n2) (shiftT (dbl c') t0')).verts := by
      apply hperm.subset
      rw [verts_enc, vertsL_shift, List.map_map]
      have : (1, 1, 1) ∈ vertsL t0 := by
        rw [← refCentre t0 ht0]; simp [vertsL]
      exact List.mem_map_of_mem this
    rw [verts_enc, vertsL_shift, List.map_map, List.mem_map] at hmem
    obtain ⟨w, hw, hvw⟩ := hmem
    have hwle := refVerts_le2 t0' ht0' w hw
    have := vid_inj n1 n2 _ _ (inR_shift n1 n2 n3 c' hc' w hwle)
      (inR_shift n1 n2 n3 c hc (1, 1, 1) (by decide)) hvw
    obtain ⟨w1, w2, w3⟩ := w
    obtain ⟨c1, c2, c3⟩ := c
    obtain ⟨d1, d2, d3⟩ := c'
    obtain ⟨a1, a2, a3⟩ := hwle
    simp only [addPt, dbl, Prod.mk.injEq] at this a1 a2 a3 ⊢
    omega

/-! ### the per-edge loop order of the code is a permutation of the per-cell order -/

section PermOrder
open List

theorem flatMap_comm {α β γ : Type} (l1 : List α) (l2 : List β) (f : α → β → List γ) :
    (l1.flatMap fun a => l2.flatMap (f a)) ~ (l2.flatMap fun b => l1.flatMap fun a => f a b) := by
  induction l1 with
  | nil => simp
  | cons a l1 ih =>
    simp only [List.flatMap_cons]
    exact (List.Perm.append_left _ ih).trans (List.flatMap_append_perm l2 _ _)

theorem flatMap_congr' {α β : Type} (l : List α) (f g : α → List β) (h : ∀ a ∈ l, f a = g a) :
    l.flatMap f = l.flatMap g := by
  induction l with
  | nil => rfl
  | cons a l ih =>
    simp only [List.flatMap_cons]
    rw [h a (by simp), ih (fun x hx => h x (by simp [hx]))]

def box3 {β : Type} (m1 m2 m3 : Nat) (G : Nat → Nat → Nat → List β) : List β :=
  (List.range m1).flatMap fun i => (List.range m2).flatMap fun j => (List.range m3).flatMap fun k => G i j k

theorem box3_rot {β : Type} (m1 m2 m3 : Nat) (G : Nat → Nat → Nat → List β) :
    box3 m1 m2 m3 G ~ box3 m2 m3 m1 (fun j k i => G i j k) := by
  unfold box3
  refine (flatMap_comm _ _ _).trans ?_
  exact List.Perm.flatMap_left _ fun j _ => flatMap_comm _ _ _

theorem box3_pull {β γ : Type} (m1 m2 m3 : Nat) (L : List γ) (F : Nat → Nat → Nat → γ → List β) :
    box3 m1 m2 m3 (fun i j k => L.flatMap (F i j k)) ~
      L.flatMap fun c => box3 m1 m2 m3 fun i j k => F i j k c := by
  unfold box3
  refine (List.Perm.flatMap_left _ fun i _ => ?_).trans (flatMap_comm _ _ _)
  refine (List.Perm.flatMap_left _ fun j _ => ?_).trans (flatMap_comm _ _ _)
  exact flatMap_comm _ _ _

theorem range_shift {β : Type} (n b : Nat) (hb : b ≤ 1) (g : Nat → List β) :
    (List.range (n + 1)).flatMap (fun q => if 1 ≤ q + b ∧ q + b ≤ n then g (q + b - 1) else []) =
      (List.range n).flatMap g := by
  have hb' : b = 0 ∨ b = 1 := by omega
  rcases hb' with rfl | rfl
  · rw [List.range_succ_eq_map, List.flatMap_cons, List.flatMap_map]
    rw [if_neg (by omega), List.nil_append]
    apply flatMap_congr'
    intro q hq
    have := List.mem_range.mp hq
    rw [if_pos (by omega)]; rfl
  · rw [List.range_succ, List.flatMap_append]
    simp only [List.flatMap_cons, List.flatMap_nil, List.append_nil]
    rw [if_neg (by omega), List.append_nil]
    apply flatMap_congr'
    intro q hq
    have := List.mem_range.mp hq
    rw [if_pos (by omega)]; rfl

theorem flatMap_const_nil {α β : Type} (l : List α) : l.flatMap (fun _ => ([] : List β)) = [] := by
  induction l with
  | nil => rfl
  | cons a l ih => simp [ih]

theorem edge_box {β : Type} (nA nQ nR bq br : Nat) (hbq : bq ≤ 1) (hbr : br ≤ 1)
    (G : Nat → Nat → Nat → List β) :
    box3 nA (nQ + 1) (nR + 1) (fun a q r =>
        if 1 ≤ q + bq ∧ q + bq ≤ nQ ∧ 1 ≤ r + br ∧ r + br ≤ nR then G a (q + bq - 1) (r + br - 1)
        else []) = box3 nA nQ nR G := by
  unfold box3
  apply flatMap_congr'
  intro a _
  have inner : ∀ q, ((List.range (nR + 1)).flatMap fun r =>
      if 1 ≤ q + bq ∧ q + bq ≤ nQ ∧ 1 ≤ r + br ∧ r + br ≤ nR then G a (q + bq - 1) (r + br - 1)
      else []) =
      if 1 ≤ q + bq ∧ q + bq ≤ nQ then (List.range nR).flatMap (G a (q + bq - 1)) else [] := by
    intro q
    by_cases h : 1 ≤ q + bq ∧ q + bq ≤ nQ
    · rw [if_pos h, ← range_shift nR br hbr]
      apply flatMap_congr'
      intro r _
      simp only [h.1, h.2, true_and]
    · rw [if_neg h]
      have : ∀ r, (if 1 ≤ q + bq ∧ q + bq ≤ nQ ∧ 1 ≤ r + br ∧ r + br ≤ nR then
          G a (q + bq - 1) (r + br - 1) else []) = [] := fun r => if_neg fun h' => h ⟨h'.1, h'.2.1⟩
      simp only [this]
      exact flatMap_const_nil _
  simp only [inner]
  exact range_shift nQ bq hbq fun q' => (List.range nR).flatMap (G a q')

/-- the tets of the cell `cell` at position `c` around one of its `A`-edges -/
def cellEdgeTets (A c : Nat) (cell : Pt) : List LTet :=
  (edgeCellTets simplexCellVertices simplexTetVertices A c).map (shiftT (dbl cell))

theorem axis_perm (A nA nQ nR : Nat) :
    box3 nA (nQ + 1) (nR + 1)
        (fun a q r => edgeTets simplexCellVertices simplexTetVertices nQ nR A a q r) ~
      cellOrder.flatMap fun c => box3 nA nQ nR fun a q r => cellEdgeTets A c (frame A (a, q, r)) := by
  unfold edgeTets
  refine (box3_pull _ _ _ _ _).trans (List.Perm.of_eq ?_)
  apply flatMap_congr'
  intro c hc
  have hc' : c % 2 ≤ 1 ∧ c / 2 ≤ 1 := by
    simp only [cellOrder, List.mem_cons, List.not_mem_nil, or_false] at hc
    rcases hc with rfl | rfl | rfl | rfl <;> decide
  exact edge_box nA nQ nR (c % 2) (c / 2) hc'.1 hc'.2 fun a q r => cellEdgeTets A c (frame A (a, q, r))

theorem cells_flatMap {β : Type} (n1 n2 n3 : Nat) (H : Pt → List β) :
    (gridCells n1 n2 n3).flatMap H = box3 n1 n2 n3 fun i j k => H (i, j, k) := by
  simp only [gridCells, box3, List.flatMap_assoc, List.flatMap_map]

theorem gridL_perm_axes (n1 n2 n3 : Nat) :
    gridL n1 n2 n3 ~ [0, 1, 2].flatMap fun A => cellOrder.flatMap fun c =>
      box3 n1 n2 n3 fun i j k => cellEdgeTets A c (i, j, k) := by
  have h : gridL n1 n2 n3 = (gridCells n1 n2 n3).flatMap fun cell =>
      [0, 1, 2].flatMap fun A => cellOrder.flatMap fun c => cellEdgeTets A c cell := by
    simp only [gridL, refCell, refCellOf, List.map_flatMap, cellEdgeTets]
  rw [h]
  refine (flatMap_comm _ _ _).trans (List.Perm.flatMap_left _ fun A _ => ?_)
  refine (flatMap_comm _ _ _).trans (List.Perm.flatMap_left _ fun c _ => ?_)
  rw [cells_flatMap]

theorem gridLByEdge_perm (n1 n2 n3 : Nat) : gridLByEdge n1 n2 n3 ~ gridL n1 n2 n3 := by
  refine List.Perm.trans ?_ (gridL_perm_axes n1 n2 n3).symm
  unfold gridLByEdge
  apply List.Perm.flatMap_left
  intro A hA
  simp only [List.mem_cons, List.not_mem_nil, or_false] at hA
  rcases hA with rfl | rfl | rfl
  · exact axis_perm 0 n1 n2 n3
  · refine (axis_perm 1 n2 n3 n1).trans (List.Perm.flatMap_left _ fun c _ => ?_)
    exact (box3_rot n1 n2 n3 fun i j k => cellEdgeTets 1 c (i, j, k)).symm
  · refine (axis_perm 2 n3 n1 n2).trans (List.Perm.flatMap_left _ fun c _ => ?_)
    exact ((box3_rot n1 n2 n3 fun i j k => cellEdgeTets 2 c (i, j, k)).trans (box3_rot _ _ _ _)).symm

theorem gridTetsByEdge_perm (n1 n2 n3 : Nat) : gridTetsByEdge n1 n2 n3 ~ gridTets n1 n2 n3 :=
  (gridLByEdge_perm n1 n2 n3).map _

end PermOrder

/-! ### (H) and the side hypotheses do not depend on the order of the tets -/

theorem hypH_perm (s : Vid → Bool) {F F' : List Face} (hp : F.Perm F') (h : HypH s F') : HypH s F := by
  intro k hu hk
  have hk' : k ∈ F'.map (fun f => (canon f).1) := (hp.map _).mem_iff.mp hk
  have := h k hu hk'
  unfold oriCount at this ⊢
  rw [(hp.filter _).length_eq, (hp.filter _).length_eq]
  exact this

theorem allFaces_perm {ts ts' : List Tet} (hp : ts.Perm ts') : (allFaces ts).Perm (allFaces ts') :=
  hp.flatMap_right _

theorem tetSetsDistinct_perm {ts ts' : List Tet} (hp : ts.Perm ts') (h : TetSetsDistinct ts') :
    TetSetsDistinct ts := by
  unfold TetSetsDistinct at h ⊢
  exact (hp.pairwise_iff (fun {a b} hab hba => hab hba.symm)).mpr h

end Libfive.SimplexGrid
