/-
  C08 helper lemmas, part 4: an isomorphic copy denotes the same function under every
  interpretation of the opcodes.  Core Lean only.
-/
import LibfiveProofs.SerializeTree

namespace Libfive.Serial

/-- an arbitrary interpretation of the opcodes over `α`; leaves (x, y, z, free variables) are
    interpreted by opcode and *stream position* (the only name a free variable has in a file) -/
structure Interp (α : Type) where
  const : UInt32 → α
  leaf : Op → Option Nat → α
  un : Op → α → α
  bin : Op → α → α → α
  dflt : α

/-- unfolding of the DAG below `n` to depth `fuel` -/
def evalAt {α : Type} (I : Interp α) (heap : NodeId → Node) (pos : NodeId → Option Nat) : Nat → NodeId → α
  | 0, _ => I.dflt
  | f + 1, n =>
    let nd := heap n
    if nd.op = Op.constant then I.const nd.value
    else match nd.op.args with
      | some 1 => I.un nd.op (evalAt I heap pos f nd.lhs)
      | some 2 => I.bin nd.op (evalAt I heap pos f nd.lhs) (evalAt I heap pos f nd.rhs)
      | _ => I.leaf nd.op (pos n)

theorem posOf_unique : ∀ (l : List NodeId) (x : NodeId) (p : Nat), l[p]? = some x →
    (∀ q : Nat, l[q]? = some x → q = p) → posOf l x = some p := by
  intro l
  induction l with
  | nil => intro x p h; simp at h
  | cons a r ih =>
    intro x p h hu
    by_cases ha : a = x
    · have : 0 = p := hu 0 (by simp [ha])
      subst this; simp [posOf, ha]
    · cases p with
      | zero => simp at h; exact absurd h ha
      | succ p' =>
        have h' : r[p']? = some x := by simpa using h
        have hu' : ∀ q : Nat, r[q]? = some x → q = p' := by
          intro q hq
          have := hu (q + 1) (by simpa using hq)
          omega
        simp [posOf, ha, ih x p' h' hu']

theorem nodup_get_unique : ∀ (l : List NodeId), l.Nodup → ∀ (x : NodeId) (p q : Nat),
    l[p]? = some x → l[q]? = some x → q = p := by
  intro l
  induction l with
  | nil => intro _ x p q h; simp at h
  | cons a r ih =>
    intro hnd x p q hp hq
    have hnd' := List.nodup_cons.mp hnd
    cases p with
    | zero =>
      cases q with
      | zero => rfl
      | succ q' =>
        simp at hp; subst hp
        have : a ∈ r := List.mem_of_getElem? (by simpa using hq)
        exact absurd this hnd'.1
    | succ p' =>
      cases q with
      | zero =>
        simp at hq; subst hq
        have : a ∈ r := List.mem_of_getElem? (by simpa using hp)
        exact absurd this hnd'.1
      | succ q' =>
        have := ih hnd'.2 x p' q' (by simpa using hp) (by simpa using hq)
        omega

/-- **same denotation.** Under the invariant, the original node at stream position `p` and the
    loader's node at position `p` unfold to the same value, for every interpretation and depth. -/
theorem evalAt_copy {α : Type} (I : Interp α) {heap : NodeId → Node} {ids trees : List NodeId} {lheap : List Node}
    (hinv : Inv heap ids lheap trees) :
    ∀ (f p : Nat) (n m : NodeId), ids[p]? = some n → trees[p]? = some m →
      evalAt I heap (posOf ids) f n = evalAt I (hget lheap) (posOf trees) f m := by
  intro f
  induction f with
  | zero => intro p n m _ _; rfl
  | succ f ih =>
    intro p n m hn hm
    obtain ⟨h1, h2, h3, h4⟩ := hinv.mtch p n m hn hm
    have hpn : posOf ids n = some p := posOf_unique ids n p hn (fun q hq => nodup_get_unique ids hinv.nodup n p q hn hq)
    have hpm : posOf trees m = some p := posOf_unique trees m p hm (fun q hq => hinv.inj q p m hq hm)
    simp only [evalAt, h1]
    by_cases hc : (heap n).op = Op.constant
    · simp [hc, h2 hc]
    · simp only [hc, if_false]
      cases hargs : (heap n).op.args with
      | none => simp [hpn, hpm]
      | some k =>
        match k, hargs with
        | 0, hargs => simp [hpn, hpm]
        | 1, hargs =>
          obtain ⟨q, hq1, hq2⟩ := h3 (Or.inl hargs)
          simp only
          rw [ih q _ _ hq1 hq2]
        | 2, hargs =>
          obtain ⟨q, hq1, hq2⟩ := h3 (Or.inr hargs)
          obtain ⟨q', hq1', hq2'⟩ := h4 hargs
          simp only
          rw [ih q _ _ hq1 hq2, ih q' _ _ hq1' hq2']
        | k + 3, hargs => simp [hpn, hpm]

end Libfive.Serial
