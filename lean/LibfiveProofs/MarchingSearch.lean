/-
  Helper lemmas for C04: the multi-stage edge search (`searchEdge`) over the reals.
-/
import Mathlib.Tactic.Ring
import Mathlib.Tactic.Linarith
import Mathlib.Tactic.FieldSimp
import Mathlib.Topology.Order.IntermediateValue
import Mathlib.Topology.Instances.Real.Lemmas
import LibfiveModel.Marching

namespace Libfive.Marching

/-- specification of the sample index chosen in one round -/
theorem firstOutFrom_spec (f : Nat → Bool) (last : Nat) :
    ∀ fuel j, j ≤ last → last - j + 1 ≤ fuel →
      j ≤ firstOutFrom f last fuel j ∧ firstOutFrom f last fuel j ≤ last ∧
      (f (firstOutFrom f last fuel j) = true ∨ firstOutFrom f last fuel j = last) ∧
      ∀ i, j ≤ i → i < firstOutFrom f last fuel j → f i = false := by
  intro fuel
  induction fuel with
  | zero => intro j _ h; omega
  | succ fuel ih =>
    intro j hj hf
    unfold firstOutFrom
    by_cases hc : (f j || decide (last ≤ j)) = true
    · simp only [hc, if_true]
      refine ⟨Nat.le_refl _, hj, ?_, fun i h1 h2 => by omega⟩
      simp only [Bool.or_eq_true, decide_eq_true_eq] at hc
      rcases hc with h | h
      · exact Or.inl h
      · exact Or.inr (by omega)
    · simp only [hc, Bool.false_eq_true, if_false]
      simp only [Bool.or_eq_true, decide_eq_true_eq, not_or, Bool.not_eq_true, not_le] at hc
      obtain ⟨h1, h2, h3, h4⟩ := ih (j + 1) (by omega) (by omega)
      refine ⟨by omega, h2, h3, ?_⟩
      intro i hi1 hi2
      by_cases hij : i = j
      · subst hij; exact hc.1
      · exact h4 i (by omega) hi2

theorem firstOut_spec (f : Nat → Bool) (n : Nat) (hn : 2 ≤ n) :
    1 ≤ firstOut f n ∧ firstOut f n ≤ n - 1 ∧ (f (firstOut f n) = true ∨ firstOut f n = n - 1) ∧
      ∀ i, 1 ≤ i → i < firstOut f n → f i = false := by
  unfold firstOut
  exact firstOutFrom_spec f (n - 1) (n - 1) 1 (by omega) (by omega)

/-- linear interpolation with `n` samples: `inside * (1 - frac) + outside * frac`, `frac = j / (n - 1)` -/
noncomputable def lerpR (n : Nat) (lo hi : ℝ) (j : Nat) : ℝ := lo + (hi - lo) * (j : ℝ) / ((n : ℝ) - 1)

/-- invariant of the search: the bracket is ordered, its lower end is classified inside and its
    upper end outside -/
def Bracket (outside : ℝ → Bool) (p : ℝ × ℝ) : Prop :=
  p.1 ≤ p.2 ∧ outside p.1 = false ∧ outside p.2 = true

theorem searchRound_spec (outside : ℝ → Bool) (n : Nat) (hn : 2 ≤ n) (p : ℝ × ℝ)
    (hp : Bracket outside p) :
    Bracket outside (searchRound (lerpR n) outside n p) ∧
    p.1 ≤ (searchRound (lerpR n) outside n p).1 ∧ (searchRound (lerpR n) outside n p).2 ≤ p.2 ∧
    (searchRound (lerpR n) outside n p).2 - (searchRound (lerpR n) outside n p).1 = (p.2 - p.1) / ((n : ℝ) - 1) := by
  obtain ⟨hle, hlo, hhi⟩ := hp
  have hn1 : (0 : ℝ) < (n : ℝ) - 1 := by
    have : (2 : ℝ) ≤ (n : ℝ) := by exact_mod_cast hn
    linarith
  obtain ⟨j1, j2, j3, j4⟩ := firstOut_spec (fun j => outside (lerpR n p.1 p.2 j)) n hn
  simp only [searchRound]
  set j := firstOut (fun j => outside (lerpR n p.1 p.2 j)) n with hj
  have hd : (0 : ℝ) ≤ p.2 - p.1 := by linarith
  have hjr : ((j - 1 : Nat) : ℝ) = (j : ℝ) - 1 := by
    rw [Nat.cast_sub j1]; simp
  have hj1 : (1 : ℝ) ≤ (j : ℝ) := by exact_mod_cast j1
  have hjn : (j : ℝ) ≤ (n : ℝ) - 1 := by
    have : ((j : Nat) : ℝ) ≤ ((n - 1 : Nat) : ℝ) := by exact_mod_cast j2
    rw [Nat.cast_sub (by omega : 1 ≤ n)] at this
    simpa using this
  have lerp0 : lerpR n p.1 p.2 0 = p.1 := by simp [lerpR]
  have lerpN : lerpR n p.1 p.2 (n - 1) = p.2 := by
    unfold lerpR
    rw [Nat.cast_sub (by omega : 1 ≤ n)]
    field_simp
    ring
  have mono : ∀ a b : ℝ, a ≤ b → p.1 + (p.2 - p.1) * a / ((n : ℝ) - 1) ≤ p.1 + (p.2 - p.1) * b / ((n : ℝ) - 1) := by
    intro a b hab
    have : (p.2 - p.1) * a / ((n : ℝ) - 1) ≤ (p.2 - p.1) * b / ((n : ℝ) - 1) := by
      apply div_le_div_of_nonneg_right _ hn1.le
      exact mul_le_mul_of_nonneg_left hab hd
    linarith
  refine ⟨⟨?_, ?_, ?_⟩, ?_, ?_, ?_⟩
  · -- ordered
    unfold lerpR
    rw [hjr]
    exact mono _ _ (by linarith)
  · -- lower end inside
    by_cases h0 : j - 1 = 0
    · rw [h0, lerp0]; exact hlo
    · exact j4 (j - 1) (by omega) (by omega)
  · -- upper end outside
    rcases j3 with h | h
    · exact h
    · rw [h, lerpN]; exact hhi
  · -- nested below
    unfold lerpR
    have := mono 0 ((j - 1 : Nat) : ℝ) (by rw [hjr]; linarith)
    simpa using this
  · -- nested above
    unfold lerpR
    have := mono (j : ℝ) ((n : ℝ) - 1) hjn
    have e : p.1 + (p.2 - p.1) * ((n : ℝ) - 1) / ((n : ℝ) - 1) = p.2 := by field_simp; ring
    linarith
  · -- length
    unfold lerpR
    rw [hjr]
    field_simp
    ring

theorem search_spec (outside : ℝ → Bool) (n : Nat) (hn : 2 ≤ n) :
    ∀ (r : Nat) (p : ℝ × ℝ), Bracket outside p →
      Bracket outside (search (lerpR n) outside n r p) ∧
      p.1 ≤ (search (lerpR n) outside n r p).1 ∧ (search (lerpR n) outside n r p).2 ≤ p.2 ∧
      (search (lerpR n) outside n r p).2 - (search (lerpR n) outside n r p).1 = (p.2 - p.1) / ((n : ℝ) - 1) ^ r := by
  intro r
  induction r with
  | zero => intro p hp; simp [search, hp]
  | succ r ih =>
    intro p hp
    obtain ⟨b1, b2, b3, b4⟩ := searchRound_spec outside n hn p hp
    obtain ⟨c1, c2, c3, c4⟩ := ih _ b1
    simp only [search]
    refine ⟨c1, by linarith, by linarith, ?_⟩
    rw [c4, b4, pow_succ, div_div]
    ring_nf

end Libfive.Marching
