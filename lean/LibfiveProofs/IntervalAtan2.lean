/-
  C02 helper lemmas: the nine cases of `Interval::atan2`.
-/
import LibfiveProofs.Interval2

set_option linter.unusedSectionVars false
set_option linter.unusedVariables false

namespace Libfive.Ivl

open FVal

variable {K : Type} [Field K] [LinearOrder K] [IsStrictOrderedRing K]
variable {Bo : BoostOps K} {P : PointFns K}

/-- What is assumed about `atan2`: the endpoint evaluation `::atan2` and the point kernel `atan2f`
    are the same function on extended (non-NaN) arguments, with values in `[−π, π]` and the quadrant
    monotonicity of the angle (in exact arithmetic). -/
structure Atan2Sound (Bo : BoostOps K) (P : PointFns K) : Prop where
  eq : ∀ y x : FVal K, y ≠ nan → x ≠ nan → Bo.atan2f y x = fin (P.atan2 y x)
  range : ∀ y x : FVal K, y ≠ nan → x ≠ nan →
    FVal.le Bo.negPi (fin (P.atan2 y x)) = true ∧ FVal.le (fin (P.atan2 y x)) Bo.pi = true
  /-- right half plane: increasing in `y` -/
  monoY_right : ∀ y y' x : FVal K, FVal.lt zeroV x = true → FVal.le y y' = true →
    P.atan2 y x ≤ P.atan2 y' x
  /-- `y ≥ 0`, `x > 0`: decreasing in `x` -/
  monoX_nonneg_right : ∀ y x x' : FVal K, FVal.le zeroV y = true → FVal.lt zeroV x = true →
    FVal.le x x' = true → P.atan2 y x' ≤ P.atan2 y x
  /-- `y ≤ 0`, `x > 0`: increasing in `x` -/
  monoX_nonpos_right : ∀ y x x' : FVal K, FVal.le y zeroV = true → FVal.lt zeroV x = true →
    FVal.le x x' = true → P.atan2 y x ≤ P.atan2 y x'
  /-- upper half plane: decreasing in `x` -/
  monoX_pos : ∀ y x x' : FVal K, FVal.lt zeroV y = true → FVal.le x x' = true →
    P.atan2 y x' ≤ P.atan2 y x
  /-- lower half plane: increasing in `x` -/
  monoX_neg : ∀ y x x' : FVal K, FVal.lt y zeroV = true → FVal.le x x' = true →
    P.atan2 y x ≤ P.atan2 y x'
  monoY_nonneg_pos : ∀ y y' x : FVal K, FVal.le zeroV x = true → FVal.lt zeroV y = true →
    FVal.le y y' = true → P.atan2 y x ≤ P.atan2 y' x
  monoY_nonpos_pos : ∀ y y' x : FVal K, FVal.le x zeroV = true → FVal.lt zeroV y = true →
    FVal.le y y' = true → P.atan2 y' x ≤ P.atan2 y x
  monoY_nonpos_neg : ∀ y y' x : FVal K, FVal.le x zeroV = true → FVal.lt y' zeroV = true →
    FVal.le y y' = true → P.atan2 y' x ≤ P.atan2 y x
  monoY_nonneg_neg : ∀ y y' x : FVal K, FVal.le zeroV x = true → FVal.lt y' zeroV = true →
    FVal.le y y' = true → P.atan2 y x ≤ P.atan2 y' x

theorem fle_of_not_lt {x y : FVal K} (hx : x ≠ nan) (hy : y ≠ nan) (h : ¬ FVal.lt y x = true) :
    FVal.le x y = true := by
  cases x <;> cases y <;> simp_all [FVal.le, FVal.lt]

theorem zeroV_ne_nan : (zeroV : FVal K) ≠ nan := by simp [zeroV]

theorem atan2_enclS (hA : Atan2Sound Bo P) {Y X : IVal K} {y x : FVal K}
    (hy : enclS Y y) (hx : enclS X x) : enclS (iatan2 Bo Y X) (patan2 P y x) := by
  by_cases n1 : y = nan
  · subst n1
    have : (iatan2 Bo Y X).mn = true := by
      unfold iatan2; simp only [hy.mn_of_nan, Bool.true_or]; split <;> rfl
    exact Or.inl ⟨this, by simp [patan2, FVal.isNan]⟩
  by_cases n2 : x = nan
  · subst n2
    have : (iatan2 Bo Y X).mn = true := by
      unfold iatan2; simp only [hx.mn_of_nan, Bool.true_or, Bool.or_true]; split <;> rfl
    exact Or.inl ⟨this, by cases y <;> simp [patan2, FVal.isNan]⟩
  have iy := hy.inB_of_ne n1
  have ix := hx.inB_of_ne n2
  have hp : patan2 P y x = fin (P.atan2 y x) := by
    cases y <;> cases x <;> simp_all [patan2, FVal.isNan]
  rw [hp]
  right
  -- non-NaN bounds
  have yl : Y.lo ≠ nan := ne_nan_of_le_l iy.2.1
  have yh : Y.hi ≠ nan := ne_nan_of_le_r iy.2.2
  have xl : X.lo ≠ nan := ne_nan_of_le_l ix.2.1
  have xh : X.hi ≠ nan := ne_nan_of_le_r ix.2.2
  have Ylo : FVal.le Y.lo y = true := iy.2.1
  have Yhi : FVal.le y Y.hi = true := iy.2.2
  have Xlo : FVal.le X.lo x = true := ix.2.1
  have Xhi : FVal.le x X.hi = true := ix.2.2
  have rng := hA.range y x n1 n2
  unfold iatan2 atan2Case
  by_cases c1 : FVal.gt X.lo zeroV = true
  · have x0 : FVal.lt zeroV x = true := flt_of_lt_of_le c1 Xlo
    have xl0 : FVal.lt zeroV X.lo = true := c1
    simp only [c1, if_true]
    by_cases d1 : FVal.gt Y.lo zeroV = true
    · -- case 1
      simp only [d1, if_true]
      have yl0 : FVal.le zeroV Y.lo = true := fle_of_lt d1
      have yh0 : FVal.le zeroV Y.hi = true := fle_trans yl0 (fle_trans Ylo Yhi)
      refine ⟨by simp, ?_, ?_⟩
      · simp only [IVal.b, hA.eq _ _ yl xh, le_fin_fin, decide_eq_true_eq]
        exact le_trans (hA.monoX_nonneg_right _ _ _ yl0 x0 Xhi) (hA.monoY_right _ _ _ x0 Ylo)
      · simp only [IVal.b, hA.eq _ _ yh xl, le_fin_fin, decide_eq_true_eq]
        exact le_trans (hA.monoY_right _ _ _ x0 Yhi) (hA.monoX_nonneg_right _ _ _ yh0 xl0 Xlo)
    · simp only [d1, Bool.false_eq_true, if_false]
      have yl0 : FVal.le Y.lo zeroV = true := fle_of_not_lt yl zeroV_ne_nan d1
      by_cases d2 : FVal.lt Y.hi zeroV = true
      · -- case 2
        simp only [d2, if_true]
        have yh0 : FVal.le Y.hi zeroV = true := fle_of_lt d2
        refine ⟨by simp, ?_, ?_⟩
        · simp only [IVal.b, hA.eq _ _ yl xl, le_fin_fin, decide_eq_true_eq]
          exact le_trans (hA.monoX_nonpos_right _ _ _ yl0 xl0 Xlo) (hA.monoY_right _ _ _ x0 Ylo)
        · simp only [IVal.b, hA.eq _ _ yh xh, le_fin_fin, decide_eq_true_eq]
          exact le_trans (hA.monoY_right _ _ _ x0 Yhi) (hA.monoX_nonpos_right _ _ _ yh0 x0 Xhi)
      · -- case 3
        simp only [d2, Bool.false_eq_true, if_false]
        have yh0 : FVal.le zeroV Y.hi = true := fle_of_not_lt zeroV_ne_nan yh d2
        refine ⟨by simp, ?_, ?_⟩
        · simp only [IVal.b, hA.eq _ _ yl xl, le_fin_fin, decide_eq_true_eq]
          exact le_trans (hA.monoX_nonpos_right _ _ _ yl0 xl0 Xlo) (hA.monoY_right _ _ _ x0 Ylo)
        · simp only [IVal.b, hA.eq _ _ yh xl, le_fin_fin, decide_eq_true_eq]
          exact le_trans (hA.monoY_right _ _ _ x0 Yhi) (hA.monoX_nonneg_right _ _ _ yh0 xl0 Xlo)
  · simp only [c1, Bool.false_eq_true, if_false]
    have xl0 : FVal.le X.lo zeroV = true := fle_of_not_lt xl zeroV_ne_nan c1
    by_cases c2 : FVal.lt X.hi zeroV = true
    · have x0 : FVal.le x zeroV = true := fle_of_lt (flt_of_le_of_lt Xhi c2)
      have xh0 : FVal.le X.hi zeroV = true := fle_of_lt c2
      simp only [c2, if_true]
      by_cases d1 : FVal.gt Y.lo zeroV = true
      · -- case 4
        simp only [d1, if_true]
        have yl0 : FVal.lt zeroV Y.lo = true := d1
        have y0 : FVal.lt zeroV y = true := flt_of_lt_of_le d1 Ylo
        have yh0 : FVal.lt zeroV Y.hi = true := flt_of_lt_of_le y0 Yhi
        refine ⟨by simp, ?_, ?_⟩
        · simp only [IVal.b, hA.eq _ _ yh xh, le_fin_fin, decide_eq_true_eq]
          exact le_trans (hA.monoX_pos _ _ _ yh0 Xhi) (hA.monoY_nonpos_pos _ _ _ x0 y0 Yhi)
        · simp only [IVal.b, hA.eq _ _ yl xl, le_fin_fin, decide_eq_true_eq]
          exact le_trans (hA.monoY_nonpos_pos _ _ _ x0 yl0 Ylo) (hA.monoX_pos _ _ _ yl0 Xlo)
      · simp only [d1, Bool.false_eq_true, if_false]
        by_cases d2 : FVal.lt Y.hi zeroV = true
        · -- case 5
          simp only [d2, if_true]
          have y0 : FVal.lt y zeroV = true := flt_of_le_of_lt Yhi d2
          have yl0 : FVal.lt Y.lo zeroV = true := flt_of_le_of_lt Ylo y0
          refine ⟨by simp, ?_, ?_⟩
          · simp only [IVal.b, hA.eq _ _ yh xl, le_fin_fin, decide_eq_true_eq]
            exact le_trans (hA.monoX_neg _ _ _ d2 Xlo) (hA.monoY_nonpos_neg _ _ _ x0 d2 Yhi)
          · simp only [IVal.b, hA.eq _ _ yl xh, le_fin_fin, decide_eq_true_eq]
            exact le_trans (hA.monoY_nonpos_neg _ _ _ x0 y0 Ylo) (hA.monoX_neg _ _ _ yl0 Xhi)
        · -- case 6: branch cut
          simp only [d2, Bool.false_eq_true, if_false]
          exact ⟨by simp, rng.1, rng.2⟩
    · simp only [c2, Bool.false_eq_true, if_false]
      have xh0 : FVal.le zeroV X.hi = true := fle_of_not_lt zeroV_ne_nan xh c2
      by_cases d1 : FVal.gt Y.lo zeroV = true
      · -- case 7
        simp only [d1, if_true]
        have yl0 : FVal.lt zeroV Y.lo = true := d1
        have y0 : FVal.lt zeroV y = true := flt_of_lt_of_le d1 Ylo
        refine ⟨by simp, ?_, ?_⟩
        · simp only [IVal.b, hA.eq _ _ yl xh, le_fin_fin, decide_eq_true_eq]
          exact le_trans (hA.monoY_nonneg_pos _ _ _ xh0 yl0 Ylo) (hA.monoX_pos _ _ _ y0 Xhi)
        · simp only [IVal.b, hA.eq _ _ yl xl, le_fin_fin, decide_eq_true_eq]
          exact le_trans (hA.monoX_pos _ _ _ y0 Xlo) (hA.monoY_nonpos_pos _ _ _ xl0 yl0 Ylo)
      · simp only [d1, Bool.false_eq_true, if_false]
        by_cases d2 : FVal.lt Y.hi zeroV = true
        · -- case 8
          simp only [d2, if_true]
          have y0 : FVal.lt y zeroV = true := flt_of_le_of_lt Yhi d2
          refine ⟨by simp, ?_, ?_⟩
          · simp only [IVal.b, hA.eq _ _ yh xl, le_fin_fin, decide_eq_true_eq]
            exact le_trans (hA.monoY_nonpos_neg _ _ _ xl0 d2 Yhi) (hA.monoX_neg _ _ _ y0 Xlo)
          · simp only [IVal.b, hA.eq _ _ yh xh, le_fin_fin, decide_eq_true_eq]
            exact le_trans (hA.monoX_neg _ _ _ y0 Xhi) (hA.monoY_nonneg_neg _ _ _ xh0 d2 Yhi)
        · -- case 9: contains the origin
          simp only [d2, Bool.false_eq_true, if_false]
          exact ⟨by simp, rng.1, rng.2⟩

end Libfive.Ivl
