/-
  `wellArity` (every operator node carries an opcode of the right arity) is preserved by the
  constructors and by flatten, so the optimiser's soundness theorem applies to flattened trees.
-/
import LibfiveProofs.ExprSound

set_option linter.unusedSimpArgs false
set_option linter.unusedVariables false

namespace Libfive
open Expr

variable {C : Type}

theorem wellArity_mkUnary (K : ConstOps C) (op : Op) (a : Expr C) (ha : wellArity a) :
    wellArity (mkUnary K op a) := by
  unfold mkUnary
  by_cases h : op.args = some 1
  · simp only [h, ne_eq, not_true_eq_false, if_false]
    have hd : wellArity (un op a) := ⟨h, ha⟩
    cases a with
    | const c => trivial
    | un o b =>
      by_cases h1 : op = Op.abs
      · subst h1
        by_cases h2 : o = Op.abs
        · subst h2; exact ha
        · by_cases h3 : o = Op.square
          · subst h3; exact ha
          · simp only [if_true]
            cases o <;> first | exact absurd rfl h2 | exact absurd rfl h3 | exact hd
      · by_cases h2 : op = Op.neg
        · subst h2
          by_cases h3 : o = Op.neg
          · subst h3; simp; exact ha.2
          · simp only [h1, if_false, if_true]
            cases o <;> first | exact absurd rfl h3 | exact hd
        · simp only [h1, h2, if_false]; exact hd
    | x | y | z | var _ | bin _ _ _ | remap _ _ _ _ | apply _ _ _ | oracle _ | invalid =>
      by_cases h1 : op = Op.abs
      · subst h1; exact hd
      · by_cases h2 : op = Op.neg
        · subst h2; exact hd
        · simp only [h1, h2, if_false]; exact hd
  · simp [h, wellArity]

theorem wellArity_of_isNegOf {a a' : Expr C} (h : isNegOf a = some a') (ha : wellArity a) :
    wellArity a' := by
  rw [isNegOf_some h] at ha; exact ha.2

theorem wellArity_mkBinaryF [DecidableEq C] (K : ConstOps C) :
    ∀ (fuel : Nat) (op : Op) (a b : Expr C), wellArity a → wellArity b →
      wellArity (mkBinaryF K fuel op a b) := by
  intro fuel
  induction fuel using Nat.strong_induction_on with
  | _ fuel ih =>
  intro op a b ha hb
  unfold mkBinaryF
  by_cases hargs : op.args = some 2
  · simp only [hargs, ne_eq, not_true_eq_false, if_false]
    have hd : wellArity (bin op a b) := ⟨hargs, ha, hb⟩
    have hneg : ∀ t : Expr C, wellArity t → wellArity (mkUnary K Op.neg t) :=
      fun t ht => wellArity_mkUnary K Op.neg t ht
    have hrec : ∀ (op' : Op) (a' b' : Expr C), wellArity a' → wellArity b' →
        wellArity (match fuel with
          | 0 => bin op a b
          | f + 1 => mkBinaryF K f op' a' b') := by
      intro op' a' b' ha' hb'
      cases fuel with
      | zero => exact hd
      | succ f => exact ih f (by omega) op' a' b' ha' hb'
    cases hca : constOf a with
    | some ca =>
      cases hcb : constOf b with
      | some cb => trivial
      | none =>
        simp only []
        repeat' split
        all_goals first | exact hd | exact ha | exact hb | exact hneg _ hb | exact hneg _ ha | trivial
    | none =>
      cases hcb : constOf b with
      | some cb =>
        simp only []
        repeat' split
        all_goals first | exact hd | exact ha | exact hb | exact hneg _ hb | exact hneg _ ha | trivial
      | none =>
        simp only []
        by_cases h1 : op = Op.div
        · simp [h1]; exact h1 ▸ hd
        · by_cases h2 : op = Op.add
          · subst h2
            simp only [h1, if_false, if_true]
            cases a with
            | un opa a' =>
              simp only []
              by_cases hn : opa = Op.neg
              · subst hn
                simp only [if_true]
                exact hrec Op.sub b a' hb ha.2
              · simp only [hn, if_false]; exact hd
            | const c => simp [constOf] at hca
            | x | y | z | var _ | bin _ _ _ | remap _ _ _ _ | apply _ _ _ | oracle _ | invalid =>
              simp only []
              cases hnb : isNegOf b with
              | some b' => simp only []; exact hrec Op.sub _ b' ha (wellArity_of_isNegOf hnb hb)
              | none => exact hd
          · by_cases h3 : op = Op.sub
            · subst h3
              simp only [h1, h2, if_false, if_true]
              cases hnb : isNegOf b with
              | some b' => simp only []; exact hrec Op.add a b' ha (wellArity_of_isNegOf hnb hb)
              | none => exact hd
            · by_cases h4 : op = Op.mul
              · subst h4
                simp only [h1, h2, h3, if_false, if_true]
                by_cases hab : a = b
                · simp only [hab, if_true]; exact wellArity_mkUnary K Op.square b hb
                · simp only [hab, if_false]; exact hd
              · by_cases h5 : op = Op.nthRoot ∨ op = Op.pow
                · simp only [h1, h2, h3, h4, h5, if_false, if_true]; exact hd
                · by_cases h6 : op = Op.min ∨ op = Op.max
                  · simp only [h1, h2, h3, h4, h5, h6, if_false, if_true]
                    by_cases hab : a = b
                    · simp [hab]; exact hb
                    · simp [hab]; exact hd
                  · simp only [h1, h2, h3, h4, h5, h6, if_false]; exact hd
  · simp [hargs, wellArity]

theorem wellArity_mkBinary [DecidableEq C] (K : ConstOps C) (op : Op) (a b : Expr C)
    (ha : wellArity a) (hb : wellArity b) : wellArity (mkBinary K op a b) :=
  wellArity_mkBinaryF K _ op a b ha hb

/-- every image of the substitution is well formed -/
def Expr.Subst.WA (s : Subst C) : Prop :=
  wellArity s.sx ∧ wellArity s.sy ∧ wellArity s.sz ∧ ∀ v t, s.sv v = some t → wellArity t

theorem wellArity_flattenS [DecidableEq C] (K : ConstOps C) :
    ∀ (t : Expr C) (s : Subst C), wellArity t → s.WA → wellArity (flattenS K t s) := by
  intro t
  induction t with
  | const c => intros; trivial
  | x => intro s _ hs; exact hs.1
  | y => intro s _ hs; exact hs.2.1
  | z => intro s _ hs; exact hs.2.2.1
  | var v =>
    intro s _ hs
    simp only [flattenS]
    cases h : s.sv v with
    | none => trivial
    | some t => exact hs.2.2.2 v t h
  | un op a ih =>
    intro s hw hs
    simp only [flattenS]
    by_cases h : flattenS K a s = a
    · simp only [h, if_true]; exact hw
    · simp only [h, if_false]; exact wellArity_mkUnary K op _ (ih s hw.2 hs)
  | bin op a b iha ihb =>
    intro s hw hs
    simp only [flattenS]
    by_cases h : flattenS K a s = a ∧ flattenS K b s = b
    · simp only [h, and_self, if_true]; exact hw
    · simp only [h, if_false]; exact wellArity_mkBinary K op _ _ (iha s hw.2.1 hs) (ihb s hw.2.2 hs)
  | remap t x' y' z' iht ihx ihy ihz =>
    intro s hw hs
    simp only [flattenS]
    exact iht _ hw.1 ⟨ihx s hw.2.1 hs, ihy s hw.2.2.1 hs, ihz s hw.2.2.2 hs, hs.2.2.2⟩
  | apply t v value iht ihv =>
    intro s hw hs
    simp only [flattenS]
    apply iht _ hw.1
    refine ⟨hs.1, hs.2.1, hs.2.2.1, ?_⟩
    intro w u hu
    by_cases hwv : w = v
    · simp [hwv] at hu; subst hu; exact ihv s hw.2 hs
    · simp [hwv] at hu; exact hs.2.2.2 w u hu
  | oracle k =>
    intro s _ hs
    simp only [flattenS]
    by_cases h : s.sx = x ∧ s.sy = y ∧ s.sz = z
    · simp [h, wellArity]
    · simp only [h, if_false]; exact ⟨trivial, hs.1, hs.2.1, hs.2.2.1⟩
  | invalid => intros; trivial

theorem wellArity_flatten [DecidableEq C] (K : ConstOps C) (t : Expr C) (hw : wellArity t) :
    wellArity (flatten K t) := by
  unfold flatten
  by_cases h : hasRemap t = true
  · simp only [h, if_true]
    exact wellArity_flattenS K t _ hw ⟨trivial, trivial, trivial, by intro v u h; simp [Subst.id] at h⟩
  · simpa [h] using hw

end Libfive
