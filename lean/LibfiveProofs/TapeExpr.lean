/-
  C01 helpers: a tape denotes the expression it decompiles to; batched evaluation is slot-wise.
  Core Lean only.
-/
import LibfiveModel.Tape
import LibfiveModel.Expr

namespace Libfive
open Expr

variable {C α : Type}

/-- the expression a clause computes from the expressions in its operand slots -/
def clauseExpr (c : Clause) (m : Nat → Expr C) : Expr C :=
  if c.op = Op.oracle then Expr.oracle c.a
  else if c.op.args = some 1 then Expr.un c.op (m c.a)
  else Expr.bin c.op (m c.a) (m c.b)

/-- expression computed in each slot by a clause list (same recursion as `evalList`) -/
def decompileF (leaf : Nat → Expr C) : List Clause → (Nat → Expr C)
  | [] => leaf
  | c :: rest =>
    let m := decompileF leaf rest
    upd m c.id (clauseExpr c m)

/-- how the point evaluator reads a clause: unary kernels ignore the second operand slot -/
def evTape (I : Interp C α) (op : Op) (a b : α) : α :=
  if op.args = some 1 then I.un op a else I.bin op a b

/-- **A tape denotes its decompilation**: for every clause list, leaf assignment and slot,
    evaluating the tape equals evaluating the decompiled expression (oracles take their value
    from the oracle table at the evaluation point). -/
theorem decompile_sound (I : Interp C α) (leaf : Nat → Expr C) (e : Env α) (t : List Clause) :
    ∀ s, denote I (decompileF leaf t s) e =
      evalList (evTape I) (fun k => I.orc k e.x e.y e.z) t (fun s => denote I (leaf s) e) s := by
  induction t with
  | nil => intro s; rfl
  | cons c rest ih =>
    intro s
    simp only [decompileF, evalList]
    by_cases hs : s = c.id
    · subst hs
      simp only [upd_same, clauseExpr, evalClause]
      by_cases ho : c.op = Op.oracle
      · simp [ho, denote]
      · simp only [ho, if_false]
        by_cases h1 : c.op.args = some 1
        · simp [h1, denote, evTape, ih]
        · simp [h1, denote, evTape, ih]
    · rw [upd_other _ _ _ _ hs, upd_other _ _ _ _ hs]
      exact ih s

/-! ### batched evaluation -/

/-- `ArrayEvaluator::values(n)`: every clause kernel is applied to a whole row of slots -/
def evalListB (ev : Op → α → α → α) (orc : Nat → Nat → α) :
    List Clause → (Nat → Nat → α) → (Nat → Nat → α)
  | [], V => V
  | c :: rest, V =>
    let V' := evalListB ev orc rest V
    upd V' c.id (fun j => if c.op = Op.oracle then orc c.a j else ev c.op (V' c.a j) (V' c.b j))

/-- **batch_slotwise**: slot `j` of a batched evaluation is the single-point evaluation of the
    `j`-th column of leaf values, whatever the other columns (including the stale ones between
    the requested count and the SIMD-rounded count) contain. -/
theorem batch_slotwise (ev : Op → α → α → α) (orc : Nat → Nat → α) (t : List Clause)
    (V : Nat → Nat → α) (j : Nat) :
    ∀ s, evalListB ev orc t V s j = evalList ev (fun k => orc k j) t (fun s => V s j) s := by
  induction t with
  | nil => intro s; rfl
  | cons c rest ih =>
    intro s
    simp only [evalListB, evalList]
    by_cases hs : s = c.id
    · subst hs
      simp only [upd_same, evalClause]
      by_cases ho : c.op = Op.oracle
      · simp [ho]
      · simp [ho, ih]
    · rw [upd_other _ _ _ _ hs, upd_other _ _ _ _ hs]
      exact ih s

end Libfive
