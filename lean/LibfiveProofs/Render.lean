/-
  Helper lemmas for C11 (a): control flow of Mesh::render (LibfiveModel/Render.lean). Core Lean only.
-/
import LibfiveModel.Render

namespace Libfive.Render

/-- the cancel flag is never lowered during a render -/
def Mono (obs : Nat → Bool) : Prop := ∀ t u, t ≤ u → obs t = true → obs u = true

theorem runPhase_clock (obs : Nat → Bool) (n c : Nat) : c ≤ (runPhase obs n c).2 := by
  induction n generalizing c with
  | zero => simp [runPhase]
  | succ n ih =>
    simp only [runPhase]
    split
    · simp
    · exact Nat.le_trans (Nat.le_succ c) (ih (c + 1))

/-- an interrupted phase means some read before the phase's end observed the flag; by
    monotonicity every later read observes it too -/
theorem runPhase_interrupted (obs : Nat → Bool) (hm : Mono obs) (n c : Nat)
    (h : (runPhase obs n c).1 = false) : ∀ t, (runPhase obs n c).2 ≤ t → obs t = true := by
  induction n generalizing c with
  | zero => simp [runPhase] at h
  | succ n ih =>
    simp only [runPhase] at h ⊢
    split
    · rename_i ho
      intro t ht
      exact hm c t (by simp at ht; omega) ho
    · rename_i ho
      simp only [ho] at h
      exact ih (c + 1) (by simpa using h)

/-- a phase none of whose reads observes the flag completes, after exactly `n` reads -/
theorem runPhase_quiet (obs : Nat → Bool) (n c : Nat) (h : ∀ t, c ≤ t → t < c + n → obs t = false) :
    runPhase obs n c = (true, c + n) := by
  induction n generalizing c with
  | zero => simp [runPhase]
  | succ n ih =>
    simp only [runPhase, h c (Nat.le_refl _) (by omega)]
    rw [ih (c + 1) (fun t h1 h2 => h t (by omega) (by omega))]
    simp; omega

theorem indexPhase_interrupted (alg : Alg) (obs : Nat → Bool) (hm : Mono obs) (sz : Sizes) (c : Nat)
    (h : (indexPhase alg obs sz c).1 = false) : ∀ t, (indexPhase alg obs sz c).2 ≤ t → obs t = true := by
  cases alg <;> simp only [indexPhase] at h ⊢
  · simp at h
  · exact runPhase_interrupted obs hm _ _ h
  · simp at h

theorem raisedAt_mono (k : Option Nat) : Mono (raisedAt k) := by
  intro t u htu h
  cases k with
  | none => simp [raisedAt] at h
  | some k => simp only [raisedAt, decide_eq_true_eq] at h ⊢; omega

end Libfive.Render
