/-
  Helper lemmas for C20 (progress accounting), model in LibfiveModel/Progress.lean.
-/
import LibfiveModel.Progress
import Mathlib.Tactic.Ring
import Mathlib.Tactic.Linarith
import Mathlib.Algebra.Order.Field.Basic

set_option linter.unusedSimpArgs false
set_option linter.unusedVariables false

namespace Libfive.Progress

/-! ### build phase -/

theorem announced_zero (N : Nat) : announced N 0 = 1 := rfl

theorem announced_succ (N l : Nat) : announced N (l + 1) = 1 + 2 ^ N * announced N l := by
  simp only [announced, loopTicks]; ring

mutual
theorem ticks_eq (N : Nat) : ∀ (l : Nat) (s : Shape), wf N l s = true → ticks N l s = announced N l
  | l, .leaf, h => by
    simp only [wf, beq_iff_eq] at h
    subst h; rfl
  | l, .terminal, _ => by simp [ticks]
  | l, .branch cs, h => by
    simp only [wf, Bool.and_eq_true, decide_eq_true_eq, beq_iff_eq] at h
    obtain ⟨⟨hl, hlen⟩, hw⟩ := h
    have hs := ticksList_eq N (l - 1) cs hw
    obtain ⟨l', rfl⟩ : ∃ l', l = l' + 1 := ⟨l - 1, by omega⟩
    simp only [Nat.add_sub_cancel] at hs
    simp only [ticks, Nat.add_sub_cancel, hs, hlen, announced_succ]
theorem ticksList_eq (N : Nat) : ∀ (l : Nat) (cs : List Shape), wfList N l cs = true →
    ticksList N l cs = cs.length * announced N l
  | l, [], _ => by simp [ticksList]
  | l, c :: cs, h => by
    simp only [wfList, Bool.and_eq_true] at h
    simp only [ticksList, ticks_eq N l c h.1, ticksList_eq N l cs h.2, List.length_cons]
    ring
end

mutual
/-- the `tick(i)` calls of the build phase, in depth-first order -/
def tickEvents (N : Nat) : Nat → Shape → List Nat
  | _, .leaf => [1]
  | l, .terminal => [announced N l]
  | l, .branch cs => tickEventsList N (l - 1) cs ++ [1]
def tickEventsList (N : Nat) : Nat → List Shape → List Nat
  | _, [] => []
  | l, c :: cs => tickEvents N l c ++ tickEventsList N l cs
end

mutual
theorem tickEvents_sum (N : Nat) : ∀ (l : Nat) (s : Shape), (tickEvents N l s).sum = ticks N l s
  | l, .leaf => by simp [tickEvents, ticks]
  | l, .terminal => by simp [tickEvents, ticks]
  | l, .branch cs => by
    simp only [tickEvents, ticks, List.sum_append, tickEventsList_sum N (l - 1) cs]
    simp; omega
theorem tickEventsList_sum (N : Nat) : ∀ (l : Nat) (cs : List Shape),
    (tickEventsList N l cs).sum = ticksList N l cs
  | l, [] => by simp [tickEventsList, ticksList]
  | l, c :: cs => by
    simp only [tickEventsList, ticksList, List.sum_append, tickEvents_sum N l c,
      tickEventsList_sum N l cs]
end

theorem foldl_add_eq (l : List Nat) (a : Nat) : l.foldl (· + ·) a = a + l.sum := by
  induction l generalizing a with
  | nil => simp
  | cons x xs ih => simp only [List.foldl_cons, ih, List.sum_cons]; omega

theorem counterAfter_eq_sum (l : List Nat) : counterAfter l = l.sum := by
  simp [counterAfter, foldl_add_eq]

theorem counterAfter_perm {l₁ l₂ : List Nat} (h : l₁.Perm l₂) : counterAfter l₁ = counterAfter l₂ := by
  rw [counterAfter_eq_sum, counterAfter_eq_sum]
  induction h with
  | nil => rfl
  | cons x _ ih => simp [ih]
  | swap x y l => simp only [List.sum_cons]; omega
  | trans _ _ ih₁ ih₂ => exact ih₁.trans ih₂

/-! ### walk phase -/

theorem arrivals_le (cs : List Final) : arrivals cs ≤ cs.length := by
  unfold arrivals; exact List.length_filter_le _ _

mutual
theorem walk_eq (N : Nat) : ∀ (f : Final), walkable N f = true → walkTicks f = liveCells f
  | .cell, _ => rfl
  | .singleton, _ => rfl
  | .branch cs, h => by
    simp only [walkable, Bool.and_eq_true, decide_eq_true_eq, beq_iff_eq] at h
    obtain ⟨⟨_, ha⟩, hw⟩ := h
    have hne : arrivals cs ≠ 0 := by omega
    simp only [walkTicks, liveCells, walkList_eq N cs hw, hne, if_false]
    omega
theorem walkList_eq (N : Nat) : ∀ (cs : List Final), walkableList N cs = true →
    walkTicksList cs = liveCellsList cs
  | [], _ => rfl
  | c :: cs, h => by
    simp only [walkableList, Bool.and_eq_true] at h
    simp only [walkTicksList, liveCellsList, walk_eq N c h.1, walkList_eq N cs h.2]
end

/-! ### pool reset -/

theorem sum_map_add {ι : Type} (l : List ι) (f g : ι → Nat) :
    (l.map fun i => f i + g i).sum = (l.map f).sum + (l.map g).sum := by
  induction l with
  | nil => rfl
  | cons x xs ih => simp only [List.map_cons, List.sum_cons, ih]; omega

theorem sum_indicator (w k : Nat) :
    ((List.range w).map fun i => if k = i then 1 else 0).sum = if k < w then 1 else 0 := by
  induction w with
  | zero => simp
  | succ w ih =>
    rw [List.range_succ, List.map_append, List.sum_append, ih]
    by_cases h1 : k < w
    · have : k ≠ w := by omega
      simp [h1, this]; omega
    · by_cases h2 : k = w
      · subst h2; simp
      · have : ¬ k < w + 1 := by omega
        simp [h1, h2, this]

theorem strided_succ (w i n : Nat) :
    (strided w i (n + 1)).length = (strided w i n).length + (if n % w = i then 1 else 0) := by
  unfold strided
  rw [List.range_succ, List.filter_append, List.length_append]
  by_cases h : n % w = i <;> simp [h]

theorem covered (w n : Nat) (hw : 0 < w) :
    ((List.range w).map fun i => (strided w i n).length).sum = n := by
  induction n with
  | zero =>
    have : ∀ l : List Nat, (l.map fun i => (strided w i 0).length).sum = 0 := by
      intro l; induction l with
      | nil => rfl
      | cons x xs ih => simp [strided, ih] at ih ⊢
    exact this _
  | succ n ih =>
    have : ((List.range w).map fun i => (strided w i (n + 1)).length)
        = (List.range w).map fun i => (strided w i n).length + (if n % w = i then 1 else 0) := by
      apply List.map_congr_left; intro i _; exact strided_succ w i n
    rw [this, sum_map_add, ih, sum_indicator]
    simp [Nat.mod_lt n hw]

theorem poolTicks_pos (w : Nat) (p : PoolBlocks) (hw : 0 < w) : poolTicks w p = p.blocks := by
  unfold poolTicks PoolBlocks.blocks
  rw [sum_map_add, covered w _ hw, covered w _ hw]

theorem poolTicks_zero (p : PoolBlocks) : poolTicks 0 p = 0 := by simp [poolTicks]

theorem clamp_zero (p : PoolBlocks) : clamp 0 p = 0 := by simp [clamp]

theorem clamp_eq_zero_iff (w : Nat) (p : PoolBlocks) (hw : 1 ≤ w) : clamp w p = 0 ↔ p.blocks = 0 := by
  unfold clamp PoolBlocks.blocks
  simp only
  split <;> omega

theorem resetTicksOld_zero (ps : List PoolBlocks) : resetTicksOld 0 ps = 0 := by
  induction ps with
  | nil => rfl
  | cons p ps ih => simp [resetTicksOld, clamp_zero, poolTicks_zero, ih]

theorem resetTicksOld_le (w : Nat) (ps : List PoolBlocks) : resetTicksOld w ps ≤ numBlocks ps := by
  induction ps generalizing w with
  | nil => simp [resetTicksOld, numBlocks]
  | cons p ps ih =>
    simp only [resetTicksOld, numBlocks]
    have := ih (clamp w p)
    by_cases h : clamp w p = 0
    · rw [h, poolTicks_zero, resetTicksOld_zero]; omega
    · rw [poolTicks_pos _ _ (by omega)]; omega

/-! ### reported fraction -/

section field
variable {K : Type} [Field K] [LinearOrder K] [IsStrictOrderedRing K]

theorem contrib_nonneg (p : Phase) : (0 : K) ≤ contrib p := by
  unfold contrib
  split
  · exact le_refl _
  · exact div_nonneg (Nat.cast_nonneg _) (Nat.cast_nonneg _)

theorem contrib_le_weight (p : Phase) (h : p.counter ≤ p.total) : (contrib p : K) ≤ p.weight := by
  unfold contrib
  split
  · exact Nat.cast_nonneg _
  · rename_i ht
    have hpos : (0 : K) < p.total := by exact_mod_cast Nat.pos_of_ne_zero ht
    rw [div_le_iff₀ hpos]
    have : ((p.weight * p.counter : Nat) : K) ≤ ((p.weight * p.total : Nat) : K) := by
      exact_mod_cast Nat.mul_le_mul_left _ h
    simpa [Nat.cast_mul] using this

theorem contrib_mono (p q : Phase) (hw : p.weight = q.weight)
    (h : p.total = 0 ∨ (p.total = q.total ∧ p.counter ≤ q.counter)) :
    (contrib p : K) ≤ contrib q := by
  rcases h with h | ⟨ht, hc⟩
  · have : (contrib p : K) = 0 := by simp [contrib, h]
    rw [this]; exact contrib_nonneg q
  · unfold contrib
    rw [← ht]
    split
    · exact le_refl _
    · rename_i hne
      have hpos : (0 : K) < p.total := by exact_mod_cast Nat.pos_of_ne_zero hne
      apply div_le_div_of_nonneg_right _ hpos.le
      rw [← hw]
      exact_mod_cast Nat.mul_le_mul_left _ hc

theorem accum_mono (ps qs : Nat → Phase) (n : Nat)
    (h : ∀ i, i ≤ n → (contrib (ps i) : K) ≤ contrib (qs i)) : (accum ps n : K) ≤ accum qs n := by
  induction n with
  | zero => exact h 0 (le_refl _)
  | succ n ih =>
    simp only [accum]
    exact add_le_add (ih fun i hi => h i (by omega)) (h (n + 1) (le_refl _))

theorem accum_le_of_le (ps : Nat → Phase) {n m : Nat} (h : n ≤ m) : (accum ps n : K) ≤ accum ps m := by
  induction m with
  | zero => have : n = 0 := by omega
            subst this; exact le_refl _
  | succ m ih =>
    by_cases hn : n = m + 1
    · subst hn; exact le_refl _
    · have := ih (by omega)
      simp only [accum]
      linarith [contrib_nonneg (K := K) (ps (m + 1))]

theorem accum_nonneg (ps : Nat → Phase) (n : Nat) : (0 : K) ≤ accum ps n := by
  induction n with
  | zero => exact contrib_nonneg _
  | succ n ih => simp only [accum]; linarith [contrib_nonneg (K := K) (ps (n + 1))]

theorem accum_le_weight (ps : Nat → Phase) (n : Nat)
    (h : ∀ i, i ≤ n → (ps i).counter ≤ (ps i).total) :
    (accum ps n : K) ≤ (totalWeight ps (n + 1) : Nat) := by
  induction n with
  | zero =>
    simp only [accum, totalWeight, Nat.zero_add]
    exact contrib_le_weight _ (h 0 (le_refl _))
  | succ n ih =>
    have h1 := ih fun i hi => h i (by omega)
    have h2 := contrib_le_weight (K := K) (ps (n + 1)) (h (n + 1) (le_refl _))
    simp only [accum]
    rw [show totalWeight ps (n + 1 + 1) = totalWeight ps (n + 1) + (ps (n + 1)).weight from rfl]
    push_cast
    linarith

theorem totalWeight_mono (ps : Nat → Phase) {n m : Nat} (h : n ≤ m) :
    totalWeight ps n ≤ totalWeight ps m := by
  induction m with
  | zero => have : n = 0 := by omega
            subst this; exact le_refl _
  | succ m ih =>
    by_cases hn : n = m + 1
    · subst hn; exact le_refl _
    · have := ih (by omega)
      simp only [totalWeight]; omega

theorem totalWeight_congr (ps qs : Nat → Phase) (n : Nat) (h : ∀ i, i < n → (ps i).weight = (qs i).weight) :
    totalWeight ps n = totalWeight qs n := by
  induction n with
  | zero => rfl
  | succ n ih => simp only [totalWeight]; rw [ih fun i hi => h i (by omega), h n (by omega)]

end field

end Libfive.Progress
