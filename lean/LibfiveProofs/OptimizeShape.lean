/-
  Shape of what `Tree::flatten` and `Tree::optimized_helper` return (models: LibfiveModel/Expr.lean,
  LibfiveModel/Optimize.lean): the optimiser keeps `wellArity`, and keeps "no remap / apply /
  invalid node anywhere" (`plainDeep`) on trees that are `wellArity`; flatten produces a `plainDeep`
  tree from every `wellArity` tree without `invalid` sub-terms whose oracles do not sit in the body
  of a remap.  With `postorder` these discharge the hypotheses `TopoFlat flat`,
  `∀ m ∈ flat, nodeArity m`, `root ∈ flat` of `Deck.build_eval`.

  One generic induction over the optimiser (`ShapeAt`) serves both invariants: a predicate `P` that
  is closed under the construction rules (`Closed K P`) is kept by `opt`.
-/
import LibfiveModel.Optimize
import LibfiveProofs.WellArity
import LibfiveProofs.Deck
import LibfiveProofs.OptimizeSound

set_option linter.unusedSimpArgs false
set_option linter.unusedVariables false
set_option linter.unusedSectionVars false
set_option linter.unusedTactic false
set_option linter.unreachableTactic false

namespace Libfive.Shape
open Libfive Expr Libfive.Deck Libfive.Optimize

variable {C : Type}

/-! ### `plainDeep` through `Tree::unary` / `Tree::binary`
    (an opcode of the wrong arity makes both return `Tree::invalid()`, hence the arity hypothesis) -/

theorem plainDeep_mkUnary (K : ConstOps C) (op : Op) (a : Expr C) (h : op.args = some 1)
    (ha : plainDeep a) : plainDeep (mkUnary K op a) := by
  unfold mkUnary
  simp only [h, ne_eq, not_true_eq_false, if_false]
  have hd : plainDeep (un op a) := ha
  cases a with
  | const c => trivial
  | un o b =>
    by_cases h1 : op = Op.abs
    · subst h1
      by_cases h2 : o = Op.abs
      · subst h2; exact ha
      · by_cases h3 : o = Op.square
        · subst h3; exact ha
        · simp only [if_true]
          cases o <;> first | exact absurd rfl h2 | exact absurd rfl h3 | exact hd
    · by_cases h2 : op = Op.neg
      · subst h2
        by_cases h3 : o = Op.neg
        · subst h3; simp; exact ha
        · simp only [h1, if_false, if_true]
          cases o <;> first | exact absurd rfl h3 | exact hd
      · simp only [h1, h2, if_false]; exact hd
  | x | y | z | var _ | bin _ _ _ | remap _ _ _ _ | apply _ _ _ | oracle _ | invalid =>
    by_cases h1 : op = Op.abs
    · subst h1; exact hd
    · by_cases h2 : op = Op.neg
      · subst h2; exact hd
      · simp only [h1, h2, if_false]; exact hd

theorem plainDeep_of_isNegOf {a a' : Expr C} (h : isNegOf a = some a') (ha : plainDeep a) :
    plainDeep a' := by
  rw [isNegOf_some h] at ha; exact ha

theorem plainDeep_mkBinaryF [DecidableEq C] (K : ConstOps C) :
    ∀ (fuel : Nat) (op : Op) (a b : Expr C), op.args = some 2 → plainDeep a → plainDeep b →
      plainDeep (mkBinaryF K fuel op a b) := by
  intro fuel
  induction fuel using Nat.strong_induction_on with
  | _ fuel ih =>
  intro op a b hargs ha hb
  unfold mkBinaryF
  simp only [hargs, ne_eq, not_true_eq_false, if_false]
  have hd : plainDeep (bin op a b) := ⟨ha, hb⟩
  have hneg : ∀ t : Expr C, plainDeep t → plainDeep (mkUnary K Op.neg t) :=
    fun t ht => plainDeep_mkUnary K Op.neg t rfl ht
  have hrec : ∀ (op' : Op) (a' b' : Expr C), op'.args = some 2 → plainDeep a' → plainDeep b' →
      plainDeep (match fuel with
        | 0 => bin op a b
        | f + 1 => mkBinaryF K f op' a' b') := by
    intro op' a' b' ho' ha' hb'
    cases fuel with
    | zero => exact hd
    | succ f => exact ih f (by omega) op' a' b' ho' ha' hb'
  cases hca : constOf a with
  | some ca =>
    cases hcb : constOf b with
    | some cb => trivial
    | none =>
      simp only []
      repeat' split
      all_goals first | exact hd | exact ha | exact hb | exact hneg _ hb | exact hneg _ ha | trivial
  | none =>
    cases hcb : constOf b with
    | some cb =>
      simp only []
      repeat' split
      all_goals first | exact hd | exact ha | exact hb | exact hneg _ hb | exact hneg _ ha | trivial
    | none =>
      simp only []
      by_cases h1 : op = Op.div
      · simp [h1]; exact h1 ▸ hd
      · by_cases h2 : op = Op.add
        · subst h2
          simp only [h1, if_false, if_true]
          cases a with
          | un opa a' =>
            simp only []
            by_cases hn : opa = Op.neg
            · subst hn
              simp only [if_true]
              exact hrec Op.sub b a' rfl hb ha
            · simp only [hn, if_false]; exact hd
          | const c => simp [constOf] at hca
          | x | y | z | var _ | bin _ _ _ | remap _ _ _ _ | apply _ _ _ | oracle _ | invalid =>
            simp only []
            cases hnb : isNegOf b with
            | some b' => simp only []; exact hrec Op.sub _ b' rfl ha (plainDeep_of_isNegOf hnb hb)
            | none => exact hd
        · by_cases h3 : op = Op.sub
          · subst h3
            simp only [h1, h2, if_false, if_true]
            cases hnb : isNegOf b with
            | some b' => simp only []; exact hrec Op.add a b' rfl ha (plainDeep_of_isNegOf hnb hb)
            | none => exact hd
          · by_cases h4 : op = Op.mul
            · subst h4
              simp only [h1, h2, h3, if_false, if_true]
              by_cases hab : a = b
              · simp only [hab, if_true]; exact plainDeep_mkUnary K Op.square b rfl hb
              · simp only [hab, if_false]; exact hd
            · by_cases h5 : op = Op.nthRoot ∨ op = Op.pow
              · simp only [h1, h2, h3, h4, h5, if_false, if_true]; exact hd
              · by_cases h6 : op = Op.min ∨ op = Op.max
                · simp only [h1, h2, h3, h4, h5, h6, if_false, if_true]
                  by_cases hab : a = b
                  · simp [hab]; exact hb
                  · simp [hab]; exact hd
                · simp only [h1, h2, h3, h4, h5, h6, if_false]; exact hd

theorem plainDeep_mkBinary [DecidableEq C] (K : ConstOps C) (op : Op) (a b : Expr C)
    (h : op.args = some 2) (ha : plainDeep a) (hb : plainDeep b) : plainDeep (mkBinary K op a b) :=
  plainDeep_mkBinaryF K _ op a b h ha hb

/-! ### predicates closed under the construction rules -/

/-- `P` holds of constants, passes to operands (and forces the operator's arity), and is kept by
    `Tree::unary` / `Tree::binary` for opcodes of the right arity -/
structure Closed [DecidableEq C] (K : ConstOps C) (P : Expr C → Prop) : Prop where
  const : ∀ c, P (const c)
  unInv : ∀ op a, P (un op a) → op.args = some 1 ∧ P a
  binInv : ∀ op a b, P (bin op a b) → op.args = some 2 ∧ P a ∧ P b
  mkU : ∀ op a, op.args = some 1 → P a → P (mkUnary K op a)
  mkB : ∀ op a b, op.args = some 2 → P a → P b → P (mkBinary K op a b)

/-- what `Deck::Deck` needs of the optimised tree -/
def Good (t : Expr C) : Prop := wellArity t ∧ plainDeep t

theorem closed_wellArity [DecidableEq C] (K : ConstOps C) : Closed K (wellArity (C := C)) where
  const _ := trivial
  unInv _ _ h := h
  binInv _ _ _ h := h
  mkU op a _ ha := wellArity_mkUnary K op a ha
  mkB op a b _ ha hb := wellArity_mkBinary K op a b ha hb

theorem closed_good [DecidableEq C] (K : ConstOps C) : Closed K (Good (C := C)) where
  const _ := ⟨trivial, trivial⟩
  unInv _ _ h := ⟨h.1.1, h.1.2, h.2⟩
  binInv _ _ _ h := ⟨h.1.1, ⟨h.1.2.1, h.2.1⟩, ⟨h.1.2.2, h.2.2⟩⟩
  mkU op a ho ha := ⟨wellArity_mkUnary K op a ha.1, plainDeep_mkUnary K op a ho ha.2⟩
  mkB op a b ho ha hb :=
    ⟨wellArity_mkBinary K op a b ha.1 hb.1, plainDeep_mkBinary K op a b ho ha.2 hb.2⟩

section closed
variable [DecidableEq C] {K : ConstOps C} {P : Expr C → Prop}

/-- every key of the affine map satisfies `P` -/
def KeysP (P : Expr C → Prop) (m : AffMap C) : Prop := ∀ p ∈ m, P p.1

theorem keysP_nil : KeysP P ([] : AffMap C) := by intro p hp; simp at hp

theorem keysP_cons {q : Expr C × C} {m : AffMap C} (hq : P q.1) (hm : KeysP P m) :
    KeysP P (q :: m) := by
  intro p hp
  simp only [List.mem_cons] at hp
  rcases hp with rfl | hp
  · exact hq
  · exact hm p hp

theorem keysP_tail {q : Expr C × C} {m : AffMap C} (h : KeysP P (q :: m)) : KeysP P m :=
  fun p hp => h p (List.mem_cons_of_mem _ hp)

theorem keysP_head {q : Expr C × C} {m : AffMap C} (h : KeysP P (q :: m)) : P q.1 :=
  h q (List.mem_cons_self)

theorem addCoef_keys (k : Expr C) (s : C) (hk : P k) :
    ∀ m : AffMap C, KeysP P m → KeysP P (addCoef K k s m) := by
  intro m
  induction m with
  | nil => intro _; simp only [addCoef]; exact keysP_cons hk keysP_nil
  | cons q rest ih =>
    intro hm
    obtain ⟨k', c⟩ := q
    have hk' : P k' := keysP_head hm
    simp only [addCoef]
    split
    · exact keysP_cons hk' (keysP_tail hm)
    · exact keysP_cons (keysP_head hm) (ih (keysP_tail hm))

theorem addConst_keys (H : Closed K P) (s v : C) :
    ∀ m : AffMap C, KeysP P m → KeysP P (addConst K s v m) := by
  intro m
  induction m with
  | nil => intro _; simp only [addConst]; exact keysP_cons (H.const _) keysP_nil
  | cons q rest ih =>
    intro hm
    obtain ⟨k', c⟩ := q
    have hk' : P k' := keysP_head hm
    simp only [addConst]
    split
    · exact keysP_cons hk' (keysP_tail hm)
    · exact keysP_cons (keysP_head hm) (ih (keysP_tail hm))

theorem addTerm_keys (H : Closed K P) (t : Expr C) (s : C) (ht : P t) (m : AffMap C)
    (hm : KeysP P m) : KeysP P (addTerm K t s m) := by
  cases t <;> simp only [addTerm] <;>
    first | exact addConst_keys H _ _ m hm | exact addCoef_keys _ _ ht m hm

theorem insertByCoef_keys (q : Expr C × C) (hq : P q.1) :
    ∀ m : AffMap C, KeysP P m → KeysP P (insertByCoef K q m) := by
  intro m
  induction m with
  | nil => intro _; simp only [insertByCoef]; exact keysP_cons hq keysP_nil
  | cons r rest ih =>
    intro hm
    simp only [insertByCoef]
    split
    · exact keysP_cons hq hm
    · exact keysP_cons (keysP_head hm) (ih (keysP_tail hm))

theorem sortByCoef_keys (le : Expr C → Expr C → Bool) (m : AffMap C) (hm : KeysP P m) :
    KeysP P (sortByCoef K le m) := by
  unfold sortByCoef
  have h : ∀ l : AffMap C, KeysP P l →
      KeysP P (l.foldr (fun p acc => insertByCoef K p acc) []) := by
    intro l
    induction l with
    | nil => intro _; exact keysP_nil
    | cons p rest ih =>
      intro hl
      simp only [List.foldr_cons]
      exact insertByCoef_keys p (keysP_head hl) _ (ih (keysP_tail hl))
  apply h
  intro p hp
  exact hm p ((List.mergeSort_perm _ _).subset hp)

theorem splitPosNeg_keys : ∀ m : AffMap C, KeysP P m →
    KeysP P (splitPosNeg K m).1 ∧ KeysP P (splitPosNeg K m).2 := by
  intro m
  induction m with
  | nil => intro _; exact ⟨keysP_nil, keysP_nil⟩
  | cons q rest ih =>
    intro hm
    obtain ⟨t, c⟩ := q
    obtain ⟨h1, h2⟩ := ih (keysP_tail hm)
    have ht : P t := keysP_head hm
    simp only [splitPosNeg]
    split
    · exact ⟨keysP_cons ht h1, h2⟩
    · split
      · exact ⟨h1, keysP_cons ht h2⟩
      · split
        · exact ⟨keysP_cons ht h1, h2⟩
        · exact ⟨h1, h2⟩

theorem takeGroup_keys (H : Closed K P) (m : C) : ∀ (l : AffMap C) (t : Expr C), P t → KeysP P l →
    P (takeGroup K m t l).1 ∧ KeysP P (takeGroup K m t l).2 := by
  intro l
  induction l with
  | nil => intro t ht _; exact ⟨ht, keysP_nil⟩
  | cons q rest ih =>
    intro t ht hl
    obtain ⟨u, c⟩ := q
    simp only [takeGroup]
    split
    · exact ih _ (H.mkB Op.add t u rfl ht (keysP_head hl)) (keysP_tail hl)
    · exact ⟨ht, hl⟩

theorem collapseGo_P (H : Closed K P) : ∀ (fuel : Nat) (out : Option (Expr C)) (l : AffMap C),
    (∀ o, out = some o → P o) → KeysP P l → ∀ r, collapseGo K fuel out l = some r → P r := by
  intro fuel
  induction fuel with
  | zero => intro out l ho _ r hr; simp only [collapseGo] at hr; exact ho r hr
  | succ f ih =>
    intro out l ho hl r hr
    cases l with
    | nil => simp only [collapseGo] at hr; exact ho r hr
    | cons q rest =>
      obtain ⟨t, m⟩ := q
      simp only [collapseGo] at hr
      obtain ⟨hg, hrest⟩ := takeGroup_keys H m rest t (keysP_head hl) (keysP_tail hl)
      have hgroup : P (if K.isOne m then (takeGroup K m t rest).1
          else if (takeGroup K m t rest).1 = const K.one then const m
          else mkBinary K Op.mul (takeGroup K m t rest).1 (const m)) := by
        split
        · exact hg
        · split
          · exact H.const _
          · exact H.mkB Op.mul _ _ rfl hg (H.const _)
      refine ih _ _ ?_ hrest r hr
      intro o heq
      cases out with
      | none => simp only [Option.some.injEq] at heq; rw [← heq]; exact hgroup
      | some o' =>
        simp only [Option.some.injEq] at heq
        rw [← heq]
        exact H.mkB Op.add _ _ rfl (ho o' rfl) hgroup

theorem collapseList_P (H : Closed K P) (le : Expr C → Expr C → Bool) (l : AffMap C)
    (hl : KeysP P l) : P (collapseList K le l) := by
  show P ((collapseGo K ((sortByCoef K le l).length + 1) none (sortByCoef K le l)).getD
    (const K.zero))
  cases hr : collapseGo K ((sortByCoef K le l).length + 1) none (sortByCoef K le l) with
  | none => exact H.const _
  | some r =>
    exact collapseGo_P H _ none _ (by intro o h; cases h) (sortByCoef_keys le l hl) r hr

/-- `UpAffine` rebuilds a `P` tree from a map with `P` keys -/
theorem collapse_P (H : Closed K P) (le : Expr C → Expr C → Bool) (m : AffMap C) (hm : KeysP P m) :
    P (collapse K le m) := by
  unfold collapse
  obtain ⟨h1, h2⟩ := splitPosNeg_keys (K := K) m hm
  exact H.mkB Op.sub _ _ rfl (collapseList_P H le _ h1) (collapseList_P H le _ h2)

/-! commutative lists -/

theorem foldl_mkBinary_P (H : Closed K P) (op : Op) (ho : op.args = some 2) :
    ∀ (rest : List (Expr C)) (a : Expr C), P a → (∀ u ∈ rest, P u) →
      P (rest.foldl (fun acc b => mkBinary K op acc b) a) := by
  intro rest
  induction rest with
  | nil => intro a ha _; exact ha
  | cons b rest ih =>
    intro a ha hr
    simp only [List.foldl_cons]
    exact ih _ (H.mkB op a b ho ha (hr b List.mem_cons_self))
      (fun u hu => hr u (List.mem_cons_of_mem _ hu))

theorem foldComm_P (H : Closed K P) (op : Op) (ho : op.args = some 2) (l : List (Expr C))
    (hne : l ≠ []) (hl : ∀ u ∈ l, P u) : P (foldComm K op l) := by
  cases l with
  | nil => exact absurd rfl hne
  | cons a rest =>
    simp only [foldComm]
    exact foldl_mkBinary_P H op ho rest a (hl a List.mem_cons_self)
      (fun u hu => hl u (List.mem_cons_of_mem _ hu))

theorem mem_dedup : ∀ (l : List (Expr C)) (u : Expr C), u ∈ dedup l → u ∈ l := by
  intro l
  induction l with
  | nil => intro u h; exact h
  | cons a rest ih =>
    intro u h
    simp only [dedup] at h
    split at h
    · exact List.mem_cons_of_mem _ (ih u h)
    · simp only [List.mem_cons] at h
      rcases h with rfl | h
      · exact List.mem_cons_self
      · exact List.mem_cons_of_mem _ (ih u h)

/-- `UpCommutative` rebuilds a `P` tree from a non-empty list of `P` trees -/
theorem buildComm_P (H : Closed K P) (le : Expr C → Expr C → Bool) (op : Op) (ho : op.args = some 2)
    (items : List (Expr C)) (hne : items ≠ []) (hl : ∀ u ∈ items, P u) :
    P (buildComm K le op items) := by
  have hperm : (items.mergeSort le).Perm items := List.mergeSort_perm _ _
  have hne' : items.mergeSort le ≠ [] := by
    intro h; apply hne; rw [h] at hperm; exact List.Perm.eq_nil hperm.symm
  have hs : ∀ u ∈ items.mergeSort le, P u := fun u hu => hl u (hperm.subset hu)
  unfold buildComm
  split
  · exact foldComm_P H op ho _ (dedup_ne_nil _ hne') (fun u hu => hs u (mem_dedup _ u hu))
  · exact foldComm_P H op ho _ hne' hs

/-! ### the mutual recursion -/

/-- the four mutually recursive functions keep `P` at a given fuel (and a commutative chain is
    never empty, so `UpCommutative` never returns the invalid tree) -/
structure ShapeAt (K : ConstOps C) (P : Expr C → Prop) (le : Expr C → Expr C → Bool) (f : Nat) :
    Prop where
  opt : ∀ t : Expr C, P t → P (Optimize.opt K le f t)
  non : ∀ t : Expr C, P t → P (optNonAffine K le f t)
  aff : ∀ (t : Expr C) (s : C) (acc : AffMap C), P t → KeysP P acc →
    KeysP P (affineTerms K le f t s acc)
  comm : ∀ (op : Op) (t : Expr C) (acc : List (Expr C)), P t → (∀ u ∈ acc, P u) →
    (∀ u ∈ commItems K le f op t acc, P u) ∧ commItems K le f op t acc ≠ []

theorem snoc_P {acc : List (Expr C)} {t : Expr C} (hacc : ∀ u ∈ acc, P u) (ht : P t) :
    (∀ u ∈ acc ++ [t], P u) ∧ acc ++ [t] ≠ [] := by
  refine ⟨?_, by simp⟩
  intro u hu
  simp only [List.mem_append, List.mem_singleton] at hu
  rcases hu with h | rfl
  · exact hacc u h
  · exact ht

theorem shapeAt_zero (H : Closed K P) (le : Expr C → Expr C → Bool) : ShapeAt K P le 0 := by
  refine ⟨fun t h => h, fun t h => h, ?_, ?_⟩
  · intro t s acc ht hacc
    simp only [affineTerms]
    exact addTerm_keys H t s ht acc hacc
  · intro op t acc ht hacc
    simp only [commItems]
    exact snoc_P hacc ht

theorem shapeAt_succ (H : Closed K P) (le : Expr C → Expr C → Bool) (f : Nat)
    (ih : ShapeAt K P le f) : ShapeAt K P le (f + 1) := by
  have hnon : ∀ t : Expr C, P t → P (optNonAffine K le (f + 1) t) := by
    intro t ht
    cases t with
    | un op a =>
      obtain ⟨ho, ha⟩ := H.unInv op a ht
      simp only [optNonAffine]
      split
      · exact ht
      · exact H.mkU op _ ho (ih.opt a ha)
    | bin op a b =>
      obtain ⟨ho, ha, hb⟩ := H.binInv op a b ht
      simp only [optNonAffine]
      split
      · obtain ⟨hb1, _⟩ := ih.comm op b [] hb (by intro u hu; simp at hu)
        obtain ⟨ha1, hne⟩ := ih.comm op a _ ha hb1
        exact buildComm_P H le op ho _ hne ha1
      · split
        · exact ht
        · exact H.mkB op _ _ ho (ih.opt a ha) (ih.opt b hb)
    | const _ | x | y | z | var _ | remap _ _ _ _ | apply _ _ _ | oracle _ | invalid =>
      simp only [optNonAffine]; exact ht
  refine ⟨?_, hnon, ?_, ?_⟩
  · intro t ht
    simp only [Optimize.opt]
    split
    · exact collapse_P H le _ (ih.aff t K.one [] ht keysP_nil)
    · exact ih.non t ht
  · intro t s acc ht hacc
    cases t with
    | un op a =>
      obtain ⟨ho, ha⟩ := H.unInv op a ht
      simp only [affineTerms]
      split
      · exact ih.aff a _ acc ha hacc
      · exact addTerm_keys H _ s (ih.non _ ht) acc hacc
    | bin op a b =>
      obtain ⟨ho, ha, hb⟩ := H.binInv op a b ht
      simp only [affineTerms]
      split
      · exact ih.aff a s _ ha (ih.aff b s acc hb hacc)
      · split
        · exact ih.aff a s _ ha (ih.aff b _ acc hb hacc)
        · split
          · split
            · exact ih.aff b _ acc hb hacc
            · exact ih.aff a _ acc ha hacc
            · exact addTerm_keys H _ s (ih.non _ ht) acc hacc
          · split
            · split
              · exact ih.aff a _ acc ha hacc
              · exact addTerm_keys H _ s (ih.non _ ht) acc hacc
            · exact addTerm_keys H _ s (ih.non _ ht) acc hacc
    | const _ | x | y | z | var _ | remap _ _ _ _ | apply _ _ _ | oracle _ | invalid =>
      simp only [affineTerms]; exact addTerm_keys H _ s (ih.non _ ht) acc hacc
  · intro op t acc ht hacc
    cases t with
    | bin op' a b =>
      obtain ⟨ho, ha, hb⟩ := H.binInv op' a b ht
      simp only [commItems]
      split
      · obtain ⟨hb1, _⟩ := ih.comm op b acc hb hacc
        exact ih.comm op a _ ha hb1
      · exact snoc_P hacc (ih.opt _ ht)
    | const _ | x | y | z | var _ | un _ _ | remap _ _ _ _ | apply _ _ _ | oracle _ | invalid =>
      simp only [commItems]; exact snoc_P hacc (ih.opt _ ht)

theorem shapeAt (H : Closed K P) (le : Expr C → Expr C → Bool) : ∀ f, ShapeAt K P le f := by
  intro f
  induction f with
  | zero => exact shapeAt_zero H le
  | succ f ih => exact shapeAt_succ H le f ih

end closed

/-! ### the optimiser keeps `wellArity` and `wellArity ∧ plainDeep` (any fuel, any order) -/

section optimize
variable [DecidableEq C]

theorem wellArity_opt (K : ConstOps C) (le : Expr C → Expr C → Bool) (f : Nat) (t : Expr C)
    (hw : wellArity t) : wellArity (Optimize.opt K le f t) :=
  (shapeAt (closed_wellArity K) le f).opt t hw

theorem wellArity_optimize (K : ConstOps C) (le : Expr C → Expr C → Bool) (t : Expr C)
    (hw : wellArity t) : wellArity (optimize K le t) :=
  wellArity_opt K le _ t hw

theorem good_opt (K : ConstOps C) (le : Expr C → Expr C → Bool) (f : Nat) (t : Expr C)
    (h : Good t) : Good (Optimize.opt K le f t) :=
  (shapeAt (closed_good K) le f).opt t h

theorem plainDeep_optimize (K : ConstOps C) (le : Expr C → Expr C → Bool) (t : Expr C)
    (hw : wellArity t) (hp : plainDeep t) : plainDeep (optimize K le t) :=
  (good_opt K le _ t ⟨hw, hp⟩).2

end optimize

/-! ### flatten -/

/-- no `Tree::invalid()` anywhere -/
def noInvalid : Expr C → Prop
  | un _ a => noInvalid a
  | bin _ a b => noInvalid a ∧ noInvalid b
  | remap t x' y' z' => noInvalid t ∧ noInvalid x' ∧ noInvalid y' ∧ noInvalid z'
  | apply t _ value => noInvalid t ∧ noInvalid value
  | invalid => False
  | _ => True

/-- no oracle inside the BODY of a remap (the model writes the transformed oracle that flatten
    produces there as a `remap` node around the oracle, which `Deck` does not handle); oracles in
    the coordinate arguments of a remap, and anywhere around an apply, are fine -/
def oracleUnremapped : Expr C → Prop
  | un _ a => oracleUnremapped a
  | bin _ a b => oracleUnremapped a ∧ oracleUnremapped b
  | remap t x' y' z' =>
    hasOracle t = false ∧ oracleUnremapped x' ∧ oracleUnremapped y' ∧ oracleUnremapped z'
  | apply t _ value => oracleUnremapped t ∧ oracleUnremapped value
  | _ => True

/-- every image of the substitution is free of remap / apply / invalid nodes -/
def SubstPlain (s : Subst C) : Prop :=
  plainDeep s.sx ∧ plainDeep s.sy ∧ plainDeep s.sz ∧ ∀ v t, s.sv v = some t → plainDeep t

def IdCoords (s : Subst C) : Prop := s.sx = x ∧ s.sy = y ∧ s.sz = z

theorem plainDeep_flattenS [DecidableEq C] (K : ConstOps C) :
    ∀ (t : Expr C) (s : Subst C), wellArity t → noInvalid t → SubstPlain s →
      (hasOracle t = false ∨ (IdCoords s ∧ oracleUnremapped t)) → plainDeep (flattenS K t s) := by
  intro t
  induction t with
  | const c => intros; trivial
  | x => intro s _ _ hs _; exact hs.1
  | y => intro s _ _ hs _; exact hs.2.1
  | z => intro s _ _ hs _; exact hs.2.2.1
  | var v =>
    intro s _ _ hs _
    simp only [flattenS]
    cases h : s.sv v with
    | none => trivial
    | some t => exact hs.2.2.2 v t h
  | un op a ih =>
    intro s hw hn hs ho
    simp only [flattenS]
    have hpa : plainDeep (flattenS K a s) := ih s hw.2 hn hs (by
      rcases ho with ho | ho
      · exact Or.inl (by simpa [hasOracle] using ho)
      · exact Or.inr ⟨ho.1, ho.2⟩)
    by_cases h : flattenS K a s = a
    · simp only [h, if_true]; rw [h] at hpa; exact hpa
    · simp only [h, if_false]; exact plainDeep_mkUnary K op _ hw.1 hpa
  | bin op a b iha ihb =>
    intro s hw hn hs ho
    simp only [flattenS]
    have hpa : plainDeep (flattenS K a s) := iha s hw.2.1 hn.1 hs (by
      rcases ho with ho | ho
      · simp only [hasOracle, Bool.or_eq_false_iff] at ho; exact Or.inl ho.1
      · exact Or.inr ⟨ho.1, ho.2.1⟩)
    have hpb : plainDeep (flattenS K b s) := ihb s hw.2.2 hn.2 hs (by
      rcases ho with ho | ho
      · simp only [hasOracle, Bool.or_eq_false_iff] at ho; exact Or.inl ho.2
      · exact Or.inr ⟨ho.1, ho.2.2⟩)
    by_cases h : flattenS K a s = a ∧ flattenS K b s = b
    · simp only [h, and_self, if_true]; rw [h.1] at hpa; rw [h.2] at hpb; exact ⟨hpa, hpb⟩
    · simp only [h, if_false]; exact plainDeep_mkBinary K op _ _ hw.1 hpa hpb
  | remap t x' y' z' iht ihx ihy ihz =>
    intro s hw hn hs ho
    simp only [flattenS]
    have hargs : (hasOracle x' = false ∨ (IdCoords s ∧ oracleUnremapped x')) ∧
        (hasOracle y' = false ∨ (IdCoords s ∧ oracleUnremapped y')) ∧
        (hasOracle z' = false ∨ (IdCoords s ∧ oracleUnremapped z')) ∧ hasOracle t = false := by
      rcases ho with ho | ho
      · simp only [hasOracle, Bool.or_eq_false_iff] at ho
        exact ⟨Or.inl ho.1.1.1, Or.inl ho.1.1.2, Or.inl ho.1.2, ho.2⟩
      · exact ⟨Or.inr ⟨ho.1, ho.2.2.1⟩, Or.inr ⟨ho.1, ho.2.2.2.1⟩, Or.inr ⟨ho.1, ho.2.2.2.2⟩, ho.2.1⟩
    exact iht _ hw.1 hn.1
      ⟨ihx s hw.2.1 hn.2.1 hs hargs.1, ihy s hw.2.2.1 hn.2.2.1 hs hargs.2.1,
        ihz s hw.2.2.2 hn.2.2.2 hs hargs.2.2.1, hs.2.2.2⟩ (Or.inl hargs.2.2.2)
  | apply t v value iht ihv =>
    intro s hw hn hs ho
    simp only [flattenS]
    have hval : plainDeep (flattenS K value s) := ihv s hw.2 hn.2 hs (by
      rcases ho with ho | ho
      · simp only [hasOracle, Bool.or_eq_false_iff] at ho; exact Or.inl ho.1
      · exact Or.inr ⟨ho.1, ho.2.2⟩)
    apply iht _ hw.1 hn.1
    · refine ⟨hs.1, hs.2.1, hs.2.2.1, ?_⟩
      intro w u hu
      by_cases hwv : w = v
      · simp [hwv] at hu; subst hu; exact hval
      · simp [hwv] at hu; exact hs.2.2.2 w u hu
    · rcases ho with ho | ho
      · simp only [hasOracle, Bool.or_eq_false_iff] at ho; exact Or.inl ho.2
      · exact Or.inr ⟨ho.1, ho.2.1⟩
  | oracle k =>
    intro s _ _ hs ho
    rcases ho with ho | ho
    · simp [hasOracle] at ho
    · have h : s.sx = x ∧ s.sy = y ∧ s.sz = z := ho.1
      simp only [flattenS, h, and_self, if_true]; trivial
  | invalid => intro s _ hn; exact absurd hn (by simp [noInvalid])

/-- a tree on which flatten does nothing (`hasRemap = false`) has no remap / apply at all -/
theorem plainDeep_of_noRemap : ∀ t : Expr C, hasRemap t = false → noInvalid t → plainDeep t := by
  intro t
  induction t with
  | un op a ih => intro h hn; exact ih (by simpa [hasRemap] using h) hn
  | bin op a b iha ihb =>
    intro h hn
    simp only [hasRemap, Bool.or_eq_false_iff] at h
    exact ⟨iha h.1 hn.1, ihb h.2 hn.2⟩
  | remap t x' y' z' => intro h; simp [hasRemap] at h
  | apply t v w => intro h; simp [hasRemap] at h
  | invalid => intro _ hn; exact absurd hn (by simp [noInvalid])
  | _ => intros; trivial

/-- **flatten leaves no remap / apply / invalid node.** -/
theorem plainDeep_flatten [DecidableEq C] (K : ConstOps C) (t : Expr C) (hw : wellArity t)
    (hn : noInvalid t) (ho : oracleUnremapped t) : plainDeep (flatten K t) := by
  unfold flatten
  by_cases h : hasRemap t = true
  · simp only [h, if_true]
    exact plainDeep_flattenS K t _ hw hn
      ⟨trivial, trivial, trivial, by intro v u h; simp [Subst.id] at h⟩
      (Or.inr ⟨⟨rfl, rfl, rfl⟩, ho⟩)
  · simp only [h, if_false, Bool.false_eq_true]
    exact plainDeep_of_noRemap t (by simpa using h) hn

/-! ### node arity along the post-order traversal -/

theorem nodeArity_of_wellArity_node {m : Expr C} (h : wellArity m) : nodeArity m := by
  cases m with
  | un op a => exact h.1
  | bin op a b => exact h.1
  | _ => trivial

theorem postorderAux_wellArity [DecidableEq C] : ∀ (e : Expr C) (acc : List (Expr C)), wellArity e →
    (∀ m ∈ acc, wellArity m) → ∀ m ∈ postorderAux e acc, wellArity m := by
  intro e
  have snoc : ∀ (l : List (Expr C)) (u : Expr C), (∀ m ∈ l, wellArity m) → wellArity u →
      ∀ m ∈ l ++ [u], wellArity m := by
    intro l u hl hu m hm
    simp only [List.mem_append, List.mem_singleton] at hm
    rcases hm with h | rfl
    · exact hl m h
    · exact hu
  induction e with
  | un op a iha =>
    intro acc hw hacc
    simp only [postorderAux]
    split
    · exact hacc
    · split
      · exact iha acc hw.2 hacc
      · exact snoc _ _ (iha acc hw.2 hacc) hw
  | bin op a b iha ihb =>
    intro acc hw hacc
    simp only [postorderAux]
    split
    · exact hacc
    · have h2 := ihb _ hw.2.2 (iha acc hw.2.1 hacc)
      split
      · exact h2
      · exact snoc _ _ h2 hw
  | _ =>
    intro acc hw hacc
    simp only [postorderAux]
    split
    · exact hacc
    · exact snoc _ _ hacc hw

/-- every node of the post-order list of a `wellArity` tree is `wellArity` (it is a sub-term) -/
theorem postorder_wellArity [DecidableEq C] (e : Expr C) (hw : wellArity e) :
    ∀ m ∈ postorder e, wellArity m :=
  postorderAux_wellArity e [] hw (by intro m hm; simp at hm)

theorem postorder_nodeArity [DecidableEq C] (e : Expr C) (hw : wellArity e) :
    ∀ m ∈ postorder e, nodeArity m :=
  fun m hm => nodeArity_of_wellArity_node (postorder_wellArity e hw m hm)

/-! ### the same with `invalid` admitted as a leaf
    The deck model gives an `invalid` node a slot and no clause; the slot holds `I.bad`, which is what
    `invalid` denotes.  So the end-to-end equation does not need `noInvalid`: only remap / apply
    nodes have to be absent from the optimised tree (`noRemapDeep`), and that needs no arity
    hypothesis either (a rejected opcode yields `invalid`, now harmless). -/

/-- no remap / apply node anywhere (`invalid` leaves allowed) -/
def noRemapDeep : Expr C → Prop
  | un _ a => noRemapDeep a
  | bin _ a b => noRemapDeep a ∧ noRemapDeep b
  | remap _ _ _ _ => False
  | apply _ _ _ => False
  | _ => True

theorem noRemapDeep_of_plainDeep : ∀ t : Expr C, plainDeep t → noRemapDeep t := by
  intro t
  induction t with
  | un op a ih => exact ih
  | bin op a b iha ihb => intro h; exact ⟨iha h.1, ihb h.2⟩
  | remap _ _ _ _ => intro h; exact h
  | apply _ _ _ => intro h; exact h
  | _ => intros; trivial

theorem noRemapDeep_mkUnary (K : ConstOps C) (op : Op) (a : Expr C) (ha : noRemapDeep a) :
    noRemapDeep (mkUnary K op a) := by
  unfold mkUnary
  by_cases h : op.args = some 1
  · simp only [h, ne_eq, not_true_eq_false, if_false]
    have hd : noRemapDeep (un op a) := ha
    cases a with
    | const c => trivial
    | un o b =>
      by_cases h1 : op = Op.abs
      · subst h1
        by_cases h2 : o = Op.abs
        · subst h2; exact ha
        · by_cases h3 : o = Op.square
          · subst h3; exact ha
          · simp only [if_true]
            cases o <;> first | exact absurd rfl h2 | exact absurd rfl h3 | exact hd
      · by_cases h2 : op = Op.neg
        · subst h2
          by_cases h3 : o = Op.neg
          · subst h3; simp; exact ha
          · simp only [h1, if_false, if_true]
            cases o <;> first | exact absurd rfl h3 | exact hd
        · simp only [h1, h2, if_false]; exact hd
    | x | y | z | var _ | bin _ _ _ | remap _ _ _ _ | apply _ _ _ | oracle _ | invalid =>
      by_cases h1 : op = Op.abs
      · subst h1; exact hd
      · by_cases h2 : op = Op.neg
        · subst h2; exact hd
        · simp only [h1, h2, if_false]; exact hd
  · simp [h, noRemapDeep]

theorem noRemapDeep_of_isNegOf {a a' : Expr C} (h : isNegOf a = some a') (ha : noRemapDeep a) :
    noRemapDeep a' := by
  rw [isNegOf_some h] at ha; exact ha

theorem noRemapDeep_mkBinaryF [DecidableEq C] (K : ConstOps C) :
    ∀ (fuel : Nat) (op : Op) (a b : Expr C), noRemapDeep a → noRemapDeep b →
      noRemapDeep (mkBinaryF K fuel op a b) := by
  intro fuel
  induction fuel using Nat.strong_induction_on with
  | _ fuel ih =>
  intro op a b ha hb
  unfold mkBinaryF
  by_cases hargs : op.args = some 2
  · simp only [hargs, ne_eq, not_true_eq_false, if_false]
    have hd : noRemapDeep (bin op a b) := ⟨ha, hb⟩
    have hneg : ∀ t : Expr C, noRemapDeep t → noRemapDeep (mkUnary K Op.neg t) :=
      fun t ht => noRemapDeep_mkUnary K Op.neg t ht
    have hrec : ∀ (op' : Op) (a' b' : Expr C), noRemapDeep a' → noRemapDeep b' →
        noRemapDeep (match fuel with
          | 0 => bin op a b
          | f + 1 => mkBinaryF K f op' a' b') := by
      intro op' a' b' ha' hb'
      cases fuel with
      | zero => exact hd
      | succ f => exact ih f (by omega) op' a' b' ha' hb'
    cases hca : constOf a with
    | some ca =>
      cases hcb : constOf b with
      | some cb => trivial
      | none =>
        simp only []
        repeat' split
        all_goals first | exact hd | exact ha | exact hb | exact hneg _ hb | exact hneg _ ha | trivial
    | none =>
      cases hcb : constOf b with
      | some cb =>
        simp only []
        repeat' split
        all_goals first | exact hd | exact ha | exact hb | exact hneg _ hb | exact hneg _ ha | trivial
      | none =>
        simp only []
        by_cases h1 : op = Op.div
        · simp [h1]; exact h1 ▸ hd
        · by_cases h2 : op = Op.add
          · subst h2
            simp only [h1, if_false, if_true]
            cases a with
            | un opa a' =>
              simp only []
              by_cases hn : opa = Op.neg
              · subst hn
                simp only [if_true]
                exact hrec Op.sub b a' hb ha
              · simp only [hn, if_false]; exact hd
            | const c => simp [constOf] at hca
            | x | y | z | var _ | bin _ _ _ | remap _ _ _ _ | apply _ _ _ | oracle _ | invalid =>
              simp only []
              cases hnb : isNegOf b with
              | some b' => simp only []; exact hrec Op.sub _ b' ha (noRemapDeep_of_isNegOf hnb hb)
              | none => exact hd
          · by_cases h3 : op = Op.sub
            · subst h3
              simp only [h1, h2, if_false, if_true]
              cases hnb : isNegOf b with
              | some b' => simp only []; exact hrec Op.add a b' ha (noRemapDeep_of_isNegOf hnb hb)
              | none => exact hd
            · by_cases h4 : op = Op.mul
              · subst h4
                simp only [h1, h2, h3, if_false, if_true]
                by_cases hab : a = b
                · simp only [hab, if_true]; exact noRemapDeep_mkUnary K Op.square b hb
                · simp only [hab, if_false]; exact hd
              · by_cases h5 : op = Op.nthRoot ∨ op = Op.pow
                · simp only [h1, h2, h3, h4, h5, if_false, if_true]; exact hd
                · by_cases h6 : op = Op.min ∨ op = Op.max
                  · simp only [h1, h2, h3, h4, h5, h6, if_false, if_true]
                    by_cases hab : a = b
                    · simp [hab]; exact hb
                    · simp [hab]; exact hd
                  · simp only [h1, h2, h3, h4, h5, h6, if_false]; exact hd
  · simp [hargs, noRemapDeep]

theorem noRemapDeep_mkBinary [DecidableEq C] (K : ConstOps C) (op : Op) (a b : Expr C)
    (ha : noRemapDeep a) (hb : noRemapDeep b) : noRemapDeep (mkBinary K op a b) :=
  noRemapDeep_mkBinaryF K _ op a b ha hb

/-- what the deck needs of the optimised tree when `invalid` counts as a leaf -/
def GoodI (t : Expr C) : Prop := wellArity t ∧ noRemapDeep t

theorem closed_goodI [DecidableEq C] (K : ConstOps C) : Closed K (GoodI (C := C)) where
  const _ := ⟨trivial, trivial⟩
  unInv _ _ h := ⟨h.1.1, h.1.2, h.2⟩
  binInv _ _ _ h := ⟨h.1.1, ⟨h.1.2.1, h.2.1⟩, ⟨h.1.2.2, h.2.2⟩⟩
  mkU op a _ ha := ⟨wellArity_mkUnary K op a ha.1, noRemapDeep_mkUnary K op a ha.2⟩
  mkB op a b _ ha hb :=
    ⟨wellArity_mkBinary K op a b ha.1 hb.1, noRemapDeep_mkBinary K op a b ha.2 hb.2⟩

theorem noRemapDeep_optimize [DecidableEq C] (K : ConstOps C) (le : Expr C → Expr C → Bool)
    (t : Expr C) (hw : wellArity t) (hp : noRemapDeep t) : noRemapDeep (optimize K le t) :=
  ((shapeAt (closed_goodI K) le _).opt t ⟨hw, hp⟩).2

def SubstNR (s : Subst C) : Prop :=
  noRemapDeep s.sx ∧ noRemapDeep s.sy ∧ noRemapDeep s.sz ∧ ∀ v t, s.sv v = some t → noRemapDeep t

theorem noRemapDeep_flattenS [DecidableEq C] (K : ConstOps C) :
    ∀ (t : Expr C) (s : Subst C), SubstNR s →
      (hasOracle t = false ∨ (IdCoords s ∧ oracleUnremapped t)) → noRemapDeep (flattenS K t s) := by
  intro t
  induction t with
  | const c => intros; trivial
  | x => intro s hs _; exact hs.1
  | y => intro s hs _; exact hs.2.1
  | z => intro s hs _; exact hs.2.2.1
  | var v =>
    intro s hs _
    simp only [flattenS]
    cases h : s.sv v with
    | none => trivial
    | some t => exact hs.2.2.2 v t h
  | un op a ih =>
    intro s hs ho
    simp only [flattenS]
    have hpa : noRemapDeep (flattenS K a s) := ih s hs (by
      rcases ho with ho | ho
      · exact Or.inl (by simpa [hasOracle] using ho)
      · exact Or.inr ⟨ho.1, ho.2⟩)
    by_cases h : flattenS K a s = a
    · simp only [h, if_true]; rw [h] at hpa; exact hpa
    · simp only [h, if_false]; exact noRemapDeep_mkUnary K op _ hpa
  | bin op a b iha ihb =>
    intro s hs ho
    simp only [flattenS]
    have hpa : noRemapDeep (flattenS K a s) := iha s hs (by
      rcases ho with ho | ho
      · simp only [hasOracle, Bool.or_eq_false_iff] at ho; exact Or.inl ho.1
      · exact Or.inr ⟨ho.1, ho.2.1⟩)
    have hpb : noRemapDeep (flattenS K b s) := ihb s hs (by
      rcases ho with ho | ho
      · simp only [hasOracle, Bool.or_eq_false_iff] at ho; exact Or.inl ho.2
      · exact Or.inr ⟨ho.1, ho.2.2⟩)
    by_cases h : flattenS K a s = a ∧ flattenS K b s = b
    · simp only [h, and_self, if_true]; rw [h.1] at hpa; rw [h.2] at hpb; exact ⟨hpa, hpb⟩
    · simp only [h, if_false]; exact noRemapDeep_mkBinary K op _ _ hpa hpb
  | remap t x' y' z' iht ihx ihy ihz =>
    intro s hs ho
    simp only [flattenS]
    have hargs : (hasOracle x' = false ∨ (IdCoords s ∧ oracleUnremapped x')) ∧
        (hasOracle y' = false ∨ (IdCoords s ∧ oracleUnremapped y')) ∧
        (hasOracle z' = false ∨ (IdCoords s ∧ oracleUnremapped z')) ∧ hasOracle t = false := by
      rcases ho with ho | ho
      · simp only [hasOracle, Bool.or_eq_false_iff] at ho
        exact ⟨Or.inl ho.1.1.1, Or.inl ho.1.1.2, Or.inl ho.1.2, ho.2⟩
      · exact ⟨Or.inr ⟨ho.1, ho.2.2.1⟩, Or.inr ⟨ho.1, ho.2.2.2.1⟩, Or.inr ⟨ho.1, ho.2.2.2.2⟩, ho.2.1⟩
    exact iht _ ⟨ihx s hs hargs.1, ihy s hs hargs.2.1, ihz s hs hargs.2.2.1, hs.2.2.2⟩
      (Or.inl hargs.2.2.2)
  | apply t v value iht ihv =>
    intro s hs ho
    simp only [flattenS]
    have hval : noRemapDeep (flattenS K value s) := ihv s hs (by
      rcases ho with ho | ho
      · simp only [hasOracle, Bool.or_eq_false_iff] at ho; exact Or.inl ho.1
      · exact Or.inr ⟨ho.1, ho.2.2⟩)
    apply iht _
    · refine ⟨hs.1, hs.2.1, hs.2.2.1, ?_⟩
      intro w u hu
      by_cases hwv : w = v
      · simp [hwv] at hu; subst hu; exact hval
      · simp [hwv] at hu; exact hs.2.2.2 w u hu
    · rcases ho with ho | ho
      · simp only [hasOracle, Bool.or_eq_false_iff] at ho; exact Or.inl ho.2
      · exact Or.inr ⟨ho.1, ho.2.1⟩
  | oracle k =>
    intro s hs ho
    rcases ho with ho | ho
    · simp [hasOracle] at ho
    · have h : s.sx = x ∧ s.sy = y ∧ s.sz = z := ho.1
      simp only [flattenS, h, and_self, if_true]; trivial
  | invalid => intros; trivial

theorem noRemapDeep_of_noRemap : ∀ t : Expr C, hasRemap t = false → noRemapDeep t := by
  intro t
  induction t with
  | un op a ih => intro h; exact ih (by simpa [hasRemap] using h)
  | bin op a b iha ihb =>
    intro h
    simp only [hasRemap, Bool.or_eq_false_iff] at h
    exact ⟨iha h.1, ihb h.2⟩
  | remap t x' y' z' => intro h; simp [hasRemap] at h
  | apply t v w => intro h; simp [hasRemap] at h
  | _ => intros; trivial

/-- flatten leaves no remap / apply node (no arity or `invalid` hypothesis) -/
theorem noRemapDeep_flatten [DecidableEq C] (K : ConstOps C) (t : Expr C)
    (ho : oracleUnremapped t) : noRemapDeep (flatten K t) := by
  unfold flatten
  by_cases h : hasRemap t = true
  · simp only [h, if_true]
    exact noRemapDeep_flattenS K t _
      ⟨trivial, trivial, trivial, by intro v u h; simp [Subst.id] at h⟩
      (Or.inr ⟨⟨rfl, rfl, rfl⟩, ho⟩)
  · simp only [h, if_false, Bool.false_eq_true]
    exact noRemapDeep_of_noRemap t (by simpa using h)

/-! the deck with `invalid` leaves -/

section deckI
variable [DecidableEq C] {α : Type}

/-- nodes the emission loop handles when `invalid` counts as a leaf: everything but remap / apply -/
def leafOrOp : Expr C → Bool
  | remap _ _ _ _ => false
  | apply _ _ _ => false
  | _ => true

/-- `TopoFlat` with `invalid` admitted -/
def TopoFlatI (flat : List (Expr C)) : Prop :=
  flat.Nodup ∧ (∀ e ∈ flat, leafOrOp e = true) ∧
  ∀ i, i < flat.length → ∀ c ∈ children (flat.getD i invalid), flat.idxOf c < i

theorem topoFlatI_of_topoFlat {flat : List (Expr C)} (h : TopoFlat flat) : TopoFlatI flat := by
  refine ⟨h.1, ?_, h.2.2⟩
  intro e he
  have := h.2.1 e he
  cases e <;> simp_all [plainNode, leafOrOp]

/-- `Deck.tapeK_slots` with `invalid` admitted as a leaf (its slot holds `I.bad`) -/
theorem tapeK_slotsI (I : Interp C α) (e : Env α) (flat : List (Expr C)) (hT : TopoFlatI flat)
    (hA : ∀ m ∈ flat, nodeArity m) :
    ∀ k, k ≤ flat.length → ∀ i, i < k →
      evalList (evTape I) (orcTable I e flat) (tapeK flat k) (slots0 I e flat) (flat.length - i)
        = denote I (flat.getD i invalid) e := by
  obtain ⟨hnd, hplain, htopo⟩ := hT
  intro k
  induction k with
  | zero => intro _ i hi; omega
  | succ k ih =>
    intro hk i hi
    have hkn : k < flat.length := hk
    have ih' := ih (Nat.le_of_lt hkn)
    have hmem := getD_mem flat k hkn
    have operand : ∀ c ∈ children (flat.getD k invalid),
        evalList (evTape I) (orcTable I e flat) (tapeK flat k) (slots0 I e flat) (idOf flat c)
          = denote I c e := by
      intro c hc
      have hlt := htopo k hkn c hc
      have := ih' (flat.idxOf c) hlt
      rw [getD_idxOf flat c (Nat.lt_trans hlt hkn)] at this
      exact this
    -- a node without clause: its slot keeps the value the evaluator stored there
    have leaf : clauseAt flat k (flat.getD k invalid) = none →
        leafVal I e (flat.getD k invalid) = denote I (flat.getD k invalid) e →
        evalList (evTape I) (orcTable I e flat) (tapeK flat (k + 1)) (slots0 I e flat)
          (flat.length - i) = denote I (flat.getD i invalid) e := by
      intro hc hv
      simp only [tapeK, hc]
      by_cases hik : i = k
      · subst hik
        rw [evalList_notin _ _ _ _ _
          (not_mem_ids_tapeK flat i i (Nat.le_of_lt hkn) (Nat.le_refl _) hkn)]
        have : flat.length - (flat.length - i) = i := by omega
        have e1 : slots0 I e flat (flat.length - i) = leafVal I e (flat.getD i invalid) := by
          simp only [slots0, this]
        rw [e1, hv]
      · exact ih' i (by omega)
    cases hm : flat.getD k invalid with
    | const c0 => exact leaf (by rw [hm]; rfl) (by rw [hm]; rfl)
    | x => exact leaf (by rw [hm]; rfl) (by rw [hm]; rfl)
    | y => exact leaf (by rw [hm]; rfl) (by rw [hm]; rfl)
    | z => exact leaf (by rw [hm]; rfl) (by rw [hm]; rfl)
    | var v => exact leaf (by rw [hm]; rfl) (by rw [hm]; rfl)
    | invalid => exact leaf (by rw [hm]; rfl) (by rw [hm]; rfl)
    | un op a =>
      simp only [tapeK, hm, clauseAt, evalList]
      by_cases hik : i = k
      · subst hik
        have har : op.args = some 1 := by have := hA _ hmem; rw [hm] at this; exact this
        have hno : op ≠ Op.oracle := by intro h; rw [h] at har; simp [Op.args] at har
        have ha := operand a (by rw [hm]; simp [children])
        simp only [upd_same, evalClause, hno, if_false, evTape, har, if_true, ha]
        rw [hm]; rfl
      · rw [upd_other _ _ _ _ (by omega), ih' i (by omega)]
    | bin op a b =>
      simp only [tapeK, hm, clauseAt, evalList]
      by_cases hik : i = k
      · subst hik
        have har : op.args = some 2 := by have := hA _ hmem; rw [hm] at this; exact this
        have hno : op ≠ Op.oracle := by intro h; rw [h] at har; simp [Op.args] at har
        have h1 : ¬ op.args = some 1 := by rw [har]; simp
        have ha := operand a (by rw [hm]; simp [children])
        have hb := operand b (by rw [hm]; simp [children])
        simp only [upd_same, evalClause, hno, if_false, evTape, h1, ha, hb]
        rw [hm]; rfl
      · rw [upd_other _ _ _ _ (by omega), ih' i (by omega)]
    | oracle kk =>
      simp only [tapeK, hm, clauseAt, evalList]
      by_cases hik : i = k
      · subst hik
        have := filter_take_getD isOracle flat i hkn (by rw [hm]; rfl)
        simp only [upd_same, evalClause, if_true, orcTable, this, hm, denote]
      · rw [upd_other _ _ _ _ (by omega), ih' i (by omega)]
    | remap t a b c => have := hplain _ hmem; rw [hm] at this; simp [leafOrOp] at this
    | apply t v w => have := hplain _ hmem; rw [hm] at this; simp [leafOrOp] at this

/-- `Deck.build_eval` with `invalid` admitted as a leaf -/
theorem build_evalI (I : Interp C α) (e : Env α) (flat : List (Expr C)) (root : Expr C)
    (hT : TopoFlatI flat) (hA : ∀ m ∈ flat, nodeArity m) (m : Expr C) (hm : m ∈ flat) :
    evalList (evTape I) (orcTable I e flat) (build flat root).t (slots0 I e flat) (idOf flat m)
      = denote I m e := by
  have hlt : flat.idxOf m < flat.length := List.idxOf_lt_length_iff.mpr hm
  have := tapeK_slotsI I e flat hT hA flat.length (Nat.le_refl _) (flat.idxOf m) hlt
  rw [getD_idxOf flat m hlt] at this
  exact this

theorem topoFlatI_snoc (l : List (Expr C)) (e : Expr C) (hl : TopoFlatI l) (hn : e ∉ l)
    (hp : leafOrOp e = true) (hc : ∀ c ∈ children e, c ∈ l) : TopoFlatI (l ++ [e]) := by
  obtain ⟨hnd, hpl, hto⟩ := hl
  refine ⟨?_, ?_, ?_⟩
  · rw [List.nodup_append]
    refine ⟨hnd, by simp, ?_⟩
    intro a ha b hb
    simp only [List.mem_singleton] at hb
    subst hb
    exact fun h => hn (h ▸ ha)
  · intro m hm
    simp only [List.mem_append, List.mem_singleton] at hm
    rcases hm with h | h
    · exact hpl m h
    · subst h; exact hp
  · intro i hi c hcm
    simp only [List.length_append, List.length_singleton] at hi
    by_cases hil : i < l.length
    · have e1 : (l ++ [e]).getD i invalid = l.getD i invalid := by
        simp [List.getD, List.getElem?_append_left hil]
      rw [e1] at hcm
      have := hto i hil c hcm
      have hcl : c ∈ l := List.idxOf_lt_length_iff.mp (Nat.lt_trans this hil)
      rw [List.idxOf_append, if_pos hcl]
      exact this
    · have hie : i = l.length := by omega
      subst hie
      have e1 : (l ++ [e]).getD l.length invalid = e := by
        simp [List.getD]
      rw [e1] at hcm
      have hcl := hc c hcm
      rw [List.idxOf_append, if_pos hcl]
      exact List.idxOf_lt_length_iff.mpr hcl

theorem postorderAux_specI : ∀ (e : Expr C) (acc : List (Expr C)), noRemapDeep e → TopoFlatI acc →
    TopoFlatI (postorderAux e acc) ∧ e ∈ postorderAux e acc := by
  intro e
  induction e with
  | un op a iha =>
    intro acc hp hacc
    simp only [postorderAux]
    split
    · rename_i h; exact ⟨hacc, h⟩
    · obtain ⟨h1, ha⟩ := iha acc hp hacc
      split
      · rename_i h; exact ⟨h1, h⟩
      · rename_i h
        exact ⟨topoFlatI_snoc _ _ h1 h (by simp [leafOrOp])
          (by intro c hc; simp [children] at hc; subst hc; exact ha), by simp⟩
  | bin op a b iha ihb =>
    intro acc hp hacc
    simp only [postorderAux]
    split
    · rename_i h; exact ⟨hacc, h⟩
    · obtain ⟨h1, ha⟩ := iha acc hp.1 hacc
      obtain ⟨h2, hb⟩ := ihb (postorderAux a acc) hp.2 h1
      have ha2 : a ∈ postorderAux b (postorderAux a acc) := (postorderAux_prefix b _).subset ha
      split
      · rename_i h; exact ⟨h2, h⟩
      · rename_i h
        refine ⟨topoFlatI_snoc _ _ h2 h (by simp [leafOrOp]) ?_, by simp⟩
        intro c hc
        simp [children] at hc
        rcases hc with rfl | rfl
        · exact ha2
        · exact hb
  | remap t a b c => intro acc hp; exact absurd hp (by simp [noRemapDeep])
  | apply t v w => intro acc hp; exact absurd hp (by simp [noRemapDeep])
  | _ =>
    intro acc hp hacc
    simp only [postorderAux]
    split
    · rename_i h; exact ⟨hacc, h⟩
    · rename_i h
      exact ⟨topoFlatI_snoc _ _ hacc h (by simp [leafOrOp])
        (by intro c hc; simp [children] at hc), by simp⟩

theorem postorder_specI (e : Expr C) (hp : noRemapDeep e) :
    TopoFlatI (postorder e) ∧ e ∈ postorder e :=
  postorderAux_specI e [] hp ⟨List.nodup_nil, by simp, by intro i hi; simp at hi⟩

end deckI

/-! ### witnesses: what goes wrong without the hypotheses (any `K`, any order `le`) -/

section witnesses
variable [DecidableEq C]

/-- an oracle in the body of a non-identity remap: flatten keeps a `remap` node around it -/
def wOrc : Expr C := remap (oracle 0) y x z

theorem flatten_wOrc (K : ConstOps C) : flatten K (wOrc : Expr C) = wOrc := by
  simp [wOrc, flatten, hasRemap, flattenS, Subst.id]

theorem optimize_wOrc (K : ConstOps C) (le : Expr C → Expr C → Bool) :
    optimize K le (wOrc : Expr C) = wOrc := by
  have hs : 4 * size (wOrc : Expr C) + 4 = (22 + 1) + 1 := by simp [wOrc, size]
  rw [optimize, hs]
  simp only [Optimize.opt, optNonAffine, isAffineRoot, wOrc, Bool.false_eq_true, if_false]

/-- on `wOrc` the deck is empty and its root slot holds stale data, not the oracle's value -/
theorem deck_wOrc {α : Type} (I : Interp C α) (e : Env α) (K : ConstOps C)
    (le : Expr C → Expr C → Bool) :
    let o := optimize K le (flatten K (wOrc : Expr C))
    let flat := postorder o
    evalList (evTape I) (orcTable I e flat) (build flat o).t (slots0 I e flat) (build flat o).root
      = I.bad ∧ denote I (wOrc : Expr C) e = I.orc 0 e.y e.x e.z := by
  intro o flat
  have ho : o = wOrc := by
    show optimize K le (flatten K wOrc) = wOrc
    rw [flatten_wOrc, optimize_wOrc]
  have hf : flat = [wOrc] := by
    show postorder o = _
    rw [ho]; simp [postorder, postorderAux, wOrc]
  rw [hf, ho]
  refine ⟨?_, rfl⟩
  simp [build, tapeK, clauseAt, wOrc, idOf, evalList, slots0, leafVal]

/-- a unary node with a binary opcode (not `wellArity`) whose operand changes under the remap:
    `Tree::unary` returns the invalid tree -/
theorem flatten_badArity (K : ConstOps C) :
    flatten K (remap (un Op.add x) y y y : Expr C) = invalid := by
  simp [flatten, hasRemap, flattenS, Subst.id, mkUnary, Op.args]

theorem optimize_invalid (K : ConstOps C) (le : Expr C → Expr C → Bool) :
    optimize K le (invalid : Expr C) = invalid := by
  have hs : 4 * size (invalid : Expr C) + 4 = (6 + 1) + 1 := by simp [size]
  rw [optimize, hs]
  simp only [Optimize.opt, optNonAffine, isAffineRoot, Bool.false_eq_true, if_false]

/-- on that tree the deck is empty and its root slot holds stale data, while the tree denotes the
    (uninterpreted) unary reading of the opcode at `y` -/
theorem deck_badArity {α : Type} (I : Interp C α) (e : Env α) (K : ConstOps C)
    (le : Expr C → Expr C → Bool) :
    let t : Expr C := remap (un Op.add x) y y y
    let o := optimize K le (flatten K t)
    let flat := postorder o
    evalList (evTape I) (orcTable I e flat) (build flat o).t (slots0 I e flat) (build flat o).root
      = I.bad ∧ denote I t e = I.un Op.add e.y := by
  intro t o flat
  have ho : o = invalid := by
    show optimize K le (flatten K (remap (un Op.add x) y y y)) = invalid
    rw [flatten_badArity, optimize_invalid]
  have hf : flat = [invalid] := by
    show postorder o = _
    rw [ho]; simp [postorder, postorderAux]
  rw [hf, ho]
  refine ⟨?_, rfl⟩
  simp [build, tapeK, clauseAt, idOf, evalList, slots0, leafVal]

theorem opt_leaf_x (K : ConstOps C) (le : Expr C → Expr C → Bool) (f : Nat) :
    Optimize.opt K le f (x : Expr C) = x := by
  cases f with
  | zero => rfl
  | succ f =>
    simp only [Optimize.opt, isAffineRoot, Bool.false_eq_true, if_false]
    cases f <;> rfl

theorem mergeSort_pair (le : Expr C → Expr C → Bool) (a : Expr C) :
    [a, a].mergeSort le = [a, a] := by
  have h : ([a, a].mergeSort le).Perm (List.replicate 2 a) := List.mergeSort_perm _ _
  exact List.perm_replicate.mp h

/-- a remap-free, invalid-free tree that is not `wellArity`: the optimiser rewrites the operand
    `max(x, x)` to `x` and rebuilds the unary node through `Tree::unary`, which rejects the binary
    opcode and returns the invalid tree -/
theorem optimize_badArity (K : ConstOps C) (le : Expr C → Expr C → Bool) :
    optimize K le (un Op.add (bin Op.max x x) : Expr C) = invalid := by
  have hs : 4 * size (un Op.add (bin Op.max (x : Expr C) x)) + 4 = ((17 + 1) + 1) + 1 := by
    simp [size]
  rw [optimize, hs]
  simp only [Optimize.opt, optNonAffine, isAffineRoot, Bool.false_eq_true, if_false, commOp,
    commItems, buildComm]
  simp [mergeSort_pair, Op.isIdempotent, dedup, foldComm, mkUnary, Op.args]

end witnesses

end Libfive.Shape
