/-
  The IEEE facts `Solver.Laws` asks for, proved for the binary32 model `LibfiveModel/B32.lean`
  (both the fused and the unfused `v - step*d`).  Core Lean only.

  * `halving : HalvingLaws (scalar fused) bound` — `half_finite` and `halves_to_zero` (the two laws
    the termination theorems use), with `bound x ≤ 278`.
  * `sub_self_small`, `div_finite` — as in `Laws`.
  * `subMul_zero` / `subMul_zero_step` as stated in `Laws` are FALSE for binary32:
    `-0 - s*(+0) = +0` for negative `s` (`not_laws`).  What holds is `subMul_zero_prod`: if `s, d` are
    finite and one of them is ±0 then `v - s*d` is `v`, except that `v = -0` may come back as `+0`.
  * `roundPos_wf` / `sub_val` … : `round` only produces canonical data, so every operation of the
    model is literally "exact result, rounded once" (the NaN fallback of `ofRaw` is dead code);
    `roundPos_repr`: representable values are fixed points of `round`;
    `half_eq_div_two`: the directly written `half` is the correctly rounded `x / 2.0f`.
  * the generic theorems of C17 that need `Laws` are re-derived from exactly the part that holds
    (`HalvingLaws`; a `Keeps` relation for the untouched-variable theorem).
-/
import LibfiveModel.B32
import LibfiveProofs.Solver

namespace Libfive.Solver

variable {V : Type}

/-! ### the generic C17 arguments, from the laws that binary32 really has -/

/-- the part of `Laws` the termination theorems use -/
structure HalvingLaws (S : Scalar V) (bound : V → Nat) : Prop where
  half_finite : ∀ s, S.isFinite s = true → S.isFinite (S.half s) = true
  halves_to_zero : ∀ s, S.isFinite s = true → S.isZero (iter S.half (bound s) s) = true

theorem Laws.toHalving {S : Scalar V} {bound : V → Nat} (L : Laws S bound) : HalvingLaws S bound :=
  ⟨L.half_finite, L.halves_to_zero⟩

theorem lineSearch_done_auxH (S : Scalar V) (bound : V → Nat) (L : HalvingLaws S bound) (P : Problem V)
    (r slope : V) (ds vars ev : Assign V) :
    ∀ (k fuel n : Nat) (s : V) (cur : Assign V), S.isFinite s = true →
      S.isZero (iter S.half k s) = true → k + 1 ≤ fuel →
      (lineSearch S P r slope ds vars ev fuel n s cur).isOutOfFuel = false := by
  intro k
  induction k with
  | zero =>
    intro fuel n s cur _ hz hk
    obtain ⟨f, rfl⟩ : ∃ f, fuel = f + 1 := ⟨fuel - 1, by omega⟩
    simp only [iter] at hz
    simp [lineSearch, hz, LS.isOutOfFuel]
  | succ k ih =>
    intro fuel n s cur hf hz hk
    obtain ⟨f, rfl⟩ : ∃ f, fuel = f + 1 := ⟨fuel - 1, by omega⟩
    simp only [iter] at hz
    simp only [lineSearch]
    split
    · rfl
    · split
      · rfl
      · exact ih f (n + 1) (S.half s) _ (L.half_finite s hf) hz (by omega)

theorem lineSearch_doneH (S : Scalar V) (bound : V → Nat) (L : HalvingLaws S bound) (P : Problem V)
    (r slope : V) (ds vars ev : Assign V) (fuel n : Nat) (s : V) (cur : Assign V)
    (hfuel : (if S.isFinite s then bound s else 0) + 1 ≤ fuel) :
    (lineSearch S P r slope ds vars ev fuel n s cur).isOutOfFuel = false := by
  cases hf : S.isFinite s with
  | false =>
    obtain ⟨f, rfl⟩ : ∃ f, fuel = f + 1 := ⟨fuel - 1, by omega⟩
    simp [lineSearch, hf, LS.isOutOfFuel]
  | true =>
    simp only [hf, if_true] at hfuel
    exact lineSearch_done_auxH S bound L P r slope ds vars ev (bound s) fuel n s cur hf
      (L.halves_to_zero s hf) hfuel

theorem findRoot_never_hangsH (S : Scalar V) (bound : V → Nat) (L : HalvingLaws S bound) (P : Problem V)
    (innerFuel outerFuel : Nat) (ev0 init : Assign V) (mask : List Var) (gas : Nat)
    (st : St V) (s : V) (n : Nat)
    (h : findRoot S P innerFuel outerFuel ev0 init mask gas = .hung st s n) :
    innerFuel ≤ (if S.isFinite (S.div st.r (slopeOf S st.ds)) then bound (S.div st.r (slopeOf S st.ds)) else 0) := by
  have key := outer_ind S P innerFuel (fun _ => True) (fun _ => True) (fun _ _ => trivial)
    (fun _ _ => trivial) (fun _ _ => trivial) (fun _ _ _ _ _ _ _ _ => trivial)
    (fun _ _ _ _ _ _ => trivial) outerFuel (initSt S P ev0 init mask gas) trivial
  have hls := (key.2 st s n h).2
  by_cases hle : innerFuel ≤ (if S.isFinite (S.div st.r (slopeOf S st.ds)) then bound (S.div st.r (slopeOf S st.ds)) else 0)
  · exact hle
  · have := lineSearch_doneH S bound L P st.r (slopeOf S st.ds) st.ds st.vars st.ev innerFuel 0
      (S.div st.r (slopeOf S st.ds)) st.ev (by omega)
    rw [hls] at this
    cases this

theorem findRoot_terminatesH (S : Scalar V) (bound : V → Nat) (L : HalvingLaws S bound) (P : Problem V)
    (innerFuel outerFuel : Nat) (ev0 init : Assign V) (mask : List Var) (gas : Nat)
    (hin : ∀ s, bound s < innerFuel) (hout : gas ≤ outerFuel) (hout1 : 1 ≤ outerFuel) :
    ∃ st, findRoot S P innerFuel outerFuel ev0 init mask gas = .returned st := by
  cases hres : findRoot S P innerFuel outerFuel ev0 init mask gas with
  | returned st => exact ⟨st, rfl⟩
  | hung st s n =>
    have h1 := findRoot_never_hangsH S bound L P innerFuel outerFuel ev0 init mask gas st s n hres
    have h2 := hin (S.div st.r (slopeOf S st.ds))
    split at h1 <;> omega
  | outerFuel st =>
    exact absurd hres (outer_no_outerFuel S P innerFuel outerFuel (initSt S P ev0 init mask gas) hout hout1 st)

/-- `R v₀ v`: "`v` is still the initial value `v₀`" in a sense that `v - step*0` preserves.
    (For an abstract scalar with `Laws`: equality.  For binary32: equality, or `v₀ = -0` and `v = +0`.) -/
structure Keeps (S : Scalar V) (R : V → V → Prop) : Prop where
  refl : ∀ v, R v v
  zero_isZero : S.isZero S.zero = true
  step : ∀ v₀ v s d, R v₀ v → S.isFinite s = true → S.isZero d = true → R v₀ (S.subMul v s d)

/-- two optional values related by `R` (both absent, or both present and related) -/
def optRel (R : V → V → Prop) : Option V → Option V → Prop
  | none, none => True
  | some a, some b => R a b
  | _, _ => False

theorem dsAt_load_isZero (S : Scalar V) (ds g : Assign V) (x : Var)
    (h0 : S.isZero (dsAt S ds x) = true)
    (hg : g.lookup x = none ∨ ∃ z, g.lookup x = some z ∧ S.isZero z = true) :
    S.isZero (dsAt S (load ds g) x) = true := by
  unfold dsAt at *
  rw [lookup_load]
  cases hd : ds.lookup x with
  | none => rw [hd] at h0; exact h0
  | some w =>
    rw [hd] at h0
    rcases hg with hg | ⟨z, hg, hz⟩
    · simpa [hg] using h0
    · simpa [hg] using hz

/-- `absent_untouched` from the law binary32 really has: a variable whose gradient component is
    always absent or a (signed) zero keeps its initial value in the sense of `R`. -/
theorem absent_untouched_rel (S : Scalar V) (R : V → V → Prop) (K : Keeps S R)
    (P : Problem V) (innerFuel outerFuel : Nat)
    (ev0 init : Assign V) (mask : List Var) (gas : Nat) (st : St V)
    (h : findRoot S P innerFuel outerFuel ev0 init mask gas = .returned st)
    (x : Var)
    (hgrad : ∀ ev, (P.grad ev).lookup x = none ∨
      ∃ z, (P.grad ev).lookup x = some z ∧ S.isZero z = true) :
    optRel R ((init.filter fun p => !mask.contains p.1).lookup x) (st.vars.lookup x) := by
  let v0 := (init.filter fun p => !mask.contains p.1).lookup x
  let I : St V → Prop := fun s => S.isZero (dsAt S s.ds x) = true ∧ optRel R v0 (s.vars.lookup x)
  have key := outer_ind S P innerFuel I I (fun _ h => h) (fun _ h => ⟨h.1, h.2⟩)
    (fun s h => ⟨dsAt_load_isZero S s.ds _ x h.1 (hgrad s.ev), h.2⟩)
    (fun s _ _ _ h _ _ _ => ⟨dsAt_load_isZero S s.ds _ x h.1 (hgrad s.ev), h.2⟩)
    (by
      intro s a hI _ _ hls
      obtain ⟨h1, _, _, _, _, _, _, h8, _⟩ := lineSearch_accepted S P _ _ _ _ _ _ _ _ _ a hls
      have hds := dsAt_load_isZero S s.ds _ x hI.1 (hgrad s.ev)
      refine ⟨hds, ?_⟩
      show optRel R v0 (a.vars.lookup x)
      rw [h1, lookup_stepVars]
      have h2 := hI.2
      revert h2
      cases s.vars.lookup x with
      | none => exact fun h2 => h2
      | some v =>
        cases v0 with
        | none => exact fun h2 => h2
        | some w => exact fun h2 => K.step w v a.step _ h2 h8 hds)
    outerFuel (initSt S P ev0 init mask gas)
    ⟨by
      show S.isZero (dsAt S ((init.filter fun p => !mask.contains p.1).map fun p => (p.1, S.zero)) x) = true
      rw [dsAt_init]; exact K.zero_isZero,
     by
      show optRel R v0 v0
      cases v0 with
      | none => trivial
      | some w => exact K.refl w⟩
  exact (key.1 st h).2

end Libfive.Solver

namespace Libfive.B32

open Libfive.Solver

/-! ### halving -/

theorem iter_add (f : α → α) (a b : Nat) (x : α) : iter f (a + b) x = iter f b (iter f a x) := by
  induction a generalizing x with
  | zero => simp [iter]
  | succ a ih =>
    have : a + 1 + b = (a + b) + 1 := by omega
    rw [this]
    simp only [iter]
    exact ih (f x)

theorem iter_half_val (k : Nat) (x : B32) : (iter half k x).val = iter Raw.half k x.val := by
  induction k generalizing x with
  | zero => rfl
  | succ k ih => simp only [iter]; rw [ih]; rfl

theorem half_fin_normal (s : Bool) (m : Nat) (e : Int) (h : -149 < e) :
    Raw.half (.fin s m e) = .fin s m (e - 1) := by
  show (if -149 < e then Raw.fin s m (e - 1) else Raw.fin s (rne m 2) (-149)) = _
  rw [if_pos h]

theorem half_fin_sub (s : Bool) (m : Nat) : Raw.half (.fin s m (-149)) = .fin s (rne m 2) (-149) := by
  show (if (-149 : Int) < -149 then Raw.fin s m (-149 - 1) else Raw.fin s (rne m 2) (-149)) = _
  rw [if_neg (by omega)]

/-- `j` halvings bring `m·2^(-149+j)` down to the subnormal grid, mantissa unchanged -/
theorem iter_half_to_grid (s : Bool) (m : Nat) : ∀ (j : Nat) (e : Int), e = -149 + j →
    iter Raw.half j (.fin s m e) = .fin s m (-149) := by
  intro j
  induction j with
  | zero => intro e he; simp only [iter]; rw [he]; rfl
  | succ j ih =>
    intro e he
    simp only [iter]
    rw [half_fin_normal s m e (by omega)]
    exact ih (e - 1) (by omega)

/-- on the subnormal grid `k` halvings bring a mantissa `≤ 2^k` down to `≤ 1` -/
theorem iter_half_grid (s : Bool) : ∀ (k m : Nat), m ≤ 2 ^ k →
    ∃ m', iter Raw.half k (.fin s m (-149)) = .fin s m' (-149) ∧ m' ≤ 1 := by
  intro k
  induction k with
  | zero => intro m hm; exact ⟨m, rfl, by simpa using hm⟩
  | succ k ih =>
    intro m hm
    simp only [iter]
    rw [half_fin_sub]
    apply ih
    have := rne_two_le m
    rw [Nat.pow_succ] at hm
    omega

theorem half_le_one (s : Bool) (m : Nat) (hm : m ≤ 1) :
    Raw.half (.fin s m (-149)) = .fin s 0 (-149) := by
  rw [half_fin_sub]
  have : m = 0 ∨ m = 1 := by omega
  rcases this with rfl | rfl <;> rfl

theorem bound_le (x : B32) : bound x ≤ 278 := by
  obtain ⟨r, h⟩ := x
  cases r with
  | nan => simp [bound]
  | inf s => simp [bound]
  | fin s m e =>
    rw [Raw.wf_fin_iff] at h
    simp only [bound]
    omega

theorem half_finite (x : B32) (h : isFinite x = true) : isFinite (half x) = true := by
  obtain ⟨r, hw⟩ := x
  cases r with
  | nan => cases h
  | inf s => cases h
  | fin s m e =>
    show (if -149 < e then Raw.fin s m (e - 1) else Raw.fin s (rne m 2) (-149)).isFinite = true
    split <;> rfl

/-- **Every finite binary32 reaches ±0 after `bound x = e + 149 + 25 ≤ 278` halvings** (the sign
    is kept: the result is `+0` for positive, `-0` for negative `x`). -/
theorem halves_to_zero (x : B32) (h : isFinite x = true) : isZero (iter half (bound x) x) = true := by
  have hw := x.property
  show Raw.isZero (iter half (bound x) x).val = true
  rw [iter_half_val]
  unfold bound
  unfold isFinite at h
  generalize x.val = r at h hw ⊢
  cases r with
  | nan => cases h
  | inf s => cases h
  | fin s m e =>
    rw [Raw.wf_fin_iff] at hw
    show Raw.isZero (iter Raw.half ((e + 149).toNat + 25) (.fin s m e)) = true
    have h25 : (e + 149).toNat + 25 = (e + 149).toNat + (24 + 1) := rfl
    rw [h25, iter_add, iter_add, iter_half_to_grid s m _ e (by omega)]
    obtain ⟨m', hm', hle⟩ := iter_half_grid s 24 m (by omega)
    rw [hm']
    simp only [iter]
    rw [half_le_one s m' hle]
    rfl

theorem halving (fused : Bool) : HalvingLaws (scalar fused) bound :=
  ⟨half_finite, halves_to_zero⟩

/-! ### rounding: representable values are fixed points -/

theorem rne_exact (m d : Nat) (hd : 0 < d) : rne (m * d) d = m := by
  unfold rne
  simp only [Nat.mul_div_cancel m hd, Nat.mul_mod_left]
  rw [if_pos (by omega)]

theorem log2_mul_pow (m j : Nat) (hm : m ≠ 0) : (m * 2 ^ j).log2 = m.log2 + j := by
  have hpos : 0 < 2 ^ j := Nat.two_pow_pos j
  have hne : m * 2 ^ j ≠ 0 := Nat.mul_ne_zero hm (by omega)
  rw [Nat.log2_eq_iff hne]
  constructor
  · rw [Nat.pow_add]; exact Nat.mul_le_mul_right _ (Nat.log2_self_le hm)
  · rw [show m.log2 + j + 1 = (m.log2 + 1) + j by omega, Nat.pow_add]
    exact (Nat.mul_lt_mul_right hpos).mpr Nat.lt_log2_self

theorem flog2_dyadic (m j k : Nat) (hm : m ≠ 0) :
    flog2 (m * 2 ^ j) (2 ^ k) = ((m.log2 + j : Nat) : Int) - (k : Int) := by
  unfold flog2
  rw [log2_mul_pow m j hm, Nat.log2_two_pow]
  simp only
  rw [if_pos]
  have hle : 2 ^ (m.log2 + j) ≤ m * 2 ^ j := by
    rw [Nat.pow_add]; exact Nat.mul_le_mul_right _ (Nat.log2_self_le hm)
  generalize m.log2 + j = a at hle ⊢
  by_cases hak : k ≤ a
  · have h1 : ((a : Int) - (k : Int)).toNat = a - k := by omega
    have h2 : (-((a : Int) - (k : Int))).toNat = 0 := by omega
    rw [h1, h2, ← Nat.pow_add, show k + (a - k) = a by omega]
    simpa using hle
  · have h1 : ((a : Int) - (k : Int)).toNat = 0 := by omega
    have h2 : (-((a : Int) - (k : Int))).toNat = k - a := by omega
    rw [h1, h2]
    calc 2 ^ k * 2 ^ 0 = 2 ^ a * 2 ^ (k - a) := by
          rw [← Nat.pow_add, ← Nat.pow_add]; congr 1; omega
      _ ≤ m * 2 ^ j * 2 ^ (k - a) := Nat.mul_le_mul_right _ hle

/-- **`round` is the identity on representable values**: the fraction `m·2^j / 2^k` with
    `j - k = e` and `(m, e)` canonical, `m ≠ 0`, rounds to `±m·2^e`. -/
theorem roundPos_repr (s : Bool) (m : Nat) (e : Int) (j k : Nat)
    (hw : (Raw.fin s m e).wf = true) (hm : m ≠ 0) (hjk : (j : Int) - (k : Int) = e) :
    roundPos s (m * 2 ^ j) (2 ^ k) = .fin s m e := by
  rw [Raw.wf_fin_iff] at hw
  obtain ⟨h1, h2, h3, h4⟩ := hw
  have hlog : m.log2 ≤ 23 ∧ (8388608 ≤ m → m.log2 = 23) ∧ (m < 8388608 → m.log2 < 23) := by
    refine ⟨?_, ?_, ?_⟩
    · have : m.log2 < 24 := (Nat.log2_lt hm).mpr (by omega)
      omega
    · intro h; exact (Nat.log2_eq_iff hm).mpr ⟨by omega, by omega⟩
    · intro h; exact (Nat.log2_lt hm).mpr (by omega)
  unfold roundPos
  rw [flog2_dyadic m j k hm]
  have he : max (((m.log2 + j : Nat) : Int) - (k : Int) - 23) (-149) = e := by
    rcases h4 with h4 | h4
    · have := hlog.2.1 h4; omega
    · by_cases hmm : 8388608 ≤ m
      · have := hlog.2.1 hmm; omega
      · have := hlog.2.2 (by omega); omega
  simp only [he]
  have hnum : m * 2 ^ j * 2 ^ (-e).toNat = m * (2 ^ k * 2 ^ e.toNat) := by
    rw [Nat.mul_assoc, ← Nat.pow_add, ← Nat.pow_add]
    congr 2; omega
  rw [hnum, rne_exact m _ (Nat.mul_pos (Nat.two_pow_pos _) (Nat.two_pow_pos _))]
  rw [if_neg (by omega), if_neg (by omega), if_neg (by omega)]

/-! ### the remaining laws -/

theorem ofRaw_val (r : Raw) (h : r.wf = true) : (ofRaw r).val = r := by
  have : ofRaw r = ⟨r, h⟩ := dif_pos h
  rw [this]

theorem zero_wf (b : Bool) : (Raw.fin b 0 (-149)).wf = true := rfl

theorem toQ_num_zero (s : Bool) (e : Int) : (toQ s 0 e).num = 0 := by
  simp [toQ]

theorem sgn_mul_ne (s : Bool) (N : Nat) (h : 0 < N) : (if s then (-1 : Int) else 1) * (N : Int) ≠ 0 := by
  cases s <;> simp <;> omega

theorem sgn_mul_neg (s : Bool) (N : Nat) (h : 0 < N) :
    decide ((if s then (-1 : Int) else 1) * (N : Int) < 0) = s := by
  cases s <;> simp <;> omega

theorem sgn_mul_natAbs (s : Bool) (N : Nat) : ((if s then (-1 : Int) else 1) * (N : Int)).natAbs = N := by
  cases s <;> simp

/-- Subtracting an exact zero (a fraction `0 / 2^w`) from a representable value and rounding gives
    the value back; only the sign of a zero result is decided by the caller's sign rule. -/
theorem roundRaw_sub_zero (s : Bool) (m : Nat) (e : Int) (hw : (Raw.fin s m e).wf = true)
    (b : Q) (hb : b.num = 0) (w : Nat) (hd : b.den = 2 ^ w) (zs : Bool) :
    roundRaw (Q.sub (toQ s m e) b) zs = if m = 0 then .fin zs 0 (-149) else .fin s m e := by
  unfold roundRaw Q.sub
  simp only [hb, hd, Int.zero_mul, Int.sub_zero]
  by_cases hm : m = 0
  · subst hm
    rw [if_pos (by rw [toQ_num_zero]; simp), if_pos rfl]
  · have hpos : 0 < m * 2 ^ e.toNat * 2 ^ w :=
      Nat.mul_pos (Nat.mul_pos (by omega) (Nat.two_pow_pos _)) (Nat.two_pow_pos _)
    have hnum : (toQ s m e).num * ((2 ^ w : Nat) : Int) =
        (if s then -1 else 1) * ((m * 2 ^ e.toNat * 2 ^ w : Nat) : Int) := by
      simp only [toQ]
      rw [Int.mul_assoc, ← Int.natCast_mul]
    rw [hnum, if_neg hm]
    have hne := sgn_mul_ne s _ hpos
    have hsign := sgn_mul_neg s _ hpos
    have habs : ((if s then (-1 : Int) else 1) * ((m * 2 ^ e.toNat * 2 ^ w : Nat) : Int)).natAbs =
        m * 2 ^ (e.toNat + w) := by
      rw [sgn_mul_natAbs, Nat.pow_add, ← Nat.mul_assoc]
    have hden : (toQ s m e).den * 2 ^ w = 2 ^ ((-e).toNat + w) := by
      simp only [toQ]; rw [Nat.pow_add]
    rw [if_neg hne, hsign, habs, hden]
    exact roundPos_repr s m e (e.toNat + w) ((-e).toNat + w) hw hm (by omega)

theorem mul_zero_raw (ss : Bool) (ms : Nat) (es : Int) (sd : Bool) (md : Nat) (ed : Int)
    (hz : ms = 0 ∨ md = 0) :
    Raw.mul (.fin ss ms es) (.fin sd md ed) = .fin (ss ^^ sd) 0 (-149) := by
  show roundRaw (Q.mul (toQ ss ms es) (toQ sd md ed)) (ss ^^ sd) = _
  unfold roundRaw
  rw [if_pos]
  show (toQ ss ms es).num * (toQ sd md ed).num = 0
  rcases hz with rfl | rfl
  · rw [toQ_num_zero]; simp
  · rw [toQ_num_zero]; simp

theorem sub_zero_raw (sv : Bool) (m : Nat) (e : Int) (hw : (Raw.fin sv m e).wf = true) (t : Bool) :
    Raw.sub (.fin sv m e) (.fin t 0 (-149)) =
      if m = 0 then .fin (sv && !t) 0 (-149) else .fin sv m e :=
  roundRaw_sub_zero sv m e hw (toQ t 0 (-149)) (toQ_num_zero t _) 149 rfl (sv && !t)

theorem fused_zero_raw (sv : Bool) (m : Nat) (e : Int) (hw : (Raw.fin sv m e).wf = true)
    (ss : Bool) (ms : Nat) (es : Int) (sd : Bool) (md : Nat) (ed : Int) (hz : ms = 0 ∨ md = 0) :
    Raw.subMulFused (.fin sv m e) (.fin ss ms es) (.fin sd md ed) =
      if m = 0 then .fin (sv && !(ss ^^ sd)) 0 (-149) else .fin sv m e := by
  show roundRaw (Q.sub (toQ sv m e) (Q.mul (toQ ss ms es) (toQ sd md ed))) _ = _
  apply roundRaw_sub_zero sv m e hw _ _ ((-es).toNat + (-ed).toNat)
  · show (toQ ss ms es).den * (toQ sd md ed).den = _
    simp only [toQ]; rw [Nat.pow_add]
  · show (toQ ss ms es).num * (toQ sd md ed).num = 0
    rcases hz with rfl | rfl
    · rw [toQ_num_zero]; simp
    · rw [toQ_num_zero]; simp

/-- what "`v` is kept" means at binary32: unchanged, or `-0` came back as `+0` -/
def KeptRaw (v0 v : Raw) : Prop := v = v0 ∨ (v0 = .fin true 0 (-149) ∧ v = .fin false 0 (-149))

theorem keptRaw_zero_case (sv : Bool) (m : Nat) (e : Int) (hw : (Raw.fin sv m e).wf = true) (p : Bool) :
    KeptRaw (.fin sv m e) (if m = 0 then .fin (sv && !p) 0 (-149) else .fin sv m e) := by
  by_cases hm : m = 0
  · subst hm
    rw [Raw.wf_fin_iff] at hw
    have he : e = -149 := by omega
    subst he
    rw [if_pos rfl]
    cases sv <;> cases p
    · exact Or.inl rfl
    · exact Or.inl rfl
    · exact Or.inl rfl
    · exact Or.inr ⟨rfl, rfl⟩
  · rw [if_neg hm]; exact Or.inl rfl

theorem subMul_zero_prod_raw (fused : Bool) (v s d : B32)
    (hs : isFinite s = true) (hd : isFinite d = true) (hz : isZero s = true ∨ isZero d = true) :
    KeptRaw v.val (((scalar fused).subMul v s d).val) := by
  have hvw := v.property
  unfold isFinite at hs hd
  unfold isZero at hz
  have hsub : (scalar fused).subMul v s d =
      if fused then ofRaw (Raw.subMulFused v.val s.val d.val)
      else ofRaw (Raw.sub v.val (ofRaw (Raw.mul s.val d.val)).val) := by
    cases fused <;> rfl
  rw [hsub]
  generalize v.val = rv at hvw ⊢
  generalize s.val = rs at hs hz ⊢
  generalize d.val = rd at hd hz ⊢
  cases rs with
  | nan => cases hs
  | inf _ => cases hs
  | fin ss ms es =>
  cases rd with
  | nan => cases hd
  | inf _ => cases hd
  | fin sd md ed =>
  have hz' : ms = 0 ∨ md = 0 := by
    rcases hz with hz | hz
    · exact Or.inl (by simpa [Raw.isZero] using hz)
    · exact Or.inr (by simpa [Raw.isZero] using hz)
  cases fused with
  | true =>
    simp only [if_true]
    cases rv with
    | nan => rw [show Raw.subMulFused .nan (.fin ss ms es) (.fin sd md ed) = .nan from rfl, ofRaw_val _ rfl]; exact Or.inl rfl
    | inf sv => rw [show Raw.subMulFused (.inf sv) (.fin ss ms es) (.fin sd md ed) = .inf sv from rfl, ofRaw_val _ rfl]; exact Or.inl rfl
    | fin sv m e =>
      rw [fused_zero_raw sv m e hvw ss ms es sd md ed hz']
      have hk := keptRaw_zero_case sv m e hvw (ss ^^ sd)
      have hwf : (if m = 0 then Raw.fin (sv && !(ss ^^ sd)) 0 (-149) else Raw.fin sv m e).wf = true := by
        split
        · rfl
        · exact hvw
      rw [ofRaw_val _ hwf]
      exact hk
  | false =>
    simp only [Bool.false_eq_true, if_false]
    rw [mul_zero_raw ss ms es sd md ed hz', ofRaw_val _ (zero_wf _)]
    cases rv with
    | nan => rw [show Raw.sub .nan (.fin (ss ^^ sd) 0 (-149)) = .nan from rfl, ofRaw_val _ rfl]; exact Or.inl rfl
    | inf sv => rw [show Raw.sub (.inf sv) (.fin (ss ^^ sd) 0 (-149)) = .inf sv from rfl, ofRaw_val _ rfl]; exact Or.inl rfl
    | fin sv m e =>
      rw [sub_zero_raw sv m e hvw]
      have hk := keptRaw_zero_case sv m e hvw (ss ^^ sd)
      have hwf : (if m = 0 then Raw.fin (sv && !(ss ^^ sd)) 0 (-149) else Raw.fin sv m e).wf = true := by
        split
        · rfl
        · exact hvw
      rw [ofRaw_val _ hwf]
      exact hk

/-- `Kept v₀ v`: `v` is `v₀`, or `v₀ = -0` and `v = +0`. -/
def Kept (v0 v : B32) : Prop := v = v0 ∨ (v0 = negZero ∧ v = posZero)

theorem val_inj {a b : B32} (h : a.val = b.val) : a = b := Subtype.ext h

/-- **`subMul_zero` / `subMul_zero_step` at binary32** (fused or not): with finite `s, d` one of
    which is ±0, `v - s*d` returns `v` itself — NaN, ±∞ and every finite value included — except that
    `v = -0` may come back as `+0` (it does iff the product `s*d` is `-0`). -/
theorem subMul_zero_prod (fused : Bool) (v s d : B32)
    (hs : isFinite s = true) (hd : isFinite d = true) (hz : isZero s = true ∨ isZero d = true) :
    Kept v ((scalar fused).subMul v s d) := by
  rcases subMul_zero_prod_raw fused v s d hs hd hz with h | ⟨h1, h2⟩
  · exact Or.inl (val_inj h)
  · exact Or.inr ⟨val_inj h1, val_inj h2⟩

theorem isFinite_of_isZero (x : B32) (h : isZero x = true) : isFinite x = true := by
  unfold isZero at h
  unfold isFinite
  generalize x.val = r at h ⊢
  cases r <;> first | rfl | cases h

/-- `Laws.subMul_zero` away from `-0`, literally. -/
theorem subMul_zero_exact (fused : Bool) (v s : B32) (hv : v ≠ negZero) (hs : isFinite s = true) :
    (scalar fused).subMul v s (scalar fused).zero = v := by
  rcases subMul_zero_prod fused v s posZero hs rfl (Or.inr rfl) with h | ⟨h, _⟩
  · exact h
  · exact absurd h hv

/-- `Laws.subMul_zero_step` away from `-0`, literally. -/
theorem subMul_zero_step_exact (fused : Bool) (v z d : B32) (hv : v ≠ negZero)
    (hz : isZero z = true) (hd : isFinite d = true) :
    (scalar fused).subMul v z d = v := by
  rcases subMul_zero_prod fused v z d (isFinite_of_isZero z hz) hd (Or.inl hz) with h | ⟨h, _⟩
  · exact h
  · exact absurd h hv

theorem keeps (fused : Bool) : Keeps (scalar fused) Kept where
  refl := fun _ => Or.inl rfl
  zero_isZero := rfl
  step := by
    intro v0 v s d hR hs hd
    have hk := subMul_zero_prod fused v s d hs (isFinite_of_isZero d hd) (Or.inr hd)
    rcases hR with rfl | ⟨h0, rfl⟩
    · exact hk
    · rcases hk with hk | ⟨hk, _⟩
      · exact Or.inr ⟨h0, hk⟩
      · exact absurd hk (by decide)

/-- `r - r = +0` for every finite `r`, and `|+0| < EPSILON`. -/
theorem sub_self (r : B32) (hr : isFinite r = true) : sub r r = posZero := by
  apply val_inj
  unfold isFinite at hr
  unfold sub
  generalize r.val = x at hr ⊢
  cases x with
  | nan => cases hr
  | inf _ => cases hr
  | fin s m e =>
    have : Raw.sub (.fin s m e) (.fin s m e) = .fin false 0 (-149) := by
      show roundRaw (Q.sub (toQ s m e) (toQ s m e)) (s && !s) = _
      unfold roundRaw
      rw [if_pos (by show _ * _ - _ * _ = (0 : Int); omega)]
      cases s <;> rfl
    rw [this, ofRaw_val _ rfl]
    rfl

theorem sub_self_small (fused : Bool) (r : B32) (hr : (scalar fused).isFinite r = true) :
    (scalar fused).lt ((scalar fused).abs ((scalar fused).sub r r)) (scalar fused).eps = true := by
  show lt (abs (sub r r)) eps = true
  rw [sub_self r hr]
  decide

/-- a finite quotient has a finite numerator -/
theorem div_finite (a b : B32) (h : isFinite (div a b) = true) : isFinite a = true := by
  unfold isFinite div at *
  generalize a.val = x at h ⊢
  generalize b.val = y at h
  cases x with
  | fin _ _ _ => rfl
  | nan =>
    have : Raw.div .nan y = .nan := by cases y <;> rfl
    rw [this, ofRaw_val _ rfl] at h
    cases h
  | inf s =>
    cases y with
    | nan => rw [show Raw.div (.inf s) .nan = .nan from rfl, ofRaw_val _ rfl] at h; cases h
    | inf t => rw [show Raw.div (.inf s) (.inf t) = .nan from rfl, ofRaw_val _ rfl] at h; cases h
    | fin t n f =>
      rw [show Raw.div (.inf s) (.fin t n f) = .inf (s ^^ t) from rfl, ofRaw_val _ rfl] at h; cases h

/-- `-1` -/
def negOne : B32 := ⟨.fin true 8388608 (-23), rfl⟩

/-- `-0 - (-1)*(+0) = +0`, fused or not -/
theorem subMul_negZero_flips (fused : Bool) :
    (scalar fused).subMul negZero negOne (scalar fused).zero = posZero := by
  cases fused <;> decide

/-- **`Laws` as stated is not satisfiable by binary32**: `subMul_zero` fails at `v = -0`, `s = -1`. -/
theorem not_laws (fused : Bool) (bnd : B32 → Nat) : ¬ Laws (scalar fused) bnd := by
  intro L
  have h := L.subMul_zero negZero negOne rfl
  rw [subMul_negZero_flips] at h
  exact absurd h (by decide)

/-! ### `round` only produces canonical data (the NaN fallback of `ofRaw` is dead code) -/

theorem rne_ge (A N D : Nat) (hD : 0 < D) (h : A * D ≤ N) : A ≤ rne N D := by
  have hq : A ≤ N / D := (Nat.le_div_iff_mul_le hD).mpr h
  unfold rne
  simp only
  split
  · exact hq
  · split
    · omega
    · split <;> omega

theorem rne_le (B N D : Nat) (hD : 0 < D) (h : N ≤ B * D) : rne N D ≤ B := by
  by_cases heq : N = B * D
  · rw [heq, rne_exact B D hD]; exact Nat.le_refl _
  · have hlt : N < B * D := by omega
    have hq : N / D < B := (Nat.div_lt_iff_lt_mul hD).mpr hlt
    unfold rne
    simp only
    split
    · omega
    · split
      · omega
      · split <;> omega

/-- comparing `d·2^F` with `n` for an integer exponent `F ≥ -M`, rescaled by `2^M` -/
theorem conv_le (n d M : Nat) (F : Int) (hM : -(M : Int) ≤ F) :
    d * 2 ^ F.toNat ≤ n * 2 ^ (-F).toNat ↔ d * 2 ^ ((M : Int) + F).toNat ≤ n * 2 ^ M := by
  by_cases hF : 0 ≤ F
  · obtain ⟨f, rfl⟩ := Int.eq_ofNat_of_zero_le hF
    have h1 : ((f : Int)).toNat = f := by omega
    have h2 : (-(f : Int)).toNat = 0 := by omega
    have h3 : ((M : Int) + (f : Int)).toNat = f + M := by omega
    rw [h1, h2, h3, Nat.pow_add, ← Nat.mul_assoc, Nat.pow_zero, Nat.mul_one]
    exact (Nat.mul_le_mul_right_iff (Nat.two_pow_pos M)).symm
  · obtain ⟨g, hg⟩ : ∃ g : Nat, F = -(g : Int) := ⟨(-F).toNat, by omega⟩
    subst hg
    have h1 : (-(g : Int)).toNat = 0 := by omega
    have h2 : (- -(g : Int)).toNat = g := by omega
    have h3 : ((M : Int) + -(g : Int)).toNat = M - g := by omega
    have h4 : M = g + (M - g) := by omega
    rw [h1, h2, h3, Nat.pow_zero, Nat.mul_one]
    conv => rhs; rhs; rw [h4, Nat.pow_add, ← Nat.mul_assoc]
    exact (Nat.mul_le_mul_right_iff (Nat.two_pow_pos (M - g))).symm

/-- `flog2 n d = ⌊log2 (n/d)⌋`: `2^E ≤ n/d < 2^(E+1)` in cross-multiplied form -/
theorem flog2_spec (n d : Nat) (hn : 0 < n) (hd : 0 < d) :
    d * 2 ^ (flog2 n d).toNat ≤ n * 2 ^ (-(flog2 n d)).toNat ∧
    n * 2 ^ (-(flog2 n d + 1)).toNat < d * 2 ^ (flog2 n d + 1).toNat := by
  have ha1 : 2 ^ n.log2 ≤ n := Nat.log2_self_le (by omega)
  have ha2 : n < 2 ^ (n.log2 + 1) := Nat.lt_log2_self
  have hb1 : 2 ^ d.log2 ≤ d := Nat.log2_self_le (by omega)
  have hb2 : d < 2 ^ (d.log2 + 1) := Nat.lt_log2_self
  unfold flog2
  generalize n.log2 = a at *
  generalize d.log2 = b at *
  simp only
  split
  · rename_i htest
    refine ⟨htest, ?_⟩
    by_cases hab : b ≤ a + 1
    · have h1 : ((a : Int) - (b : Int) + 1).toNat = a + 1 - b := by omega
      have h2 : (-((a : Int) - (b : Int) + 1)).toNat = 0 := by omega
      rw [h1, h2, Nat.pow_zero, Nat.mul_one]
      calc n < 2 ^ (a + 1) := ha2
        _ = 2 ^ b * 2 ^ (a + 1 - b) := by rw [← Nat.pow_add]; congr 1; omega
        _ ≤ d * 2 ^ (a + 1 - b) := Nat.mul_le_mul_right _ hb1
    · have h1 : ((a : Int) - (b : Int) + 1).toNat = 0 := by omega
      have h2 : (-((a : Int) - (b : Int) + 1)).toNat = b - a - 1 := by omega
      rw [h1, h2, Nat.pow_zero, Nat.mul_one]
      calc n * 2 ^ (b - a - 1) < 2 ^ (a + 1) * 2 ^ (b - a - 1) :=
            (Nat.mul_lt_mul_right (Nat.two_pow_pos _)).mpr ha2
        _ = 2 ^ b := by rw [← Nat.pow_add]; congr 1; omega
        _ ≤ d := hb1
  · rename_i htest
    have hE : (a : Int) - (b : Int) - 1 + 1 = (a : Int) - (b : Int) := by omega
    refine ⟨?_, by rw [hE]; omega⟩
    by_cases hab : b + 1 ≤ a
    · have h1 : ((a : Int) - (b : Int) - 1).toNat = a - b - 1 := by omega
      have h2 : (-((a : Int) - (b : Int) - 1)).toNat = 0 := by omega
      rw [h1, h2, Nat.pow_zero, Nat.mul_one]
      calc d * 2 ^ (a - b - 1) ≤ 2 ^ (b + 1) * 2 ^ (a - b - 1) := Nat.mul_le_mul_right _ (by omega)
        _ = 2 ^ a := by rw [← Nat.pow_add]; congr 1; omega
        _ ≤ n := ha1
    · have h1 : ((a : Int) - (b : Int) - 1).toNat = 0 := by omega
      have h2 : (-((a : Int) - (b : Int) - 1)).toNat = b + 1 - a := by omega
      rw [h1, h2, Nat.pow_zero, Nat.mul_one]
      calc d ≤ 2 ^ (b + 1) := by omega
        _ = 2 ^ a * 2 ^ (b + 1 - a) := by rw [← Nat.pow_add]; congr 1; omega
        _ ≤ n * 2 ^ (b + 1 - a) := Nat.mul_le_mul_right _ ha1

/-- **`roundPos` always returns canonical data.** -/
theorem roundPos_wf (s : Bool) (n d : Nat) (hn : 0 < n) (hd : 0 < d) : (roundPos s n d).wf = true := by
  obtain ⟨hlo, hhi⟩ := flog2_spec n d hn hd
  unfold roundPos
  generalize flog2 n d = E at *
  -- rescale by 2^M so that every exponent is a natural number
  let M : Nat := E.natAbs + 200
  have hM : M = E.natAbs + 200 := rfl
  rw [conv_le n d M E (by omega)] at hlo
  have hhi' : n * 2 ^ M < d * 2 ^ ((M : Int) + (E + 1)).toNat := by
    have := not_congr (conv_le n d M (E + 1) (by omega))
    omega
  generalize hT : ((M : Int) + E).toNat = T at hlo
  have hT1 : ((M : Int) + (E + 1)).toNat = T + 1 := by omega
  rw [hT1] at hhi'
  simp only
  generalize he : max (E - 23) (-149) = e
  have hDpos : 0 < d * 2 ^ e.toNat := Nat.mul_pos hd (Nat.two_pow_pos _)
  generalize hTe : ((M : Int) + e).toNat = Te
  -- upper bound: n/d < 2^24 grid units
  have hU : n * 2 ^ (-e).toNat ≤ 16777216 * (d * 2 ^ e.toNat) := by
    have h := not_congr (conv_le n (16777216 * d) M e (by omega))
    rw [hTe] at h
    have h2 : n * 2 ^ M < 16777216 * d * 2 ^ Te := by
      calc n * 2 ^ M < d * 2 ^ (T + 1) := hhi'
        _ ≤ d * 2 ^ (Te + 24) := Nat.mul_le_mul_left _ (Nat.pow_le_pow_right (by omega) (by omega))
        _ = 16777216 * d * 2 ^ Te := by rw [Nat.pow_add]; simp [Nat.mul_comm, Nat.mul_left_comm]
    rw [← Nat.mul_assoc]
    omega
  have hm_le := rne_le 16777216 _ _ hDpos hU
  generalize hm : rne (n * 2 ^ (-e).toNat) (d * 2 ^ e.toNat) = m at *
  by_cases hcase : e = E - 23
  · -- 24 significant bits
    have hL : 8388608 * (d * 2 ^ e.toNat) ≤ n * 2 ^ (-e).toNat := by
      have h := conv_le n (8388608 * d) M e (by omega)
      rw [hTe] at h
      rw [← Nat.mul_assoc]
      apply h.mpr
      calc 8388608 * d * 2 ^ Te = d * 2 ^ (Te + 23) := by
            rw [Nat.pow_add]; simp [Nat.mul_comm, Nat.mul_left_comm]
        _ = d * 2 ^ T := by congr 2; omega
        _ ≤ n * 2 ^ M := hlo
    have hm_ge := rne_ge 8388608 _ _ hDpos hL
    rw [hm] at hm_ge
    by_cases h24 : m = 16777216
    · rw [if_pos h24, if_pos h24]
      split
      · rfl
      · rw [Raw.wf_fin_iff]; omega
    · rw [if_neg h24, if_neg h24]
      split
      · rfl
      · rw [Raw.wf_fin_iff]; omega
  · -- the subnormal grid
    have he149 : e = -149 := by omega
    have hU' : n * 2 ^ (-e).toNat ≤ 8388608 * (d * 2 ^ e.toNat) := by
      have h := not_congr (conv_le n (8388608 * d) M e (by omega))
      rw [hTe] at h
      have h2 : n * 2 ^ M < 8388608 * d * 2 ^ Te := by
        calc n * 2 ^ M < d * 2 ^ (T + 1) := hhi'
          _ ≤ d * 2 ^ (Te + 23) := Nat.mul_le_mul_left _ (Nat.pow_le_pow_right (by omega) (by omega))
          _ = 8388608 * d * 2 ^ Te := by rw [Nat.pow_add]; simp [Nat.mul_comm, Nat.mul_left_comm]
      rw [← Nat.mul_assoc]
      omega
    have hm_le' := rne_le 8388608 _ _ hDpos hU'
    rw [hm] at hm_le'
    rw [if_neg (by omega), if_neg (by omega), if_neg (by omega), Raw.wf_fin_iff]
    omega

theorem roundRaw_wf (q : Q) (zs : Bool) (hd : 0 < q.den) : (roundRaw q zs).wf = true := by
  unfold roundRaw
  split
  · rfl
  · exact roundPos_wf _ _ _ (by omega) hd

/-- `round` returns the rounded datum itself: the fallback of `ofRaw` is never taken. -/
theorem round_val (q : Q) (zs : Bool) (hd : 0 < q.den) : (round q zs).val = roundRaw q zs :=
  ofRaw_val _ (roundRaw_wf q zs hd)

theorem toQ_den_pos (s : Bool) (m : Nat) (e : Int) : 0 < (toQ s m e).den := Nat.two_pow_pos _

theorem Raw.sub_wf (a b : Raw) : (Raw.sub a b).wf = true := by
  cases a <;> cases b <;> try rfl
  · show (if _ = _ then Raw.nan else Raw.inf _).wf = true
    split <;> rfl
  · exact roundRaw_wf _ _ (Nat.mul_pos (toQ_den_pos ..) (toQ_den_pos ..))

theorem Raw.mul_wf (a b : Raw) : (Raw.mul a b).wf = true := by
  cases a <;> cases b <;> try rfl
  · show (if _ = 0 then Raw.nan else Raw.inf _).wf = true
    split <;> rfl
  · show (if _ = 0 then Raw.nan else Raw.inf _).wf = true
    split <;> rfl
  · exact roundRaw_wf _ _ (Nat.mul_pos (toQ_den_pos ..) (toQ_den_pos ..))

theorem Raw.div_wf (a b : Raw) : (Raw.div a b).wf = true := by
  cases a <;> cases b <;> try rfl
  rename_i s m e t n f
  show (if n = 0 then (if m = 0 then Raw.nan else Raw.inf (s ^^ t))
    else roundRaw (Q.div (toQ s m e) (toQ t n f)) (s ^^ t)).wf = true
  split
  · split <;> rfl
  · rename_i hn
    apply roundRaw_wf
    show 0 < (toQ s m e).den * (toQ t n f).num.natAbs
    apply Nat.mul_pos (toQ_den_pos ..)
    simp only [toQ]
    rw [sgn_mul_natAbs]
    exact Nat.mul_pos (by omega) (Nat.two_pow_pos _)

theorem Raw.subMulFused_wf (v s d : Raw) (hv : v.wf = true) : (Raw.subMulFused v s d).wf = true := by
  unfold Raw.subMulFused
  split
  · exact roundRaw_wf _ _ (Nat.mul_pos (toQ_den_pos ..) (Nat.mul_pos (toQ_den_pos ..) (toQ_den_pos ..)))
  · exact hv
  · exact Raw.sub_wf _ _

/-- **Every arithmetic operation of the model is literally "exact result, rounded once"**: the
    canonical-form check of `ofRaw` never fails. -/
theorem sub_val (a b : B32) : (sub a b).val = Raw.sub a.val b.val := ofRaw_val _ (Raw.sub_wf _ _)
theorem add_val (a b : B32) : (add a b).val = Raw.add a.val b.val := ofRaw_val _ (Raw.sub_wf _ _)
theorem mul_val (a b : B32) : (mul a b).val = Raw.mul a.val b.val := ofRaw_val _ (Raw.mul_wf _ _)
theorem div_val (a b : B32) : (div a b).val = Raw.div a.val b.val := ofRaw_val _ (Raw.div_wf _ _)
theorem subMulFused_val (v s d : B32) :
    (subMulFused v s d).val = Raw.subMulFused v.val s.val d.val :=
  ofRaw_val _ (Raw.subMulFused_wf _ _ _ v.property)
theorem subMulUnfused_val (v s d : B32) :
    (subMulUnfused v s d).val = Raw.sub v.val (Raw.mul s.val d.val) := by
  unfold subMulUnfused
  rw [sub_val, mul_val]

/-! ### `half` is the correctly rounded division by 2 -/

theorem rne_scale (a b c : Nat) (hc : 0 < c) : rne (a * c) (b * c) = rne a b := by
  unfold rne
  simp only [Nat.mul_div_mul_right a b hc, Nat.mul_mod_mul_right]
  have e1 : 2 * (a % b * c) = (2 * (a % b)) * c := by rw [Nat.mul_assoc]
  rw [e1]
  simp only [Nat.mul_lt_mul_right hc]

theorem half_eq_div_two_raw (x : Raw) (hw : x.wf = true) :
    Raw.div x (.fin false 8388608 (-22)) = x.half := by
  cases x with
  | nan => rfl
  | inf s => show Raw.inf (s ^^ false) = Raw.inf s; rw [Bool.xor_false]
  | fin s m e =>
    have hw' := hw
    rw [Raw.wf_fin_iff] at hw'
    show (if (8388608 : Nat) = 0 then (if m = 0 then Raw.nan else Raw.inf (s ^^ false))
      else roundRaw (Q.div (toQ s m e) (toQ false 8388608 (-22))) (s ^^ false)) = _
    rw [if_neg (by omega), Bool.xor_false]
    have hnum : (Q.div (toQ s m e) (toQ false 8388608 (-22))).num =
        (if s then -1 else 1) * ((m * 2 ^ (e.toNat + 22) : Nat) : Int) := by
      show (toQ s m e).num * ((2 ^ 22 : Nat) : Int) * (1 : Int) = _
      simp only [toQ]
      rw [Int.mul_one, Int.mul_assoc, ← Int.natCast_mul, Nat.pow_add, Nat.mul_assoc]
    have hden : (Q.div (toQ s m e) (toQ false 8388608 (-22))).den = 2 ^ ((-e).toNat + 23) := by
      show (toQ s m e).den * 8388608 = _
      simp only [toQ]
      rw [Nat.pow_add]
    unfold roundRaw
    rw [hnum, hden]
    by_cases hm : m = 0
    · subst hm
      have he : e = -149 := by omega
      subst he
      rw [if_pos (by simp)]
      rfl
    · have hpos : 0 < m * 2 ^ (e.toNat + 22) := Nat.mul_pos (by omega) (Nat.two_pow_pos _)
      rw [if_neg (sgn_mul_ne s _ hpos), sgn_mul_neg s _ hpos, sgn_mul_natAbs]
      by_cases he : -149 < e
      · rw [half_fin_normal s m e he]
        exact roundPos_repr s m (e - 1) _ _ (by rw [Raw.wf_fin_iff]; omega) hm (by omega)
      · have he' : e = -149 := by omega
        subst he'
        rw [half_fin_sub]
        have hlog : m.log2 < 24 := (Nat.log2_lt hm).mpr (by omega)
        unfold roundPos
        rw [flog2_dyadic m _ _ hm]
        have hmax : max (((m.log2 + ((-149 : Int).toNat + 22) : Nat) : Int) -
            (((- (-149 : Int)).toNat + 23 : Nat) : Int) - 23) (-149) = -149 := by omega
        simp only [hmax]
        have hr : rne (m * 2 ^ ((-149 : Int).toNat + 22) * 2 ^ (- (-149 : Int)).toNat)
            (2 ^ ((- (-149 : Int)).toNat + 23) * 2 ^ (-149 : Int).toNat) = rne m 2 := by
          have e1 : (-149 : Int).toNat = 0 := rfl
          have e2 : (- (-149 : Int)).toNat = 149 := rfl
          rw [e1, e2]
          have : m * 2 ^ (0 + 22) * 2 ^ 149 = m * 2 ^ 171 := by
            rw [Nat.mul_assoc, ← Nat.pow_add]
          rw [this]
          have : 2 ^ (149 + 23) * 2 ^ 0 = 2 * 2 ^ 171 := by
            rw [Nat.pow_zero, Nat.mul_one, show 149 + 23 = 171 + 1 by rfl, Nat.pow_succ, Nat.mul_comm]
          rw [this]
          exact rne_scale m 2 _ (Nat.two_pow_pos _)
        rw [hr]
        have := rne_two_le m
        rw [if_neg (by omega), if_neg (by omega), if_neg (by omega)]

/-- **`step /= 2` is modelled faithfully**: the directly written `half` is the generic correctly
    rounded `div` by `2.0f`, for every binary32 value. -/
theorem half_eq_div_two (x : B32) : half x = div x two := by
  apply val_inj
  rw [div_val]
  exact (half_eq_div_two_raw x.val x.property).symm

end Libfive.B32
