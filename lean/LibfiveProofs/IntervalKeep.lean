/-
  Helper lemmas joining C02 and C05: the keep function of `IntervalEvaluator::push`
  (`intervalKeep`, computed from the interval slots) is sound, in the sense `Tape::push` needs
  (`KeepSound`), at EVERY point whose slot values are enclosed by the interval slots.
-/
import LibfiveProofs.Interval
import LibfiveProofs.TapePush

set_option linter.unusedSectionVars false
set_option linter.unusedVariables false

namespace Libfive.Ivl

open FVal Libfive

variable {K : Type} [Field K] [LinearOrder K] [IsStrictOrderedRing K]

theorem lt_irrefl' (x : FVal K) : FVal.lt x x = false := by
  cases x <;> simp [FVal.lt]

theorem lt_asymm' {x y : FVal K} (h : FVal.lt x y = true) : FVal.lt y x = false := by
  cases x <;> cases y <;> simp_all [FVal.lt]
  exact le_of_lt h

theorem isNan_false_of_ne {x : FVal K} (h : x ≠ nan) : x.isNan = false := by
  cases x <;> simp_all [FVal.isNan]

theorem isNan_true_iff {x : FVal K} : x.isNan = true ↔ x = nan := by
  cases x <;> simp [FVal.isNan]

/-- separated bounds order the enclosed non-NaN values strictly -/
theorem lt_of_sep {A B : IVal K} {a b : FVal K} (ha : enclS A a) (hb : enclS B b)
    (hna : a ≠ nan) (hnb : b ≠ nan) (hsep : FVal.lt A.hi B.lo = true) : FVal.lt a b = true := by
  obtain ⟨_, _, h2⟩ := ha.inB_of_ne hna
  obtain ⟨_, h3, _⟩ := hb.inB_of_ne hnb
  exact flt_of_lt_of_le (flt_of_le_of_lt h2 hsep) h3

theorem ne_nan_of_safe {A : IVal K} {a : FVal K} (ha : enclS A a) (hs : A.mn = false) : a ≠ nan := by
  rintro rfl
  have := ha.mn_of_nan
  simp [hs] at this

/-- the point kernel's `max`: first operand on NaN, else the larger one -/
theorem pmax_keep_a {A B : IVal K} {a b : FVal K} (ha : enclS A a) (hb : enclS B b)
    (hsep : FVal.lt B.hi A.lo = true) : pmax a b = a := by
  unfold pmax
  by_cases hn : (a.isNan || b.isNan) = true
  · simp [hn]
  · simp only [hn, Bool.false_eq_true, if_false]
    simp only [Bool.or_eq_true, not_or, Bool.not_eq_true] at hn
    have hna : a ≠ nan := fun h => by simp [h, FVal.isNan] at hn
    have hnb : b ≠ nan := fun h => by simp [h, FVal.isNan] at hn
    have := lt_asymm' (lt_of_sep hb ha hnb hna hsep)
    simp [this]

theorem pmax_keep_b {A B : IVal K} {a b : FVal K} (ha : enclS A a) (hb : enclS B b)
    (hsep : FVal.lt A.hi B.lo = true) (sa : A.mn = false) (sb : B.mn = false) : pmax a b = b := by
  unfold pmax
  have hna := ne_nan_of_safe ha sa
  have hnb := ne_nan_of_safe hb sb
  simp [isNan_false_of_ne hna, isNan_false_of_ne hnb, lt_of_sep ha hb hna hnb hsep]

theorem pmin_keep_a {A B : IVal K} {a b : FVal K} (ha : enclS A a) (hb : enclS B b)
    (hsep : FVal.lt A.hi B.lo = true) : pmin a b = a := by
  unfold pmin
  by_cases hn : (a.isNan || b.isNan) = true
  · simp [hn]
  · simp only [hn, Bool.false_eq_true, if_false]
    simp only [Bool.or_eq_true, not_or, Bool.not_eq_true] at hn
    have hna : a ≠ nan := fun h => by simp [h, FVal.isNan] at hn
    have hnb : b ≠ nan := fun h => by simp [h, FVal.isNan] at hn
    have := lt_asymm' (lt_of_sep ha hb hna hnb hsep)
    simp [this]

theorem pmin_keep_b {A B : IVal K} {a b : FVal K} (ha : enclS A a) (hb : enclS B b)
    (hsep : FVal.lt B.hi A.lo = true) (sa : A.mn = false) (sb : B.mn = false) : pmin a b = b := by
  unfold pmin
  have hna := ne_nan_of_safe ha sa
  have hnb := ne_nan_of_safe hb sb
  simp [isNan_false_of_ne hna, isNan_false_of_ne hnb, lt_of_sep hb ha hnb hna hsep]

theorem pmax_self (a : FVal K) : pmax a a = a := by
  unfold pmax; by_cases h : a.isNan = true <;> simp [h, lt_irrefl']
theorem pmin_self (a : FVal K) : pmin a a = a := by
  unfold pmin; by_cases h : a.isNan = true <;> simp [h, lt_irrefl']

/-- The interval keep function, on interval slots `I` that enclose the point slot values (strong
    invariant `enclS`), is sound at that point. -/
theorem intervalKeep_keepSound (pev : Op → FVal K → FVal K → FVal K)
    (hmin : ∀ a b, pev Op.min a b = pmin a b) (hmax : ∀ a b, pev Op.max a b = pmax a b)
    (porc : Nat → FVal K) (t : List Clause) (v0 : Nat → FVal K) (hwf : WF t)
    (I : Nat → IVal K) (henc : ∀ s, enclS (I s) (evalList pev porc t v0 s)) :
    KeepSound (evalList pev porc t v0)
      (intervalKeep FVal.lt (fun s => (I s).lo) (fun s => (I s).hi) (fun s => !(I s).mn)) t := by
  intro c hc
  have hfix := evalList_fix pev porc t v0 hwf c hc
  have ea := henc c.a
  have eb := henc c.b
  by_cases h1 : c.op = Op.max
  · have hval : evalList pev porc t v0 c.id
        = pmax (evalList pev porc t v0 c.a) (evalList pev porc t v0 c.b) := by
      rw [hfix]; simp [evalClause, h1, hmax]
    refine ⟨fun ho => by simp [h1] at ho, ?_, ?_⟩
    · intro hk
      simp only [intervalKeep, h1, if_true] at hk
      by_cases e : c.a = c.b
      · rw [hval, ← e]; exact pmax_self _
      · simp only [e, if_false] at hk
        by_cases s1 : FVal.lt (I c.b).hi (I c.a).lo = true
        · rw [hval]; exact pmax_keep_a ea eb s1
        · simp only [s1, Bool.false_eq_true, if_false] at hk
          split at hk <;> cases hk
    · intro hk
      simp only [intervalKeep, h1, if_true] at hk
      by_cases e : c.a = c.b
      · simp [e] at hk
      · simp only [e, if_false] at hk
        by_cases s1 : FVal.lt (I c.b).hi (I c.a).lo = true
        · simp [s1] at hk
        · simp only [s1, Bool.false_eq_true, if_false] at hk
          by_cases s2 : (FVal.lt (I c.a).hi (I c.b).lo && !(I c.a).mn && !(I c.b).mn) = true
          · simp only [Bool.and_eq_true, Bool.not_eq_true'] at s2
            rw [hval]; exact pmax_keep_b ea eb s2.1.1 s2.1.2 s2.2
          · simp [s2] at hk
  · by_cases h2 : c.op = Op.min
    · have hval : evalList pev porc t v0 c.id
          = pmin (evalList pev porc t v0 c.a) (evalList pev porc t v0 c.b) := by
        rw [hfix]; simp [evalClause, h2, hmin]
      have hform : intervalKeep FVal.lt (fun s => (I s).lo) (fun s => (I s).hi) (fun s => !(I s).mn) c
          = (if c.a = c.b then Keep.a
             else if (FVal.lt (I c.b).hi (I c.a).lo && !(I c.a).mn && !(I c.b).mn) = true then Keep.b
             else if FVal.lt (I c.a).hi (I c.b).lo = true then Keep.a else Keep.both) := by
        unfold intervalKeep; rw [if_neg h1, if_pos h2]
      refine ⟨fun ho => by simp [h2] at ho, ?_, ?_⟩
      · intro hk
        rw [hform] at hk
        by_cases e : c.a = c.b
        · rw [hval, ← e]; exact pmin_self _
        · rw [if_neg e] at hk
          by_cases s1 : (FVal.lt (I c.b).hi (I c.a).lo && !(I c.a).mn && !(I c.b).mn) = true
          · rw [if_pos s1] at hk; cases hk
          · rw [if_neg s1] at hk
            by_cases s2 : FVal.lt (I c.a).hi (I c.b).lo = true
            · rw [hval]; exact pmin_keep_a ea eb s2
            · rw [if_neg s2] at hk; cases hk
      · intro hk
        rw [hform] at hk
        by_cases e : c.a = c.b
        · rw [if_pos e] at hk; cases hk
        · rw [if_neg e] at hk
          by_cases s1 : (FVal.lt (I c.b).hi (I c.a).lo && !(I c.a).mn && !(I c.b).mn) = true
          · simp only [Bool.and_eq_true, Bool.not_eq_true'] at s1
            rw [hval]; exact pmin_keep_b ea eb s1.1.1 s1.1.2 s1.2
          · rw [if_neg s1] at hk
            by_cases s2 : FVal.lt (I c.a).hi (I c.b).lo = true
            · rw [if_pos s2] at hk; cases hk
            · rw [if_neg s2] at hk; cases hk
    · have hk0 : intervalKeep FVal.lt (fun s => (I s).lo) (fun s => (I s).hi) (fun s => !(I s).mn) c
          = Keep.always := by simp [intervalKeep, h1, h2]
      refine ⟨fun _ => by rw [hk0]; exact ⟨by decide, by decide⟩, ?_, ?_⟩ <;>
        (intro hk; rw [hk0] at hk; cases hk)

end Libfive.Ivl
