/-
  Helper lemmas for C08 (archive round trip).  Core Lean only.
-/
import LibfiveModel.Serialize

namespace Libfive.Serial

/-! ## bytes and words -/

theorem byte_toNat_ofNat (n : Nat) (h : n < 256) : (UInt8.ofNat n).toNat = n := by
  simp [Nat.mod_eq_of_lt h]

theorem u32_decode_encode (v : UInt32) :
    UInt32.ofNat ((UInt8.ofNat (v.toNat % 256)).toNat + 256 * (UInt8.ofNat (v.toNat / 256 % 256)).toNat
      + 65536 * (UInt8.ofNat (v.toNat / 65536 % 256)).toNat
      + 16777216 * (UInt8.ofNat (v.toNat / 16777216 % 256)).toNat) = v := by
  have hv : v.toNat < 4294967296 := v.toNat_lt
  rw [byte_toNat_ofNat _ (Nat.mod_lt _ (by decide)), byte_toNat_ofNat _ (Nat.mod_lt _ (by decide)),
      byte_toNat_ofNat _ (Nat.mod_lt _ (by decide)), byte_toNat_ofNat _ (Nat.mod_lt _ (by decide))]
  have : v.toNat % 256 + 256 * (v.toNat / 256 % 256) + 65536 * (v.toNat / 65536 % 256)
      + 16777216 * (v.toNat / 16777216 % 256) = v.toNat := by omega
  rw [this]
  exact UInt32.ofNat_toNat

theorem readU32_u32le (v : UInt32) (rest : List Byte) :
    IStream.readU32 { data := u32le v ++ rest, eof := false } = (some v, { data := rest, eof := false }) := by
  simp only [u32le, IStream.readU32, List.cons_append, List.nil_append, Bool.false_eq_true, if_false]
  rw [u32_decode_encode]

theorem get_cons (b : Byte) (rest : List Byte) :
    IStream.get { data := b :: rest, eof := false } = (some b, { data := rest, eof := false }) := by
  simp [IStream.get]

/-! ## strings -/

theorem backslash_ne_quote : BACKSLASH ≠ QUOTE := by decide

theorem readStrBody_quote (rest : List Byte) :
    readStrBody (QUOTE :: rest) = ([], { data := rest, eof := false }) := by
  rw [readStrBody.eq_def]; simp

theorem readStrBody_esc (d : Byte) (rest : List Byte) :
    readStrBody (BACKSLASH :: d :: rest) = (d :: (readStrBody rest).1, (readStrBody rest).2) := by
  rw [readStrBody.eq_def]; simp [backslash_ne_quote]

theorem readStrBody_plain (c : Byte) (rest : List Byte) (hq : c ≠ QUOTE) (hb : c ≠ BACKSLASH) :
    readStrBody (c :: rest) = (c :: (readStrBody rest).1, (readStrBody rest).2) := by
  rw [readStrBody.eq_def]; simp [hq, hb]

theorem readStrBody_write (s rest : List Byte) :
    readStrBody (writeStringBody s ++ QUOTE :: rest) = (s, { data := rest, eof := false }) := by
  induction s with
  | nil => simp [writeStringBody, readStrBody_quote]
  | cons c s ih =>
    by_cases hq : c = QUOTE
    · subst hq
      simp [writeStringBody, readStrBody_esc, ih]
    · by_cases hb : c = BACKSLASH
      · subst hb
        simp [writeStringBody, readStrBody_esc, ih]
      · simp [writeStringBody, hq, hb, readStrBody_plain, ih]

theorem readString_write (s rest : List Byte) :
    readString { data := writeString s ++ rest, eof := false }
      = (s, { data := rest, eof := false }, []) := by
  simp [readString, writeString, IStream.get, readStrBody_write]

end Libfive.Serial
