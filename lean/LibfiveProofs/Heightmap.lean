/-
  C09 — helper lemmas for LibfiveTheorems/C09.lean (model: LibfiveModel/Heightmap.lean).
  Core Lean only (`omega`, `simp`); no Mathlib needed.
-/
import LibfiveModel.Heightmap

namespace Libfive.Heightmap

/-! ### View.split: exact partition of the voxel set -/

theorem split_mem (ax ay az : Bool) (v : View) (i j k : Nat) :
    (v.mem i j k ↔ ((v.split ax ay az).1.mem i j k ∨ (v.split ax ay az).2.mem i j k)) ∧
    ¬ ((v.split ax ay az).1.mem i j k ∧ (v.split ax ay az).2.mem i j k) := by
  unfold View.split
  cases pickAxis ax ay az v <;> simp only [View.mem] <;> omega

theorem split_voxels (ax ay az : Bool) (v : View) :
    (v.split ax ay az).1.voxels + (v.split ax ay az).2.voxels = v.voxels := by
  unfold View.split
  cases pickAxis ax ay az v <;> simp only [View.voxels]
  · rw [← Nat.add_mul, ← Nat.add_mul]; congr 2; omega
  · rw [← Nat.add_mul, ← Nat.mul_add]; congr 2; omega
  · rw [← Nat.mul_add]; congr 1; omega

/-! ### depth image and block loops -/

theorem Img.get_set_ne (m : Img) (i j : Nat) (d : Int) (i' j' : Nat) (h : ¬ (i' = i ∧ j' = j)) :
    (m.set i j d).get i' j' = m.get i' j' := by
  unfold Img.get Img.set
  simp only [Array.getElem?_modify]
  by_cases hj : j = j'
  · subst hj
    cases hr : m.rows[j]? with
    | none => simp
    | some r =>
      simp only [if_true, Option.map_some, Option.getD_some, Array.getElem?_setIfInBounds]
      have hi : ¬ i = i' := fun e => h ⟨e.symm, rfl⟩
      simp [hi]
  · simp [hj]

theorem Img.get_set_eq (m : Img) (i j : Nat) (d : Int) (h : m.inb i j) :
    (m.set i j d).get i j = d := by
  obtain ⟨r, hr, hs⟩ := h
  unfold Img.get Img.set
  simp [Array.getElem?_modify, hr, hs]

theorem Img.inb_set (m : Img) (i j : Nat) (d : Int) (i' j' : Nat) :
    (m.set i j d).inb i' j' ↔ m.inb i' j' := by
  unfold Img.set Img.inb
  simp only [Array.getElem?_modify]
  by_cases hj : j = j'
  · subst hj
    cases h : m.rows[j]? with
    | none => simp
    | some r => simp
  · simp [hj]

theorem colLoop_spec (u : Nat → Nat → Int → Int) (i cy : Nat) : ∀ (n : Nat) (m : Img),
    (∀ dj, dj < n → m.inb i (cy + dj)) →
    (∀ i' j', (iter n (fun dj m => m.set i (cy + dj) (u i (cy + dj) (m.get i (cy + dj)))) m).inb i' j' ↔ m.inb i' j') ∧
    (∀ i' j', (iter n (fun dj m => m.set i (cy + dj) (u i (cy + dj) (m.get i (cy + dj)))) m).get i' j' =
        if i' = i ∧ cy ≤ j' ∧ j' < cy + n then u i j' (m.get i j') else m.get i' j') := by
  intro n
  induction n with
  | zero =>
    intro m _
    refine ⟨fun _ _ => Iff.rfl, fun i' j' => ?_⟩
    have : ¬ (i' = i ∧ cy ≤ j' ∧ j' < cy + 0) := by omega
    simp only [iter]
    rw [if_neg this]
  | succ n ih =>
    intro m hin
    obtain ⟨ih1, ih2⟩ := ih m (fun dj h => hin dj (by omega))
    simp only [iter]
    refine ⟨fun i' j' => ?_, fun i' j' => ?_⟩
    · rw [Img.inb_set]; exact ih1 i' j'
    · have hb : (iter n (fun dj m => m.set i (cy + dj) (u i (cy + dj) (m.get i (cy + dj)))) m).inb i (cy + n) :=
        (ih1 _ _).2 (hin n (by omega))
      by_cases h1 : i' = i ∧ j' = cy + n
      · obtain ⟨rfl, rfl⟩ := h1
        rw [Img.get_set_eq _ _ _ _ hb, ih2]
        have c1 : ¬ (i' = i' ∧ cy ≤ cy + n ∧ cy + n < cy + n) := by omega
        have c2 : i' = i' ∧ cy ≤ cy + n ∧ cy + n < cy + (n + 1) := by omega
        rw [if_neg c1, if_pos c2]
      · rw [Img.get_set_ne _ _ _ _ _ _ h1, ih2]
        by_cases h2 : i' = i ∧ cy ≤ j' ∧ j' < cy + n
        · have : i' = i ∧ cy ≤ j' ∧ j' < cy + (n + 1) := by omega
          rw [if_pos h2, if_pos this]
        · have : ¬ (i' = i ∧ cy ≤ j' ∧ j' < cy + (n + 1)) := by omega
          rw [if_neg h2, if_neg this]

theorem blockMap_spec (u : Nat → Nat → Int → Int) (v : View) (m : Img)
    (hin : ∀ i j, v.memXY i j → m.inb i j) :
    (∀ i j, (blockMap u v m).inb i j ↔ m.inb i j) ∧
    (∀ i j, (blockMap u v m).get i j = if v.memXY i j then u i j (m.get i j) else m.get i j) := by
  unfold blockMap
  suffices H : ∀ n, n ≤ v.sx →
      (∀ i j, (iter n (fun di m => iter v.sy (fun dj m =>
          m.set (v.cx + di) (v.cy + dj) (u (v.cx + di) (v.cy + dj) (m.get (v.cx + di) (v.cy + dj)))) m) m).inb i j ↔ m.inb i j) ∧
      (∀ i j, (iter n (fun di m => iter v.sy (fun dj m =>
          m.set (v.cx + di) (v.cy + dj) (u (v.cx + di) (v.cy + dj) (m.get (v.cx + di) (v.cy + dj)))) m) m).get i j =
        if v.cx ≤ i ∧ i < v.cx + n ∧ v.cy ≤ j ∧ j < v.cy + v.sy then u i j (m.get i j) else m.get i j) by
    obtain ⟨h1, h2⟩ := H v.sx (Nat.le_refl _)
    refine ⟨h1, fun i j => ?_⟩
    rw [h2]
    rfl
  intro n
  induction n with
  | zero =>
    intro _
    refine ⟨fun _ _ => Iff.rfl, fun i j => ?_⟩
    have : ¬ (v.cx ≤ i ∧ i < v.cx + 0 ∧ v.cy ≤ j ∧ j < v.cy + v.sy) := by omega
    simp only [iter]
    rw [if_neg this]
  | succ n ih =>
    intro hn
    obtain ⟨ih1, ih2⟩ := ih (by omega)
    simp only [iter]
    generalize hM : (iter n (fun di m => iter v.sy (fun dj m =>
          m.set (v.cx + di) (v.cy + dj) (u (v.cx + di) (v.cy + dj) (m.get (v.cx + di) (v.cy + dj)))) m) m) = M at ih1 ih2 ⊢
    have hcol := colLoop_spec u (v.cx + n) v.cy v.sy M (fun dj hdj =>
      (ih1 _ _).2 (hin _ _ (by unfold View.memXY; omega)))
    obtain ⟨c1, c2⟩ := hcol
    refine ⟨fun i j => (c1 i j).trans (ih1 i j), fun i j => ?_⟩
    rw [c2, ih2, ih2]
    by_cases hA : i = v.cx + n ∧ v.cy ≤ j ∧ j < v.cy + v.sy
    · have hB : ¬ (v.cx ≤ v.cx + n ∧ v.cx + n < v.cx + n ∧ v.cy ≤ j ∧ j < v.cy + v.sy) := by omega
      have hC : v.cx ≤ i ∧ i < v.cx + (n + 1) ∧ v.cy ≤ j ∧ j < v.cy + v.sy := by omega
      obtain ⟨rfl, _⟩ := hA
      rw [if_pos (by omega), if_neg hB, if_pos hC]
    · rw [if_neg hA]
      by_cases hD : v.cx ≤ i ∧ i < v.cx + n ∧ v.cy ≤ j ∧ j < v.cy + v.sy
      · rw [if_pos hD, if_pos (by omega)]
      · rw [if_neg hD, if_neg (by omega)]

theorem blockAll_spec (p : Int → Bool) (v : View) (m : Img) :
    blockAll p v m = true ↔ ∀ i j, v.memXY i j → p (m.get i j) = true := by
  unfold blockAll View.memXY
  simp only [List.all_eq_true, List.mem_range]
  constructor
  · intro h i j hm
    have := h (i - v.cx) (by omega) (j - v.cy) (by omega)
    have e1 : v.cx + (i - v.cx) = i := by omega
    have e2 : v.cy + (j - v.cy) = j := by omega
    rw [e1, e2] at this
    exact this
  · intro h di hdi dj hdj
    exact h _ _ (by omega)

/-! ### column scan -/

/-- heights are weakly increasing in the voxel index -/
def Mono (zr : Nat → Int) : Prop := ∀ a b, a ≤ b → zr a ≤ zr b

/-- the interval oracle is sound for the classifier -/
def Sound (f : Nat → Nat → Nat → Bool) (I : View → IState) : Prop :=
  ∀ v, (I v = IState.filled → ∀ i j k, v.mem i j k → f i j k = true) ∧
       (I v = IState.empty → ∀ i j k, v.mem i j k → f i j k = false)

theorem scanCol_none (f : Nat → Nat → Nat → Bool) (i j cz : Nat) : ∀ n,
    scanCol f i j cz n = none ↔ ∀ k, cz ≤ k → k < cz + n → f i j k = false := by
  intro n
  induction n with
  | zero => simp [scanCol]; intro k h1 h2; omega
  | succ n ih =>
    simp only [scanCol]
    by_cases hf : f i j (cz + n) = true
    · simp only [hf, if_true]
      constructor
      · intro h; cases h
      · intro h; have := h (cz + n) (by omega) (by omega); rw [hf] at this; cases this
    · have hf0 : f i j (cz + n) = false := by simpa using hf
      simp only [hf0, Bool.false_eq_true, if_false]
      rw [ih]
      constructor
      · intro h k h1 h2
        by_cases hk : k = cz + n
        · subst hk; simpa using hf
        · exact h k h1 (by omega)
      · intro h k h1 h2; exact h k h1 (by omega)

theorem scanCol_some (f : Nat → Nat → Nat → Bool) (i j cz : Nat) : ∀ n k,
    scanCol f i j cz n = some k ↔
      (cz ≤ k ∧ k < cz + n ∧ f i j k = true ∧ ∀ k', k < k' → k' < cz + n → f i j k' = false) := by
  intro n
  induction n with
  | zero => intro k; simp [scanCol]; intro h1 h2; omega
  | succ n ih =>
    intro k
    simp only [scanCol]
    by_cases hf : f i j (cz + n) = true
    · simp only [hf, if_true, Option.some.injEq]
      constructor
      · intro h; subst h
        exact ⟨by omega, by omega, hf, fun k' h1 h2 => by omega⟩
      · intro ⟨h1, h2, h3, h4⟩
        by_cases hk : k = cz + n
        · exact hk.symm
        · have := h4 (cz + n) (by omega) (by omega); rw [hf] at this; cases this
    · have hf0 : f i j (cz + n) = false := by simpa using hf
      simp only [hf0, Bool.false_eq_true, if_false]
      rw [ih]
      have hf' : f i j (cz + n) = false := by simpa using hf
      constructor
      · intro ⟨h1, h2, h3, h4⟩
        refine ⟨h1, by omega, h3, fun k' a b => ?_⟩
        by_cases hk : k' = cz + n
        · subst hk; exact hf'
        · exact h4 k' a (by omega)
      · intro ⟨h1, h2, h3, h4⟩
        have : k ≠ cz + n := fun e => by subst e; rw [hf'] at h3; cases h3
        exact ⟨h1, by omega, h3, fun k' a b => h4 k' a (by omega)⟩

/-- brute-force value of one column: max of the old depth and the height of the topmost inside voxel -/
def colSpec (f : Nat → Nat → Nat → Bool) (zr : Nat → Int) (i j cz n : Nat) (d : Int) : Int :=
  match scanCol f i j cz n with
  | some k => max d (zr k)
  | none => d

theorem colSpec_of_ge (f : Nat → Nat → Nat → Bool) (zr : Nat → Int) (hz : Mono zr) (i j cz n : Nat) (d : Int)
    (h : zr (cz + n - 1) ≤ d) : colSpec f zr i j cz n d = d := by
  unfold colSpec
  cases hs : scanCol f i j cz n with
  | none => rfl
  | some k =>
    obtain ⟨h1, h2, _, _⟩ := (scanCol_some f i j cz n k).1 hs
    have := hz k (cz + n - 1) (by omega)
    simp only [Int.max_def]
    split <;> omega

theorem colSpec_split (f : Nat → Nat → Nat → Bool) (zr : Nat → Int) (hz : Mono zr) (i j cz lo : Nat) :
    ∀ up d, colSpec f zr i j cz (lo + up) d = colSpec f zr i j cz lo (colSpec f zr i j (cz + lo) up d) := by
  intro up
  induction up with
  | zero => intro d; simp [colSpec, scanCol]
  | succ up ih =>
    intro d
    by_cases hf : f i j (cz + lo + up) = true
    · have e1 : scanCol f i j cz (lo + (up + 1)) = some (cz + lo + up) := by
        show scanCol f i j cz ((lo + up) + 1) = _
        simp only [scanCol]
        rw [show cz + (lo + up) = cz + lo + up by omega, hf]; rfl
      have e2 : scanCol f i j (cz + lo) (up + 1) = some (cz + lo + up) := by
        simp only [scanCol]; rw [hf]; rfl
      have e3 : colSpec f zr i j (cz + lo) (up + 1) d = max d (zr (cz + lo + up)) := by
        unfold colSpec; rw [e2]
      rw [e3]
      have e4 : colSpec f zr i j cz (lo + (up + 1)) d = max d (zr (cz + lo + up)) := by
        unfold colSpec; rw [e1]
      rw [e4]
      symm
      apply colSpec_of_ge f zr hz
      have := hz (cz + lo - 1) (cz + lo + up) (by omega)
      simp only [Int.max_def]
      split <;> omega
    · have hf' : f i j (cz + lo + up) = false := by simpa using hf
      have e1 : scanCol f i j cz (lo + (up + 1)) = scanCol f i j cz (lo + up) := by
        show scanCol f i j cz ((lo + up) + 1) = _
        simp only [scanCol]
        rw [show cz + (lo + up) = cz + lo + up by omega, hf']; rfl
      have e2 : scanCol f i j (cz + lo) (up + 1) = scanCol f i j (cz + lo) up := by
        simp only [scanCol]; rw [hf']; rfl
      have := ih d
      unfold colSpec at this ⊢
      rw [e1, e2]
      exact this

theorem pixelUpd_eq (f : Nat → Nat → Nat → Bool) (zr : Nat → Int) (hz : Mono zr) (v : View) (i j : Nat) (d : Int) :
    pixelUpd f zr v i j d = colSpec f zr i j v.cz v.sz d := by
  unfold pixelUpd top
  by_cases h : d < zr (v.cz + v.sz - 1)
  · rw [if_pos h]
    unfold colSpec
    cases scanCol f i j v.cz v.sz with
    | none => rfl
    | some k =>
      simp only [Int.max_def]
      split <;> split <;> omega
  · rw [if_neg h]
    exact (colSpec_of_ge f zr hz i j v.cz v.sz d (by omega)).symm

theorem fillUpd_eq (f : Nat → Nat → Nat → Bool) (zr : Nat → Int) (v : View) (i j : Nat) (d : Int)
    (hsz : 1 ≤ v.sz) (hall : ∀ k, v.cz ≤ k → k < v.cz + v.sz → f i j k = true) :
    fillUpd zr v d = colSpec f zr i j v.cz v.sz d := by
  have hs : scanCol f i j v.cz v.sz = some (v.cz + v.sz - 1) :=
    (scanCol_some f i j v.cz v.sz _).2 ⟨by omega, by omega, hall _ (by omega) (by omega), fun k' a b => by omega⟩
  unfold fillUpd top colSpec
  rw [hs]
  simp only [Int.max_def]
  split <;> split <;> omega

theorem colSpec_none (f : Nat → Nat → Nat → Bool) (zr : Nat → Int) (i j cz n : Nat) (d : Int)
    (h : ∀ k, cz ≤ k → k < cz + n → f i j k = false) : colSpec f zr i j cz n d = d := by
  unfold colSpec
  rw [(scanCol_none f i j cz n).2 h]

/-! ### brute-force characterisation of a pixel (the specification side) -/

/-- brute-force characterisation of one pixel: `new` is the old depth if no voxel of the column range
    is inside, else the max of the old depth and the height of the topmost inside voxel -/
def IsBrute (f : Nat → Nat → Nat → Bool) (zr : Nat → Int) (i j cz sz : Nat) (old new : Int) : Prop :=
  ((∀ k, cz ≤ k → k < cz + sz → f i j k = false) → new = old) ∧
  (∀ k, cz ≤ k → k < cz + sz → f i j k = true → (∀ k', k < k' → k' < cz + sz → f i j k' = false) →
      new = max old (zr k))

theorem colSpec_isBrute (f : Nat → Nat → Nat → Bool) (zr : Nat → Int) (i j cz sz : Nat) (d : Int) :
    IsBrute f zr i j cz sz d (colSpec f zr i j cz sz d) := by
  constructor
  · intro h; exact colSpec_none f zr i j cz sz d h
  · intro k h1 h2 h3 h4
    unfold colSpec
    rw [(scanCol_some f i j cz sz k).2 ⟨h1, h2, h3, h4⟩]

/-! ### recurse -/

theorem voxels_le_one (v : View) (h : v.sx ≤ 1 ∧ v.sy ≤ 1 ∧ v.sz ≤ 1) : v.voxels ≤ 1 := by
  unfold View.voxels
  have := Nat.mul_le_mul (Nat.mul_le_mul h.1 h.2.1) h.2.2
  simpa using this

theorem voxels_pos (v : View) (h : 0 < v.voxels) : 1 ≤ v.sx ∧ 1 ≤ v.sy ∧ 1 ≤ v.sz := by
  unfold View.voxels at h
  refine ⟨?_, ?_, ?_⟩
  · cases hx : v.sx with
    | zero => rw [hx] at h; simp at h
    | succ n => omega
  · cases hx : v.sy with
    | zero => rw [hx] at h; simp at h
    | succ n => omega
  · cases hx : v.sz with
    | zero => rw [hx] at h; simp at h
    | succ n => omega

theorem pickAxis_all_max (v : View) :
    v.sx ≤ v.size (pickAxis true true true v) ∧ v.sy ≤ v.size (pickAxis true true true v) ∧
    v.sz ≤ v.size (pickAxis true true true v) := by
  unfold pickAxis
  simp only [if_true]
  split
  · simp only [View.size]; omega
  · split
    · simp only [View.size]; omega
    · simp only [View.size]; omega

theorem recurse_spec (N : Nat) (f : Nat → Nat → Nat → Bool) (zr : Nat → Int) (I : View → IState)
    (hN : 1 ≤ N) (hz : Mono zr) (hI : Sound f I) :
    ∀ fuel (v : View) (m : Img), v.sx + v.sy + v.sz ≤ fuel → (∀ i j, v.memXY i j → m.inb i j) →
      (∀ i j, (recurse N f zr I fuel v m).inb i j ↔ m.inb i j) ∧
      (∀ i j, (recurse N f zr I fuel v m).get i j =
          if v.memXY i j then colSpec f zr i j v.cz v.sz (m.get i j) else m.get i j) := by
  intro fuel
  induction fuel with
  | zero =>
    intro v m hf _
    refine ⟨fun _ _ => Iff.rfl, fun i j => ?_⟩
    have : ¬ v.memXY i j := by unfold View.memXY; omega
    simp only [recurse]; rw [if_neg this]
  | succ fuel ih =>
    intro v m hf hin
    rw [recurse]
    split
    · -- skip: every pixel of the block is already at or above the top layer
      rename_i hskip
      rw [blockAll_spec] at hskip
      refine ⟨fun _ _ => Iff.rfl, fun i j => ?_⟩
      by_cases hm : v.memXY i j
      · rw [if_pos hm]
        have := hskip i j hm
        exact (colSpec_of_ge f zr hz i j v.cz v.sz _ (of_decide_eq_true this)).symm
      · rw [if_neg hm]
    · split
      · -- pixels
        obtain ⟨b1, b2⟩ := blockMap_spec (pixelUpd f zr v) v m hin
        refine ⟨b1, fun i j => ?_⟩
        show (blockMap (pixelUpd f zr v) v m).get i j = _
        rw [b2, pixelUpd_eq f zr hz]
      · rename_i hvox
        have hv2 : 2 ≤ v.voxels := by omega
        have hpos := voxels_pos v (by omega)
        cases hIv : I v with
        | filled =>
          dsimp only
          obtain ⟨b1, b2⟩ := blockMap_spec (fun _ _ => fillUpd zr v) v m hin
          refine ⟨b1, fun i j => ?_⟩
          show (blockMap (fun _ _ => fillUpd zr v) v m).get i j = _
          rw [b2]
          by_cases hm : v.memXY i j
          · rw [if_pos hm, if_pos hm]
            apply fillUpd_eq f zr v i j _ hpos.2.2
            intro k h1 h2
            exact (hI v).1 hIv i j k (by unfold View.memXY at hm; unfold View.mem; omega)
          · rw [if_neg hm, if_neg hm]
        | empty =>
          dsimp only
          refine ⟨fun _ _ => Iff.rfl, fun i j => ?_⟩
          by_cases hm : v.memXY i j
          · rw [if_pos hm]
            symm
            apply colSpec_none
            intro k h1 h2
            exact (hI v).2 hIv i j k (by unfold View.memXY at hm; unfold View.mem; omega)
          · rw [if_neg hm]
        | ambiguous =>
          dsimp only
          have hmax := pickAxis_all_max v
          have h2 : 2 ≤ v.size (pickAxis true true true v) := by
            apply Classical.byContradiction
            intro hc
            have := voxels_le_one v (by omega)
            omega
          unfold View.split
          cases hax : pickAxis true true true v with
          | x =>
            rw [hax] at h2; simp only [View.size] at h2
            dsimp only
            obtain ⟨a1, a2⟩ := ih { v with cx := v.cx + (v.sx - v.sx / 2), sx := v.sx / 2 } m
              (by simp only []; omega) (fun i j h => hin i j (by unfold View.memXY at h ⊢; simp only [] at h; omega))
            obtain ⟨c1, c2⟩ := ih { v with sx := v.sx - v.sx / 2 } _
              (by simp only []; omega)
              (fun i j h => (a1 i j).2 (hin i j (by unfold View.memXY at h ⊢; simp only [] at h; omega)))
            refine ⟨fun i j => (c1 i j).trans (a1 i j), fun i j => ?_⟩
            rw [c2, a2]
            by_cases hA : View.memXY { v with sx := v.sx - v.sx / 2 } i j
            · have hA' := hA
              unfold View.memXY at hA'; dsimp only at hA'
              have hB : ¬ View.memXY { v with cx := v.cx + (v.sx - v.sx / 2), sx := v.sx / 2 } i j := by
                unfold View.memXY; dsimp only; omega
              have hV : v.memXY i j := by unfold View.memXY; omega
              rw [if_pos hA, if_neg hB, if_pos hV]
            · rw [if_neg hA]
              by_cases hB : View.memXY { v with cx := v.cx + (v.sx - v.sx / 2), sx := v.sx / 2 } i j
              · have hV : v.memXY i j := by
                  unfold View.memXY at hB ⊢; dsimp only at hB; omega
                rw [if_pos hB, if_pos hV]
              · have hV : ¬ v.memXY i j := by
                  unfold View.memXY at hA hB ⊢; dsimp only at hA hB; omega
                rw [if_neg hB, if_neg hV]
          | y =>
            rw [hax] at h2; simp only [View.size] at h2
            dsimp only
            obtain ⟨a1, a2⟩ := ih { v with cy := v.cy + (v.sy - v.sy / 2), sy := v.sy / 2 } m
              (by simp only []; omega) (fun i j h => hin i j (by unfold View.memXY at h ⊢; simp only [] at h; omega))
            obtain ⟨c1, c2⟩ := ih { v with sy := v.sy - v.sy / 2 } _
              (by simp only []; omega)
              (fun i j h => (a1 i j).2 (hin i j (by unfold View.memXY at h ⊢; simp only [] at h; omega)))
            refine ⟨fun i j => (c1 i j).trans (a1 i j), fun i j => ?_⟩
            rw [c2, a2]
            by_cases hA : View.memXY { v with sy := v.sy - v.sy / 2 } i j
            · have hA' := hA
              unfold View.memXY at hA'; dsimp only at hA'
              have hB : ¬ View.memXY { v with cy := v.cy + (v.sy - v.sy / 2), sy := v.sy / 2 } i j := by
                unfold View.memXY; dsimp only; omega
              have hV : v.memXY i j := by unfold View.memXY; omega
              rw [if_pos hA, if_neg hB, if_pos hV]
            · rw [if_neg hA]
              by_cases hB : View.memXY { v with cy := v.cy + (v.sy - v.sy / 2), sy := v.sy / 2 } i j
              · have hV : v.memXY i j := by
                  unfold View.memXY at hB ⊢; dsimp only at hB; omega
                rw [if_pos hB, if_pos hV]
              · have hV : ¬ v.memXY i j := by
                  unfold View.memXY at hA hB ⊢; dsimp only at hA hB; omega
                rw [if_neg hB, if_neg hV]
          | z =>
            rw [hax] at h2; simp only [View.size] at h2
            dsimp only
            obtain ⟨a1, a2⟩ := ih { v with cz := v.cz + (v.sz - v.sz / 2), sz := v.sz / 2 } m
              (by simp only []; omega) (fun i j h => hin i j h)
            obtain ⟨c1, c2⟩ := ih { v with sz := v.sz - v.sz / 2 } _
              (by simp only []; omega)
              (fun i j h => (a1 i j).2 (hin i j h))
            refine ⟨fun i j => (c1 i j).trans (a1 i j), fun i j => ?_⟩
            rw [c2, a2]
            by_cases hV : v.memXY i j
            · have hA : View.memXY { v with sz := v.sz - v.sz / 2 } i j := hV
              have hB : View.memXY { v with cz := v.cz + (v.sz - v.sz / 2), sz := v.sz / 2 } i j := hV
              rw [if_pos hA, if_pos hB, if_pos hV]
              have := colSpec_split f zr hz i j v.cz (v.sz - v.sz / 2) (v.sz / 2) (m.get i j)
              rw [show v.sz - v.sz / 2 + v.sz / 2 = v.sz by omega] at this
              exact this.symm
            · have hA : ¬ View.memXY { v with sz := v.sz - v.sz / 2 } i j := hV
              have hB : ¬ View.memXY { v with cz := v.cz + (v.sz - v.sz / 2), sz := v.sz / 2 } i j := hV
              rw [if_neg hA, if_neg hB, if_neg hV]

/-! ### regions and render -/

/-- number of views of the list whose pixel block contains (i,j) -/
def cover (rs : List View) (i j : Nat) : Nat := rs.countP (fun r => decide (r.memXY i j))

/-- `rs` tiles the pixel block of `v` (each pixel of `v` in exactly one member, no other pixel in any)
    and every member has `v`'s Z range -/
def XYPart (rs : List View) (v : View) : Prop :=
  (∀ r, r ∈ rs → r.cz = v.cz ∧ r.sz = v.sz) ∧ ∀ i j, cover rs i j = if v.memXY i j then 1 else 0

theorem cover_cons (r : View) (rs : List View) (i j : Nat) :
    cover (r :: rs) i j = cover rs i j + (if r.memXY i j then 1 else 0) := by
  unfold cover
  rw [List.countP_cons]
  by_cases h : r.memXY i j <;> simp [h]

theorem cover_append (as bs : List View) (i j : Nat) :
    cover (as ++ bs) i j = cover as i j + cover bs i j := by
  unfold cover; rw [List.countP_append]

theorem cover_nil (i j : Nat) : cover [] i j = 0 := rfl

theorem pickAxisXY (r : View) : pickAxis true true false r = Axis.x ∨ pickAxis true true false r = Axis.y := by
  unfold pickAxis
  simp only [if_true, Bool.false_eq_true, if_false, Nat.zero_le, and_true]
  by_cases h : r.sy ≤ r.sx
  · left; rw [if_pos h]
  · right; rw [if_neg h]

theorem ite_sum (P Q R : Prop) [Decidable P] [Decidable Q] [Decidable R] (h1 : R ↔ (P ∨ Q)) (h2 : ¬ (P ∧ Q)) :
    (if P then 1 else 0) + (if Q then 1 else 0) = (if R then (1 : Nat) else 0) := by
  by_cases hp : P <;> by_cases hq : Q <;> by_cases hr : R <;> simp_all

theorem splitXY_facts (r : View) :
    (r.split true true false).1.cz = r.cz ∧ (r.split true true false).1.sz = r.sz ∧
    (r.split true true false).2.cz = r.cz ∧ (r.split true true false).2.sz = r.sz ∧
    ∀ i j, (if (r.split true true false).1.memXY i j then 1 else 0) +
           (if (r.split true true false).2.memXY i j then 1 else 0) = (if r.memXY i j then (1 : Nat) else 0) := by
  unfold View.split
  rcases pickAxisXY r with h | h <;> rw [h] <;> dsimp only <;>
    refine ⟨rfl, rfl, rfl, rfl, fun i j => ite_sum _ _ _ ?_ ?_⟩ <;> simp only [View.memXY] <;> omega

theorem splitXY_nonempty (r : View) (h : 1 < r.sx ∧ 1 < r.sy ∧ 1 ≤ r.sz) :
    (1 ≤ (r.split true true false).1.sx ∧ 1 ≤ (r.split true true false).1.sy ∧ 1 ≤ (r.split true true false).1.sz) ∧
    (1 ≤ (r.split true true false).2.sx ∧ 1 ≤ (r.split true true false).2.sy ∧ 1 ≤ (r.split true true false).2.sz) := by
  unfold View.split
  rcases pickAxisXY r with h | h <;> rw [h] <;> dsimp only <;> omega

theorem regionsLoop_part (v : View) : ∀ fuel workers rs, XYPart rs v → XYPart (regionsLoop fuel workers rs) v := by
  intro fuel
  induction fuel with
  | zero => intro _ rs h; exact h
  | succ fuel ih =>
    intro workers rs h
    cases rs with
    | nil => exact h
    | cons r rest =>
      simp only [regionsLoop]
      split
      · apply ih
        obtain ⟨h1, h2⟩ := h
        obtain ⟨f1, f2, f3, f4, f5⟩ := splitXY_facts r
        have hr := h1 r (by simp)
        constructor
        · intro q hq
          simp only [List.mem_append, List.mem_cons, List.not_mem_nil, or_false] at hq
          rcases hq with hq | hq | hq
          · exact h1 q (by simp [hq])
          · subst hq; exact ⟨f1.trans hr.1, f2.trans hr.2⟩
          · subst hq; exact ⟨f3.trans hr.1, f4.trans hr.2⟩
        · intro i j
          rw [← h2 i j, cover_append, cover_cons, cover_cons, cover_cons, cover_nil, ← f5 i j]
          omega
      · exact h

theorem regions_part (workers : Nat) (v : View) : XYPart (regions workers v) v := by
  unfold regions
  apply regionsLoop_part
  constructor
  · intro r hr; simp at hr; subst hr; exact ⟨rfl, rfl⟩
  · intro i j; rw [cover_cons, cover_nil]; omega

theorem regionsLoop_length : ∀ fuel workers rs, rs.length ≤ max 1 workers →
    (regionsLoop fuel workers rs).length ≤ max 1 workers := by
  intro fuel
  induction fuel with
  | zero => intro _ rs h; exact h
  | succ fuel ih =>
    intro workers rs h
    cases rs with
    | nil => simp [regionsLoop]
    | cons r rest =>
      simp only [regionsLoop]
      split
      · rename_i hc
        apply ih
        simp only [List.length_append, List.length_cons, List.length_nil] at hc ⊢
        omega
      · exact h

theorem regionsLoop_nonempty : ∀ fuel workers rs, (∀ r, r ∈ rs → 1 ≤ r.sx ∧ 1 ≤ r.sy ∧ 1 ≤ r.sz) →
    ∀ r, r ∈ regionsLoop fuel workers rs → 1 ≤ r.sx ∧ 1 ≤ r.sy ∧ 1 ≤ r.sz := by
  intro fuel
  induction fuel with
  | zero => intro _ rs h; exact h
  | succ fuel ih =>
    intro workers rs h
    cases rs with
    | nil => simp [regionsLoop]
    | cons r rest =>
      simp only [regionsLoop]
      split
      · rename_i hc
        apply ih
        intro q hq
        simp only [List.mem_append, List.mem_cons, List.not_mem_nil, or_false] at hq
        have hr := h r (by simp)
        have hmin : 1 < r.sx ∧ 1 < r.sy := by
          have := hc.2
          simp only [Nat.lt_min] at this
          exact this
        obtain ⟨n1, n2⟩ := splitXY_nonempty r ⟨hmin.1, hmin.2, hr.2.2⟩
        rcases hq with hq | hq | hq
        · exact h q (by simp [hq])
        · subst hq; exact n1
        · subst hq; exact n2
      · exact h

theorem renderFrom_spec (N : Nat) (f : Nat → Nat → Nat → Bool) (zr : Nat → Int) (I : View → IState)
    (hN : 1 ≤ N) (hz : Mono zr) (hI : Sound f I) (cz sz : Nat) :
    ∀ (rs : List View) (m : Img), (∀ r, r ∈ rs → r.cz = cz ∧ r.sz = sz) → (∀ i j, cover rs i j ≤ 1) →
      (∀ r, r ∈ rs → ∀ i j, r.memXY i j → m.inb i j) →
      (∀ i j, (renderFrom N f zr I rs m).inb i j ↔ m.inb i j) ∧
      (∀ i j, (renderFrom N f zr I rs m).get i j =
          if cover rs i j = 1 then colSpec f zr i j cz sz (m.get i j) else m.get i j) := by
  intro rs
  induction rs with
  | nil =>
    intro m _ _ _
    refine ⟨fun _ _ => Iff.rfl, fun i j => ?_⟩
    simp [renderFrom, cover_nil]
  | cons r rs ih =>
    intro m hz1 hc hin
    obtain ⟨r1, r2⟩ := recurse_spec N f zr I hN hz hI (r.sx + r.sy + r.sz) r m (Nat.le_refl _) (hin r (by simp))
    have hstep : renderFrom N f zr I (r :: rs) m =
        renderFrom N f zr I rs (recurse N f zr I (r.sx + r.sy + r.sz) r m) := by
      simp [renderFrom]
    rw [hstep]
    obtain ⟨q1, q2⟩ := ih (recurse N f zr I (r.sx + r.sy + r.sz) r m)
      (fun q hq => hz1 q (by simp [hq]))
      (fun i j => by have := hc i j; rw [cover_cons] at this; omega)
      (fun q hq i j h => (r1 i j).2 (hin q (by simp [hq]) i j h))
    refine ⟨fun i j => (q1 i j).trans (r1 i j), fun i j => ?_⟩
    rw [q2, r2, cover_cons]
    have hcc := hc i j
    rw [cover_cons] at hcc
    obtain ⟨e1, e2⟩ := hz1 r (by simp)
    by_cases hm : r.memXY i j
    · simp only [if_pos hm] at hcc ⊢
      have h0 : cover rs i j = 0 := by omega
      rw [h0, e1, e2]
      simp
    · simp only [if_neg hm] at hcc ⊢
      rfl

theorem render_spec (N : Nat) (f : Nat → Nat → Nat → Bool) (zr : Nat → Int) (I : View → IState)
    (hN : 1 ≤ N) (hz : Mono zr) (hI : Sound f I) (workers : Nat) (v : View) (m : Img)
    (hin : ∀ i j, v.memXY i j → m.inb i j) :
    (∀ i j, (render N f zr I workers v m).inb i j ↔ m.inb i j) ∧
    (∀ i j, (render N f zr I workers v m).get i j =
        if v.memXY i j then colSpec f zr i j v.cz v.sz (m.get i j) else m.get i j) := by
  obtain ⟨p1, p2⟩ := regions_part workers v
  have hcov : ∀ r, r ∈ regions workers v → ∀ i j, r.memXY i j → v.memXY i j := by
    intro r hr i j h
    apply Classical.byContradiction
    intro hv
    have h2 := p2 i j
    rw [if_neg hv] at h2
    unfold cover at h2
    rw [List.countP_eq_zero] at h2
    have := h2 r hr
    simp [h] at this
  obtain ⟨s1, s2⟩ := renderFrom_spec N f zr I hN hz hI v.cz v.sz (regions workers v) m p1
    (fun i j => by rw [p2]; split <;> omega) (fun r hr i j h => hin i j (hcov r hr i j h))
  refine ⟨s1, fun i j => ?_⟩
  show (renderFrom N f zr I (regions workers v) m).get i j = _
  rw [s2, p2]
  by_cases hv : v.memXY i j
  · simp [hv]
  · simp [hv]

/-! ### enumerate, voxSize, axis choice -/

theorem enumerate_count : ∀ fuel (v : View), v.sx + v.sy + v.sz ≤ fuel → ∀ i j k,
    (enumerate fuel v).count (i, j, k) = if v.mem i j k then 1 else 0 := by
  intro fuel
  induction fuel with
  | zero =>
    intro v h i j k
    have : ¬ v.mem i j k := by unfold View.mem; omega
    simp [enumerate, this]
  | succ fuel ih =>
    intro v h i j k
    rw [enumerate]
    by_cases he : v.empty = true
    · rw [if_pos he]
      have : ¬ v.mem i j k := by
        unfold View.empty at he
        simp only [Bool.or_eq_true, beq_iff_eq] at he
        unfold View.mem; omega
      simp [this]
    · rw [if_neg he]
      have hne : 1 ≤ v.sx ∧ 1 ≤ v.sy ∧ 1 ≤ v.sz := by
        unfold View.empty at he
        simp only [Bool.or_eq_true, beq_iff_eq, not_or] at he
        omega
      by_cases hu : v.unit = true
      · rw [if_pos hu]
        unfold View.unit at hu
        simp only [Bool.and_eq_true, beq_iff_eq] at hu
        by_cases hm : v.mem i j k
        · rw [if_pos hm]
          unfold View.mem at hm
          have : (i, j, k) = (v.cx, v.cy, v.cz) := by
            have a : i = v.cx := by omega
            have b : j = v.cy := by omega
            have c : k = v.cz := by omega
            rw [a, b, c]
          rw [this]; simp
        · rw [if_neg hm]
          have : ¬ ((v.cx, v.cy, v.cz) = (i, j, k)) := by
            intro e
            simp only [Prod.mk.injEq] at e
            apply hm; unfold View.mem; omega
          simp [this]
      · rw [if_neg hu]
        dsimp only
        have hmax := pickAxis_all_max v
        have h2 : 2 ≤ v.size (pickAxis true true true v) := by
          unfold View.unit at hu
          simp only [Bool.and_eq_true, beq_iff_eq] at hu
          omega
        obtain ⟨m1, m2⟩ := split_mem true true true v i j k
        have hs : ((v.split true true true).1.sx + (v.split true true true).1.sy + (v.split true true true).1.sz ≤ fuel) ∧
                  ((v.split true true true).2.sx + (v.split true true true).2.sy + (v.split true true true).2.sz ≤ fuel) := by
          revert h2
          unfold View.split
          cases pickAxis true true true v <;> simp only [View.size] <;> intro h2 <;> (try dsimp only) <;> omega
        rw [List.count_append, ih _ hs.1, ih _ hs.2]
        by_cases ha : (v.split true true true).1.mem i j k <;> by_cases hb : (v.split true true true).2.mem i j k <;>
          by_cases hv : v.mem i j k <;> simp_all

theorem voxSize_spec (num den : Nat) (hd : 0 < den) :
    1 ≤ voxSize num den ∧ num ≤ voxSize num den * den ∧
    (voxSize num den = 1 ∨ (voxSize num den - 1) * den < num) := by
  unfold voxSize
  have h1 := Nat.div_add_mod (num + den - 1) den
  have h2 := Nat.mod_lt (num + den - 1) hd
  obtain ⟨q, hq⟩ : ∃ q, (num + den - 1) / den = q := ⟨_, rfl⟩
  obtain ⟨r, hr⟩ : ∃ r, (num + den - 1) % den = r := ⟨_, rfl⟩
  rw [hq, hr] at h1
  rw [hr] at h2
  rw [hq]
  obtain ⟨a, ha⟩ : ∃ a, den * q = a := ⟨_, rfl⟩
  rw [ha] at h1
  by_cases hq1 : q ≤ 1
  · have hm : max 1 q = 1 := by rw [Nat.max_def]; split <;> omega
    rw [hm]
    refine ⟨Nat.le_refl _, ?_, Or.inl rfl⟩
    by_cases hq0 : q = 0
    · subst hq0; simp at ha; omega
    · have : q = 1 := by omega
      subst this; simp at ha; omega
  · have hm : max 1 q = q := by rw [Nat.max_def]; split <;> omega
    rw [hm]
    refine ⟨by omega, ?_, Or.inr ?_⟩
    · rw [Nat.mul_comm, ha]; omega
    · have : (q - 1) * den = a - den := by
        rw [Nat.mul_comm, Nat.mul_sub, Nat.mul_one, ha]
      have h2d : den * 2 ≤ a := by rw [← ha]; exact Nat.mul_le_mul_left den (by omega)
      rw [this]; omega

theorem pickAxis_largest (ax ay az : Bool) (v : View) :
    (ax = true → v.sx ≤ v.size (pickAxis ax ay az v)) ∧ (ay = true → v.sy ≤ v.size (pickAxis ax ay az v)) ∧
    (az = true → v.sz ≤ v.size (pickAxis ax ay az v)) := by
  unfold pickAxis
  dsimp only
  by_cases h1 : (if ay then v.sy else 0) ≤ (if ax then v.sx else 0) ∧ (if az then v.sz else 0) ≤ (if ax then v.sx else 0)
  · rw [if_pos h1]
    simp only [View.size]
    cases ax <;> cases ay <;> cases az <;> simp_all
  · rw [if_neg h1]
    by_cases h2 : (if az then v.sz else 0) ≤ (if ay then v.sy else 0)
    · rw [if_pos h2]
      simp only [View.size]
      cases ax <;> cases ay <;> cases az <;> simp_all <;> omega
    · rw [if_neg h2]
      simp only [View.size]
      cases ax <;> cases ay <;> cases az <;> simp_all <;> omega

end Libfive.Heightmap
