/-
  Helper lemmas for C02: order theory of `FVal`, the enclosure predicates, the Boost contracts
  (`BoostSound`), and the per-opcode enclosure lemmas (flag completeness of `interval.hpp`).
-/
import LibfiveModel.Interval
import Mathlib.Tactic.Linarith
import Mathlib.Algebra.Order.Field.Basic

set_option linter.unusedSectionVars false
set_option linter.unusedVariables false

namespace Libfive.Ivl

open FVal

variable {K : Type} [Field K] [LinearOrder K] [IsStrictOrderedRing K]

/-! ### order on `FVal` -/

section order

@[simp] theorem le_nan_l (x : FVal K) : FVal.le nan x = false := by cases x <;> rfl
@[simp] theorem le_nan_r (x : FVal K) : FVal.le x nan = false := by cases x <;> rfl
@[simp] theorem lt_nan_l (x : FVal K) : FVal.lt nan x = false := by cases x <;> rfl
@[simp] theorem lt_nan_r (x : FVal K) : FVal.lt x nan = false := by cases x <;> rfl
@[simp] theorem le_fin_fin (x y : K) : FVal.le (fin x) (fin y) = decide (x ≤ y) := rfl
@[simp] theorem lt_fin_fin (x y : K) : FVal.lt (fin x) (fin y) = decide (x < y) := rfl

theorem le_ninf_iff (x : FVal K) : FVal.le x ninf = true ↔ x = ninf := by
  cases x <;> simp [FVal.le]
theorem pinf_le_iff (x : FVal K) : FVal.le pinf x = true ↔ x = pinf := by
  cases x <;> simp [FVal.le]

theorem fle_trans {x y z : FVal K} (h1 : FVal.le x y = true) (h2 : FVal.le y z = true) :
    FVal.le x z = true := by
  cases x <;> cases y <;> cases z <;> simp_all [FVal.le]
  exact le_trans h1 h2

theorem flt_of_le_of_lt {x y z : FVal K} (h1 : FVal.le x y = true) (h2 : FVal.lt y z = true) :
    FVal.lt x z = true := by
  cases x <;> cases y <;> cases z <;> simp_all [FVal.le, FVal.lt]
  exact lt_of_le_of_lt h1 h2

theorem flt_of_lt_of_le {x y z : FVal K} (h1 : FVal.lt x y = true) (h2 : FVal.le y z = true) :
    FVal.lt x z = true := by
  cases x <;> cases y <;> cases z <;> simp_all [FVal.le, FVal.lt]
  exact lt_of_lt_of_le h1 h2

theorem fle_of_lt {x y : FVal K} (h : FVal.lt x y = true) : FVal.le x y = true := by
  cases x <;> cases y <;> simp_all [FVal.le, FVal.lt]
  exact le_of_lt h

theorem fle_antisymm_fin {x : FVal K} {y : K} (h1 : FVal.le (fin y) x = true)
    (h2 : FVal.le x (fin y) = true) : x = fin y := by
  cases x <;> simp_all [FVal.le]
  exact le_antisymm h2 h1

theorem ne_nan_of_le_l {x y : FVal K} (h : FVal.le x y = true) : x ≠ nan := by
  rintro rfl; simp at h
theorem ne_nan_of_le_r {x y : FVal K} (h : FVal.le x y = true) : y ≠ nan := by
  rintro rfl; simp at h

end order

/-! ### enclosure predicates -/

/-- `v` is a non-NaN value inside the bounds -/
def inBb (b : Bnd K) (v : FVal K) : Prop := v ≠ nan ∧ FVal.le b.lo v = true ∧ FVal.le v b.hi = true

def inB (A : IVal K) (v : FVal K) : Prop := inBb A.b v

/-- the property's enclosure: a result that is not flagged bounds a non-NaN value -/
def encl (A : IVal K) (v : FVal K) : Prop := A.mn = true ∨ inB A v

/-- the inductive invariant: NaN only when flagged; a non-NaN value is inside the bounds even when
    the interval is flagged (this is what `min`/`max`/`nanfill`'s hull rule relies on) -/
def enclS (A : IVal K) (v : FVal K) : Prop := (A.mn = true ∧ v = nan) ∨ inB A v

theorem enclS.encl {A : IVal K} {v : FVal K} (h : enclS A v) : encl A v := by
  rcases h with ⟨h, _⟩ | h
  · exact Or.inl h
  · exact Or.inr h

theorem enclS.mn_of_nan {A : IVal K} (h : enclS A nan) : A.mn = true := by
  rcases h with ⟨h, _⟩ | h
  · exact h
  · exact absurd rfl h.1

theorem enclS.inB_of_ne {A : IVal K} {v : FVal K} (h : enclS A v) (hv : v ≠ nan) : inB A v := by
  rcases h with ⟨_, h⟩ | h
  · exact absurd h hv
  · exact h

/-- the constructor `Interval(const I&, bool)` (after /repo 0be5df1): NaN-bounded results are replaced
    by the whole line -/
theorem b_of (b : Bnd K) (u : Bool) :
    (IVal.of b u).b = if (b.lo.isNan || b.hi.isNan) = true then wholeB else b := by
  unfold IVal.of
  split <;> rfl

/-- bounds without a NaN are kept -/
theorem b_of_keep {b : Bnd K} (u : Bool) (hl : b.lo ≠ nan) (hh : b.hi ≠ nan) :
    (IVal.of b u).b = b := by
  rw [b_of]
  have h1 : b.lo.isNan = false := by cases h : b.lo <;> simp_all [FVal.isNan]
  have h2 : b.hi.isNan = false := by cases h : b.hi <;> simp_all [FVal.isNan]
  simp [h1, h2]

@[simp] theorem mn_of (b : Bnd K) (u : Bool) :
    (IVal.of b u).mn = (u || b.lo.isNan || b.hi.isNan) := by
  unfold IVal.of
  split
  · next h => simp only [Bool.or_assoc, h, Bool.or_true]
  · next h =>
    have h' : (b.lo.isNan || b.hi.isNan) = false := by simpa using h
    simp only [Bool.or_assoc, h', Bool.or_false]

/-- a value inside the Boost bounds is inside the constructed interval (bounds that contain a value
    have no NaN, so they are kept) -/
theorem inB_of {bnd : Bnd K} {u : Bool} {r : FVal K} (h : inBb bnd r) : inB (IVal.of bnd u) r := by
  unfold inB
  rw [b_of_keep u (ne_nan_of_le_l h.2.1) (ne_nan_of_le_r h.2.2)]
  exact h

/-- bounds of a constructed interval: the Boost bounds, or the whole line -/
theorem inB_of_iff {bnd : Bnd K} {u : Bool} {r : FVal K} :
    inB (IVal.of bnd u) r ↔
      (inBb bnd r ∨ (r ≠ nan ∧ (bnd.lo.isNan || bnd.hi.isNan) = true)) := by
  unfold inB
  rw [b_of]
  by_cases h : (bnd.lo.isNan || bnd.hi.isNan) = true
  · simp only [h, if_true]
    constructor
    · intro hr; exact Or.inr ⟨hr.1, trivial⟩
    · rintro (hr | ⟨hr, _⟩)
      · refine ⟨hr.1, ?_, ?_⟩ <;> cases r <;> simp_all [wholeB, FVal.le, inBb]
      · refine ⟨hr, ?_, ?_⟩ <;> cases r <;> simp_all [wholeB, FVal.le]
  · simp only [h, if_false]
    constructor
    · intro hr; exact Or.inl hr
    · rintro (hr | ⟨_, hr⟩)
      · exact hr
      · exact absurd hr (by simp)

/-- assembling a result: NaN forces the flag, a non-NaN value is inside the bounds -/
theorem enclS_of {bnd : Bnd K} {u : Bool} {r : FVal K}
    (hnan : r = nan → u = true) (hin : r ≠ nan → inBb bnd r) : enclS (IVal.of bnd u) r := by
  by_cases h : r = nan
  · exact Or.inl ⟨by simp [hnan h], h⟩
  · exact Or.inr (inB_of (hin h))

theorem enclS_mk {lo hi : FVal K} {u : Bool} {r : FVal K}
    (hnan : r = nan → u = true) (hin : r ≠ nan → inBb ⟨lo, hi⟩ r) : enclS ⟨lo, hi, u⟩ r := by
  by_cases h : r = nan
  · exact Or.inl ⟨hnan h, h⟩
  · exact Or.inr (hin h)

/-- generic binary opcode whose point function propagates NaN -/
theorem bin_enclS {A B : IVal K} {a b : FVal K} {bnd : Bnd K} {u : Bool} (p : FVal K → FVal K → FVal K)
    (hprop : ∀ a b : FVal K, a = nan ∨ b = nan → p a b = nan)
    (hfA : A.mn = true → u = true) (hfB : B.mn = true → u = true)
    (hcomp : inB A a → inB B b → p a b = nan → u = true)
    (hcon : inB A a → inB B b → p a b ≠ nan → inBb bnd (p a b))
    (ha : enclS A a) (hb : enclS B b) : enclS (IVal.of bnd u) (p a b) := by
  apply enclS_of
  · intro hr
    by_cases h1 : a = nan
    · subst h1; exact hfA ha.mn_of_nan
    by_cases h2 : b = nan
    · subst h2; exact hfB hb.mn_of_nan
    exact hcomp (ha.inB_of_ne h1) (hb.inB_of_ne h2) hr
  · intro hr
    have h1 : a ≠ nan := fun h => hr (hprop a b (Or.inl h))
    have h2 : b ≠ nan := fun h => hr (hprop a b (Or.inr h))
    exact hcon (ha.inB_of_ne h1) (hb.inB_of_ne h2) hr

/-- generic unary opcode whose point function propagates NaN -/
theorem un_enclS {A : IVal K} {a : FVal K} {bnd : Bnd K} {u : Bool} (p : FVal K → FVal K)
    (hprop : p nan = nan)
    (hfA : A.mn = true → u = true)
    (hcomp : inB A a → p a = nan → u = true)
    (hcon : inB A a → p a ≠ nan → inBb bnd (p a))
    (ha : enclS A a) : enclS (IVal.of bnd u) (p a) := by
  apply enclS_of
  · intro hr
    by_cases h1 : a = nan
    · subst h1; exact hfA ha.mn_of_nan
    exact hcomp (ha.inB_of_ne h1) hr
  · intro hr
    have h1 : a ≠ nan := fun h => hr (h ▸ hprop)
    exact hcon (ha.inB_of_ne h1) hr

/-! ### facts about the bounds of an interval that contains a given value -/

theorem inB.hi_pinf {A : IVal K} (h : inB A pinf) : A.hi = pinf := (pinf_le_iff _).1 h.2.2
theorem inB.lo_ninf {A : IVal K} (h : inB A ninf) : A.lo = ninf := (le_ninf_iff _).1 h.2.1

theorem inB.has_zero {A : IVal K} (h : inB A (fin 0)) : Ivl.hasZero A = true := by
  simp only [Ivl.hasZero, FVal.ge, zeroV, Bool.and_eq_true]
  exact ⟨h.2.1, h.2.2⟩

theorem inB.lo_le {A : IVal K} {v w : FVal K} (h : inB A v) (hw : FVal.le v w = true) :
    FVal.le A.lo w = true := fle_trans h.2.1 hw
theorem inB.le_hi {A : IVal K} {v w : FVal K} (h : inB A v) (hw : FVal.le w v = true) :
    FVal.le w A.hi = true := fle_trans hw h.2.2
theorem inB.lo_lt {A : IVal K} {v w : FVal K} (h : inB A v) (hw : FVal.lt v w = true) :
    FVal.lt A.lo w = true := flt_of_le_of_lt h.2.1 hw
theorem inB.lt_hi {A : IVal K} {v w : FVal K} (h : inB A v) (hw : FVal.lt w v = true) :
    FVal.lt w A.hi = true := flt_of_lt_of_le hw h.2.2

/-- a value inside an interval that does not straddle zero is not zero -/
theorem inB.ne_zero {A : IVal K} {v : FVal K} (h : inB A v) (hz : Ivl.hasZero A = false) : v ≠ fin 0 := by
  rintro rfl
  rw [h.has_zero] at hz
  exact Bool.noConfusion hz

/-! ### NaN cases of the exact IEEE arithmetic -/

theorem add_nan_l (b : FVal K) : FVal.add nan b = nan := by cases b <;> rfl
theorem add_nan_r (a : FVal K) : FVal.add a nan = nan := by cases a <;> rfl
theorem mul_nan_l (b : FVal K) : FVal.mul nan b = nan := by cases b <;> rfl
theorem mul_nan_r (a : FVal K) : FVal.mul a nan = nan := by cases a <;> rfl
theorem div_nan_l (b : FVal K) : FVal.div nan b = nan := by cases b <;> rfl
theorem div_nan_r (a : FVal K) : FVal.div a nan = nan := by cases a <;> rfl
theorem neg_ne_nan {a : FVal K} (h : a ≠ nan) : FVal.neg a ≠ nan := by cases a <;> simp_all [FVal.neg]
theorem neg_eq_nan {a : FVal K} (h : FVal.neg a = nan) : a = nan := by cases a <;> simp_all [FVal.neg]

theorem add_eq_nan {a b : FVal K} (ha : a ≠ nan) (hb : b ≠ nan) (h : FVal.add a b = nan) :
    (a = pinf ∧ b = ninf) ∨ (a = ninf ∧ b = pinf) := by
  cases a <;> cases b <;> simp_all [FVal.add]

theorem infTimes_eq_nan {pos : Bool} {x : K} (h : infTimes pos x = nan) : x = 0 := by
  unfold infTimes at h
  by_cases h1 : (0 : K) < x
  · simp [h1] at h; cases pos <;> simp at h
  · by_cases h2 : x < 0
    · simp [h1, h2] at h; cases pos <;> simp at h
    · exact le_antisymm (not_lt.1 h1) (not_lt.1 h2)

theorem mul_eq_nan {a b : FVal K} (ha : a ≠ nan) (hb : b ≠ nan) (h : FVal.mul a b = nan) :
    (a.isInf = true ∧ b = fin 0) ∨ (a = fin 0 ∧ b.isInf = true) := by
  cases a <;> cases b <;> simp_all [FVal.mul, FVal.isInf]
  all_goals first
    | exact infTimes_eq_nan h

theorem div_eq_nan {a b : FVal K} (ha : a ≠ nan) (hb : b ≠ nan) (h : FVal.div a b = nan) :
    (a.isInf = true ∧ b.isInf = true) ∨ (a = fin 0 ∧ b = fin 0) := by
  cases a <;> cases b <;> simp_all [FVal.div, FVal.isInf]
  all_goals try (split at h <;> simp_all)
  all_goals try (split at h <;> simp_all)
  all_goals try (split at h <;> simp_all)
  all_goals try (exact le_antisymm ‹_› ‹_›)

theorem sub_nan_l (b : FVal K) : FVal.sub nan b = nan := by cases b <;> rfl
theorem sub_nan_r (a : FVal K) : FVal.sub a nan = nan := by cases a <;> rfl

theorem sub_eq_nan {a b : FVal K} (ha : a ≠ nan) (hb : b ≠ nan) (h : FVal.sub a b = nan) :
    (a = pinf ∧ b = pinf) ∨ (a = ninf ∧ b = ninf) := by
  cases a <;> cases b <;> simp_all [FVal.sub, FVal.add, FVal.neg]

theorem inB.zero_bounds {A : IVal K} (h : inB A (fin 0)) :
    FVal.le A.lo zeroV = true ∧ FVal.ge A.hi zeroV = true := ⟨h.2.1, h.2.2⟩

theorem inB.inf_bounds {A : IVal K} {a : FVal K} (h : inB A a) (hi : a.isInf = true) :
    (A.lo.isNinf || A.hi.isPinf) = true := by
  cases a <;> simp [FVal.isInf] at hi
  · rw [h.lo_ninf]; rfl
  · rw [h.hi_pinf]; simp [FVal.isPinf]

theorem inBb_whole {r : FVal K} (h : r ≠ nan) : inBb (wholeB : Bnd K) r := by
  refine ⟨h, ?_, ?_⟩ <;> cases r <;> simp_all [wholeB, FVal.le]

/-- a value between two finite bounds is finite -/
theorem inB.finite {A : IVal K} {a : FVal K} (h : inB A a) (hl : A.lo.isFinite = true)
    (hh : A.hi.isFinite = true) : ∃ x, a = fin x := by
  obtain ⟨h0, h1, h2⟩ := h
  cases a with
  | nan => exact absurd rfl h0
  | fin x => exact ⟨x, rfl⟩
  | ninf =>
    have : A.lo = ninf := (le_ninf_iff _).1 h1
    rw [show A.b.lo = A.lo from rfl] at h1
    simp [this, FVal.isFinite] at hl
  | pinf =>
    have : A.hi = pinf := (pinf_le_iff _).1 h2
    simp [this, FVal.isFinite] at hh

/-! ### Boost contracts -/

/-- What is assumed about the Boost.Interval primitives: for non-NaN operand values inside the operand
    bounds and a non-NaN exact result, the result is inside the returned bounds.  Division,
    reciprocal and negative powers only for non-zero divisors (Boost treats intervals as sets of
    reals); `log` only for operands with a positive upper bound, `pow(·,0)` not on `[0,0]`, `nth_root`
    only for finite bounds (Boost returns empty / NaN-bounded intervals there). -/
structure BoostSound (Bo : BoostOps K) (P : PointFns K) : Prop where
  add : ∀ X Y a b, inBb X a → inBb Y b → FVal.add a b ≠ nan → inBb (Bo.add X Y) (FVal.add a b)
  sub : ∀ X Y a b, inBb X a → inBb Y b → FVal.sub a b ≠ nan → inBb (Bo.sub X Y) (FVal.sub a b)
  mul : ∀ X Y a b, inBb X a → inBb Y b → FVal.mul a b ≠ nan → inBb (Bo.mul X Y) (FVal.mul a b)
  div : ∀ X Y a b, inBb X a → inBb Y b → b ≠ fin 0 → FVal.div a b ≠ nan →
    inBb (Bo.div X Y) (FVal.div a b)
  min : ∀ X Y a b, inBb X a → inBb Y b → inBb (Bo.min X Y) (pmin a b)
  max : ∀ X Y a b, inBb X a → inBb Y b → inBb (Bo.max X Y) (pmax a b)
  hull_l : ∀ X Y a, inBb X a → inBb (Bo.hull X Y) a
  hull_r : ∀ X Y a, inBb Y a → inBb (Bo.hull X Y) a
  neg : ∀ X a, inBb X a → inBb (Bo.neg X) (FVal.neg a)
  abs : ∀ X a, inBb X a → inBb (Bo.abs X) (FVal.abs a)
  square : ∀ X a, inBb X a → inBb (Bo.square X) (FVal.mul a a)
  sqrt : ∀ X a, inBb X a → psqrt P a ≠ nan → inBb (Bo.sqrt X) (psqrt P a)
  sin : ∀ X a, inBb X a → ptrig P.sin a ≠ nan → inBb (Bo.sin X) (ptrig P.sin a)
  cos : ∀ X a, inBb X a → ptrig P.cos a ≠ nan → inBb (Bo.cos X) (ptrig P.cos a)
  tan : ∀ X a, inBb X a → ptrig P.tan a ≠ nan → inBb (Bo.tan X) (ptrig P.tan a)
  asin : ∀ X a, inBb X a → pasin P.asin a ≠ nan → inBb (Bo.asin X) (pasin P.asin a)
  acos : ∀ X a, inBb X a → pasin P.acos a ≠ nan → inBb (Bo.acos X) (pasin P.acos a)
  atan : ∀ X a, inBb X a → inBb (Bo.atan X) (patan P a)
  atanWhole : ∀ a, a ≠ nan → inBb Bo.atanWhole (patan P a)
  exp : ∀ X a, inBb X a → inBb (Bo.exp X) (pexp P a)
  log : ∀ X a, inBb X a → FVal.lt zeroV X.hi = true → plog P a ≠ nan → inBb (Bo.log X) (plog P a)
  oneDiv : ∀ X a, inBb X a → a ≠ fin 0 → inBb (Bo.oneDiv X) (precip a)
  powi : ∀ X a k, inBb X a → (k = 0 → ¬ (X.lo = fin 0 ∧ X.hi = fin 0)) → (k < 0 → a ≠ fin 0) →
    inBb (Bo.powi X k) (ppowi P a k)
  nthRoot : ∀ X a k, inBb X a → X.lo.isFinite = true → X.hi.isFinite = true → 1 ≤ k →
    pnthRoot P a k ≠ nan → inBb (Bo.nthRoot X k) (pnthRoot P a k)

variable {Bo : BoostOps K} {P : PointFns K}

/-! ### arithmetic opcodes -/

theorem add_enclS (hS : BoostSound Bo P) {A B : IVal K} {a b : FVal K}
    (ha : enclS A a) (hb : enclS B b) : enclS (iadd Bo A B) (FVal.add a b) := by
  unfold iadd
  refine bin_enclS FVal.add ?_ ?_ ?_ ?_ ?_ ha hb
  · rintro a b (rfl | rfl); exact add_nan_l _; exact add_nan_r _
  · intro h; simp [h]
  · intro h; simp [h]
  · intro h1 h2 hn
    rcases add_eq_nan h1.1 h2.1 hn with ⟨rfl, rfl⟩ | ⟨rfl, rfl⟩
    · simp [h1.hi_pinf, h2.lo_ninf, FVal.isNinf, FVal.isPinf]
    · simp [h1.lo_ninf, h2.hi_pinf, FVal.isNinf, FVal.isPinf]
  · intro h1 h2 hn; exact hS.add _ _ _ _ h1 h2 hn

theorem mul_enclS (hS : BoostSound Bo P) {A B : IVal K} {a b : FVal K}
    (ha : enclS A a) (hb : enclS B b) : enclS (imul Bo A B) (FVal.mul a b) := by
  unfold imul
  refine bin_enclS FVal.mul ?_ ?_ ?_ ?_ ?_ ha hb
  · rintro a b (rfl | rfl); exact mul_nan_l _; exact mul_nan_r _
  · intro h; simp [h]
  · intro h; simp [h]
  · intro h1 h2 hn
    rcases mul_eq_nan h1.1 h2.1 hn with ⟨hi, rfl⟩ | ⟨rfl, hi⟩
    · have := h1.inf_bounds hi
      have z := h2.zero_bounds
      simp only [Bool.or_eq_true] at this
      simp [this, z.1, z.2]
    · have := h2.inf_bounds hi
      have z := h1.zero_bounds
      simp only [Bool.or_eq_true] at this
      simp [this, z.1, z.2]
  · intro h1 h2 hn; exact hS.mul _ _ _ _ h1 h2 hn

theorem sub_enclS (hS : BoostSound Bo P) {A B : IVal K} {a b : FVal K}
    (ha : enclS A a) (hb : enclS B b) : enclS (isub Bo A B) (FVal.sub a b) := by
  unfold isub
  refine bin_enclS FVal.sub ?_ ?_ ?_ ?_ ?_ ha hb
  · rintro a b (rfl | rfl); exact sub_nan_l _; exact sub_nan_r _
  · intro h; simp [h]
  · intro h; simp [h]
  · intro h1 h2 hn
    rcases sub_eq_nan h1.1 h2.1 hn with ⟨rfl, rfl⟩ | ⟨rfl, rfl⟩
    · simp [h1.hi_pinf, h2.hi_pinf, FVal.isPinf]
    · simp [h1.lo_ninf, h2.lo_ninf, FVal.isNinf]
  · intro h1 h2 hn; exact hS.sub _ _ _ _ h1 h2 hn

theorem div_enclS (hS : BoostSound Bo P) {A B : IVal K} {a b r : FVal K}
    (ha : enclS A a) (hb : enclS B b)
    (hr : r = FVal.div a b ∨ (b = fin 0 ∧ r = FVal.neg (FVal.div a b))) :
    enclS (idiv Bo A B) r := by
  unfold idiv
  have hrn : r = nan ↔ FVal.div a b = nan := by
    rcases hr with rfl | ⟨_, rfl⟩
    · rfl
    · exact ⟨neg_eq_nan, fun h => by rw [h]; rfl⟩
  apply enclS_of
  · intro hn
    have hn := hrn.1 hn
    by_cases h1 : a = nan
    · subst h1; simp [ha.mn_of_nan]
    by_cases h2 : b = nan
    · subst h2; simp [hb.mn_of_nan]
    have h1 := ha.inB_of_ne h1
    have h2 := hb.inB_of_ne h2
    rcases div_eq_nan h1.1 h2.1 hn with ⟨i1, i2⟩ | ⟨rfl, rfl⟩
    · have e1 := h1.inf_bounds i1
      have e2 := h2.inf_bounds i2
      simp only [Bool.or_eq_true] at e1 e2
      simp [e1, e2]
    · have z1 := h1.zero_bounds
      have z2 := h2.zero_bounds
      simp [z1.1, z1.2, z2.1, z2.2]
  · intro hn
    have hd : FVal.div a b ≠ nan := fun h => hn (hrn.2 h)
    have h1 : a ≠ nan := fun h => hd (by rw [h]; exact div_nan_l _)
    have h2 : b ≠ nan := fun h => hd (by rw [h]; exact div_nan_r _)
    have h1 := ha.inB_of_ne h1
    have h2 := hb.inB_of_ne h2
    by_cases hz : (FVal.le B.lo zeroV && FVal.ge B.hi zeroV) = true
    · simp only [hz, if_true]; exact inBb_whole hn
    · simp only [hz]
      have hz' : Ivl.hasZero B = false := by simpa [Ivl.hasZero] using hz
      have hb0 : b ≠ fin 0 := h2.ne_zero hz'
      rcases hr with rfl | ⟨h0, _⟩
      · exact hS.div _ _ _ _ h1 h2 hb0 hd
      · exact absurd h0 hb0

/-! ### min / max / nanfill / compare -/

theorem pmin_eq_nan {a b : FVal K} (h : pmin a b = nan) : a = nan := by
  unfold pmin at h
  cases a <;> cases b <;> simp_all [FVal.isNan]
  all_goals (split at h <;> simp_all)

theorem pmax_eq_nan {a b : FVal K} (h : pmax a b = nan) : a = nan := by
  unfold pmax at h
  cases a <;> cases b <;> simp_all [FVal.isNan]
  all_goals (split at h <;> simp_all)

theorem pmin_nan_r {a : FVal K} : pmin a nan = a := by
  cases a <;> simp [pmin, FVal.isNan]
theorem pmax_nan_r {a : FVal K} : pmax a nan = a := by
  cases a <;> simp [pmax, FVal.isNan]

theorem min_enclS (hS : BoostSound Bo P) {A B : IVal K} {a b : FVal K}
    (ha : enclS A a) (hb : enclS B b) : enclS (imin Bo A B) (pmin a b) := by
  unfold imin
  apply enclS_of
  · intro hn
    have := pmin_eq_nan hn
    subst this
    exact ha.mn_of_nan
  · intro hn
    have h1 : a ≠ nan := by
      rintro rfl
      apply hn
      cases b <;> simp [pmin, FVal.isNan]
    have h1 := ha.inB_of_ne h1
    by_cases h2 : b = nan
    · subst h2
      rw [pmin_nan_r]
      simp only [hb.mn_of_nan, if_true]
      exact hS.hull_r _ _ _ h1
    · have h2 := hb.inB_of_ne h2
      have := hS.min _ _ _ _ h1 h2
      by_cases hm : B.mn = true
      · simp only [hm, if_true]; exact hS.hull_l _ _ _ this
      · simp only [hm]; exact this

theorem max_enclS (hS : BoostSound Bo P) {A B : IVal K} {a b : FVal K}
    (ha : enclS A a) (hb : enclS B b) : enclS (imax Bo A B) (pmax a b) := by
  unfold imax
  apply enclS_of
  · intro hn
    have := pmax_eq_nan hn
    subst this
    exact ha.mn_of_nan
  · intro hn
    have h1 : a ≠ nan := by
      rintro rfl
      apply hn
      cases b <;> simp [pmax, FVal.isNan]
    have h1 := ha.inB_of_ne h1
    by_cases h2 : b = nan
    · subst h2
      rw [pmax_nan_r]
      simp only [hb.mn_of_nan, if_true]
      exact hS.hull_r _ _ _ h1
    · have h2 := hb.inB_of_ne h2
      have := hS.max _ _ _ _ h1 h2
      by_cases hm : B.mn = true
      · simp only [hm, if_true]; exact hS.hull_l _ _ _ this
      · simp only [hm]; exact this

theorem nanfill_enclS (hS : BoostSound Bo P) {A B : IVal K} {a b : FVal K}
    (ha : enclS A a) (hb : enclS B b) : enclS (inanfill Bo A B) (pnanfill a b) := by
  unfold inanfill pnanfill
  by_cases hm : A.mn = true
  · simp only [hm, if_true]
    by_cases h1 : a = nan
    · subst h1
      simp only [FVal.isNan, if_true]
      rcases hb with ⟨hbm, rfl⟩ | hb
      · exact Or.inl ⟨by simp [hbm], rfl⟩
      · exact Or.inr (inB_of (hS.hull_r _ _ _ hb))
    · have : a.isNan = false := by cases a <;> simp_all [FVal.isNan]
      simp only [this]
      exact Or.inr (inB_of (hS.hull_l _ _ _ (ha.inB_of_ne h1)))
  · simp only [hm]
    have h1 : a ≠ nan := by rintro rfl; exact hm ha.mn_of_nan
    have : a.isNan = false := by cases a <;> simp_all [FVal.isNan]
    simp only [this]
    exact Or.inr (inB_of (ha.inB_of_ne h1))

theorem flt_asymm {x y : FVal K} (h : FVal.lt x y = true) : FVal.lt y x = false := by
  cases x <;> cases y <;> simp_all [FVal.lt]
  exact le_of_lt h

theorem fle_refl_fin (x : K) : FVal.le (fin x) (fin x) = true := by simp

theorem pcompare_range (a b : FVal K) :
    inBb (⟨negOneV, oneV⟩ : Bnd K) (pcompare a b) := by
  have m1 : (-1 : K) ≤ 0 := by linarith [zero_lt_one (α := K)]
  have m2 : (0 : K) ≤ 1 := zero_le_one
  have m3 : (-1 : K) ≤ 1 := by linarith
  unfold pcompare
  split
  · exact ⟨by simp, by simp [negOneV], by simp [negOneV, oneV, m3]⟩
  · split
    · exact ⟨by simp, by simp [negOneV, oneV, m3], by simp [oneV]⟩
    · exact ⟨by simp, by simp [negOneV, m1], by simp [oneV, m2]⟩

/-- `compare`: a maybe-NaN operand widens the result to `[−1,1]` (the kernel returns 0 for NaN) -/
theorem compare_enclS {A B : IVal K} {a b : FVal K}
    (ha : enclS A a) (hb : enclS B b) : enclS (icompare A B) (pcompare a b) := by
  by_cases hm : (A.mn || B.mn) = true
  · unfold icompare
    simp only [hm, if_true]
    exact Or.inr (pcompare_range a b)
  have hA : A.mn = false := by cases h : A.mn <;> simp_all
  have hB : B.mn = false := by cases h : B.mn <;> simp_all
  have h1 : inB A a := by
    rcases ha with ⟨h, _⟩ | h
    · rw [hA] at h; exact Bool.noConfusion h
    · exact h
  have h2 : inB B b := by
    rcases hb with ⟨h, _⟩ | h
    · rw [hB] at h; exact Bool.noConfusion h
    · exact h
  have m1 : (-1 : K) ≤ 0 := by linarith [zero_lt_one (α := K)]
  have m2 : (0 : K) ≤ 1 := zero_le_one
  have m3 : (-1 : K) ≤ 1 := by linarith
  unfold icompare pcompare
  simp only [hA, hB, Bool.or_self, Bool.false_eq_true, if_false]
  by_cases c1 : FVal.lt A.hi B.lo = true
  · have : FVal.lt a b = true := flt_of_lt_of_le (flt_of_le_of_lt h1.2.2 c1) h2.2.1
    simp only [c1, this, if_true]
    exact Or.inr ⟨by simp, by simp [IVal.b, negOneV], by simp [IVal.b, negOneV]⟩
  · by_cases c2 : FVal.gt A.lo B.hi = true
    · have : FVal.lt b a = true := flt_of_lt_of_le (flt_of_le_of_lt h2.2.2 c2) h1.2.1
      have n : FVal.lt a b = false := flt_asymm this
      have c2' : FVal.lt B.hi A.lo = true := c2
      simp only [c1, c2', n, FVal.gt, this, if_true, Bool.false_eq_true, if_false]
      exact Or.inr ⟨by simp, by simp [IVal.b, oneV], by simp [IVal.b, oneV]⟩
    · simp only [c1, c2]
      simp only [Bool.false_eq_true, if_false]
      right
      by_cases d1 : FVal.lt a b = true
      · simp only [d1, if_true]; exact ⟨by simp, by simp [IVal.b, negOneV], by simp [IVal.b, oneV, m3]⟩
      · by_cases d2 : FVal.gt a b = true
        · simp only [d1, d2, if_true]; simp only [Bool.false_eq_true, if_false]
          exact ⟨by simp, by simp [IVal.b, negOneV, m3], by simp [IVal.b, oneV]⟩
        · simp only [d1, d2]; simp only [Bool.false_eq_true, if_false]
          exact ⟨by simp, by simp [IVal.b, negOneV, m1], by simp [IVal.b, oneV, m2]⟩

end Libfive.Ivl
