/-
  C02 helper lemmas, part 2: unary opcodes, reciprocal, pow, nth_root.
-/
import LibfiveProofs.Interval

set_option linter.unusedSectionVars false
set_option linter.unusedVariables false

namespace Libfive.Ivl

open FVal

variable {K : Type} [Field K] [LinearOrder K] [IsStrictOrderedRing K]
variable {Bo : BoostOps K} {P : PointFns K}

/-! ### unary opcodes that copy the flag -/

theorem mul_self_ne_nan {a : FVal K} (h : a ≠ nan) : FVal.mul a a ≠ nan := by
  cases a <;> simp_all [FVal.mul]

theorem abs_ne_nan {a : FVal K} (h : a ≠ nan) : FVal.abs a ≠ nan := by
  cases a <;> simp_all [FVal.abs]
  split <;> simp

theorem abs_nan : FVal.abs (nan : FVal K) = nan := rfl

theorem square_enclS (hS : BoostSound Bo P) {A : IVal K} {a : FVal K} (ha : enclS A a) :
    enclS (isquare Bo A) (FVal.mul a a) := by
  unfold isquare
  refine un_enclS (fun a => FVal.mul a a) rfl (fun h => h) ?_ ?_ ha
  · intro h hn; exact absurd hn (mul_self_ne_nan h.1)
  · intro h _; exact hS.square _ _ h

theorem neg_enclS (hS : BoostSound Bo P) {A : IVal K} {a : FVal K} (ha : enclS A a) :
    enclS (ineg Bo A) (FVal.neg a) := by
  unfold ineg
  refine un_enclS FVal.neg rfl (fun h => h) ?_ ?_ ha
  · intro h hn; exact absurd hn (neg_ne_nan h.1)
  · intro h _; exact hS.neg _ _ h

theorem abs_enclS (hS : BoostSound Bo P) {A : IVal K} {a : FVal K} (ha : enclS A a) :
    enclS (iabs Bo A) (FVal.abs a) := by
  unfold iabs
  refine un_enclS FVal.abs rfl (fun h => h) ?_ ?_ ha
  · intro h hn; exact absurd hn (abs_ne_nan h.1)
  · intro h _; exact hS.abs _ _ h

theorem pexp_ne_nan {a : FVal K} (h : a ≠ nan) : pexp P a ≠ nan := by
  cases a <;> simp_all [pexp]

theorem exp_enclS (hS : BoostSound Bo P) {A : IVal K} {a : FVal K} (ha : enclS A a) :
    enclS (iexp Bo A) (pexp P a) := by
  unfold iexp
  refine un_enclS (pexp P) rfl (fun h => h) ?_ ?_ ha
  · intro h hn; exact absurd hn (pexp_ne_nan h.1)
  · intro h _; exact hS.exp _ _ h

theorem patan_ne_nan {a : FVal K} (h : a ≠ nan) : patan P a ≠ nan := by
  cases a <;> simp_all [patan]

theorem atan_enclS (hS : BoostSound Bo P) {A : IVal K} {a : FVal K} (ha : enclS A a) :
    enclS (iatan Bo A) (patan P a) := by
  unfold iatan
  refine un_enclS (patan P) rfl (fun h => h) ?_ ?_ ha
  · intro h hn; exact absurd hn (patan_ne_nan h.1)
  · intro h _
    by_cases c : (A.lo.isInf || A.hi.isInf) = true
    · simp only [c, if_true]; exact hS.atanWhole _ h.1
    · simp only [c]; exact hS.atan _ _ h

/-! ### domain-checked unary opcodes -/

theorem psqrt_eq_nan {a : FVal K} (h0 : a ≠ nan) (h : psqrt P a = nan) : FVal.lt a zeroV = true := by
  cases a <;> simp_all [psqrt, zeroV, FVal.lt]

theorem sqrt_enclS (hS : BoostSound Bo P) {A : IVal K} {a : FVal K} (ha : enclS A a) :
    enclS (isqrt Bo A) (psqrt P a) := by
  unfold isqrt
  refine un_enclS (psqrt P) rfl (fun h => by simp [h]) ?_ ?_ ha
  · intro h hn
    have := h.lo_lt (psqrt_eq_nan h.1 hn)
    simp [this]
  · intro h hn; exact hS.sqrt _ _ h hn

theorem plog_eq_nan {a : FVal K} (h0 : a ≠ nan) (h : plog P a = nan) : FVal.lt a zeroV = true := by
  cases a <;> simp_all [plog, zeroV, FVal.lt]
  by_contra hc
  have := h (not_lt.1 hc)
  split at this <;> simp at this

theorem feq_zero {x : FVal K} (h : FVal.feq x zeroV = true) : x = fin 0 := by
  simp only [FVal.feq, Bool.and_eq_true] at h
  exact fle_antisymm_fin h.2 h.1

theorem fne_zero_cases {x : FVal K} (hx : x ≠ nan) (h : ¬ FVal.feq x zeroV = true) :
    FVal.lt x zeroV = true ∨ FVal.lt zeroV x = true := by
  cases x <;> simp_all [FVal.feq, FVal.lt, FVal.le, zeroV]
  rename_i y
  intro h0
  exact absurd (h (le_of_eq h0)) (by rw [h0]; exact lt_irrefl _)

/-- `log`: an operand with upper bound `0` has the value set `{−∞}` (and NaN when flagged);
    otherwise Boost's `log`, which is non-empty for a positive upper bound. -/
theorem log_enclS (hS : BoostSound Bo P) {A : IVal K} {a : FVal K} (ha : enclS A a) :
    enclS (ilog Bo A) (plog P a) := by
  unfold ilog
  by_cases hz : FVal.feq A.hi zeroV = true
  · simp only [hz, if_true]
    refine un_enclS (plog P) rfl (fun h => by simp [h]) ?_ ?_ ha
    · intro h hn
      have := h.lo_lt (plog_eq_nan h.1 hn)
      simp [this]
    · intro h hn
      -- a ≤ 0 and log a is not NaN, so a = 0 and the value is −∞
      have h0 : FVal.le a (fin 0) = true := by
        have := h.2.2; rw [show A.b.hi = A.hi from rfl, feq_zero hz] at this; exact this
      have : plog P a = ninf := by
        cases a with
        | nan => exact absurd rfl h.1
        | ninf => exact absurd rfl hn
        | pinf => simp [FVal.le] at h0
        | fin x =>
          have hx : x ≤ 0 := by simpa using h0
          unfold plog at hn ⊢
          by_cases h1 : x < 0
          · simp [h1] at hn
          · simp [h1, not_lt.2 hx]
      rw [this]
      exact ⟨by simp, rfl, rfl⟩
  · simp only [hz]
    refine un_enclS (plog P) rfl (fun h => by simp [h]) ?_ ?_ ha
    · intro h hn
      have := h.lo_lt (plog_eq_nan h.1 hn)
      simp [this]
    · intro h hn
      rcases fne_zero_cases (ne_nan_of_le_r h.2.2) hz with hneg | hpos
      · -- the whole operand is negative: no non-NaN value
        have hlt : FVal.lt a zeroV = true := flt_of_le_of_lt h.2.2 hneg
        exfalso
        apply hn
        cases a <;> simp_all [plog, FVal.lt, zeroV]
      · exact hS.log _ _ h hpos hn

theorem pasin_eq_nan {f : K → K} {a : FVal K} (h0 : a ≠ nan) (h : pasin f a = nan) :
    FVal.lt a negOneV = true ∨ FVal.gt a oneV = true := by
  cases a <;> simp_all [pasin, negOneV, oneV, FVal.lt, FVal.gt]
  rename_i x
  by_cases hc : x < -1
  · exact Or.inl hc
  · exact Or.inr (h (not_lt.1 hc))

theorem asin_enclS (hS : BoostSound Bo P) {A : IVal K} {a : FVal K} (ha : enclS A a) :
    enclS (iasin Bo A) (pasin P.asin a) := by
  unfold iasin
  refine un_enclS (pasin P.asin) rfl (fun h => by simp [h]) ?_ ?_ ha
  · intro h hn
    rcases pasin_eq_nan h.1 hn with c | c
    · have := h.lo_lt c; simp [this]
    · have := h.lt_hi c; simp [FVal.gt, this]
  · intro h hn; exact hS.asin _ _ h hn

theorem acos_enclS (hS : BoostSound Bo P) {A : IVal K} {a : FVal K} (ha : enclS A a) :
    enclS (iacos Bo A) (pasin P.acos a) := by
  unfold iacos
  refine un_enclS (pasin P.acos) rfl (fun h => by simp [h]) ?_ ?_ ha
  · intro h hn
    rcases pasin_eq_nan h.1 hn with c | c
    · have := h.lo_lt c; simp [this]
    · have := h.lt_hi c; simp [FVal.gt, this]
  · intro h hn; exact hS.acos _ _ h hn

/-! ### sin / cos / tan: an infinite operand bound is flagged -/

theorem ptrig_eq_nan {f : K → K} {a : FVal K} (h0 : a ≠ nan) (h : ptrig f a = nan) :
    a.isInf = true := by
  cases a <;> simp_all [ptrig, FVal.isInf]

theorem inB.isInf_bounds {A : IVal K} {a : FVal K} (h : inB A a) (hi : a.isInf = true) :
    (A.lo.isInf || A.hi.isInf) = true := by
  cases a <;> simp [FVal.isInf] at hi
  · rw [h.lo_ninf]; rfl
  · rw [h.hi_pinf]; simp [FVal.isInf]

theorem sin_enclS (hS : BoostSound Bo P) {A : IVal K} {a : FVal K} (ha : enclS A a) :
    enclS (isin Bo A) (ptrig P.sin a) := by
  unfold isin
  refine un_enclS (ptrig P.sin) rfl (fun h => by simp [h]) ?_ ?_ ha
  · intro h hn
    have := h.isInf_bounds (ptrig_eq_nan h.1 hn)
    simp only [Bool.or_eq_true] at this
    rcases this with t | t <;> simp [t]
  · intro h hn; exact hS.sin _ _ h hn

theorem cos_enclS (hS : BoostSound Bo P) {A : IVal K} {a : FVal K} (ha : enclS A a) :
    enclS (icos Bo A) (ptrig P.cos a) := by
  unfold icos
  refine un_enclS (ptrig P.cos) rfl (fun h => by simp [h]) ?_ ?_ ha
  · intro h hn
    have := h.isInf_bounds (ptrig_eq_nan h.1 hn)
    simp only [Bool.or_eq_true] at this
    rcases this with t | t <;> simp [t]
  · intro h hn; exact hS.cos _ _ h hn

theorem tan_enclS (hS : BoostSound Bo P) {A : IVal K} {a : FVal K} (ha : enclS A a) :
    enclS (itan Bo A) (ptrig P.tan a) := by
  unfold itan
  refine un_enclS (ptrig P.tan) rfl (fun h => by simp [h]) ?_ ?_ ha
  · intro h hn
    have := h.isInf_bounds (ptrig_eq_nan h.1 hn)
    simp only [Bool.or_eq_true] at this
    rcases this with t | t <;> simp [t]
  · intro h hn; exact hS.tan _ _ h hn

/-! ### reciprocal -/

theorem precip_ne_nan {a : FVal K} (h : a ≠ nan) : precip a ≠ nan := by
  cases a <;> simp_all [precip, FVal.div]
  split
  · simp
  · simp

/-- `recip`: an operand containing zero yields `[−∞,+∞]` (as `operator/` does), so both `1/(+0)`
    and `1/(−0)` are enclosed -/
theorem recip_enclS (hS : BoostSound Bo P) {A : IVal K} {a r : FVal K}
    (ha : enclS A a)
    (hr : r = precip a ∨ (a = fin 0 ∧ r = ninf)) : enclS (irecip Bo A) r := by
  unfold irecip
  by_cases h1 : a = nan
  · subst h1
    rcases hr with rfl | ⟨h, _⟩
    · exact Or.inl ⟨by simp [ha.mn_of_nan], rfl⟩
    · cases h
  · have hin := ha.inB_of_ne h1
    by_cases hz : (FVal.le A.lo zeroV && FVal.ge A.hi zeroV) = true
    · simp only [hz, if_true]
      rcases hr with rfl | ⟨_, rfl⟩
      · exact Or.inr (inBb_whole (precip_ne_nan h1))
      · exact Or.inr (inBb_whole (by simp))
    · simp only [hz]
      have hz' : Ivl.hasZero A = false := by simpa [Ivl.hasZero] using hz
      have h0 : a ≠ fin 0 := hin.ne_zero hz'
      rcases hr with rfl | ⟨h, _⟩
      · exact Or.inr (inB_of (hS.oneDiv _ _ hin h0))
      · exact absurd h h0

/-! ### pow / nth_root with an integer constant exponent -/

theorem ppowi_ne_nan {a : FVal K} {k : Int} (h : a ≠ nan) : ppowi P a k ≠ nan := by
  cases a <;> simp_all [ppowi]
  all_goals (repeat' split) <;> simp

/-- the value of an operand whose interval is the unflagged point interval `[y,y]` -/
theorem point_operand {B : IVal K} {b : FVal K} {y : K} (hB : B = ⟨fin y, fin y, false⟩)
    (hb : enclS B b) : b = fin y := by
  subst hB
  rcases hb with ⟨h, _⟩ | h
  · exact Bool.noConfusion h
  · exact fle_antisymm_fin h.2.1 h.2.2

/-- `pow` for an integer constant exponent `k` (the only exponents libfive's API admits).  For
    `k < 0` a base containing zero yields `[−∞,+∞]`.  Remaining hypothesis: for `k = 0` the base is not
    the point interval `[0,0]` (Boost returns the empty interval there; the result is flagged, but its
    bounds do not contain the value `0^0 = 1`). -/
theorem pow_enclS_partial (hS : BoostSound Bo P) {A B : IVal K} {a b r : FVal K} {y : K} {k : Int}
    (hB : B = ⟨fin y, fin y, false⟩) (hk : P.toInt? y = some k) (hti : Bo.toInt (fin y) = k)
    (hzero : k = 0 → ¬ (A.lo = fin 0 ∧ A.hi = fin 0))
    (ha : enclS A a) (hb : enclS B b)
    (hr : r = pointOp P Op.pow a b ∨
      (a = fin 0 ∧ (∃ k', expOf P b = some k' ∧ k' < 0) ∧ r = ninf)) :
    enclS (ipow Bo A B) r := by
  have hbv := point_operand hB hb
  subst hbv
  have he : expOf P (fin y) = some k := by simp [expOf, hk]
  have hp : pointOp P Op.pow a (fin y) = ppowi P a k := by simp [pointOp, he]
  have hlo : B.lo = fin y := by rw [hB]
  unfold ipow
  simp only [hlo, hti]
  by_cases h1 : a = nan
  · subst h1
    rcases hr with rfl | ⟨h, _⟩
    · rw [hp]
      exact Or.inl ⟨by simp [ha.mn_of_nan], rfl⟩
    · cases h
  · have hin := ha.inB_of_ne h1
    by_cases hc : ((FVal.le A.lo zeroV && FVal.ge A.hi zeroV) && decide (k < 0)) = true
    · simp only [hc, if_true]
      rcases hr with rfl | ⟨_, _, rfl⟩
      · rw [hp]; exact Or.inr (inBb_whole (ppowi_ne_nan h1))
      · exact Or.inr (inBb_whole (by simp))
    · simp only [hc]
      have hnz : k < 0 → a ≠ fin 0 := by
        intro hk0
        have : (FVal.le A.lo zeroV && FVal.ge A.hi zeroV) = false := by
          cases hh : (FVal.le A.lo zeroV && FVal.ge A.hi zeroV)
          · rfl
          · simp [hh, hk0] at hc
        exact hin.ne_zero (by simpa [Ivl.hasZero] using this)
      rcases hr with rfl | ⟨h0, ⟨k', hk', hlt⟩, _⟩
      · rw [hp]
        exact Or.inr (inB_of (hS.powi _ _ _ hin hzero hnz))
      · rw [he] at hk'
        cases hk'
        exact absurd h0 (hnz hlt)

theorem pnthRoot_eq_nan {x : K} {k : Int} (h : pnthRoot P (fin x) k = nan) :
    x < 0 ∧ oddI k = false := by
  unfold pnthRoot at h
  by_cases hx : x < 0
  · simp only [hx, if_true] at h
    by_cases ho : oddI k = true
    · simp [ho] at h
    · exact ⟨hx, by simpa using ho⟩
  · simp [hx] at h

/-- `nth_root` for an integer constant `k ≥ 1`.  Remaining hypothesis: finite operand bounds (Boost's
    `nth_root` returns a NaN bound for an infinite endpoint; the result is then flagged, but its bounds
    do not contain the value at `+∞`). -/
theorem nthRoot_enclS_partial (hS : BoostSound Bo P) {A B : IVal K} {a b : FVal K} {y : K} {k : Int}
    (hB : B = ⟨fin y, fin y, false⟩) (hk : P.toInt? y = some k) (hti : Bo.toInt (fin y) = k)
    (h1 : 1 ≤ k) (hl : A.lo.isFinite = true) (hh : A.hi.isFinite = true)
    (ha : enclS A a) (hb : enclS B b) :
    enclS (inthRoot Bo A B) (pointOp P Op.nthRoot a b) := by
  have hbv := point_operand hB hb
  subst hbv
  have he : expOf P (fin y) = some k := by simp [expOf, hk]
  have hp : pointOp P Op.nthRoot a (fin y) = pnthRoot P a k := by simp [pointOp, he]
  have hlo : B.lo = fin y := by rw [hB]
  rw [hp]
  unfold inthRoot
  simp only [hlo, hti]
  apply enclS_of
  · intro hn
    by_cases h0 : a = nan
    · subst h0; simp [ha.mn_of_nan]
    · have hin := ha.inB_of_ne h0
      obtain ⟨x, rfl⟩ := hin.finite hl hh
      obtain ⟨hx, ho⟩ := pnthRoot_eq_nan hn
      have hlt : FVal.lt A.lo zeroV = true := hin.lo_lt (by simp [zeroV, hx])
      have hb0 : bit0 k = false := ho
      simp [hlt, hb0]
  · intro hn
    have h0 : a ≠ nan := by rintro rfl; exact hn rfl
    exact hS.nthRoot _ _ _ (ha.inB_of_ne h0) hl hh h1 hn

end Libfive.Ivl
