/-
  Helper lemmas for C10: invariants of the model of `Contours::collect`
  (LibfiveModel/Contours.lean).  Core Lean only.
-/
import LibfiveModel.Contours

namespace Libfive.Contours

/-! ### A. polylines and their segments -/

@[simp] theorem pairs_nil : pairs [] = [] := rfl
@[simp] theorem pairs_single (a : Nat) : pairs [a] = [] := rfl
@[simp] theorem pairs_cons_cons (a b : Nat) (l : List Nat) :
    pairs (a :: b :: l) = (a, b) :: pairs (b :: l) := rfl

theorem hd_cons (a : Nat) (l : List Nat) : hd (a :: l) = a := rfl

theorem lst_cons_cons (a b : Nat) (l : List Nat) : lst (a :: b :: l) = lst (b :: l) := by
  simp [lst, List.getLastD]

theorem lst_eq (l : List Nat) : lst l = l.getLast?.getD 0 := by
  simp [lst, List.getLastD_eq_getLast?]

theorem lst_append_single (l : List Nat) (b : Nat) : lst (l ++ [b]) = b := by
  simp [lst_eq]

theorem hd_append (l r : List Nat) (h : l ≠ []) : hd (l ++ r) = hd l := by
  cases l with
  | nil => exact absurd rfl h
  | cons a l => rfl

theorem lst_append (l r : List Nat) (h : r ≠ []) : lst (l ++ r) = lst r := by
  simp [lst_eq, List.getLast?_append, List.getLast?_eq_some_getLast h]

theorem pairs_cons (a : Nat) (l : List Nat) (h : l ≠ []) : pairs (a :: l) = (a, hd l) :: pairs l := by
  cases l with
  | nil => exact absurd rfl h
  | cons b l => rfl

theorem pairs_append_single (l : List Nat) (b : Nat) (h : l ≠ []) :
    pairs (l ++ [b]) = pairs l ++ [(lst l, b)] := by
  induction l with
  | nil => exact absurd rfl h
  | cons a l ih =>
    cases l with
    | nil => simp [pairs, lst]
    | cons c l =>
      have := ih (by simp)
      simp only [List.cons_append, pairs_cons_cons] at this ⊢
      rw [this, lst_cons_cons]

/-- welding `xs` and `ys` at the shared vertex `lst xs = hd ys` -/
theorem pairs_overlap (xs ys : List Nat) (hx : xs ≠ []) (hy : ys ≠ []) (h : lst xs = hd ys) :
    pairs (xs.dropLast ++ ys) = pairs xs ++ pairs ys := by
  induction xs with
  | nil => exact absurd rfl hx
  | cons a l ih =>
    cases l with
    | nil =>
      cases ys with
      | nil => exact absurd rfl hy
      | cons b ys => simp
    | cons c l =>
      have h' : lst (c :: l) = hd ys := by rw [← h, lst_cons_cons]
      have := ih (by simp) h'
      cases l with
      | nil =>
        cases ys with
        | nil => exact absurd rfl hy
        | cons b ys =>
          simp [lst, hd] at h'
          subst h'
          simp
      | cons d l =>
        simp only [List.dropLast_cons_cons, List.cons_append, pairs_cons_cons] at this ⊢
        rw [this]

theorem map_fst_pairs (l : List Nat) : (pairs l).map Prod.fst = l.dropLast := by
  induction l with
  | nil => rfl
  | cons a l ih =>
    cases l with
    | nil => rfl
    | cons b l => simp only [pairs_cons_cons, List.map_cons, ih, List.dropLast_cons_cons]

theorem map_snd_pairs (l : List Nat) : (pairs l).map Prod.snd = l.tail := by
  induction l with
  | nil => rfl
  | cons a l ih =>
    cases l with
    | nil => rfl
    | cons b l =>
      simp only [pairs_cons_cons, List.map_cons, ih, List.tail_cons]

theorem hd_mem_dropLast (l : List Nat) (h : 2 ≤ l.length) : hd l ∈ l.dropLast := by
  match l, h with
  | a :: b :: l, _ => simp [hd]

theorem lst_mem_tail (l : List Nat) (h : 2 ≤ l.length) : lst l ∈ l.tail := by
  match l, h with
  | a :: b :: l, _ =>
    rw [lst_cons_cons, lst_eq, List.getLast?_eq_some_getLast (by simp : b :: l ≠ [])]
    simp only [List.tail_cons, Option.getD_some]
    exact List.getLast_mem _

/-- a vertex in `dropLast` other than the head is also in `tail.dropLast` -/
theorem mem_dropLast_cases (l : List Nat) (v : Nat) (h : v ∈ l.dropLast) :
    v = hd l ∨ v ∈ l.tail.dropLast := by
  match l with
  | [] => simp at h
  | [a] => simp at h
  | a :: b :: l =>
    simp only [List.dropLast_cons_cons, List.mem_cons] at h
    rcases h with h | h
    · exact Or.inl h
    · exact Or.inr (by simpa using h)

theorem tail_eq_dropLast_append_lst (l : List Nat) (h : 2 ≤ l.length) :
    l.tail = l.tail.dropLast ++ [lst l] := by
  match l, h with
  | a :: b :: l, _ =>
    rw [lst_cons_cons, lst_eq, List.getLast?_eq_some_getLast (by simp : b :: l ≠ [])]
    simp only [List.tail_cons, Option.getD_some]
    exact (List.dropLast_concat_getLast _).symm

/-! ### B. the two maps -/

theorem mem_of_lookup {m : Map} {k v : Nat} (h : m.lookup k = some v) : (k, v) ∈ m := by
  induction m with
  | nil => simp at h
  | cons e m ih =>
    obtain ⟨k', v'⟩ := e
    by_cases hk : k = k'
    · subst hk
      simp at h
      simp [h]
    · have : (k == k') = false := by simpa using hk
      simp only [List.lookup_cons, this] at h
      exact List.mem_cons_of_mem _ (ih h)

theorem lookup_isSome_of_mem {m : Map} {k v : Nat} (h : (k, v) ∈ m) : (m.lookup k).isSome := by
  induction m with
  | nil => simp at h
  | cons e m ih =>
    obtain ⟨k', v'⟩ := e
    by_cases hk : k = k'
    · subst hk; simp
    · have hb : (k == k') = false := by simpa using hk
      simp only [List.lookup_cons, hb]
      apply ih
      simp only [List.mem_cons, Prod.mk.injEq] at h
      rcases h with h | h
      · exact absurd h.1 hk
      · exact h

theorem mem_minsert {m : Map} {k v : Nat} {e : Nat × Nat} (h : e ∈ minsert m k v) :
    e ∈ m ∨ e = (k, v) := by
  unfold minsert at h
  split at h
  · exact Or.inl h
  · simp only [List.mem_cons] at h
    rcases h with h | h
    · exact Or.inr h
    · exact Or.inl h

theorem mem_merase {m : Map} {k : Nat} {e : Nat × Nat} : e ∈ merase m k ↔ e ∈ m ∧ e.1 ≠ k := by
  simp [merase]

theorem mem_mset {m : Map} {k v : Nat} {e : Nat × Nat} (h : e ∈ mset m k v) :
    e = (k, v) ∨ (e ∈ m ∧ e.1 ≠ k) := by
  simp only [mset, List.mem_cons] at h
  rcases h with h | h
  · exact Or.inl h
  · exact Or.inr (mem_merase.1 h)

theorem lookup_minsert_isSome (m : Map) (k v : Nat) : ((minsert m k v).lookup k).isSome := by
  unfold minsert
  split
  · assumption
  · simp

/-- a key present before `minsert`/`merase` of other keys is still present -/
theorem lookup_isSome_minsert {m : Map} {x k v : Nat} (h : (m.lookup x).isSome) :
    ((minsert m k v).lookup x).isSome := by
  obtain ⟨w, hw⟩ := Option.isSome_iff_exists.1 h
  have := mem_of_lookup hw
  unfold minsert
  split
  · exact h
  · exact lookup_isSome_of_mem (List.mem_cons_of_mem _ this)

theorem lookup_isSome_merase {m : Map} {x k : Nat} (h : (m.lookup x).isSome) (hx : x ≠ k) :
    ((merase m k).lookup x).isSome := by
  obtain ⟨w, hw⟩ := Option.isSome_iff_exists.1 h
  exact lookup_isSome_of_mem (mem_merase.2 ⟨mem_of_lookup hw, hx⟩)

/-! ### C. `List.modify` on the chain list -/

theorem getD_modify (cs : List (List Nat)) (t j : Nat) (f : List Nat → List Nat) (hj : j < cs.length) :
    (cs.modify t f).getD j [] = if t = j then f (cs.getD j []) else cs.getD j [] := by
  simp only [List.getD_eq_getElem?_getD, List.getElem?_modify]
  rw [List.getElem?_eq_getElem hj]
  by_cases h : t = j <;> simp [h]

theorem modify_split (cs : List (List Nat)) (t : Nat) (f : List Nat → List Nat) (ht : t < cs.length) :
    ∃ pre post, cs = pre ++ cs.getD t [] :: post ∧ cs.modify t f = pre ++ f (cs.getD t []) :: post := by
  induction cs generalizing t with
  | nil => simp at ht
  | cons c cs ih =>
    cases t with
    | zero => exact ⟨[], cs, by simp, by simp⟩
    | succ t =>
      obtain ⟨pre, post, h1, h2⟩ := ih t (by simpa using ht)
      refine ⟨c :: pre, post, ?_, ?_⟩
      · simp only [List.getD_cons_succ, List.cons_append]; rw [← h1]
      · simp only [List.modify_succ_cons, List.getD_cons_succ, List.cons_append]; rw [h2]

theorem mem_modify {cs : List (List Nat)} {t : Nat} {f : List Nat → List Nat} {c : List Nat}
    (h : c ∈ cs.modify t f) : c ∈ cs ∨ (t < cs.length ∧ c = f (cs.getD t [])) := by
  by_cases ht : t < cs.length
  · obtain ⟨pre, post, h1, h2⟩ := modify_split cs t f ht
    rw [h2] at h
    simp only [List.mem_append, List.mem_cons] at h
    rcases h with h | h | h
    · left; rw [h1]; simp [h]
    · right; exact ⟨ht, h⟩
    · left; rw [h1]; simp [h]
  · left
    rw [List.modify_eq_self (by omega)] at h
    exact h

theorem lst_cons (a : Nat) (c : List Nat) (h : c ≠ []) : lst (a :: c) = lst c := by
  cases c with
  | nil => exact absurd rfl h
  | cons b c => exact lst_cons_cons a b c

theorem ne_nil_of_two_le {c : List Nat} (h : 2 ≤ c.length) : c ≠ [] := by
  intro hc; subst hc; simp at h

theorem getD_mem {cs : List (List Nat)} {i : Nat} (h : i < cs.length) : cs.getD i [] ∈ cs := by
  rw [List.getD_eq_getElem?_getD, List.getElem?_eq_getElem h]
  simp

theorem getD_append_left (l r : List (List Nat)) (i : Nat) (h : i < l.length) :
    (l ++ r).getD i [] = l.getD i [] := by
  simp [List.getD_eq_getElem?_getD, List.getElem?_append_left h]

/-! ### D. invariant of the chaining loop (no precondition on the segments) -/

structure Inv (st : St) (done : List Seg) : Prop where
  perm : (st.chains.flatMap pairs).Perm done
  len : ∀ c ∈ st.chains, 2 ≤ c.length
  hv : ∀ e ∈ st.heads, e.2 < st.chains.length ∧ hd (st.chains.getD e.2 []) = e.1
  tv : ∀ e ∈ st.tails, e.2 < st.chains.length ∧ lst (st.chains.getD e.2 []) = e.1

theorem inv_init : Inv {} [] :=
  ⟨by simp, by simp, by simp, by simp⟩

theorem step_inv (st : St) (done : List Seg) (s : Seg) (h : Inv st done) :
    Inv (step st s) (s :: done) := by
  obtain ⟨a, b⟩ := s
  unfold step
  simp only
  cases ht : st.tails.lookup a with
  | some t =>
    simp only
    obtain ⟨htl, htv⟩ := h.tv _ (mem_of_lookup ht)
    simp only at htl htv
    have hc2 := h.len _ (getD_mem htl)
    have hcne := ne_nil_of_two_le hc2
    obtain ⟨pre, post, h1, h2⟩ := modify_split st.chains t (· ++ [b]) htl
    refine ⟨?_, ?_, ?_, ?_⟩
    · have hp := h.perm
      rw [h1] at hp
      rw [h2]
      simp only [List.flatMap_append, List.flatMap_cons] at hp ⊢
      rw [pairs_append_single _ _ hcne, htv]
      refine List.Perm.trans ?_ (List.Perm.cons (a, b) hp)
      have : pre.flatMap pairs ++ (pairs (st.chains.getD t []) ++ [(a, b)] ++ post.flatMap pairs)
          = (pre.flatMap pairs ++ pairs (st.chains.getD t [])) ++ (a, b) :: post.flatMap pairs := by
        simp
      rw [this]
      refine List.Perm.trans List.perm_middle ?_
      simp
    · intro c hc
      rcases mem_modify hc with hc | ⟨_, hc⟩
      · exact h.len c hc
      · subst hc; simp only [List.length_append, List.length_cons, List.length_nil]; omega
    · intro e he
      obtain ⟨hl, hh⟩ := h.hv e he
      refine ⟨by simpa using hl, ?_⟩
      rw [getD_modify _ _ _ _ hl]
      by_cases hte : t = e.2
      · simp only [hte, if_true]
        rw [hd_append _ _ (ne_nil_of_two_le (h.len _ (getD_mem hl)))]
        exact hh
      · simp only [hte, if_false]; exact hh
    · intro e he
      obtain ⟨he1, hne⟩ := mem_merase.1 he
      rcases mem_minsert he1 with he2 | he2
      · obtain ⟨hl, hh⟩ := h.tv e he2
        refine ⟨by simpa using hl, ?_⟩
        rw [getD_modify _ _ _ _ hl]
        by_cases hte : t = e.2
        · exfalso
          apply hne
          rw [← hh, ← hte, htv]
        · simp only [hte, if_false]; exact hh
      · subst he2
        refine ⟨by simpa using htl, ?_⟩
        rw [getD_modify _ _ _ _ htl]
        simp [lst_append_single]
  | none =>
    simp only
    cases hh : st.heads.lookup b with
    | some hI =>
      simp only
      obtain ⟨hhl, hhv⟩ := h.hv _ (mem_of_lookup hh)
      simp only at hhl hhv
      have hc2 := h.len _ (getD_mem hhl)
      have hcne := ne_nil_of_two_le hc2
      obtain ⟨pre, post, h1, h2⟩ := modify_split st.chains hI (a :: ·) hhl
      refine ⟨?_, ?_, ?_, ?_⟩
      · have hp := h.perm
        rw [h1] at hp
        rw [h2]
        simp only [List.flatMap_append, List.flatMap_cons] at hp ⊢
        rw [pairs_cons _ _ hcne, hhv]
        refine List.Perm.trans ?_ (List.Perm.cons (a, b) hp)
        have : pre.flatMap pairs ++ ((a, b) :: pairs (st.chains.getD hI []) ++ post.flatMap pairs)
            = pre.flatMap pairs ++ (a, b) :: (pairs (st.chains.getD hI []) ++ post.flatMap pairs) := by
          simp
        rw [this]
        exact List.perm_middle
      · intro c hc
        rcases mem_modify hc with hc | ⟨_, hc⟩
        · exact h.len c hc
        · subst hc; simp only [List.length_cons]; omega
      · intro e he
        obtain ⟨he1, hne⟩ := mem_merase.1 he
        rcases mem_minsert he1 with he2 | he2
        · obtain ⟨hl, hh'⟩ := h.hv e he2
          refine ⟨by simpa using hl, ?_⟩
          rw [getD_modify _ _ _ _ hl]
          by_cases hte : hI = e.2
          · exfalso
            apply hne
            rw [← hh', ← hte, hhv]
          · simp only [hte, if_false]; exact hh'
        · subst he2
          refine ⟨by simpa using hhl, ?_⟩
          rw [getD_modify _ _ _ _ hhl]
          simp [hd]
      · intro e he
        obtain ⟨hl, hh'⟩ := h.tv e he
        refine ⟨by simpa using hl, ?_⟩
        rw [getD_modify _ _ _ _ hl]
        by_cases hte : hI = e.2
        · simp only [hte, if_true]
          rw [lst_cons _ _ (ne_nil_of_two_le (h.len _ (getD_mem hl)))]
          exact hh'
        · simp only [hte, if_false]; exact hh'
    | none =>
      simp only
      refine ⟨?_, ?_, ?_, ?_⟩
      · simp only [List.flatMap_append, List.flatMap_cons, List.flatMap_nil, pairs_cons_cons,
          pairs_single, List.append_nil]
        refine List.Perm.trans ?_ (List.Perm.cons (a, b) h.perm)
        exact List.perm_append_singleton _ _
      · intro c hc
        simp only [List.mem_append, List.mem_singleton] at hc
        rcases hc with hc | hc
        · exact h.len c hc
        · subst hc; simp
      · intro e he
        rcases mem_mset he with he | ⟨he, _⟩
        · subst he; simp [hd]
        · obtain ⟨hl, hh'⟩ := h.hv e he
          refine ⟨by simp; omega, ?_⟩
          rw [getD_append_left _ _ _ hl]
          exact hh'
      · intro e he
        rcases mem_mset he with he | ⟨he, _⟩
        · subst he; simp [lst]
        · obtain ⟨hl, hh'⟩ := h.tv e he
          refine ⟨by simp; omega, ?_⟩
          rw [getD_append_left _ _ _ hl]
          exact hh'

theorem foldl_step_inv (segs : List Seg) (st : St) (done : List Seg) (h : Inv st done) :
    Inv (segs.foldl step st) (segs.reverse ++ done) := by
  induction segs generalizing st done with
  | nil => simpa using h
  | cons s segs ih =>
    simp only [List.foldl_cons, List.reverse_cons, List.append_assoc, List.singleton_append]
    exact ih _ _ (step_inv st done s h)

theorem chainAll_inv (segs : List Seg) : Inv (chainAll segs) segs.reverse := by
  have := foldl_step_inv segs {} [] inv_init
  simpa [chainAll] using this

/-! ### E. the welding loop: general facts (no precondition) -/

theorem getD_set_true (pr : List Bool) (t j : Nat) :
    (pr.set t true).getD j true = if t = j then true else pr.getD j true := by
  simp only [List.getD_eq_getElem?_getD, List.getElem?_set]
  by_cases h : t = j
  · subst h
    by_cases h2 : t < pr.length <;> simp [h2]
  · simp [h]

theorem lt_of_getD_false {pr : List Bool} {j : Nat} (h : pr.getD j true = false) : j < pr.length := by
  by_cases hj : j < pr.length
  · exact hj
  · rw [List.getD_eq_getElem?_getD, List.getElem?_eq_none (by omega)] at h
    simp at h

/-- number of unprocessed chains -/
def unproc (pr : List Bool) : Nat := pr.count false

theorem unproc_set (pr : List Bool) (t : Nat) (h : pr.getD t true = false) :
    unproc (pr.set t true) + 1 = unproc pr := by
  induction pr generalizing t with
  | nil => simp at h
  | cons b pr ih =>
    cases t with
    | zero =>
      simp only [List.getD_cons_zero] at h
      subst h
      simp [unproc]
    | succ t =>
      simp only [List.getD_cons_succ] at h
      have := ih t h
      simp only [unproc, List.set_cons_succ, List.count_cons] at this ⊢
      omega

/-- what the code relies on: the entries of `heads` point at chains that start with their key -/
structure Ctx (cs : List (List Nat)) (heads : Map) : Prop where
  len : ∀ c ∈ cs, 2 ≤ c.length
  hv : ∀ e ∈ heads, e.2 < cs.length ∧ hd (cs.getD e.2 []) = e.1

def segsOf (cs : List (List Nat)) (vs : List Nat) : List Seg := vs.flatMap fun j => pairs (cs.getD j [])

theorem weldLoop_spec (cs : List (List Nat)) (heads : Map) (ctx : Ctx cs heads) :
    ∀ (fuel t : Nat) (pr : List Bool) (acc : List Nat) (X : List Seg),
      pr.length = cs.length → pr.getD t true = false → unproc pr ≤ fuel →
      pairs (acc ++ cs.getD t []) = X ++ pairs (cs.getD t []) →
      ∃ vs : List Nat,
        (weldLoop cs heads fuel t pr acc).2.length = cs.length ∧
        (∀ j, (weldLoop cs heads fuel t pr acc).2.getD j true = true ↔ (pr.getD j true = true ∨ j ∈ vs)) ∧
        (∀ j ∈ vs, pr.getD j true = false) ∧ vs.Nodup ∧ t ∈ vs ∧
        pairs (weldLoop cs heads fuel t pr acc).1 = X ++ segsOf cs vs ∧
        2 ≤ (weldLoop cs heads fuel t pr acc).1.length := by
  intro fuel
  induction fuel with
  | zero =>
    intro t pr acc X _ hpt hf _
    have := unproc_set pr t hpt
    omega
  | succ fuel ih =>
    intro t pr acc X hlen hpt hf hX
    have htl : t < cs.length := hlen ▸ lt_of_getD_false hpt
    have hc2 := ctx.len _ (getD_mem htl)
    have hcne := ne_nil_of_two_le hc2
    -- the result when the loop stops after this chain
    have stop : ∃ vs : List Nat,
        (pr.set t true).length = cs.length ∧
        (∀ j, (pr.set t true).getD j true = true ↔ (pr.getD j true = true ∨ j ∈ vs)) ∧
        (∀ j ∈ vs, pr.getD j true = false) ∧ vs.Nodup ∧ t ∈ vs ∧
        pairs (acc ++ cs.getD t []) = X ++ segsOf cs vs ∧
        2 ≤ (acc ++ cs.getD t []).length := by
      refine ⟨[t], by simpa using hlen, ?_, ?_, by simp, by simp, ?_, ?_⟩
      · intro j
        rw [getD_set_true]
        by_cases h : t = j
        · subst h; simp
        · have h2 : j ≠ t := fun e => h e.symm
          simp [h, h2]
      · intro j hj; simp only [List.mem_singleton] at hj; subst hj; exact hpt
      · simpa [segsOf] using hX
      · simp only [List.length_append]; omega
    unfold weldLoop
    simp only
    cases hl : heads.lookup (lst (cs.getD t [])) with
    | none => simpa using stop
    | some h =>
      simp only
      by_cases hp : (pr.set t true).getD h true = true
      · rw [if_pos hp]; exact stop
      · rw [if_neg hp]
        have hp' : (pr.set t true).getD h true = false := by simpa using hp
        obtain ⟨hhl, hhv⟩ := ctx.hv _ (mem_of_lookup hl)
        simp only at hhl hhv
        have hh2 := ctx.len _ (getD_mem hhl)
        have hX' : pairs ((acc ++ cs.getD t []).dropLast ++ cs.getD h [])
            = (X ++ pairs (cs.getD t [])) ++ pairs (cs.getD h []) := by
          rw [pairs_overlap _ _ (fun e => hcne (List.append_eq_nil_iff.1 e).2) (ne_nil_of_two_le hh2)
            (by rw [lst_append _ _ hcne, hhv]), hX]
        have hf' : unproc (pr.set t true) ≤ fuel := by
          have := unproc_set pr t hpt
          omega
        obtain ⟨vs, r1, r2, r3, r4, r5, r6, r7⟩ :=
          ih h (pr.set t true) (acc ++ cs.getD t []).dropLast (X ++ pairs (cs.getD t []))
            (by simpa using hlen) hp' hf' hX'
        have htv : t ∉ vs := by
          intro hmem
          have := r3 t hmem
          rw [getD_set_true] at this
          simp at this
        refine ⟨t :: vs, r1, ?_, ?_, ?_, by simp, ?_, r7⟩
        · intro j
          rw [r2 j, getD_set_true]
          by_cases h' : t = j
          · subst h'; simp
          · have h2 : j ≠ t := fun e => h' e.symm
            simp [h', h2]
        · intro j hj
          simp only [List.mem_cons] at hj
          rcases hj with hj | hj
          · subst hj; exact hpt
          · have := r3 j hj
            rw [getD_set_true] at this
            by_cases h' : t = j
            · simp [h'] at this
            · simpa [h'] using this
        · exact List.nodup_cons.2 ⟨htv, r4⟩
        · rw [r6]
          simp [segsOf]

theorem map_getD_range (cs : List (List Nat)) :
    (List.range cs.length).map (fun j => cs.getD j []) = cs := by
  apply List.ext_getElem
  · simp
  · intro i h1 h2
    simp [List.getD_eq_getElem?_getD, List.getElem?_eq_getElem h2]

theorem segsOf_range (cs : List (List Nat)) : segsOf cs (List.range cs.length) = cs.flatMap pairs := by
  have : segsOf cs (List.range cs.length)
      = ((List.range cs.length).map (fun j => cs.getD j [])).flatMap pairs := by
    simp [segsOf, List.flatMap_map]
  rw [this, map_getD_range]

/-- invariant of the outer welding loop; `ds` lists the processed chains in processing order -/
structure OInv (cs : List (List Nat)) (s : List Bool × List (List Nat)) (ds : List Nat) : Prop where
  plen : s.1.length = cs.length
  mem : ∀ j, j < cs.length → (s.1.getD j true = true ↔ j ∈ ds)
  lt : ∀ j ∈ ds, j < cs.length
  nd : ds.Nodup
  out : s.2.flatMap pairs = segsOf cs ds
  olen : ∀ p ∈ s.2, 2 ≤ p.length

theorem weldStep_oinv (cs : List (List Nat)) (heads : Map) (ctx : Ctx cs heads)
    (s : List Bool × List (List Nat)) (ds : List Nat) (i : Nat) (h : OInv cs s ds) :
    ∃ ds', OInv cs (weldStep cs heads s i) ds' ∧ (∀ j ∈ ds, j ∈ ds') ∧ (i < cs.length → i ∈ ds') := by
  unfold weldStep
  by_cases hp : s.1.getD i true = true
  · rw [if_pos hp]
    exact ⟨ds, h, fun _ hj => hj, fun hi => (h.mem i hi).1 hp⟩
  · rw [if_neg hp]
    have hp' : s.1.getD i true = false := by simpa using hp
    have hfuel : unproc s.1 ≤ cs.length := by
      rw [← h.plen]; exact List.count_le_length
    obtain ⟨vs, r1, r2, r3, r4, r5, r6, r7⟩ :=
      weldLoop_spec cs heads ctx cs.length i s.1 [] [] h.plen hp' hfuel (by simp)
    refine ⟨ds ++ vs, ⟨r1, ?_, ?_, ?_, ?_, ?_⟩, ?_, ?_⟩
    · intro j hj
      simp only
      rw [r2 j, List.mem_append, h.mem j hj]
    · intro j hj
      rcases List.mem_append.1 hj with hj | hj
      · exact h.lt j hj
      · exact h.plen ▸ lt_of_getD_false (r3 j hj)
    · refine List.nodup_append.2 ⟨h.nd, r4, ?_⟩
      intro a ha b hb hab
      subst hab
      have h1 := r3 a hb
      have h2 := (h.mem a (h.lt a ha)).2 ha
      rw [h1] at h2
      exact Bool.noConfusion h2
    · simp only [List.flatMap_append, List.flatMap_cons, List.flatMap_nil, List.append_nil]
      rw [h.out, r6]
      simp [segsOf]
    · intro p hp2
      simp only [List.mem_append, List.mem_singleton] at hp2
      rcases hp2 with hp2 | hp2
      · exact h.olen p hp2
      · subst hp2; exact r7
    · intro j hj; exact List.mem_append_left _ hj
    · intro _; exact List.mem_append_right _ r5

theorem foldl_weldStep_oinv (cs : List (List Nat)) (heads : Map) (ctx : Ctx cs heads) (is : List Nat) :
    ∀ (s : List Bool × List (List Nat)) (ds : List Nat), OInv cs s ds →
      ∃ ds', OInv cs (is.foldl (weldStep cs heads) s) ds' ∧ (∀ j ∈ ds, j ∈ ds') ∧
        (∀ i ∈ is, i < cs.length → i ∈ ds') := by
  induction is with
  | nil => intro s ds h; exact ⟨ds, h, fun _ hj => hj, by simp⟩
  | cons i is ih =>
    intro s ds h
    obtain ⟨d1, h1, s1, m1⟩ := weldStep_oinv cs heads ctx s ds i h
    obtain ⟨d2, h2, s2, m2⟩ := ih _ d1 h1
    refine ⟨d2, h2, fun j hj => s2 j (s1 j hj), ?_⟩
    intro k hk hkl
    simp only [List.mem_cons] at hk
    rcases hk with hk | hk
    · subst hk; exact s2 _ (m1 hkl)
    · exact m2 k hk hkl

/-- **the welding loop partitions the chains**: the polylines it outputs use exactly the segments
    of the chains, each once -/
theorem weld_perm (cs : List (List Nat)) (heads : Map) (ctx : Ctx cs heads) :
    ((weld cs heads).flatMap pairs).Perm (cs.flatMap pairs) ∧ ∀ p ∈ weld cs heads, 2 ≤ p.length := by
  have h0 : OInv cs (List.replicate cs.length false, []) [] :=
    ⟨by simp, by
      intro j hj
      simp [List.getD_eq_getElem?_getD, hj], by simp, by simp, by simp [segsOf], by simp⟩
  obtain ⟨ds, h, _, hall⟩ := foldl_weldStep_oinv cs heads ctx (List.range cs.length) _ [] h0
  have hperm : ds.Perm (List.range cs.length) := by
    rw [List.perm_ext_iff_of_nodup h.nd List.nodup_range]
    intro a
    constructor
    · intro ha; exact List.mem_range.2 (h.lt a ha)
    · intro ha; exact hall a ha (List.mem_range.1 ha)
  refine ⟨?_, h.olen⟩
  unfold weld
  rw [h.out, ← segsOf_range]
  exact List.Perm.flatMap_right _ hperm

/-! ### F. under the degree precondition -/

theorem nodup_flatMap_disjoint {f : List Nat → List Nat} :
    ∀ (cs : List (List Nat)) (i j : Nat) (x : Nat), (cs.flatMap f).Nodup → i < cs.length → j < cs.length →
      i ≠ j → x ∈ f (cs.getD i []) → x ∈ f (cs.getD j []) → False := by
  intro cs
  induction cs with
  | nil => intro i j x _ hi; simp at hi
  | cons c cs ih =>
    intro i j x hnd hi hj hij hxi hxj
    simp only [List.flatMap_cons] at hnd
    obtain ⟨_, h2, h3⟩ := List.nodup_append.1 hnd
    cases i with
    | zero =>
      cases j with
      | zero => exact hij rfl
      | succ j =>
        simp only [List.getD_cons_zero] at hxi
        simp only [List.getD_cons_succ] at hxj
        have hj' : j < cs.length := by simpa using hj
        exact h3 x hxi x (List.mem_flatMap.2 ⟨_, getD_mem hj', hxj⟩) rfl
    | succ i =>
      cases j with
      | zero =>
        simp only [List.getD_cons_zero] at hxj
        simp only [List.getD_cons_succ] at hxi
        have hi' : i < cs.length := by simpa using hi
        exact h3 x hxj x (List.mem_flatMap.2 ⟨_, getD_mem hi', hxi⟩) rfl
      | succ j =>
        simp only [List.getD_cons_succ] at hxi hxj
        exact ih i j x h2 (by simpa using hi) (by simpa using hj) (by omega) hxi hxj

theorem nodup_of_nodup_flatMap {f : List Nat → List Nat} {cs : List (List Nat)} {c : List Nat}
    (h : (cs.flatMap f).Nodup) (hc : c ∈ cs) : (f c).Nodup := by
  induction cs with
  | nil => simp at hc
  | cons d cs ih =>
    simp only [List.flatMap_cons] at h
    obtain ⟨h1, h2, _⟩ := List.nodup_append.1 h
    simp only [List.mem_cons] at hc
    rcases hc with hc | hc
    · subst hc; exact h1
    · exact ih h2 hc

theorem exists_index_of_mem {cs : List (List Nat)} {c : List Nat} (h : c ∈ cs) :
    ∃ j, j < cs.length ∧ cs.getD j [] = c := by
  obtain ⟨j, hj, rfl⟩ := List.mem_iff_getElem.1 h
  exact ⟨j, hj, by simp [List.getD_eq_getElem?_getD, List.getElem?_eq_getElem hj]⟩

theorem firsts_eq (cs : List (List Nat)) : (cs.flatMap pairs).map Prod.fst = cs.flatMap List.dropLast := by
  induction cs with
  | nil => rfl
  | cons c cs ih => simp [List.flatMap_cons, map_fst_pairs, ih]

theorem seconds_eq (cs : List (List Nat)) : (cs.flatMap pairs).map Prod.snd = cs.flatMap List.tail := by
  induction cs with
  | nil => rfl
  | cons c cs ih => simp [List.flatMap_cons, map_snd_pairs, ih]

/-- every chain's first vertex is a key of `heads` -/
def Compl (st : St) : Prop :=
  ∀ i, i < st.chains.length → (st.heads.lookup (hd (st.chains.getD i []))).isSome

theorem step_compl (st : St) (done : List Seg) (s : Seg) (h : Inv st done)
    (hnd : ((s :: done).map Prod.fst).Nodup) (hc : Compl st) : Compl (step st s) := by
  obtain ⟨a, b⟩ := s
  have hF : (st.chains.flatMap List.dropLast).Nodup := by
    rw [← firsts_eq]
    exact (List.Perm.nodup_iff (h.perm.map Prod.fst)).2 (List.nodup_cons.1 hnd).2
  have ha : a ∉ st.chains.flatMap List.dropLast := by
    rw [← firsts_eq]
    intro hmem
    exact (List.nodup_cons.1 hnd).1 ((h.perm.map Prod.fst).mem_iff.1 hmem)
  unfold step
  simp only
  cases ht : st.tails.lookup a with
  | some t =>
    simp only
    intro i hi
    have hi' : i < st.chains.length := by simpa using hi
    simp only
    rw [getD_modify _ _ _ _ hi']
    by_cases hte : t = i
    · simp only [hte, if_true]
      rw [hd_append _ _ (ne_nil_of_two_le (h.len _ (getD_mem hi')))]
      exact hc i hi'
    · simp only [hte, if_false]; exact hc i hi'
  | none =>
    simp only
    cases hh : st.heads.lookup b with
    | some hI =>
      simp only
      obtain ⟨hhl, hhv⟩ := h.hv _ (mem_of_lookup hh)
      simp only at hhl hhv
      have hbmem : b ∈ st.chains.flatMap List.dropLast :=
        List.mem_flatMap.2 ⟨_, getD_mem hhl, hhv ▸ hd_mem_dropLast _ (h.len _ (getD_mem hhl))⟩
      have hab : a ≠ b := fun e => ha (e ▸ hbmem)
      intro i hi
      have hi' : i < st.chains.length := by simpa using hi
      simp only
      rw [getD_modify _ _ _ _ hi']
      by_cases hte : hI = i
      · simp only [hte, if_true, hd_cons]
        exact lookup_isSome_merase (lookup_minsert_isSome _ _ _) hab
      · simp only [hte, if_false]
        have hx : hd (st.chains.getD i []) ≠ b := by
          intro e
          refine nodup_flatMap_disjoint st.chains i hI b hF hi' hhl (fun e' => hte e'.symm) ?_ ?_
          · exact e ▸ hd_mem_dropLast _ (h.len _ (getD_mem hi'))
          · exact hhv ▸ hd_mem_dropLast _ (h.len _ (getD_mem hhl))
        exact lookup_isSome_merase (lookup_isSome_minsert (hc i hi')) hx
    | none =>
      simp only
      intro i hi
      simp only [List.length_append, List.length_cons, List.length_nil] at hi
      simp only
      by_cases hin : i < st.chains.length
      · rw [getD_append_left _ _ _ hin]
        by_cases hx : hd (st.chains.getD i []) = a
        · rw [hx]; simp [mset]
        · have := lookup_isSome_merase (k := a) (hc i hin) hx
          simp only [mset, List.lookup_cons]
          have hb : (hd (st.chains.getD i []) == a) = false := by simpa using hx
          rw [hb]
          exact this
      · have : i = st.chains.length := by omega
        subst this
        simp [mset, hd, List.getD_eq_getElem?_getD]

theorem foldl_step_compl (segs : List Seg) :
    ∀ (st : St) (done : List Seg), Inv st done → Compl st →
      ((segs.reverse ++ done).map Prod.fst).Nodup → Compl (segs.foldl step st) := by
  induction segs with
  | nil => intro st done _ hc _; exact hc
  | cons s segs ih =>
    intro st done h hc hnd
    simp only [List.foldl_cons]
    simp only [List.reverse_cons, List.append_assoc, List.singleton_append] at hnd
    have hnd' : ((s :: done).map Prod.fst).Nodup := by
      rw [List.map_append] at hnd
      exact (List.nodup_append.1 hnd).2.1
    exact ih _ (s :: done) (step_inv st done s h) (step_compl st done s h hnd' hc) hnd

theorem chainAll_compl (segs : List Seg) (hnd : (segs.map Prod.fst).Nodup) : Compl (chainAll segs) := by
  refine foldl_step_compl segs {} [] inv_init (fun i hi => by simp at hi) ?_
  simp only [List.append_nil, List.map_reverse]
  exact (List.Perm.nodup_iff (List.reverse_perm _)).2 hnd

/-! ### G. closedness of the welded polylines -/

/-- what the degree precondition gives at the end of the chaining loop -/
structure PCtx (cs : List (List Nat)) (heads : Map) : Prop extends Ctx cs heads where
  compl : ∀ i, i < cs.length → (heads.lookup (hd (cs.getD i []))).isSome
  succ : ∀ t, t < cs.length → ∃ j, j < cs.length ∧ hd (cs.getD j []) = lst (cs.getD t [])
  linj : ∀ i j, i < cs.length → j < cs.length → lst (cs.getD i []) = lst (cs.getD j []) → i = j

theorem hd_dropLast (l : List Nat) (h : 2 ≤ l.length) : hd l.dropLast = hd l ∧ l.dropLast ≠ [] := by
  match l, h with
  | a :: b :: l, _ => simp [hd]

/-- predecessor closure of the processed set, possibly except for the start chain `i` -/
def PredClosed (cs : List (List Nat)) (pr : List Bool) (except : Option Nat) : Prop :=
  ∀ j, j < cs.length → pr.getD j true = true → some j ≠ except →
    ∃ m, m < cs.length ∧ pr.getD m true = true ∧ lst (cs.getD m []) = hd (cs.getD j [])

theorem weldLoop_closed (cs : List (List Nat)) (heads : Map) (ctx : PCtx cs heads) (i : Nat)
    (hi : i < cs.length) :
    ∀ (fuel t : Nat) (pr : List Bool) (acc : List Nat),
      pr.length = cs.length → pr.getD t true = false → unproc pr ≤ fuel →
      hd (acc ++ cs.getD t []) = hd (cs.getD i []) →
      (t = i ∨ (pr.getD i true = true ∧
        ∃ m, m < cs.length ∧ pr.getD m true = true ∧ lst (cs.getD m []) = hd (cs.getD t []))) →
      PredClosed cs pr (some i) →
      hd (weldLoop cs heads fuel t pr acc).1 = lst (weldLoop cs heads fuel t pr acc).1 ∧
      PredClosed cs (weldLoop cs heads fuel t pr acc).2 none ∧
      (weldLoop cs heads fuel t pr acc).2.length = cs.length := by
  intro fuel
  induction fuel with
  | zero =>
    intro t pr acc _ hpt hf
    have := unproc_set pr t hpt
    omega
  | succ fuel ih =>
    intro t pr acc hlen hpt hf hhd hj4 hj3
    have htl : t < cs.length := hlen ▸ lt_of_getD_false hpt
    have hc2 := ctx.len _ (getD_mem htl)
    have hcne := ne_nil_of_two_le hc2
    obtain ⟨j, hjl, hjv⟩ := ctx.succ t htl
    have hsome := ctx.compl j hjl
    rw [hjv] at hsome
    obtain ⟨h, hl⟩ := Option.isSome_iff_exists.1 hsome
    obtain ⟨hhl, hhv⟩ := ctx.hv _ (mem_of_lookup hl)
    simp only at hhl hhv
    -- processed-before facts transfer to pr.set t true
    have mono : ∀ m, pr.getD m true = true → (pr.set t true).getD m true = true := by
      intro m hm; rw [getD_set_true]
      by_cases e : t = m
      · simp [e]
      · simp only [e, if_false]; exact hm
    have hpi1 : (pr.set t true).getD i true = true := by
      rcases hj4 with e | ⟨e, _⟩
      · rw [getD_set_true]; simp [e]
      · exact mono i e
    -- pred-closure (except i) for pr.set t true
    have hj3' : PredClosed cs (pr.set t true) (some i) := by
      intro k hk hkp hki
      rw [getD_set_true] at hkp
      by_cases e : t = k
      · subst e
        rcases hj4 with e2 | ⟨_, m, hm1, hm2, hm3⟩
        · exact absurd (congrArg some e2) hki
        · exact ⟨m, hm1, mono m hm2, hm3⟩
      · simp only [e, if_false] at hkp
        obtain ⟨m, hm1, hm2, hm3⟩ := hj3 k hk hkp hki
        exact ⟨m, hm1, mono m hm2, hm3⟩
    unfold weldLoop
    simp only
    rw [hl]
    simp only
    by_cases hp : (pr.set t true).getD h true = true
    · rw [if_pos hp]
      simp only
      -- the processed successor must be the start chain
      have hhi : h = i := by
        apply Classical.byContradiction
        intro hne
        have key : ∀ m, m < cs.length → pr.getD m true = true →
            lst (cs.getD m []) = hd (cs.getD h []) → False := by
          intro m hm1 hm2 hm3
          have : m = t := ctx.linj m t hm1 htl (by rw [hm3, hhv])
          subst this
          rw [hpt] at hm2
          exact Bool.noConfusion hm2
        rw [getD_set_true] at hp
        by_cases e : t = h
        · subst e
          rcases hj4 with e2 | ⟨_, m, hm1, hm2, hm3⟩
          · exact hne e2
          · exact key m hm1 hm2 hm3
        · simp only [e, if_false] at hp
          obtain ⟨m, hm1, hm2, hm3⟩ := hj3 h hhl hp (fun e2 => hne (Option.some.inj e2))
          exact key m hm1 hm2 hm3
      subst hhi
      refine ⟨?_, ?_, by simpa using hlen⟩
      · rw [hhd, lst_append _ _ hcne, hhv]
      · intro k hk hkp _
        by_cases e : k = h
        · subst e
          exact ⟨t, htl, by rw [getD_set_true]; simp, hhv.symm⟩
        · exact hj3' k hk hkp (fun e2 => e (Option.some.inj e2))
    · rw [if_neg hp]
      have hp' : (pr.set t true).getD h true = false := by simpa using hp
      have hf' : unproc (pr.set t true) ≤ fuel := by
        have := unproc_set pr t hpt
        omega
      have hlen2 : 2 ≤ (acc ++ cs.getD t []).length := by
        simp only [List.length_append]; omega
      obtain ⟨hd1, hd2⟩ := hd_dropLast _ hlen2
      refine ih h (pr.set t true) (acc ++ cs.getD t []).dropLast (by simpa using hlen) hp' hf' ?_ ?_ hj3'
      · rw [hd_append _ _ hd2, hd1, hhd]
      · exact Or.inr ⟨hpi1, t, htl, by rw [getD_set_true]; simp, hhv.symm⟩

/-- invariant of the outer loop under the precondition -/
structure CInv (cs : List (List Nat)) (s : List Bool × List (List Nat)) : Prop where
  plen : s.1.length = cs.length
  pc : PredClosed cs s.1 none
  cl : ∀ p ∈ s.2, hd p = lst p

theorem weldStep_cinv (cs : List (List Nat)) (heads : Map) (ctx : PCtx cs heads)
    (s : List Bool × List (List Nat)) (i : Nat) (h : CInv cs s) : CInv cs (weldStep cs heads s i) := by
  unfold weldStep
  by_cases hp : s.1.getD i true = true
  · rw [if_pos hp]; exact h
  · rw [if_neg hp]
    have hp' : s.1.getD i true = false := by simpa using hp
    have hi : i < cs.length := h.plen ▸ lt_of_getD_false hp'
    have hfuel : unproc s.1 ≤ cs.length := by
      rw [← h.plen]; exact List.count_le_length
    obtain ⟨r1, r2, r3⟩ := weldLoop_closed cs heads ctx i hi cs.length i s.1 [] h.plen hp' hfuel
      (by simp) (Or.inl rfl) (fun j hj hjp _ => h.pc j hj hjp (by simp))
    refine ⟨r3, r2, ?_⟩
    intro p hp2
    simp only [List.mem_append, List.mem_singleton] at hp2
    rcases hp2 with hp2 | hp2
    · exact h.cl p hp2
    · subst hp2; exact r1

theorem weld_closed (cs : List (List Nat)) (heads : Map) (ctx : PCtx cs heads) :
    ∀ p ∈ weld cs heads, hd p = lst p := by
  have h0 : CInv cs (List.replicate cs.length false, []) := by
    refine ⟨by simp, ?_, by simp⟩
    intro j hj hjp
    simp [List.getD_eq_getElem?_getD, hj] at hjp
  have : ∀ (is : List Nat) (s : List Bool × List (List Nat)), CInv cs s →
      CInv cs (is.foldl (weldStep cs heads) s) := by
    intro is
    induction is with
    | nil => intro s hs; exact hs
    | cons i is ih => intro s hs; exact ih _ (weldStep_cinv cs heads ctx s i hs)
  exact (this (List.range cs.length) _ h0).cl

/-- the degree precondition yields `PCtx` for the state after the chaining loop -/
theorem chainAll_pctx (segs : List Seg) (hF : (segs.map Prod.fst).Nodup) (hS : (segs.map Prod.snd).Nodup)
    (hbal : ∀ v, v ∈ segs.map Prod.snd → v ∈ segs.map Prod.fst) :
    PCtx (chainAll segs).chains (chainAll segs).heads := by
  have inv := chainAll_inv segs
  have compl := chainAll_compl segs hF
  have hperm : ((chainAll segs).chains.flatMap pairs).Perm segs := inv.perm.trans (List.reverse_perm _)
  have nF : ((chainAll segs).chains.flatMap List.dropLast).Nodup := by
    rw [← firsts_eq]; exact (List.Perm.nodup_iff (hperm.map Prod.fst)).2 hF
  have nS : ((chainAll segs).chains.flatMap List.tail).Nodup := by
    rw [← seconds_eq]; exact (List.Perm.nodup_iff (hperm.map Prod.snd)).2 hS
  have linj : ∀ i j, i < (chainAll segs).chains.length → j < (chainAll segs).chains.length →
      lst ((chainAll segs).chains.getD i []) = lst ((chainAll segs).chains.getD j []) → i = j := by
    intro i j hi hj e
    apply Classical.byContradiction
    intro hne
    exact nodup_flatMap_disjoint _ i j _ nS hi hj hne (lst_mem_tail _ (inv.len _ (getD_mem hi)))
      (e ▸ lst_mem_tail _ (inv.len _ (getD_mem hj)))
  refine { len := inv.len, hv := inv.hv, compl := compl, succ := ?_, linj := linj }
  intro t ht
  have hc2 := inv.len _ (getD_mem ht)
  have hvS : lst ((chainAll segs).chains.getD t []) ∈ segs.map Prod.snd := by
    refine (hperm.map Prod.snd).mem_iff.1 ?_
    rw [seconds_eq]
    exact List.mem_flatMap.2 ⟨_, getD_mem ht, lst_mem_tail _ hc2⟩
  have hvF := (hperm.map Prod.fst).mem_iff.2 (hbal _ hvS)
  rw [firsts_eq] at hvF
  obtain ⟨c, hc, hvc⟩ := List.mem_flatMap.1 hvF
  obtain ⟨j, hj, rfl⟩ := exists_index_of_mem hc
  refine ⟨j, hj, ?_⟩
  rcases mem_dropLast_cases _ _ hvc with e | hmem
  · exact e.symm
  · exfalso
    by_cases hjt : j = t
    · subst hjt
      have nd := nodup_of_nodup_flatMap (f := List.tail) nS (getD_mem hj)
      rw [tail_eq_dropLast_append_lst _ hc2] at nd
      exact (List.nodup_append.1 nd).2.2 _ hmem _ (by simp) rfl
    · exact nodup_flatMap_disjoint _ j t _ nS hj ht hjt (List.dropLast_subset _ hmem)
        (lst_mem_tail _ hc2)

/-! ### H. the fuel of the inner loop is never exhausted -/

theorem weldLoop_fuel (cs : List (List Nat)) (heads : Map) :
    ∀ (f1 f2 t : Nat) (pr : List Bool) (acc : List Nat), pr.getD t true = false →
      unproc pr ≤ f1 → unproc pr ≤ f2 →
      weldLoop cs heads f1 t pr acc = weldLoop cs heads f2 t pr acc := by
  intro f1
  induction f1 with
  | zero =>
    intro f2 t pr acc hpt h1
    have := unproc_set pr t hpt
    omega
  | succ f1 ih =>
    intro f2 t pr acc hpt h1 h2
    cases f2 with
    | zero =>
      have := unproc_set pr t hpt
      omega
    | succ f2 =>
      have hu := unproc_set pr t hpt
      unfold weldLoop
      simp only
      cases hl : heads.lookup (lst (cs.getD t [])) with
      | none => rfl
      | some h =>
        simp only
        by_cases hp : (pr.set t true).getD h true = true
        · rw [if_pos hp, if_pos hp]
        · rw [if_neg hp, if_neg hp]
          exact ih f2 h _ _ (by simpa using hp) (by omega) (by omega)

end Libfive.Contours
