/-
  Helper lemmas for C15 (frame argument): what a tape walk reads.
  Core Lean only.
-/
import LibfiveModel.EvalState
import LibfiveProofs.TapePush
import LibfiveProofs.Feature

namespace Libfive.EvalStateProofs
open Libfive

variable {α β : Type}

/-- A tape walk reads the initial slot array only at slots that are neither produced by the tape
    nor banned (`B` = slots that no clause of the tape uses as an operand). -/
theorem evalList_congr (ev : Op → α → α → α) (orc : Nat → α) :
    ∀ (T : List Clause) (B : Nat → Prop), WF T →
      (∀ c ∈ T, c.op ≠ Op.oracle → ¬ B c.a ∧ ¬ B c.b) →
      ∀ env env' : Nat → α, (∀ k, k ∉ ids T → ¬ B k → env k = env' k) →
      ∀ k, ¬ B k → evalList ev orc T env k = evalList ev orc T env' k := by
  intro T
  induction T with
  | nil => intro B _ _ env env' h k hk; exact h k (by simp [ids]) hk
  | cons c rest ih =>
    intro B hwf hban env env' henv k hk
    obtain ⟨_, hnotin, hself, hlater, hwf'⟩ := hwf
    have IH := ih (fun j => B j ∨ j = c.id) hwf'
      (by
        intro d hd hop
        obtain ⟨b1, b2⟩ := hban d (List.mem_cons_of_mem _ hd) hop
        obtain ⟨h1, h2⟩ := hlater d hd hop
        exact ⟨fun h => h.elim b1 h1, fun h => h.elim b2 h2⟩)
      env env'
      (by
        intro j hj hB
        refine henv j ?_ (fun h => hB (Or.inl h))
        intro hmem
        rcases List.mem_cons.mp hmem with h | h
        · exact hB (Or.inr h)
        · exact hj h)
    simp only [evalList]
    by_cases hkc : k = c.id
    · subst hkc
      simp only [upd_same]
      apply evalClause_congr
      intro hop
      obtain ⟨b1, b2⟩ := hban c (List.mem_cons_self ..) hop
      obtain ⟨h1, h2⟩ := hself hop
      exact ⟨IH c.a (fun h => h.elim b1 h1), IH c.b (fun h => h.elim b2 h2)⟩
    · simp only [upd_other _ _ _ _ hkc]
      exact IH k (fun h => h.elim hk hkc)

theorem derivRow_notin (O : DOps α) (cv : Bool) (V : Nat → α) (T : List Clause) (d : Nat → α) (k : Nat)
    (h : k ∉ ids T) : derivRow O cv V T d k = d k := by
  induction T with
  | nil => rfl
  | cons c rest ih =>
    have h1 : k ≠ c.id := fun e => h (by simp [ids, e])
    have h2 : k ∉ ids rest := fun e => h (by simp only [ids, List.map_cons, List.mem_cons]; exact Or.inr e)
    simp only [derivRow, upd_other _ _ _ _ h1, ih h2]

/-- The derivative walk reads value slots only at the operands / outputs of its clauses and the
    seed array only at unbanned non-clause slots. -/
theorem derivRow_congr (O : DOps α) (cv : Bool) :
    ∀ (T : List Clause) (B : Nat → Prop), WF T → (∀ c ∈ T, c.op ≠ Op.oracle) →
      (∀ c ∈ T, ¬ B c.a ∧ ¬ B c.b) →
      ∀ (V V' d d' : Nat → α),
      (∀ c ∈ T, V c.a = V' c.a ∧ V c.b = V' c.b ∧ V c.id = V' c.id) →
      (∀ k, k ∉ ids T → ¬ B k → d k = d' k) →
      ∀ k, ¬ B k → derivRow O cv V T d k = derivRow O cv V' T d' k := by
  intro T
  induction T with
  | nil => intro B _ _ _ V V' d d' _ h k hk; exact h k (by simp [ids]) hk
  | cons c rest ih =>
    intro B hwf hno hban V V' d d' hV hd k hk
    obtain ⟨_, hnotin, hself, hlater, hwf'⟩ := hwf
    have hcop := hno c (List.mem_cons_self ..)
    obtain ⟨hca, hcb⟩ := hself hcop
    have IH := ih (fun j => B j ∨ j = c.id) hwf' (fun e he => hno e (List.mem_cons_of_mem _ he))
      (by
        intro e he
        obtain ⟨b1, b2⟩ := hban e (List.mem_cons_of_mem _ he)
        obtain ⟨h1, h2⟩ := hlater e he (hno e (List.mem_cons_of_mem _ he))
        exact ⟨fun h => h.elim b1 h1, fun h => h.elim b2 h2⟩)
      V V' d d' (fun e he => hV e (List.mem_cons_of_mem _ he))
      (by
        intro j hj hB
        refine hd j ?_ (fun h => hB (Or.inl h))
        intro hmem
        rcases List.mem_cons.mp hmem with h | h
        · exact hB (Or.inr h)
        · exact hj h)
    simp only [derivRow]
    by_cases hkc : k = c.id
    · subst hkc
      obtain ⟨b1, b2⟩ := hban c (List.mem_cons_self ..)
      obtain ⟨v1, v2, v3⟩ := hV c (List.mem_cons_self ..)
      simp only [upd_same, v1, v2, v3, IH c.a (fun h => h.elim b1 hca), IH c.b (fun h => h.elim b2 hcb)]
    · simp only [upd_other _ _ _ _ hkc]
      exact IH k (fun h => h.elim hk hkc)

theorem le_simdRound (simd count : Nat) : count ≤ simdRound simd count := by
  unfold simdRound
  by_cases h : simd = 0
  · simp [h]
  · simp only [h, if_false]
    have hpos : 0 < simd := Nat.pos_of_ne_zero h
    have h1 := Nat.div_add_mod (count + simd - 1) simd
    have h2 := Nat.mod_lt (count + simd - 1) hpos
    rw [Nat.mul_comm] at h1
    omega

theorem featList_notin (O : DOps α) (F : FeatOracle α) (dedup : List (Feat α) → List (Feat α))
    (cv : Bool) (N simd : Nat) (v : Nat → α) (T : List Clause) (st : FeatState α) (k : Nat)
    (h : k ∉ ids T) : (featList O F dedup cv N simd v T st).f k = st.f k := by
  induction T with
  | nil => rfl
  | cons c rest ih =>
    have h1 : k ≠ c.id := fun e => h (by simp [ids, e])
    have h2 : k ∉ ids rest := fun e => h (by simp only [ids, List.map_cons, List.mem_cons]; exact Or.inr e)
    simp only [featList, upd_other _ _ _ _ h1, ih h2]

/-! ### `Tape::push` only looks at the keep function on the clauses of the tape -/

theorem pushStep_congr (keep keep' : Clause → Keep) (S : PushState) (c : Clause) (h : keep c = keep' c) :
    pushStep keep S c = pushStep keep' S c := by
  unfold pushStep
  rw [h]

theorem pushPass1_congr (keep keep' : Clause → Keep) :
    ∀ (t : List Clause) (S : PushState), (∀ c ∈ t, keep c = keep' c) →
      pushPass1 keep t S = pushPass1 keep' t S := by
  intro t
  induction t with
  | nil => intro _ _; rfl
  | cons c rest ih =>
    intro S h
    simp only [pushPass1, List.foldl_cons]
    rw [pushStep_congr keep keep' S c (h c (List.mem_cons_self ..))]
    exact ih _ (fun d hd => h d (List.mem_cons_of_mem _ hd))

theorem pushChanged_congr (keep keep' : Clause → Keep) :
    ∀ (t : List Clause) (S : PushState), (∀ c ∈ t, keep c = keep' c) →
      pushChanged keep t S = pushChanged keep' t S := by
  intro t
  induction t with
  | nil => intro _ _; rfl
  | cons c rest ih =>
    intro S h
    have hc := h c (List.mem_cons_self ..)
    simp only [pushChanged, hc, pushStep_congr keep keep' S c hc,
      ih _ (fun d hd => h d (List.mem_cons_of_mem _ hd))]

theorem pushTerminal_congr (keep keep' : Clause → Keep) :
    ∀ (t : List Clause) (S : PushState), (∀ c ∈ t, keep c = keep' c) →
      pushTerminal keep t S = pushTerminal keep' t S := by
  intro t
  induction t with
  | nil => intro _ _; rfl
  | cons c rest ih =>
    intro S h
    have hc := h c (List.mem_cons_self ..)
    simp only [pushTerminal, hc, pushStep_congr keep keep' S c hc,
      ih _ (fun d hd => h d (List.mem_cons_of_mem _ hd))]

theorem push_congr (T : TapeM) (keep keep' : Clause → Keep) (h : ∀ c ∈ T.t, keep c = keep' c) :
    T.push keep = T.push keep' := by
  unfold TapeM.push
  simp only [pushChanged_congr keep keep' T.t _ h, pushPass1_congr keep keep' T.t _ h,
    pushTerminal_congr keep keep' T.t _ h]

theorem emit_ids (S : PushState) (fuel : Nat) (t : List Clause) :
    ∀ k, k ∈ ids (emit S fuel t) → k ∈ ids t := by
  intro k hk
  simp only [ids, emit, List.mem_map, List.mem_filterMap] at hk ⊢
  obtain ⟨c', ⟨c, hc, hg⟩, rfl⟩ := hk
  refine ⟨c, hc, ?_⟩
  split at hg
  · cases hg
  · split at hg <;> (cases hg; rfl)

theorem push_ids (T : TapeM) (keep : Clause → Keep) : ∀ k, k ∈ ids (T.push keep).t → k ∈ ids T.t := by
  intro k hk
  unfold TapeM.push at hk
  by_cases ht : T.terminal = true
  · simpa [ht] using hk
  · simp only [ht, Bool.false_eq_true, if_false] at hk
    by_cases hc : pushChanged keep T.t (PushState.init T.root) = true
    · simp only [hc, Bool.not_true, Bool.false_eq_true, if_false] at hk
      exact emit_ids _ _ _ k hk
    · simpa [hc] using hk

end Libfive.EvalStateProofs
