/-
  Helper lemmas for C15 (frame argument): what a tape walk reads.
  Core Lean only.
-/
import LibfiveModel.EvalState
import LibfiveProofs.TapePush
import LibfiveProofs.Feature

namespace Libfive.EvalStateProofs
open Libfive

variable {α β : Type}

/-- A tape walk reads the initial slot array only at slots that are neither produced by the tape
    nor banned (`B` = slots that no clause of the tape uses as an operand). -/
theorem evalList_congr (ev : Op → α → α → α) (orc : Nat → α) :
    ∀ (T : List Clause) (B : Nat → Prop), WF T →
      (∀ c ∈ T, c.op ≠ Op.oracle → ¬ B c.a ∧ ¬ B c.b) →
      ∀ env env' : Nat → α, (∀ k, k ∉ ids T → ¬ B k → env k = env' k) →
      ∀ k, ¬ B k → evalList ev orc T env k = evalList ev orc T env' k := by
  intro T
  induction T with
  | nil => intro B _ _ env env' h k hk; exact h k (by simp [ids]) hk
  | cons c rest ih =>
    intro B hwf hban env env' henv k hk
    obtain ⟨_, hnotin, hself, hlater, hwf'⟩ := hwf
    have IH := ih (fun j => B j ∨ j = c.id) hwf'
      (by
        intro d hd hop
        obtain ⟨b1, b2⟩ := hban d (List.mem_cons_of_mem _ hd) hop
        obtain ⟨h1, h2⟩ := hlater d hd hop
        exact ⟨fun h => h.elim b1 h1, fun h => h.elim b2 h2⟩)
      env env'
      (by
        intro j hj hB
        refine henv j ?_ (fun h => hB (Or.inl h))
        intro hmem
        rcases List.mem_cons.mp hmem with h | h
        · exact hB (Or.inr h)
        · exact hj h)
    simp only [evalList]
    by_cases hkc : k = c.id
    · subst hkc
      simp only [upd_same]
      apply evalClause_congr
      intro hop
      obtain ⟨b1, b2⟩ := hban c (List.mem_cons_self ..) hop
      obtain ⟨h1, h2⟩ := hself hop
      exact ⟨IH c.a (fun h => h.elim b1 h1), IH c.b (fun h => h.elim b2 h2)⟩
    · simp only [upd_other _ _ _ _ hkc]
      exact IH k (fun h => h.elim hk hkc)

theorem derivRow_notin (O : DOps α) (cv : Bool) (V : Nat → α) (T : List Clause) (d : Nat → α) (k : Nat)
    (h : k ∉ ids T) : derivRow O cv V T d k = d k := by
  induction T with
  | nil => rfl
  | cons c rest ih =>
    have h1 : k ≠ c.id := fun e => h (by simp [ids, e])
    have h2 : k ∉ ids rest := fun e => h (by simp only [ids, List.map_cons, List.mem_cons]; exact Or.inr e)
    simp only [derivRow, upd_other _ _ _ _ h1, ih h2]

/-- The derivative walk reads value slots only at the operands / outputs of its clauses and the
    seed array only at unbanned non-clause slots. -/
theorem derivRow_congr (O : DOps α) (cv : Bool) :
    ∀ (T : List Clause) (B : Nat → Prop), WF T → (∀ c ∈ T, c.op ≠ Op.oracle) →
      (∀ c ∈ T, ¬ B c.a ∧ ¬ B c.b) →
      ∀ (V V' d d' : Nat → α),
      (∀ c ∈ T, V c.a = V' c.a ∧ V c.b = V' c.b ∧ V c.id = V' c.id) →
      (∀ k, k ∉ ids T → ¬ B k → d k = d' k) →
      ∀ k, ¬ B k → derivRow O cv V T d k = derivRow O cv V' T d' k := by
  intro T
  induction T with
  | nil => intro B _ _ _ V V' d d' _ h k hk; exact h k (by simp [ids]) hk
  | cons c rest ih =>
    intro B hwf hno hban V V' d d' hV hd k hk
    obtain ⟨_, hnotin, hself, hlater, hwf'⟩ := hwf
    have hcop := hno c (List.mem_cons_self ..)
    obtain ⟨hca, hcb⟩ := hself hcop
    have IH := ih (fun j => B j ∨ j = c.id) hwf' (fun e he => hno e (List.mem_cons_of_mem _ he))
      (by
        intro e he
        obtain ⟨b1, b2⟩ := hban e (List.mem_cons_of_mem _ he)
        obtain ⟨h1, h2⟩ := hlater e he (hno e (List.mem_cons_of_mem _ he))
        exact ⟨fun h => h.elim b1 h1, fun h => h.elim b2 h2⟩)
      V V' d d' (fun e he => hV e (List.mem_cons_of_mem _ he))
      (by
        intro j hj hB
        refine hd j ?_ (fun h => hB (Or.inl h))
        intro hmem
        rcases List.mem_cons.mp hmem with h | h
        · exact hB (Or.inr h)
        · exact hj h)
    simp only [derivRow]
    by_cases hkc : k = c.id
    · subst hkc
      obtain ⟨b1, b2⟩ := hban c (List.mem_cons_self ..)
      obtain ⟨v1, v2, v3⟩ := hV c (List.mem_cons_self ..)
      simp only [upd_same, v1, v2, v3, IH c.a (fun h => h.elim b1 hca), IH c.b (fun h => h.elim b2 hcb)]
    · simp only [upd_other _ _ _ _ hkc]
      exact IH k (fun h => h.elim hk hkc)

theorem le_simdRound (simd count : Nat) : count ≤ simdRound simd count := by
  unfold simdRound
  by_cases h : simd = 0
  · simp [h]
  · simp only [h, if_false]
    have hpos : 0 < simd := Nat.pos_of_ne_zero h
    have h1 := Nat.div_add_mod (count + simd - 1) simd
    have h2 := Nat.mod_lt (count + simd - 1) hpos
    rw [Nat.mul_comm] at h1
    omega

/-- One clause of the feature walk does not depend on the stale scratch, given the two
    hypotheses (lanes below `count_simd`; sqrt output row replicated in both scratches). -/
theorem featClauseRaw_congr (O : DOps α) (F : FeatOracle α) (cv : Bool) (N simd : Nat)
    (S S' : FeatScratch α) (c : Clause) (v : Nat → α) (f f' : Nat → List (Feat α))
    (hcs : S.countSimd = S'.countSimd) (hfa : f c.a = f' c.a) (hfb : f c.b = f' c.b)
    (hcnt : c.op ≠ Op.min → c.op ≠ Op.max → c.op.args = some 2 →
      ∀ i, i < (pairs (f c.a) (f c.b)).length → i % N < S.countSimd)
    (hsq : c.op = Op.sqrt → ∀ lane, S.staleV c.id lane = v c.id ∧ S'.staleV c.id lane = v c.id) :
    featClauseRaw O F cv N simd S c v f = featClauseRaw O F cv N simd S' c v f' := by
  unfold featClauseRaw
  simp only [← hfa, ← hfb, ← hcs]
  by_cases hmin : c.op = Op.min
  · simp only [hmin, if_true]
  · by_cases hmax : c.op = Op.max
    · simp only [hmin, hmax, if_true, if_false]
    · simp only [hmin, hmax, if_false]
      by_cases ha1 : c.op.args = some 1
      · simp only [ha1, if_true]
        unfold featUnary
        simp only [← hcs]
        congr 1
        apply List.map_congr_left
        intro ⟨i, f0⟩ _
        simp only
        by_cases hs : c.op = Op.sqrt
        · obtain ⟨e1, e2⟩ := hsq hs (i % N)
          simp only [e1, e2]
        · congr 1
          exact FeatureProofs.dk3_ov O cv c.op hs _ _ _ _ _ _
      · by_cases ha2 : c.op.args = some 2
        · simp only [ha1, if_false]
          simp only [ha2, if_true]
          congr 1
          unfold featBinary
          apply List.map_congr_left
          intro ⟨i, ⟨f0, g0⟩⟩ hmem
          have hi := (List.of_mem_zip hmem).1
          have hlane := hcnt hmin hmax ha2 i (by simpa using hi)
          have hlane' : i % N < S'.countSimd := hcs ▸ hlane
          simp only [hlane, hlane', if_true]
        · simp only [ha1, if_false]
          simp only [ha2, if_false]

end Libfive.EvalStateProofs
