/-
  C08 helper lemmas, part 6: the load-time rewrites of `Tree::unary` / `Tree::binary` on the loader's
  heap (`mkUnary` / `mkBinary` of `LibfiveModel/Serialize.lean`) preserve meaning under `evalAt`,
  for every interpretation that satisfies the algebraic laws the rewrite table relies on.
-/
import LibfiveProofs.SerializeExpr

namespace Libfive.Serial

variable {α : Type}

/-! ## what the rewrites assume -/

/-- exactly the equations the rewrite table of `act1` / `act2` relies on, one per rewrite, plus
    exactness of the constant folder.  All of them hold in a field with the usual reading of the
    opcodes (`RewriteLaws.of_lawful`); see `LibfiveTheorems/C08Fold.lean` for which ones binary32
    violates. -/
structure RewriteLaws (F : Folder) (I : Interp α) : Prop where
  fold1 : ∀ op c, op.args = some 1 → I.const (F.f1 op c) = I.un op (I.const c)
  fold2 : ∀ op c d, op.args = some 2 → I.const (F.f2 op c d) = I.bin op (I.const c) (I.const d)
  abs_abs : ∀ a, I.un .abs (I.un .abs a) = I.un .abs a
  abs_square : ∀ a, I.un .abs (I.un .square a) = I.un .square a
  neg_neg : ∀ a, I.un .neg (I.un .neg a) = a
  div_one : ∀ a v, isOne v = true → I.bin .div a (I.const v) = a
  zero_add : ∀ a v, isZero v = true → I.bin .add (I.const v) a = a
  add_zero : ∀ a v, isZero v = true → I.bin .add a (I.const v) = a
  neg_add : ∀ a b, I.bin .add (I.un .neg a) b = I.bin .sub b a
  add_neg : ∀ a b, I.bin .add a (I.un .neg b) = I.bin .sub a b
  zero_sub : ∀ a v, isZero v = true → I.bin .sub (I.const v) a = I.un .neg a
  sub_zero : ∀ a v, isZero v = true → I.bin .sub a (I.const v) = a
  sub_neg : ∀ a b, I.bin .sub a (I.un .neg b) = I.bin .add a b
  zero_mul : ∀ a v, isZero v = true → I.bin .mul (I.const v) a = I.const v
  mul_zero : ∀ a v, isZero v = true → I.bin .mul a (I.const v) = I.const v
  one_mul : ∀ a v, isOne v = true → I.bin .mul (I.const v) a = a
  mul_one : ∀ a v, isOne v = true → I.bin .mul a (I.const v) = a
  negone_mul : ∀ a v, isMinusOne v = true → I.bin .mul (I.const v) a = I.un .neg a
  mul_negone : ∀ a v, isMinusOne v = true → I.bin .mul a (I.const v) = I.un .neg a
  mul_self : ∀ a, I.bin .mul a a = I.un .square a
  nthRoot_one : ∀ a v, isOne v = true → I.bin .nthRoot a (I.const v) = a
  pow_one : ∀ a v, isOne v = true → I.bin .pow a (I.const v) = a
  min_self : ∀ a, I.bin .min a a = a
  max_self : ∀ a, I.bin .max a a = a

/-! ## heaps the loader builds -/

/-- no negation of a negation is stored (`Tree::unary` never builds one) -/
def NoNegNeg (h : List Node) : Prop :=
  ∀ i, (hget h i).op = Op.neg → (hget h (hget h i).lhs).op ≠ Op.neg

/-- invariant of every heap the loader builds: operands have smaller ids than their parents
    (`alloc` appends), and no `-(-x)` node exists -/
structure LoadHeap (h : List Node) : Prop where
  cs : ChildrenSmaller (hget h)
  nn : NoNegNeg h

/-- the value of node `n`: `evalAt` with fuel `n + 1`, which under `ChildrenSmaller` is every
    fuel above `n` (`evalAt_stable`) -/
def Val (I : Interp α) (pos : NodeId → Option Nat) (h : List Node) (n : NodeId) : α :=
  evalAt I (hget h) pos (n + 1) n

theorem evalAt_stable (I : Interp α) {heap : NodeId → Node} (hcs : ChildrenSmaller heap)
    (pos : NodeId → Option Nat) :
    ∀ (d d' : Nat) (n : NodeId), n < d → n < d' → evalAt I heap pos d n = evalAt I heap pos d' n := by
  intro d
  induction d with
  | zero => intro d' n h; exact absurd h (Nat.not_lt_zero _)
  | succ d ih =>
    intro d' n h1 h2
    cases d' with
    | zero => exact absurd h2 (Nat.not_lt_zero _)
    | succ d' =>
      obtain ⟨hl, hr⟩ := hcs n
      simp only [evalAt]
      by_cases hc : (heap n).op = Op.constant
      · simp [hc]
      · simp only [hc, if_false]
        cases hargs : (heap n).op.args with
        | none => rfl
        | some k =>
          match k, hargs with
          | 0, _ => rfl
          | 1, hargs =>
            have r1 := hl (Or.inl hargs)
            have e1 := Nat.le_of_lt_succ h1
            have e2 := Nat.le_of_lt_succ h2
            simp only
            rw [ih d' _ (Nat.lt_of_lt_of_le r1 e1) (Nat.lt_of_lt_of_le r1 e2)]
          | 2, hargs =>
            have r1 := hl (Or.inr hargs)
            have r2 := hr hargs
            have e1 := Nat.le_of_lt_succ h1
            have e2 := Nat.le_of_lt_succ h2
            simp only
            rw [ih d' _ (Nat.lt_of_lt_of_le r1 e1) (Nat.lt_of_lt_of_le r1 e2),
              ih d' _ (Nat.lt_of_lt_of_le r2 e1) (Nat.lt_of_lt_of_le r2 e2)]
          | k + 3, _ => rfl

/-- two heaps that agree below `N` (the first one bottom-up) under two namings that give the leaves
    below `N` the same values: same values below `N` -/
theorem evalAt_agree2 (I : Interp α) {g g' : NodeId → Node} (hcs : ChildrenSmaller g) (N : Nat)
    (hag : ∀ n, n < N → g n = g' n) (pos pos' : NodeId → Option Nat)
    (hleaf : ∀ n, n < N → I.leaf (g n).op (pos n) = I.leaf (g n).op (pos' n)) :
    ∀ (d : Nat) (n : NodeId), n < N → evalAt I g pos d n = evalAt I g' pos' d n := by
  intro d
  induction d with
  | zero => intro n _; rfl
  | succ d ih =>
    intro n hn
    obtain ⟨hl, hr⟩ := hcs n
    simp only [evalAt, ← hag n hn]
    by_cases hc : (g n).op = Op.constant
    · simp [hc]
    · simp only [hc, if_false]
      cases hargs : (g n).op.args with
      | none => exact hleaf n hn
      | some k =>
        match k, hargs with
        | 0, _ => exact hleaf n hn
        | 1, hargs =>
          have r1 := hl (Or.inl hargs)
          simp only
          rw [ih _ (Nat.lt_trans r1 hn)]
        | 2, hargs =>
          have r1 := hl (Or.inr hargs)
          have r2 := hr hargs
          simp only
          rw [ih _ (Nat.lt_trans r1 hn), ih _ (Nat.lt_trans r2 hn)]
        | k + 3, _ => exact hleaf n hn

/-- two heaps that agree below `N`, the first one bottom-up: same values below `N` -/
theorem evalAt_agree (I : Interp α) {g g' : NodeId → Node} (hcs : ChildrenSmaller g) (N : Nat)
    (hag : ∀ n, n < N → g n = g' n) (pos : NodeId → Option Nat) :
    ∀ (d : Nat) (n : NodeId), n < N → evalAt I g pos d n = evalAt I g' pos d n :=
  evalAt_agree2 I hcs N hag pos pos (fun _ _ => rfl)

theorem hget_oob (h : List Node) (n : Nat) (hn : h.length ≤ n) : hget h n = { op := .invalid } := by
  simp [hget, List.getElem?_eq_none hn]

/-- old nodes keep their value when the heap grows -/
theorem evalAt_old (I : Interp α) (pos : NodeId → Option Nat) {h : List Node} (H : LoadHeap h)
    (e : List Node) (d : Nat) (n : NodeId) (hn : n < h.length) :
    evalAt I (hget (h ++ e)) pos d n = evalAt I (hget h) pos d n :=
  (evalAt_agree I H.cs h.length (fun m hm => (hget_append h e m hm).symm) pos d n hn).symm

theorem Val_old (I : Interp α) (pos : NodeId → Option Nat) {h : List Node} (H : LoadHeap h)
    (e : List Node) (n : NodeId) (hn : n < h.length) : Val I pos (h ++ e) n = Val I pos h n :=
  evalAt_old I pos H e (n + 1) n hn

theorem Val_eq (I : Interp α) (pos : NodeId → Option Nat) {h : List Node} (H : LoadHeap h)
    (d : Nat) (n : NodeId) (hd : n < d) : evalAt I (hget h) pos d n = Val I pos h n :=
  evalAt_stable I H.cs pos d (n + 1) n hd (Nat.lt_succ_self n)

theorem Val_const (I : Interp α) (pos : NodeId → Option Nat) (h : List Node) (n : NodeId)
    (hc : (hget h n).op = Op.constant) : Val I pos h n = I.const (hget h n).value := by
  simp [Val, evalAt, hc]

theorem Val_un (I : Interp α) (pos : NodeId → Option Nat) {h : List Node} (H : LoadHeap h) (n : NodeId)
    (ha : (hget h n).op.args = some 1) :
    Val I pos h n = I.un (hget h n).op (Val I pos h (hget h n).lhs) := by
  have hc : (hget h n).op ≠ Op.constant := by intro hc; rw [hc] at ha; simp [Op.args] at ha
  have hlt := (H.cs n).1 (Or.inl ha)
  rw [← Val_eq I pos H n _ hlt]
  simp [Val, evalAt, hc, ha]

theorem Val_bin (I : Interp α) (pos : NodeId → Option Nat) {h : List Node} (H : LoadHeap h) (n : NodeId)
    (ha : (hget h n).op.args = some 2) :
    Val I pos h n = I.bin (hget h n).op (Val I pos h (hget h n).lhs) (Val I pos h (hget h n).rhs) := by
  have hc : (hget h n).op ≠ Op.constant := by intro hc; rw [hc] at ha; simp [Op.args] at ha
  have hl := (H.cs n).1 (Or.inr ha)
  have hr := (H.cs n).2 ha
  rw [← Val_eq I pos H n _ hl, ← Val_eq I pos H n _ hr]
  simp [Val, evalAt, hc, ha]

theorem LoadHeap.heap0 : LoadHeap heap0 := by
  constructor
  · intro n
    match n with
    | 0 | 1 | 2 | 3 => simp [hget, Serial.heap0, Op.args]
    | k + 4 => simp [hget, Serial.heap0, Op.args]
  · intro i
    match i with
    | 0 | 1 | 2 | 3 => simp [hget, Serial.heap0]
    | k + 4 => simp [hget, Serial.heap0]

/-- appending a node whose operands are already there, and which is not the negation of a
    negation, keeps the invariant -/
theorem LoadHeap.snoc {h : List Node} (H : LoadHeap h) (nd : Node)
    (h1 : nd.op.args = some 1 ∨ nd.op.args = some 2 → nd.lhs < h.length)
    (h2 : nd.op.args = some 2 → nd.rhs < h.length)
    (h3 : nd.op = Op.neg → (hget h nd.lhs).op ≠ Op.neg) : LoadHeap (h ++ [nd]) := by
  constructor
  · intro n
    rcases Nat.lt_trichotomy n h.length with hn | hn | hn
    · rw [hget_append h [nd] n hn]; exact H.cs n
    · subst hn; rw [hget_new]; exact ⟨h1, h2⟩
    · rw [hget_oob _ _ (by simp; omega)]; simp [Op.args]
  · intro i hi
    rcases Nat.lt_trichotomy i h.length with hn | hn | hn
    · rw [hget_append h [nd] i hn] at hi ⊢
      have hlt := (H.cs i).1 (Or.inl (by rw [hi]; rfl))
      rw [hget_append h [nd] _ (Nat.lt_trans hlt hn)]
      exact H.nn i hi
    · subst hn
      rw [hget_new] at hi ⊢
      have hlt := h1 (Or.inl (by rw [hi]; rfl))
      rw [hget_append h [nd] _ hlt]
      exact h3 hi
    · rw [hget_oob _ _ (by simp; omega)] at hi
      simp at hi

theorem fresh_same (h : List Node) :
    ∀ k, h.length ≤ k → (hget h k).op ≠ Op.varFree ∧ (hget h k).op ≠ Op.oracle := by
  intro k hk
  rw [hget_oob h k hk]; simp

theorem fresh_snoc (h : List Node) (nd : Node) (h1 : nd.op ≠ Op.varFree) (h2 : nd.op ≠ Op.oracle) :
    ∀ k, h.length ≤ k → (hget (h ++ [nd]) k).op ≠ Op.varFree ∧ (hget (h ++ [nd]) k).op ≠ Op.oracle := by
  intro k hk
  rcases Nat.eq_or_lt_of_le hk with e | e
  · subst e; rw [hget_new]; exact ⟨h1, h2⟩
  · rw [hget_oob _ k (by simp; omega)]; simp

/-! ## the result of one constructor call -/

/-- what a call of `Tree::unary` / `Tree::binary` on heap `h` returning `r = (heap, id)` with
    intended value `v` guarantees: the heap only grew, is still a loader heap, the returned id is
    allocated, and its value is `v` -/
structure StepRes (I : Interp α) (pos : NodeId → Option Nat) (h : List Node) (r : List Node × NodeId)
    (v : α) : Prop where
  ext : ∃ e, r.1 = h ++ e
  wf : LoadHeap r.1
  bound : r.2 < r.1.length
  val : Val I pos r.1 r.2 = v
  fresh : ∀ k, h.length ≤ k → (hget r.1 k).op ≠ Op.varFree ∧ (hget r.1 k).op ≠ Op.oracle

theorem StepRes.same (I : Interp α) (pos : NodeId → Option Nat) {h : List Node} (H : LoadHeap h)
    (n : NodeId) (hn : n < h.length) (v : α) (hv : Val I pos h n = v) : StepRes I pos h (h, n) v :=
  ⟨⟨[], by simp⟩, H, hn, hv, fresh_same h⟩

theorem StepRes.allocConst (I : Interp α) (pos : NodeId → Option Nat) {h : List Node} (H : LoadHeap h)
    (c : UInt32) : StepRes I pos h (alloc h { op := .constant, value := c }) (I.const c) := by
  refine ⟨⟨_, rfl⟩, H.snoc _ (by simp [Op.args]) (by simp [Op.args]) (by simp), by simp [alloc], ?_,
    fresh_snoc h _ (by simp) (by simp)⟩
  simp only [alloc]
  rw [Val_const _ _ _ _ (by rw [hget_new]), hget_new]

theorem StepRes.allocUn (I : Interp α) (pos : NodeId → Option Nat) {h : List Node} (H : LoadHeap h)
    (op : Op) (a : NodeId) (hop : op.args = some 1) (ha : a < h.length)
    (hneg : op = Op.neg → (hget h a).op ≠ Op.neg) :
    StepRes I pos h (alloc h { op := op, lhs := a }) (I.un op (Val I pos h a)) := by
  have H' : LoadHeap (h ++ [{ op := op, lhs := a }]) :=
    H.snoc _ (fun _ => ha) (by simp [hop]) hneg
  refine ⟨⟨_, rfl⟩, H', by simp [alloc], ?_,
    fresh_snoc h _ (by intro e; simp only at e; rw [e] at hop; simp [Op.args] at hop)
      (by intro e; simp only at e; rw [e] at hop; simp [Op.args] at hop)⟩
  simp only [alloc]
  rw [Val_un I pos H' _ (by rw [hget_new]; exact hop), hget_new]
  simp only
  rw [Val_old I pos H _ a ha]

theorem StepRes.allocBin (I : Interp α) (pos : NodeId → Option Nat) {h : List Node} (H : LoadHeap h)
    (op : Op) (a b : NodeId) (hop : op.args = some 2) (ha : a < h.length) (hb : b < h.length) :
    StepRes I pos h (alloc h { op := op, lhs := a, rhs := b })
      (I.bin op (Val I pos h a) (Val I pos h b)) := by
  have H' : LoadHeap (h ++ [{ op := op, lhs := a, rhs := b }]) :=
    H.snoc _ (fun _ => ha) (fun _ => hb) (by intro e; simp only at e; rw [e] at hop; simp [Op.args] at hop)
  refine ⟨⟨_, rfl⟩, H', by simp [alloc], ?_,
    fresh_snoc h _ (by intro e; simp only at e; rw [e] at hop; simp [Op.args] at hop)
      (by intro e; simp only at e; rw [e] at hop; simp [Op.args] at hop)⟩
  simp only [alloc]
  rw [Val_bin I pos H' _ (by rw [hget_new]; exact hop), hget_new]
  simp only
  rw [Val_old I pos H _ a ha, Val_old I pos H _ b hb]

/-! ## `Tree::unary` -/

/-- what each decision of `act1` knows about its operand -/
def Act1Spec (op : Op) (l : Node) : Act1 → Prop
  | .fold => l.op = Op.constant
  | .retArg => op = Op.abs ∧ (l.op = Op.abs ∨ l.op = Op.square)
  | .retArgLhs => op = Op.neg ∧ l.op = Op.neg
  | .alloc => op = Op.neg → l.op ≠ Op.neg

theorem act1_spec (op : Op) (l : Node) : Act1Spec op l (act1 op l) := by
  unfold act1
  repeat' split
  all_goals simp_all [Act1Spec, isConst, isUnary]
  all_goals (intro e; simp_all [Op.args])

theorem mkUnary_res (F : Folder) (I : Interp α) (L : RewriteLaws F I) (pos : NodeId → Option Nat)
    {h : List Node} (H : LoadHeap h) (op : Op) (a : NodeId) (hop : op.args = some 1)
    (ha : a < h.length) : StepRes I pos h (mkUnary F h op a) (I.un op (Val I pos h a)) := by
  have hs := act1_spec op (hget h a)
  unfold mkUnary
  simp only
  cases hact : act1 op (hget h a) with
  | fold =>
    rw [hact] at hs
    simp only [Act1Spec] at hs
    simp only
    rw [Val_const I pos h a hs, ← L.fold1 op _ hop]
    exact StepRes.allocConst I pos H _
  | retArg =>
    rw [hact] at hs
    obtain ⟨rfl, hl⟩ := hs
    simp only
    apply StepRes.same I pos H a ha
    have ha1 : (hget h a).op.args = some 1 := by rcases hl with e | e <;> rw [e] <;> rfl
    rw [Val_un I pos H a ha1]
    rcases hl with e | e <;> rw [e]
    · exact (L.abs_abs _).symm
    · exact (L.abs_square _).symm
  | retArgLhs =>
    rw [hact] at hs
    obtain ⟨rfl, hl⟩ := hs
    simp only
    have ha1 : (hget h a).op.args = some 1 := by rw [hl]; rfl
    have hlt := (H.cs a).1 (Or.inl ha1)
    apply StepRes.same I pos H _ (Nat.lt_trans hlt ha)
    rw [Val_un I pos H a ha1, hl, L.neg_neg]
  | alloc =>
    rw [hact] at hs
    simp only
    exact StepRes.allocUn I pos H op a hop ha hs

/-! ## `Tree::binary` -/

/-- what each decision of `act2` knows about its operands -/
def Act2Spec (op : Op) (l r : Node) (same : Bool) : Act2 → Prop
  | .alloc => True
  | .fold => l.op = Op.constant ∧ r.op = Op.constant
  | .retL =>
    (op = Op.div ∧ r.op = Op.constant ∧ isOne r.value = true) ∨
    (op = Op.add ∧ r.op = Op.constant ∧ isZero r.value = true) ∨
    (op = Op.sub ∧ r.op = Op.constant ∧ isZero r.value = true) ∨
    (op = Op.mul ∧ l.op = Op.constant ∧ isZero l.value = true) ∨
    (op = Op.mul ∧ r.op = Op.constant ∧ isOne r.value = true) ∨
    (op = Op.nthRoot ∧ r.op = Op.constant ∧ isOne r.value = true) ∨
    (op = Op.pow ∧ r.op = Op.constant ∧ isOne r.value = true) ∨
    (op = Op.min ∧ same = true) ∨ (op = Op.max ∧ same = true)
  | .retR =>
    (op = Op.add ∧ l.op = Op.constant ∧ isZero l.value = true) ∨
    (op = Op.mul ∧ l.op = Op.constant ∧ isOne l.value = true) ∨
    (op = Op.mul ∧ r.op = Op.constant ∧ isZero r.value = true)
  | .negL => op = Op.mul ∧ r.op = Op.constant ∧ isMinusOne r.value = true
  | .negR =>
    (op = Op.sub ∧ l.op = Op.constant ∧ isZero l.value = true) ∨
    (op = Op.mul ∧ l.op = Op.constant ∧ isMinusOne l.value = true)
  | .squareL => op = Op.mul ∧ same = true
  | .subRLl => op = Op.add ∧ l.op = Op.neg
  | .subLRl => op = Op.add ∧ r.op = Op.neg
  | .addLRl => op = Op.sub ∧ r.op = Op.neg

theorem act2_spec (op : Op) (l r : Node) (same : Bool) : Act2Spec op l r same (act2 op l r same) := by
  unfold act2
  repeat' split
  all_goals simp_all [Act2Spec, isConst, isUnary]
  all_goals (rename_i h1 _; rcases h1 with e | e <;> simp [e])

/-- the three mutually recursive rewrites: `(-x) + b ↦ b - x`, `a + (-x) ↦ a - x`, `a - (-x) ↦ a + x` -/
def RecTarget (h : List Node) (op : Op) (a b : NodeId) (op' : Op) (a' b' : NodeId) : Prop :=
  (op = Op.add ∧ (hget h a).op = Op.neg ∧ op' = Op.sub ∧ a' = b ∧ b' = (hget h a).lhs) ∨
  (op = Op.add ∧ (hget h b).op = Op.neg ∧ op' = Op.sub ∧ a' = a ∧ b' = (hget h b).lhs) ∨
  (op = Op.sub ∧ (hget h b).op = Op.neg ∧ op' = Op.add ∧ a' = a ∧ b' = (hget h b).lhs)

/-- one unfolding of `mkBinary`, the recursive calls handed in as `hrec` -/
theorem mkBinary_step (F : Folder) (I : Interp α) (L : RewriteLaws F I) (pos : NodeId → Option Nat)
    {h : List Node} (H : LoadHeap h) (fuel : Nat) (op : Op) (a b : NodeId) (hop : op.args = some 2)
    (ha : a < h.length) (hb : b < h.length)
    (hrec : ∀ op' a' b', RecTarget h op a b op' a' b' →
      StepRes I pos h (mkBinary F fuel h op' a' b') (I.bin op' (Val I pos h a') (Val I pos h b'))) :
    StepRes I pos h (mkBinary F (fuel + 1) h op a b) (I.bin op (Val I pos h a) (Val I pos h b)) := by
  have hs := act2_spec op (hget h a) (hget h b) (a == b)
  unfold mkBinary
  simp only
  cases hact : act2 op (hget h a) (hget h b) (a == b) with
  | alloc => exact StepRes.allocBin I pos H op a b hop ha hb
  | fold =>
    rw [hact] at hs
    obtain ⟨h1, h2⟩ := hs
    simp only
    rw [Val_const I pos h a h1, Val_const I pos h b h2, ← L.fold2 op _ _ hop]
    exact StepRes.allocConst I pos H _
  | retL =>
    rw [hact] at hs
    simp only
    apply StepRes.same I pos H a ha
    rcases hs with ⟨rfl, hc, hv⟩ | ⟨rfl, hc, hv⟩ | ⟨rfl, hc, hv⟩ | ⟨rfl, hc, hv⟩ | ⟨rfl, hc, hv⟩ |
      ⟨rfl, hc, hv⟩ | ⟨rfl, hc, hv⟩ | ⟨rfl, hv⟩ | ⟨rfl, hv⟩
    · rw [Val_const I pos h b hc, L.div_one _ _ hv]
    · rw [Val_const I pos h b hc, L.add_zero _ _ hv]
    · rw [Val_const I pos h b hc, L.sub_zero _ _ hv]
    · rw [Val_const I pos h a hc, L.zero_mul _ _ hv]
    · rw [Val_const I pos h b hc, L.mul_one _ _ hv]
    · rw [Val_const I pos h b hc, L.nthRoot_one _ _ hv]
    · rw [Val_const I pos h b hc, L.pow_one _ _ hv]
    · have : a = b := by simpa using hv
      subst this; rw [L.min_self]
    · have : a = b := by simpa using hv
      subst this; rw [L.max_self]
  | retR =>
    rw [hact] at hs
    simp only
    apply StepRes.same I pos H b hb
    rcases hs with ⟨rfl, hc, hv⟩ | ⟨rfl, hc, hv⟩ | ⟨rfl, hc, hv⟩
    · rw [Val_const I pos h a hc, L.zero_add _ _ hv]
    · rw [Val_const I pos h a hc, L.one_mul _ _ hv]
    · rw [Val_const I pos h b hc, L.mul_zero _ _ hv]
  | negL =>
    rw [hact] at hs
    obtain ⟨rfl, hc, hv⟩ := hs
    simp only
    rw [Val_const I pos h b hc, L.mul_negone _ _ hv]
    exact mkUnary_res F I L pos H Op.neg a rfl ha
  | negR =>
    rw [hact] at hs
    simp only
    rcases hs with ⟨rfl, hc, hv⟩ | ⟨rfl, hc, hv⟩
    · rw [Val_const I pos h a hc, L.zero_sub _ _ hv]
      exact mkUnary_res F I L pos H Op.neg b rfl hb
    · rw [Val_const I pos h a hc, L.negone_mul _ _ hv]
      exact mkUnary_res F I L pos H Op.neg b rfl hb
  | squareL =>
    rw [hact] at hs
    obtain ⟨rfl, hv⟩ := hs
    simp only
    have : a = b := by simpa using hv
    subst this
    rw [L.mul_self]
    exact mkUnary_res F I L pos H Op.square a rfl ha
  | subRLl =>
    rw [hact] at hs
    obtain ⟨rfl, hn⟩ := hs
    simp only
    have := hrec Op.sub b (hget h a).lhs (Or.inl ⟨rfl, hn, rfl, rfl, rfl⟩)
    rw [Val_un I pos H a (by rw [hn]; rfl), hn, L.neg_add]
    exact this
  | subLRl =>
    rw [hact] at hs
    obtain ⟨rfl, hn⟩ := hs
    simp only
    have := hrec Op.sub a (hget h b).lhs (Or.inr (Or.inl ⟨rfl, hn, rfl, rfl, rfl⟩))
    rw [Val_un I pos H b (by rw [hn]; rfl), hn, L.add_neg]
    exact this
  | addLRl =>
    rw [hact] at hs
    obtain ⟨rfl, hn⟩ := hs
    simp only
    have := hrec Op.add a (hget h b).lhs (Or.inr (Or.inr ⟨rfl, hn, rfl, rfl, rfl⟩))
    rw [Val_un I pos H b (by rw [hn]; rfl), hn, L.sub_neg]
    exact this

/-- `a - b` with `b` not a negation: no recursion -/
theorem mkBinary_sub_plain (F : Folder) (I : Interp α) (L : RewriteLaws F I) (pos : NodeId → Option Nat)
    {h : List Node} (H : LoadHeap h) (fuel : Nat) (a b : NodeId)
    (ha : a < h.length) (hb : b < h.length) (hnb : (hget h b).op ≠ Op.neg) :
    StepRes I pos h (mkBinary F (fuel + 1) h Op.sub a b) (I.bin Op.sub (Val I pos h a) (Val I pos h b)) := by
  apply mkBinary_step F I L pos H fuel Op.sub a b rfl ha hb
  intro op' a' b' ht
  rcases ht with ⟨e, _⟩ | ⟨e, _⟩ | ⟨_, e, _⟩
  · cases e
  · cases e
  · exact absurd e hnb

theorem mkBinary_add (F : Folder) (I : Interp α) (L : RewriteLaws F I) (pos : NodeId → Option Nat)
    {h : List Node} (H : LoadHeap h) (fuel : Nat) (a b : NodeId)
    (ha : a < h.length) (hb : b < h.length) :
    StepRes I pos h (mkBinary F (fuel + 2) h Op.add a b) (I.bin Op.add (Val I pos h a) (Val I pos h b)) := by
  apply mkBinary_step F I L pos H (fuel + 1) Op.add a b rfl ha hb
  intro op' a' b' ht
  rcases ht with ⟨_, hn, rfl, rfl, rfl⟩ | ⟨_, hn, rfl, rfl, rfl⟩ | ⟨e, _⟩
  · have hlt := (H.cs a).1 (Or.inl (by rw [hn]; rfl))
    exact mkBinary_sub_plain F I L pos H fuel _ _ hb (Nat.lt_trans hlt ha) (H.nn a hn)
  · have hlt := (H.cs b).1 (Or.inl (by rw [hn]; rfl))
    exact mkBinary_sub_plain F I L pos H fuel _ _ ha (Nat.lt_trans hlt hb) (H.nn b hn)
  · cases e

theorem mkBinary_sub (F : Folder) (I : Interp α) (L : RewriteLaws F I) (pos : NodeId → Option Nat)
    {h : List Node} (H : LoadHeap h) (fuel : Nat) (a b : NodeId)
    (ha : a < h.length) (hb : b < h.length) :
    StepRes I pos h (mkBinary F (fuel + 3) h Op.sub a b) (I.bin Op.sub (Val I pos h a) (Val I pos h b)) := by
  apply mkBinary_step F I L pos H (fuel + 2) Op.sub a b rfl ha hb
  intro op' a' b' ht
  rcases ht with ⟨e, _⟩ | ⟨e, _⟩ | ⟨_, hn, rfl, rfl, rfl⟩
  · cases e
  · cases e
  · have hlt := (H.cs b).1 (Or.inl (by rw [hn]; rfl))
    exact mkBinary_add F I L pos H fuel _ _ ha (Nat.lt_trans hlt hb)

/-- `Tree::binary` on a loader heap, any fuel from 3 on (the loader runs it with 64) -/
theorem mkBinary_res (F : Folder) (I : Interp α) (L : RewriteLaws F I) (pos : NodeId → Option Nat)
    {h : List Node} (H : LoadHeap h) (fuel : Nat) (op : Op) (a b : NodeId) (hop : op.args = some 2)
    (ha : a < h.length) (hb : b < h.length) :
    StepRes I pos h (mkBinary F (fuel + 3) h op a b) (I.bin op (Val I pos h a) (Val I pos h b)) := by
  by_cases h1 : op = Op.add
  · subst h1; exact mkBinary_add F I L pos H (fuel + 1) a b ha hb
  by_cases h2 : op = Op.sub
  · subst h2; exact mkBinary_sub F I L pos H fuel a b ha hb
  apply mkBinary_step F I L pos H (fuel + 2) op a b hop ha hb
  intro op' a' b' ht
  rcases ht with ⟨e, _⟩ | ⟨e, _⟩ | ⟨e, _⟩
  · exact absurd e h1
  · exact absurd e h1
  · exact absurd e h2

/-! ## lifting to the loader's clause loop -/

theorem posOf_append_mem : ∀ (l e : List NodeId) (n : NodeId), n ∈ l → posOf (l ++ e) n = posOf l n := by
  intro l
  induction l with
  | nil => intro e n h; simp at h
  | cons a r ih =>
    intro e n h
    by_cases ha : a = n
    · simp [posOf, ha]
    · have : n ∈ r := by
        rcases List.mem_cons.mp h with e' | e'
        · exact absurd e'.symm ha
        · exact e'
      simp [posOf, ha, ih e n this]

theorem posOf_snoc_new : ∀ (l : List NodeId) (x : NodeId), x ∉ l → posOf (l ++ [x]) x = some l.length := by
  intro l
  induction l with
  | nil => intro x _; simp [posOf]
  | cons a r ih =>
    intro x h
    have h1 : a ≠ x := fun e => h (by simp [e])
    have h2 : x ∉ r := fun e => h (by simp [e])
    simp [posOf, h1, ih x h2]

/-- only free variables (and oracles) are interpreted through their stream position -/
theorem leaf_irrel (I : Libfive.Interp UInt32 α) (env : Env α) (op : Op) (q q' : Option Nat)
    (h1 : op ≠ Op.varFree) (h2 : op ≠ Op.oracle) :
    (interpOf I env).leaf op q = (interpOf I env).leaf op q' := by
  cases op <;> first | rfl | contradiction

/-- the axis singletons of a heap that extends `heap0` evaluate to the coordinates -/
theorem Val_axes (I : Libfive.Interp UInt32 α) (env : Env α) (pos : NodeId → Option Nat) (lheap : List Node)
    (hbase : ∀ k, k < 4 → hget lheap k = hget heap0 k) :
    Val (interpOf I env) pos lheap idX = env.x ∧ Val (interpOf I env) pos lheap idY = env.y ∧
    Val (interpOf I env) pos lheap idZ = env.z := by
  have h0 := hbase 0 (by decide)
  have h1 := hbase 1 (by decide)
  have h2 := hbase 2 (by decide)
  refine ⟨?_, ?_, ?_⟩
  · simp only [Val, evalAt, idX, h0]; simp [hget, heap0, Op.args, interpOf]
  · simp only [Val, evalAt, idY, h1]; simp [hget, heap0, Op.args, interpOf]
  · simp only [Val, evalAt, idZ, h2]; simp [hget, heap0, Op.args, interpOf]

/-- the stored node is a node of a finite term: it has an opcode and is not its own operand -/
def NodeSane (heap : NodeId → Node) (n : NodeId) : Prop :=
  (heap n).op ≠ Op.invalid ∧
  ((heap n).op.args = some 1 ∨ (heap n).op.args = some 2 → (heap n).lhs ≠ n) ∧
  ((heap n).op.args = some 2 → (heap n).rhs ≠ n)

/-- **semantic invariant of the clause loop** (replaces the isomorphism `Inv` when rewrites may
    fire): the loader's table has one entry per stored node; its heap is a loader heap extending
    `heap0`; every entry is allocated; every free-variable node of the loader's heap is in the table;
    and the stored node at stream position `p` (in the source heap, leaves named by `spos`, any fuel
    above `p`) has the value of the loader's entry at position `p` (leaves named by first stream
    position in the loader's table). -/
structure SemInv (I : Libfive.Interp UInt32 α) (env : Env α) (heap : NodeId → Node)
    (spos : NodeId → Option Nat) (ids : List NodeId) (lheap : List Node) (trees : List NodeId) : Prop where
  len : trees.length = ids.length
  wf : LoadHeap lheap
  base : ∃ ext, lheap = heap0 ++ ext
  bound : ∀ (p : Nat) (m : NodeId), trees[p]? = some m → m < lheap.length
  leafIn : ∀ k, k < lheap.length →
    (hget lheap k).op = Op.varFree ∨ (hget lheap k).op = Op.oracle → k ∈ trees
  sem : ∀ (p : Nat) (n m : NodeId) (d : Nat), ids[p]? = some n → trees[p]? = some m → p < d →
    evalAt (interpOf I env) heap spos d n = Val (interpOf I env) (posOf trees) lheap m
  /-- a stored free variable is loaded as a node that first occurs at that variable's position -/
  varPos : ∀ (p : Nat) (n m : NodeId), ids[p]? = some n → trees[p]? = some m →
    (heap n).op = Op.varFree → posOf trees m = some p

theorem SemInv.init (I : Libfive.Interp UInt32 α) (env : Env α) (heap : NodeId → Node)
    (spos : NodeId → Option Nat) : SemInv I env heap spos [] heap0 [] := by
  refine ⟨rfl, LoadHeap.heap0, ⟨[], by simp⟩, by simp, ?_, by simp, by simp⟩
  intro k hk h
  match k, hk with
  | 0, _ | 1, _ | 2, _ | 3, _ => simp [hget, heap0] at h
  | k + 4, hk => simp [heap0] at hk

section
variable {I : Libfive.Interp UInt32 α} {env : Env α} {heap : NodeId → Node} {spos : NodeId → Option Nat}
  {ids : List NodeId} {lheap : List Node} {trees : List NodeId}

theorem SemInv.leaf_agree (hinv : SemInv I env heap spos ids lheap trees) (x : NodeId) (k : Nat)
    (hk : k < lheap.length) :
    (interpOf I env).leaf (hget lheap k).op (posOf trees k)
      = (interpOf I env).leaf (hget lheap k).op (posOf (trees ++ [x]) k) := by
  by_cases h : (hget lheap k).op = Op.varFree ∨ (hget lheap k).op = Op.oracle
  · rw [posOf_append_mem trees [x] k (hinv.leafIn k hk h)]
  · exact leaf_irrel I env _ _ _ (fun e => h (Or.inl e)) (fun e => h (Or.inr e))

/-- one more stored node `n`, loaded as `x` into a heap grown by `ext` -/
theorem SemInv.push (hinv : SemInv I env heap spos ids lheap trees) (n x : NodeId) (ext : List Node)
    (H' : LoadHeap (lheap ++ ext)) (hx : x < (lheap ++ ext).length)
    (hleaf : ∀ k, k < (lheap ++ ext).length →
      (hget (lheap ++ ext) k).op = Op.varFree ∨ (hget (lheap ++ ext) k).op = Op.oracle → k ∈ trees ++ [x])
    (hval : ∀ d, ids.length < d → evalAt (interpOf I env) heap spos d n
      = Val (interpOf I env) (posOf (trees ++ [x])) (lheap ++ ext) x)
    (hvp : (heap n).op = Op.varFree → posOf (trees ++ [x]) x = some trees.length) :
    SemInv I env heap spos (ids ++ [n]) (lheap ++ ext) (trees ++ [x]) := by
  obtain ⟨b, hb⟩ := hinv.base
  refine ⟨by simp [hinv.len], H', ⟨b ++ ext, by rw [hb, List.append_assoc]⟩, ?_, hleaf, ?_, ?_⟩
  · intro p m hm
    rcases get?_snoc_cases _ _ _ _ hm with ⟨_, h1⟩ | ⟨_, h1⟩
    · have := hinv.bound p m h1
      simp only [List.length_append]
      exact Nat.lt_of_lt_of_le this (Nat.le_add_right _ _)
    · subst h1; exact hx
  · intro p n' m d hn hm hd
    rcases get?_snoc_cases _ _ _ _ hm with ⟨hp, h1⟩ | ⟨hp, h1⟩
    · have hp' : p < ids.length := by rw [← hinv.len]; exact hp
      have hn' : ids[p]? = some n' := by rwa [List.getElem?_append_left hp'] at hn
      rw [hinv.sem p n' m d hn' h1 hd]
      exact evalAt_agree2 (interpOf I env) hinv.wf.cs lheap.length
        (fun k hk => (hget_append lheap ext k hk).symm) (posOf trees) (posOf (trees ++ [x]))
        (fun k hk => hinv.leaf_agree x k hk) (m + 1) m (hinv.bound p m h1)
    · subst h1
      have hp' : p = ids.length := by rw [hp, hinv.len]
      subst hp'
      have hn' : n' = n := by simpa using hn.symm
      subst hn'
      exact hval d hd
  · intro p n' m hn hm hv
    rcases get?_snoc_cases _ _ _ _ hm with ⟨hp, h1⟩ | ⟨hp, h1⟩
    · have hp' : p < ids.length := by rw [← hinv.len]; exact hp
      have hn' : ids[p]? = some n' := by rwa [List.getElem?_append_left hp'] at hn
      rw [posOf_append_mem trees [x] m (List.mem_of_getElem? h1)]
      exact hinv.varPos p n' m hn' h1 hv
    · subst h1
      have hp' : p = ids.length := by rw [hp, hinv.len]
      subst hp'
      have hn' : n' = n := by simpa using hn.symm
      subst hn'
      rw [hp]; exact hvp hv

/-- one more stored node `n`, loaded by a constructor call with result `r` of the right value -/
theorem SemInv.push_step (hinv : SemInv I env heap spos ids lheap trees) (n : NodeId)
    (r : List Node × NodeId) (v : α) (R : StepRes (interpOf I env) (posOf trees) lheap r v)
    (hval : ∀ d, ids.length < d → evalAt (interpOf I env) heap spos d n = v)
    (hnv : (heap n).op ≠ Op.varFree) :
    (∃ ext, r.1 = lheap ++ ext) ∧ SemInv I env heap spos (ids ++ [n]) r.1 (trees ++ [r.2]) := by
  obtain ⟨ext, he⟩ := R.ext
  refine ⟨⟨ext, he⟩, ?_⟩
  have hwf : LoadHeap (lheap ++ ext) := by rw [← he]; exact R.wf
  have hbd : r.2 < (lheap ++ ext).length := by rw [← he]; exact R.bound
  have hfr : ∀ k, lheap.length ≤ k →
      (hget (lheap ++ ext) k).op ≠ Op.varFree ∧ (hget (lheap ++ ext) k).op ≠ Op.oracle := by
    rw [← he]; exact R.fresh
  have hleaf : ∀ k, k < (lheap ++ ext).length →
      (hget (lheap ++ ext) k).op = Op.varFree ∨ (hget (lheap ++ ext) k).op = Op.oracle → k ∈ trees := by
    intro k _ hk
    by_cases hkl : k < lheap.length
    · rw [hget_append lheap ext k hkl] at hk; exact hinv.leafIn k hkl hk
    · have := hfr k (Nat.le_of_not_lt hkl)
      rcases hk with e | e
      · exact absurd e this.1
      · exact absurd e this.2
  rw [he]
  apply hinv.push n r.2 ext hwf hbd (fun k hk1 hk2 => List.mem_append_left _ (hleaf k hk1 hk2)) ?_
    (fun e => absurd e hnv)
  intro d hd
  rw [hval d hd, ← R.val, he]
  refine evalAt_agree2 (interpOf I env) hwf.cs (lheap ++ ext).length (fun _ _ => rfl) (posOf trees)
    (posOf (trees ++ [r.2])) (fun k hk => ?_) (r.2 + 1) r.2 hbd
  by_cases h : (hget (lheap ++ ext) k).op = Op.varFree ∨ (hget (lheap ++ ext) k).op = Op.oracle
  · rw [posOf_append_mem trees [r.2] k (hleaf k hk h)]
  · exact leaf_irrel I env _ _ _ (fun e => h (Or.inl e)) (fun e => h (Or.inr e))

end

/-- **one clause, rewrites allowed.** What `serNode` writes for a not yet stored node is read back by
    one iteration of the loader's clause loop — whatever `Tree::unary` / `Tree::binary` decide to do
    with it: the stream advances exactly past the clause, nothing is printed, the heap grows, and the
    new table entry has the value of the stored node. -/
theorem clauseStep_serNode_sem (F : Folder) (I : Libfive.Interp UInt32 α) (env : Env α)
    (L : RewriteLaws F (interpOf I env)) (heap : NodeId → Node) (spos : NodeId → Option Nat)
    (ids ids' : List NodeId) (n : NodeId) (bytes rest : List Byte)
    (trees : List NodeId) (lheap : List Node) (log : List Err)
    (hser : serNode heap ids n = .ok (bytes, ids')) (hnew : n ∉ ids)
    (hsane : NodeSane heap n) (hsz : ids'.length < 4294967296)
    (hsp : spos n = some ids.length)
    (hinv : SemInv I env heap spos ids lheap trees) :
    ∃ (x : NodeId) (ext : List Node), clauseStep F ⟨⟨bytes ++ rest, false⟩, trees, lheap, log⟩
        = .ok (some false, ⟨⟨rest, false⟩, trees ++ [x], lheap ++ ext, log⟩) ∧
        SemInv I env heap spos ids' (lheap ++ ext) (trees ++ [x]) := by
  obtain ⟨hop, hselfl, hselfr⟩ := hsane
  have hlen4 : 4 ≤ lheap.length := by
    obtain ⟨e, he⟩ := hinv.base; rw [he]; simp [heap0]
  have hbase : ∀ k, k < 4 → hget lheap k = hget heap0 k := by
    intro k hk
    obtain ⟨e, he⟩ := hinv.base
    rw [he]; exact hget_append heap0 e k (by simpa [heap0] using hk)
  cases hargs : (heap n).op.args with
  | none => exact absurd hargs (by revert hop; cases (heap n).op <;> simp [Op.args])
  | some k =>
    match k, hargs with
    | 0, hargs =>
      by_cases hor : (heap n).op = Op.oracle
      · simp [serNode, hnew, hor] at hser
      simp only [serNode, hnew, if_false, hor, hargs] at hser
      by_cases hc : (heap n).op = Op.constant
      · simp only [hc, if_true] at hser
        injection hser with hser; injection hser with hb hi
        subst hb; subst hi
        have R := StepRes.allocConst (interpOf I env) (posOf trees) hinv.wf (heap n).value
        have hinv' := (hinv.push_step n _ _ R (by
          intro d hd
          cases d with
          | zero => exact absurd hd (Nat.not_lt_zero _)
          | succ d => simp [evalAt, hc]) (by rw [hc]; decide)).2
        refine ⟨lheap.length, [{ op := .constant, value := (heap n).value }], ?_, hinv'⟩
        have := clauseStep_op F (heap n).op hop (u32le (heap n).value ++ rest) trees lheap log
        rw [hc] at this
        simp only [List.append_assoc, List.cons_append, List.nil_append]
        rw [this, clauseOp_const]
      · simp only [hc, if_false, List.append_nil] at hser
        injection hser with hser; injection hser with hb hi
        subst hb; subst hi
        have hstep := clauseStep_op F (heap n).op hop rest trees lheap log
        simp only [List.cons_append, List.nil_append]
        rw [hstep]
        have hcases : (heap n).op = Op.varX ∨ (heap n).op = Op.varY ∨ (heap n).op = Op.varZ ∨ (heap n).op = Op.varFree := by
          revert hargs hc hor
          cases (heap n).op <;> simp [Op.args]
        have hsrc : ∀ d, ids.length < d → evalAt (interpOf I env) heap spos d n
            = (interpOf I env).leaf (heap n).op (spos n) := by
          intro d hd
          cases d with
          | zero => exact absurd hd (Nat.not_lt_zero _)
          | succ d => simp [evalAt, hc, hargs]
        rcases hcases with e | e | e | e
        · have R := StepRes.same (interpOf I env) (posOf trees) hinv.wf idX (Nat.lt_of_lt_of_le (by decide) hlen4) env.x
            (Val_axes I env _ lheap hbase).1
          have hinv' := (hinv.push_step n _ _ R (by intro d hd; rw [hsrc d hd, e]; rfl) (by rw [e]; decide)).2
          refine ⟨idX, [], by simp [clauseOp, e, Op.args, bumpTree], ?_⟩
          rw [List.append_nil]; exact hinv'
        · have R := StepRes.same (interpOf I env) (posOf trees) hinv.wf idY (Nat.lt_of_lt_of_le (by decide) hlen4) env.y
            (Val_axes I env _ lheap hbase).2.1
          have hinv' := (hinv.push_step n _ _ R (by intro d hd; rw [hsrc d hd, e]; rfl) (by rw [e]; decide)).2
          refine ⟨idY, [], by simp [clauseOp, e, Op.args, bumpTree], ?_⟩
          rw [List.append_nil]; exact hinv'
        · have R := StepRes.same (interpOf I env) (posOf trees) hinv.wf idZ (Nat.lt_of_lt_of_le (by decide) hlen4) env.z
            (Val_axes I env _ lheap hbase).2.2
          have hinv' := (hinv.push_step n _ _ R (by intro d hd; rw [hsrc d hd, e]; rfl) (by rw [e]; decide)).2
          refine ⟨idZ, [], by simp [clauseOp, e, Op.args, bumpTree], ?_⟩
          rw [List.append_nil]; exact hinv'
        · refine ⟨lheap.length, [{ op := .varFree }], by simp [clauseOp, e, Op.args, bumpTree, alloc], ?_⟩
          have hnotin : lheap.length ∉ trees := by
            intro hm
            obtain ⟨p, hp⟩ := List.getElem?_of_mem hm
            exact Nat.lt_irrefl _ (hinv.bound p _ hp)
          apply hinv.push n lheap.length [{ op := .varFree }]
            (hinv.wf.snoc _ (by simp [Op.args]) (by simp [Op.args]) (by simp)) (by simp)
          · intro k hk hk2
            by_cases hkl : k < lheap.length
            · rw [hget_append lheap _ k hkl] at hk2
              exact List.mem_append_left _ (hinv.leafIn k hkl hk2)
            · have : k = lheap.length := by simp at hk; omega
              subst this; simp
          · intro d hd
            rw [hsrc d hd, e, hsp]
            simp [Val, evalAt, hget_new, Op.args, posOf_snoc_new trees lheap.length hnotin, hinv.len]
          · intro _; exact posOf_snoc_new trees lheap.length hnotin
    | 1, hargs =>
      have hc : (heap n).op ≠ Op.constant := by intro e; simp [e, Op.args] at hargs
      have hor : (heap n).op ≠ Op.oracle := by intro e; simp [e, Op.args] at hargs
      simp only [serNode, hnew, if_false, hor, hargs, hc, List.append_nil] at hser
      cases hpos : posOf (ids ++ [n]) (heap n).lhs with
      | none => simp [hpos] at hser
      | some l =>
        simp only [hpos] at hser
        injection hser with hser; injection hser with hb hi
        subst hb; subst hi
        have hl : ids[l]? = some (heap n).lhs := posOf_snoc_ne hpos (hselfl (Or.inl hargs))
        have hll : l < ids.length := (List.getElem?_eq_some_iff.mp hl).1
        have hl32 : l < 4294967296 := by simp at hsz; omega
        have hlt : l < trees.length := by rw [hinv.len]; exact hll
        have ha : trees[l]? = some trees[l] := by simp [hlt]
        have R := mkUnary_res F (interpOf I env) L (posOf trees) hinv.wf (heap n).op trees[l] hargs
          (hinv.bound l _ ha)
        obtain ⟨⟨ext, he⟩, hinv'⟩ := hinv.push_step n _ _ R (by
          intro d hd
          cases d with
          | zero => exact absurd hd (Nat.not_lt_zero _)
          | succ d =>
            simp only [evalAt, hc, if_false, hargs]
            rw [hinv.sem l _ _ d hl ha (by omega)])
          (by intro e; rw [e] at hargs; simp [Op.args] at hargs)
        refine ⟨(mkUnary F lheap (heap n).op trees[l]).2, ext, ?_, by rw [← he]; exact hinv'⟩
        have hstep := clauseStep_op F (heap n).op hop (u32le (UInt32.ofNat l) ++ rest) trees lheap log
        simp only [List.append_assoc, List.cons_append, List.nil_append]
        rw [hstep, clauseOp_unary F _ hargs l hl32 _ rest trees lheap log ha]
        simp [bumpTree, he]
    | 2, hargs =>
      have hc : (heap n).op ≠ Op.constant := by intro e; simp [e, Op.args] at hargs
      have hor : (heap n).op ≠ Op.oracle := by intro e; simp [e, Op.args] at hargs
      simp only [serNode, hnew, if_false, hor, hargs, hc, List.append_nil] at hser
      cases hposr : posOf (ids ++ [n]) (heap n).rhs with
      | none => simp [hposr] at hser
      | some r =>
        cases hposl : posOf (ids ++ [n]) (heap n).lhs with
        | none => simp [hposr, hposl] at hser
        | some l =>
          simp only [hposr, hposl] at hser
          injection hser with hser; injection hser with hb hi
          subst hb; subst hi
          have hl : ids[l]? = some (heap n).lhs := posOf_snoc_ne hposl (hselfl (Or.inr hargs))
          have hr : ids[r]? = some (heap n).rhs := posOf_snoc_ne hposr (hselfr hargs)
          have hll : l < ids.length := (List.getElem?_eq_some_iff.mp hl).1
          have hrl : r < ids.length := (List.getElem?_eq_some_iff.mp hr).1
          have hl32 : l < 4294967296 := by simp at hsz; omega
          have hr32 : r < 4294967296 := by simp at hsz; omega
          have hlt : l < trees.length := by rw [hinv.len]; exact hll
          have hrt : r < trees.length := by rw [hinv.len]; exact hrl
          have ha : trees[l]? = some trees[l] := by simp [hlt]
          have hb : trees[r]? = some trees[r] := by simp [hrt]
          have R : StepRes (interpOf I env) (posOf trees) lheap
              (mkBinary F 64 lheap (heap n).op trees[l] trees[r])
              ((interpOf I env).bin (heap n).op (Val (interpOf I env) (posOf trees) lheap trees[l])
                (Val (interpOf I env) (posOf trees) lheap trees[r])) :=
            mkBinary_res F (interpOf I env) L (posOf trees) hinv.wf 61 (heap n).op trees[l] trees[r] hargs
              (hinv.bound l _ ha) (hinv.bound r _ hb)
          obtain ⟨⟨ext, he⟩, hinv'⟩ := hinv.push_step n _ _ R (by
            intro d hd
            cases d with
            | zero => exact absurd hd (Nat.not_lt_zero _)
            | succ d =>
              simp only [evalAt, hc, if_false, hargs]
              rw [hinv.sem l _ _ d hl ha (by omega), hinv.sem r _ _ d hr hb (by omega)])
            (by intro e; rw [e] at hargs; simp [Op.args] at hargs)
          refine ⟨(mkBinary F 64 lheap (heap n).op trees[l] trees[r]).2, ext, ?_, by rw [← he]; exact hinv'⟩
          have hstep := clauseStep_op F (heap n).op hop
            (u32le (UInt32.ofNat r) ++ (u32le (UInt32.ofNat l) ++ rest)) trees lheap log
          simp only [List.append_assoc, List.cons_append, List.nil_append]
          rw [hstep, clauseOp_binary F _ hargs l r hl32 hr32 _ _ rest trees lheap log ha hb]
          simp [bumpTree, he]
    | k + 3, hargs => exact absurd hargs (by cases (heap n).op <;> simp [Op.args])

/-- **clause list, rewrites allowed.** Whatever order `w` the nodes are offered in: if `serNodes`
    gets through and every offered node is a node of a finite term (`NodeSane`), the loader's clause
    loop reads the bytes back up to and including the END_OF_ITEM, prints nothing, and every entry of
    its table has the value of the stored node at the same stream position. -/
theorem clauseLoop_serNodes_sem (F : Folder) (I : Libfive.Interp UInt32 α) (env : Env α)
    (L : RewriteLaws F (interpOf I env)) (heap : NodeId → Node) (spos : NodeId → Option Nat) :
    ∀ (w : List NodeId) (ids ids' : List NodeId) (bytes rest : List Byte)
      (trees : List NodeId) (lheap : List Node) (log : List Err) (fuel : Nat),
    serNodes heap ids w = .ok (bytes, ids') →
    (∀ n ∈ w, NodeSane heap n) → ids'.length < 4294967296 →
    (∀ (p : Nat) (n : NodeId), ids'[p]? = some n → spos n = some p) →
    SemInv I env heap spos ids lheap trees → bytes.length + 1 ≤ fuel →
    ∃ (te : List NodeId) (le : List Node),
      clauseLoop F fuel ⟨⟨bytes ++ END_OF_ITEM :: rest, false⟩, trees, lheap, log⟩
        = .ok (false, ⟨⟨rest, false⟩, trees ++ te, lheap ++ le, log⟩) ∧
      SemInv I env heap spos ids' (lheap ++ le) (trees ++ te) := by
  intro w
  induction w with
  | nil =>
    intro ids ids' bytes rest trees lheap log fuel h _ _ _ hinv hf
    simp [serNodes] at h
    obtain ⟨hb, hi⟩ := h
    subst hb; subst hi
    cases fuel with
    | zero => simp at hf
    | succ f => exact ⟨[], [], by simpa using clauseLoop_end F f rest trees lheap log, by simpa using hinv⟩
  | cons n w ih =>
    intro ids ids' bytes rest trees lheap log fuel h hpl hsz hsp hinv hf
    simp only [serNodes] at h
    cases h1 : serNode heap ids n with
    | error e => simp [h1] at h
    | ok r =>
      obtain ⟨b1, ids1⟩ := r
      simp only [h1] at h
      cases h2 : serNodes heap ids1 w with
      | error e => simp [h2] at h
      | ok r2 =>
        obtain ⟨b2, ids2⟩ := r2
        simp only [h2] at h
        injection h with h; injection h with hb hi
        subst hb; subst hi
        have hpl' : ∀ m ∈ w, NodeSane heap m := fun m hm => hpl m (by simp [hm])
        rcases serNode_cases h1 with ⟨_, e1, e2⟩ | ⟨hn, e2, hlen⟩
        · subst e1; rw [e2] at h2
          simpa using ih ids ids2 b2 rest trees lheap log fuel h2 hpl' hsz hsp hinv (by simpa using hf)
        · have hsz1 : ids1.length < 4294967296 := Nat.lt_of_le_of_lt (serNodes_len w h2) hsz
          have hspn : spos n = some ids.length := by
            obtain ⟨e, he⟩ := serNodes_prefix w h2
            apply hsp
            rw [he, e2]; simp
          obtain ⟨x1, e1, hstep, hinv1⟩ := clauseStep_serNode_sem F I env L heap spos ids ids1 n b1
            (b2 ++ END_OF_ITEM :: rest) trees lheap log h1 hn (hpl n (by simp)) hsz1 hspn hinv
          cases fuel with
          | zero => simp at hf
          | succ f =>
            have hf' : b2.length + 1 ≤ f := by simp at hf; omega
            obtain ⟨t2, l2, hloop, hinv2⟩ := ih ids1 ids2 b2 rest (trees ++ [x1]) (lheap ++ e1) log f h2 hpl' hsz hsp hinv1 hf'
            refine ⟨[x1] ++ t2, e1 ++ l2, ?_, by simpa [List.append_assoc] using hinv2⟩
            simp only [List.append_assoc]
            rw [clauseLoop, hstep]
            simpa [List.append_assoc] using hloop


/-! ## packaging for `Expr.denote` -/

/-- some environment (the laws do not depend on it) -/
def envBad (I : Libfive.Interp UInt32 α) : Env α := ⟨I.bad, I.bad, I.bad, fun _ => I.bad⟩

/-- `RewriteLaws` for an interpretation of expressions: the induced heap interpretation
    `interpOf I env` has the constants and the unary/binary operations of `I` whatever `env` is -/
def FoldSound (F : Folder) (I : Libfive.Interp UInt32 α) : Prop := RewriteLaws F (interpOf I (envBad I))

theorem FoldSound.at {F : Folder} {I : Libfive.Interp UInt32 α} (h : FoldSound F I) (env : Env α) :
    RewriteLaws F (interpOf I env) := by
  cases h; constructor <;> assumption

theorem serNodes_nodup {heap : NodeId → Node} : ∀ (w : List NodeId) {ids ids' : List NodeId} {b : List Byte},
    serNodes heap ids w = .ok (b, ids') → ids.Nodup → ids'.Nodup := by
  intro w
  induction w with
  | nil => intro ids ids' b h hn; simp [serNodes] at h; rw [← h.2]; exact hn
  | cons n w ih =>
    intro ids ids' b h hn
    simp only [serNodes] at h
    cases h1 : serNode heap ids n with
    | error e => simp [h1] at h
    | ok r =>
      obtain ⟨b1, ids1⟩ := r
      simp only [h1] at h
      cases h2 : serNodes heap ids1 w with
      | error e => simp [h2] at h
      | ok r2 =>
        obtain ⟨b2, ids2⟩ := r2
        simp only [h2] at h
        injection h with h; injection h with _ hi
        subst hi
        apply ih h2
        rcases serNode_cases h1 with ⟨_, _, e1⟩ | ⟨hnot, e1, _⟩
        · rw [e1]; exact hn
        · rw [e1]
          exact List.nodup_append.mpr ⟨hn, by simp, by
            intro a ha c hc; simp at hc; subst hc; exact fun e => hnot (e ▸ ha)⟩

theorem posOf_of_nodup {ids : List NodeId} (hn : ids.Nodup) (p : Nat) (n : NodeId) (h : ids[p]? = some n) :
    posOf ids n = some p :=
  posOf_unique ids n p h (fun q hq => nodup_get_unique ids hn n p q h hq)


/-! ## shapes and archives, rewrites allowed -/

theorem hsp_prefix {spos : NodeId → Option Nat} {l e : List NodeId}
    (h : ∀ (p : Nat) (n : NodeId), (l ++ e)[p]? = some n → spos n = some p) :
    ∀ (p : Nat) (n : NodeId), l[p]? = some n → spos n = some p :=
  fun p n hn => h p n (get?_append_old l e n p hn)

theorem serShape_grow {heap : NodeId → Node} {fuel : Nat} {s : Shape} {ids ids' : List NodeId} {b : List Byte}
    (h : serShape heap fuel ids s = .ok (b, ids')) (hn : ids.Nodup) :
    (∃ e, ids' = ids ++ e) ∧ ids'.Nodup := by
  simp only [serShape] at h
  cases hpos : posOf ids s.tree with
  | some p =>
    simp only [hpos] at h
    injection h with h; injection h with _ hi
    subst hi; exact ⟨⟨[], by simp⟩, hn⟩
  | none =>
    simp only [hpos] at h
    cases hst : serTree heap fuel ids s.tree with
    | error e => simp [hst] at h
    | ok r =>
      obtain ⟨bs, ids1⟩ := r
      simp only [hst] at h
      injection h with h; injection h with _ hi
      subst hi
      have hst' : serNodes heap ids (walk heap fuel s.tree) = .ok (bs, ids1) := hst
      exact ⟨serNodes_prefix _ hst', serNodes_nodup _ hst' hn⟩

theorem serShapes_grow {heap : NodeId → Node} {fuel : Nat} : ∀ (shapes : List Shape) {ids ids' : List NodeId}
    {b : List Byte}, serShapes heap fuel ids shapes = .ok (b, ids') → ids.Nodup →
    (∃ e, ids' = ids ++ e) ∧ ids'.Nodup := by
  intro shapes
  induction shapes with
  | nil => intro ids ids' b h hn; simp [serShapes] at h; rw [← h.2]; exact ⟨⟨[], by simp⟩, hn⟩
  | cons s shapes ih =>
    intro ids ids' b h hn
    simp only [serShapes] at h
    cases h1 : serShape heap fuel ids s with
    | error e => simp [h1] at h
    | ok r =>
      obtain ⟨b1, ids1⟩ := r
      simp only [h1] at h
      cases h2 : serShapes heap fuel ids1 shapes with
      | error e => simp [h2] at h
      | ok r2 =>
        obtain ⟨b2, ids2⟩ := r2
        simp only [h2] at h
        injection h with h; injection h with _ hi
        subst hi
        obtain ⟨⟨e1, he1⟩, hn1⟩ := serShape_grow h1 hn
        obtain ⟨⟨e2, he2⟩, hn2⟩ := ih h2 hn1
        exact ⟨⟨e1 ++ e2, by rw [he2, he1, List.append_assoc]⟩, hn2⟩

/-- **variable section, rewrites allowed.** As `varLoop_serVars`; that no duplicate is reported now
    comes from the keys being free-variable nodes (each loaded as a node of its own). -/
theorem varLoop_serVars_sem {I : Libfive.Interp UInt32 α} {env : Env α} {heap : NodeId → Node}
    {spos : NodeId → Option Nat} {ids trees : List NodeId} {lheap : List Node}
    (hinv : SemInv I env heap spos ids lheap trees) (hsz : ids.length < 4294967296) :
    ∀ (vs acc : List (NodeId × List Byte)) (rest : List Byte) (log : List Err) (fuel : Nat),
    (vs.map (·.1)).Nodup → (∀ x ∈ vs, (heap x.1).op = Op.varFree) →
    (∀ (v : NodeId) (nm : List Byte) (p : Nat) (m : NodeId), (v, nm) ∈ vs → posOf ids v = some p →
        trees[p]? = some m → acc.any (·.1 == m) = false) →
    (serVars ids vs).length + 1 ≤ fuel →
    varLoop fuel ⟨⟨serVars ids vs ++ END_OF_ITEM :: rest, false⟩, trees, lheap, log⟩ acc
      = .ok (acc ++ varsOf ids trees vs, ⟨⟨rest, false⟩, trees, lheap, log⟩) := by
  intro vs
  induction vs with
  | nil =>
    intro acc rest log fuel _ _ _ hf
    cases fuel with
    | zero => simp at hf
    | succ f => simpa [serVars, varsOf] using varLoop_end f rest trees lheap log acc
  | cons x r ih =>
    obtain ⟨v, nm⟩ := x
    intro acc rest log fuel hnd hkeys hacc hf
    have hnd0 : (v :: r.map (·.1)).Nodup := hnd
    have hnd' := List.nodup_cons.mp hnd0
    have hkeys' : ∀ x ∈ r, (heap x.1).op = Op.varFree := fun x hx => hkeys x (by simp [hx])
    have hacc' : ∀ (v' : NodeId) (nm' : List Byte) (p : Nat) (m : NodeId), (v', nm') ∈ r → posOf ids v' = some p →
        trees[p]? = some m → acc.any (·.1 == m) = false :=
      fun v' nm' p m hm => hacc v' nm' p m (by simp [hm])
    cases hpos : posOf ids v with
    | none =>
      have := ih acc rest log fuel hnd'.2 hkeys' hacc' (by simpa [serVars, hpos] using hf)
      simpa [serVars, varsOf, hpos] using this
    | some p =>
      have hp1 : ids[p]? = some v := posOf_some hpos
      have hp2 : p < ids.length := posOf_lt hpos
      have hp3 : p < trees.length := by rw [hinv.len]; exact hp2
      have ha : trees[p]? = some trees[p] := by simp [hp3]
      have hlen := writeString_len nm
      cases fuel with
      | zero => simp at hf
      | succ f =>
        have hf' : (serVars ids r).length + 1 ≤ f := by
          simp [serVars, hpos, u32le] at hf; omega
        have hfresh := hacc v nm p trees[p] (by simp) hpos ha
        have hacc2 : ∀ (v' : NodeId) (nm' : List Byte) (p' : Nat) (m' : NodeId), (v', nm') ∈ r →
            posOf ids v' = some p' → trees[p']? = some m' →
            (acc ++ [(trees[p], nm)]).any (·.1 == m') = false := by
          intro v' nm' p' m' hm hp' hm'
          have h1 := hacc' v' nm' p' m' hm hp' hm'
          have hne : trees[p] ≠ m' := by
            intro e
            have hv' : ids[p']? = some v' := posOf_some hp'
            have k1 := hinv.varPos p v trees[p] hp1 ha (hkeys (v, nm) (by simp))
            have k2 := hinv.varPos p' v' m' hv' hm' (hkeys' (v', nm') hm)
            rw [e] at k1; rw [k1] at k2
            have : p = p' := Option.some.inj k2
            subst this
            rw [hp1] at hv'
            have : v = v' := Option.some.inj hv'
            exact hnd'.1 (by rw [this]; exact List.mem_map.mpr ⟨(v', nm'), hm, rfl⟩)
          simp [List.any_append, h1, hne]
        have step := varLoop_entry f nm p (by omega) trees[p] (serVars ids r ++ END_OF_ITEM :: rest)
          trees lheap log acc ha hfresh
        have := ih (acc ++ [(trees[p], nm)]) rest log f hnd'.2 hkeys' hacc2 hf'
        simp only [serVars, hpos, varsOf, ha, List.append_assoc] at *
        rw [step, this]
        simp

/-- hypotheses on one shape of the archive when load-time rewrites are allowed: the keys of the
    variable map are distinct free-variable nodes, every node of the walk is a node of a finite term,
    the walk ends in its root -/
def ShapeOKF (heap : NodeId → Node) (fuelW : Nat) (s : Shape) : Prop :=
  (s.vars.map (·.1)).Nodup ∧ (∀ x ∈ s.vars, (heap x.1).op = Op.varFree) ∧
  (∀ n ∈ walk heap fuelW s.tree, NodeSane heap n) ∧ RootLast heap fuelW s.tree

/-- **one shape, rewrites allowed.** -/
theorem readShape_serShape_sem (F : Folder) (I : Libfive.Interp UInt32 α) (env : Env α)
    (L : RewriteLaws F (interpOf I env)) (heap : NodeId → Node) (spos : NodeId → Option Nat) (fuelW : Nat)
    (s : Shape) (ids ids' : List NodeId) (bytes rest : List Byte)
    (trees : List NodeId) (lheap : List Node) (log : List Err)
    (hser : serShape heap fuelW ids s = .ok (bytes, ids')) (hok : ShapeOKF heap fuelW s)
    (hsz : ids'.length < 4294967296)
    (hsp : ∀ (p : Nat) (n : NodeId), ids'[p]? = some n → spos n = some p)
    (hinv : SemInv I env heap spos ids lheap trees) :
    ∃ (tag : Byte) (data : List Byte) (ie te : List NodeId) (le : List Node) (ls : LShape),
      bytes = tag :: data ∧ ids' = ids ++ ie ∧
      readShape F tag ⟨⟨data ++ rest, false⟩, trees, lheap, log⟩
        = .ok (ls, ⟨⟨rest, false⟩, trees ++ te, lheap ++ le, log⟩) ∧
      SemInv I env heap spos ids' (lheap ++ le) (trees ++ te) ∧ ShapeMatch ids' (trees ++ te) s ls := by
  obtain ⟨hv, hkeys, hpl, hrl⟩ := hok
  cases hpos : posOf ids s.tree with
  | some p =>
    simp only [serShape, hpos] at hser
    injection hser with hser; injection hser with hb hi
    subst hb; subst hi
    have hp1 : ids[p]? = some s.tree := posOf_some hpos
    have hp2 : p < ids.length := posOf_lt hpos
    have hp3 : p < trees.length := by rw [hinv.len]; exact hp2
    have ha : trees[p]? = some trees[p] := by simp [hp3]
    have hvars := varLoop_serVars_sem hinv hsz s.vars [] rest log
      ((u32le (UInt32.ofNat p) ++ (serVars ids s.vars ++ END_OF_ITEM :: rest)).length + 1) hv hkeys
      (by intros; rfl) (by simp; omega)
    refine ⟨TAG_REF, writeString s.name ++ (writeString s.doc ++ (u32le (UInt32.ofNat p) ++
        (serVars ids s.vars ++ [END_OF_ITEM]))),
      [], [], [], { tree := trees[p], name := s.name, doc := s.doc, vars := varsOf ids trees s.vars },
      by simp, by simp, ?_, by simpa using hinv, ?_⟩
    · have := readShape_ref F s.name s.doc p trees[p] (serVars ids s.vars ++ END_OF_ITEM :: rest) rest
        trees lheap log _ (by omega) ha (by simpa using hvars)
      simpa [List.append_assoc] using this
    · exact ⟨rfl, rfl, ids, trees, [], [], by simp, by simp, ⟨p, hp1, ha⟩, rfl⟩
  | none =>
    simp only [serShape, hpos] at hser
    cases hst : serTree heap fuelW ids s.tree with
    | error e => simp [hst] at hser
    | ok r =>
      obtain ⟨bs, ids1⟩ := r
      simp only [hst] at hser
      injection hser with hser; injection hser with hb hi
      subst hb; subst hi
      have hnotin : s.tree ∉ ids := by
        intro hin
        obtain ⟨q, hq⟩ := posOf_isSome hin
        rw [hq] at hpos; cases hpos
      obtain ⟨pre, hw, hpre⟩ := hrl
      have hst' : serNodes heap ids (walk heap fuelW s.tree) = .ok (bs, ids1) := hst
      obtain ⟨ie, hie⟩ := serNodes_prefix _ hst'
      have hlastId : ids1.getLast? = some s.tree := by
        rw [hw] at hst'; exact serNodes_last s.tree pre hst' hnotin hpre
      let vdata := serVars ids1 s.vars ++ END_OF_ITEM :: rest
      let data := bs ++ END_OF_ITEM :: vdata
      obtain ⟨te, le, hloop, hinv1⟩ := clauseLoop_serNodes_sem F I env L heap spos (walk heap fuelW s.tree)
        ids ids1 bs vdata trees lheap log (data.length + 1) hst' hpl hsz hsp hinv (by simp [data])
      have hlen : (trees ++ te).length = ids1.length := hinv1.len
      have hne : ids1 ≠ [] := by intro e; rw [e] at hlastId; simp at hlastId
      have hpos1 : 0 < ids1.length := List.length_pos_iff.mpr hne
      have hidx : ids1[ids1.length - 1]? = some s.tree := by
        rw [List.getLast?_eq_getElem?] at hlastId; exact hlastId
      have hlt : ids1.length - 1 < (trees ++ te).length := by omega
      obtain ⟨t, ht⟩ : ∃ t, (trees ++ te)[ids1.length - 1]? = some t := ⟨_, List.getElem?_eq_getElem hlt⟩
      have htl : (trees ++ te).getLast? = some t := by
        rw [List.getLast?_eq_getElem?, hlen]; exact ht
      have hvars := varLoop_serVars_sem hinv1 hsz s.vars [] rest log (data.length + 1) hv hkeys
        (by intros; rfl) (by simp [data, vdata]; omega)
      refine ⟨TAG_FULL, writeString s.name ++ (writeString s.doc ++ (bs ++ [END_OF_ITEM] ++
          (serVars ids1 s.vars ++ [END_OF_ITEM]))),
        ie, te, le, { tree := t, name := s.name, doc := s.doc, vars := varsOf ids1 (trees ++ te) s.vars },
        by simp, hie, ?_, hinv1, ?_⟩
      · have := readShape_full F s.name s.doc data vdata rest t
          trees (trees ++ te) lheap (lheap ++ le) log _ hloop htl (by simpa using hvars)
        simpa [data, vdata, List.append_assoc] using this
      · exact ⟨rfl, rfl, ids1, trees ++ te, [], [], by simp, by simp, ⟨ids1.length - 1, hidx, ht⟩, rfl⟩

/-- **shape lists, rewrites allowed.** `idsF` is the final id table of the whole archive (it names
    the free variables on the stored side). -/
theorem readShapes_serShapes_sem (F : Folder) (I : Libfive.Interp UInt32 α) (env : Env α)
    (L : RewriteLaws F (interpOf I env)) (heap : NodeId → Node) (spos : NodeId → Option Nat) (fuelW : Nat)
    (idsF : List NodeId) (hsp : ∀ (p : Nat) (n : NodeId), idsF[p]? = some n → spos n = some p) :
    ∀ (shapes : List Shape) (ids ids' : List NodeId) (bytes : List Byte)
      (trees : List NodeId) (lheap : List Node) (log : List Err) (fuel : Nat),
    serShapes heap fuelW ids shapes = .ok (bytes, ids') → ids.Nodup → (∃ e, idsF = ids' ++ e) →
    (∀ s ∈ shapes, ShapeOKF heap fuelW s) → ids'.length < 4294967296 →
    SemInv I env heap spos ids lheap trees → bytes.length + 1 ≤ fuel →
    ∃ (ie te : List NodeId) (le : List Node) (lshapes : List LShape),
      ids' = ids ++ ie ∧
      readShapes F fuel ⟨⟨bytes, false⟩, trees, lheap, log⟩
        = .ok (lshapes, ⟨⟨[], true⟩, trees ++ te, lheap ++ le, log⟩) ∧
      SemInv I env heap spos ids' (lheap ++ le) (trees ++ te) ∧
      AllMatch (ShapeMatch ids' (trees ++ te)) shapes lshapes := by
  intro shapes
  induction shapes with
  | nil =>
    intro ids ids' bytes trees lheap log fuel h _ _ _ _ hinv hf
    simp [serShapes] at h
    obtain ⟨hb, hi⟩ := h
    subst hb; subst hi
    cases fuel with
    | zero => simp at hf
    | succ f =>
      exact ⟨[], [], [], [], by simp, by simp [readShapes, IStream.get], by simpa using hinv, AllMatch.nil⟩
  | cons s shapes ih =>
    intro ids ids' bytes trees lheap log fuel h hnd hfin hok hsz hinv hf
    simp only [serShapes] at h
    cases h1 : serShape heap fuelW ids s with
    | error e => simp [h1] at h
    | ok r =>
      obtain ⟨b1, ids1⟩ := r
      simp only [h1] at h
      cases h2 : serShapes heap fuelW ids1 shapes with
      | error e => simp [h2] at h
      | ok r2 =>
        obtain ⟨b2, ids2⟩ := r2
        simp only [h2] at h
        injection h with h; injection h with hb hi
        subst hb; subst hi
        have hok1 := hok s (by simp)
        have hok' : ∀ s' ∈ shapes, ShapeOKF heap fuelW s' := fun s' hs' => hok s' (by simp [hs'])
        obtain ⟨_, hnd1⟩ := serShape_grow h1 hnd
        obtain ⟨⟨e2, he2⟩, _⟩ := serShapes_grow shapes h2 hnd1
        obtain ⟨eF, heF⟩ := hfin
        cases fuel with
        | zero => simp at hf
        | succ f =>
          have hsz1 : ids1.length < 4294967296 := by
            have : ids1.length ≤ ids2.length := by rw [he2]; simp
            omega
          have hsp1 : ∀ (p : Nat) (n : NodeId), ids1[p]? = some n → spos n = some p := by
            apply hsp_prefix (e := e2 ++ eF)
            rw [← List.append_assoc, ← he2, ← heF]; exact hsp
          obtain ⟨tag, data, ie1, te1, le1, ls, hb1, hie1, hread, hinv1, hm1⟩ :=
            readShape_serShape_sem F I env L heap spos fuelW s ids ids1 b1 b2 trees lheap log h1 hok1 hsz1 hsp1 hinv
          subst hb1
          have hf' : b2.length + 1 ≤ f := by simp at hf; omega
          obtain ⟨ie2, te2, le2, lss, hie2, hreads, hinv2, hm2⟩ :=
            ih ids1 ids2 b2 (trees ++ te1) (lheap ++ le1) log f h2 hnd1 ⟨eF, heF⟩ hok' hsz hinv1 hf'
          refine ⟨ie1 ++ ie2, te1 ++ te2, le1 ++ le2, ls :: lss, by rw [hie2, hie1]; simp, ?_,
            by simpa [List.append_assoc] using hinv2, ?_⟩
          · simp only [List.cons_append, readShapes, IStream.get, Bool.false_eq_true, if_false]
            rw [hread]
            simp only
            rw [hreads]
            simp [List.append_assoc]
          · refine AllMatch.cons ?_ (by simpa [List.append_assoc] using hm2)
            have := hm1.mono ie2 te2
            rw [← hie2] at this
            simpa [List.append_assoc] using this


/-! ## the laws hold in every field with C07's `Lawful` reading of the opcodes -/

/-- over a field, C07's `Lawful K I` (field arithmetic for `+ − × ÷ neg square`, idempotence of
    `abs`/`min`/`max`, `pow`/`nth-root` by one, exact folding, the constant tests mean what they say)
    gives every equation of the rewrite table, for any folder that folds like `K` and whose
    bit-pattern tests `isZero`/`isOne`/`isMinusOne` are covered by `K`'s -/
theorem FoldSound.of_lawful [Field α] {K : ConstOps UInt32} {I : Libfive.Interp UInt32 α} (L : Lawful K I)
    (F : Folder) (hf1 : ∀ op c, F.f1 op c = K.foldUn op c) (hf2 : ∀ op c d, F.f2 op c d = K.foldBin op c d)
    (hz : ∀ v, isZero v = true → K.isZero v = true) (h1 : ∀ v, isOne v = true → K.isOne v = true)
    (hm : ∀ v, isMinusOne v = true → K.isNegOne v = true) : FoldSound F I := by
  have c0 : ∀ v, isZero v = true → I.const v = 0 := fun v hv => L.isZero v (hz v hv)
  have c1 : ∀ v, isOne v = true → I.const v = 1 := fun v hv => L.isOne v (h1 v hv)
  have cm : ∀ v, isMinusOne v = true → I.const v = -1 := fun v hv => L.isNegOne v (hm v hv)
  unfold FoldSound
  constructor
  all_goals intros
  all_goals simp only [interpOf, L.add, L.sub, L.mul, L.div, L.neg, L.square]
  all_goals first
    | (rw [hf1]; exact L.foldUn _ _)
    | (rw [hf2]; exact L.foldBin _ _ _)
    | exact L.abs_abs _
    | exact L.min_self _
    | exact L.max_self _
    | exact L.pow_one _ _ (h1 _ ‹_›)
    | exact L.nthRoot_one _ _ (h1 _ ‹_›)
    | (rw [c0 _ ‹_›]; ring1)
    | (rw [c1 _ ‹_›]; ring1)
    | (rw [cm _ ‹_›]; ring1)
    | (have := L.abs_square ‹_›; simpa only [L.square] using this)
    | ring1
    | (have := L.abs_square ‹_›; simpa only [L.square] using this)

end Libfive.Serial
