/-
  Helper lemmas for C10 on uniform grids (LibfiveModel/ContourGrid.lean):
  finite facts about the regenerated 2D marching table (by `decide +kernel`) and the arithmetic
  lifting to w×h grids.  Core Lean only.
-/
import LibfiveModel.ContourGrid
import Generated.Marching2

namespace Libfive.ContourGrid
open Libfive.Marching2

/-- the tables of the running library (regenerated on every run) -/
def GT : Tables :=
  { v := Generated.Marching2.v, e := Generated.Marching2.e, p := Generated.Marching2.p,
    axisX := Generated.Marching2.axisX, axisY := Generated.Marching2.axisY }

/-! ## A. finite facts about the table -/

def npatches (T : Tables) (m : Nat) : Nat := (T.patches m).length

/-- a neighbour mask that agrees with `m` on the shared corners (the first one) -/
def nbOf (T : Tables) (σ : Nat × Nat) (m : Nat) : Nat :=
  ((List.range 16).find? fun nb => consistentSide T σ m nb).getD 0

/-- the call on side `σ = (axis, position of this cell in ts)` of a cell of mask `m` whose
    neighbour on that side has mask `nb` -/
def sideLoad (T : Tables) (σ : Nat × Nat) (m nb : Nat) : Option ((Nat × Int) × (Nat × Int)) :=
  if σ.2 = 0 then gload T σ.1 m nb else gload T σ.1 nb m

/-- does the call on side σ make patch `k` of this cell the source (`asSrc`) / target of a brane -/
def hasRole (T : Tables) (asSrc : Bool) (σ : Nat × Nat) (m nb k : Nat) : Bool :=
  match sideLoad T σ m nb with
  | none => false
  | some r => let e := if asSrc then r.1 else r.2; e.1 == σ.2 && e.2 == (k : Int)

/-- the side on which patch `k` of mask `m` is left (`asSrc = true`) / entered (`false`),
    found by running `load` against a canonical neighbour on each of the four sides -/
def roleSide (T : Tables) (asSrc : Bool) (m k : Nat) : Option (Nat × Nat) :=
  (sides T).find? fun σ => hasRole T asSrc σ m (nbOf T σ m) k

/-- the cell's own edge on side σ has a sign change -/
def edgeChanges (T : Tables) (σ : Nat × Nat) (m : Nat) : Bool :=
  let perp := (T.axisX ||| T.axisY) ^^^ σ.1
  let c := if σ.2 = 0 then perp else 0
  filled m c != filled m (c ||| σ.1)

/-- **table fact 1**: every brane pushed for a consistent pair of masks goes from a valid patch of
    one cell to a valid patch of the OTHER cell, and the side of the call is the (unique) exit side
    of the source patch and the entry side of the target patch. -/
theorem load_role :
    ([GT.axisX, GT.axisY].all fun A => (List.range 16).all fun m0 => (List.range 16).all fun m1 =>
      !consistent GT A m0 m1 ||
      match gload GT A m0 m1 with
      | none => true
      | some (src, dst) =>
        let sel := fun (c : Nat) => if c = 0 then m0 else m1
        src.1 + dst.1 == 1 && decide (0 ≤ src.2) && decide (0 ≤ dst.2) &&
        decide (src.2.toNat < npatches GT (sel src.1)) &&
        decide (dst.2.toNat < npatches GT (sel dst.1)) &&
        roleSide GT true (sel src.1) src.2.toNat == some (A, src.1) &&
        roleSide GT false (sel dst.1) dst.2.toNat == some (A, dst.1)) = true := by
  decide +kernel

/-- **table fact 2**: every patch of every mask has an exit side and an entry side; the cell's own
    edge on that side has a sign change, and against EVERY consistent neighbour mask the call on
    that side pushes a brane with this patch as source resp. target. -/
theorem role_exists :
    ([true, false].all fun asSrc => (List.range 16).all fun m =>
      (List.range (npatches GT m)).all fun k =>
      match roleSide GT asSrc m k with
      | none => false
      | some σ =>
        (sides GT).contains σ && edgeChanges GT σ m &&
        (List.range 16).all fun nb => !consistentSide GT σ m nb || hasRole GT asSrc σ m nb k) = true := by
  decide +kernel

/-- at most two patches per cell -/
theorem npatches_le : ((List.range 16).all fun m => decide (npatches GT m ≤ 2)) = true := by
  decide +kernel

/-! ### ∀-forms of the table facts -/

theorem axis_mem {A : Nat} (hA : A = GT.axisX ∨ A = GT.axisY) : A ∈ [GT.axisX, GT.axisY] := by
  rcases hA with rfl | rfl <;> simp

theorem load_role' {A m0 m1 : Nat} (hA : A = GT.axisX ∨ A = GT.axisY) (h0 : m0 < 16) (h1 : m1 < 16)
    (hc : consistent GT A m0 m1 = true) {src dst : Nat × Int}
    (hl : gload GT A m0 m1 = some (src, dst)) :
    src.1 + dst.1 = 1 ∧ 0 ≤ src.2 ∧ 0 ≤ dst.2 ∧
    src.2.toNat < npatches GT (if src.1 = 0 then m0 else m1) ∧
    dst.2.toNat < npatches GT (if dst.1 = 0 then m0 else m1) ∧
    roleSide GT true (if src.1 = 0 then m0 else m1) src.2.toNat = some (A, src.1) ∧
    roleSide GT false (if dst.1 = 0 then m0 else m1) dst.2.toNat = some (A, dst.1) := by
  have h := load_role
  rw [List.all_eq_true] at h
  have h := h A (axis_mem hA)
  rw [List.all_eq_true] at h
  have h := h m0 (List.mem_range.2 h0)
  rw [List.all_eq_true] at h
  have h := h m1 (List.mem_range.2 h1)
  simp only [hc, hl, Bool.not_true, Bool.false_or, Bool.and_eq_true, beq_iff_eq,
    decide_eq_true_eq] at h
  obtain ⟨⟨⟨⟨⟨⟨a, b⟩, c⟩, d⟩, e⟩, f⟩, g⟩ := h
  exact ⟨a, b, c, d, e, f, g⟩

theorem role_exists' (asSrc : Bool) {m k : Nat} (hm : m < 16) (hk : k < npatches GT m) :
    ∃ σ, roleSide GT asSrc m k = some σ ∧ σ ∈ sides GT ∧ edgeChanges GT σ m = true ∧
      ∀ nb, nb < 16 → consistentSide GT σ m nb = true → hasRole GT asSrc σ m nb k = true := by
  have h := role_exists
  rw [List.all_eq_true] at h
  have h := h asSrc (by cases asSrc <;> simp)
  rw [List.all_eq_true] at h
  have h := h m (List.mem_range.2 hm)
  rw [List.all_eq_true] at h
  have h := h k (List.mem_range.2 hk)
  cases hr : roleSide GT asSrc m k with
  | none => simp [hr] at h
  | some σ =>
    simp only [hr, Bool.and_eq_true, List.all_eq_true, List.mem_range, Bool.or_eq_true,
      Bool.not_eq_true', List.contains_iff_mem] at h
    refine ⟨σ, rfl, h.1.1, h.1.2, fun nb hnb hc => ?_⟩
    rcases h.2 nb hnb with h' | h'
    · rw [hc] at h'; cases h'
    · exact h'

theorem npatches_le' {m : Nat} (hm : m < 16) : npatches GT m ≤ 2 := by
  have h := npatches_le
  rw [List.all_eq_true] at h
  simpa using h m (List.mem_range.2 hm)

/-! ## B. lifting to the grid -/

theorem mask4_lt : ∀ a b c d : Bool, mask4 GT a b c d < 16 := by decide

theorem cellMask_lt (s : Nat → Nat → Bool) (i j : Nat) : cellMask GT s i j < 16 := mask4_lt _ _ _ _

/-- two cells side by side share the corners X / 0 and X|Y / Y -/
theorem mask4_consistent_Y : ∀ a b c d e f : Bool,
    consistent GT GT.axisY (mask4 GT a b c d) (mask4 GT b e d f) = true := by decide

/-- two stacked cells share the corners Y / 0 and X|Y / X -/
theorem mask4_consistent_X : ∀ a b c d e f : Bool,
    consistent GT GT.axisX (mask4 GT a b c d) (mask4 GT c d e f) = true := by decide

theorem cellMask_consistent_Y (s : Nat → Nat → Bool) (i j : Nat) :
    consistent GT GT.axisY (cellMask GT s i j) (cellMask GT s (i + 1) j) = true :=
  mask4_consistent_Y _ _ _ _ _ _

theorem cellMask_consistent_X (s : Nat → Nat → Bool) (i j : Nat) :
    consistent GT GT.axisX (cellMask GT s i j) (cellMask GT s i (j + 1)) = true :=
  mask4_consistent_X _ _ _ _ _ _

theorem mask4_edgeChanges : ∀ a b c d : Bool,
    edgeChanges GT (GT.axisY, 0) (mask4 GT a b c d) = (b != d) ∧
    edgeChanges GT (GT.axisY, 1) (mask4 GT a b c d) = (a != c) ∧
    edgeChanges GT (GT.axisX, 0) (mask4 GT a b c d) = (c != d) ∧
    edgeChanges GT (GT.axisX, 1) (mask4 GT a b c d) = (a != b) := by decide

theorem axes_ne : GT.axisY ≠ GT.axisX := by decide

/-- the call of the dual walk on side `σ` of `cell` -/
def sideCall (T : Tables) (cell : Cell) (σ : Nat × Nat) : Call :=
  let dx := if σ.1 = T.axisY then 1 else 0
  let dy := if σ.1 = T.axisY then 0 else 1
  if σ.2 = 0 then ⟨σ.1, cell, (cell.1 + dx, cell.2 + dy)⟩
  else ⟨σ.1, (cell.1 - dx, cell.2 - dy), cell⟩

theorem mem_calls {w h : Nat} {c : Call} :
    c ∈ calls GT w h ↔
      (∃ i j, i + 1 < w ∧ j < h ∧ c = ⟨GT.axisY, (i, j), (i + 1, j)⟩) ∨
      (∃ i j, i < w ∧ j + 1 < h ∧ c = ⟨GT.axisX, (i, j), (i, j + 1)⟩) := by
  simp only [calls, List.mem_append, List.mem_flatMap, List.mem_map, List.mem_range]
  constructor
  · rintro (⟨j, hj, i, hi, rfl⟩ | ⟨j, hj, i, hi, rfl⟩)
    · exact Or.inl ⟨i, j, by omega, hj, rfl⟩
    · exact Or.inr ⟨i, j, hi, by omega, rfl⟩
  · rintro (⟨i, j, hi, hj, rfl⟩ | ⟨i, j, hi, hj, rfl⟩)
    · exact Or.inl ⟨j, hj, i, by omega, rfl⟩
    · exact Or.inr ⟨j, by omega, i, hi, rfl⟩

theorem nodup_calls (w h : Nat) : (calls GT w h).Nodup := by
  unfold calls
  rw [List.nodup_append]
  refine ⟨?_, ?_, ?_⟩
  · rw [List.Nodup, List.pairwise_flatMap]
    refine ⟨fun j _ => ?_, ?_⟩
    · exact (List.pairwise_map).2 (List.nodup_range.imp fun {a b} hab heq => hab (by
        injection heq with _ h1 _; injection h1))
    · refine List.nodup_range.imp fun {a b} hab x hx y hy heq => hab ?_
      simp only [List.mem_map, List.mem_range] at hx hy
      obtain ⟨_, _, rfl⟩ := hx
      obtain ⟨_, _, rfl⟩ := hy
      injection heq with _ h1 _; injection h1
  · rw [List.Nodup, List.pairwise_flatMap]
    refine ⟨fun j _ => ?_, ?_⟩
    · exact (List.pairwise_map).2 (List.nodup_range.imp fun {a b} hab heq => hab (by
        injection heq with _ h1 _; injection h1))
    · refine List.nodup_range.imp fun {a b} hab x hx y hy heq => hab ?_
      simp only [List.mem_map, List.mem_range] at hx hy
      obtain ⟨_, _, rfl⟩ := hx
      obtain ⟨_, _, rfl⟩ := hy
      injection heq with _ h1 _; injection h1
  · intro a ha b hb heq
    simp only [List.mem_flatMap, List.mem_map, List.mem_range] at ha hb
    obtain ⟨_, _, _, _, rfl⟩ := ha
    obtain ⟨_, _, _, _, rfl⟩ := hb
    injection heq with h0 _ _
    exact axes_ne h0

/-- what the lifting needs to know about a call of the walk -/
structure GoodCall (w h : Nat) (s : Nat → Nat → Bool) (c : Call) : Prop where
  hA : c.axis = GT.axisX ∨ c.axis = GT.axisY
  ha : c.a.1 < w ∧ c.a.2 < h
  hb : c.b.1 < w ∧ c.b.2 < h
  h0 : sideCall GT c.a (c.axis, 0) = c
  h1 : sideCall GT c.b (c.axis, 1) = c
  hc : consistent GT c.axis (cellMask GT s c.a.1 c.a.2) (cellMask GT s c.b.1 c.b.2) = true

theorem goodCall_of_mem {w h : Nat} (s : Nat → Nat → Bool) {c : Call} (hc : c ∈ calls GT w h) :
    GoodCall w h s c := by
  rcases mem_calls.1 hc with ⟨i, j, hi, hj, rfl⟩ | ⟨i, j, hi, hj, rfl⟩
  · exact ⟨Or.inr rfl, ⟨by simp; omega, hj⟩, ⟨hi, hj⟩, by simp [sideCall], by simp [sideCall],
      cellMask_consistent_Y _ _ _⟩
  · refine ⟨Or.inl rfl, ⟨hi, by simp; omega⟩, ⟨hi, hj⟩, ?_, ?_, cellMask_consistent_X _ _ _⟩
    · simp [sideCall, axes_ne.symm]
    · simp [sideCall, axes_ne.symm]

/-- the call on which vertex `u` is the source (`asSrc`) / target of a brane, per the table -/
def roleCall (asSrc : Bool) (s : Nat → Nat → Bool) (u : Vtx) : Option Call :=
  (roleSide GT asSrc (cellMask GT s u.1.1 u.1.2) u.2).map (sideCall GT u.1)

/-- **lifting 1**: a brane pushed by a call of the walk joins two existing vertices, and the call
    is determined by the source vertex alone, and by the target vertex alone. -/
theorem emit_role {w h : Nat} {s : Nat → Nat → Bool} {c : Call} (g : GoodCall w h s c)
    {u v : Vtx} (he : emit GT s c = some (u, v)) :
    isVertex GT w h s u ∧ isVertex GT w h s v ∧
    roleCall true s u = some c ∧ roleCall false s v = some c := by
  unfold emit at he
  cases hg : gload GT c.axis (cellMask GT s c.a.1 c.a.2) (cellMask GT s c.b.1 c.b.2) with
  | none => simp [hg] at he
  | some r =>
    obtain ⟨src, dst⟩ := r
    rw [hg] at he
    simp only [Option.map_some, Option.some.injEq, Prod.mk.injEq] at he
    obtain ⟨rfl, rfl⟩ := he
    obtain ⟨hsum, _, _, hk0, hk1, hr0, hr1⟩ :=
      load_role' g.hA (cellMask_lt _ _ _) (cellMask_lt _ _ _) g.hc hg
    have hcases : (src.1 = 0 ∧ dst.1 = 1) ∨ (src.1 = 1 ∧ dst.1 = 0) := by omega
    rcases hcases with ⟨e0, e1⟩ | ⟨e0, e1⟩
    · simp only [e0, e1, if_true, if_false, Nat.one_ne_zero] at hk0 hk1 hr0 hr1 ⊢
      refine ⟨⟨g.ha.1, g.ha.2, hk0⟩, ⟨g.hb.1, g.hb.2, hk1⟩, ?_, ?_⟩
      · simp only [roleCall, hr0, Option.map_some, g.h0]
      · simp only [roleCall, hr1, Option.map_some, g.h1]
    · simp only [e0, e1, if_true, if_false, Nat.one_ne_zero] at hk0 hk1 hr0 hr1 ⊢
      refine ⟨⟨g.hb.1, g.hb.2, hk0⟩, ⟨g.ha.1, g.ha.2, hk1⟩, ?_, ?_⟩
      · simp only [roleCall, hr0, Option.map_some, g.h1]
      · simp only [roleCall, hr1, Option.map_some, g.h0]

theorem emit_of_hasRole {s : Nat → Nat → Bool} {c : Call} (asSrc : Bool) (pos : Nat)
    (hpos : pos = 0 ∨ pos = 1) (k : Nat)
    (hr : hasRole GT asSrc (c.axis, pos)
      (if pos = 0 then cellMask GT s c.a.1 c.a.2 else cellMask GT s c.b.1 c.b.2)
      (if pos = 0 then cellMask GT s c.b.1 c.b.2 else cellMask GT s c.a.1 c.a.2) k = true) :
    ∃ e, emit GT s c = some e ∧ (if asSrc then e.1 else e.2) = (if pos = 0 then c.a else c.b, k) := by
  have hsl : sideLoad GT (c.axis, pos)
      (if pos = 0 then cellMask GT s c.a.1 c.a.2 else cellMask GT s c.b.1 c.b.2)
      (if pos = 0 then cellMask GT s c.b.1 c.b.2 else cellMask GT s c.a.1 c.a.2) =
      gload GT c.axis (cellMask GT s c.a.1 c.a.2) (cellMask GT s c.b.1 c.b.2) := by
    rcases hpos with rfl | rfl <;> simp [sideLoad]
  unfold hasRole at hr
  rw [hsl] at hr
  unfold emit
  cases hg : gload GT c.axis (cellMask GT s c.a.1 c.a.2) (cellMask GT s c.b.1 c.b.2) with
  | none => simp [hg] at hr
  | some r =>
    rw [hg] at hr
    simp only [Bool.and_eq_true, beq_iff_eq] at hr
    refine ⟨_, rfl, ?_⟩
    cases asSrc
    · simp only [Bool.false_eq_true, if_false] at hr ⊢
      obtain ⟨h1, h2⟩ := hr
      rw [h1, h2]; simp
    · simp only [if_true] at hr ⊢
      obtain ⟨h1, h2⟩ := hr
      rw [h1, h2]; simp

theorem ne_of_bne_true {a b : Bool} (h : (a != b) = true) : a ≠ b := by
  cases a <;> cases b <;> simp_all

/-- **lifting 2**: every existing vertex is the source of a pushed brane and the target of one:
    its exit (entry) side has a sign change, so by the boundary hypothesis the neighbour on that
    side exists; both cells are then AMBIGUOUS and the call on the shared edge pushes the brane. -/
theorem exists_emit {w h : Nat} {s : Nat → Nat → Bool} (hb : BoundaryUniform w h s) (asSrc : Bool)
    {u : Vtx} (hu : isVertex GT w h s u) :
    ∃ c ∈ calls GT w h, ∃ e, emit GT s c = some e ∧ (if asSrc then e.1 else e.2) = u := by
  obtain ⟨⟨i, j⟩, k⟩ := u
  obtain ⟨hi, hj, hk⟩ := hu
  simp only at hi hj hk
  obtain ⟨σ, _, hσ, hedge, hall⟩ := role_exists' asSrc (cellMask_lt s i j) hk
  have hE := mask4_edgeChanges (s i j) (s (i + 1) j) (s i (j + 1)) (s (i + 1) (j + 1))
  simp only [sides, List.mem_cons, List.not_mem_nil, or_false] at hσ
  rcases hσ with rfl | rfl | rfl | rfl
  · -- right side: neighbour (i+1, j)
    have hne := ne_of_bne_true ((hE.1).symm.trans hedge |>.symm ▸ rfl : (s (i + 1) j != s (i + 1) (j + 1)) = true)
    have hw : i + 1 < w := by
      apply Nat.lt_of_le_of_ne hi
      intro heq
      exact hne ((hb (i + 1) j (by omega) (by omega) (Or.inr (Or.inl heq))).trans
        (hb (i + 1) (j + 1) (by omega) (by omega) (Or.inr (Or.inl heq))).symm)
    refine ⟨⟨GT.axisY, (i, j), (i + 1, j)⟩, mem_calls.2 (Or.inl ⟨i, j, hw, hj, rfl⟩), ?_⟩
    have := hall (cellMask GT s (i + 1) j) (cellMask_lt _ _ _)
      (by simp [consistentSide, cellMask_consistent_Y])
    exact emit_of_hasRole (c := ⟨GT.axisY, (i, j), (i + 1, j)⟩) asSrc 0 (Or.inl rfl) k (by simpa using this)
  · -- left side: neighbour (i-1, j)
    have hne := ne_of_bne_true ((hE.2.1).symm.trans hedge |>.symm ▸ rfl : (s i j != s i (j + 1)) = true)
    have hw : 0 < i := by
      apply Nat.pos_of_ne_zero
      intro heq
      subst heq
      exact hne ((hb 0 j (by omega) (by omega) (Or.inl rfl)).trans
        (hb 0 (j + 1) (by omega) (by omega) (Or.inl rfl)).symm)
    obtain ⟨i', rfl⟩ : ∃ i', i = i' + 1 := ⟨i - 1, by omega⟩
    refine ⟨⟨GT.axisY, (i', j), (i' + 1, j)⟩, mem_calls.2 (Or.inl ⟨i', j, hi, hj, rfl⟩), ?_⟩
    have := hall (cellMask GT s i' j) (cellMask_lt _ _ _)
      (by simp [consistentSide, cellMask_consistent_Y])
    exact emit_of_hasRole (c := ⟨GT.axisY, (i', j), (i' + 1, j)⟩) asSrc 1 (Or.inr rfl) k (by simpa using this)
  · -- upper side: neighbour (i, j+1)
    have hne := ne_of_bne_true ((hE.2.2.1).symm.trans hedge |>.symm ▸ rfl : (s i (j + 1) != s (i + 1) (j + 1)) = true)
    have hw : j + 1 < h := by
      apply Nat.lt_of_le_of_ne hj
      intro heq
      exact hne ((hb i (j + 1) (by omega) (by omega) (Or.inr (Or.inr (Or.inr heq)))).trans
        (hb (i + 1) (j + 1) (by omega) (by omega) (Or.inr (Or.inr (Or.inr heq)))).symm)
    refine ⟨⟨GT.axisX, (i, j), (i, j + 1)⟩, mem_calls.2 (Or.inr ⟨i, j, hi, hw, rfl⟩), ?_⟩
    have := hall (cellMask GT s i (j + 1)) (cellMask_lt _ _ _)
      (by simp [consistentSide, cellMask_consistent_X])
    exact emit_of_hasRole (c := ⟨GT.axisX, (i, j), (i, j + 1)⟩) asSrc 0 (Or.inl rfl) k (by simpa using this)
  · -- lower side: neighbour (i, j-1)
    have hne := ne_of_bne_true ((hE.2.2.2).symm.trans hedge |>.symm ▸ rfl : (s i j != s (i + 1) j) = true)
    have hw : 0 < j := by
      apply Nat.pos_of_ne_zero
      intro heq
      subst heq
      exact hne ((hb i 0 (by omega) (by omega) (Or.inr (Or.inr (Or.inl rfl)))).trans
        (hb (i + 1) 0 (by omega) (by omega) (Or.inr (Or.inr (Or.inl rfl)))).symm)
    obtain ⟨j', rfl⟩ : ∃ j', j = j' + 1 := ⟨j - 1, by omega⟩
    refine ⟨⟨GT.axisX, (i, j'), (i, j' + 1)⟩, mem_calls.2 (Or.inr ⟨i, j', hi, hj, rfl⟩), ?_⟩
    have := hall (cellMask GT s i j') (cellMask_lt _ _ _)
      (by simp [consistentSide, cellMask_consistent_X])
    exact emit_of_hasRole (c := ⟨GT.axisX, (i, j'), (i, j' + 1)⟩) asSrc 1 (Or.inr rfl) k (by simpa using this)

/-! ## C. in-degree = out-degree = 1 -/

section assembly
variable {w h : Nat} {s : Nat → Nat → Bool} {cs : List Call}

/-- no vertex starts two branes, no vertex ends two branes -/
theorem nodup_ends (hg : ∀ c ∈ cs, GoodCall w h s c) (hnd : cs.Nodup) :
    ((segsOf GT s cs).map Prod.fst).Nodup ∧ ((segsOf GT s cs).map Prod.snd).Nodup := by
  unfold segsOf
  constructor
  · rw [List.Nodup, List.pairwise_map, List.pairwise_filterMap]
    refine hnd.imp_of_mem (fun {a b} ha hb hab e he e' he' heq => hab ?_)
    have h1 := (emit_role (hg a ha) (u := e.1) (v := e.2) he).2.2.1
    have h2 := (emit_role (hg b hb) (u := e'.1) (v := e'.2) he').2.2.1
    rw [heq, h2] at h1
    exact (Option.some.inj h1).symm
  · rw [List.Nodup, List.pairwise_map, List.pairwise_filterMap]
    refine hnd.imp_of_mem (fun {a b} ha hb hab e he e' he' heq => hab ?_)
    have h1 := (emit_role (hg a ha) (u := e.1) (v := e.2) he).2.2.2
    have h2 := (emit_role (hg b hb) (u := e'.1) (v := e'.2) he').2.2.2
    rw [heq, h2] at h1
    exact (Option.some.inj h1).symm

theorem ends_are_vertices (hg : ∀ c ∈ cs, GoodCall w h s c) {e : Vtx × Vtx}
    (he : e ∈ segsOf GT s cs) : isVertex GT w h s e.1 ∧ isVertex GT w h s e.2 := by
  obtain ⟨c, hc, hec⟩ := List.mem_filterMap.1 he
  have := emit_role (hg c hc) (u := e.1) (v := e.2) hec
  exact ⟨this.1, this.2.1⟩

theorem mem_srcs (hb : BoundaryUniform w h s) (hcs : ∀ c, c ∈ cs ↔ c ∈ calls GT w h) (u : Vtx) :
    u ∈ (segsOf GT s cs).map Prod.fst ↔ isVertex GT w h s u := by
  constructor
  · intro hu
    obtain ⟨e, he, rfl⟩ := List.mem_map.1 hu
    exact (ends_are_vertices (fun c hc => goodCall_of_mem s ((hcs c).1 hc)) he).1
  · intro hu
    obtain ⟨c, hc, e, he, heq⟩ := exists_emit hb true hu
    exact List.mem_map.2 ⟨e, List.mem_filterMap.2 ⟨c, (hcs c).2 hc, he⟩, by simpa using heq⟩

theorem mem_dsts (hb : BoundaryUniform w h s) (hcs : ∀ c, c ∈ cs ↔ c ∈ calls GT w h) (u : Vtx) :
    u ∈ (segsOf GT s cs).map Prod.snd ↔ isVertex GT w h s u := by
  constructor
  · intro hu
    obtain ⟨e, he, rfl⟩ := List.mem_map.1 hu
    exact (ends_are_vertices (fun c hc => goodCall_of_mem s ((hcs c).1 hc)) he).2
  · intro hu
    obtain ⟨c, hc, e, he, heq⟩ := exists_emit hb false hu
    exact List.mem_map.2 ⟨e, List.mem_filterMap.2 ⟨c, (hcs c).2 hc, he⟩, by simpa using heq⟩

theorem count_one_of_nodup_mem {l : List Vtx} (hnd : l.Nodup) {v : Vtx} (hv : v ∈ l) :
    l.count v = 1 := by
  have h1 := List.nodup_iff_count.1 hnd v
  have h2 := List.count_pos_iff.2 hv
  omega

/-- the degree statement for any duplicate-free enumeration of the grid's calls -/
theorem degree_one_of_calls (hb : BoundaryUniform w h s) (hnd : cs.Nodup)
    (hcs : ∀ c, c ∈ cs ↔ c ∈ calls GT w h) :
    (∀ v, isVertex GT w h s v →
      ((segsOf GT s cs).map Prod.fst).count v = 1 ∧ ((segsOf GT s cs).map Prod.snd).count v = 1) ∧
    (∀ e ∈ segsOf GT s cs, isVertex GT w h s e.1 ∧ isVertex GT w h s e.2) := by
  have hg : ∀ c ∈ cs, GoodCall w h s c := fun c hc => goodCall_of_mem s ((hcs c).1 hc)
  obtain ⟨n1, n2⟩ := nodup_ends hg hnd
  exact ⟨fun v hv => ⟨count_one_of_nodup_mem n1 ((mem_srcs hb hcs v).2 hv),
    count_one_of_nodup_mem n2 ((mem_dsts hb hcs v).2 hv)⟩, fun e he => ends_are_vertices hg he⟩

/-! ### vertex numbering -/

theorem vid_inj {u v : Vtx} (hu : u.1.1 < w ∧ u.2 < 2) (hv : v.1.1 < w ∧ v.2 < 2)
    (h : vid w u = vid w v) : u = v := by
  obtain ⟨⟨i, j⟩, k⟩ := u
  obtain ⟨⟨i', j'⟩, k'⟩ := v
  simp only [vid] at h hu hv
  have hk : k = k' := by omega
  have hs : j * w + i = j' * w + i' := by omega
  have hj : j = j' := by
    rcases Nat.lt_trichotomy j j' with hlt | heq | hgt
    · have := Nat.mul_le_mul_right w (Nat.succ_le_of_lt hlt)
      rw [Nat.succ_mul] at this
      omega
    · exact heq
    · have := Nat.mul_le_mul_right w (Nat.succ_le_of_lt hgt)
      rw [Nat.succ_mul] at this
      omega
  subst hj hk
  have : i = i' := by omega
  subst this
  rfl

theorem isVertex_bounds {v : Vtx} (hv : isVertex GT w h s v) : v.1.1 < w ∧ v.2 < 2 :=
  ⟨hv.1, Nat.lt_of_lt_of_le hv.2.2 (npatches_le' (cellMask_lt _ _ _))⟩

theorem nodup_map_vid {l : List Vtx} (hl : ∀ v ∈ l, isVertex GT w h s v) (hnd : l.Nodup) :
    (l.map (vid w)).Nodup := by
  rw [List.Nodup, List.pairwise_map]
  exact hnd.imp_of_mem fun {a b} ha hb hab heq =>
    hab (vid_inj (isVertex_bounds (hl a ha)) (isVertex_bounds (hl b hb)) heq)

/-- the three hypotheses of `collect_closed` for the grid's segment list -/
theorem collect_hyps_of_calls (hb : BoundaryUniform w h s) (hnd : cs.Nodup)
    (hcs : ∀ c, c ∈ cs ↔ c ∈ calls GT w h) :
    ((toNatSegs w (segsOf GT s cs)).map Prod.fst).Nodup ∧
    ((toNatSegs w (segsOf GT s cs)).map Prod.snd).Nodup ∧
    ∀ n, n ∈ (toNatSegs w (segsOf GT s cs)).map Prod.fst ↔
         n ∈ (toNatSegs w (segsOf GT s cs)).map Prod.snd := by
  have hg : ∀ c ∈ cs, GoodCall w h s c := fun c hc => goodCall_of_mem s ((hcs c).1 hc)
  obtain ⟨n1, n2⟩ := nodup_ends hg hnd
  have e1 : (toNatSegs w (segsOf GT s cs)).map Prod.fst = ((segsOf GT s cs).map Prod.fst).map (vid w) := by
    simp [toNatSegs, List.map_map, Function.comp_def]
  have e2 : (toNatSegs w (segsOf GT s cs)).map Prod.snd = ((segsOf GT s cs).map Prod.snd).map (vid w) := by
    simp [toNatSegs, List.map_map, Function.comp_def]
  rw [e1, e2]
  refine ⟨nodup_map_vid (fun v hv => (mem_srcs hb hcs v).1 hv) n1,
    nodup_map_vid (fun v hv => (mem_dsts hb hcs v).1 hv) n2, fun n => ?_⟩
  constructor
  · intro hn
    obtain ⟨v, hv, rfl⟩ := List.mem_map.1 hn
    exact List.mem_map.2 ⟨v, (mem_dsts hb hcs v).2 ((mem_srcs hb hcs v).1 hv), rfl⟩
  · intro hn
    obtain ⟨v, hv, rfl⟩ := List.mem_map.1 hn
    exact List.mem_map.2 ⟨v, (mem_srcs hb hcs v).2 ((mem_dsts hb hcs v).1 hv), rfl⟩

end assembly

/-! ## D. the recursive dual walk on the complete quadtree visits every adjacent pair once -/

/-- `c` is a call `edge2<Y>({(i,j), (i+1,j)})` -/
def isY (c : Call) : Prop := c.axis = GT.axisY ∧ c.b = (c.a.1 + 1, c.a.2)
/-- `c` is a call `edge2<X>({(i,j), (i,j+1)})` -/
def isX (c : Call) : Prop := c.axis = GT.axisX ∧ c.b = (c.a.1, c.a.2 + 1)

theorem not_isY_isX {c : Call} (hy : isY c) (hx : isX c) : False :=
  axes_ne (hy.1.symm.trans hx.1)

/-- the calls between cells of the block [x, x+n) × [y, y+n) -/
def inBlock (x y n : Nat) (c : Call) : Prop :=
  (isY c ∧ x ≤ c.a.1 ∧ c.a.1 + 1 < x + n ∧ y ≤ c.a.2 ∧ c.a.2 < y + n) ∨
  (isX c ∧ x ≤ c.a.1 ∧ c.a.1 < x + n ∧ y ≤ c.a.2 ∧ c.a.2 + 1 < y + n)

theorem mem_edgeY {d x y : Nat} (hx : 1 ≤ x) {c : Call} :
    c ∈ edgeY GT d x y ↔ isY c ∧ c.a.1 + 1 = x ∧ y ≤ c.a.2 ∧ c.a.2 < y + 2 ^ d := by
  induction d generalizing y with
  | zero =>
    obtain ⟨ax, ⟨a1, a2⟩, ⟨b1, b2⟩⟩ := c
    simp only [edgeY, List.mem_singleton, Call.mk.injEq, Prod.mk.injEq, isY]
    constructor
    · rintro ⟨rfl, ⟨rfl, rfl⟩, rfl, rfl⟩
      exact ⟨⟨rfl, by omega, rfl⟩, by omega, by omega, by omega⟩
    · rintro ⟨⟨rfl, rfl, rfl⟩, h1, h2, h3⟩
      exact ⟨rfl, ⟨by omega, by omega⟩, by omega, by omega⟩
  | succ d ih =>
    simp only [edgeY, List.mem_append, ih, Nat.pow_succ]
    by_cases hY : isY c <;> simp only [hY, true_and, false_and, or_false] <;> omega

theorem mem_edgeX {d x y : Nat} (hy : 1 ≤ y) {c : Call} :
    c ∈ edgeX GT d x y ↔ isX c ∧ c.a.2 + 1 = y ∧ x ≤ c.a.1 ∧ c.a.1 < x + 2 ^ d := by
  induction d generalizing x with
  | zero =>
    obtain ⟨ax, ⟨a1, a2⟩, ⟨b1, b2⟩⟩ := c
    simp only [edgeX, List.mem_singleton, Call.mk.injEq, Prod.mk.injEq, isX]
    constructor
    · rintro ⟨rfl, ⟨rfl, rfl⟩, rfl, rfl⟩
      exact ⟨⟨rfl, rfl, by omega⟩, by omega, by omega, by omega⟩
    · rintro ⟨⟨rfl, rfl, rfl⟩, h1, h2, h3⟩
      exact ⟨rfl, ⟨by omega, by omega⟩, by omega, by omega⟩
  | succ d ih =>
    simp only [edgeX, List.mem_append, ih, Nat.pow_succ]
    by_cases hX : isX c <;> simp only [hX, true_and, false_and, or_false] <;> omega

theorem nodup_append' {l₁ l₂ : List Call} (h1 : l₁.Nodup) (h2 : l₂.Nodup)
    (hd : ∀ c, c ∈ l₁ → c ∈ l₂ → False) : (l₁ ++ l₂).Nodup :=
  List.nodup_append.2 ⟨h1, h2, fun a ha _ hb hab => hd a ha (hab ▸ hb)⟩

theorem nodup_edgeY {d x y : Nat} (hx : 1 ≤ x) : (edgeY GT d x y).Nodup := by
  induction d generalizing y with
  | zero => simp [edgeY]
  | succ d ih =>
    refine nodup_append' ih ih fun c h1 h2 => ?_
    rw [mem_edgeY hx] at h1 h2
    omega

theorem nodup_edgeX {d x y : Nat} (hy : 1 ≤ y) : (edgeX GT d x y).Nodup := by
  induction d generalizing x with
  | zero => simp [edgeX]
  | succ d ih =>
    refine nodup_append' ih ih fun c h1 h2 => ?_
    rw [mem_edgeX hy] at h1 h2
    omega

theorem mem_dualCalls {d x y : Nat} {c : Call} :
    c ∈ dualCalls GT d x y ↔ inBlock x y (2 ^ d) c := by
  induction d generalizing x y with
  | zero =>
    simp only [dualCalls, List.not_mem_nil, inBlock, Nat.pow_zero, false_iff]
    omega
  | succ d ih =>
    have hp := Nat.two_pow_pos d
    simp only [dualCalls, List.mem_append, ih, inBlock, Nat.pow_succ,
      mem_edgeY (x := x + 2 ^ d) (by omega), mem_edgeX (y := y + 2 ^ d) (by omega)]
    by_cases hY : isY c <;> by_cases hX : isX c <;>
      simp only [hY, hX, true_and, false_and, or_false, false_or] <;> omega

theorem nodup_dualCalls {d x y : Nat} : (dualCalls GT d x y).Nodup := by
  induction d generalizing x y with
  | zero => simp [dualCalls]
  | succ d ih =>
    have hp := Nat.two_pow_pos d
    have hxe : 1 ≤ x + 2 ^ d := by omega
    have hye : 1 ≤ y + 2 ^ d := by omega
    unfold dualCalls
    refine nodup_append' (nodup_append' (nodup_append' (nodup_append' (nodup_append'
      (nodup_append' (nodup_append' ih ih ?_) ih ?_) ih ?_) (nodup_edgeY hxe) ?_)
      (nodup_edgeY hxe) ?_) (nodup_edgeX hye) ?_) (nodup_edgeX hye) ?_ <;>
    · intro c h1 h2
      simp only [List.mem_append, mem_dualCalls, inBlock, mem_edgeY hxe, mem_edgeX hye] at h1 h2
      by_cases hY : isY c <;> by_cases hX : isX c
      · exact not_isY_isX hY hX
      all_goals
        simp only [hY, hX, true_and, false_and, or_false, false_or] at h1 h2 <;> omega

/-- the recursive walk on the complete quadtree of depth `d` makes exactly the calls of the
    uniform 2^d × 2^d grid -/
theorem mem_dualCalls_root {d : Nat} {c : Call} :
    c ∈ dualCalls GT d 0 0 ↔ c ∈ calls GT (2 ^ d) (2 ^ d) := by
  rw [mem_dualCalls, mem_calls]
  obtain ⟨ax, ⟨a1, a2⟩, ⟨b1, b2⟩⟩ := c
  simp only [inBlock, isY, isX, Call.mk.injEq, Prod.mk.injEq]
  constructor
  · rintro (⟨⟨rfl, rfl, rfl⟩, h⟩ | ⟨⟨rfl, rfl, rfl⟩, h⟩)
    · refine Or.inl ⟨_, _, ?_, ?_, rfl, ⟨rfl, rfl⟩, rfl, rfl⟩ <;> omega
    · refine Or.inr ⟨_, _, ?_, ?_, rfl, ⟨rfl, rfl⟩, rfl, rfl⟩ <;> omega
  · rintro (⟨i, j, h1, h2, rfl, ⟨rfl, rfl⟩, rfl, rfl⟩ | ⟨i, j, h1, h2, rfl, ⟨rfl, rfl⟩, rfl, rfl⟩)
    · exact Or.inl ⟨⟨rfl, rfl, rfl⟩, by omega⟩
    · exact Or.inr ⟨⟨rfl, rfl, rfl⟩, by omega⟩

theorem dualCalls_perm (d : Nat) : (dualCalls GT d 0 0).Perm (calls GT (2 ^ d) (2 ^ d)) :=
  (List.perm_ext_iff_of_nodup nodup_dualCalls (nodup_calls _ _)).2 fun _ => mem_dualCalls_root

end Libfive.ContourGrid
