import Driver.C18

def main (args : List String) : IO UInt32 := do
  let stdin ← IO.getStdin
  let lines ← Driver.readLines stdin #[]
  for l in Driver.C18.run args lines do IO.println l
  return 0
