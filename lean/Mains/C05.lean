import Driver.C05

def main (args : List String) : IO UInt32 := do
  let stdin ← IO.getStdin
  let lines ← Driver.readLines stdin #[]
  for l in Driver.C05.run args lines do IO.println l
  return 0
