/-
  C09 driver: replays what the real Voxels / View::split / Heightmap::render did
  (harness/heightmap.cpp output) through the model of LibfiveModel/Heightmap.lean.

  Compared (verdict lines `ok …` / `MISMATCH …` / `skip …`):
    vox      voxSize of the single-precision product res·(upper−lower)  vs. real pts[a].size()
    pts      voxel centres strictly increasing (hypothesis `Mono zr` of render_eq_bruteforce)
    root     voxels()/empty()/unit() of the root view; pts pointer offset = corner
    split    View.split (mask A) vs. real View::split<A> (corner, size; pts offset = corner)
    enum     enumerate(root) visits sx·sy·sz voxels
    brute    the harness's column scan = scanCol on the exported classifier
    regions  regions w root vs. the real region list
    render   model `render` fed with the real interval answers (as `recurse` reads them) and the real
             per-voxel signs vs. the real depth image, pixel for pixel
  Hypothesis reports (not verdicts): `hyp-unsound …` for every interval answer that is not sound for
  the exported classifier (theorem hypothesis `Sound`), with its maybe-NaN flag; `hyp-pushdiff …` for
  every leaf view whose voxel signs through the pushed tape differ from the base tape (the model has
  one classifier: C05's obligation) — the model is then run with the signs the renderer really saw.
-/
import Driver.Parse
import LibfiveModel.Heightmap
import Std.Data.HashMap
open Libfive Libfive.Heightmap

namespace Driver.C09

def hex! (s : String) : Nat := (F32.parseHex s).getD 0

/-- order-preserving key of a non-NaN float: sign-magnitude → Int (±0 ↦ 0) -/
def fkey (bits : Nat) : Int :=
  if bits ≥ 0x80000000 then -((bits - 0x80000000 : Nat) : Int) else (bits : Int)

def isNaNBits (bits : Nat) : Bool :=
  let m := bits % 0x80000000
  m > 0x7f800000

/-- a float as a non-negative rational num/den (negative and zero ↦ 0/1); none for inf/NaN -/
def fRat (bits : Nat) : Option (Nat × Nat) :=
  let neg := bits ≥ 0x80000000
  let b := bits % 0x80000000
  let e := b / 0x800000
  let m := b % 0x800000
  if e == 255 then none
  else if neg then some (0, 1)
  else
    let M := if e == 0 then m else m + 0x800000
    let x := (if e == 0 then 1 else e)      -- value = M · 2^(x − 150)
    if x ≥ 150 then some (M * 2 ^ (x - 150), 1) else some (M, 2 ^ (150 - x))

structure RView where
  v : View
  px : Nat
  py : Nat
  pz : Nat

def parseView (ws : List String) : Option (RView × List String) :=
  match ws with
  | cx :: cy :: cz :: sx :: sy :: sz :: px :: py :: pz :: rest =>
    some (⟨⟨nat! cx, nat! cy, nat! cz, nat! sx, nat! sy, nat! sz⟩, nat! px, nat! py, nat! pz⟩, rest)
  | _ => none

def RView.ptsOk (r : RView) : Bool := r.px == r.v.cx && r.py == r.v.cy && r.pz == r.v.cz

def showView (v : View) : String := s!"{v.cx} {v.cy} {v.cz} {v.sx} {v.sy} {v.sz}"

structure St where
  case : String := ""
  bigN : Nat := 0               -- ArrayEvaluator::N as reported by the library
  root : View := ⟨0, 0, 0, 0, 0, 0⟩
  zkeys : Array Int := #[]
  zmono : Bool := true
  fbits : ByteArray := ByteArray.empty
  fover : ByteArray := ByteArray.empty   -- classification as seen through the pushed tapes (this run)
  w : Nat := 0
  regs : Array View := #[]
  tbl : Std.HashMap View IState := {}
  bad : Bool := false          -- NaN / inf somewhere: skip the render comparison

def mkF (sy sz : Nat) (bits : ByteArray) : Nat → Nat → Nat → Bool :=
  fun i j k => (bits.get! ((i * sy + j) * sz + k)) == 49

def St.f (st : St) : Nat → Nat → Nat → Bool := mkF st.root.sy st.root.sz st.fbits

/-- overwrite the classification of the voxels of view `v` with `bits` (index (di·sy'+dj)·sz'+dk) -/
def overlay (root v : View) (bits : ByteArray) (acc : ByteArray) : ByteArray := Id.run do
  let mut a := acc
  for di in [0:v.sx] do
    for dj in [0:v.sy] do
      for dk in [0:v.sz] do
        let g := ((v.cx + di) * root.sy + (v.cy + dj)) * root.sz + (v.cz + dk)
        if g < a.size then
          a := a.set! g (bits.get! ((di * v.sy + dj) * v.sz + dk))
  return a

def strictlyIncreasing (ks : Array Int) : Bool :=
  (List.range (ks.size - 1)).all fun i => ks.getD i 0 < ks.getD (i + 1) 0

def handle (st : St) (line : String) : St × List String :=
  let ws := words line
  match ws with
  | "case" :: k :: _ => ({ case := k }, [])
  | "N" :: n :: _ =>
    ({ st with bigN := nat! n }, [if nat! n ≥ 1 then s!"ok batch-size case {st.case} N {n}"
                                  else s!"MISMATCH batch-size case {st.case} N {n} (theorems need N ≥ 1)"])
  | "vox" :: sx :: sy :: sz :: rest =>
    -- rest = lower:3 upper:3 "req" 9 "prod" 3
    let prod := (rest.drop 17).take 3
    let sizes := [nat! sx, nat! sy, nat! sz]
    let outs := (List.range 3).map fun a =>
      let p := hex! (prod.getD a "")
      match fRat p with
      | none => s!"skip vox case {st.case} axis {a} non-finite product"
      | some (n, d) =>
        let ms := voxSize n d
        if ms == sizes.getD a 0 then s!"ok vox case {st.case} axis {a}"
        else s!"MISMATCH vox case {st.case} axis {a} model {ms} real {sizes.getD a 0} prod {prod.getD a ""}"
    ({ st with root := ⟨0, 0, 0, nat! sx, nat! sy, nat! sz⟩ }, outs)
  | "pts" :: a :: n :: rest =>
    let bits := rest.map hex!
    let nan := bits.any isNaNBits
    let ks := (bits.map fkey).toArray
    let inc := strictlyIncreasing ks
    let cnt := ks.size == nat! n && ks.size == (if a == "0" then st.root.sx else if a == "1" then st.root.sy else st.root.sz)
    let o := if nan then s!"skip pts case {st.case} axis {a} NaN position"
      else if inc && cnt then s!"ok pts case {st.case} axis {a}"
      else s!"MISMATCH pts case {st.case} axis {a} increasing {inc} count {cnt}"
    let st := if a == "2" then { st with zkeys := ks, zmono := inc && !nan } else st
    ({ st with bad := st.bad || nan || !inc }, [o])
  | "rootview" :: rest =>
    match parseView rest with
    | some (r, vox :: emp :: unit :: _) =>
      let m := st.root
      let good := r.v == m && r.ptsOk && nat! vox == m.voxels && (emp == "1") == m.empty && (unit == "1") == m.unit
      let en := (enumerate (m.sx + m.sy + m.sz) m).length
      let o2 := if m.voxels > 40000 then s!"skip enum case {st.case} large"
        else if en == m.voxels then s!"ok enum case {st.case}"
        else s!"MISMATCH enum case {st.case} model {en} voxels {m.voxels}"
      (st, [if good then s!"ok root case {st.case}" else s!"MISMATCH root case {st.case} {line}", o2])
    | _ => (st, [s!"MISMATCH parse case {st.case} rootview"])
  | "split" :: a :: rest =>
    match parseView rest with
    | some (p, rest) =>
      match parseView rest with
      | some (x, rest) =>
        match parseView rest with
        | some (y, _) =>
          let A := nat! a
          let ms := p.v.split (A % 2 == 1) ((A / 2) % 2 == 1) ((A / 4) % 2 == 1)
          let good := ms.1 == x.v && ms.2 == y.v && p.ptsOk && x.ptsOk && y.ptsOk
          (st, [if good then s!"ok split case {st.case} A {A} {showView p.v}"
                else s!"MISMATCH split case {st.case} A {A} parent {showView p.v} model {showView ms.1} | {showView ms.2} real {showView x.v} | {showView y.v} ptsok {p.ptsOk} {x.ptsOk} {y.ptsOk}"])
        | none => (st, [s!"MISMATCH parse case {st.case} split"])
      | none => (st, [s!"MISMATCH parse case {st.case} split"])
    | none => (st, [s!"MISMATCH parse case {st.case} split"])
  | "f" :: bits :: _ =>
    let b := bits.toUTF8
    if b.size == st.root.voxels then ({ st with fbits := b }, [])
    else ({ st with fbits := b, bad := true }, [s!"MISMATCH parse case {st.case} f length {b.size} voxels {st.root.voxels}"])
  | "brute" :: rest =>
    let f := st.f
    let r := st.root
    let vals := rest.toArray
    let badIdx := (List.range (r.sx * r.sy)).find? fun idx =>
      let i := idx / r.sy
      let j := idx % r.sy
      let m : Int := match scanCol f i j 0 r.sz with
        | some k => (k : Int)
        | none => -1
      (vals.getD idx "").toInt? != some m
    match badIdx with
    | none => (st, [s!"ok brute case {st.case}"])
    | some idx => (st, [s!"MISMATCH brute case {st.case} column {idx / r.sy} {idx % r.sy}"])
  | "run" :: w :: _ => ({ st with w := nat! w, regs := #[], tbl := {}, fover := st.fbits }, [])
  | "P" :: _ :: rest =>
    match parseView rest with
    | some (r, nd :: nn :: taint :: bits :: _) =>
      let b := bits.toUTF8
      if b.size == r.v.voxels then
        ({ st with fover := overlay st.root r.v b st.fover },
         [s!"hyp-pushdiff case {st.case} w {st.w} view {showView r.v} voxels-differ {nd} nan-one-side {nn} taint {taint}"])
      else (st, [s!"MISMATCH parse case {st.case} P length"])
    | _ => (st, [s!"MISMATCH parse case {st.case} P"])
  | "region" :: _ :: _ :: rest =>
    match parseView rest with
    | some (r, _) =>
      let o := if r.ptsOk then [] else [s!"MISMATCH region-pts case {st.case} w {st.w} {showView r.v}"]
      ({ st with regs := st.regs.push r.v }, o)
    | none => (st, [s!"MISMATCH parse case {st.case} region"])
  | "I" :: _ :: rest =>
    match parseView rest with
    | some (r, _lo :: _hi :: nan :: filled :: empty :: rest2) =>
      let bnan := rest2.getD 3 "?"
      let taint := rest2.getD 5 "?"
      -- `if (out.isSafe() && out.isFilled()) … else if (!out.isEmpty()) …`   (heightmap.cpp since fix 3984e95)
      let s := if filled == "1" && nan == "0" then IState.filled
        else if empty == "1" then IState.empty else IState.ambiguous
      -- hypothesis `Sound`: filled ⇒ every voxel centre inside, empty ⇒ none
      let f := st.f
      let v := r.v
      let all (want : Bool) : Bool :=
        (List.range v.sx).all fun di => (List.range v.sy).all fun dj => (List.range v.sz).all fun dk =>
          f (v.cx + di) (v.cy + dj) (v.cz + dk) == want
      let sound := match s with
        | .filled => all true
        | .empty => all false
        | .ambiguous => true
      let o := if sound then [] else
        [s!"hyp-unsound case {st.case} w {st.w} view {showView v} state {if s == IState.filled then "filled" else "empty"} maybe-nan {nan} base-maybe-nan {bnan} taint {taint}"]
      let o := if r.ptsOk then o else s!"MISMATCH view-pts case {st.case} w {st.w} {showView v}" :: o
      ({ st with tbl := st.tbl.insert v s }, o)
    | _ => (st, [s!"MISMATCH parse case {st.case} I"])
  | "budget-exhausted" :: _ => ({ st with bad := true }, [s!"skip oracle-budget case {st.case} w {st.w}"])
  | "depth" :: w :: rest =>
    let tag := s!"case {st.case} w {w}"
    let W := nat! w
    let r := st.root
    let mregs := regions W r
    let o1 := if mregs.toArray == st.regs then s!"ok regions {tag} n {mregs.length}"
      else s!"MISMATCH regions {tag} model {mregs.map showView} real {st.regs.toList.map showView}"
    if st.bad then (st, [o1, s!"skip render {tag} non-finite or non-monotone positions"]) else
    let bits := rest.map hex!
    if bits.any isNaNBits then (st, [o1, s!"MISMATCH render {tag} NaN depth"]) else
    let real := (bits.map fkey).toArray
    -- the classifier as the renderer saw it: base-tape signs, overridden on the leaves where the
    -- pushed tape disagreed (reported as hyp-pushdiff; identical to `st.f` when there is none)
    let f := mkF st.root.sy st.root.sz st.fover
    let zk := st.zkeys
    let zr : Nat → Int := fun k => zk.getD k 0
    let tbl := st.tbl
    let I : View → IState := fun v => (tbl.get? v).getD IState.ambiguous
    let ninf := fkey 0xff800000
    let img := render st.bigN f zr I W r (Img.const r.sx r.sy ninf)
    let badIdx := (List.range (r.sx * r.sy)).find? fun idx =>
      img.get (idx / r.sy) (idx % r.sy) != real.getD idx 0
    let o2 := match badIdx with
      | none => if real.size == r.sx * r.sy then s!"ok render {tag}" else s!"MISMATCH render {tag} size {real.size}"
      | some idx => s!"MISMATCH render {tag} pixel {idx / r.sy} {idx % r.sy} model {img.get (idx / r.sy) (idx % r.sy)} real {real.getD idx 0}"
    (st, [o1, o2])
  | _ => (st, [])

def run (_args : List String) (lines : Array String) : Array String := Id.run do
  let mut st : St := {}
  let mut out : Array String := #[]
  for l in lines do
    let (st', o) := handle st l
    st := st'
    for x in o do out := out.push x
  return out

end Driver.C09
