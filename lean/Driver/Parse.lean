import LibfiveModel.Op
import LibfiveModel.Tape
import LibfiveModel.F32
open Libfive

namespace Driver

def words (line : String) : List String :=
  (line.splitOn " ").filter (· ≠ "")

def nat! (s : String) : Nat := s.toNat?.getD 0

/-- parse `root term n (op id a b)*` (the tokens after the word `tape`) -/
def parseTape (ws : List String) : Option TapeM :=
  match ws with
  | root :: term :: n :: rest =>
    let n := nat! n
    let rec go (k : Nat) (ws : List String) (acc : List Clause) : Option (List Clause) :=
      match k, ws with
      | 0, _ => some acc.reverse
      | k + 1, op :: id :: a :: b :: ws =>
        match Op.ofPName? op with
        | some o => go k ws (⟨o, nat! id, nat! a, nat! b⟩ :: acc)
        | none => none
      | _, _ => none
    (go n rest []).map fun cl => { t := cl, root := nat! root, terminal := term == "1" }
  | _ => none

def dumpTape (T : TapeM) : String :=
  let cl := T.t.map fun c => s!" {c.op.pname} {c.id} {c.a} {c.b}"
  s!"tape {T.root} {if T.terminal then 1 else 0} {T.t.length}" ++ String.join cl

partial def readLines (h : IO.FS.Stream) (acc : Array String) : IO (Array String) := do
  let line ← h.getLine
  if line.isEmpty then return acc
  readLines h (acc.push (line.trimAscii.toString))

end Driver
