/-
  C19 driver: replays what the real `QEF<N>` code did (harness/qef.cpp output) through the model
  (LibfiveModel/QEF.lean) instantiated at `Float`:

  * `select`   : the model's `selectBounded` (control logic of `solveBounded`) is fed the REAL
                 full-dimension candidate and the REAL per-subspace candidates; its choice must be
                 bit-identical to the real `solveBounded` result (control flow compared, not Eigen).
  * `cand`     : every real `solveConstrained<nb>` candidate has the `constrained` flags and the
                 exact face coordinates the model's `assemblePos` / `nbFixed` / `Region.face`
                 prescribe, and its error is the model's `QEF.error` on the real matrices (tolerance
                 from magnitudes: Eigen's evaluation order and FMA contraction differ).
  * `insert`   : `QEF.ofSamples` at Float vs the real matrices (tolerance from magnitudes).
  * `sub`      : model `sub<mask>` of the real matrices = real `sub<mask>`, bit for bit.
  * `shrink` / `target` : `Region.shrink`, `Region.center`, `averageDistanceValue` bit for bit.
  * `accum`    : model `+=` of the real halves = real `+=`, bit for bit, and `a+=b` = `b+=a`.
  * `reduced`  : for well-conditioned candidates the real solution satisfies the model's reduced
                 normal equations (residual small relative to the magnitudes involved).
  Output: `ok <what> case <id> …` / `MISMATCH <what> case <id> …` / `skip …`.
-/
import Driver.Parse
import LibfiveModel.QEF
open Libfive Libfive.QEF

namespace Driver.C19

def f64! (s : String) : Float :=
  match F32.parseHex s with
  | some n => Float.ofBits n.toUInt64
  | none => 0.0 / 0.0

def hex64 (f : Float) : String :=
  let n := f.toBits.toNat
  let digs := (List.range 16).map fun i =>
    let d := (n >>> (4 * (15 - i))) % 16
    if d < 10 then Char.ofNat (d + '0'.toNat) else Char.ofNat (d - 10 + 'a'.toNat)
  String.ofList digs

def sameF (a b : Float) : Bool := a.toBits == b.toBits || (a.isNaN && b.isNaN)

def vecOf {n : Nat} (a : Array Float) : Fin n → Float := fun i => a.getD i.val 0

def matOf {n : Nat} (a : Array Float) (off : Nat) : Fin n → Fin n → Float :=
  fun i j => a.getD (off + i.val * n + j.val) 0

/-- the three matrices, read from `3·(n+1)²` numbers -/
def qefOf (n : Nat) (a : Array Float) : QEF n Float :=
  let k := (n + 1) * (n + 1)
  { AtA := matOf a 0, AtBp := matOf a k, BptBp := matOf a (2 * k) }

def qefToArray {n : Nat} (q : QEF n Float) : Array Float := Id.run do
  let mut out := #[]
  for m in [q.AtA, q.AtBp, q.BptBp] do
    for i in List.finRange (n + 1) do
      for j in List.finRange (n + 1) do
        out := out.push (m i j)
  return out

/-- strict copy (avoids re-running closures) -/
def freeze {n : Nat} (q : QEF n Float) : QEF n Float := qefOf n (qefToArray q)

structure SolR where
  pos : Array Float
  con : Array Bool
  value : Float
  rank : UInt32
  error : Float
deriving Inhabited

def parseSol (n : Nat) (ws : List String) : SolR :=
  let a := ws.toArray
  let pos := (Array.range n).map fun i => f64! (a.getD i "")
  let bits := (a.getD n "").toList.toArray
  let con := (Array.range n).map fun i => bits.getD i '0' == '1'
  { pos := pos, con := con, value := f64! (a.getD (n + 1) ""),
    rank := (nat! (a.getD (n + 2) "")).toUInt32, error := f64! (a.getD (n + 3) "") }

def SolR.toModel (n : Nat) (s : SolR) : Solution n Float :=
  { position := vecOf s.pos, constrained := fun i => s.con.getD i.val false, value := s.value,
    rank := s.rank, error := s.error }

def solSame {n : Nat} (a b : Solution n Float) : Bool :=
  (List.finRange n).all (fun i => sameF (a.position i) (b.position i) && a.constrained i == b.constrained i)
    && sameF a.value b.value && a.rank == b.rank && sameF a.error b.error

def showSol {n : Nat} (a : Solution n Float) : String :=
  let p := (List.finRange n).map fun i => hex64 (a.position i)
  let c := (List.finRange n).map fun i => if a.constrained i then "1" else "0"
  s!"{" ".intercalate p} {String.join c} {hex64 a.value} {a.rank} {hex64 a.error}"

structure Case where
  id : String := ""
  n : Nat := 0
  box : Array Float := #[]
  shrink : Float := 0
  samples : Array (Array Float) := #[]
  mat : Array Float := #[]
  shrunk : Array Float := #[]
  targetDefault : Bool := true
  target : Array Float := #[]
  full : Option SolR := none
  cands : Array SolR := #[]
  result : Option SolR := none
  result4 : Option SolR := none
  errat : Float := 0
  subs : Array (Nat × Array Float) := #[]
  splits : Array (String × Array Float) := #[]
  unsupported : Bool := false

def eps : Float := 1.1102230246251565e-16   -- 2^-53

def absQ {n : Nat} (q : QEF n Float) : QEF n Float :=
  { AtA := fun i j => (q.AtA i j).abs, AtBp := fun i j => (q.AtBp i j).abs,
    BptBp := fun i j => (q.BptBp i j).abs }

/-- magnitude of the terms of `errorV` (all signs made positive) -/
def magV {n : Nat} (q : QEF n Float) (v : Fin (n + 1) → Float) : Float :=
  let a := absQ q
  let w : Fin (n + 1) → Float := fun i => (v i).abs
  sumFin (n + 1) (fun j => sumFin (n + 1) (fun i => w i * a.AtA i j) * w j)
    + 2 * sumFin (n + 1) (fun i => w i * a.AtB i) + a.BtB

def mkRegion (n : Nat) (a : Array Float) : Region n Float :=
  { lower := fun i => a.getD i.val 0, upper := fun i => a.getD (n + i.val) 0 }

def sampleOf (n : Nat) (a : Array Float) : Sample n Float :=
  { pos := fun i => a.getD i.val 0, nrm := fun i => a.getD (n + i.val) 0, val := a.getD (2 * n) 0 }

def absSample {n : Nat} (s : Sample n Float) : Sample n Float :=
  { pos := fun i => (s.pos i).abs, nrm := fun i => (s.nrm i).abs, val := s.val.abs }

/-- insert samples one at a time, freezing after each (keeps evaluation linear) -/
def buildQ (n : Nat) (ss : Array (Sample n Float)) : QEF n Float :=
  ss.foldl (fun q s => freeze (q.insert Float.isFinite s)) (QEF.empty n)

/-- equal bits, or both non-finite (NaN vs ±inf depends on Eigen's evaluation order once
    something overflowed), or within the tolerance -/
def closeF (x y tol : Float) : Bool :=
  sameF x y || (!x.isFinite && !y.isFinite) || (x - y).abs ≤ tol

def arraysClose (a b tol : Array Float) : Option Nat := Id.run do
  for i in [0:a.size] do
    let x := a.getD i 0; let y := b.getD i 0; let t := tol.getD i 0
    if !closeF x y t then return some i
  return none

def arraysSame (a b : Array Float) : Option Nat := Id.run do
  if a.size != b.size then return some 0
  for i in [0:a.size] do
    if !sameF (a.getD i 0) (b.getD i 0) then return some i
  return none

/-- instrumentation only: how often the search saw two equal errors, and how often the
    tie-break disjunct (not the `<`) made it replace `out` -/
def tieStats {n : Nat} (cand : Nat → Solution n Float) (r : Region n Float) : Nat × Nat := Id.run do
  let mut out : Solution n Float := dummy n 0
  let mut eqs := 0
  let mut tbs := 0
  for k in [0:n] do
    let d := n - 1 - k
    for nb in subspacesOfDim n d do
      let s := cand nb
      if QOrd.eq s.error out.error then eqs := eqs + 1
      if accepts r out s && !(QOrd.lt s.error out.error) then tbs := tbs + 1
      out := step r out s
    if !r.contains out.position then out := { out with error := QOrd.inf } else break
  return (eqs, tbs)

/-- Gaussian elimination with partial pivoting on a `k×k` system; `none` if a pivot is zero /
    non-finite or the pivots spread over more than 4 decades (then Eigen's pseudo-inverse and an
    exact solve may legitimately differ). -/
def gaussCore (spread : Bool) (k : Nat) (A : Fin k → Fin k → Float) (b : Fin k → Float) : Option (Array Float) := Id.run do
  let mut M : Array (Array Float) := (Array.ofFn fun i : Fin k => (Array.ofFn fun j : Fin k => A i j).push (b i))
  let mut pmin : Float := 1.0 / 0.0
  let mut pmax : Float := 0
  for col in [0:k] do
    let mut best := col
    for r in [col:k] do
      if ((M.getD r #[]).getD col 0).abs > ((M.getD best #[]).getD col 0).abs then best := r
    let rb := M.getD best #[]
    let rc := M.getD col #[]
    M := (M.set! best rc).set! col rb
    let pv := rb.getD col 0
    if !(pv.abs > 0) || !pv.isFinite then return none
    pmin := if pv.abs < pmin then pv.abs else pmin
    pmax := if pv.abs > pmax then pv.abs else pmax
    let prow := rb.map (· / pv)
    M := M.set! col prow
    for r in [0:k] do
      if r != col then
        let row := M.getD r #[]
        let f := row.getD col 0
        M := M.set! r ((Array.range (k + 1)).map fun j => row.getD j 0 - f * prow.getD j 0)
  if spread && !(pmin / pmax ≥ 1e-4) then return none
  return some ((Array.range k).map fun i => (M.getD i #[]).getD k 0)

def gauss (k : Nat) (A : Fin k → Fin k → Float) (b : Fin k → Float) : Option (Array Float) := gaussCore true k A b

/-- `‖A‖∞ · ‖A⁻¹‖∞`, an upper bound of the spectral condition number of the symmetric `A` (λmax ≤ ‖A‖∞,
    1/λmin ≤ ‖A⁻¹‖∞); `+∞` when the elimination breaks down.  `QEF::solve` discards eigenvalues below
    `1e-12 · λmax`: a system with a bound ≤ 1e6 keeps them all, so the exact solve and the real
    pseudo-inverse must agree; pivot sizes alone do not tell (a pivot order through an off-diagonal entry
    hides a 1e-48 eigenvalue behind two pivots of 1e-24). -/
def condParts (k : Nat) (A : Fin k → Fin k → Float) : Float × Float := Id.run do
  let rowSum := fun (f : Fin k → Fin k → Float) =>
    (List.finRange k).foldl (fun a i =>
      let r := (List.finRange k).foldl (fun r j => r + (f i j).abs) 0.0
      if r > a then r else a) 0.0
  let mut cols : Array (Array Float) := #[]
  for j in List.finRange k do
    match gaussCore false k A (fun i => if i = j then 1.0 else 0.0) with
    | some x => cols := cols.push x
    | none => return (rowSum A, 1.0 / 0.0)
  let inv : Fin k → Fin k → Float := fun i j => (cols.getD j.val #[]).getD i.val 0
  return (rowSum A, rowSum inv)

def condInf (k : Nat) (A : Fin k → Fin k → Float) : Float :=
  let (a, b) := condParts k A
  a * b

/-- an (almost) exact inner solver for the model: Gaussian elimination; rank 0 = "not judged" -/
def gaussSolver : Solver Float := fun m A b t =>
  match gauss (m + 1) A b with
  | some x => { value := fun i => x.getD i.val 0, rank := 1 }
  | none => { value := t, rank := 0 }

def checkCase (c : Case) : List String := Id.run do
  let n := c.n
  let tag := s!"case {c.id}"
  if c.unsupported then return [s!"skip {tag} unsupported-dimension"]
  let mut out : List String := []
  let region := mkRegion n c.box
  let shrunkReal := mkRegion n c.shrunk
  let q := qefOf n c.mat
  -- shrink
  let shrunkM := region.shrink c.shrink
  let okShr := (List.finRange n).all fun i =>
    sameF (shrunkM.lower i) (shrunkReal.lower i) && sameF (shrunkM.upper i) (shrunkReal.upper i)
  out := out ++ [if okShr then s!"ok shrink {tag}" else s!"MISMATCH shrink {tag}"]
  -- default target
  let tpos : Fin n → Float := vecOf c.target
  let tval := c.target.getD n 0
  if c.targetDefault then
    let okT := (List.finRange n).all (fun i => sameF (region.center i) (tpos i))
      && sameF q.defaultTargetValue tval
    out := out ++ [if okT then s!"ok target {tag}" else s!"MISMATCH target {tag}"]
  -- insert: model matrices from the raw samples
  let ss := c.samples.map (sampleOf n)
  let qm := buildQ n ss
  let qa := buildQ n (ss.map absSample)
  let m := c.samples.size
  let tolI := (qefToArray (absQ qa)).map fun g => 2 * (m.toFloat + 4) * eps * g
  match arraysClose (qefToArray qm) c.mat tolI with
  | none => out := out ++ [s!"ok insert {tag} samples={m}"]
  | some i => out := out ++ [s!"MISMATCH insert {tag} entry={i} model={hex64 ((qefToArray qm).getD i 0)} real={hex64 (c.mat.getD i 0)}"]
  -- sub<mask>
  let mut subBad : Option Nat := none
  for (mask, arr) in c.subs do
    let sm := q.sub mask
    if (arraysSame (qefToArray sm) arr).isSome then subBad := some mask
  out := out ++ [match subBad with
    | none => s!"ok sub {tag} masks={c.subs.size}"
    | some k => s!"MISMATCH sub {tag} mask={k}"]
  -- += : a, b, ab, ba per split
  let mut accBad := false
  let mut nsplit := 0
  for i in [0:c.splits.size / 4] do
    let a := qefOf n (c.splits.getD (4 * i) default).2
    let b := qefOf n (c.splits.getD (4 * i + 1) default).2
    let ab := (c.splits.getD (4 * i + 2) default).2
    let ba := (c.splits.getD (4 * i + 3) default).2
    nsplit := nsplit + 1
    if (arraysSame (qefToArray (a.add b)) ab).isSome then accBad := true
    if (arraysSame (qefToArray (b.add a)) ba).isSome then accBad := true
    if (arraysSame ab ba).isSome then accBad := true
  out := out ++ [if accBad then s!"MISMATCH accum {tag}" else s!"ok accum {tag} splits={nsplit}"]
  -- candidates: structure and error
  let nc := 3 ^ n
  if c.cands.size != nc then
    return out ++ [s!"MISMATCH cand {tag} count={c.cands.size} expected={nc}"]
  let mut candBad : List String := []
  let mut worst : Float := 0
  for nb in [0:nc] do
    let s := (c.cands.getD nb default).toModel n
    for i in List.finRange n do
      if s.constrained i != nbFixed nb i.val then
        candBad := candBad ++ [s!"flag nb={nb} axis={i.val}"]
      if nbFixed nb i.val && !sameF (s.position i) (shrunkReal.face nb i) then
        candBad := candBad ++ [s!"face nb={nb} axis={i.val}"]
    let em := q.error s.position s.value
    let mg := magV q (snoc s.position s.value)
    let tol := 64 * eps * mg
    if !closeF em s.error tol then
      candBad := candBad ++ [s!"error nb={nb} model={hex64 em} real={hex64 s.error}"]
    else if mg > 0 && (em - s.error).abs / (eps * mg) > worst then
      worst := (em - s.error).abs / (eps * mg)
  -- the full candidate's error too
  match c.full with
  | some f =>
    let s := f.toModel n
    let em := q.error s.position s.value
    let mg := magV q (snoc s.position s.value)
    if !closeF em s.error (64 * eps * mg) then
      candBad := candBad ++ [s!"error full model={hex64 em} real={hex64 s.error}"]
    if (List.finRange n).any (fun i => s.constrained i) then candBad := candBad ++ ["flag full"]
  | none => candBad := candBad ++ ["no-full"]
  out := out ++ [if candBad.isEmpty then s!"ok cand {tag} n={nc} worst_err_ratio={worst}"
                 else s!"MISMATCH cand {tag} {" ; ".intercalate (candBad.take 4)}"]
  -- the whole `solveConstrained` model (reduced system, `liftIdx`, unpacking loop `assemblePos`)
  -- run with an exact-ish solver must land on the real candidate when the reduced system is
  -- well conditioned
  let mut asmBad : List String := []
  let mut judged := 0
  let mut worstA : Float := 0
  let scale0 := (c.box.foldl (fun a x => if x.abs > a then x.abs else a) 0) +
    (c.target.foldl (fun a x => if x.abs > a then x.abs else a) 0)
  for nb in [0:nc] do
    let real := (c.cands.getD nb default).toModel n
    -- systems whose entries are all below 1e-30 (sample normals of magnitude 1e-60 .. 1e-20) are outside the
    -- accuracy range of the real eigen-solver (its iteration underflows); they are not judged
    let kk := (freeAxes n nb).length + 1
    let amax := (List.finRange kk).foldl (fun a i => (List.finRange kk).foldl (fun a j =>
      let x := (q.reducedAtA nb i j).abs; if x > a then x else a) a) 0.0
    if amax ≥ 1e-30 && condInf kk (q.reducedAtA nb) ≤ 1e6
        && (gauss ((freeAxes n nb).length + 1) (q.reducedAtA nb) (q.reducedAtB shrunkReal nb)).isSome
        && real.value.isFinite && (List.finRange n).all (fun i => (real.position i).isFinite) then
      let mc := q.solveConstrained gaussSolver shrunkReal nb tpos tval
      judged := judged + 1
      -- rounding noise of the right-hand side: `AtB_c` is `AtB` minus `AtA`·(fixed coordinates), computed in
      -- double by both sides in different orders; with sample normals of magnitude 1e20 .. 1e49 the cancellation
      -- leaves an absolute error of eps·(|AtB| + |AtA|·|box|), which the inverse maps into the solution
      let mAbs := (List.finRange (n + 1)).foldl (fun a i => (List.finRange (n + 1)).foldl (fun a j =>
        let x := (q.AtA i j).abs * scale0 + (q.AtBp i j).abs; if x > a then x else a) a) 0.0
      let noise := (condParts kk (q.reducedAtA nb)).2 * mAbs * 1e-8
      let cmp := fun (what : String) (a b : Float) =>
        let sc := scale0 + a.abs + b.abs + noise + 1e-300
        let d := (a - b).abs / sc
        (d, if d ≤ 1e-6 then none else some s!"{what} nb={nb} model={a} real={b}")
      for i in List.finRange n do
        let (d, bad) := cmp s!"axis={i.val}" (mc.position i) (real.position i)
        if d > worstA then worstA := d
        match bad with | some m => asmBad := asmBad ++ [m] | none => pure ()
      let (d, bad) := cmp "value" mc.value real.value
      if d > worstA then worstA := d
      match bad with | some m => asmBad := asmBad ++ [m] | none => pure ()
  out := out ++ [if asmBad.isEmpty then s!"ok assemble {tag} judged={judged} of={nc} worst_e12={worstA * 1e12}"
                 else s!"MISMATCH assemble {tag} {" ; ".intercalate (asmBad.take 3)}"]
  -- selection logic on the real candidates
  match c.full, c.result with
  | some f, some r =>
    let cand : Nat → Solution n Float := fun nb => (c.cands.getD nb default).toModel n
    let sel := selectBounded (0 : Float) (f.toModel n) cand shrunkReal
    let real := r.toModel n
    let path :=
      if solSame sel (f.toModel n) && shrunkReal.contains (f.toModel n).position then "full"
      else match (List.range nc).find? (fun nb => solSame sel (cand nb)) with
        | some nb => s!"nb{nb}-dim{nbDim n nb}"
        | none => "dummy"
    -- With the default target the harness derives `target_value` as the 2-argument overload does
    -- (`AtBp(N,N)/AtA(N,N)`).  For a QEF without samples that is 0/0 = NaN (known finding
    -- C19:empty-qef-default-target); if the library stops doing that, the harness' candidates are
    -- no longer the ones the 2-argument call saw, so a difference is then not a model mismatch.
    let nanTarget := c.targetDefault && tval.isNaN
    if solSame sel real then
      let (eqs, tbs) := if path == "full" then (0, 0) else tieStats cand shrunkReal
      out := out ++ [s!"ok select {tag} path={path} inbox={shrunkReal.contains sel.position} ties={eqs} tiebreaks={tbs}"]
    else if nanTarget then
      out := out ++ [s!"skip select {tag} default-target-nan"]
    else
      out := out ++ [s!"MISMATCH select {tag} path={path} model={showSol sel} real={showSol real}"]
    match c.result4 with
    | some r4 =>
      out := out ++ [if solSame (r4.toModel n) real then s!"ok result4 {tag}"
                     else if nanTarget then s!"skip result4 {tag} default-target-nan"
                     else s!"MISMATCH result4 {tag} two-arg={showSol real} four-arg={showSol (r4.toModel n)}"]
    | none => pure ()
    -- public `error()` at the returned point is the model's error on the real matrices
    let em := q.error real.position real.value
    let mg := magV q (snoc real.position real.value)
    out := out ++ [if closeF em c.errat (64 * eps * mg) then s!"ok errat {tag}"
                   else s!"MISMATCH errat {tag} model={hex64 em} real={hex64 c.errat}"]
  | _, _ => out := out ++ [s!"MISMATCH select {tag} missing-lines"]
  return out

def floats (ws : List String) : Array Float := (ws.map f64!).toArray

def handle (st : Case) (line : String) : Case × List String :=
  match words line with
  | "case" :: id :: n :: _ => ({ id := id, n := nat! n }, [])
  | "unsupported" :: _ => ({ st with unsupported := true }, [])
  | "box" :: rest => ({ st with box := floats rest }, [])
  | "shrink" :: p :: _ => ({ st with shrink := f64! p }, [])
  | "sample" :: rest => ({ st with samples := st.samples.push (floats rest) }, [])
  | "mat" :: rest => ({ st with mat := floats rest }, [])
  | "shrunk" :: rest => ({ st with shrunk := floats rest }, [])
  | "target" :: kind :: rest => ({ st with targetDefault := kind == "default", target := floats rest }, [])
  | "full" :: rest => ({ st with full := some (parseSol st.n rest) }, [])
  | "cand" :: _ :: rest => ({ st with cands := st.cands.push (parseSol st.n rest) }, [])
  | "result" :: rest => ({ st with result := some (parseSol st.n rest) }, [])
  | "result4" :: rest => ({ st with result4 := some (parseSol st.n rest) }, [])
  | "errat" :: e :: _ => ({ st with errat := f64! e }, [])
  | "sub" :: mask :: rest => ({ st with subs := st.subs.push (nat! mask, floats rest) }, [])
  | "splitmat" :: _ :: which :: rest => ({ st with splits := st.splits.push (which, floats rest) }, [])
  | "end" :: _ => ({}, checkCase st)
  | _ => (st, [])

def run (_args : List String) (lines : Array String) : Array String := Id.run do
  let mut st : Case := {}
  let mut out : Array String := #[]
  for l in lines do
    let (st', vs) := handle st l
    st := st'
    for v in vs do out := out.push v
  return out

end Driver.C19
