/-
  C07 / C01 driver.  Input: program lines prefixed `P ` and the real library's answers
  (harness/treeprog.cpp) prefixed `R `, case by case.
  * every `n` line is executed on the model (Tree::unary/binary/remap/apply/flatten/optimized)
    and, in parallel, on the RAW tree (no rewriting at all: the mathematical definition);
  * `R dump`   : canon(model node) must equal canon(real DAG)                       (C07)
  * `R tape-*` : the real tape must be well-formed and decompile to the real optimised tree;
                 the real optimised tree must equal the model's optimised tree       (C01/C07)
  * `P eval/batch`: prints the reference value of the RAW tree with its error bound; the
                 check compares the real values against it                            (C01/C07 oracle)
-/
import Driver.ExprIO
import LibfiveModel.Optimize
import LibfiveModel.Deck
open Libfive Driver.ExprIO

namespace Driver.C07

structure St where
  case : String := ""
  model : Nodes := #[]
  raw : Nodes := #[]
  nvars : Nat := 0
  deck : Option DeckInfo := none
  tape : Option TapeM := none
  flagged : List Nat := []      -- nodes carrying TREE_FLAG_IS_OPTIMIZED (results of `optimized()`)

def modelFlat (t : E32) : E32 :=
  if !smallerThan 3000 t then .invalid
  else if flatSizeEst t 1 1 1 (fun _ => none) > 4000 then .invalid
  else Expr.flatten F32K t

def modelOpt (t : E32) : E32 :=
  match modelFlat t with
  | .invalid => .invalid
  | f => Optimize.optimize F32K (fun a b => Canon.key a ≤ Canon.key b) f

def showE (t : E32) : String := Canon.key t

def big (t : E32) : Bool := !smallerThan 2500 t

def dumpTapeS (T : TapeM) : String :=
  s!"root {T.root} " ++ " ".intercalate (T.t.map fun c => s!"{repr c.op}:{c.id}:{c.a}:{c.b}")

def cmpCanon (a b : E32) : Bool := Canon.approxEq (Canon.canon a) (Canon.canon b)

/-- the tree contains a NaN / infinite constant or a division by a zero constant: the optimiser's
    coefficient arithmetic then produces NaN/inf multipliers whose placement depends on map
    iteration order; such trees are outside the property ("no sub-expression undefined") -/
partial def nonFinite : E32 → Bool
  | .const c => let f := F32.ofBits c; f.isNaN || f.isInf
  | .un _ a => nonFinite a
  | .bin op a b =>
    (match op, b with
     | Op.div, .const c => F32.ofBits c == 0
     | _, _ => false) || nonFinite a || nonFinite b
  | .remap t a b c => nonFinite t || nonFinite a || nonFinite b || nonFinite c
  | .apply t _ a => nonFinite t || nonFinite a
  | _ => false

def handle (st : St) (line : String) : St × List String :=
  match words line with
  | "P" :: "case" :: k :: _ => ({ case := k }, [])
  | "P" :: "n" :: rest =>
    let ws := "n" :: rest
    -- `optimized()` of a tree whose handle carries the optimised flag returns it unchanged
    let optF : E32 → E32 := match ws with
      | "n" :: _ :: "opt" :: a :: _ => if st.flagged.contains (nat! a) then id else modelOpt
      | _ => modelOpt
    let flagged := match ws with
      | "n" :: i :: "opt" :: _ => (nat! i) :: st.flagged
      | _ => st.flagged
    let (m, nv) := execNode optF modelFlat st.model st.nvars ws
    -- a skipped remap returns `*this`, i.e. a handle that keeps the optimised flag
    let flagged := match ws with
      | "n" :: i :: "remap" :: t :: _ =>
        if st.flagged.contains (nat! t) && getNode m i == getNode st.model t then (nat! i) :: flagged else flagged
      | _ => flagged
    -- raw tree: same program, no rewriting; opt / flat are the identity, cvars is CONST_VAR
    let rawNode : Nodes :=
      match ws with
      | "n" :: id :: "un" :: op :: a :: _ =>
        setNode st.raw (nat! id) (.un ((Op.ofPName? op).getD Op.invalid) (getNode st.raw a))
      | "n" :: id :: "bin" :: op :: a :: b :: _ =>
        setNode st.raw (nat! id) (.bin ((Op.ofPName? op).getD Op.invalid) (getNode st.raw a) (getNode st.raw b))
      | "n" :: id :: "remap" :: t :: a :: b :: c :: _ =>
        setNode st.raw (nat! id) (.remap (getNode st.raw t) (getNode st.raw a) (getNode st.raw b) (getNode st.raw c))
      | "n" :: id :: "opt" :: a :: _ => setNode st.raw (nat! id) (getNode st.raw a)
      | "n" :: id :: "flat" :: a :: _ => setNode st.raw (nat! id) (getNode st.raw a)
      | "n" :: id :: "cvars" :: a :: _ => setNode st.raw (nat! id) (.un Op.constVar (getNode st.raw a))
      | _ => (execNode id id st.raw st.nvars ws).1
    ({ st with model := m, raw := rawNode, nvars := nv, flagged := flagged }, [])
  | "R" :: "dump" :: id :: "dag" :: rest =>
    match parseDag rest with
    | some real =>
      let m := getNode st.model id
      if m == .invalid || big m || big real then (st, [s!"skip big case {st.case} dump {id}"])
      else if nonFinite m || nonFinite real then (st, [s!"skip nonfinite case {st.case} dump {id}"])
      else if cmpCanon m real then (st, [s!"ok dump case {st.case} node {id}"])
      else (st, [s!"MISMATCH dump case {st.case} node {id} model= {showE (Canon.canon m)} real= {showE (Canon.canon real)}"])
    | none => (st, [s!"MISMATCH parse case {st.case} dump {id}"])
  | "R" :: "eq" :: a :: b :: r :: _ => (st, [s!"eq {st.case} {a} {b} {r}"])
  | "R" :: "tape-of" :: _ :: "deck" :: rest => ({ st with deck := some (parseDeckInfo rest) }, [])
  | "R" :: "tape-clauses" :: id :: "tape" :: rest =>
    match parseTape rest with
    | some T =>
      let o := if wfb T.t then s!"ok tape-wf case {st.case} node {id}"
               else s!"MISMATCH tape-wf case {st.case} node {id}"
      ({ st with tape := some T }, [o])
    | none => (st, [s!"MISMATCH parse case {st.case} tape {id}"])
  | "R" :: "tape-nflat" :: id :: n :: _ =>
    -- tie of the Deck::Deck model (LibfiveModel/Deck.lean): recover the node list from the real deck
    -- (node at position i = expression in slot n - i), test walk()'s specification on it, re-emit the
    -- tape with the model and compare clause by clause with the real one
    match st.deck, st.tape with
    | some d, some T =>
      let n := nat! n
      let nmax := (T.t.map (·.id)).foldl max (max n (max d.x (max d.y d.z)))
      let arr := decompileA d nmax T.t
      let rootE := arr.getD T.root Expr.invalid
      if big rootE then (st, [s!"skip big case {st.case} deckmodel {id}"]) else
      let flat := (List.range n).map fun i => arr.getD (n - i) Expr.invalid
      -- The model identifies nodes structurally, the code by pointer.  When the real node list holds two
      -- DISTINCT nodes that are structurally equal (flatten copies sub-trees per environment and the
      -- optimiser's canonical map does not merge all of them), the real deck has a redundant clause the
      -- model would share: not comparable clause by clause; counted, the decompilation tie still judges it.
      if flat.eraseDups.length != flat.length then (st, [s!"skip dup-nodes case {st.case} deckmodel {id}"]) else
      let spec := Libfive.Deck.topoFlatB flat
      let M := Libfive.Deck.build flat rootE
      let o1 := if spec then s!"ok walk-spec case {st.case} node {id}"
                else s!"MISMATCH walk-spec case {st.case} node {id} n= {n}"
      let o2 := if M.t == T.t && M.root == T.root then s!"ok deckmodel case {st.case} node {id}"
                else s!"MISMATCH deckmodel case {st.case} node {id} model= {dumpTapeS M} real= {dumpTapeS T}"
      (st, [o1, o2])
    | _, _ => (st, [s!"MISMATCH parse case {st.case} tape-nflat {id}"])
  | "R" :: "tape-opt" :: id :: "dag" :: rest =>
    match parseDag rest, st.deck, st.tape with
    | some realOpt, some d, some T =>
      let dec := decompile d T
      if big realOpt || big dec then (st, [s!"skip big case {st.case} tape {id}"]) else
      let o1 := if nonFinite dec || nonFinite realOpt then s!"skip nonfinite case {st.case} deck {id}"
                else if cmpCanon dec realOpt then s!"ok deck case {st.case} node {id}"
                else s!"MISMATCH deck case {st.case} node {id} tape= {showE (Canon.canon dec)} tree= {showE (Canon.canon realOpt)}"
      let m := if st.flagged.contains (nat! id) then getNode st.model id else modelOpt (getNode st.model id)
      let o2 := if m == .invalid then s!"skip big case {st.case} optimize {id}"
                else if nonFinite m || nonFinite realOpt then s!"skip nonfinite case {st.case} optimize {id}"
                else if cmpCanon m realOpt then s!"ok optimize case {st.case} node {id}"
                else s!"MISMATCH optimize case {st.case} node {id} model= {showE (Canon.canon m)} real= {showE (Canon.canon realOpt)}"
      (st, [o1, o2])
    | _, _, _ => (st, [s!"MISMATCH parse case {st.case} tape-opt {id}"])
  | "R" :: "exception" :: rest => (st, [s!"exception case {st.case} {" ".intercalate rest}"])
  | "P" :: kind :: id :: "nv" :: nv :: rest =>
    if kind != "eval" && kind != "batch" then (st, []) else
    let nv := nat! nv
    let varPairs := (List.range nv).map fun i => (rest.getD (2*i) "", rest.getD (2*i+1) "")
    let vals : List (Nat × Float32) := varPairs.filterMap fun (n, h) =>
      (varOf (getNode st.model n)).map fun vi => (vi, F32.ofBits (hexBits h))
    let vars : Nat → Float32 := fun v => match vals.find? (·.1 = v) with
      | some (_, x) => x
      | none => 0
    let rest := rest.drop (2 * nv)
    match rest with
    | "np" :: np :: pts =>
      let np := nat! np
      let t := getNode st.raw id
      if big t then (st, [s!"skip big case {st.case} {kind} {id}"]) else
      let outs := (List.range np).map fun k =>
        let p := (F32.ofBits (hexBits (pts.getD (3*k) "")), F32.ofBits (hexBits (pts.getD (3*k+1) "")),
                  F32.ofBits (hexBits (pts.getD (3*k+2) "")))
        let r := refAt t vars p
        s!"{f64Hex r.v} {f64Hex r.err} {if r.bad then 1 else 0}"
      (st, [s!"ref {st.case} {kind} {id} {np} " ++ " ".intercalate outs])
    | _ => (st, [])
  | _ => (st, [])

def run (_args : List String) (lines : Array String) : Array String := Id.run do
  let mut st : St := {}
  let mut out : Array String := #[]
  for l in lines do
    let (st', o) := handle st l
    st := st'
    for x in o do out := out.push x
  return out

end Driver.C07
