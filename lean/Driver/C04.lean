/-
  C04 driver: the model of `searchEdge` (LibfiveModel/Marching.lean: `search`) against the real
  SimplexMesher::searchEdge (`search`) and HybridMesher::searchEdge (`hsearch`).  Input (harness/mesh.cpp):
    search|hsearch <id> t_real offset z changes f(a) f(b) len slope f(lo) f(hi)
  where `t_real` is the parameter of the vertex the real code returned on the segment a -> b,
  `z` the parameter of the (single) sign change of the double-precision reference field and
  `slope` its derivative there.  The model is run on the classifier `t > z` with the constants
  regenerated from the sources (16 samples, 4 rounds); its midpoint must equal `t_real`.
  Cases where float noise can legitimately move the classifier across a sample are skipped
  (result differs between z - δ and z + δ, grazing crossings, several sign changes).
-/
import Driver.Parse
import LibfiveModel.Marching
open Libfive.Marching Generated.MeshTables

namespace Driver.C04

def digitsToNat (cs : List Char) : Nat := cs.foldl (fun n c => 10 * n + (c.toNat - '0'.toNat)) 0

/-- decimal / scientific notation parser sufficient for printf("%.17g") -/
def float! (s : String) : Float :=
  let cs := s.toList
  let (neg, cs) := match cs with
    | '-' :: r => (true, r)
    | '+' :: r => (false, r)
    | _ => (false, cs)
  let (mant, ex) := cs.span (· != 'e')
  let ex := ex.drop 1
  let exn : Int := match ex with
    | '-' :: r => - (digitsToNat r : Int)
    | '+' :: r => (digitsToNat r : Int)
    | r => (digitsToNat r : Int)
  let (ip, fp) := mant.span (· != '.')
  let fp := fp.drop 1
  let n := digitsToNat (ip ++ fp)
  let e10 : Int := exn - fp.length
  let v := if e10 ≥ 0 then Float.ofScientific (n * 10 ^ e10.toNat) false 0
           else Float.ofScientific n true e10.natAbs
  if neg then -v else v

def lerpF (n : Nat) (lo hi : Float) (j : Nat) : Float :=
  let frac := j.toFloat / (n.toFloat - 1.0)
  lo * (1.0 - frac) + hi * frac

def modelMid (z : Float) : Float :=
  let n := simplexPointsPerSearch
  let q := search (lerpF n) (fun t => t > z) n simplexSearchCount (0.0, 1.0)
  (q.1 + q.2) / 2.0

def handle (line : String) : Option String :=
  match words line with
  | [kind, id, t, off, z, changes, _fa, _fb, len, slope, _flo, _fhi] =>
    if kind != "search" && kind != "hsearch" then none else
    let id := s!"{kind}:{id}"
    let t := float! t
    let z := float! z
    let len := float! len
    let slope := float! slope
    let off := float! off
    if changes != "1" then some s!"skip search {id} sign-changes {changes}"
    else if slope < 0.5 then some s!"skip search {id} grazing slope {slope}"
    else
      let δ := 2e-6
      let m0 := modelMid z
      let m1 := modelMid (z - δ)
      let m2 := modelMid (z + δ)
      if off > 1e-6 then some s!"MISMATCH search {id} vertex-off-segment {off}"
      else if m1 != m2 then some s!"skip search {id} crossing-within-noise-of-a-sample"
      else
        let tol := 1e-6 / len + 1e-7
        if (t - m0).abs ≤ tol then some s!"ok search {id} {m0}"
        else some s!"MISMATCH search {id} model {m0} real {t} z {z} tol {tol}"
  | _ => none

def run (_args : List String) (lines : Array String) : Array String := lines.filterMap handle

end Driver.C04
