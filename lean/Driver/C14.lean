/-
  C14 driver: replays the thread-tagged refcount event log of harness/treethreads.cpp (controlled
  mode: the log is the real total order) through the atomic-step model
  (LibfiveModel/RefCountConc.lean: `cstep`).  Every observed value must be the model's current
  count, a delete must come from the thread that observed 1 → 0, no event may touch a dying or
  freed node.  Output: `ok …` / `MISMATCH …`.
-/
import Driver.Parse
import LibfiveModel.RefCountConc
open Libfive Libfive.RCC

namespace Driver.C14

def parseEv (ws : List String) : Option Ev :=
  match ws with
  | [t, k, n, old] =>
    match n.toNat? with
    | none => none          -- "-1": event on a node the harness never saw allocated
    | some n =>
      let t := nat! t
      match k with
      | "1" => some (.add t n (nat! old))
      | "2" => some (.sub t n (nat! old))
      | "3" => some (.alloc t n)
      | "4" => some (.del t n)
      | _ => none
  | _ => none

def run (_args : List String) (lines : Array String) : Array String := Id.run do
  let mut out : Array String := #[]
  let mut s : CState := #[]
  let mut n := 0
  let mut bad := false
  let mut threads : List Nat := []
  let mut dels := 0
  let mut switches := 0
  let mut lastT := 0
  for line in lines do
    match words line with
    | "ev" :: rest =>
      if !bad then
        match parseEv rest with
        | none =>
          bad := true
          out := out.push s!"MISMATCH event {n} unparsable / unknown node: {line}"
        | some e =>
          if !threads.contains e.tid then threads := e.tid :: threads
          if e.tid != lastT then switches := switches + 1
          lastT := e.tid
          match cstep s e with
          | some s' =>
            s := s'
            match e with
            | .del _ _ => dels := dels + 1
            | _ => pure ()
          | none =>
            bad := true
            out := out.push s!"MISMATCH event {n} rejected by the atomic-step model: {line} ; cell before = {repr (s[e.node]?)}"
        n := n + 1
    | "done" :: _ =>
      if !bad then
        -- end of run: every node is freed or still owned (live with rc ≥ 1); nothing is left dying
        let dying := s.foldl (fun c x => match x with | .dying _ => c + 1 | _ => c) 0
        let zero := s.foldl (fun c x => match x with | .live 0 => c + 1 | _ => c) 0
        if dying != 0 || zero != 0 then
          out := out.push s!"MISMATCH end of trace: {dying} nodes dying without delete, {zero} live nodes with count 0"
        else
          out := out.push s!"ok trace events {n} nodes {s.size} deletes {dels} threads {threads.length} switches {switches}"
    | _ => pure ()
  return out

end Driver.C14
